import Mathlib.Data.Matrix.Basic
import Mathlib.Data.Matrix.Mul
import Mathlib.Data.Matrix.Diagonal
import Mathlib.LinearAlgebra.Matrix.ConjTranspose
import Mathlib.LinearAlgebra.Matrix.Trace
import Mathlib.Algebra.Star.Basic
import Mathlib.Algebra.BigOperators.Fin
import Mathlib.Data.Fin.Tuple.Basic
import Mathlib.Data.List.OfFn
import YaqsModel.Lemmas.LocalExpect

/-!
# The two-site matrix of `MPS.get_entropy` / `MPS.get_schmidt_spectrum` carries the Schmidt data of the cut

Helper layer for the entropy / Schmidt-spectrum theorems of `Props/C11.lean` (Mathlib matrices over any commutative
star ring `K`).

`get_entropy([i, i+1])` computes `theta = tensordot(a, b, axes=(2, 1))` of the site tensors `a = tensors[i]`
(shape `(d, χ_l, χ)`) and `b = tensors[i+1]` (shape `(d', χ, χ_r)`), reshapes it to the matrix
`M[(σ, l), (τ, r)] = Σ_c a[σ, l, c] · b[τ, c, r]` (`thetaM`) and takes its singular values.

The dense state is written with *blocks*: `Lf τ_L` is the product of the site matrices of sites `0 … i-1` for the
left configuration `τ_L` (a `χ_0 × χ_l` matrix; `χ_0 = 1` for a state), `Rf τ_R` the product for sites `i+2 … L-1`
(`χ_r × χ_L`).  The amplitude matrix of the cut between sites `i` and `i+1` is
`Ψ[((τ_L, σ), a), ((τ, τ_R), b)] = (Lf τ_L · A σ · B τ · Rf τ_R)[a, b]` (`psiM`; `a`, `b` are the outer boundary
indices, a single value for a state).  The bond index types are all different here (`ιa, ι, κ, ι', ιb`): nothing is
padded, the matrices are rectangular.
-/

set_option linter.unusedSectionVars false

namespace Yaqs.Schmidt
open Matrix

variable {K : Type*} [CommRing K] [StarRing K]
variable {α β σ σ' ιa ι κ ι' ιb : Type*}
variable [Fintype α] [Fintype β] [Fintype σ] [Fintype σ'] [Fintype ιa] [Fintype ι] [Fintype κ] [Fintype ι'] [Fintype ιb]
variable [DecidableEq α] [DecidableEq β] [DecidableEq σ] [DecidableEq σ'] [DecidableEq ιa] [DecidableEq ι] [DecidableEq κ]
  [DecidableEq ι'] [DecidableEq ιb]

/-- `theta.reshape(left * phys_i, phys_j * right)` of `get_entropy` / `get_schmidt_spectrum`:
    rows `(σ, l)` (physical index of site `i` major — `theta` has axes `(phys_i, left, phys_j, right)`),
    columns `(τ, r)` -/
def thetaM (A : σ → Matrix ι κ K) (B : σ' → Matrix κ ι' K) : Matrix (σ × ι) (σ' × ι') K :=
  fun p q => (A p.1 * B q.1) p.2 q.2

/-- dense amplitude matrix of the cut: rows = (configuration of sites `0..i`, left boundary index),
    columns = (configuration of sites `i+1..L-1`, right boundary index) -/
def psiM (Lf : α → Matrix ιa ι K) (A : σ → Matrix ι κ K) (B : σ' → Matrix κ ι' K) (Rf : β → Matrix ι' ιb K) :
    Matrix ((α × σ) × ιa) ((σ' × β) × ιb) K :=
  fun p q => (Lf p.1.1 * A p.1.2 * B q.1.1 * Rf q.1.2) p.2 q.2

/-- the left block as a matrix: `P[((τ_L, σ), a), (σ', l)] = δ_{σσ'} · Lf(τ_L)[a, l]` -/
def leftP (Lf : α → Matrix ιa ι K) : Matrix ((α × σ) × ιa) (σ × ι) K :=
  fun p q => if p.1.2 = q.1 then Lf p.1.1 p.2 q.2 else 0

/-- the right block as a matrix: `Q[(τ', r), ((τ, τ_R), b)] = δ_{ττ'} · Rf(τ_R)[r, b]` -/
def rightQ (Rf : β → Matrix ι' ιb K) : Matrix (σ' × ι') ((σ' × β) × ιb) K :=
  fun p q => if p.1 = q.1.1 then Rf q.1.2 p.2 q.2 else 0

/-- `1_σ ⊗ E` -/
def kronOne (E : Matrix ι ι K) : Matrix (σ × ι) (σ × ι) K :=
  fun p q => if p.1 = q.1 then E p.2 q.2 else 0

theorem kronOne_one : kronOne (σ := σ) (1 : Matrix ι ι K) = 1 := by
  ext ⟨s, l⟩ ⟨t, r⟩
  simp only [kronOne, Matrix.one_apply, Prod.mk.injEq]
  by_cases h : s = t <;> simp [h]

theorem leftP_mul {ρ : Type*} (Lf : α → Matrix ιa ι K) (X : Matrix (σ × ι) ρ K) (p : (α × σ) × ιa) (q : ρ) :
    (leftP Lf * X : Matrix ((α × σ) × ιa) ρ K) p q = ∑ l, Lf p.1.1 p.2 l * X (p.1.2, l) q := by
  simp only [Matrix.mul_apply, leftP, Fintype.sum_prod_type, ite_mul, zero_mul]
  rw [Finset.sum_eq_single p.1.2]
  · simp
  · intro s _ hs; simp [Ne.symm hs]
  · simp

theorem mul_rightQ {ρ : Type*} (Rf : β → Matrix ι' ιb K) (X : Matrix ρ (σ' × ι') K) (p : ρ) (q : (σ' × β) × ιb) :
    (X * rightQ Rf : Matrix ρ ((σ' × β) × ιb) K) p q = ∑ r, X p (q.1.1, r) * Rf q.1.2 r q.2 := by
  simp only [Matrix.mul_apply, rightQ, Fintype.sum_prod_type, mul_ite, mul_zero]
  rw [Finset.sum_eq_single q.1.1]
  · simp
  · intro s _ hs; simp [hs]
  · simp

/-- **cut factorisation**: `Ψ = P · M · Q` with `M` the matrix the code hands to the SVD -/
theorem psiM_eq (Lf : α → Matrix ιa ι K) (A : σ → Matrix ι κ K) (B : σ' → Matrix κ ι' K) (Rf : β → Matrix ι' ιb K) :
    psiM Lf A B Rf = leftP Lf * thetaM A B * rightQ Rf := by
  ext ⟨⟨τL, s⟩, a⟩ ⟨⟨t, τR⟩, b⟩
  rw [mul_rightQ]
  simp only [leftP_mul, psiM, thetaM]
  rw [Matrix.mul_apply]
  refine Finset.sum_congr rfl fun r _ => ?_
  congr 1
  rw [Matrix.mul_assoc, Matrix.mul_apply]

theorem leftP_gram (Lf : α → Matrix ιa ι K) :
    (leftP (σ := σ) Lf)ᴴ * leftP Lf = kronOne (∑ a, (Lf a)ᴴ * Lf a) := by
  ext ⟨s, l⟩ ⟨t, r⟩
  simp only [Matrix.mul_apply, Matrix.conjTranspose_apply, leftP, kronOne, Fintype.sum_prod_type, Matrix.sum_apply]
  by_cases h : s = t
  · subst h
    simp only [if_true]
    refine Finset.sum_congr rfl fun a _ => ?_
    rw [Finset.sum_eq_single s]
    · simp
    · intro u _ hu; simp [hu]
    · simp
  · simp only [h, if_false]
    refine Finset.sum_eq_zero fun a _ => Finset.sum_eq_zero fun u _ => Finset.sum_eq_zero fun x _ => ?_
    by_cases h1 : u = s
    · have : ¬ u = t := fun h2 => h (h1 ▸ h2)
      simp [this]
    · simp [h1]

theorem rightQ_gram (Rf : β → Matrix ι' ιb K) :
    rightQ (σ' := σ') Rf * (rightQ Rf)ᴴ = kronOne (∑ b, Rf b * (Rf b)ᴴ) := by
  ext ⟨s, l⟩ ⟨t, r⟩
  simp only [Matrix.mul_apply, Matrix.conjTranspose_apply, rightQ, kronOne, Fintype.sum_prod_type, Matrix.sum_apply]
  by_cases h : s = t
  · subst h
    simp only [if_true]
    rw [Finset.sum_eq_single s]
    · simp
    · intro u _ hu; simp [Ne.symm hu]
    · simp
  · simp only [h, if_false]
    refine Finset.sum_eq_zero fun u _ => Finset.sum_eq_zero fun b _ => Finset.sum_eq_zero fun x _ => ?_
    by_cases h1 : s = u
    · have : ¬ t = u := fun h2 => h (h1.trans h2.symm)
      simp [this]
    · simp [h1]

/-- left-isometric blocks give an isometry `P` -/
theorem leftP_isometry (Lf : α → Matrix ιa ι K) (h : ∑ a, (Lf a)ᴴ * Lf a = 1) :
    (leftP (σ := σ) Lf)ᴴ * leftP (σ := σ) Lf = 1 := by
  rw [leftP_gram, h, kronOne_one]

/-- right-isometric blocks give a co-isometry `Q` -/
theorem rightQ_coisometry (Rf : β → Matrix ι' ιb K) (h : ∑ b, Rf b * (Rf b)ᴴ = 1) :
    rightQ (σ' := σ') Rf * (rightQ (σ' := σ') Rf)ᴴ = 1 := by
  rw [rightQ_gram, h, kronOne_one]

/-- `M · (1 ⊗ E_R)` is the two-site matrix with `B` replaced by `B · E_R` -/
theorem thetaM_mul_kronOne (A : σ → Matrix ι κ K) (B : σ' → Matrix κ ι' K) (E : Matrix ι' ι' K) :
    thetaM A B * kronOne (σ := σ') E = thetaM A (fun t => B t * E) := by
  ext ⟨s, l⟩ ⟨t, r⟩
  simp only [Matrix.mul_apply, thetaM, kronOne, Fintype.sum_prod_type, mul_ite, mul_zero]
  rw [Finset.sum_eq_single t]
  · simp only [if_true, Finset.sum_mul, Finset.mul_sum]
    rw [Finset.sum_comm]
    simp only [mul_assoc]
  · intro u _ hu; simp [hu]
  · simp

/-- `(1 ⊗ E_L) · M` is the two-site matrix with `A` replaced by `E_L · A` -/
theorem kronOne_mul_thetaM (A : σ → Matrix ι κ K) (B : σ' → Matrix κ ι' K) (E : Matrix ι ι K) :
    kronOne (σ := σ) E * thetaM A B = thetaM (fun s => E * A s) B := by
  ext ⟨s, l⟩ ⟨t, r⟩
  simp only [Matrix.mul_apply, thetaM, kronOne, Fintype.sum_prod_type, ite_mul, zero_mul]
  rw [Finset.sum_eq_single s]
  · simp only [if_true, Finset.sum_mul, Finset.mul_sum]
    rw [Finset.sum_comm]
    simp only [mul_assoc]
  · intro u _ hu; simp [Ne.symm hu]
  · simp

/-! ### isometric images of a diagonal matrix: eigen-equation and power traces -/

section Spectrum
variable {m n k : Type*} [Fintype m] [Fintype n] [Fintype k] [DecidableEq m] [DecidableEq n] [DecidableEq k]

theorem iso_conj_pow (W : Matrix m k K) (D : Matrix k k K) (hW : Wᴴ * W = 1) (j : ℕ) :
    (W * D * Wᴴ) ^ (j + 1) = W * D ^ (j + 1) * Wᴴ := by
  induction j with
  | zero => simp
  | succ j ih =>
    rw [pow_succ, ih, pow_succ D (j + 1)]
    calc W * D ^ (j + 1) * Wᴴ * (W * D * Wᴴ)
        = W * D ^ (j + 1) * ((Wᴴ * W) * D) * Wᴴ := by simp only [Matrix.mul_assoc]
      _ = W * (D ^ (j + 1) * D) * Wᴴ := by rw [hW, Matrix.one_mul]; simp only [Matrix.mul_assoc]

theorem iso_conj_pow_trace (W : Matrix m k K) (d : k → K) (hW : Wᴴ * W = 1) (j : ℕ) :
    trace ((W * diagonal d * Wᴴ) ^ (j + 1)) = ∑ i, d i ^ (j + 1) := by
  rw [iso_conj_pow W _ hW, Matrix.mul_assoc, trace_mul_comm, Matrix.mul_assoc, hW, Matrix.mul_one,
    Matrix.diagonal_pow, trace_diagonal]
  rfl

end Spectrum

/-! ### Gram matrices (reduced density matrices) through the factorisation and the SVD spec -/

section Gram
variable {m n r c k : Type*} [Fintype m] [Fintype n] [Fintype r] [Fintype c] [Fintype k]
  [DecidableEq m] [DecidableEq n] [DecidableEq r] [DecidableEq c] [DecidableEq k]

theorem gram_left (Ψ : Matrix m n K) (P : Matrix m r K) (M : Matrix r c K) (Q : Matrix c n K)
    (hΨ : Ψ = P * M * Q) (hQ : M * (Q * Qᴴ) = M) : Ψ * Ψᴴ = P * (M * Mᴴ) * Pᴴ := by
  subst hΨ
  simp only [Matrix.conjTranspose_mul]
  calc P * M * Q * (Qᴴ * (Mᴴ * Pᴴ)) = P * ((M * (Q * Qᴴ)) * Mᴴ) * Pᴴ := by simp only [Matrix.mul_assoc]
    _ = _ := by rw [hQ]

theorem gram_right (Ψ : Matrix m n K) (P : Matrix m r K) (M : Matrix r c K) (Q : Matrix c n K)
    (hΨ : Ψ = P * M * Q) (hP : (Pᴴ * P) * M = M) : Ψᴴ * Ψ = Qᴴ * (Mᴴ * M) * Q := by
  subst hΨ
  simp only [Matrix.conjTranspose_mul]
  calc Qᴴ * (Mᴴ * Pᴴ) * (P * M * Q) = Qᴴ * (Mᴴ * ((Pᴴ * P) * M)) * Q := by simp only [Matrix.mul_assoc]
    _ = _ := by rw [hP]

/-- with the SVD spec `M = U · diag(s) · V`, `V Vᴴ = 1`, `s` real: `M Mᴴ = U · diag(s²) · Uᴴ` -/
theorem svd_gram_left (M : Matrix r c K) (U : Matrix r k K) (s : k → K) (V : Matrix k c K)
    (hM : M = U * diagonal s * V) (hV : V * Vᴴ = 1) (hs : ∀ i, star (s i) = s i) :
    M * Mᴴ = U * diagonal (fun i => s i ^ 2) * Uᴴ := by
  subst hM
  have hd : (diagonal s)ᴴ = diagonal s := by
    rw [Matrix.diagonal_conjTranspose]; congr 1; funext i; exact hs i
  simp only [Matrix.conjTranspose_mul, hd]
  calc U * diagonal s * V * (Vᴴ * (diagonal s * Uᴴ))
      = U * (diagonal s * ((V * Vᴴ) * diagonal s)) * Uᴴ := by simp only [Matrix.mul_assoc]
    _ = _ := by rw [hV, Matrix.one_mul, Matrix.diagonal_mul_diagonal]; simp only [pow_two]

/-- with the SVD spec `M = U · diag(s) · V`, `Uᴴ U = 1`, `s` real: `Mᴴ M = Vᴴ · diag(s²) · V` -/
theorem svd_gram_right (M : Matrix r c K) (U : Matrix r k K) (s : k → K) (V : Matrix k c K)
    (hM : M = U * diagonal s * V) (hU : Uᴴ * U = 1) (hs : ∀ i, star (s i) = s i) :
    Mᴴ * M = Vᴴ * diagonal (fun i => s i ^ 2) * V := by
  subst hM
  have hd : (diagonal s)ᴴ = diagonal s := by
    rw [Matrix.diagonal_conjTranspose]; congr 1; funext i; exact hs i
  simp only [Matrix.conjTranspose_mul, hd]
  calc Vᴴ * (diagonal s * Uᴴ) * (U * diagonal s * V)
      = Vᴴ * (diagonal s * ((Uᴴ * U) * diagonal s)) * V := by simp only [Matrix.mul_assoc]
    _ = _ := by rw [hU, Matrix.one_mul, Matrix.diagonal_mul_diagonal]; simp only [pow_two]

end Gram

/-! ### the blocks of a chain of site tensors (uniform bond type, as in `Lemmas/LocalExpect.lean`) -/

section Chain
open Yaqs.LocalExpect
variable {ι σ : Type*} [Fintype ι] [DecidableEq ι] [Fintype σ] [DecidableEq σ]

theorem chain_append (pre X : List (MSite σ ι K)) (τ ρ : List σ) (h : pre.length = τ.length) :
    chain (pre ++ X) (τ ++ ρ) = chain pre τ * chain X ρ := by
  induction pre generalizing τ with
  | nil =>
    cases τ with
    | nil => simp [chain]
    | cons t τ => simp at h
  | cons B pre ih =>
    cases τ with
    | nil => simp at h
    | cons t τ =>
      simp only [List.cons_append, chain]
      rw [ih τ (by simpa using h), Matrix.mul_assoc]

/-- the product of the site matrices of a block of sites for the configuration `τ` -/
def block (ts : List (MSite σ ι K)) (τ : Fin ts.length → σ) : Matrix ι ι K := chain ts (List.ofFn τ)

theorem sum_pi_succ {M : Type*} [AddCommMonoid M] {n : ℕ} (f : (Fin (n + 1) → σ) → M) :
    ∑ τ, f τ = ∑ s, ∑ τ' : Fin n → σ, f (Fin.cons s τ') := by
  rw [← Fintype.sum_prod_type' (f := fun s (τ' : Fin n → σ) => f (Fin.cons s τ'))]
  exact (Fintype.sum_equiv (Fin.consEquiv fun _ => σ) _ _ (fun _ => rfl)).symm

theorem block_cons (B : MSite σ ι K) (ts : List (MSite σ ι K)) (s : σ) (τ : Fin ts.length → σ) :
    block (B :: ts) (Fin.cons s τ : Fin (ts.length + 1) → σ) = B s * block ts τ := by
  unfold block
  rw [List.ofFn_succ]
  simp [chain]

/-- `Σ_τ (Π pre[τ])ᴴ · E · (Π pre[τ])` is the left environment of `Lemmas/LocalExpect.lean` -/
theorem sum_block_left (pre : List (MSite σ ι K)) (E : Matrix ι ι K) :
    ∑ τ, (block pre τ)ᴴ * E * block pre τ = envL E pre := by
  induction pre generalizing E with
  | nil => simp [block, chain, envL]
  | cons B rest ih =>
    show ∑ τ : Fin (rest.length + 1) → σ, _ = _
    rw [sum_pi_succ]
    simp only [block_cons, envL, transfer]
    rw [← ih, Finset.sum_comm]
    refine Finset.sum_congr rfl fun τ _ => ?_
    rw [Matrix.mul_sum, Matrix.sum_mul]
    refine Finset.sum_congr rfl fun s _ => ?_
    simp only [Matrix.conjTranspose_mul, Matrix.mul_assoc]

/-- `Σ_τ (Π post[τ]) · (Π post[τ])ᴴ` is the right environment of `Lemmas/LocalExpect.lean` -/
theorem sum_block_right (post : List (MSite σ ι K)) :
    ∑ τ, block post τ * (block post τ)ᴴ = envR post := by
  induction post with
  | nil => simp [block, chain, envR]
  | cons B rest ih =>
    show ∑ τ : Fin (rest.length + 1) → σ, _ = _
    rw [sum_pi_succ]
    simp only [block_cons, envR]
    refine Finset.sum_congr rfl fun s _ => ?_
    rw [← ih, Matrix.mul_sum, Matrix.sum_mul]
    refine Finset.sum_congr rfl fun τ _ => ?_
    simp only [Matrix.conjTranspose_mul, Matrix.mul_assoc]

/-- the entries of `psiM` built from the blocks of a chain are the amplitudes of the chain -/
theorem psiM_chain (pre post : List (MSite σ ι K)) (A B : MSite σ ι K)
    (τL : Fin pre.length → σ) (s t : σ) (τR : Fin post.length → σ) (a b : ι) :
    psiM (block pre) A B (block post) ((τL, s), a) ((t, τR), b)
      = chain (pre ++ A :: B :: post) (List.ofFn τL ++ s :: t :: List.ofFn τR) a b := by
  rw [chain_append _ _ _ _ (by simp)]
  simp only [psiM, block, chain, Matrix.mul_assoc]

end Chain

end Yaqs.Schmidt
