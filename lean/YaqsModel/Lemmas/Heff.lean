import YaqsModel.Model.Heff
import YaqsModel.Lemmas.CRat
import Mathlib.Algebra.BigOperators.Ring.Finset
import Mathlib.Algebra.BigOperators.Intervals
import Mathlib.Algebra.Star.BigOperators
import Mathlib.Tactic.Ring

/-! helper lemmas for `Model/Heff.lean`: the model's `sumTo` is a `Finset.range` sum, row-major flattening is a
    bijection, a sum over a flattened index is the nested sum over its components, and the index algebra of the
    dense / matrix-free effective Hamiltonians (used by `Props/C19.lean`) -/
namespace Yaqs.Heff

open Finset

section sums
variable {K : Type*} [CommSemiring K]

theorem sumTo_eq_sum (n : ℕ) (f : ℕ → K) : sumTo n f = ∑ i ∈ range n, f i := by
  induction n with
  | zero => simp [sumTo]
  | succ n ih => rw [sumTo, ih, Finset.sum_range_succ]

theorem sum_range_mul (a b : ℕ) (f : ℕ → K) :
    ∑ n ∈ range (a * b), f n = ∑ i ∈ range a, ∑ j ∈ range b, f (i * b + j) := by
  induction a with
  | zero => simp
  | succ a ih => rw [Nat.succ_mul, Finset.sum_range_add, ih, Finset.sum_range_succ]

theorem sum_range_flat2 (d0 d1 : ℕ) (f : ℕ → K) :
    ∑ n ∈ range (d0 * d1), f n = ∑ i ∈ range d0, ∑ j ∈ range d1, f (flat2 d1 i j) :=
  sum_range_mul d0 d1 f

theorem sum_range_flat3 (d0 d1 d2 : ℕ) (f : ℕ → K) :
    ∑ n ∈ range (d0 * d1 * d2), f n =
      ∑ i ∈ range d0, ∑ j ∈ range d1, ∑ k ∈ range d2, f (flat3 d1 d2 i j k) := by
  rw [sum_range_mul (d0 * d1) d2, sum_range_mul d0 d1]
  rfl

end sums

/-! ### flattening is a bijection -/

theorem unflat2_flat2 (d1 i j : ℕ) (hj : j < d1) : unflat2 d1 (flat2 d1 i j) = (i, j) := by
  unfold unflat2 flat2
  have h1 : (i * d1 + j) / d1 = i := by
    rw [Nat.add_comm, Nat.add_mul_div_right _ _ (by omega), Nat.div_eq_of_lt hj, Nat.zero_add]
  have h2 : (i * d1 + j) % d1 = j := by
    rw [Nat.add_comm, Nat.add_mul_mod_self_right, Nat.mod_eq_of_lt hj]
  rw [h1, h2]

theorem flat2_unflat2 (d1 n : ℕ) : flat2 d1 (unflat2 d1 n).1 (unflat2 d1 n).2 = n := by
  unfold unflat2 flat2
  simp only
  rw [Nat.mul_comm]
  exact Nat.div_add_mod n d1

theorem flat2_lt (d0 d1 i j : ℕ) (hi : i < d0) (hj : j < d1) : flat2 d1 i j < d0 * d1 := by
  unfold flat2
  calc i * d1 + j < i * d1 + d1 := by omega
    _ = (i + 1) * d1 := by ring
    _ ≤ d0 * d1 := Nat.mul_le_mul_right _ hi

theorem unflat2_lt (d0 d1 n : ℕ) (hn : n < d0 * d1) : (unflat2 d1 n).1 < d0 ∧ (unflat2 d1 n).2 < d1 := by
  unfold unflat2
  have hd1 : 0 < d1 := by
    rcases Nat.eq_zero_or_pos d1 with h | h
    · subst h; simp at hn
    · exact h
  exact ⟨(Nat.div_lt_iff_lt_mul hd1).mpr hn, Nat.mod_lt _ hd1⟩

theorem unflat3_flat3 (d1 d2 i j k : ℕ) (hj : j < d1) (hk : k < d2) :
    unflat3 d1 d2 (flat3 d1 d2 i j k) = (i, j, k) := by
  have h := unflat2_flat2 d2 (i * d1 + j) k hk
  have h' := unflat2_flat2 d1 i j hj
  unfold unflat2 flat2 at h h'
  unfold unflat3 flat3
  have e1 : ((i * d1 + j) * d2 + k) / d2 = i * d1 + j := congrArg Prod.fst h
  have e2 : ((i * d1 + j) * d2 + k) % d2 = k := congrArg Prod.snd h
  have e3 : (i * d1 + j) / d1 = i := congrArg Prod.fst h'
  have e4 : (i * d1 + j) % d1 = j := congrArg Prod.snd h'
  rw [Nat.mul_comm d1 d2, ← Nat.div_div_eq_div_mul, e1, e2, e3, e4]

theorem flat3_unflat3 (d1 d2 n : ℕ) :
    flat3 d1 d2 (unflat3 d1 d2 n).1 (unflat3 d1 d2 n).2.1 (unflat3 d1 d2 n).2.2 = n := by
  unfold unflat3 flat3
  simp only
  rw [Nat.mul_comm d1 d2, ← Nat.div_div_eq_div_mul]
  have h1 : n / d2 / d1 * d1 + n / d2 % d1 = n / d2 := by
    rw [Nat.mul_comm]; exact Nat.div_add_mod _ _
  rw [h1, Nat.mul_comm]
  exact Nat.div_add_mod n d2

theorem flat3_lt (d0 d1 d2 i j k : ℕ) (hi : i < d0) (hj : j < d1) (hk : k < d2) :
    flat3 d1 d2 i j k < d0 * d1 * d2 :=
  flat2_lt (d0 * d1) d2 (i * d1 + j) k (flat2_lt d0 d1 i j hi hj) hk

theorem unflat3_lt (d0 d1 d2 n : ℕ) (hn : n < d0 * d1 * d2) :
    (unflat3 d1 d2 n).1 < d0 ∧ (unflat3 d1 d2 n).2.1 < d1 ∧ (unflat3 d1 d2 n).2.2 < d2 := by
  obtain ⟨h1, h2⟩ := unflat2_lt (d0 * d1) d2 n hn
  obtain ⟨h3, h4⟩ := unflat2_lt d0 d1 (n / d2) h1
  unfold unflat2 at h2 h3 h4
  unfold unflat3
  refine ⟨?_, h4, h2⟩
  simp only
  rw [Nat.mul_comm d1 d2, ← Nat.div_div_eq_div_mul]
  exact h3

/-! ### index algebra of the effective Hamiltonians -/

section algebra
variable {K : Type*} [CommSemiring K]

/-- the contraction `Σ_{p,a,b} h6[o,A,B,p,a,b] · X[p,a,b]` is what `project_site` computes -/
theorem h6_contract (d : SiteDims) (L R : ℕ → ℕ → ℕ → K) (W : ℕ → ℕ → ℕ → ℕ → K) (A : ℕ → ℕ → ℕ → K)
    (o A' B : ℕ) :
    ∑ p ∈ range d.p, ∑ a ∈ range d.a, ∑ b ∈ range d.b, h6 d L R W o A' B p a b * A p a b =
      projectSite d L R W A o A' B := by
  unfold h6 projectSite
  simp only [sumTo_eq_sum, Finset.sum_mul, Finset.mul_sum]
  -- order (p a b l r) → (a l p r b)
  rw [Finset.sum_comm]
  refine Finset.sum_congr rfl fun a _ => ?_
  -- (p b l r) → (l p r b)
  calc ∑ p ∈ range d.p, ∑ b ∈ range d.b, ∑ l ∈ range d.l, ∑ r ∈ range d.r,
          W o p l r * L a l A' * R b r B * A p a b
      = ∑ p ∈ range d.p, ∑ l ∈ range d.l, ∑ b ∈ range d.b, ∑ r ∈ range d.r,
          W o p l r * L a l A' * R b r B * A p a b :=
        Finset.sum_congr rfl fun p _ => Finset.sum_comm
    _ = ∑ l ∈ range d.l, ∑ p ∈ range d.p, ∑ b ∈ range d.b, ∑ r ∈ range d.r,
          W o p l r * L a l A' * R b r B * A p a b := Finset.sum_comm
    _ = ∑ l ∈ range d.l, ∑ p ∈ range d.p, ∑ r ∈ range d.r, ∑ b ∈ range d.b,
          W o p l r * L a l A' * R b r B * A p a b :=
        Finset.sum_congr rfl fun l _ => Finset.sum_congr rfl fun p _ => Finset.sum_comm
    _ = _ := by
        refine Finset.sum_congr rfl fun l _ => Finset.sum_congr rfl fun p _ => Finset.sum_congr rfl fun r _ =>
          Finset.sum_congr rfl fun b _ => ?_
        ring

/-! adjacent transpositions of nested sums at depth `k` (for reordering deep contractions by `rw`) -/
theorem sw0 (s t : Finset ℕ) (f : ℕ → ℕ → K) :
    ∑ i ∈ s, ∑ j ∈ t, f i j = ∑ j ∈ t, ∑ i ∈ s, f i j := Finset.sum_comm
theorem sw1 (s0 s t : Finset ℕ) (f : ℕ → ℕ → ℕ → K) :
    ∑ x0 ∈ s0, ∑ i ∈ s, ∑ j ∈ t, f x0 i j = ∑ x0 ∈ s0, ∑ j ∈ t, ∑ i ∈ s, f x0 i j :=
  Finset.sum_congr rfl fun _ _ => sw0 _ _ _
theorem sw2 (s0 s1 s t : Finset ℕ) (f : ℕ → ℕ → ℕ → ℕ → K) :
    ∑ x0 ∈ s0, ∑ x1 ∈ s1, ∑ i ∈ s, ∑ j ∈ t, f x0 x1 i j = ∑ x0 ∈ s0, ∑ x1 ∈ s1, ∑ j ∈ t, ∑ i ∈ s, f x0 x1 i j :=
  Finset.sum_congr rfl fun _ _ => sw1 _ _ _ _
theorem sw3 (s0 s1 s2 s t : Finset ℕ) (f : ℕ → ℕ → ℕ → ℕ → ℕ → K) :
    ∑ x0 ∈ s0, ∑ x1 ∈ s1, ∑ x2 ∈ s2, ∑ i ∈ s, ∑ j ∈ t, f x0 x1 x2 i j =
      ∑ x0 ∈ s0, ∑ x1 ∈ s1, ∑ x2 ∈ s2, ∑ j ∈ t, ∑ i ∈ s, f x0 x1 x2 i j :=
  Finset.sum_congr rfl fun _ _ => sw2 _ _ _ _ _
theorem sw4 (s0 s1 s2 s3 s t : Finset ℕ) (f : ℕ → ℕ → ℕ → ℕ → ℕ → ℕ → K) :
    ∑ x0 ∈ s0, ∑ x1 ∈ s1, ∑ x2 ∈ s2, ∑ x3 ∈ s3, ∑ i ∈ s, ∑ j ∈ t, f x0 x1 x2 x3 i j =
      ∑ x0 ∈ s0, ∑ x1 ∈ s1, ∑ x2 ∈ s2, ∑ x3 ∈ s3, ∑ j ∈ t, ∑ i ∈ s, f x0 x1 x2 x3 i j :=
  Finset.sum_congr rfl fun _ _ => sw3 _ _ _ _ _ _
theorem sw5 (s0 s1 s2 s3 s4 s t : Finset ℕ) (f : ℕ → ℕ → ℕ → ℕ → ℕ → ℕ → ℕ → K) :
    ∑ x0 ∈ s0, ∑ x1 ∈ s1, ∑ x2 ∈ s2, ∑ x3 ∈ s3, ∑ x4 ∈ s4, ∑ i ∈ s, ∑ j ∈ t, f x0 x1 x2 x3 x4 i j =
      ∑ x0 ∈ s0, ∑ x1 ∈ s1, ∑ x2 ∈ s2, ∑ x3 ∈ s3, ∑ x4 ∈ s4, ∑ j ∈ t, ∑ i ∈ s, f x0 x1 x2 x3 x4 i j :=
  Finset.sum_congr rfl fun _ _ => sw4 _ _ _ _ _ _ _
theorem sw6 (s0 s1 s2 s3 s4 s5 s t : Finset ℕ) (f : ℕ → ℕ → ℕ → ℕ → ℕ → ℕ → ℕ → ℕ → K) :
    ∑ x0 ∈ s0, ∑ x1 ∈ s1, ∑ x2 ∈ s2, ∑ x3 ∈ s3, ∑ x4 ∈ s4, ∑ x5 ∈ s5, ∑ i ∈ s, ∑ j ∈ t, f x0 x1 x2 x3 x4 x5 i j =
      ∑ x0 ∈ s0, ∑ x1 ∈ s1, ∑ x2 ∈ s2, ∑ x3 ∈ s3, ∑ x4 ∈ s4, ∑ x5 ∈ s5, ∑ j ∈ t, ∑ i ∈ s, f x0 x1 x2 x3 x4 x5 i j :=
  Finset.sum_congr rfl fun _ _ => sw5 _ _ _ _ _ _ _ _

/-- the permutation of five nested sums used by the conjugate-symmetry lemmas: old positions `[3,5,1,4,2]` -/
theorem sum5_perm (s1 s2 s3 s4 s5 : Finset ℕ) (f : ℕ → ℕ → ℕ → ℕ → ℕ → K) :
    ∑ x1 ∈ s1, ∑ x2 ∈ s2, ∑ x3 ∈ s3, ∑ x4 ∈ s4, ∑ x5 ∈ s5, f x1 x2 x3 x4 x5 =
      ∑ x3 ∈ s3, ∑ x5 ∈ s5, ∑ x1 ∈ s1, ∑ x4 ∈ s4, ∑ x2 ∈ s2, f x1 x2 x3 x4 x5 := by
  calc ∑ x1 ∈ s1, ∑ x2 ∈ s2, ∑ x3 ∈ s3, ∑ x4 ∈ s4, ∑ x5 ∈ s5, f x1 x2 x3 x4 x5
      = ∑ x1 ∈ s1, ∑ x3 ∈ s3, ∑ x2 ∈ s2, ∑ x4 ∈ s4, ∑ x5 ∈ s5, f x1 x2 x3 x4 x5 :=
        Finset.sum_congr rfl fun _ _ => Finset.sum_comm
    _ = ∑ x3 ∈ s3, ∑ x1 ∈ s1, ∑ x2 ∈ s2, ∑ x4 ∈ s4, ∑ x5 ∈ s5, f x1 x2 x3 x4 x5 := Finset.sum_comm
    _ = ∑ x3 ∈ s3, ∑ x1 ∈ s1, ∑ x4 ∈ s4, ∑ x2 ∈ s2, ∑ x5 ∈ s5, f x1 x2 x3 x4 x5 :=
        Finset.sum_congr rfl fun _ _ => Finset.sum_congr rfl fun _ _ => Finset.sum_comm
    _ = ∑ x3 ∈ s3, ∑ x1 ∈ s1, ∑ x4 ∈ s4, ∑ x5 ∈ s5, ∑ x2 ∈ s2, f x1 x2 x3 x4 x5 :=
        Finset.sum_congr rfl fun _ _ => Finset.sum_congr rfl fun _ _ => Finset.sum_congr rfl fun _ _ =>
          Finset.sum_comm
    _ = ∑ x3 ∈ s3, ∑ x1 ∈ s1, ∑ x5 ∈ s5, ∑ x4 ∈ s4, ∑ x2 ∈ s2, f x1 x2 x3 x4 x5 :=
        Finset.sum_congr rfl fun _ _ => Finset.sum_congr rfl fun _ _ => Finset.sum_comm
    _ = ∑ x3 ∈ s3, ∑ x5 ∈ s5, ∑ x1 ∈ s1, ∑ x4 ∈ s4, ∑ x2 ∈ s2, f x1 x2 x3 x4 x5 :=
        Finset.sum_congr rfl fun _ _ => Finset.sum_comm

/-- rotate the innermost of five nested sums to the front -/
theorem sum5_rot (s1 s2 s3 s4 s5 : Finset ℕ) (f : ℕ → ℕ → ℕ → ℕ → ℕ → K) :
    ∑ x1 ∈ s1, ∑ x2 ∈ s2, ∑ x3 ∈ s3, ∑ x4 ∈ s4, ∑ x5 ∈ s5, f x1 x2 x3 x4 x5 =
      ∑ x5 ∈ s5, ∑ x1 ∈ s1, ∑ x2 ∈ s2, ∑ x3 ∈ s3, ∑ x4 ∈ s4, f x1 x2 x3 x4 x5 := by
  calc ∑ x1 ∈ s1, ∑ x2 ∈ s2, ∑ x3 ∈ s3, ∑ x4 ∈ s4, ∑ x5 ∈ s5, f x1 x2 x3 x4 x5
      = ∑ x1 ∈ s1, ∑ x2 ∈ s2, ∑ x3 ∈ s3, ∑ x5 ∈ s5, ∑ x4 ∈ s4, f x1 x2 x3 x4 x5 :=
        Finset.sum_congr rfl fun _ _ => Finset.sum_congr rfl fun _ _ => Finset.sum_congr rfl fun _ _ =>
          Finset.sum_comm
    _ = ∑ x1 ∈ s1, ∑ x2 ∈ s2, ∑ x5 ∈ s5, ∑ x3 ∈ s3, ∑ x4 ∈ s4, f x1 x2 x3 x4 x5 :=
        Finset.sum_congr rfl fun _ _ => Finset.sum_congr rfl fun _ _ => Finset.sum_comm
    _ = ∑ x1 ∈ s1, ∑ x5 ∈ s5, ∑ x2 ∈ s2, ∑ x3 ∈ s3, ∑ x4 ∈ s4, f x1 x2 x3 x4 x5 :=
        Finset.sum_congr rfl fun _ _ => Finset.sum_comm
    _ = ∑ x5 ∈ s5, ∑ x1 ∈ s1, ∑ x2 ∈ s2, ∑ x3 ∈ s3, ∑ x4 ∈ s4, f x1 x2 x3 x4 x5 := Finset.sum_comm

/-- exchange the outer pair with the inner pair of four nested sums -/
theorem sum4_pairs (s1 s2 s3 s4 : Finset ℕ) (f : ℕ → ℕ → ℕ → ℕ → K) :
    ∑ x1 ∈ s1, ∑ x2 ∈ s2, ∑ x3 ∈ s3, ∑ x4 ∈ s4, f x1 x2 x3 x4 =
      ∑ x3 ∈ s3, ∑ x4 ∈ s4, ∑ x1 ∈ s1, ∑ x2 ∈ s2, f x1 x2 x3 x4 := by
  calc ∑ x1 ∈ s1, ∑ x2 ∈ s2, ∑ x3 ∈ s3, ∑ x4 ∈ s4, f x1 x2 x3 x4
      = ∑ x1 ∈ s1, ∑ x3 ∈ s3, ∑ x2 ∈ s2, ∑ x4 ∈ s4, f x1 x2 x3 x4 :=
        Finset.sum_congr rfl fun _ _ => Finset.sum_comm
    _ = ∑ x3 ∈ s3, ∑ x1 ∈ s1, ∑ x2 ∈ s2, ∑ x4 ∈ s4, f x1 x2 x3 x4 := Finset.sum_comm
    _ = ∑ x3 ∈ s3, ∑ x1 ∈ s1, ∑ x4 ∈ s4, ∑ x2 ∈ s2, f x1 x2 x3 x4 :=
        Finset.sum_congr rfl fun _ _ => Finset.sum_congr rfl fun _ _ => Finset.sum_comm
    _ = ∑ x3 ∈ s3, ∑ x4 ∈ s4, ∑ x1 ∈ s1, ∑ x2 ∈ s2, f x1 x2 x3 x4 :=
        Finset.sum_congr rfl fun _ _ => Finset.sum_comm

/-- `vec(Y) = H_eff @ vec(X)` for `build_dense_heff_site`, entry by entry -/
theorem dense_matVec_site (d : SiteDims) (L R : ℕ → ℕ → ℕ → K) (W : ℕ → ℕ → ℕ → ℕ → K) (A : ℕ → ℕ → ℕ → K)
    (o A' B : ℕ) (hA : A' < d.aa) (hB : B < d.bb) :
    matVec (d.p * d.a * d.b) (denseHeffSite d L R W) (flattenT3 d.a d.b A) (flat3 d.aa d.bb o A' B) =
      projectSite d L R W A o A' B := by
  rw [← h6_contract]
  unfold matVec
  rw [sumTo_eq_sum, sum_range_flat3]
  refine Finset.sum_congr rfl fun p _ => Finset.sum_congr rfl fun a ha => Finset.sum_congr rfl fun b hb => ?_
  unfold denseHeffSite flattenT3
  rw [unflat3_flat3 _ _ _ _ _ hA hB, unflat3_flat3 _ _ _ _ _ (Finset.mem_range.mp ha) (Finset.mem_range.mp hb)]

/-- the contraction `Σ_{u,v} h4[p,w,u,v] · C[u,v]` is what `project_bond` computes -/
theorem h4_contract (d : BondDims) (L R : ℕ → ℕ → ℕ → K) (C : ℕ → ℕ → K) (p w : ℕ) :
    ∑ u ∈ range d.u, ∑ v ∈ range d.v, h4 d L R p w u v * C u v = projectBond d L R C p w := by
  unfold h4 projectBond
  simp only [sumTo_eq_sum, Finset.sum_mul, Finset.mul_sum]
  refine Finset.sum_congr rfl fun u _ => ?_
  rw [Finset.sum_comm]
  refine Finset.sum_congr rfl fun a _ => Finset.sum_congr rfl fun v _ => ?_
  ring

/-- `vec(Y) = H_eff @ vec(C)` for `build_dense_heff_bond`, entry by entry -/
theorem dense_matVec_bond (d : BondDims) (L R : ℕ → ℕ → ℕ → K) (C : ℕ → ℕ → K) (p w : ℕ) (hw : w < d.w) :
    matVec (d.u * d.v) (denseHeffBond d L R) (flattenT2 d.v C) (flat2 d.w p w) = projectBond d L R C p w := by
  rw [← h4_contract]
  unfold matVec
  rw [sumTo_eq_sum, sum_range_flat2]
  refine Finset.sum_congr rfl fun u _ => Finset.sum_congr rfl fun v hv => ?_
  unfold denseHeffBond flattenT2
  rw [unflat2_flat2 _ _ _ hw, unflat2_flat2 _ _ _ (Finset.mem_range.mp hv)]

/-- the numba kernel's index arithmetic and two-stage contraction give the einsum builder's matrix -/
theorem numba_site_eq (d : SiteDims) (L R : ℕ → ℕ → ℕ → K) (W : ℕ → ℕ → ℕ → ℕ → K) (row col : ℕ) :
    denseHeffSiteNumba d L R W row col = denseHeffSite d L R W row col := by
  unfold denseHeffSiteNumba denseHeffSite h6 unflat3
  simp only [sumTo_eq_sum, Finset.sum_mul]
  rw [Nat.div_div_eq_div_mul, Nat.mul_comm d.bb d.aa, Nat.mod_mul_left_div_self, Nat.mod_mul_left_mod,
    Finset.sum_comm]

theorem numba_bond_eq (d : BondDims) (L R : ℕ → ℕ → ℕ → K) (row col : ℕ) :
    denseHeffBondNumba d L R row col = denseHeffBond d L R row col := rfl

omit [CommSemiring K] in
theorem flatten_unflatten3 (d1 d2 : ℕ) (x : ℕ → K) : flattenT3 d1 d2 (unflattenV3 d1 d2 x) = x := by
  funext n
  unfold flattenT3 unflattenV3
  rw [flat3_unflat3]

omit [CommSemiring K] in
theorem flatten_unflatten2 (d1 : ℕ) (x : ℕ → K) : flattenT2 d1 (unflattenV2 d1 x) = x := by
  funext n
  unfold flattenT2 unflattenV2
  rw [flat2_unflat2]

/-- on every row of the output the matrix-free branch of `apply_effective_operator` equals the dense branch -/
theorem free_eq_dense_site (d : SiteDims) (L R : ℕ → ℕ → ℕ → K) (W : ℕ → ℕ → ℕ → ℕ → K) (x : ℕ → K)
    (row : ℕ) (hrow : row < d.o * d.aa * d.bb) :
    flattenT3 d.aa d.bb (projectSite d L R W (unflattenV3 d.a d.b x)) row =
      matVec (d.p * d.a * d.b) (denseHeffSite d L R W) x row := by
  obtain ⟨_, h2, h3⟩ := unflat3_lt d.o d.aa d.bb row hrow
  have h := dense_matVec_site d L R W (unflattenV3 d.a d.b x) (unflat3 d.aa d.bb row).1 _ _ h2 h3
  rw [flatten_unflatten3, flat3_unflat3] at h
  rw [h]
  rfl

theorem free_eq_dense_bond (d : BondDims) (L R : ℕ → ℕ → ℕ → K) (x : ℕ → K)
    (row : ℕ) (hrow : row < d.pp * d.w) :
    flattenT2 d.w (projectBond d L R (unflattenV2 d.v x)) row = matVec (d.u * d.v) (denseHeffBond d L R) x row := by
  obtain ⟨_, h2⟩ := unflat2_lt d.pp d.w row hrow
  have h := dense_matVec_bond d L R (unflattenV2 d.v x) (unflat2 d.w row).1 _ h2
  rw [flatten_unflatten2, flat2_unflat2] at h
  rw [h]
  rfl

/-- the bilinear pairing of a left block with a right block on the same bond: `Σ_{i,j,k} E[i,j,k] · F[i,j,k]`
    (`np.tensordot(E, F, axes=3)`) — the value of the whole network `⟨bra| MPO |ket⟩` cut at that bond -/
def pair3 (d0 d1 d2 : ℕ) (E F : ℕ → ℕ → ℕ → K) : K :=
  ∑ i ∈ range d0, ∑ j ∈ range d1, ∑ k ∈ range d2, E i j k * F i j k

/-- one site can be absorbed into the left block or into the right block: same number -/
theorem update_adjoint (cj : K → K) (d : SiteDims) (L R : ℕ → ℕ → ℕ → K) (W : ℕ → ℕ → ℕ → ℕ → K)
    (ket bra : ℕ → ℕ → ℕ → K) :
    pair3 d.b d.r d.bb (updateLeft cj d L W ket bra) R = pair3 d.a d.l d.aa L (updateRight cj d R W ket bra) := by
  unfold pair3 updateLeft updateRight
  simp only [sumTo_eq_sum, Finset.mul_sum, Finset.sum_mul]
  -- left: (b r B p a o l A')   right: (a l A' o B p r b)
  rw [sw3, sw2, sw1, sw0, sw5, sw4, sw3, sw2, sw1, sw6, sw5, sw4, sw3, sw2, sw6, sw5, sw4, sw3, sw5, sw4, sw6, sw5, sw6]
  refine Finset.sum_congr rfl fun _ _ => Finset.sum_congr rfl fun _ _ => Finset.sum_congr rfl fun _ _ =>
    Finset.sum_congr rfl fun _ _ => Finset.sum_congr rfl fun _ _ => Finset.sum_congr rfl fun _ _ =>
    Finset.sum_congr rfl fun _ _ => Finset.sum_congr rfl fun _ _ => ?_
  ring

omit [CommSemiring K] in
theorem leftEnvChain_append [Zero K] [Add K] [Mul K] (cj : K → K) (L0 : ℕ → ℕ → ℕ → K) (xs ys : List (Site K)) :
    leftEnvChain cj L0 (xs ++ ys) = leftEnvChain cj (leftEnvChain cj L0 xs) ys := by
  induction xs generalizing L0 with
  | nil => rfl
  | cons s ss ih => exact ih _

omit [CommSemiring K] in
theorem rightEnvChain_append [Zero K] [Add K] [Mul K] (cj : K → K) (R0 : ℕ → ℕ → ℕ → K) (xs ys : List (Site K)) :
    rightEnvChain cj R0 (xs ++ ys) = rightEnvChain cj (rightEnvChain cj R0 ys) xs := by
  induction xs with
  | nil => rfl
  | cons s ss ih => simp only [List.cons_append, rightEnvChain, ih]

/-- neighbouring sites of a chain have matching bond dimensions (state and MPO) -/
def ChainDims : List (Site K) → Prop
  | [] => True
  | [_] => True
  | s :: t :: rest => s.d.b = t.d.a ∧ s.d.r = t.d.l ∧ s.d.bb = t.d.aa ∧ ChainDims (t :: rest)

/-- the last site of the non-empty chain `s :: rest` -/
def lastSite : Site K → List (Site K) → Site K
  | s, [] => s
  | _, t :: rest => lastSite t rest

/-- absorbing a whole chain into the left block or into the right block gives the same number -/
theorem env_pair_chain (cj : K → K) (s : Site K) (rest : List (Site K)) (hd : ChainDims (s :: rest))
    (L0 R : ℕ → ℕ → ℕ → K) :
    pair3 (lastSite s rest).d.b (lastSite s rest).d.r (lastSite s rest).d.bb (leftEnvChain cj L0 (s :: rest)) R =
      pair3 s.d.a s.d.l s.d.aa L0 (rightEnvChain cj R (s :: rest)) := by
  induction rest generalizing s L0 with
  | nil => exact update_adjoint cj s.d L0 R s.W s.ket s.ket
  | cons t rest ih =>
    obtain ⟨h1, h2, h3, hd'⟩ := hd
    have e := ih t hd' (updateLeft cj s.d L0 s.W s.ket s.ket)
    have e2 := update_adjoint cj s.d L0 (rightEnvChain cj R (t :: rest)) s.W s.ket s.ket
    rw [h1, h2, h3] at e2
    exact e.trans e2

end algebra

/-! ### conjugate symmetry up to a gauge of the MPO bonds

  An MPO that represents a Hermitian operator is in general *not* Hermitian tensor by tensor: `from_pauli_sum` compresses
  with SVDs, which mixes the bond labels.  What survives is: the conjugate-transposed tensor is the tensor itself up to an
  invertible matrix on each bond, `W[o,p,l,r]* = Σ_{l',r'} G_left[l,l'] · W[p,o,l',r'] · G_right⁻¹[r',r]`
  (`G = 1`: every operator-valued entry Hermitian; `G` a permutation matrix: `t`/`t†` pairs; `G = diag(±1)`: anti-Hermitian
  pairs).  The environments inherit the same relation with the gauge of their bond. -/

section herm
variable {K : Type*} [CommSemiring K] [StarRing K]

/-- `Gi · G = 1` on `{0,…,n-1}` -/
def GaugeInv (n : ℕ) (G Gi : ℕ → ℕ → K) : Prop :=
  ∀ i j, i < n → j < n → ∑ k ∈ range n, Gi i k * G k j = if i = j then 1 else 0

/-- left block: `E[A,l,a]* = Σ_{l'} E[a,l',A] · G⁻¹[l',l]` -/
def LeftHermG (dl : ℕ) (Gi : ℕ → ℕ → K) (E : ℕ → ℕ → ℕ → K) : Prop :=
  ∀ a l A, l < dl → star (E A l a) = ∑ l' ∈ range dl, E a l' A * Gi l' l

/-- right block: `E[B,r,b]* = Σ_{r'} G[r,r'] · E[b,r',B]` -/
def RightHermG (dr : ℕ) (G : ℕ → ℕ → K) (E : ℕ → ℕ → ℕ → K) : Prop :=
  ∀ b r B, r < dr → star (E B r b) = ∑ r' ∈ range dr, G r r' * E b r' B

/-- MPO tensor: `W[o,p,l,r]* = Σ_{l',r'} G_l[l,l'] · W[p,o,l',r'] · G_r⁻¹[r',r]` -/
def OpHermG (dl dr : ℕ) (Gl Gir : ℕ → ℕ → K) (W : ℕ → ℕ → ℕ → ℕ → K) : Prop :=
  ∀ o p l r, l < dl → r < dr →
    star (W o p l r) = ∑ l' ∈ range dl, ∑ r' ∈ range dr, Gl l l' * W p o l' r' * Gir r' r

/-- the identity gauge -/
def gaugeOne : ℕ → ℕ → K := fun i j => if i = j then 1 else 0

omit [StarRing K] in
theorem gaugeInv_one (n : ℕ) : GaugeInv n (gaugeOne : ℕ → ℕ → K) gaugeOne := by
  intro i j hi _
  unfold gaugeOne
  rw [Finset.sum_eq_single i]
  · simp
  · intro k _ hk; simp [Ne.symm hk]
  · intro h; exact absurd (Finset.mem_range.mpr hi) h

omit [StarRing K] in
/-- contraction of a gauge with its inverse: `Σ_r (Σ_{r'} f r' Gi[r',r]) (Σ_{r''} G[r,r''] g r'') = Σ_{r'} f r' g r'` -/
theorem gauge_contract (n : ℕ) (G Gi : ℕ → ℕ → K) (h : GaugeInv n G Gi) (f g : ℕ → K) :
    ∑ r ∈ range n, (∑ r' ∈ range n, f r' * Gi r' r) * (∑ r'' ∈ range n, G r r'' * g r'') =
      ∑ r' ∈ range n, f r' * g r' := by
  calc ∑ r ∈ range n, (∑ r' ∈ range n, f r' * Gi r' r) * (∑ r'' ∈ range n, G r r'' * g r'')
      = ∑ r ∈ range n, ∑ r' ∈ range n, ∑ r'' ∈ range n, (f r' * Gi r' r) * (G r r'' * g r'') := by
        simp only [Finset.sum_mul_sum]
    _ = ∑ r' ∈ range n, ∑ r'' ∈ range n, ∑ r ∈ range n, (f r' * Gi r' r) * (G r r'' * g r'') := by
        rw [Finset.sum_comm]
        exact Finset.sum_congr rfl fun _ _ => Finset.sum_comm
    _ = ∑ r' ∈ range n, ∑ r'' ∈ range n, f r' * g r'' * (if r' = r'' then 1 else 0) := by
        refine Finset.sum_congr rfl fun r' h1 => Finset.sum_congr rfl fun r'' h2 => ?_
        rw [← h r' r'' (Finset.mem_range.mp h1) (Finset.mem_range.mp h2), Finset.mul_sum]
        exact Finset.sum_congr rfl fun r _ => by ring
    _ = ∑ r' ∈ range n, f r' * g r' := by
        refine Finset.sum_congr rfl fun r' h1 => ?_
        simp [Finset.sum_ite_eq, h1]

/-- `Σ_r W[o,p,l,r] · R[b,r,B]` -/
def opR (d : SiteDims) (W : ℕ → ℕ → ℕ → ℕ → K) (R : ℕ → ℕ → ℕ → K) (o p b B l : ℕ) : K :=
  ∑ r ∈ range d.r, W o p l r * R b r B

/-- `Σ_l W[o,p,l,r] · L[a,l,A]` -/
def opL (d : SiteDims) (W : ℕ → ℕ → ℕ → ℕ → K) (L : ℕ → ℕ → ℕ → K) (o p a A' r : ℕ) : K :=
  ∑ l ∈ range d.l, W o p l r * L a l A'

theorem opR_herm (d : SiteDims) (Gl Gir Gr Gri : ℕ → ℕ → K) (hr : GaugeInv d.r Gr Gri) (hGir : Gir = Gri)
    (W : ℕ → ℕ → ℕ → ℕ → K) (hW : OpHermG d.l d.r Gl Gir W) (R : ℕ → ℕ → ℕ → K) (hR : RightHermG d.r Gr R)
    (o p b B l : ℕ) (hl : l < d.l) :
    star (opR d W R o p b B l) = ∑ l' ∈ range d.l, Gl l l' * opR d W R p o B b l' := by
  subst hGir
  unfold opR
  rw [star_sum]
  calc ∑ r ∈ range d.r, star (W o p l r * R b r B)
      = ∑ r ∈ range d.r, (∑ l' ∈ range d.l, ∑ r' ∈ range d.r, Gl l l' * W p o l' r' * Gir r' r) *
          (∑ r'' ∈ range d.r, Gr r r'' * R B r'' b) := by
        refine Finset.sum_congr rfl fun r h => ?_
        rw [star_mul', hW o p l r hl (Finset.mem_range.mp h), hR B r b (Finset.mem_range.mp h)]
    _ = ∑ r ∈ range d.r, ∑ l' ∈ range d.l, Gl l l' *
          ((∑ r' ∈ range d.r, W p o l' r' * Gir r' r) * (∑ r'' ∈ range d.r, Gr r r'' * R B r'' b)) := by
        refine Finset.sum_congr rfl fun r _ => ?_
        rw [Finset.sum_mul]
        refine Finset.sum_congr rfl fun l' _ => ?_
        have e : ∑ r' ∈ range d.r, Gl l l' * W p o l' r' * Gir r' r =
            Gl l l' * ∑ r' ∈ range d.r, W p o l' r' * Gir r' r := by
          rw [Finset.mul_sum]; exact Finset.sum_congr rfl fun r' _ => by ring
        rw [e, mul_assoc]
    _ = ∑ l' ∈ range d.l, Gl l l' * ∑ r ∈ range d.r,
          ((∑ r' ∈ range d.r, W p o l' r' * Gir r' r) * (∑ r'' ∈ range d.r, Gr r r'' * R B r'' b)) := by
        rw [Finset.sum_comm]
        exact Finset.sum_congr rfl fun l' _ => (Finset.mul_sum _ _ _).symm
    _ = _ := by
        refine Finset.sum_congr rfl fun l' _ => ?_
        rw [gauge_contract d.r Gr Gir hr (fun r' => W p o l' r') (fun r'' => R B r'' b)]

theorem opL_herm (d : SiteDims) (Gl Gli Gir : ℕ → ℕ → K) (hl : GaugeInv d.l Gl Gli)
    (W : ℕ → ℕ → ℕ → ℕ → K) (hW : OpHermG d.l d.r Gl Gir W) (L : ℕ → ℕ → ℕ → K) (hL : LeftHermG d.l Gli L)
    (o p a A' r : ℕ) (hr : r < d.r) :
    star (opL d W L o p a A' r) = ∑ r' ∈ range d.r, opL d W L p o A' a r' * Gir r' r := by
  unfold opL
  rw [star_sum]
  calc ∑ l ∈ range d.l, star (W o p l r * L a l A')
      = ∑ l ∈ range d.l, (∑ l'' ∈ range d.l, L A' l'' a * Gli l'' l) *
          (∑ l' ∈ range d.l, Gl l l' * ∑ r' ∈ range d.r, W p o l' r' * Gir r' r) := by
        refine Finset.sum_congr rfl fun l h => ?_
        rw [star_mul', hW o p l r (Finset.mem_range.mp h) hr, hL A' l a (Finset.mem_range.mp h), mul_comm]
        congr 1
        refine Finset.sum_congr rfl fun l' _ => ?_
        rw [Finset.mul_sum]
        exact Finset.sum_congr rfl fun r' _ => by ring
    _ = ∑ l' ∈ range d.l, L A' l' a * ∑ r' ∈ range d.r, W p o l' r' * Gir r' r :=
        gauge_contract d.l Gl Gli hl (fun l'' => L A' l'' a) (fun l' => ∑ r' ∈ range d.r, W p o l' r' * Gir r' r)
    _ = _ := by
        simp only [Finset.mul_sum, Finset.sum_mul]
        rw [Finset.sum_comm]
        exact Finset.sum_congr rfl fun r' _ => Finset.sum_congr rfl fun l' _ => by ring

omit [StarRing K] in
theorem h6_eq_opR (d : SiteDims) (L R : ℕ → ℕ → ℕ → K) (W : ℕ → ℕ → ℕ → ℕ → K) (o A' B p a b : ℕ) :
    h6 d L R W o A' B p a b = ∑ l ∈ range d.l, L a l A' * opR d W R o p b B l := by
  unfold h6 opR
  simp only [sumTo_eq_sum, Finset.mul_sum]
  exact Finset.sum_congr rfl fun l _ => Finset.sum_congr rfl fun r _ => by ring

theorem h6_herm (d : SiteDims) (Gl Gli Gr Gri : ℕ → ℕ → K) (hl : GaugeInv d.l Gl Gli) (hr : GaugeInv d.r Gr Gri)
    (L R : ℕ → ℕ → ℕ → K) (W : ℕ → ℕ → ℕ → ℕ → K) (hW : OpHermG d.l d.r Gl Gri W) (hL : LeftHermG d.l Gli L)
    (hR : RightHermG d.r Gr R) (o A' B p a b : ℕ) :
    star (h6 d L R W o A' B p a b) = h6 d L R W p a b o A' B := by
  rw [h6_eq_opR, h6_eq_opR, star_sum]
  calc ∑ l ∈ range d.l, star (L a l A' * opR d W R o p b B l)
      = ∑ l ∈ range d.l, (∑ l'' ∈ range d.l, L A' l'' a * Gli l'' l) *
          (∑ l' ∈ range d.l, Gl l l' * opR d W R p o B b l') := by
        refine Finset.sum_congr rfl fun l h => ?_
        rw [star_mul', hL A' l a (Finset.mem_range.mp h),
          opR_herm d Gl Gri Gr Gri hr rfl W hW R hR o p b B l (Finset.mem_range.mp h)]
    _ = _ := gauge_contract d.l Gl Gli hl (fun l'' => L A' l'' a) (fun l' => opR d W R p o B b l')

theorem h4_herm (d : BondDims) (G Gi : ℕ → ℕ → K) (hm : GaugeInv d.m G Gi) (L R : ℕ → ℕ → ℕ → K)
    (hL : LeftHermG d.m Gi L) (hR : RightHermG d.m G R) (p w u v : ℕ) :
    star (h4 d L R p w u v) = h4 d L R u v p w := by
  unfold h4
  rw [sumTo_eq_sum, sumTo_eq_sum, star_sum]
  calc ∑ a ∈ range d.m, star (L u a p * R v a w)
      = ∑ a ∈ range d.m, (∑ a'' ∈ range d.m, L p a'' u * Gi a'' a) * (∑ a' ∈ range d.m, G a a' * R w a' v) := by
        refine Finset.sum_congr rfl fun a h => ?_
        rw [star_mul', hL p a u (Finset.mem_range.mp h), hR w a v (Finset.mem_range.mp h)]
    _ = _ := gauge_contract d.m G Gi hm (fun a'' => L p a'' u) (fun a' => R w a' v)

omit [StarRing K] in
theorem updateLeft_expand (cj : K → K) (d : SiteDims) (L : ℕ → ℕ → ℕ → K) (W : ℕ → ℕ → ℕ → ℕ → K)
    (ket bra : ℕ → ℕ → ℕ → K) (b r B : ℕ) :
    updateLeft cj d L W ket bra b r B =
      ∑ p ∈ range d.p, ∑ a ∈ range d.a, ∑ o ∈ range d.o, ∑ A' ∈ range d.aa,
        ket p a b * cj (bra o A' B) * opL d W L o p a A' r := by
  unfold updateLeft opL
  simp only [sumTo_eq_sum, Finset.mul_sum]
  refine Finset.sum_congr rfl fun p _ => Finset.sum_congr rfl fun a _ => Finset.sum_congr rfl fun o _ => ?_
  rw [Finset.sum_comm]
  exact Finset.sum_congr rfl fun A' _ => Finset.sum_congr rfl fun l _ => by ring

omit [StarRing K] in
theorem updateRight_expand (cj : K → K) (d : SiteDims) (R : ℕ → ℕ → ℕ → K) (W : ℕ → ℕ → ℕ → ℕ → K)
    (ket bra : ℕ → ℕ → ℕ → K) (a l A' : ℕ) :
    updateRight cj d R W ket bra a l A' =
      ∑ o ∈ range d.o, ∑ B ∈ range d.bb, ∑ p ∈ range d.p, ∑ b ∈ range d.b,
        ket p a b * cj (bra o A' B) * opR d W R o p b B l := by
  unfold updateRight opR
  simp only [sumTo_eq_sum, Finset.mul_sum, Finset.sum_mul]
  refine Finset.sum_congr rfl fun o _ => Finset.sum_congr rfl fun B _ => Finset.sum_congr rfl fun p _ => ?_
  rw [Finset.sum_comm]
  exact Finset.sum_congr rfl fun b _ => Finset.sum_congr rfl fun r _ => by ring

theorem updateLeft_herm (d : SiteDims) (hop : d.o = d.p) (ha : d.a = d.aa) (Gl Gli Gir : ℕ → ℕ → K)
    (hl : GaugeInv d.l Gl Gli) (W : ℕ → ℕ → ℕ → ℕ → K) (hW : OpHermG d.l d.r Gl Gir W)
    (L : ℕ → ℕ → ℕ → K) (hL : LeftHermG d.l Gli L) (ket : ℕ → ℕ → ℕ → K) :
    LeftHermG d.r Gir (updateLeft star d L W ket ket) := by
  intro b r B hr
  simp only [updateLeft_expand, star_sum, star_mul', star_star, Finset.sum_mul]
  calc ∑ p ∈ range d.p, ∑ a ∈ range d.a, ∑ o ∈ range d.o, ∑ A' ∈ range d.aa,
          star (ket p a B) * ket o A' b * star (opL d W L o p a A' r)
      = ∑ p ∈ range d.p, ∑ a ∈ range d.a, ∑ o ∈ range d.o, ∑ A' ∈ range d.aa, ∑ r' ∈ range d.r,
          star (ket p a B) * ket o A' b * (opL d W L p o A' a r' * Gir r' r) := by
        refine Finset.sum_congr rfl fun p _ => Finset.sum_congr rfl fun a _ => Finset.sum_congr rfl fun o _ =>
          Finset.sum_congr rfl fun A' _ => ?_
        rw [opL_herm d Gl Gli Gir hl W hW L hL o p a A' r hr, Finset.mul_sum]
    _ = ∑ r' ∈ range d.r, ∑ o ∈ range d.o, ∑ A' ∈ range d.aa, ∑ p ∈ range d.p, ∑ a ∈ range d.a,
          star (ket p a B) * ket o A' b * (opL d W L p o A' a r' * Gir r' r) := by
        rw [sum5_rot]
        exact Finset.sum_congr rfl fun r' _ => sum4_pairs _ _ _ _ _
    _ = _ := by
        rw [hop, ha]
        exact Finset.sum_congr rfl fun r' _ => Finset.sum_congr rfl fun o _ => Finset.sum_congr rfl fun A' _ =>
          Finset.sum_congr rfl fun p _ => Finset.sum_congr rfl fun a _ => by ring

theorem updateRight_herm (d : SiteDims) (hop : d.o = d.p) (hb : d.b = d.bb) (Gl Gr Gri : ℕ → ℕ → K)
    (hr : GaugeInv d.r Gr Gri) (W : ℕ → ℕ → ℕ → ℕ → K) (hW : OpHermG d.l d.r Gl Gri W)
    (R : ℕ → ℕ → ℕ → K) (hR : RightHermG d.r Gr R) (ket : ℕ → ℕ → ℕ → K) :
    RightHermG d.l Gl (updateRight star d R W ket ket) := by
  intro a l A' hl
  simp only [updateRight_expand, star_sum, star_mul', star_star, Finset.mul_sum]
  calc ∑ o ∈ range d.o, ∑ B ∈ range d.bb, ∑ p ∈ range d.p, ∑ b ∈ range d.b,
          star (ket p A' b) * ket o a B * star (opR d W R o p b B l)
      = ∑ o ∈ range d.o, ∑ B ∈ range d.bb, ∑ p ∈ range d.p, ∑ b ∈ range d.b, ∑ l' ∈ range d.l,
          star (ket p A' b) * ket o a B * (Gl l l' * opR d W R p o B b l') := by
        refine Finset.sum_congr rfl fun o _ => Finset.sum_congr rfl fun B _ => Finset.sum_congr rfl fun p _ =>
          Finset.sum_congr rfl fun b _ => ?_
        rw [opR_herm d Gl Gri Gr Gri hr rfl W hW R hR o p b B l hl, Finset.mul_sum]
    _ = ∑ l' ∈ range d.l, ∑ p ∈ range d.p, ∑ b ∈ range d.b, ∑ o ∈ range d.o, ∑ B ∈ range d.bb,
          star (ket p A' b) * ket o a B * (Gl l l' * opR d W R p o B b l') := by
        rw [sum5_rot]
        exact Finset.sum_congr rfl fun l' _ => sum4_pairs _ _ _ _ _
    _ = _ := by
        rw [hop, hb]
        exact Finset.sum_congr rfl fun l' _ => Finset.sum_congr rfl fun p _ => Finset.sum_congr rfl fun b _ =>
          Finset.sum_congr rfl fun o _ => Finset.sum_congr rfl fun B _ => by ring

/-- the boundary block is conjugate-symmetric for a gauge whose inverse has unit column sums (a `1 × 1` gauge `[[1]]`
    at the ends of an open chain) -/
theorem idEnv_leftHerm (dl : ℕ) (Gi : ℕ → ℕ → K) (h : ∀ l, l < dl → ∑ l' ∈ range dl, Gi l' l = 1) :
    LeftHermG dl Gi (idEnv : ℕ → ℕ → ℕ → K) := by
  intro a l A hl
  unfold idEnv
  rw [← Finset.mul_sum, h l hl, mul_one]
  by_cases e : a = A
  · subst e; simp
  · have e' : ¬ A = a := fun x => e x.symm
    simp [e, e']

theorem idEnv_rightHerm (dr : ℕ) (G : ℕ → ℕ → K) (h : ∀ r, r < dr → ∑ r' ∈ range dr, G r r' = 1) :
    RightHermG dr G (idEnv : ℕ → ℕ → ℕ → K) := by
  intro b r B hr
  unfold idEnv
  rw [← Finset.sum_mul, h r hr, one_mul]
  by_cases e : b = B
  · subst e; simp
  · have e' : ¬ B = b := fun x => e x.symm
    simp [e, e']

/-- bond data of a chain: `bd k` is the dimension of MPO bond `k` (to the left of site `k`), `G k`, `Gi k` its gauge and
    the inverse -/
structure BondGauge (K : Type*) where
  bd : ℕ → ℕ
  G : ℕ → ℕ → ℕ → K
  Gi : ℕ → ℕ → ℕ → K

/-- site `k` of the chain: ket = bra (square shapes), MPO bonds `k` and `k+1`, MPO tensor Hermitian up to their gauges -/
def HermSiteG (g : BondGauge K) (k : ℕ) (s : Site K) : Prop :=
  s.d.o = s.d.p ∧ s.d.a = s.d.aa ∧ s.d.b = s.d.bb ∧ s.d.l = g.bd k ∧ s.d.r = g.bd (k + 1) ∧
    OpHermG (g.bd k) (g.bd (k + 1)) (g.G k) (g.Gi (k + 1)) s.W

/-- consecutive sites `k, k+1, …` of a chain all satisfy `HermSiteG` -/
def ChainHerm (g : BondGauge K) : ℕ → List (Site K) → Prop
  | _, [] => True
  | k, s :: ss => HermSiteG g k s ∧ ChainHerm g (k + 1) ss

theorem leftEnvChain_herm (g : BondGauge K) (hg : ∀ k, GaugeInv (g.bd k) (g.G k) (g.Gi k))
    (sites : List (Site K)) (k : ℕ) (hs : ChainHerm g k sites) (L0 : ℕ → ℕ → ℕ → K)
    (h0 : LeftHermG (g.bd k) (g.Gi k) L0) :
    LeftHermG (g.bd (k + sites.length)) (g.Gi (k + sites.length)) (leftEnvChain star L0 sites) := by
  induction sites generalizing k L0 with
  | nil => exact h0
  | cons s ss ih =>
    obtain ⟨⟨hop, ha, _, hl, hr, hW⟩, hss⟩ := hs
    have h1 : LeftHermG (g.bd (k + 1)) (g.Gi (k + 1)) (updateLeft star s.d L0 s.W s.ket s.ket) := by
      have := updateLeft_herm s.d hop ha (g.G k) (g.Gi k) (g.Gi (k + 1)) (hl ▸ hg k) s.W (hl ▸ hr ▸ hW) L0
        (hl ▸ h0) s.ket
      rw [hr] at this
      exact this
    have := ih (k + 1) hss _ h1
    rw [List.length_cons, show k + (ss.length + 1) = k + 1 + ss.length by omega]
    exact this

theorem rightEnvChain_herm (g : BondGauge K) (hg : ∀ k, GaugeInv (g.bd k) (g.G k) (g.Gi k))
    (sites : List (Site K)) (k : ℕ) (hs : ChainHerm g k sites) (R0 : ℕ → ℕ → ℕ → K)
    (h0 : RightHermG (g.bd (k + sites.length)) (g.G (k + sites.length)) R0) :
    RightHermG (g.bd k) (g.G k) (rightEnvChain star R0 sites) := by
  induction sites generalizing k with
  | nil => exact h0
  | cons s ss ih =>
    obtain ⟨⟨hop, _, hb, hl, hr, hW⟩, hss⟩ := hs
    rw [List.length_cons, show k + (ss.length + 1) = k + 1 + ss.length by omega] at h0
    have h1 := ih (k + 1) hss h0
    have := updateRight_herm s.d hop hb (g.G k) (g.G (k + 1)) (g.Gi (k + 1)) (hr ▸ hg (k + 1)) s.W
      (hl ▸ hr ▸ hW) (rightEnvChain star R0 ss) (hr ▸ h1) s.ket
    rw [hl] at this
    exact this

theorem chainHerm_append (g : BondGauge K) (xs ys : List (Site K)) (k : ℕ) :
    ChainHerm g k (xs ++ ys) ↔ ChainHerm g k xs ∧ ChainHerm g (k + xs.length) ys := by
  induction xs generalizing k with
  | nil => simp [ChainHerm]
  | cons x xs ih =>
    simp only [List.cons_append, ChainHerm, ih, List.length_cons, and_assoc]
    rw [show k + 1 + xs.length = k + (xs.length + 1) by omega]

end herm

end Yaqs.Heff
