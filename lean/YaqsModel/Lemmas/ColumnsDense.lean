import YaqsModel.Lemmas.Layers
import YaqsModel.Lemmas.CheckerEmbed

/-!
# What the result columns ARE (C16 extension, helper lemmas)

`Props/C16.lean` proves the event structure of a sampling run (`columns`, `columns_in_place`).  Here the events get a
*state semantics*: a gate application acts on the current state through an operator `sem g`, an `evaluate_observables`
call records the current state under its column index.  The lemmas compute the recorded states.

* Part A — any monoid of operators acting on any type of states (`OpAction`), `colStates`, `finalState`.
* Part B — the dense-operator monoid: `denseSem` embeds the 2×2 / 4×4 matrix of a gate on its own qubit(s) of an
  `n`-qubit register (`Yaqs.Embed.embedL` with the site / ordered-pair lens of C04 Part D); gates on disjoint qubits
  commute (`denseSem_comm`), which is the hypothesis of `schedule_sound` / `transparent` / `c02_trajectory_is_circuit_unitary`.
-/
namespace Yaqs.Layers

open List

/-! ## Part A: events acting on states -/

/-- a monoid of operators acting on states (`Matrix.mulVec` on vectors, `LocalOp.act` on matrix-valued amplitudes) -/
structure OpAction (M S : Type*) [Monoid M] where
  app : M → S → S
  app_one : ∀ s, app 1 s = s
  app_mul : ∀ a b s, app (a * b) s = app a (app b s)

section action
variable {M S : Type*} [Monoid M] (A : OpAction M S) (sem : Instr → M)

/-- the operator of the program prefix / circuit `c`: its gates in program order, later gate on the left -/
def circuitOp (c : List Instr) : M := ((gates c).map sem).reverse.prod

/-- what one event does to the state: a gate application applies the gate's operator, everything else nothing -/
def stepState (s : S) : Event → S
  | .app1 t q => A.app (sem (.gate1 t q)) s
  | .app2 t a b => A.app (sem (.gate2 t a b)) s
  | _ => s

/-- the state after a sequence of events -/
def finalState (s : S) (evs : List Event) : S := evs.foldl (stepState A sem) s

/-- the states seen by the `evaluate_observables` calls, each with the column it is written to, in call order -/
def colStates : S → List Event → List (Nat × S)
  | _, [] => []
  | s, .eval c :: r => (c, s) :: colStates s r
  | s, .app1 t q :: r => colStates (A.app (sem (.gate1 t q)) s) r
  | s, .app2 t a b :: r => colStates (A.app (sem (.gate2 t a b)) s) r
  | s, .shots :: r => colStates s r

theorem finalState_append (s : S) (a b : List Event) :
    finalState A sem s (a ++ b) = finalState A sem (finalState A sem s a) b := by
  simp [finalState, List.foldl_append]

theorem colStates_append (s : S) (a b : List Event) :
    colStates A sem s (a ++ b) = colStates A sem s a ++ colStates A sem (finalState A sem s a) b := by
  induction a generalizing s with
  | nil => simp [colStates, finalState]
  | cons e r ih =>
    cases e <;> simp [colStates, finalState, stepState, ih]

theorem colStates_cols (s : S) (evs : List Event) : (colStates A sem s evs).map Prod.fst = evalCols evs := by
  induction evs generalizing s with
  | nil => simp [colStates, evalCols]
  | cons e r ih =>
    cases e <;> simp [colStates, evalCols, ih]

/-- only the gate applications move the state -/
theorem finalState_filter (s : S) (evs : List Event) :
    finalState A sem s evs = finalState A sem s (evs.filter Event.isApp) := by
  induction evs generalizing s with
  | nil => rfl
  | cons e r ih =>
    cases e <;> simp [finalState, List.filter, Event.isApp, stepState] <;> exact ih _

/-- applying a list of gates one after the other = applying the product, later gate on the left -/
theorem fold_gates (l : List Instr) (hg : ∀ i ∈ l, i.isGate = true) (s : S) :
    finalState A sem s (l.filterMap Event.ofInstr) = A.app ((l.map sem).reverse.prod) s := by
  induction l generalizing s with
  | nil => simp [finalState, A.app_one]
  | cons g l ih =>
    have hl : ∀ i ∈ l, i.isGate = true := fun i hi => hg i (by simp [hi])
    have hgg := hg g (by simp)
    cases g with
    | gate1 t q =>
      simp only [List.filterMap_cons, Event.ofInstr, List.map_cons, List.reverse_cons, List.prod_append,
        List.prod_singleton, A.app_mul]
      exact ih hl _
    | gate2 t a b =>
      simp only [List.filterMap_cons, Event.ofInstr, List.map_cons, List.reverse_cons, List.prod_append,
        List.prod_singleton, A.app_mul]
      exact ih hl _
    | measure q c => simp [Instr.isGate] at hgg
    | barrier qs => simp [Instr.isGate] at hgg
    | sbarrier qs => simp [Instr.isGate] at hgg

/-- markers do not enter the operator of a circuit -/
theorem circuitOp_filter (keep : Instr → Bool) (hk : ∀ i, i.isGate = true → keep i = true) (c : List Instr) :
    circuitOp sem (c.filter keep) = circuitOp sem c := by
  unfold circuitOp
  rw [gates_filter_keep keep hk c]

theorem circuitOp_append (a b : List Instr) : circuitOp sem (a ++ b) = circuitOp sem b * circuitOp sem a := by
  simp [circuitOp, gates, List.filter_append, List.map_append, List.reverse_append, List.prod_append]

variable (hcomm : ∀ g h, g.isGate = true → h.isGate = true → (∀ q, ¬(q ∈ g.qubits ∧ q ∈ h.qubits)) →
  Commute (sem g) (sem h))
include hcomm

/-- **the trajectory of a prefix**: whatever events sit between them, if the gate applications of `evs` are the schedule
    of `c`, the state after `evs` is `circuitOp c · s` (`schedule_sound` + `fold_gates`) -/
theorem finalState_of_schedule (c : List Instr) (evs : List Event)
    (h : evs.filter Event.isApp = (schedule c).filterMap Event.ofInstr) (s : S) :
    finalState A sem s evs = A.app (circuitOp sem c) s := by
  rw [finalState_filter, h, fold_gates A sem (schedule c) (fun _ hi => mem_gates (l := visit c) hi)]
  unfold circuitOp
  rw [(gate_prod_eq sem hcomm (schedule c) (gates c) (fun _ h => mem_gates h) (fun _ h => mem_gates h)
    (schedule_perm_gates c) (schedule_onWire c)).2]

end action

/-! ## Part B: the dense-operator monoid -/

section dense
open Yaqs.Embed Matrix

variable {K : Type*} [CommRing K]

/-- the operator of an instruction on the whole `n`-qubit register (configurations `Fin n → Fin 2`): a one-qubit gate
    with tag `t` is its 2×2 matrix `g1 t` on qubit `q`; a two-qubit gate is its 4×4 matrix `g2 t`, row / column index
    `(value of qargs[0], value of qargs[1])`, on the ordered pair `(a, b)` — either orientation, any distance;
    identity on every other qubit.  Non-gates (and gates that do not fit the register) are the identity. -/
def denseSem (n : Nat) (g1 : Nat → Matrix (Fin 2) (Fin 2) K) (g2 : Nat → Matrix (Fin 2 × Fin 2) (Fin 2 × Fin 2) K) :
    Instr → Matrix (Fin n → Fin 2) (Fin n → Fin 2) K
  | .gate1 t q => if h : q < n then embedL (siteLens (⟨q, h⟩ : Fin n)) (g1 t) else 1
  | .gate2 t a b =>
    if h : a < n ∧ b < n ∧ a ≠ b then
      embedL (pairLens (⟨a, h.1⟩ : Fin n) ⟨b, h.2.1⟩ (fun e => h.2.2 (by simpa using congrArg Fin.val e))) (g2 t)
    else 1
  | _ => 1

/-- gates on disjoint qubits commute as dense operators (C04 Part D `embedL_commute` for the four lens combinations) -/
theorem denseSem_comm (n : Nat) (g1 : Nat → Matrix (Fin 2) (Fin 2) K)
    (g2 : Nat → Matrix (Fin 2 × Fin 2) (Fin 2 × Fin 2) K) (g h : Instr)
    (_hg : g.isGate = true) (_hh : h.isGate = true) (hd : ∀ q, ¬(q ∈ g.qubits ∧ q ∈ h.qubits)) :
    Commute (denseSem n g1 g2 g) (denseSem n g1 g2 h) := by
  have fne : ∀ {x y : Nat} (hx : x < n) (hy : y < n), x ≠ y → (⟨x, hx⟩ : Fin n) ≠ ⟨y, hy⟩ :=
    fun _ _ hxy e => hxy (by simpa using congrArg Fin.val e)
  cases g with
  | gate1 t q =>
    cases h with
    | gate1 t' q' =>
      have hq : q ≠ q' := fun e => hd q ⟨by simp [Instr.qubits], by simp [Instr.qubits, e]⟩
      simp only [denseSem]
      split_ifs with h1 h2
      · exact embedL_commute _ _ (siteLens_indep (fne h1 h2 hq)) _ _
      all_goals first | exact Commute.one_right _ | exact Commute.one_left _
    | gate2 t' a b =>
      have hqa : q ≠ a := fun e => hd q ⟨by simp [Instr.qubits], by simp [Instr.qubits, e]⟩
      have hqb : q ≠ b := fun e => hd q ⟨by simp [Instr.qubits], by simp [Instr.qubits, e]⟩
      simp only [denseSem]
      split_ifs with h1 h2
      · exact embedL_commute _ _ (site_pair_indep _ (fne h1 h2.1 hqa) (fne h1 h2.2.1 hqb)) _ _
      all_goals first | exact Commute.one_right _ | exact Commute.one_left _
    | _ => exact Commute.one_right _
  | gate2 t a b =>
    cases h with
    | gate1 t' q =>
      have hqa : q ≠ a := fun e => hd q ⟨by simp [Instr.qubits, e], by simp [Instr.qubits]⟩
      have hqb : q ≠ b := fun e => hd q ⟨by simp [Instr.qubits, e], by simp [Instr.qubits]⟩
      simp only [denseSem]
      split_ifs with h1 h2
      · exact (embedL_commute _ _ (site_pair_indep _ (fne h2 h1.1 hqa) (fne h2 h1.2.1 hqb)) _ _).symm
      all_goals first | exact Commute.one_right _ | exact Commute.one_left _
    | gate2 t' a' b' =>
      have haa : a ≠ a' := fun e => hd a ⟨by simp [Instr.qubits], by simp [Instr.qubits, e]⟩
      have hab : a ≠ b' := fun e => hd a ⟨by simp [Instr.qubits], by simp [Instr.qubits, e]⟩
      have hba : b ≠ a' := fun e => hd b ⟨by simp [Instr.qubits], by simp [Instr.qubits, e]⟩
      have hbb : b ≠ b' := fun e => hd b ⟨by simp [Instr.qubits], by simp [Instr.qubits, e]⟩
      simp only [denseSem]
      split_ifs with h1 h2
      · exact embedL_commute _ _ (pair_pair_indep _ _ (fne h1.1 h2.1 haa) (fne h1.1 h2.2.1 hab)
          (fne h1.2.1 h2.1 hba) (fne h1.2.1 h2.2.1 hbb)) _ _
      all_goals first | exact Commute.one_right _ | exact Commute.one_left _
    | _ => exact Commute.one_right _
  | _ => exact Commute.one_left _

/-- matrices acting on vectors -/
def mulVecAction (m : Type*) [Fintype m] [DecidableEq m] : OpAction (Matrix m m K) (m → K) where
  app E v := E *ᵥ v
  app_one v := Matrix.one_mulVec v
  app_mul a b v := (Matrix.mulVec_mulVec v a b).symm

end dense

end Yaqs.Layers
