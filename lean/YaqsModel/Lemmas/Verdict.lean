import YaqsModel.Model.Verdict
import Mathlib.Tactic.Linarith
import Mathlib.Algebra.Order.Ring.Rat
import Mathlib.Algebra.BigOperators.Group.List.Basic
import Mathlib.Algebra.Star.Basic

/-! helper lemmas for the equivalence-checker model (kept apart from the property theorems) -/
namespace Yaqs.Verdict

/-! ### `Takes` -/

theorem Takes.append {d r r' : Dag} {σ τ : List Instr} (h1 : Takes d σ r) (h2 : Takes r τ r') :
    Takes d (σ ++ τ) r' := by
  induction h1 with
  | nil d => simpa using h2
  | cons pre post g σ r hfree _ ih => exact Takes.cons pre post g (σ ++ τ) r' hfree (ih h2)

theorem Takes.cons_skip {d r : Dag} {t : List Instr} (g : Instr) (h : Takes d t r)
    (hd : ∀ x ∈ t, disj g.qs x.qs = true) : Takes (g :: d) t (g :: r) := by
  induction h with
  | nil d => exact Takes.nil _
  | cons pre post x σ r hfree _ ih =>
    have h1 : ∀ h ∈ g :: pre, disj h.qs x.qs = true := by
      intro h hh
      rcases List.mem_cons.mp hh with rfl | hh
      · exact hd x (by simp)
      · exact hfree h hh
    have := Takes.cons (g :: pre) post x σ (g :: r) h1 (ih (fun y hy => hd y (by simp [hy])))
    simpa using this

theorem Takes.single_at (d : Dag) (i : Nat) (g : Instr) (hg : d[i]? = some g)
    (hfree : ∀ h ∈ d.take i, disj h.qs g.qs = true) : Takes d [g] (d.eraseIdx i) := by
  have hi : i < d.length := by
    rcases Nat.lt_or_ge i d.length with h | h
    · exact h
    · simp [List.getElem?_eq_none h] at hg
  have hgi : d[i] = g := by
    rw [List.getElem?_eq_getElem hi] at hg; exact Option.some.inj hg
  have hd : d = d.take i ++ g :: d.drop (i + 1) := by
    rw [← hgi]; simp
  have he : d.eraseIdx i = d.take i ++ d.drop (i + 1) := List.eraseIdx_eq_take_drop_succ d i
  rw [he]
  have := Takes.cons (d.take i) (d.drop (i + 1)) g [] _ hfree (Takes.nil _)
  rw [← hd] at this
  exact this

/-- taking gates is a re-ordering: nothing lost, nothing duplicated -/
theorem Takes.perm {d r : Dag} {σ : List Instr} (h : Takes d σ r) : (σ ++ r).Perm d := by
  induction h with
  | nil d => simp
  | cons pre post g σ r _ _ ih =>
    have : (g :: (σ ++ r)).Perm (g :: (pre ++ post)) := List.Perm.cons g ih
    exact this.trans List.perm_middle.symm

/-! ### temporal zone -/

theorem zone_taken_sub (cone : List Nat) (d : Dag) :
    ∀ x ∈ (zone cone d).1, ∀ q ∈ x.qs, q ∈ cone := by
  induction d generalizing cone with
  | nil => simp [zone]
  | cons g rest ih =>
    intro x hx q hq
    simp only [zone] at hx
    split at hx
    · rename_i hall
      rcases List.mem_cons.mp hx with rfl | hx
      · have := List.all_eq_true.mp hall q hq
        simpa using this
      · exact ih cone x hx q hq
    · have := ih _ x hx q hq
      exact (List.mem_filter.mp this).1

theorem zone_rest_sub (cone : List Nat) (d : Dag) : ∀ x ∈ (zone cone d).2, x ∈ d := by
  induction d generalizing cone with
  | nil => simp [zone]
  | cons g rest ih =>
    intro x hx
    simp only [zone] at hx
    split at hx
    · exact List.mem_cons_of_mem _ (ih cone x hx)
    · rcases List.mem_cons.mp hx with rfl | hx
      · simp
      · exact List.mem_cons_of_mem _ (ih _ x hx)

theorem zone_length_le (cone : List Nat) (d : Dag) : (zone cone d).2.length ≤ d.length := by
  induction d generalizing cone with
  | nil => simp [zone]
  | cons g rest ih =>
    simp only [zone]
    split
    · have := ih cone; simp only [List.length_cons]; omega
    · have := ih (cone.filter (fun q => !g.qs.contains q)); simp only [List.length_cons]; omega

/-- the zone is removed from the circuit in a wire-respecting order -/
theorem zone_takes (cone : List Nat) (d : Dag) : Takes d (zone cone d).1 (zone cone d).2 := by
  induction d generalizing cone with
  | nil => simpa [zone] using Takes.nil []
  | cons g rest ih =>
    simp only [zone]
    split
    · exact Takes.cons [] rest g _ _ (by simp) (by simpa using ih cone)
    · apply Takes.cons_skip g (ih _)
      intro x hx
      have hsub := zone_taken_sub _ rest x hx
      simp only [disj, List.all_eq_true, Bool.not_eq_eq_eq_not, Bool.not_true]
      intro q hq
      by_contra hc
      have hc' : q ∈ x.qs := by simpa using hc
      have := (List.mem_filter.mp (hsub q hc')).2
      simp [hq] at this

/-! ### events of the loop -/

theorem consumed_append (c : Nat) (a b : List Ev) : consumed c (a ++ b) = consumed c a ++ consumed c b := by
  simp [consumed]

theorem consumed_cons (c : Nat) (e : Ev) (b : List Ev) : consumed c (e :: b) = e.consumed c ++ consumed c b := by
  simp [consumed]

theorem zoneStep_takes (s : State) (m : Nat) :
    Takes s.1 (consumed 1 (zoneStep s m).1) (zoneStep s m).2.1 ∧
    Takes s.2 (consumed 2 (zoneStep s m).1) (zoneStep s m).2.2 := by
  simp only [zoneStep, consumed, List.flatMap_cons, List.flatMap_nil, Ev.consumed]
  simp only [↓reduceIte, List.append_nil, List.nil_append, show (2 : Nat) ≠ 1 by decide, show (1 : Nat) ≠ 2 by decide]
  exact ⟨zone_takes _ _, zone_takes _ _⟩

theorem zonePass_takes (ms : List Nat) (s : State) :
    Takes s.1 (consumed 1 (zonePass ms s).1) (zonePass ms s).2.1 ∧
    Takes s.2 (consumed 2 (zonePass ms s).1) (zonePass ms s).2.2 := by
  induction ms generalizing s with
  | nil => exact ⟨Takes.nil _, Takes.nil _⟩
  | cons m ms ih =>
    simp only [zonePass, consumed_append]
    have h1 := zoneStep_takes s m
    have h2 := ih (zoneStep s m).2
    exact ⟨h1.1.append h2.1, h1.2.append h2.2⟩

theorem argmin_mem {α} (key : α → Nat) (l : List α) (a : α) (h : argmin key l = some a) : a ∈ l := by
  induction l generalizing a with
  | nil => simp [argmin] at h
  | cons x xs ih =>
    simp only [argmin] at h
    split at h
    · simp only [Option.some.injEq] at h; simp [h]
    · rename_i b hb
      split at h
      · simp only [Option.some.injEq] at h; simp [h]
      · simp only [Option.some.injEq] at h; subst h; exact List.mem_cons_of_mem _ (ih b hb)

theorem argmin_isSome {α} (key : α → Nat) (l : List α) (h : l ≠ []) : ∃ a, argmin key l = some a := by
  cases l with
  | nil => exact absurd rfl h
  | cons x xs =>
    simp only [argmin]
    split
    · exact ⟨_, rfl⟩
    · split <;> exact ⟨_, rfl⟩

theorem mem_frontGates {d : Dag} {i : Nat} {g : Instr} (h : (i, g) ∈ frontGates d) :
    d[i]? = some g ∧ ∀ h ∈ d.take i, disj h.qs g.qs = true := by
  simp only [frontGates, List.mem_filterMap, List.mem_range] at h
  obtain ⟨j, hj, hh⟩ := h
  split at hh
  · rename_i g' hg'
    split at hh
    · rename_i hall
      simp only [Option.some.injEq, Prod.mk.injEq] at hh
      obtain ⟨rfl, rfl⟩ := hh
      exact ⟨hg', fun h hh => List.all_eq_true.mp hall h hh⟩
    · simp at hh
  · simp at hh

theorem head_mem_frontGates (g : Instr) (rest : Dag) : (0, g) ∈ frontGates (g :: rest) := by
  simp only [frontGates, List.mem_filterMap, List.mem_range]
  exact ⟨0, by simp, by simp⟩

theorem firstInLayer_spec {p : Instr → Bool} {d : Dag} {i : Nat} {g : Instr}
    (h : firstInLayer p d = some (i, g)) : (i, g) ∈ frontGates d ∧ p g = true := by
  have := argmin_mem _ _ _ h
  simpa using List.mem_filter.mp this

theorem longRange_takes (conj : Bool) (s : State) (ev : List Ev) (s' : State)
    (h : longRange conj s = some (ev, s')) :
    Takes s.1 (consumed 1 ev) s'.1 ∧ Takes s.2 (consumed 2 ev) s'.2 := by
  unfold longRange at h
  simp only at h
  split at h
  · simp at h
  · rename_i i g hpick
    simp only [Option.some.injEq, Prod.mk.injEq] at h
    obtain ⟨rfl, rfl⟩ := h
    have hf := (firstInLayer_spec hpick).1
    have hm := mem_frontGates hf
    have ht := Takes.single_at _ i g hm.1 hm.2
    cases conj with
    | false =>
      simp only [Bool.false_eq_true, ↓reduceIte] at ht ⊢
      have hz := zonePass_takes (lrPairs (min (g.qs.head?.getD 0) (g.qs.getLast?.getD 0)) (dist g.qs))
        (s.1.eraseIdx i, s.2)
      simp only [consumed_cons, Ev.consumed, ↓reduceIte, show (1 : Nat) ≠ 2 by decide, List.nil_append]
      exact ⟨ht.append hz.1, hz.2⟩
    | true =>
      simp only [↓reduceIte] at ht ⊢
      have hz := zonePass_takes (lrPairs (min (g.qs.head?.getD 0) (g.qs.getLast?.getD 0)) (dist g.qs))
        (s.1, s.2.eraseIdx i)
      simp only [consumed_cons, Ev.consumed, ↓reduceIte, show (2 : Nat) ≠ 1 by decide, List.nil_append]
      exact ⟨hz.1, ht.append hz.2⟩

theorem prepend_done {e : List Ev} {r : Res} {evs : List Ev} (h : r.prepend e = .done evs) :
    ∃ evs', r = .done evs' ∧ evs = e ++ evs' := by
  cases r with
  | done evs' => simp only [Res.prepend, Res.done.injEq] at h; exact ⟨evs', rfl, h.symm⟩
  | outOfFuel => simp [Res.prepend] at h
  | assertFail => simp [Res.prepend] at h

theorem loop_takes (its : List Nat) (k : Nat) (s : State) (evs : List Ev)
    (h : loop its k s = .done evs) :
    Takes s.1 (consumed 1 evs) [] ∧ Takes s.2 (consumed 2 evs) [] := by
  induction k generalizing s evs with
  | zero =>
    simp only [loop] at h
    split at h
    · rename_i he
      simp only [Bool.and_eq_true, List.isEmpty_iff] at he
      simp only [Res.done.injEq] at h
      subst h
      rw [he.1, he.2]
      exact ⟨Takes.nil _, Takes.nil _⟩
    · simp at h
  | succ k ih =>
    simp only [loop] at h
    split at h
    · rename_i he
      simp only [Bool.and_eq_true, List.isEmpty_iff] at he
      simp only [Res.done.injEq] at h
      subst h
      rw [he.1, he.2]
      exact ⟨Takes.nil _, Takes.nil _⟩
    · split at h
      · obtain ⟨evs', h1, rfl⟩ := prepend_done h
        have hz := zonePass_takes its s
        have hr := ih _ _ h1
        simp only [consumed_append]
        exact ⟨hz.1.append hr.1, hz.2.append hr.2⟩
      · split at h
        · simp at h
        · rename_i r hlr
          obtain ⟨evs', h1, rfl⟩ := prepend_done h
          have hz := longRange_takes _ s r.1 r.2 hlr
          have hr := ih _ _ h1
          simp only [consumed_append]
          exact ⟨hz.1.append hr.1, hz.2.append hr.2⟩

/-! ### termination: every pass of the loop consumes at least one gate -/

theorem zonePass_fst_length (ms : List Nat) (s : State) : (zonePass ms s).2.1.length ≤ s.1.length := by
  induction ms generalizing s with
  | nil => simp [zonePass]
  | cons m ms ih =>
    simp only [zonePass]
    have h1 := ih (zoneStep s m).2
    have h2 : (zoneStep s m).2.1.length ≤ s.1.length := zone_length_le _ _
    omega

theorem zonePass_snd_length (ms : List Nat) (s : State) : (zonePass ms s).2.2.length ≤ s.2.length := by
  induction ms generalizing s with
  | nil => simp [zonePass]
  | cons m ms ih =>
    simp only [zonePass]
    have h1 := ih (zoneStep s m).2
    have h2 : (zoneStep s m).2.2.length ≤ s.2.length := zone_length_le _ _
    omega

theorem zonePass_fst_sub (ms : List Nat) (s : State) : ∀ x ∈ (zonePass ms s).2.1, x ∈ s.1 := by
  induction ms generalizing s with
  | nil => simp [zonePass]
  | cons m ms ih =>
    intro x hx
    simp only [zonePass] at hx
    exact zone_rest_sub _ _ x (ih (zoneStep s m).2 x hx)

theorem zonePass_snd_sub (ms : List Nat) (s : State) : ∀ x ∈ (zonePass ms s).2.2, x ∈ s.2 := by
  induction ms generalizing s with
  | nil => simp [zonePass]
  | cons m ms ih =>
    intro x hx
    simp only [zonePass] at hx
    exact zone_rest_sub _ _ x (ih (zoneStep s m).2 x hx)

/-- the head of the remaining list is either consumed by a zone or stays the head -/
theorem zone_head (cone : List Nat) (g : Instr) (rest : Dag) :
    (g.qs.all (fun q => cone.contains q) = true ∧ (zone cone (g :: rest)).2.length ≤ rest.length) ∨
    (g.qs.all (fun q => cone.contains q) = false ∧
      ∃ rest', (zone cone (g :: rest)).2 = g :: rest' ∧ rest'.length ≤ rest.length) := by
  simp only [zone]
  split
  · rename_i h; exact Or.inl ⟨h, zone_length_le _ _⟩
  · rename_i h
    refine Or.inr ⟨by simpa using h, _, rfl, zone_length_le _ _⟩

/-- if some pair of the pass covers the head gate of circuit 1, circuit 1 gets shorter -/
theorem zonePass_fst_progress (ms : List Nat) (g : Instr) (rest d2 : Dag) (m : Nat) (hm : m ∈ ms)
    (hcov : g.qs.all (fun q => [m, m + 1].contains q) = true) :
    (zonePass ms (g :: rest, d2)).2.1.length ≤ rest.length := by
  induction ms generalizing rest d2 with
  | nil => simp at hm
  | cons m' ms ih =>
    simp only [zonePass]
    rcases zone_head [m', m' + 1] g rest with ⟨_, hlen⟩ | ⟨hno, rest', hz, hlen⟩
    · have := zonePass_fst_length ms (zoneStep (g :: rest, d2) m').2
      have h2 : (zoneStep (g :: rest, d2) m').2.1 = (zone [m', m' + 1] (g :: rest)).2 := rfl
      rw [h2] at this
      omega
    · have hne : m ≠ m' := by
        rintro rfl
        rw [hcov] at hno; cases hno
      have hm' : m ∈ ms := by
        rcases List.mem_cons.mp hm with h | h
        · exact absurd h hne
        · exact h
      have h2 : (zoneStep (g :: rest, d2) m').2 = (g :: rest', (zone [m', m' + 1] d2).2) := by
        simp only [zoneStep, hz]
      rw [h2]
      have := ih rest' (zone [m', m' + 1] d2).2 hm'
      omega

theorem zonePass_snd_progress (ms : List Nat) (g : Instr) (rest d1 : Dag) (m : Nat) (hm : m ∈ ms)
    (hcov : g.qs.all (fun q => [m, m + 1].contains q) = true) :
    (zonePass ms (d1, g :: rest)).2.2.length ≤ rest.length := by
  induction ms generalizing rest d1 with
  | nil => simp at hm
  | cons m' ms ih =>
    simp only [zonePass]
    rcases zone_head [m', m' + 1] g rest with ⟨_, hlen⟩ | ⟨hno, rest', hz, hlen⟩
    · have := zonePass_snd_length ms (zoneStep (d1, g :: rest) m').2
      have h2 : (zoneStep (d1, g :: rest) m').2.2 = (zone [m', m' + 1] (g :: rest)).2 := rfl
      rw [h2] at this
      omega
    · have hne : m ≠ m' := by
        rintro rfl
        rw [hcov] at hno; cases hno
      have hm' : m ∈ ms := by
        rcases List.mem_cons.mp hm with h | h
        · exact absurd h hne
        · exact h
      have h2 : (zoneStep (d1, g :: rest) m').2 = ((zone [m', m' + 1] d1).2, g :: rest') := by
        simp only [zoneStep, hz]
      rw [h2]
      have := ih rest' (zone [m', m' + 1] d1).2 hm'
      omega

theorem le_foldr_max (l : List Nat) (b x : Nat) (h : x ∈ l) : x ≤ l.foldr max b := by
  induction l with
  | nil => simp at h
  | cons y ys ih =>
    simp only [List.foldr_cons]
    rcases List.mem_cons.mp h with rfl | h
    · omega
    · have := ih h; omega

theorem exists_of_foldr_max_gt (l : List Nat) (b c : Nat) (hb : b ≤ c) (h : c < l.foldr max b) :
    ∃ x ∈ l, c < x := by
  induction l with
  | nil => simp only [List.foldr_nil] at h; omega
  | cons y ys ih =>
    simp only [List.foldr_cons] at h
    by_cases hy : c < y
    · exact ⟨y, by simp, hy⟩
    · have : c < ys.foldr max b := by omega
      obtain ⟨x, hx, hc⟩ := ih this
      exact ⟨x, List.mem_cons_of_mem _ hx, hc⟩

/-- the head gate of a circuit is in the first layer, so `check_longest_gate` sees it -/
theorem head_dist_le_longest (g : Instr) (rest : Dag) (h2 : g.qs.length > 1) :
    dist g.qs ≤ longest (g :: rest) := by
  unfold longest
  apply le_foldr_max
  simp only [List.mem_map, List.mem_filter]
  exact ⟨(0, g), ⟨head_mem_frontGates g rest, by simpa using h2⟩, rfl⟩

/-- when `check_longest_gate` reports a distance above 2, the first layer holds a long-range gate -/
theorem firstInLayer_of_longest (d : Dag) (h : 2 < longest d) :
    ∃ x, firstInLayer (fun g => decide (g.qs.length > 1) && decide (dist g.qs > 2)) d = some x := by
  unfold longest at h
  obtain ⟨x, hx, hc⟩ := exists_of_foldr_max_gt _ 1 2 (by omega) h
  simp only [List.mem_map, List.mem_filter] at hx
  obtain ⟨y, ⟨hy, hl⟩, rfl⟩ := hx
  unfold firstInLayer
  apply argmin_isSome
  intro hnil
  have : y ∈ (frontGates d).filter (fun x => decide (x.2.qs.length > 1) && decide (dist x.2.qs > 2)) := by
    simp only [List.mem_filter]
    exact ⟨hy, by simp only [Bool.and_eq_true, decide_eq_true_eq]; exact ⟨by simpa using hl, hc⟩⟩
  rw [hnil] at this
  simp at this

/-- a one- or two-qubit gate of distance ≤ 2 on qubits `< n` lies inside one neighbouring pair `(m, m+1)`,
    `m < n - 1` -/
theorem covered_of_near (n : Nat) (hn : 2 ≤ n) (qs : List Nat) (hl : qs.length = 1 ∨ qs.length = 2)
    (hq : ∀ q ∈ qs, q < n) (hd : qs.length > 1 → dist qs ≤ 2) :
    ∃ m, m < n - 1 ∧ qs.all (fun q => [m, m + 1].contains q) = true := by
  rcases hl with hl | hl
  · obtain ⟨a, rfl⟩ := List.length_eq_one_iff.mp hl
    have ha := hq a (by simp)
    by_cases h : a < n - 1
    · exact ⟨a, h, by simp⟩
    · refine ⟨a - 1, by omega, ?_⟩
      have : a - 1 + 1 = a := by omega
      simp [this]
  · obtain ⟨a, b, rfl⟩ := List.length_eq_two.mp hl
    have ha := hq a (by simp)
    have hb := hq b (by simp)
    have hd' := hd (by simp)
    simp only [dist, List.length_cons, List.length_nil, List.head?_cons, Option.getD_some] at hd'
    simp at hd'
    by_cases hab : a = b
    · subst hab
      by_cases h : a < n - 1
      · exact ⟨a, h, by simp⟩
      · refine ⟨a - 1, by omega, ?_⟩
        have : a - 1 + 1 = a := by omega
        simp [this]
    · refine ⟨min a b, by omega, ?_⟩
      simp only [List.all_cons, List.all_nil, Bool.and_true, List.contains_cons, List.contains_nil,
        Bool.or_false, Bool.and_eq_true, Bool.or_eq_true, beq_iff_eq]
      omega

theorem mem_startIts (n : Nat) (odd : Bool) (m : Nat) (hm : m < n - 1) : m ∈ startIts n odd := by
  unfold startIts
  simp only
  split <;> simp only [List.mem_append, List.mem_filter, List.mem_range, beq_iff_eq] <;> omega

/-- executable form of `WF` (for examples) -/
def wfb (n : Nat) (d : Dag) : Bool :=
  d.all (fun g => (g.qs.length == 1 || g.qs.length == 2) && g.qs.all (fun q => decide (q < n)))

theorem WF_of_wfb (n : Nat) (d : Dag) (h : wfb n d = true) : WF n d := by
  intro g hg
  have := List.all_eq_true.mp h g hg
  simp only [Bool.and_eq_true, Bool.or_eq_true, beq_iff_eq, List.all_eq_true, decide_eq_true_eq] at this
  exact this

theorem WF_sub {n : Nat} {d d' : Dag} (h : WF n d) (hs : ∀ x ∈ d', x ∈ d) : WF n d' :=
  fun g hg => h g (hs g hg)

/-- one standard layer shortens the work list -/
theorem zonePass_progress (n : Nat) (hn : 2 ≤ n) (its : List Nat) (hits : ∀ m, m < n - 1 → m ∈ its)
    (s : State) (h1 : WF n s.1) (h2 : WF n s.2) (hne : ¬ (s.1.isEmpty && s.2.isEmpty) = true)
    (hl1 : longest s.1 ≤ 2) (hl2 : longest s.2 ≤ 2) :
    (zonePass its s).2.1.length + (zonePass its s).2.2.length < s.1.length + s.2.length := by
  obtain ⟨d1, d2⟩ := s
  simp only at *
  have hA := zonePass_fst_length its (d1, d2)
  have hB := zonePass_snd_length its (d1, d2)
  simp only at hA hB
  cases d1 with
  | cons g rest =>
    have hw := h1 g (by simp)
    obtain ⟨m, hm, hcov⟩ := covered_of_near n hn g.qs hw.1 hw.2
      (fun hgt => le_trans (head_dist_le_longest g rest hgt) hl1)
    have := zonePass_fst_progress its g rest d2 m (hits m hm) hcov
    simp only [List.length_cons]
    omega
  | nil =>
    cases d2 with
    | nil => simp at hne
    | cons g rest =>
      have hw := h2 g (by simp)
      obtain ⟨m, hm, hcov⟩ := covered_of_near n hn g.qs hw.1 hw.2
        (fun hgt => le_trans (head_dist_le_longest g rest hgt) hl2)
      have := zonePass_snd_progress its g rest [] m (hits m hm) hcov
      simp only [List.length_cons]
      omega

theorem longRange_progress (conj : Bool) (s : State) (hc : 2 < longest (if conj then s.2 else s.1)) :
    ∃ r, longRange conj s = some r ∧ r.2.1.length + r.2.2.length < s.1.length + s.2.length ∧
      (∀ x ∈ r.2.1, x ∈ s.1) ∧ (∀ x ∈ r.2.2, x ∈ s.2) := by
  obtain ⟨⟨i, g⟩, hx⟩ := firstInLayer_of_longest _ hc
  have hm := mem_frontGates (firstInLayer_spec hx).1
  have hi : i < (if conj then s.2 else s.1).length := by
    rcases Nat.lt_or_ge i (if conj then s.2 else s.1).length with h | h
    · exact h
    · have := hm.1; simp [List.getElem?_eq_none h] at this
  unfold longRange
  simp only [hx]
  refine ⟨_, rfl, ?_, ?_, ?_⟩
  · cases conj with
    | false =>
      simp only [Bool.false_eq_true, ↓reduceIte] at hi ⊢
      have hA := zonePass_fst_length (lrPairs (min (g.qs.head?.getD 0) (g.qs.getLast?.getD 0)) (dist g.qs))
        (s.1.eraseIdx i, s.2)
      have hB := zonePass_snd_length (lrPairs (min (g.qs.head?.getD 0) (g.qs.getLast?.getD 0)) (dist g.qs))
        (s.1.eraseIdx i, s.2)
      simp only [List.length_eraseIdx, hi, ↓reduceIte] at hA hB
      omega
    | true =>
      simp only [↓reduceIte] at hi ⊢
      have hA := zonePass_fst_length (lrPairs (min (g.qs.head?.getD 0) (g.qs.getLast?.getD 0)) (dist g.qs))
        (s.1, s.2.eraseIdx i)
      have hB := zonePass_snd_length (lrPairs (min (g.qs.head?.getD 0) (g.qs.getLast?.getD 0)) (dist g.qs))
        (s.1, s.2.eraseIdx i)
      simp only [List.length_eraseIdx, hi, ↓reduceIte] at hA hB
      omega
  · intro x hx'
    have := zonePass_fst_sub _ _ x hx'
    cases conj with
    | false => simp only [Bool.false_eq_true, ↓reduceIte] at this; exact List.mem_of_mem_eraseIdx this
    | true => simpa using this
  · intro x hx'
    have := zonePass_snd_sub _ _ x hx'
    cases conj with
    | false => simpa using this
    | true => simp only [↓reduceIte] at this; exact List.mem_of_mem_eraseIdx this

/-- the `while` loop of `iterate` ends within `len c1 + len c2` passes and never hits the assertion -/
theorem loop_terminates (n : Nat) (hn : 2 ≤ n) (its : List Nat) (hits : ∀ m, m < n - 1 → m ∈ its)
    (k : Nat) (s : State) (h1 : WF n s.1) (h2 : WF n s.2) (hk : s.1.length + s.2.length ≤ k) :
    ∃ evs, loop its k s = .done evs := by
  induction k generalizing s with
  | zero =>
    have e1 : s.1 = [] := List.eq_nil_of_length_eq_zero (by omega)
    have e2 : s.2 = [] := List.eq_nil_of_length_eq_zero (by omega)
    exact ⟨[], by simp [loop, e1, e2]⟩
  | succ k ih =>
    simp only [loop]
    split
    · exact ⟨[], rfl⟩
    · rename_i hne
      split
      · rename_i hl
        have hp := zonePass_progress n hn its hits s h1 h2 hne hl.1 hl.2
        obtain ⟨evs, he⟩ := ih (zonePass its s).2 (WF_sub h1 (zonePass_fst_sub its s))
          (WF_sub h2 (zonePass_snd_sub its s)) (by omega)
        exact ⟨_, by rw [he]; rfl⟩
      · rename_i hl
        have hc : 2 < longest (if decide (longest s.2 > longest s.1) = true then s.2 else s.1) := by
          by_cases hgt : longest s.2 > longest s.1
          · simp only [hgt, decide_true, ↓reduceIte]; omega
          · simp only [hgt, decide_false, Bool.false_eq_true, ↓reduceIte]; omega
        obtain ⟨r, hr, hlen, hs1, hs2⟩ := longRange_progress _ s hc
        rw [hr]
        simp only
        obtain ⟨evs, he⟩ := ih r.2 (WF_sub h1 hs1) (WF_sub h2 hs2) (by omega)
        exact ⟨_, by rw [he]; rfl⟩

/-! ### every zone event only holds gates of its own pair of sites -/

/-- the gates of a zone event at `m` act inside `{m, m+1}` (what `apply_gate` asserts) -/
def Ev.ok : Ev → Prop
  | .zone _ m gs => ∀ g ∈ gs, ∀ q ∈ g.qs, q = m ∨ q = m + 1
  | .lr _ _ => True

theorem zone_pair_ok (m : Nat) (d : Dag) : ∀ g ∈ (zone [m, m + 1] d).1, ∀ q ∈ g.qs, q = m ∨ q = m + 1 := by
  intro g hg q hq
  have := zone_taken_sub _ d g hg q hq
  simpa using this

theorem zonePass_ok (ms : List Nat) (s : State) : ∀ e ∈ (zonePass ms s).1, e.ok := by
  induction ms generalizing s with
  | nil => simp [zonePass]
  | cons m ms ih =>
    intro e he
    simp only [zonePass, List.mem_append] at he
    rcases he with he | he
    · simp only [zoneStep, List.mem_cons, List.not_mem_nil, or_false] at he
      rcases he with rfl | rfl <;> exact zone_pair_ok _ _
    · exact ih _ e he

theorem longRange_ok (conj : Bool) (s : State) (r : List Ev × State) (h : longRange conj s = some r) :
    ∀ e ∈ r.1, e.ok := by
  unfold longRange at h
  simp only at h
  split at h
  · simp at h
  · simp only [Option.some.injEq] at h
    subst h
    intro e he
    rcases List.mem_cons.mp he with rfl | he
    · trivial
    · exact zonePass_ok _ _ e he

theorem loop_ok (its : List Nat) (k : Nat) (s : State) (evs : List Ev) (h : loop its k s = .done evs) :
    ∀ e ∈ evs, e.ok := by
  induction k generalizing s evs with
  | zero =>
    simp only [loop] at h
    split at h
    · simp only [Res.done.injEq] at h; subst h; simp
    · simp at h
  | succ k ih =>
    simp only [loop] at h
    split at h
    · simp only [Res.done.injEq] at h; subst h; simp
    · split at h
      · obtain ⟨evs', h1, rfl⟩ := prepend_done h
        intro e he
        rcases List.mem_append.mp he with he | he
        · exact zonePass_ok _ _ e he
        · exact ih _ _ h1 e he
      · split at h
        · simp at h
        · rename_i r hlr
          obtain ⟨evs', h1, rfl⟩ := prepend_done h
          intro e he
          rcases List.mem_append.mp he with he | he
          · exact longRange_ok _ _ r hlr e he
          · exact ih _ _ h1 e he

/-! ### operator semantics of the event list -/

/-- the circuit's operator under an interpretation of its gates: later gates multiply from the left -/
def U {M : Type*} [Monoid M] (sem : Instr → M) (d : List Instr) : M := ((d.map sem).reverse).prod

/-- effect of one event on the operator being built: circuit-1 gates from the left (in the order consumed),
    circuit-2 gates from the right through `semR` (their conjugated form) -/
def applyEv {M : Type*} [Monoid M] (semL semR : Instr → M) (X : M) : Ev → M
  | .zone c _ gs => if c = 1 then U semL gs * X else if c = 2 then X * (gs.map semR).prod else X
  | .lr c g => if c = 1 then semL g * X else if c = 2 then X * semR g else X

def runEvs {M : Type*} [Monoid M] (semL semR : Instr → M) (X : M) (evs : List Ev) : M :=
  evs.foldl (applyEv semL semR) X

theorem U_append {M : Type*} [Monoid M] (sem : Instr → M) (a b : List Instr) :
    U sem (a ++ b) = U sem b * U sem a := by
  simp [U, List.prod_append]

/-- the same for the forward product (used for the conjugated second circuit) -/
theorem lin_product_fwd {M : Type*} [Monoid M] (sem : Instr → M)
    (hc : ∀ a b : Instr, disj a.qs b.qs = true → Commute (sem a) (sem b))
    (d r : Dag) (σ : List Instr) (h : Takes d σ r) :
    (d.map sem).prod = (σ.map sem).prod * (r.map sem).prod := by
  induction h with
  | nil d => simp
  | cons pre post g σ r hfree _ ih =>
    have hcomm : Commute (sem g) ((pre.map sem).prod) := by
      apply Commute.list_prod_right
      intro x hx
      simp only [List.mem_map] at hx
      obtain ⟨y, hy, rfl⟩ := hx
      exact (hc y g (hfree y hy)).symm
    simp only [List.map_append, List.map_cons, List.prod_append, List.prod_cons] at ih ⊢
    rw [← mul_assoc, ← hcomm.eq, mul_assoc, ih, mul_assoc]

theorem runEvs_eq {M : Type*} [Monoid M] (semL semR : Instr → M) (X : M) (evs : List Ev) :
    runEvs semL semR X evs = U semL (consumed 1 evs) * X * ((consumed 2 evs).map semR).prod := by
  induction evs generalizing X with
  | nil => simp [runEvs, consumed, U]
  | cons e evs ih =>
    have hstep : runEvs semL semR X (e :: evs) = runEvs semL semR (applyEv semL semR X e) evs := rfl
    rw [hstep, ih, consumed_cons, consumed_cons, U_append]
    cases e with
    | zone c m gs =>
      by_cases h1 : c = 1
      · subst h1; simp [applyEv, Ev.consumed, U, mul_assoc]
      · by_cases h2 : c = 2
        · subst h2; simp [applyEv, Ev.consumed, U, mul_assoc, List.prod_append]
        · simp [applyEv, Ev.consumed, h1, h2, U]
    | lr c g =>
      by_cases h1 : c = 1
      · subst h1; simp [applyEv, Ev.consumed, U, mul_assoc]
      · by_cases h2 : c = 2
        · subst h2; simp [applyEv, Ev.consumed, U, mul_assoc]
        · simp [applyEv, Ev.consumed, h1, h2, U]

theorem star_U {M : Type*} [Monoid M] [StarMul M] (sem : Instr → M) (d : List Instr) :
    star (U sem d) = (d.map (fun g => star (sem g))).prod := by
  induction d with
  | nil => simp [U]
  | cons g rest ih =>
    have : U sem (g :: rest) = U sem rest * sem g := by simp [U]
    rw [this, star_mul, ih]
    simp

end Yaqs.Verdict
