import YaqsModel.Lemmas.MasterEq
import Mathlib.Analysis.Normed.Algebra.MatrixExponential
import Mathlib.Analysis.SpecialFunctions.Exponential
import Mathlib.Analysis.Calculus.Deriv.Mul
import Mathlib.Analysis.Calculus.Deriv.Add
import Mathlib.Analysis.Calculus.Deriv.Comp
import Mathlib.Analysis.Calculus.Deriv.Inv
import Mathlib.Topology.Algebra.Module.FiniteDimension
import Mathlib.Analysis.Complex.Basic
import Mathlib.Tactic.Module
import Mathlib.Tactic.FieldSimp

/-!
# Lemmas.Consistency — first-order consistency of the one-step trajectory average with the Lindblad generator

Analytic part of C01 (and, at `t = 1` scaled strengths, C03): the derivative at `t = 0` of the averaged one-step map of the
tensor-jump method is the Lindbladian.  Everything is over `Matrix n n ℂ`, the time step `t` is a *real* variable, the
matrix exponential is Mathlib's `NormedSpace.exp`.  `HasDerivAt` on matrices only depends on the (entrywise) topology;
the proofs use the `ℓ∞`-operator norm as a local instance (as Mathlib's `MatrixExponential` file does), the statements
do not mention any norm.

What is mirrored (one step of `analog_tjm_1`, `analog/analog_tjm.py`):
  * `local_dynamic_tdvp(state, H, …)`           → `unitaryStep H t = exp(t • (−i•H))`  (the exact flow the TDVP step approximates)
  * `apply_dissipation(state, noise, dt, …)`    → `dissStep Ls t = Π_k exp(t • (−(γ_k/2) • L_k† L_k))`, one factor per process, in
                                                   *any* order (the theorem is for every list; the code applies the factors
                                                   site by site from the right, `expm(-0.5*dt*gamma*L†L)` resp. the scalar
                                                   `exp(-0.5*dt*gamma)` for Pauli processes, for which `L†L = 1`);
                                                   `dissStepK` is the single exponential `exp(−(t/2) K)` (equal when the factors commute)
  * `stochastic_process(state, noise, dt, …)`   → `avgState`: no-jump branch with probability `n = ‖ψ̃‖²`, jump `k` with
                                                   probability `(1−n)·γ_k‖L_kψ̃‖²/c`, `c = Σ_k γ_k‖L_kψ̃‖²`, branch states
                                                   normalised — i.e. the closed form of `Props/C01.lean::c01_lottery_expectation`
                                                   (there `W = t·c`, the factor `t` cancels).
-/
namespace Yaqs.Consistency

open Matrix NormedSpace Yaqs.MasterEq
open scoped Matrix.Norms.Operator

variable {n : Type} [Fintype n] [DecidableEq n]

noncomputable section

/-- the strengths as complex numbers -/
def rateC : Rat → ℂ := fun q => (q : ℂ)

/-- `K = Σ_k γ_k L_k† L_k` -/
abbrev genK (Ls : List (Proc (Matrix n n ℂ))) : Matrix n n ℂ := gammaSum rateC Ls

/-- the Lindbladian `𝓛ρ = −i[H,ρ] + Σ_k γ_k (L_k ρ L_k† − ½{L_k†L_k, ρ})` — the `lindbladian` of `Lemmas/MasterEq.lean`
    (what `Props/C06.lean::lindblad_rhs_is_lindbladian` identifies with the code of the exact solver) over ℂ -/
abbrev lind (H : Matrix n n ℂ) (Ls : List (Proc (Matrix n n ℂ))) (ρ : Matrix n n ℂ) : Matrix n n ℂ :=
  lindbladian Complex.I (1 / 2 : ℂ) rateC H Ls ρ

/-- `Σ_k γ_k L_k σ L_k†` -/
def jumpSum (Ls : List (Proc (Matrix n n ℂ))) (σ : Matrix n n ℂ) : Matrix n n ℂ :=
  (Ls.map fun p => rateC p.gamma • (p.op * σ * p.opᴴ)).sum

/-- exact unitary step `exp(−i t H)` -/
def unitaryStep (H : Matrix n n ℂ) (t : ℝ) : Matrix n n ℂ := exp (t • ((-Complex.I) • H))

/-- one factor of `apply_dissipation`: `expm(-0.5 * dt * gamma * L†L)` -/
def dissFactor (p : Proc (Matrix n n ℂ)) (t : ℝ) : Matrix n n ℂ :=
  exp (t • ((-(rateC p.gamma / 2)) • (p.opᴴ * p.op)))

/-- the dissipation sweep: product of the per-process factors in list order -/
def dissStep (Ls : List (Proc (Matrix n n ℂ))) (t : ℝ) : Matrix n n ℂ := (Ls.map fun p => dissFactor p t).prod

/-- the single exponential `exp(−(t/2) K)` -/
def dissStepK (Ls : List (Proc (Matrix n n ℂ))) (t : ℝ) : Matrix n n ℂ := exp (t • ((-(1 / 2 : ℂ)) • genK Ls))

/-- un-normalised no-jump state `σ(t) = A(t) ρ A(t)†` for a propagator family `A` -/
def sigma (A : ℝ → Matrix n n ℂ) (ρ : Matrix n n ℂ) (t : ℝ) : Matrix n n ℂ := A t * ρ * (A t)ᴴ

/-- squared norm after the no-jump propagation, `n(t) = tr σ(t)` -/
def nrm (A : ℝ → Matrix n n ℂ) (ρ : Matrix n n ℂ) (t : ℝ) : ℂ := trace (sigma A ρ t)

/-- total jump rate `c(t) = Σ_k γ_k tr(L_k σ(t) L_k†) = tr(K σ(t))` -/
def cw (Ls : List (Proc (Matrix n n ℂ))) (A : ℝ → Matrix n n ℂ) (ρ : Matrix n n ℂ) (t : ℝ) : ℂ :=
  trace (genK Ls * sigma A ρ t)

/-- the ratio `(1 − n(t)) / c(t)` that multiplies the jump branches -/
def ratio (Ls : List (Proc (Matrix n n ℂ))) (A : ℝ → Matrix n n ℂ) (ρ : Matrix n n ℂ) (t : ℝ) : ℂ :=
  (1 - nrm A ρ t) / cw Ls A ρ t

/-- the branch average of one step: `E(t) = σ(t) + ((1−n(t))/c(t)) · Σ_k γ_k L_k σ(t) L_k†` -/
def avgState (Ls : List (Proc (Matrix n n ℂ))) (A : ℝ → Matrix n n ℂ) (ρ : Matrix n n ℂ) (t : ℝ) : Matrix n n ℂ :=
  sigma A ρ t + ratio Ls A ρ t • jumpSum Ls (sigma A ρ t)

/-- the MCWF branch average: weights and jump operators act on the *pre-step* state `ρ` -/
def avgStateMcwf (Ls : List (Proc (Matrix n n ℂ))) (A : ℝ → Matrix n n ℂ) (ρ : Matrix n n ℂ) (t : ℝ) : Matrix n n ℂ :=
  sigma A ρ t + ((1 - nrm A ρ t) / trace (genK Ls * ρ)) • jumpSum Ls ρ

/-! ### derivative toolkit on `Matrix n n ℂ` (real variable) -/

omit [DecidableEq n] in
/-- an `ℝ`-linear map of a differentiable matrix curve -/
theorem hasDerivAt_lin {F : Type} [NormedAddCommGroup F] [NormedSpace ℝ F]
    (φ : Matrix n n ℂ →ₗ[ℝ] F) {g : ℝ → Matrix n n ℂ} {g' : Matrix n n ℂ} {t : ℝ}
    (hg : HasDerivAt g g' t) : HasDerivAt (fun s => φ (g s)) (φ g') t := by
  have := HasFDerivAt.comp_hasDerivAt t (LinearMap.toContinuousLinearMap φ).hasFDerivAt hg
  exact this

/-- conjugate transpose as an `ℝ`-linear map -/
def ctLin : Matrix n n ℂ →ₗ[ℝ] Matrix n n ℂ where
  toFun := conjTranspose
  map_add' := conjTranspose_add
  map_smul' r A := by
    ext i j
    simp [conjTranspose_apply]

omit [DecidableEq n] in
theorem hasDerivAt_ct {g : ℝ → Matrix n n ℂ} {g' : Matrix n n ℂ} {t : ℝ}
    (hg : HasDerivAt g g' t) : HasDerivAt (fun s => (g s)ᴴ) (g'ᴴ) t :=
  hasDerivAt_lin ctLin hg

omit [DecidableEq n] in
theorem hasDerivAt_trace {g : ℝ → Matrix n n ℂ} {g' : Matrix n n ℂ} {t : ℝ}
    (hg : HasDerivAt g g' t) : HasDerivAt (fun s => trace (g s)) (trace g') t :=
  hasDerivAt_lin (traceLinearMap n ℝ ℂ) hg

theorem hasDerivAt_mul {f g : ℝ → Matrix n n ℂ} {f' g' : Matrix n n ℂ} {t : ℝ}
    (hf : HasDerivAt f f' t) (hg : HasDerivAt g g' t) :
    HasDerivAt (fun s => f s * g s) (f' * g t + f t * g') t := by
  have := HasDerivAt.mul (𝔸 := Matrix n n ℂ) hf hg
  exact this

omit [DecidableEq n] in
theorem hasDerivAt_constM (c : Matrix n n ℂ) (t : ℝ) : HasDerivAt (fun _ : ℝ => c) 0 t := by
  have := hasDerivAt_const (F := Matrix n n ℂ) t c
  exact this

theorem hasDerivAt_exp_smul (X : Matrix n n ℂ) (t : ℝ) :
    HasDerivAt (fun s : ℝ => exp (s • X)) (exp (t • X) * X) t := by
  have := hasDerivAt_exp_smul_const (𝕂 := ℝ) X t
  exact this

theorem hasDerivAt_exp_smul_zero (X : Matrix n n ℂ) : HasDerivAt (fun s : ℝ => exp (s • X)) X 0 := by
  have := hasDerivAt_exp_smul X 0
  rwa [zero_smul, exp_zero, one_mul] at this

/-! ### the propagators at `t = 0` -/

theorem unitaryStep_zero (H : Matrix n n ℂ) : unitaryStep H 0 = 1 := by
  unfold unitaryStep; rw [zero_smul, exp_zero]

theorem hasDerivAt_unitaryStep (H : Matrix n n ℂ) : HasDerivAt (unitaryStep H) ((-Complex.I) • H) 0 :=
  hasDerivAt_exp_smul_zero _

theorem dissFactor_zero (p : Proc (Matrix n n ℂ)) : dissFactor p 0 = 1 := by
  unfold dissFactor; rw [zero_smul, exp_zero]

theorem dissStep_zero (Ls : List (Proc (Matrix n n ℂ))) : dissStep Ls 0 = 1 := by
  unfold dissStep
  induction Ls with
  | nil => simp
  | cons p ps ih => rw [List.map_cons, List.prod_cons, dissFactor_zero, ih, one_mul]

theorem dissStepK_zero (Ls : List (Proc (Matrix n n ℂ))) : dissStepK Ls 0 = 1 := by
  unfold dissStepK; rw [zero_smul, exp_zero]

/-- the dissipation sweep has generator `−½ K` whatever the order of its factors -/
theorem hasDerivAt_dissStep (Ls : List (Proc (Matrix n n ℂ))) :
    HasDerivAt (dissStep Ls) ((-(1 / 2 : ℂ)) • genK Ls) 0 := by
  induction Ls with
  | nil =>
    have : dissStep ([] : List (Proc (Matrix n n ℂ))) = fun _ => 1 := by funext t; simp [dissStep]
    rw [this]
    simpa [genK, gammaSum] using hasDerivAt_constM (1 : Matrix n n ℂ) 0
  | cons p ps ih =>
    have hp : HasDerivAt (dissFactor p) ((-(rateC p.gamma / 2)) • (p.opᴴ * p.op)) 0 := hasDerivAt_exp_smul_zero _
    have h := hasDerivAt_mul hp ih
    rw [dissFactor_zero, dissStep_zero, one_mul, mul_one] at h
    have e : (fun s => dissFactor p s * dissStep ps s) = dissStep (p :: ps) := by
      funext s; simp [dissStep]
    rw [e] at h
    convert h using 1
    simp only [genK, gammaSum, List.map_cons, List.sum_cons, smul_add, smul_smul]
    congr 2
    ring

theorem hasDerivAt_dissStepK (Ls : List (Proc (Matrix n n ℂ))) :
    HasDerivAt (dissStepK Ls) ((-(1 / 2 : ℂ)) • genK Ls) 0 :=
  hasDerivAt_exp_smul_zero _

/-- the no-jump generator `G = −iH − ½K` -/
def genG (H : Matrix n n ℂ) (Ls : List (Proc (Matrix n n ℂ))) : Matrix n n ℂ :=
  (-Complex.I) • H + (-(1 / 2 : ℂ)) • genK Ls

/-- a propagator family with `A 0 = 1` and generator `−iH − ½K` at `0` -/
structure IsNoJumpFamily (H : Matrix n n ℂ) (Ls : List (Proc (Matrix n n ℂ))) (A : ℝ → Matrix n n ℂ) : Prop where
  zero : A 0 = 1
  deriv : HasDerivAt A (genG H Ls) 0

/-- order 1 (`analog_tjm_1`): unitary step, then the dissipation sweep -/
theorem noJump_order1 (H : Matrix n n ℂ) (Ls : List (Proc (Matrix n n ℂ))) :
    IsNoJumpFamily H Ls (fun t => dissStep Ls t * unitaryStep H t) := by
  refine ⟨by simp [dissStep_zero, unitaryStep_zero], ?_⟩
  have h := hasDerivAt_mul (hasDerivAt_dissStep Ls) (hasDerivAt_unitaryStep H)
  rw [dissStep_zero, unitaryStep_zero, one_mul, mul_one] at h
  unfold genG
  rw [add_comm]
  exact h

/-- the same with the single exponential `exp(−(t/2)K)` -/
theorem noJump_order1K (H : Matrix n n ℂ) (Ls : List (Proc (Matrix n n ℂ))) :
    IsNoJumpFamily H Ls (fun t => dissStepK Ls t * unitaryStep H t) := by
  refine ⟨by simp [dissStepK_zero, unitaryStep_zero], ?_⟩
  have h := hasDerivAt_mul (hasDerivAt_dissStepK Ls) (hasDerivAt_unitaryStep H)
  rw [dissStepK_zero, unitaryStep_zero, one_mul, mul_one] at h
  unfold genG
  rw [add_comm]
  exact h

omit [DecidableEq n] in
/-- `t ↦ f (t/2)` at `0` -/
theorem hasDerivAt_half {f : ℝ → Matrix n n ℂ} {f' : Matrix n n ℂ} (hf : HasDerivAt f f' 0) :
    HasDerivAt (fun t : ℝ => f (t / 2)) ((1 / 2 : ℝ) • f') 0 := by
  have hh : HasDerivAt (fun t : ℝ => t / 2) (1 / 2 : ℝ) 0 := by
    simpa using (hasDerivAt_id (0 : ℝ)).div_const 2
  have hf' : HasDerivAt f f' ((fun t : ℝ => t / 2) 0) := by simpa using hf
  have := HasDerivAt.scomp (0 : ℝ) hf' hh
  exact this

/-- order 2 (`analog_tjm_2`, Strang): half dissipation, unitary step, half dissipation -/
theorem noJump_order2 (H : Matrix n n ℂ) (Ls : List (Proc (Matrix n n ℂ))) :
    IsNoJumpFamily H Ls (fun t => dissStep Ls (t / 2) * unitaryStep H t * dissStep Ls (t / 2)) := by
  refine ⟨by simp [dissStep_zero, unitaryStep_zero], ?_⟩
  have hd := hasDerivAt_half (hasDerivAt_dissStep Ls)
  have h := hasDerivAt_mul (hasDerivAt_mul hd (hasDerivAt_unitaryStep H)) hd
  simp only [zero_div, dissStep_zero, unitaryStep_zero, one_mul, mul_one] at h
  convert h using 1
  unfold genG
  rw [show ((1 / 2 : ℝ) • ((-(1 / 2 : ℂ)) • genK Ls)) = (-(1 / 4 : ℂ)) • genK Ls by
    rw [← Complex.coe_smul, smul_smul]; congr 1; push_cast; ring]
  rw [show (-(1 / 2 : ℂ)) • genK Ls = (-(1 / 4 : ℂ)) • genK Ls + (-(1 / 4 : ℂ)) • genK Ls by
    rw [← add_smul]; congr 1; ring]
  abel

/-- MCWF: `exp(−i t H_eff)` with `H_eff = H − (i/2) K` (`Props/C06.lean::heff_antihermitian_part`) -/
theorem noJump_mcwf (H : Matrix n n ℂ) (Ls : List (Proc (Matrix n n ℂ))) :
    IsNoJumpFamily H Ls (fun t : ℝ => exp (t • ((-Complex.I) • (H - ((1 / 2 : ℂ) * Complex.I) • genK Ls)))) := by
  refine ⟨by simp, ?_⟩
  have h := hasDerivAt_exp_smul_zero ((-Complex.I) • (H - ((1 / 2 : ℂ) * Complex.I) • genK Ls))
  convert h using 1
  unfold genG
  rw [smul_sub, smul_smul, sub_eq_add_neg, ← neg_smul]
  congr 2
  have := Complex.I_mul_I
  first | linear_combination (1 / 2 : ℂ) * this | linear_combination (-(1 / 2) : ℂ) * this

/-! ### derivative of the no-jump state, its norm, the jump rate -/

theorem sigma_zero {A : ℝ → Matrix n n ℂ} (hA0 : A 0 = 1) (ρ : Matrix n n ℂ) : sigma A ρ 0 = ρ := by
  simp [sigma, hA0]

theorem hasDerivAt_sigma {A : ℝ → Matrix n n ℂ} {G : Matrix n n ℂ} (hA0 : A 0 = 1) (hA : HasDerivAt A G 0)
    (ρ : Matrix n n ℂ) : HasDerivAt (sigma A ρ) (G * ρ + ρ * Gᴴ) 0 := by
  have h1 := hasDerivAt_mul hA (hasDerivAt_constM ρ 0)
  have h2 := hasDerivAt_mul h1 (hasDerivAt_ct hA)
  simp only [hA0, mul_zero, add_zero, conjTranspose_one, mul_one, one_mul] at h2
  exact h2

omit [DecidableEq n] in
theorem star_rateC (q : Rat) : star (rateC q) = rateC q := by
  simp [rateC]

omit [DecidableEq n] in
theorem genK_hermitian (Ls : List (Proc (Matrix n n ℂ))) : (genK Ls)ᴴ = genK Ls :=
  conjTranspose_gammaSum rateC star_rateC Ls

omit [DecidableEq n] in
/-- `Gρ + ρG† = −i[H,ρ] − ½{K,ρ}` for `G = −iH − ½K`, `H` Hermitian -/
theorem genG_sandwich (H : Matrix n n ℂ) (hH : Hᴴ = H) (Ls : List (Proc (Matrix n n ℂ))) (ρ : Matrix n n ℂ) :
    genG H Ls * ρ + ρ * (genG H Ls)ᴴ
      = (-Complex.I) • (H * ρ - ρ * H) - (1 / 2 : ℂ) • (genK Ls * ρ + ρ * genK Ls) := by
  unfold genG
  rw [conjTranspose_add, conjTranspose_smul, conjTranspose_smul, hH, genK_hermitian]
  have h1 : star (-Complex.I) = Complex.I := by simp
  have h2 : star (-(1 / 2 : ℂ)) = -(1 / 2 : ℂ) := by simp
  rw [h1, h2]
  simp only [Matrix.add_mul, Matrix.mul_add, Matrix.smul_mul, Matrix.mul_smul]
  module

/-- **no-jump derivative**: `d/dt σ(t)|₀ = −i[H,ρ] − ½{K,ρ}` -/
theorem hasDerivAt_sigma_noJump {H : Matrix n n ℂ} {Ls : List (Proc (Matrix n n ℂ))} {A : ℝ → Matrix n n ℂ}
    (hA : IsNoJumpFamily H Ls A) (hH : Hᴴ = H) (ρ : Matrix n n ℂ) :
    HasDerivAt (sigma A ρ) ((-Complex.I) • (H * ρ - ρ * H) - (1 / 2 : ℂ) • (genK Ls * ρ + ρ * genK Ls)) 0 := by
  rw [← genG_sandwich H hH Ls ρ]
  exact hasDerivAt_sigma hA.zero hA.deriv ρ

omit [DecidableEq n] in
theorem trace_noJump_deriv (H K ρ : Matrix n n ℂ) :
    trace ((-Complex.I) • (H * ρ - ρ * H) - (1 / 2 : ℂ) • (K * ρ + ρ * K)) = -trace (K * ρ) := by
  rw [trace_sub, trace_smul, trace_smul, trace_sub, trace_add, trace_mul_comm ρ H, sub_self, smul_zero,
    trace_mul_comm ρ K, zero_sub, smul_eq_mul]
  ring

/-- **norm derivative**: `d/dt n(t)|₀ = −tr(Kρ)` -/
theorem hasDerivAt_nrm {H : Matrix n n ℂ} {Ls : List (Proc (Matrix n n ℂ))} {A : ℝ → Matrix n n ℂ}
    (hA : IsNoJumpFamily H Ls A) (hH : Hᴴ = H) (ρ : Matrix n n ℂ) :
    HasDerivAt (nrm A ρ) (-trace (genK Ls * ρ)) 0 := by
  have := hasDerivAt_trace (hasDerivAt_sigma_noJump hA hH ρ)
  rwa [trace_noJump_deriv] at this

/-- the jump rate is differentiable at `0` -/
theorem hasDerivAt_cw {H : Matrix n n ℂ} {Ls : List (Proc (Matrix n n ℂ))} {A : ℝ → Matrix n n ℂ}
    (hA : IsNoJumpFamily H Ls A) (hH : Hᴴ = H) (ρ : Matrix n n ℂ) :
    ∃ c', HasDerivAt (cw Ls A ρ) c' 0 := by
  have h := hasDerivAt_trace (hasDerivAt_mul (hasDerivAt_constM (genK Ls) 0) (hasDerivAt_sigma_noJump hA hH ρ))
  exact ⟨_, h⟩

theorem nrm_zero {A : ℝ → Matrix n n ℂ} (hA0 : A 0 = 1) (ρ : Matrix n n ℂ) : nrm A ρ 0 = trace ρ := by
  simp [nrm, sigma_zero hA0]

theorem cw_zero (Ls : List (Proc (Matrix n n ℂ))) {A : ℝ → Matrix n n ℂ} (hA0 : A 0 = 1) (ρ : Matrix n n ℂ) :
    cw Ls A ρ 0 = trace (genK Ls * ρ) := by
  simp [cw, sigma_zero hA0]

/-- **ratio derivative**: if `tr ρ = 1` and `tr(Kρ) ≠ 0` then `(1 − n(t))/c(t)` vanishes at `0` with derivative `1` -/
theorem hasDerivAt_ratio {H : Matrix n n ℂ} {Ls : List (Proc (Matrix n n ℂ))} {A : ℝ → Matrix n n ℂ}
    (hA : IsNoJumpFamily H Ls A) (hH : Hᴴ = H) (ρ : Matrix n n ℂ) (hρ : trace ρ = 1)
    (hκ : trace (genK Ls * ρ) ≠ 0) :
    ratio Ls A ρ 0 = 0 ∧ HasDerivAt (ratio Ls A ρ) 1 0 := by
  have hn := hasDerivAt_nrm hA hH ρ
  obtain ⟨c', hc⟩ := hasDerivAt_cw hA hH ρ
  have hn0 : nrm A ρ 0 = 1 := by rw [nrm_zero hA.zero, hρ]
  have hc0 : cw Ls A ρ 0 = trace (genK Ls * ρ) := cw_zero Ls hA.zero ρ
  constructor
  · unfold ratio; rw [hn0, sub_self, zero_div]
  · have h1 : HasDerivAt (fun t => 1 - nrm A ρ t) (0 - -trace (genK Ls * ρ)) 0 :=
      (hasDerivAt_const (0 : ℝ) (1 : ℂ)).sub hn
    have h2 := h1.div hc (by rw [hc0]; exact hκ)
    have e : (fun t => 1 - nrm A ρ t) / cw Ls A ρ = ratio Ls A ρ := by
      funext t; simp [ratio]
    rw [e] at h2
    have hv : ((0 - -trace (genK Ls * ρ)) * cw Ls A ρ 0 - (1 - nrm A ρ 0) * c') / cw Ls A ρ 0 ^ 2 = 1 := by
      rw [hn0, hc0]
      field_simp
      ring
    rw [hv] at h2
    exact h2

/-! ### the jump term -/

omit [DecidableEq n] in
theorem jumpSum_add (Ls : List (Proc (Matrix n n ℂ))) (a b : Matrix n n ℂ) :
    jumpSum Ls (a + b) = jumpSum Ls a + jumpSum Ls b := by
  unfold jumpSum
  simp only [Matrix.mul_add, Matrix.add_mul, smul_add]
  exact List.sum_map_add

omit [DecidableEq n] in
theorem jumpSum_smul (Ls : List (Proc (Matrix n n ℂ))) (r : ℝ) (a : Matrix n n ℂ) :
    jumpSum Ls (r • a) = r • jumpSum Ls a := by
  unfold jumpSum
  simp only [Matrix.mul_smul, Matrix.smul_mul]
  rw [List.smul_sum, List.map_map]
  congr 1
  apply List.map_congr_left
  intro p _
  simp only [Function.comp_apply]
  rw [smul_comm]

/-- `σ ↦ Σ_k γ_k L_k σ L_k†` as an `ℝ`-linear map -/
def jumpSumLin (Ls : List (Proc (Matrix n n ℂ))) : Matrix n n ℂ →ₗ[ℝ] Matrix n n ℂ where
  toFun := jumpSum Ls
  map_add' := jumpSum_add Ls
  map_smul' := jumpSum_smul Ls

omit [DecidableEq n] in
theorem hasDerivAt_jumpSum (Ls : List (Proc (Matrix n n ℂ))) {g : ℝ → Matrix n n ℂ} {g' : Matrix n n ℂ} {t : ℝ}
    (hg : HasDerivAt g g' t) : HasDerivAt (fun s => jumpSum Ls (g s)) (jumpSum Ls g') t :=
  hasDerivAt_lin (jumpSumLin Ls) hg

omit [DecidableEq n] in
theorem hasDerivAt_smulM {c : ℝ → ℂ} {c' : ℂ} {f : ℝ → Matrix n n ℂ} {f' : Matrix n n ℂ} {t : ℝ}
    (hc : HasDerivAt c c' t) (hf : HasDerivAt f f' t) :
    HasDerivAt (fun s => c s • f s) (c t • f' + c' • f t) t := by
  have := HasDerivAt.smul (F := Matrix n n ℂ) hc hf
  exact this

omit [DecidableEq n] in
theorem hasDerivAt_addM {f g : ℝ → Matrix n n ℂ} {f' g' : Matrix n n ℂ} {t : ℝ}
    (hf : HasDerivAt f f' t) (hg : HasDerivAt g g' t) : HasDerivAt (fun s => f s + g s) (f' + g') t := by
  have := HasDerivAt.add (F := Matrix n n ℂ) hf hg
  exact this

omit [DecidableEq n] in
theorem hasDerivAt_subM {f g : ℝ → Matrix n n ℂ} {f' g' : Matrix n n ℂ} {t : ℝ}
    (hf : HasDerivAt f f' t) (hg : HasDerivAt g g' t) : HasDerivAt (fun s => f s - g s) (f' - g') t := by
  have := HasDerivAt.sub (F := Matrix n n ℂ) hf hg
  exact this

omit [DecidableEq n] in
/-- `−i[H,ρ] − ½{K,ρ} + Σ γ LρL† = 𝓛ρ` -/
theorem noJump_add_jump_eq_lind (H : Matrix n n ℂ) (Ls : List (Proc (Matrix n n ℂ))) (ρ : Matrix n n ℂ) :
    (-Complex.I) • (H * ρ - ρ * H) - (1 / 2 : ℂ) • (genK Ls * ρ + ρ * genK Ls) + jumpSum Ls ρ = lind H Ls ρ := by
  unfold lind lindbladian
  rw [← sandwich_sub_anticomm (1 / 2 : ℂ) rateC Ls ρ]
  unfold jumpSum genK
  abel

/-- **first-order consistency** (density-matrix form): for every propagator family with generator `−iH − ½K`, every
    state `ρ` of trace one with non-zero total jump rate `tr(Kρ)`, the branch average of one step has derivative
    `𝓛ρ` at `t = 0`, and value `ρ` there. -/
theorem hasDerivAt_avgState {H : Matrix n n ℂ} {Ls : List (Proc (Matrix n n ℂ))} {A : ℝ → Matrix n n ℂ}
    (hA : IsNoJumpFamily H Ls A) (hH : Hᴴ = H) (ρ : Matrix n n ℂ) (hρ : trace ρ = 1)
    (hκ : trace (genK Ls * ρ) ≠ 0) :
    avgState Ls A ρ 0 = ρ ∧ HasDerivAt (avgState Ls A ρ) (lind H Ls ρ) 0 := by
  obtain ⟨hr0, hr⟩ := hasDerivAt_ratio hA hH ρ hρ hκ
  have hs := hasDerivAt_sigma_noJump hA hH ρ
  constructor
  · unfold avgState; rw [hr0, zero_smul, add_zero, sigma_zero hA.zero]
  · have h := hasDerivAt_addM hs (hasDerivAt_smulM hr (hasDerivAt_jumpSum Ls hs))
    rw [hr0, zero_smul, zero_add, one_smul, sigma_zero hA.zero, noJump_add_jump_eq_lind] at h
    exact h

/-- **first-order consistency, MCWF form** (weights and jump operators from the pre-step state) -/
theorem hasDerivAt_avgStateMcwf {H : Matrix n n ℂ} {Ls : List (Proc (Matrix n n ℂ))} {A : ℝ → Matrix n n ℂ}
    (hA : IsNoJumpFamily H Ls A) (hH : Hᴴ = H) (ρ : Matrix n n ℂ) (hρ : trace ρ = 1)
    (hκ : trace (genK Ls * ρ) ≠ 0) :
    avgStateMcwf Ls A ρ 0 = ρ ∧ HasDerivAt (avgStateMcwf Ls A ρ) (lind H Ls ρ) 0 := by
  have hn := hasDerivAt_nrm hA hH ρ
  have hs := hasDerivAt_sigma_noJump hA hH ρ
  have hn0 : nrm A ρ 0 = 1 := by rw [nrm_zero hA.zero, hρ]
  constructor
  · unfold avgStateMcwf; rw [hn0, sub_self, zero_div, zero_smul, add_zero, sigma_zero hA.zero]
  · have h1 : HasDerivAt (fun t => (1 - nrm A ρ t) / trace (genK Ls * ρ))
        ((0 - -trace (genK Ls * ρ)) / trace (genK Ls * ρ)) 0 :=
      HasDerivAt.div_const (HasDerivAt.sub (hasDerivAt_const (0 : ℝ) (1 : ℂ)) hn) _
    have h := hasDerivAt_addM hs (hasDerivAt_smulM h1 (hasDerivAt_constM (jumpSum Ls ρ) 0))
    have e : avgStateMcwf Ls A ρ
        = fun s => sigma A ρ s + ((1 - nrm A ρ s) / trace (genK Ls * ρ)) • jumpSum Ls ρ := rfl
    rw [e]
    convert h using 1
    rw [← noJump_add_jump_eq_lind]
    simp [div_self hκ]

/-! ### pure states: the formulas in terms of the propagated vector `ψ̃(t) = A(t) ψ` -/

/-- `‖φ‖² = Σ_i |φ_i|²` as a real number -/
def normSqVec (φ : n → ℂ) : ℝ := ∑ i, Complex.normSq (φ i)

omit [DecidableEq n] in
theorem star_dot_self (φ : n → ℂ) : star φ ⬝ᵥ φ = (normSqVec φ : ℂ) := by
  unfold normSqVec dotProduct
  push_cast
  apply Finset.sum_congr rfl
  intro i _
  rw [Pi.star_apply, Complex.star_def, mul_comm, Complex.mul_conj]

/-- the closed form of the lottery average on an (un-normalised) post-dissipation vector `φ`:
    `φφ† + ((1 − ‖φ‖²)/c) · Σ_k γ_k (L_kφ)(L_kφ)†`, `c = Σ_k γ_k ‖L_kφ‖²` -/
def pureAverage (Ls : List (Proc (Matrix n n ℂ))) (φ : n → ℂ) : Matrix n n ℂ :=
  vecMulVec φ (star φ)
    + ((1 - star φ ⬝ᵥ φ) / (Ls.map fun p => rateC p.gamma * (star (p.op *ᵥ φ) ⬝ᵥ (p.op *ᵥ φ))).sum)
      • (Ls.map fun p => rateC p.gamma • vecMulVec (p.op *ᵥ φ) (star (p.op *ᵥ φ))).sum

/-- the same with the time step inside the weights, literally the right-hand side of
    `Props/C01.lean::c01_lottery_expectation`: `W = Σ_k t·γ_k‖L_kφ‖²`, jump term `Σ_k t·γ_k (L_kφ)(L_kφ)†` -/
def stepAverage (Ls : List (Proc (Matrix n n ℂ))) (t : ℝ) (φ : n → ℂ) : Matrix n n ℂ :=
  vecMulVec φ (star φ)
    + ((1 - star φ ⬝ᵥ φ) / (Ls.map fun p => (t : ℂ) * rateC p.gamma * (star (p.op *ᵥ φ) ⬝ᵥ (p.op *ᵥ φ))).sum)
      • (Ls.map fun p => ((t : ℂ) * rateC p.gamma) • vecMulVec (p.op *ᵥ φ) (star (p.op *ᵥ φ))).sum

omit [DecidableEq n] in
/-- the time step cancels between the weights and their total -/
theorem stepAverage_eq (Ls : List (Proc (Matrix n n ℂ))) (t : ℝ) (ht : t ≠ 0) (φ : n → ℂ) :
    stepAverage Ls t φ = pureAverage Ls φ := by
  unfold stepAverage pureAverage
  have htc : (t : ℂ) ≠ 0 := by exact_mod_cast ht
  have h1 : (Ls.map fun p => (t : ℂ) * rateC p.gamma * (star (p.op *ᵥ φ) ⬝ᵥ (p.op *ᵥ φ))).sum
      = (t : ℂ) * (Ls.map fun p => rateC p.gamma * (star (p.op *ᵥ φ) ⬝ᵥ (p.op *ᵥ φ))).sum := by
    rw [← List.sum_map_mul_left]
    congr 1
    apply List.map_congr_left
    intro p _
    ring
  have h2 : (Ls.map fun p => ((t : ℂ) * rateC p.gamma) • vecMulVec (p.op *ᵥ φ) (star (p.op *ᵥ φ))).sum
      = (t : ℂ) • (Ls.map fun p => rateC p.gamma • vecMulVec (p.op *ᵥ φ) (star (p.op *ᵥ φ))).sum := by
    rw [List.smul_sum, List.map_map]
    congr 1
    apply List.map_congr_left
    intro p _
    simp only [Function.comp_apply, smul_smul]
  rw [h1, h2, smul_smul]
  congr 2
  field_simp

omit [DecidableEq n] in
theorem sigma_pure (A : ℝ → Matrix n n ℂ) (ψ : n → ℂ) (t : ℝ) :
    sigma A (vecMulVec ψ (star ψ)) t = vecMulVec (A t *ᵥ ψ) (star (A t *ᵥ ψ)) := by
  unfold sigma
  rw [mul_vecMulVec, vecMulVec_mul, star_mulVec]

omit [DecidableEq n] in
theorem trace_pure (φ : n → ℂ) : trace (vecMulVec φ (star φ)) = star φ ⬝ᵥ φ := by
  rw [trace_vecMulVec, dotProduct_comm]

omit [DecidableEq n] in
theorem trace_mul_pure (O : Matrix n n ℂ) (φ : n → ℂ) : trace (O * vecMulVec φ (star φ)) = star φ ⬝ᵥ (O *ᵥ φ) := by
  rw [mul_vecMulVec, trace_vecMulVec, dotProduct_comm]

omit [DecidableEq n] in
theorem nrm_pure (A : ℝ → Matrix n n ℂ) (ψ : n → ℂ) (t : ℝ) :
    nrm A (vecMulVec ψ (star ψ)) t = star (A t *ᵥ ψ) ⬝ᵥ (A t *ᵥ ψ) := by
  unfold nrm; rw [sigma_pure, trace_pure]

omit [DecidableEq n] in
theorem traceK_pure (Ls : List (Proc (Matrix n n ℂ))) (φ : n → ℂ) :
    trace (genK Ls * vecMulVec φ (star φ))
      = (Ls.map fun p => rateC p.gamma * (star (p.op *ᵥ φ) ⬝ᵥ (p.op *ᵥ φ))).sum := by
  rw [mul_vecMulVec, trace_vecMulVec, dotProduct_comm, dot_gammaSum]

omit [DecidableEq n] in
theorem cw_pure (Ls : List (Proc (Matrix n n ℂ))) (A : ℝ → Matrix n n ℂ) (ψ : n → ℂ) (t : ℝ) :
    cw Ls A (vecMulVec ψ (star ψ)) t
      = (Ls.map fun p => rateC p.gamma * (star (p.op *ᵥ (A t *ᵥ ψ)) ⬝ᵥ (p.op *ᵥ (A t *ᵥ ψ)))).sum := by
  unfold cw; rw [sigma_pure, traceK_pure]

omit [DecidableEq n] in
theorem jumpSum_pure (Ls : List (Proc (Matrix n n ℂ))) (φ : n → ℂ) :
    jumpSum Ls (vecMulVec φ (star φ))
      = (Ls.map fun p => rateC p.gamma • vecMulVec (p.op *ᵥ φ) (star (p.op *ᵥ φ))).sum := by
  unfold jumpSum
  congr 1
  apply List.map_congr_left
  intro p _
  rw [mul_vecMulVec, vecMulVec_mul, star_mulVec]

omit [DecidableEq n] in
/-- on a pure state the density-matrix form is the lottery average of the propagated vector -/
theorem avgState_pure (Ls : List (Proc (Matrix n n ℂ))) (A : ℝ → Matrix n n ℂ) (ψ : n → ℂ) (t : ℝ) :
    avgState Ls A (vecMulVec ψ (star ψ)) t = pureAverage Ls (A t *ᵥ ψ) := by
  unfold avgState ratio pureAverage
  rw [nrm_pure, cw_pure, sigma_pure, jumpSum_pure]

omit [DecidableEq n] in
/-- expectation values: `tr(O · E)` is the right-hand side `a₀ + ((1−n)/W)·Σ_k t·γ_k·a_k` of `c01_lottery_expectation`
    with `a₀ = ⟨φ|O|φ⟩`, `a_k = ⟨L_kφ|O|L_kφ⟩` -/
theorem trace_mul_stepAverage (Ls : List (Proc (Matrix n n ℂ))) (t : ℝ) (φ : n → ℂ) (O : Matrix n n ℂ) :
    trace (O * stepAverage Ls t φ)
      = star φ ⬝ᵥ (O *ᵥ φ)
        + (1 - star φ ⬝ᵥ φ) / (Ls.map fun p => (t : ℂ) * rateC p.gamma * (star (p.op *ᵥ φ) ⬝ᵥ (p.op *ᵥ φ))).sum
          * (Ls.map fun p => (t : ℂ) * rateC p.gamma * (star (p.op *ᵥ φ) ⬝ᵥ (O *ᵥ (p.op *ᵥ φ)))).sum := by
  unfold stepAverage
  rw [Matrix.mul_add, trace_add, trace_mul_pure, Matrix.mul_smul, trace_smul, smul_eq_mul]
  congr 2
  induction Ls with
  | nil => simp
  | cons p ps ih =>
    simp only [List.map_cons, List.sum_cons, Matrix.mul_add, trace_add, ih, Matrix.mul_smul, trace_smul,
      trace_mul_pure, smul_eq_mul]

end

end Yaqs.Consistency
