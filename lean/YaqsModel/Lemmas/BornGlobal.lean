import YaqsModel.Lemmas.Born
import YaqsModel.Lemmas.LocalExpect

/-!
# Global (dense) meaning of the probabilities `MPS.measure` computes from one site tensor

`Lemmas/Born.lean` shows what `measure` hands to `rng.choice` in terms of the *site tensor*:
`p[a] = rsq · ‖rot(T)[a]‖² / ‖T‖²`.  This file supplies the canonical-form argument that turns this into a statement
about the *full state*: if the left environment of the measured site acts as the identity on the site tensor and so
does the right environment (mixed-canonical form, established by the centre shifts of `measure` — `measure_shifts`,
C10.11), then `rsq · ‖rot(T)[a]‖²` is the sum over all configurations of the other sites of the squared modulus of the
rotated amplitude, and `‖T‖²` is `‖ψ‖²`.

First part: generic Mathlib matrices (same setting as `Lemmas/LocalExpect.lean`, whose `envL`, `envR`, `chain`,
`sumCfg` are reused).  Second part: the executable Born model (`Site n`, `mmul`, `frob`, …) and its link to the first.
-/

set_option linter.unusedSectionVars false

namespace Yaqs.LocalExpect
open Matrix

variable {K : Type*} [CommRing K] [StarRing K] {ι σ : Type*} [Fintype ι] [DecidableEq ι] [Fintype σ]

theorem transfer_add (B : MSite σ ι K) (E F : Matrix ι ι K) : transfer B B (E + F) = transfer B B E + transfer B B F := by
  simp only [transfer, Matrix.mul_add, Matrix.add_mul, Finset.sum_add_distrib]

theorem envL_add (E F : Matrix ι ι K) (pre : List (MSite σ ι K)) : envL (E + F) pre = envL E pre + envL F pre := by
  induction pre generalizing E F with
  | nil => rfl
  | cons B rest ih => simp only [envL, transfer_add, ih]

theorem envL_zero (pre : List (MSite σ ι K)) : envL (0 : Matrix ι ι K) pre = 0 := by
  induction pre with
  | nil => rfl
  | cons B rest ih =>
    simp only [envL, transfer, Matrix.mul_zero, Matrix.zero_mul, Finset.sum_const_zero]
    exact ih

theorem envL_sum {α : Type*} (s : Finset α) (E : α → Matrix ι ι K) (pre : List (MSite σ ι K)) :
    envL (∑ a ∈ s, E a) pre = ∑ a ∈ s, envL (E a) pre := by
  classical
  induction s using Finset.induction_on with
  | empty => simp [envL_zero]
  | insert a s ha ih => rw [Finset.sum_insert ha, Finset.sum_insert ha, envL_add, ih]

/-- sum over all configurations of a suffix: `Σ_τ tr(C_τᴴ G C_τ) = tr(G · E_R)` -/
theorem sum_right (post : List (MSite σ ι K)) (G : Matrix ι ι K) :
    sumCfg post.length (fun τ => trace ((chain post τ)ᴴ * G * chain post τ)) = trace (G * envR post) :=
  (overlapFrom_eq_sum G post post rfl).symm.trans (overlapFrom_same G post)

/-- sum over all configurations of a prefix, against a weight `W`: `Σ_τ tr(C_τᴴ E C_τ W) = tr(E_L(E) · W)` -/
theorem sum_left (pre : List (MSite σ ι K)) (E W : Matrix ι ι K) :
    sumCfg pre.length (fun τ => trace ((chain pre τ)ᴴ * E * chain pre τ * W)) = trace (envL E pre * W) := by
  induction pre generalizing E with
  | nil => simp [sumCfg, chain, envL]
  | cons B rest ih =>
    simp only [List.length_cons, sumCfg, envL, transfer]
    rw [envL_sum, Matrix.sum_mul, trace_sum]
    refine Finset.sum_congr rfl fun s _ => ?_
    rw [← ih]
    congr 1
    funext τ
    simp only [chain, Matrix.conjTranspose_mul, Matrix.mul_assoc]

/-- **weight of a fixed tensor `Y` at one site**, summed over all configurations of the other sites:
    `Σ_{τ₁,τ₂} ‖C_{τ₁} · Y · C_{τ₂}‖² = tr(Yᴴ · E_L · Y · E_R)` -/
theorem fixed_site_weight (pre post : List (MSite σ ι K)) (Y : Matrix ι ι K) :
    sumCfg pre.length (fun τ1 => sumCfg post.length (fun τ2 =>
      trace ((chain pre τ1 * Y * chain post τ2)ᴴ * (chain pre τ1 * Y * chain post τ2))))
    = trace (Yᴴ * envL 1 pre * Y * envR post) := by
  have inner : ∀ τ1, sumCfg post.length (fun τ2 =>
      trace ((chain pre τ1 * Y * chain post τ2)ᴴ * (chain pre τ1 * Y * chain post τ2)))
      = trace ((chain pre τ1)ᴴ * 1 * chain pre τ1 * (Y * envR post * Yᴴ)) := by
    intro τ1
    have h := sum_right post ((chain pre τ1 * Y)ᴴ * (chain pre τ1 * Y))
    have e : (fun τ2 => trace ((chain pre τ1 * Y * chain post τ2)ᴴ * (chain pre τ1 * Y * chain post τ2)))
        = fun τ2 => trace ((chain post τ2)ᴴ * ((chain pre τ1 * Y)ᴴ * (chain pre τ1 * Y)) * chain post τ2) := by
      funext τ2
      simp only [Matrix.conjTranspose_mul, Matrix.mul_assoc]
    rw [e, h, Matrix.conjTranspose_mul, Matrix.mul_one]
    calc trace (Yᴴ * (chain pre τ1)ᴴ * (chain pre τ1 * Y) * envR post)
        = trace (Yᴴ * ((chain pre τ1)ᴴ * chain pre τ1 * (Y * envR post))) := by simp only [Matrix.mul_assoc]
      _ = trace ((chain pre τ1)ᴴ * chain pre τ1 * (Y * envR post) * Yᴴ) := trace_mul_comm _ _
      _ = trace ((chain pre τ1)ᴴ * chain pre τ1 * (Y * envR post * Yᴴ)) := by simp only [Matrix.mul_assoc]
  simp only [inner]
  rw [sum_left pre 1 (Y * envR post * Yᴴ)]
  calc trace (envL 1 pre * (Y * envR post * Yᴴ))
      = trace (envL 1 pre * Y * envR post * Yᴴ) := by simp only [Matrix.mul_assoc]
    _ = trace (Yᴴ * (envL 1 pre * Y * envR post)) := trace_mul_comm _ _
    _ = trace (Yᴴ * envL 1 pre * Y * envR post) := by simp only [Matrix.mul_assoc]

/-- in the mixed-canonical form the weight is the squared norm of the tensor itself -/
theorem fixed_site_weight_canonical (pre post : List (MSite σ ι K)) (Y : Matrix ι ι K)
    (hL : envL 1 pre * Y = Y) (hR : Y * envR post = Y) :
    sumCfg pre.length (fun τ1 => sumCfg post.length (fun τ2 =>
      trace ((chain pre τ1 * Y * chain post τ2)ᴴ * (chain pre τ1 * Y * chain post τ2))))
    = trace (Yᴴ * Y) := by
  rw [fixed_site_weight]
  have : Yᴴ * envL 1 pre * Y * envR post = Yᴴ * ((envL 1 pre * Y) * envR post) := by simp only [Matrix.mul_assoc]
  rw [this, hL, hR]

end Yaqs.LocalExpect

/-! ## the executable Born model -/

namespace Yaqs.Born
open Yaqs.CB Matrix Yaqs.LocalExpect

/-- a site of the Born model as a Matrix-valued site tensor -/
abbrev toMS {n : Nat} (T : Site n) : MSite (Fin 2) (Fin n) CRat := fun s => toM (T.get s)

/-- the identity matrix of the model -/
def oneMat (n : Nat) : Mat n := Mat.ofFn fun i j => if i = j then 1 else 0

theorem toM_oneMat (n : Nat) : toM (oneMat n) = 1 := by
  ext i j; simp [oneMat, Matrix.one_apply]

/-- `Π_k X_k[τ_k]` in the model's own matrices: the amplitude (matrix) of the configuration `τ` -/
def chainS {n : Nat} : List (Site n) → List (Fin 2) → Mat n
  | B :: rest, s :: τ => mmul (B.get s) (chainS rest τ)
  | _, _ => oneMat n

theorem toM_chainS {n : Nat} (X : List (Site n)) (τ : List (Fin 2)) :
    toM (chainS X τ) = LocalExpect.chain (X.map toMS) τ := by
  induction X generalizing τ with
  | nil => simp [chainS, LocalExpect.chain, toM_oneMat]
  | cons B rest ih =>
    cases τ with
    | nil => simp [chainS, LocalExpect.chain, toM_oneMat]
    | cons s τ => simp only [chainS, List.map_cons, LocalExpect.chain, mmul_eq, ih]

/-- `Σ` over all bit strings of length `L` (rational-valued) -/
def sumCfgQ : Nat → (List (Fin 2) → Rat) → Rat
  | 0, f => f []
  | L + 1, f => sumCfgQ L (fun τ => f (0 :: τ)) + sumCfgQ L (fun τ => f (1 :: τ))

theorem ofRat_sumCfgQ (L : Nat) (f : List (Fin 2) → Rat) :
    CRat.ofRat (sumCfgQ L f) = LocalExpect.sumCfg L (fun τ => CRat.ofRat (f τ)) := by
  induction L generalizing f with
  | zero => rfl
  | succ L ih => simp only [sumCfgQ, LocalExpect.sumCfg, ofRat_add, ih, Fin.sum_univ_two]

theorem sumCfgQ_congr (L : Nat) (f g : List (Fin 2) → Rat) (h : ∀ τ, τ.length = L → f τ = g τ) :
    sumCfgQ L f = sumCfgQ L g := by
  induction L generalizing f g with
  | zero => exact h [] rfl
  | succ L ih =>
    simp only [sumCfgQ]
    rw [ih _ _ (fun τ hτ => h (0 :: τ) (by simp [hτ])), ih _ _ (fun τ hτ => h (1 :: τ) (by simp [hτ]))]

/-- `‖M‖_F² = tr(Mᴴ M)` -/
theorem ofRat_frob' {n : Nat} (M : Mat n) : CRat.ofRat (frob M) = Matrix.trace ((toM M)ᴴ * toM M) := by
  rw [ofRat_frob, Matrix.trace_mul_comm]

/-- **dense squared norm of the state**: `Σ_τ ‖Π_k X_k[τ_k]‖²` over all `2^L` configurations — for boundary bonds of
    dimension 1 (zero-padded) the product has the single entry `(0,0)`, the amplitude, so this is `Σ_τ |amp τ|²` -/
def denseNormSq {n : Nat} (X : List (Site n)) : Rat := sumCfgQ X.length fun τ => frob (chainS X τ)

/-- **dense Born weight** of the outcome `a` at site `k = pre.length`, measured in the basis `b`:
    `Σ_{τ₁,τ₂} ‖⟨τ₁ a τ₂| (√rsq R)_k |ψ⟩‖²` — the sum over all configurations of the *other* sites of the squared
    modulus of the amplitude whose `k`-th physical index has been rotated and fixed to `a`.  In the Z basis this is
    `Σ_{cfg, cfg_k = a} |amp cfg|²` (`bornWeight_Z`). -/
def bornWeight {n : Nat} (b : Basis) (pre : List (Site n)) (T : Site n) (post : List (Site n)) (a : Fin 2) : Rat :=
  b.rsq * sumCfgQ pre.length fun τ1 => sumCfgQ post.length fun τ2 =>
    frob (mmul (mmul (chainS pre τ1) (rotT b.R T a)) (chainS post τ2))

theorem chainS_append {n : Nat} (pre : List (Site n)) (X : List (Site n)) (τ1 τ : List (Fin 2))
    (h : τ1.length = pre.length) : chainS (pre ++ X) (τ1 ++ τ) = mmul (chainS pre τ1) (chainS X τ) := by
  apply toM_injective
  induction pre generalizing τ1 with
  | nil =>
    have : τ1 = [] := List.length_eq_zero_iff.mp h
    subst this
    simp [chainS, mmul_eq, toM_oneMat]
  | cons B rest ih =>
    match τ1, h with
    | s :: τ1, h =>
      simp only [List.cons_append, chainS, mmul_eq] at ih ⊢
      rw [ih τ1 (by simpa using h), Matrix.mul_assoc]

theorem rotT_Z {n : Nat} (T : Site n) (a : Fin 2) : rotT basisZ.R T a = T.get a := by
  apply Mat.ext'; intro i j
  have : a = 0 ∨ a = 1 := by omega
  rcases this with h | h <;> subst h <;> simp [rotT, basisZ]

/-- in the computational basis the Born weight is literally `Σ_{cfg with cfg_k = a} ‖amp cfg‖²` -/
theorem bornWeight_Z {n : Nat} (pre post : List (Site n)) (T : Site n) (a : Fin 2) :
    bornWeight basisZ pre T post a = sumCfgQ pre.length fun τ1 => sumCfgQ post.length fun τ2 =>
      frob (chainS (pre ++ T :: post) (τ1 ++ a :: τ2)) := by
  unfold bornWeight
  rw [show basisZ.rsq = 1 from rfl, one_mul]
  apply sumCfgQ_congr
  intro τ1 h1
  apply sumCfgQ_congr
  intro τ2 _
  rw [chainS_append pre _ τ1 _ h1, rotT_Z]
  simp only [chainS, mmul_assoc]

theorem toM_rotT {n : Nat} (R : Fin 2 → Fin 2 → CRat) (T : Site n) (a : Fin 2) :
    toM (rotT R T a) = R a 0 • toM T.t0 + R a 1 • toM T.t1 := by
  ext i j; simp [rotT]

/-- **the canonical-form argument** (environment form).  If the left environment of the prefix acts as the identity on
    the site tensor (`E_L · T[s] = T[s]`) and so does the right environment of the suffix (`T[s] · E_R = T[s]`), then
    the dense Born weight of every outcome is computed from the site tensor alone … -/
theorem bornWeight_env {n : Nat} (b : Basis) (pre post : List (Site n)) (T : Site n) (a : Fin 2)
    (hL : ∀ s, envL 1 (pre.map toMS) * toMS T s = toMS T s)
    (hR : ∀ s, toMS T s * envR (post.map toMS) = toMS T s) :
    bornWeight b pre T post a = b.rsq * frob (rotT b.R T a) := by
  unfold bornWeight
  congr 1
  apply ofRat_injective
  rw [ofRat_sumCfgQ]
  simp only [ofRat_sumCfgQ, ofRat_frob', mmul_eq, toM_chainS]
  have h := fixed_site_weight_canonical (pre.map toMS) (post.map toMS) (toM (rotT b.R T a)) ?_ ?_
  · simpa using h
  · have h0 := hL 0; have h1 := hL 1
    simp only [toMS, Site.get_zero, Site.get_one] at h0 h1
    rw [toM_rotT, Matrix.mul_add, Matrix.mul_smul, Matrix.mul_smul, h0, h1]
  · have h0 := hR 0; have h1 := hR 1
    simp only [toMS, Site.get_zero, Site.get_one] at h0 h1
    rw [toM_rotT, Matrix.add_mul, Matrix.smul_mul, Matrix.smul_mul, h0, h1]

/-- … and the dense squared norm of the state is the squared norm of the site tensor. -/
theorem denseNormSq_env {n : Nat} (pre post : List (Site n)) (T : Site n)
    (hL : ∀ s, envL 1 (pre.map toMS) * toMS T s = toMS T s)
    (hR : ∀ s, toMS T s * envR (post.map toMS) = toMS T s) :
    denseNormSq (pre ++ T :: post) = siteNorm T := by
  unfold denseNormSq
  apply ofRat_injective
  rw [ofRat_sumCfgQ]
  simp only [ofRat_frob', toM_chainS]
  have h := overlapFrom_eq_sum (1 : Matrix (Fin n) (Fin n) CRat) ((pre ++ T :: post).map toMS)
    ((pre ++ T :: post).map toMS) rfl
  simp only [Matrix.mul_one, List.length_map] at h
  rw [← h]
  have h2 := overlap_one_site (pre.map toMS) (post.map toMS) (toMS T) (toMS T)
  unfold overlap at h2
  rw [List.map_append, List.map_cons, h2, Fin.sum_univ_two]
  have e : ∀ s, (toMS T s)ᴴ * envL 1 (pre.map toMS) * toMS T s * envR (post.map toMS) = (toMS T s)ᴴ * toMS T s := by
    intro s
    have : (toMS T s)ᴴ * envL 1 (pre.map toMS) * toMS T s * envR (post.map toMS)
        = (toMS T s)ᴴ * ((envL 1 (pre.map toMS) * toMS T s) * envR (post.map toMS)) := by
      simp only [Matrix.mul_assoc]
    rw [this, hL s, hR s]
  rw [e 0, e 1]
  simp only [toMS, Site.get_zero, Site.get_one, siteNorm, ofRat_add, ofRat_frob']

/-! ### the mixed-canonical form gives the environment hypotheses -/

/-- `Σ_s A[s]ᴴ · A[s]` (the left-isometry test of `check_canonical_form`: `contract("ijk, ijl->kl", conj a, a)`) -/
def gramL {n : Nat} (A : Site n) : Mat n :=
  Mat.ofFn fun i j => sumFin fun k =>
    CRat.conj (A.t0.get k i) * A.t0.get k j + CRat.conj (A.t1.get k i) * A.t1.get k j

theorem toM_gramL {n : Nat} (A : Site n) :
    toM (gramL A) = (toM A.t0)ᴴ * toM A.t0 + (toM A.t1)ᴴ * toM A.t1 := by
  ext i j
  simp [gramL, sumFin_eq, Matrix.mul_apply, Finset.sum_add_distrib, CRat.star_def]

/-- Left-canonical form up to the last tensor of the list, in zero-padded matrices (mirror image of `RightCanon`):
    every tensor's left bond lies in the space on which the previous tensor is a left isometry
    (`G · B[s] = B[s]`, `G = Σ_t A[t]ᴴ A[t]`; for unpadded tensors `G = 1`).  Nothing is asked of the last tensor. -/
def LeftCanon {n : Nat} : List (Site n) → Prop
  | [] => True
  | [_] => True
  | A :: B :: rest => (∀ s, mmul (gramL A) (B.get s) = B.get s) ∧ LeftCanon (B :: rest)

theorem transfer_one {n : Nat} (A : Site n) : transfer (toMS A) (toMS A) 1 = toM (gramL A) := by
  simp only [transfer, Matrix.mul_one, Fin.sum_univ_two, toMS, Site.get_zero, Site.get_one, toM_gramL]

theorem transfer_supported {n : Nat} (A B : Site n) (h : ∀ s, mmul (gramL A) (B.get s) = B.get s) :
    transfer (toMS B) (toMS B) (toM (gramL A)) = toM (gramL B) := by
  have h' : ∀ s, toM (gramL A) * toM (B.get s) = toM (B.get s) := fun s => by rw [← mmul_eq, h s]
  have h0 := h' 0; have h1 := h' 1
  simp only [Site.get_zero, Site.get_one] at h0 h1
  simp only [transfer, Fin.sum_univ_two, toMS, Site.get_zero, Site.get_one, Matrix.mul_assoc]
  rw [h0, h1, toM_gramL]

theorem envL_leftCanon {n : Nat} : ∀ (rest : List (Site n)) (A T : Site n), LeftCanon (A :: (rest ++ [T])) →
    ∀ s, envL (toM (gramL A)) (rest.map toMS) * toMS T s = toMS T s := by
  intro rest
  induction rest with
  | nil =>
    intro A T h s
    simp only [List.map_nil, envL, toMS]
    rw [← mmul_eq, h.1 s]
  | cons B rest ih =>
    intro A T h s
    simp only [List.map_cons, envL]
    rw [transfer_supported A B h.1]
    exact ih B T h.2 s

/-- left half of the mixed-canonical form, zero-padded tensors -/
theorem envL_of_leftCanon {n : Nat} (pre : List (Site n)) (T : Site n) (h : LeftCanon (pre ++ [T])) :
    ∀ s, envL 1 (pre.map toMS) * toMS T s = toMS T s := by
  cases pre with
  | nil => intro s; simp [envL]
  | cons A rest =>
    intro s
    simp only [List.map_cons, envL]
    rw [transfer_one]
    exact envL_leftCanon rest A T h s

/-- right half of the mixed-canonical form, zero-padded tensors -/
theorem envR_of_rightCanon {n : Nat} : ∀ (post : List (Site n)) (T : Site n), RightCanon (T :: post) →
    ∀ s, toMS T s * envR (post.map toMS) = toMS T s := by
  intro post
  induction post with
  | nil => intro T _ s; simp [envR]
  | cons B rest ih =>
    intro T h s
    have hB := ih B h.2
    have h0 := hB 0; have h1 := hB 1
    simp only [toMS, Site.get_zero, Site.get_one] at h0 h1
    simp only [List.map_cons, envR, Fin.sum_univ_two, toMS, Site.get_zero, Site.get_one, h0, h1]
    rw [← toM_gram, ← mmul_eq, h.1 s]

/-- left half, square isometries (`LeftIso` of C10): `Σ_s B[s]ᴴ B[s] = 1` for every tensor of the prefix -/
theorem envL_of_leftIso {n : Nat} (pre : List (Site n)) (h : ∀ B ∈ pre, gramL B = oneMat n) :
    envL (1 : Matrix (Fin n) (Fin n) CRat) (pre.map toMS) = 1 := by
  apply envL_one_of_leftIso
  intro B' hB'
  obtain ⟨B, hB, rfl⟩ := List.mem_map.mp hB'
  have := congrArg toM (h B hB)
  rw [toM_gramL, toM_oneMat] at this
  simpa [Fin.sum_univ_two, toMS] using this

/-- right half, square isometries (`RightIso` of C10): `Σ_s B[s] B[s]ᴴ = 1` for every tensor of the suffix -/
theorem envR_of_rightIso {n : Nat} (post : List (Site n)) (h : ∀ B ∈ post, gram B = oneMat n) :
    envR (post.map toMS) = (1 : Matrix (Fin n) (Fin n) CRat) := by
  apply envR_one_of_rightIso
  intro B' hB'
  obtain ⟨B, hB, rfl⟩ := List.mem_map.mp hB'
  have := congrArg toM (h B hB)
  rw [toM_gram, toM_oneMat] at this
  simpa [Fin.sum_univ_two, toMS] using this

theorem gramL_eq_one_iff {n : Nat} (B : Site n) :
    gramL B = oneMat n ↔ ∑ s, (toMS B s)ᴴ * toMS B s = 1 := by
  constructor
  · intro h
    have := congrArg toM h
    rw [toM_gramL, toM_oneMat] at this
    simpa [Fin.sum_univ_two, toMS] using this
  · intro h
    apply toM_injective
    rw [toM_gramL, toM_oneMat]
    simpa [Fin.sum_univ_two, toMS] using h

theorem gram_eq_one_iff {n : Nat} (B : Site n) :
    gram B = oneMat n ↔ ∑ s, toMS B s * (toMS B s)ᴴ = 1 := by
  constructor
  · intro h
    have := congrArg toM h
    rw [toM_gram, toM_oneMat] at this
    simpa [Fin.sum_univ_two, toMS] using this
  · intro h
    apply toM_injective
    rw [toM_gram, toM_oneMat]
    simpa [Fin.sum_univ_two, toMS] using h

end Yaqs.Born
