import YaqsModel.Lemmas.Gates

/-! algebraic relations between the gates of the table  (one lemma per gate; assembled into the property theorems in `Props/C18.lean`) -/
namespace Yaqs.Gates
open Matrix

variable {K : Type} [CommRing K]
set_option linter.unusedVariables false
set_option linter.unusedSectionVars false
theorem inv_x  : toM (x : M2 K) * toM x = 1 := by gate_entries

theorem inv_y (i : K) (hi : i * i = -1) : toM (y i) * toM (y i) = 1 := by gate_entries

theorem inv_z  : toM (z : M2 K) * toM z = 1 := by gate_entries

theorem inv_h (hh : K) (hhh : 2 * hh * hh = 1) : toM (h hh) * toM (h hh) = 1 := by gate_entries

theorem sx_sq (i hf : K) (hi : i * i = -1) (hhf : 2 * hf = 1) : toM (sx i hf) * toM (sx i hf) = toM x := by gate_entries

theorem inv_cx  : toM (cx : M4 K) * toM cx = 1 := by gate_entries

theorem inv_cz  : toM (cz : M4 K) * toM cz = 1 := by gate_entries

theorem inv_swap  : toM (swap : M4 K) * toM swap = 1 := by gate_entries

theorem pauli_xy (i : K) (hi : i * i = -1) : toM (x : M2 K) * toM (y i) = i • toM z := by gate_entries

theorem pauli_yz (i : K) (hi : i * i = -1) : toM (y i) * toM (z : M2 K) = i • toM x := by gate_entries

theorem pauli_zx (i : K) (hi : i * i = -1) : toM (z : M2 K) * toM x = i • toM (y i) := by gate_entries

theorem h_xz (hh : K) : toM (h hh) = hh • (toM x + toM z) := by gate_entries

theorem rot_rx (i c s : K) : toM (rx i c s) = c • 1 + (-(i * s)) • toM x := by gate_entries

theorem rot_ry (i c s : K) (hi : i * i = -1) : toM (ry c s) = c • 1 + (-(i * s)) • toM (y i) := by gate_entries

theorem rot_rz (i c s : K) : toM (rz i c s) = c • 1 + (-(i * s)) • toM z := by gate_entries

theorem rot_rxx (i c s : K) : toM (rxx i c s) = c • 1 + (-(i * s)) • toM xx := by gate_entries

theorem rot_ryy (i c s : K) (hi : i * i = -1) : toM (ryy i c s) = c • 1 + (-(i * s)) • toM (yy i) := by gate_entries

theorem rot_rzz (i c s : K) : toM (rzz i c s) = c • 1 + (-(i * s)) • toM zz := by gate_entries

theorem u_decomp (i c s cp' sp cl sl : K) : toM (u c s (cis i cp' sp) (cis i cl sl)) = toM (phase i cp' sp) * toM (ry c s) * toM (phase i cl sl) := by gate_entries

theorem swap_cx3  : toM (swap : M4 K) = toM cx * toM (placed cx true) * toM cx := by gate_entries

theorem ladder_sum  : toM (p0 : M2 K) + toM p1 = 1 := by gate_entries

theorem ladder_aad  : toM (destroy : M2 K) * toM create = toM p0 := by gate_entries

theorem ladder_ada  : toM (create : M2 K) * toM destroy = toM p1 := by gate_entries

theorem rx_h_rz_h (i c s hh : K) (hhh : 2 * hh * hh = 1) : toM (rx i c s) = toM (h hh) * toM (rz i c s) * toM (h hh) := by gate_entries

theorem cx_h_cz_h (hh : K) (hhh : 2 * hh * hh = 1) : toM (cx : M4 K) = toM (kron one2 (h hh)) * toM cz * toM (kron one2 (h hh)) := by gate_entries

theorem rxx_hh_rzz (i c s hh : K) (hhh : 2 * hh * hh = 1) : toM (rxx i c s) = toM (kron (h hh) (h hh)) * toM (rzz i c s) * toM (kron (h hh) (h hh)) := by gate_entries

theorem rzz_cx_rz_cx (i c s : K) : toM (rzz i c s) = toM cx * toM (kron one2 (rz i c s)) * toM cx := by gate_entries

end Yaqs.Gates
