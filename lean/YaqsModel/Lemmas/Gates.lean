import YaqsModel.Model.Gates
import YaqsModel.Lemmas.CRat
import YaqsModel.Lemmas.GatesMpo
import Mathlib.Data.Matrix.Basic
import Mathlib.Data.Matrix.Mul
import Mathlib.LinearAlgebra.Matrix.ConjTranspose
import Mathlib.Algebra.BigOperators.Fin
import Mathlib.Tactic.Ring
import Mathlib.Tactic.FinCases

/-! helper lemmas and the entry-wise proof tactic for the gate table (`Props/C18.lean` holds the property theorems) -/
namespace Yaqs.Gates
open Matrix

variable {K : Type} [CommRing K]

/-- a model matrix (plain function) read as a Mathlib matrix -/
abbrev toM {n : Nat} (f : Fin n → Fin n → K) : Matrix (Fin n) (Fin n) K := Matrix.of f

/-- unitarity `M Mᴴ = 1 = Mᴴ M` -/
def IsUnitary [StarRing K] {n : Nat} (f : Fin n → Fin n → K) : Prop :=
  toM f * (toM f)ᴴ = 1 ∧ (toM f)ᴴ * toM f = 1

/-- unfold the gate table to entries, expand the finite sums, and close the remaining polynomial identities
    modulo the hypotheses in context (`i*i = -1`, `c*c + s*s = 1`, …) with `grind`'s ring solver -/
macro "gate_entries" : tactic =>
  `(tactic| (
    simp only [IsUnitary, toM] <;>
    (try constructor) <;>
    ext r q <;> fin_cases r <;> fin_cases q <;>
    simp [m2, v2, m4, v4, one2, one4, smul2, smul4, add4, two, hi, lo, pair, sw, kron, x, y, z, h, sx, destroy,
      create, p0, p1, rx, ry, rz, phase, u, u2, cis, cx, cz, cp, swap, rxx, ryy, rzz, xx, yy, zz, G2.matrix,
      placed, diag2, diag4, projPlus, projMinus, cxGen, czGen, czGenOld, cpGen, cpGenOld, rxxGen, ryyGen, rzzGen,
      GG.generator, GG.proj, GG.eig, GG.phases, GG.spectral, GG.toG2, genKron,
      Matrix.mul_apply, Fin.sum_univ_two, Fin.sum_univ_four, Matrix.conjTranspose_apply, Matrix.one_apply,
      Matrix.add_apply, Matrix.smul_apply, *] <;>
    grind))

theorem sw_pair : ∀ a b : Fin 2, sw (pair a b) = pair b a := by decide
theorem pair_hi_lo : ∀ r : Fin 4, pair (hi r) (lo r) = r := by decide
theorem hi_pair : ∀ a b : Fin 2, hi (pair a b) = a := by decide
theorem lo_pair : ∀ a b : Fin 2, lo (pair a b) = b := by decide
theorem sw_sw : ∀ r : Fin 4, sw (sw r) = r := by decide

omit [CommRing K] in
/-- a matrix is determined by its entries at `pair a b`, `pair c d` -/
theorem m4_ext {A B : M4 K} (hAB : ∀ a b c d : Fin 2, A (pair a b) (pair c d) = B (pair a b) (pair c d)) : A = B := by
  funext r q
  have := hAB (hi r) (lo r) (hi q) (lo q)
  rwa [pair_hi_lo, pair_hi_lo] at this

end Yaqs.Gates
