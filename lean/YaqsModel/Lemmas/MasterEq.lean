import YaqsModel.Model.MasterEq
import YaqsModel.Lemmas.CRat
import YaqsModel.Lemmas.Lottery
import Mathlib.LinearAlgebra.Matrix.Trace
import Mathlib.LinearAlgebra.Matrix.ConjTranspose
import Mathlib.Data.Matrix.Mul
import Mathlib.Tactic.Abel
import Mathlib.Algebra.BigOperators.Fin
import Mathlib.Tactic.Ring

/-!
helper lemmas for `Model.MasterEq` (the property theorems are in `Props/C06.lean`)

* `matrixOps` — the instance of `Ops` on Mathlib matrices over a commutative star ring `R`; the imaginary unit `i`,
  the scalar `h` (one half) and the embedding `rate : Rat → R` of the strengths are parameters, the theorems state
  which of `star i = -i`, `i * i = -1`, `h + h = 1`, `star h = h`, `star (rate q) = rate q` they use.
* `dissipator`, `lindbladian` — the textbook form.
* fold-to-sum lemmas, and the algebra of one dissipator term (trace, adjoint).
-/
namespace Yaqs.MasterEq

open Matrix

variable {n : Type} [Fintype n] {R : Type} [CommRing R] [StarRing R]

/-- Mathlib matrices as an instance of the primitive operations -/
def matrixOps (i h : R) (rate : Rat → R) : Ops (Matrix n n R) R where
  zero := 0
  add := (· + ·)
  sub := (· - ·)
  mul := (· * ·)
  dag := Matrix.conjTranspose
  smul := (· • ·)
  negI := -i
  half := h
  halfI := h * i
  rate := rate

/-- `D[L]ρ = L ρ L† − h (L†L ρ + ρ L†L)` -/
def dissipator (h : R) (L ρ : Matrix n n R) : Matrix n n R :=
  L * ρ * Lᴴ - h • (Lᴴ * L * ρ + ρ * (Lᴴ * L))

/-- the Lindbladian in standard form for the listed operators and rates -/
def lindbladian (i h : R) (rate : Rat → R) (H : Matrix n n R) (Ls : List (Proc (Matrix n n R)))
    (ρ : Matrix n n R) : Matrix n n R :=
  (-i) • (H * ρ - ρ * H) + (Ls.map fun p => rate p.gamma • dissipator h p.op ρ).sum

/-- `Σ γ_k L_k† L_k` -/
def gammaSum (rate : Rat → R) (Ls : List (Proc (Matrix n n R))) : Matrix n n R :=
  (Ls.map fun p => rate p.gamma • (p.opᴴ * p.op)).sum

theorem foldl_add_eq_sum {α A : Type} [AddCommMonoid A] (f : α → A) (l : List α) (a : A) :
    l.foldl (fun s p => s + f p) a = a + (l.map f).sum := by
  induction l generalizing a with
  | nil => simp
  | cons x xs ih => simp only [List.foldl_cons, ih, List.map_cons, List.sum_cons, add_assoc]

theorem lDagLSum_matrix (i h : R) (rate : Rat → R) (Ls : List (Proc (Matrix n n R))) :
    lDagLSum (matrixOps i h rate) Ls = gammaSum rate Ls := by
  unfold lDagLSum gammaSum matrixOps
  simp only
  rw [foldl_add_eq_sum (fun p : Proc (Matrix n n R) => rate p.gamma • (p.opᴴ * p.op)) Ls 0, zero_add]

/-- `Σ γ (L ρ L†) − h ((Σ γ L†L) ρ + ρ (Σ γ L†L)) = Σ γ D[L]ρ` -/
theorem sandwich_sub_anticomm (h : R) (rate : Rat → R) (Ls : List (Proc (Matrix n n R))) (ρ : Matrix n n R) :
    (Ls.map fun p => rate p.gamma • (p.op * ρ * p.opᴴ)).sum
        - h • (gammaSum rate Ls * ρ + ρ * gammaSum rate Ls)
      = (Ls.map fun p => rate p.gamma • dissipator h p.op ρ).sum := by
  induction Ls with
  | nil => simp [gammaSum]
  | cons p ps ih =>
    simp only [List.map_cons, List.sum_cons, gammaSum] at ih ⊢
    rw [← ih]
    simp only [dissipator, Matrix.add_mul, Matrix.mul_add, smul_add, smul_sub, Matrix.smul_mul, Matrix.mul_smul,
      smul_comm h (rate p.gamma)]
    abel

theorem lindbladRhs_matrix (i h : R) (rate : Rat → R) (H : Matrix n n R) (Ls : List (Proc (Matrix n n R)))
    (ρ : Matrix n n R) :
    lindbladRhs (matrixOps i h rate) H Ls ρ = lindbladian i h rate H Ls ρ := by
  have hs := lDagLSum_matrix (n := n) i h rate Ls
  unfold lindbladRhs lindbladian
  rw [hs]
  simp only [matrixOps]
  rw [foldl_add_eq_sum (fun p : Proc (Matrix n n R) => rate p.gamma • (p.op * ρ * p.opᴴ)) Ls, add_sub_assoc,
    sandwich_sub_anticomm]

theorem sum_filter_eq_sum_ite {α A : Type} [AddCommMonoid A] (c : α → Bool) (g : α → A) (l : List α) :
    ((l.filter c).map g).sum = (l.map fun a => if c a then g a else 0).sum := by
  induction l with
  | nil => simp
  | cons x xs ih =>
    by_cases hc : c x
    · simp [hc, ih]
    · simp [hc, ih]

/-! ### one dissipator term -/

theorem trace_dissipator (h : R) (hh : h + h = 1) (L ρ : Matrix n n R) : trace (dissipator h L ρ) = 0 := by
  unfold dissipator
  rw [trace_sub, trace_smul, trace_add, trace_mul_cycle L ρ Lᴴ, trace_mul_comm ρ (Lᴴ * L), smul_eq_mul, ← two_mul,
    ← mul_assoc, mul_two, hh, one_mul, sub_self]

theorem conjTranspose_dissipator (h : R) (hs : star h = h) (L ρ : Matrix n n R) (hρ : ρᴴ = ρ) :
    (dissipator h L ρ)ᴴ = dissipator h L ρ := by
  unfold dissipator
  simp only [conjTranspose_sub, conjTranspose_smul, conjTranspose_add, conjTranspose_mul, conjTranspose_conjTranspose,
    hρ, hs, Matrix.mul_assoc]
  rw [add_comm]

theorem conjTranspose_gammaSum (rate : Rat → R) (hr : ∀ q, star (rate q) = rate q) (Ls : List (Proc (Matrix n n R))) :
    (gammaSum rate Ls)ᴴ = gammaSum rate Ls := by
  unfold gammaSum
  rw [conjTranspose_list_sum, List.map_map]
  congr 1
  apply List.map_congr_left
  intro p _
  simp [conjTranspose_smul, conjTranspose_mul, hr]

/-! ### the effective Hamiltonian -/

theorem heff_matrix (i h : R) (rate : Rat → R) (H : Matrix n n R) (Ls : List (Proc (Matrix n n R))) :
    heff (matrixOps i h rate) H Ls = H - (h * i) • gammaSum rate Ls := by
  unfold heff
  cases Ls with
  | nil => simp [gammaSum]
  | cons p ps =>
    simp only [List.isEmpty_cons, Bool.false_eq_true, if_false]
    rw [lDagLSum_matrix]
    rfl

theorem dot_gammaSum (rate : Rat → R) (Ls : List (Proc (Matrix n n R))) (ψ : n → R) :
    star ψ ⬝ᵥ (gammaSum rate Ls *ᵥ ψ) = (Ls.map fun p => rate p.gamma * (star (p.op *ᵥ ψ) ⬝ᵥ (p.op *ᵥ ψ))).sum := by
  unfold gammaSum
  induction Ls with
  | nil => simp
  | cons p ps ih =>
    simp only [List.map_cons, List.sum_cons, Matrix.add_mulVec, dotProduct_add, ih]
    congr 1
    rw [Matrix.smul_mulVec, dotProduct_smul, smul_eq_mul, ← Matrix.mulVec_mulVec, star_mulVec, dotProduct_mulVec]

/-! ### the list instance: weights are non-negative -/

theorem normSq_nonneg (z : CRat) : 0 ≤ CRat.normSq z := by
  unfold CRat.normSq
  have h1 := mul_self_nonneg z.re
  have h2 := mul_self_nonneg z.im
  exact add_nonneg h1 h2

theorem vnormSq_nonneg (v : CVec) : 0 ≤ vnormSq v := by
  unfold vnormSq
  exact Lottery.sum_map_nonneg v _ (fun a _ => normSq_nonneg a)

theorem jumpWeights_nonneg (n : Nat) (Ls : List (Proc CMat)) (ψ : CVec) (hg : ∀ p ∈ Ls, 0 ≤ p.gamma) :
    ∀ w ∈ jumpWeights n Ls ψ, 0 ≤ w := by
  intro w hw
  unfold jumpWeights at hw
  obtain ⟨p, hp, rfl⟩ := List.mem_map.mp hw
  exact mul_nonneg (hg p hp) (vnormSq_nonneg _)

theorem jumpOps_gamma_pos {M : Type} (procs : List (Proc M)) : ∀ p ∈ jumpOps procs, 0 < p.gamma := by
  intro p hp
  unfold jumpOps at hp
  simpa using (List.mem_filter.mp hp).2

/-! ### the executable list instance refines the Mathlib-matrix instance -/

/-- a map between two carriers that commutes with every primitive operation (same scalars) -/
structure OpsHom {M₁ M₂ S : Type} (o₁ : Ops M₁ S) (o₂ : Ops M₂ S) (φ : M₁ → M₂) : Prop where
  zero : φ o₁.zero = o₂.zero
  add : ∀ a b, φ (o₁.add a b) = o₂.add (φ a) (φ b)
  sub : ∀ a b, φ (o₁.sub a b) = o₂.sub (φ a) (φ b)
  mul : ∀ a b, φ (o₁.mul a b) = o₂.mul (φ a) (φ b)
  dag : ∀ a, φ (o₁.dag a) = o₂.dag (φ a)
  smul : ∀ c a, φ (o₁.smul c a) = o₂.smul c (φ a)
  negI : o₁.negI = o₂.negI
  half : o₁.half = o₂.half
  halfI : o₁.halfI = o₂.halfI
  rate : ∀ q, o₁.rate q = o₂.rate q

/-- transport a process along a map of carriers -/
def Proc.map {M₁ M₂ : Type} (φ : M₁ → M₂) (p : Proc M₁) : Proc M₂ := ⟨p.gamma, φ p.op⟩

theorem foldl_hom {α β A B : Type} (φ : A → B) (ψ : α → β) (g₁ : A → α → A) (g₂ : B → β → B)
    (h : ∀ a x, φ (g₁ a x) = g₂ (φ a) (ψ x)) (l : List α) (a : A) :
    φ (l.foldl g₁ a) = (l.map ψ).foldl g₂ (φ a) := by
  induction l generalizing a with
  | nil => rfl
  | cons x xs ih => simp only [List.foldl_cons, List.map_cons, ih, h]

section Hom
variable {M₁ M₂ S : Type} {o₁ : Ops M₁ S} {o₂ : Ops M₂ S} {φ : M₁ → M₂}

theorem jumpOps_map (procs : List (Proc M₁)) :
    jumpOps (procs.map (Proc.map φ)) = (jumpOps procs).map (Proc.map φ) := by
  unfold jumpOps
  rw [List.filter_map]
  rfl

theorem lDagLSum_hom (hφ : OpsHom o₁ o₂ φ) (Ls : List (Proc M₁)) :
    φ (lDagLSum o₁ Ls) = lDagLSum o₂ (Ls.map (Proc.map φ)) := by
  unfold lDagLSum
  rw [foldl_hom φ (Proc.map φ) _ (fun s p => o₂.add s (o₂.smul (o₂.rate p.gamma) (o₂.mul (o₂.dag p.op) p.op))), hφ.zero]
  intro a x
  simp only [Proc.map, hφ.add, hφ.smul, hφ.mul, hφ.dag, hφ.rate]

theorem lindbladRhs_hom (hφ : OpsHom o₁ o₂ φ) (H ρ : M₁) (Ls : List (Proc M₁)) :
    φ (lindbladRhs o₁ H Ls ρ) = lindbladRhs o₂ (φ H) (Ls.map (Proc.map φ)) (φ ρ) := by
  unfold lindbladRhs
  simp only [hφ.sub, hφ.smul, hφ.add, hφ.mul, lDagLSum_hom hφ, hφ.half]
  congr 1
  rw [foldl_hom φ (Proc.map φ) _
    (fun d p => o₂.add d (o₂.smul (o₂.rate p.gamma) (o₂.mul (o₂.mul p.op (φ ρ)) (o₂.dag p.op))))]
  · simp only [hφ.smul, hφ.sub, hφ.mul, hφ.negI]
  · intro a x
    simp only [Proc.map, hφ.add, hφ.smul, hφ.mul, hφ.dag, hφ.rate]

theorem heff_hom (hφ : OpsHom o₁ o₂ φ) (H : M₁) (Ls : List (Proc M₁)) :
    φ (heff o₁ H Ls) = heff o₂ (φ H) (Ls.map (Proc.map φ)) := by
  unfold heff
  cases Ls with
  | nil => simp
  | cons p ps =>
    simp only [List.isEmpty_cons, Bool.false_eq_true, if_false, List.map_cons, hφ.sub, hφ.smul, hφ.halfI,
      lDagLSum_hom hφ]

end Hom

/-- the matrix a list of rows denotes (entries outside the lists read as `0`) -/
def toM (m : Nat) (A : CMat) : Matrix (Fin m) (Fin m) CRat := fun i j => get A i j

theorem get_tab (m : Nat) (f : Nat → Nat → CRat) (i j : Nat) (hi : i < m) (hj : j < m) : get (tab m f) i j = f i j := by
  simp [get, tab, hi, hj]

theorem toM_tab (m : Nat) (f : Nat → Nat → CRat) : toM m (tab m f) = Matrix.of fun (i j : Fin m) => f i j := by
  funext i j
  exact get_tab m f i j i.isLt j.isLt

theorem sumTo_eq_sum (m : Nat) (f : Nat → CRat) : sumTo m f = ∑ k : Fin m, f k := by
  unfold sumTo
  rw [foldl_add_eq_sum f (List.range m) 0, zero_add]
  induction m with
  | zero => simp
  | succ m ih => rw [List.range_succ, List.map_append, List.sum_append, ih, Fin.sum_univ_castSucc]; simp

theorem toM_mmul (m : Nat) (A B : CMat) : toM m (mmul m A B) = toM m A * toM m B := by
  unfold mmul
  rw [toM_tab]
  funext i j
  simp only [sumTo_eq_sum, Matrix.mul_apply, toM, Matrix.of_apply]

theorem toM_madd (m : Nat) (A B : CMat) : toM m (madd m A B) = toM m A + toM m B := by
  unfold madd; rw [toM_tab]; rfl

theorem toM_msub (m : Nat) (A B : CMat) : toM m (msub m A B) = toM m A - toM m B := by
  unfold msub; rw [toM_tab]; rfl

theorem toM_mdag (m : Nat) (A : CMat) : toM m (mdag m A) = (toM m A)ᴴ := by
  unfold mdag; rw [toM_tab]; rfl

theorem toM_msmul (m : Nat) (c : CRat) (A : CMat) : toM m (msmul m c A) = c • toM m A := by
  unfold msmul; rw [toM_tab]; rfl

theorem toM_mzero (m : Nat) : toM m (mzero m) = 0 := by
  unfold mzero; rw [toM_tab]; rfl

theorem trace_toM (m : Nat) (A : CMat) : trace (toM m A) = mtrace m A := by
  unfold mtrace
  rw [sumTo_eq_sum]
  rfl

/-- `listOps m` is carried to `matrixOps` over the Gaussian rationals by `toM m` -/
theorem listOps_hom (m : Nat) :
    OpsHom (listOps m) (matrixOps (n := Fin m) CRat.I ⟨1 / 2, 0⟩ CRat.ofRat) (toM m) where
  zero := toM_mzero m
  add := toM_madd m
  sub := toM_msub m
  mul := toM_mmul m
  dag := toM_mdag m
  smul := toM_msmul m
  negI := by
    show (⟨0, -1⟩ : CRat) = -CRat.I
    decide +kernel
  half := rfl
  halfI := by
    show (⟨0, 1 / 2⟩ : CRat) = ⟨1 / 2, 0⟩ * CRat.I
    decide +kernel
  rate := fun _ => rfl

end Yaqs.MasterEq
