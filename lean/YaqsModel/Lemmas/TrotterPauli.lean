import YaqsModel.Lemmas.TrotterMatrix
import YaqsModel.Lemmas.Trotter
import YaqsModel.Lemmas.TrotterBonds
import YaqsModel.Lemmas.TrotterGRat
import YaqsModel.Lemmas.Index
import Mathlib.Data.Complex.Basic
import Mathlib.Tactic.Ring
import Mathlib.Tactic.Linarith

/-!
# Lemmas.TrotterPauli — the library circuits as products of matrix exponentials (xt07 extension of C07)

Dense matrices for the objects of `Model/Trotter.lean`:

* `pauliC`      the entries of `MPO._PAULI_2` as complex numbers (`GRat.toC` is a ring homomorphism `ℚ(i) → ℂ`)
* `pauliEntry`  entry of the Kronecker product `P₀ ⊗ P₁ ⊗ …` of an operator list, site 0 the leftmost factor, by recursion
                on the list with numpy's convention `kron(A, B)[i, j] = A[i / r, j / r] · B[i % r, j % r]`
* `pauliMat L`  that product as a `2^L × 2^L` matrix; Hermitian (`pauliMat_conjTranspose`)
* `genMat`      `(l, c) ↦ -i c · pauliMat l` — the generator of the gate `exp(-i c P)`; skew-Hermitian (`genMat_skew`)
* `stepUnitary` the product of `exp(genMat g)` over a generator list in circuit order (first gate = leftmost factor; the
                opposite convention reverses the list and changes none of the statements below, which hold for every order)
* `stepCurve`   `t ↦ Π exp(t · genMat g)`; `stepUnitary_scale`: the generators at step `dt` are `dt ·` the generators at
                step 1, so `stepUnitary (gens at dt) = stepCurve (gens at 1) dt`
* `hamOfGens`, `hamMat`  `Σ c · pauliMat l` over a generator list resp. over the terms of a Hamiltonian term list
* `ising2dTerms`, `heisenberg2dTerms`  the documented Hamiltonians of the 2-D builders as term lists
* `hamMat_entry_fsm`  every entry of `hamMat` is the path sum of the automaton `from_pauli_sum` builds from the same terms
-/
namespace Yaqs.Trotter

open Matrix NormedSpace Yaqs.TrotterLimit

noncomputable section

/-! ### Gaussian rationals inside ℂ -/

def GRat.toC (z : GRat) : ℂ := ⟨(z.re : ℝ), (z.im : ℝ)⟩

@[simp] theorem GRat.toC_re (z : GRat) : z.toC.re = (z.re : ℝ) := rfl
@[simp] theorem GRat.toC_im (z : GRat) : z.toC.im = (z.im : ℝ) := rfl

theorem GRat.toC_zero : (0 : GRat).toC = 0 := by apply Complex.ext <;> simp
theorem GRat.toC_one : (1 : GRat).toC = 1 := by apply Complex.ext <;> simp
theorem GRat.toC_add (a b : GRat) : (a + b).toC = a.toC + b.toC := by apply Complex.ext <;> simp
theorem GRat.toC_mul (a b : GRat) : (a * b).toC = a.toC * b.toC := by apply Complex.ext <;> simp
theorem GRat.toC_ofRat (q : Rat) : (GRat.ofRat q).toC = ((q : ℝ) : ℂ) := by apply Complex.ext <;> simp [GRat.ofRat]

/-- `MPO._PAULI_2[label][a, b]` as a complex number -/
def pauliC (o : Op) (a b : Nat) : ℂ := (pauli o a b).toC

/-- every Pauli matrix is Hermitian -/
theorem pauliC_herm (o : Op) (a b : Nat) : star (pauliC o b a) = pauliC o a b := by
  rcases Nat.mod_two_eq_zero_or_one a with ha | ha <;> rcases Nat.mod_two_eq_zero_or_one b with hb | hb <;>
    cases o <;> apply Complex.ext <;> simp [pauliC, pauli, ha, hb]

/-! ### Kronecker products of Pauli matrices -/

/-- entry `(i, j)` of `P₀ ⊗ P₁ ⊗ ⋯` (site 0 leftmost) -/
def pauliEntry : List Op → Nat → Nat → ℂ
  | [], _, _ => 1
  | o :: os, i, j =>
    pauliC o (i / 2 ^ os.length) (j / 2 ^ os.length) * pauliEntry os (i % 2 ^ os.length) (j % 2 ^ os.length)

theorem pauliEntry_herm (ops : List Op) (i j : Nat) : star (pauliEntry ops j i) = pauliEntry ops i j := by
  induction ops generalizing i j with
  | nil => simp [pauliEntry]
  | cons o os ih => simp only [pauliEntry, star_mul', pauliC_herm, ih]

/-- the Pauli string of an operator list as a `2^L × 2^L` matrix -/
def pauliMat (L : Nat) (ops : List Op) : Matrix (Fin (2 ^ L)) (Fin (2 ^ L)) ℂ :=
  Matrix.of fun i j => pauliEntry ops i.val j.val

theorem pauliMat_apply (L : Nat) (ops : List Op) (i j : Fin (2 ^ L)) :
    pauliMat L ops i j = pauliEntry ops i.val j.val := rfl

/-- **Kronecker recursion** (site 0 is the leftmost tensor factor — the convention of `MPO.to_matrix`, C06's index map):
    `(P ⊗ rest)[i, j] = P[i / 2^n, j / 2^n] · rest[i % 2^n, j % 2^n]` with `n` the number of remaining sites -/
theorem pauliMat_kron (L : Nat) (o : Op) (os : List Op) (i j : Fin (2 ^ L)) :
    pauliMat L (o :: os) i j =
      pauliC o (i.val / 2 ^ os.length) (j.val / 2 ^ os.length)
        * pauliEntry os (i.val % 2 ^ os.length) (j.val % 2 ^ os.length) := rfl

theorem pauliMat_conjTranspose (L : Nat) (ops : List Op) : (pauliMat L ops)ᴴ = pauliMat L ops := by
  ext i j
  simp only [conjTranspose_apply, pauliMat_apply, pauliEntry_herm]

/-! ### generators, step unitary, Hamiltonian -/

/-- `-i c P`: the gate with generator `(P, c)` is `exp(-i c P)` -/
def genMat (L : Nat) (g : List Op × Rat) : Matrix (Fin (2 ^ L)) (Fin (2 ^ L)) ℂ :=
  (-(((g.2 : ℝ) : ℂ)) * Complex.I) • pauliMat L g.1

theorem genMat_skew (L : Nat) (g : List Op × Rat) : (genMat L g)ᴴ = -genMat L g := by
  unfold genMat
  rw [Matrix.conjTranspose_smul, pauliMat_conjTranspose, ← neg_smul]
  congr 1
  simp

theorem genMat_zero (L : Nat) (l : List Op) : genMat L (l, 0) = 0 := by simp [genMat]

/-- the unitary of a generator list: product of `exp(-i c P)` in list order -/
def stepUnitary (L : Nat) (gens : List (List Op × Rat)) : Matrix (Fin (2 ^ L)) (Fin (2 ^ L)) ℂ :=
  (gens.map fun g => exp (genMat L g)).prod

/-- the same product with every generator scaled by the real step `t` -/
def stepCurve (L : Nat) (gens : List (List Op × Rat)) (t : ℝ) : Matrix (Fin (2 ^ L)) (Fin (2 ^ L)) ℂ :=
  prodExp (gens.map (genMat L)) t

/-- sum of the generators -/
def genSum (L : Nat) (gens : List (List Op × Rat)) : Matrix (Fin (2 ^ L)) (Fin (2 ^ L)) ℂ := (gens.map (genMat L)).sum

/-- `Σ c · P` over a generator list -/
def hamOfGens (L : Nat) (gens : List (List Op × Rat)) : Matrix (Fin (2 ^ L)) (Fin (2 ^ L)) ℂ :=
  (gens.map fun g => (((g.2 : ℝ) : ℂ)) • pauliMat L g.1).sum

/-- the dense matrix of a Hamiltonian term list: `Σ_t coeff_t · (Pauli string of t)`, site 0 leftmost, over the terms
    `from_pauli_sum` accepts (`mpoTerms_valid`: it accepts every term of `MPO.ising` / `MPO.heisenberg`) -/
def hamMat (L : Nat) (terms : List (Rat × Spec)) : Matrix (Fin (2 ^ L)) (Fin (2 ^ L)) ℂ :=
  hamOfGens L (termGens L 1 terms)

/-- `(l, c) ↦ (l, dt · c)` -/
def scaleGen (dt : Rat) (g : List Op × Rat) : List Op × Rat := (g.1, dt * g.2)

theorem genMat_scale (L : Nat) (dt : Rat) (g : List Op × Rat) :
    genMat L (scaleGen dt g) = ((dt : ℝ)) • genMat L g := by
  rw [real_smul_eq_complex]
  unfold genMat scaleGen
  rw [smul_smul]
  congr 1
  push_cast
  ring

/-- **the step depends on `dt` only through the scaling of its generators** -/
theorem stepUnitary_scale (L : Nat) (dt : Rat) (gens : List (List Op × Rat)) :
    stepUnitary L (gens.map (scaleGen dt)) = stepCurve L gens (dt : ℝ) := by
  unfold stepUnitary stepCurve prodExp
  rw [List.map_map, List.map_map]
  congr 2
  funext g
  simp only [Function.comp_def, genMat_scale]

theorem stepUnitary_append (L : Nat) (a b : List (List Op × Rat)) :
    stepUnitary L (a ++ b) = stepUnitary L a * stepUnitary L b := by
  simp [stepUnitary]

theorem genSum_perm (L : Nat) {a b : List (List Op × Rat)} (h : a.Perm b) : genSum L a = genSum L b :=
  (h.map (genMat L)).sum_eq

theorem genSum_filter_nonzero (L : Nat) (gens : List (List Op × Rat)) :
    genSum L (gens.filter fun t => t.2 ≠ 0) = genSum L gens := by
  induction gens with
  | nil => rfl
  | cons g gs ih =>
    obtain ⟨l, c⟩ := g
    unfold genSum at ih ⊢
    by_cases hc : c = 0
    · subst hc
      rw [List.filter_cons_of_neg (by simp), List.map_cons, List.sum_cons, genMat_zero, zero_add, ih]
    · rw [List.filter_cons_of_pos (by simpa using hc), List.map_cons, List.sum_cons, List.map_cons, List.sum_cons, ih]

theorem genSum_eq_ham (L : Nat) (gens : List (List Op × Rat)) :
    genSum L gens = (-Complex.I) • hamOfGens L gens := by
  induction gens with
  | nil => simp [genSum, hamOfGens]
  | cons g gs ih =>
    unfold genSum hamOfGens at ih ⊢
    rw [List.map_cons, List.sum_cons, List.map_cons, List.sum_cons, smul_add, ← ih, genMat, smul_smul]
    congr 2
    ring

theorem genMat_mem_skew (L : Nat) (gens : List (List Op × Rat)) :
    ∀ A ∈ gens.map (genMat L), Aᴴ = -A := by
  intro A hA
  obtain ⟨g, _, rfl⟩ := List.mem_map.mp hA
  exact genMat_skew L g

/-! ### the generators of a Hamiltonian term list and of the circuit steps scale linearly with `dt` -/

theorem termGens_scale (L : Nat) (dt : Rat) (terms : List (Rat × Spec)) :
    termGens L dt terms = (termGens L 1 terms).map (scaleGen dt) := by
  unfold termGens
  rw [List.map_filterMap]
  congr 1
  funext t
  cases opList L t.2 <;> simp [scaleGen]

theorem filterMap_scale {β : Type} (xs : List β) (f : β → Option (List Op)) (dt c : Rat) :
    xs.filterMap (fun x => (f x).map fun l => (l, dt * c))
      = (xs.filterMap fun x => (f x).map fun l => (l, 1 * c)).map (scaleGen dt) := by
  rw [List.map_filterMap]
  congr 1
  funext x
  cases f x <;> simp [scaleGen]

theorem pairGens_scale (L : Nat) (o : Op) (dt c : Rat) (xs : List (Nat × Nat)) :
    xs.filterMap (pairGen L o (dt * c)) = (xs.filterMap (pairGen L o (1 * c))).map (scaleGen dt) :=
  filterMap_scale xs (fun p => opList L [(o, p.1), (o, p.2)]) dt c

theorem fieldGens_scale (L : Nat) (dt c : Rat) : fieldGens L (dt * c) = (fieldGens L (1 * c)).map (scaleGen dt) :=
  filterMap_scale (List.range L) (fun s => opList L [(Op.Z, s)]) dt c

theorem ising_stepGens (L : Nat) (per : Bool) (J g dt : Rat) :
    stepGens L (isingStep L per J g dt) =
      (List.range L).filterMap (fun s => (opList L [(Op.X, s)]).map fun l => (l, dt * -g))
        ++ (isingBonds L per).filterMap (pairGen L .Z (dt * -J)) := by
  unfold isingStep
  simp only [stepGens_append, stepGens_flatMap_bar, gateGen_g1_rx, gateGen_g2_rzz, rotCoeff_trotter]

/-- generators of one Ising step at `dt` = `dt ·` generators at `dt = 1` (`θ = -2·dt·c` is linear in `dt`) -/
theorem ising_gens_scale (L : Nat) (per : Bool) (J g dt : Rat) :
    stepGens L (isingStep L per J g dt) = (stepGens L (isingStep L per J g 1)).map (scaleGen dt) := by
  rw [ising_stepGens, ising_stepGens, List.map_append, ← pairGens_scale,
    ← filterMap_scale (List.range L) (fun s => opList L [(Op.X, s)]) dt (-g)]

theorem heisenberg_gens_scale (L : Nat) (per : Bool) (Jx Jy Jz h dt : Rat) :
    stepGens L (heisenbergStep L per Jx Jy Jz h dt)
      = (stepGens L (heisenbergStep L per Jx Jy Jz h 1)).map (scaleGen dt) := by
  rw [heisenberg_stepGens, heisenberg_stepGens, List.map_append, List.map_append, List.map_append,
    ← pairGens_scale, ← pairGens_scale, ← pairGens_scale, ← fieldGens_scale]

/-! ### the documented Hamiltonians of the 2-D builders as term lists -/

/-- `create_2d_ising_circuit` documents `H = -J Σ_{⟨p,q⟩} Z_p Z_q - g Σ_p X_p` on the `R × C` grid in snake order -/
def ising2dTerms (R C : Nat) (J g : Rat) : List (Rat × Spec) :=
  (gridSites R C).map (fun q => (-g, [(Op.X, q)]))
    ++ (grid2dBonds R C).map (fun p => (-J, [(Op.Z, p.1), (Op.Z, p.2)]))

/-- `create_2d_heisenberg_circuit`: `H = -Σ_{⟨p,q⟩} (Jx XX + Jy YY + Jz ZZ) - h Σ_p Z_p` -/
def heisenberg2dTerms (R C : Nat) (Jx Jy Jz h : Rat) : List (Rat × Spec) :=
  (gridSites R C).map (fun q => (-h, [(Op.Z, q)]))
    ++ (grid2dBondsH R C).map (fun p => (-Jz, [(Op.Z, p.1), (Op.Z, p.2)]))
    ++ (grid2dBondsH R C).map (fun p => (-Jx, [(Op.X, p.1), (Op.X, p.2)]))
    ++ (grid2dBondsH R C).map (fun p => (-Jy, [(Op.Y, p.1), (Op.Y, p.2)]))

theorem termGens_append (L : Nat) (dt : Rat) (a b : List (Rat × Spec)) :
    termGens L dt (a ++ b) = termGens L dt a ++ termGens L dt b := by
  simp [termGens]

theorem termGens_map_one (L : Nat) (dt c : Rat) (o : Op) (xs : List Nat) :
    termGens L dt (xs.map fun q => (c, [(o, q)])) = xs.filterMap fun q => (opList L [(o, q)]).map fun l => (l, dt * c) := by
  simp only [termGens, List.filterMap_map]
  rfl

theorem termGens_map_two (L : Nat) (dt c : Rat) (o : Op) (xs : List (Nat × Nat)) :
    termGens L dt (xs.map fun p => (c, [(o, p.1), (o, p.2)])) = xs.filterMap (pairGen L o (dt * c)) := by
  simp only [termGens, List.filterMap_map]
  rfl

/-- the generators of one 2-D Ising step are exactly (same order) the `dt`-scaled terms of the documented Hamiltonian -/
theorem ising2d_gens_eq_terms (R C : Nat) (J g dt : Rat) :
    stepGens (R * C) (ising2dStep R C J g dt) = termGens (R * C) dt (ising2dTerms R C J g) := by
  unfold ising2dStep ising2dTerms
  simp only [stepGens_append, stepGens_map, stepGens_flatMap_bar, gateGen_g1_rx, gateGen_g2_rzz, rotCoeff_trotter,
    termGens_append, termGens_map_one, termGens_map_two]

theorem heisenberg2d_gens_eq_terms (R C : Nat) (Jx Jy Jz h dt : Rat) :
    stepGens (R * C) (heisenberg2dStep R C Jx Jy Jz h dt) = termGens (R * C) dt (heisenberg2dTerms R C Jx Jy Jz h) := by
  unfold heisenberg2dStep heisenberg2dTerms
  simp only [stepGens_append, stepGens_map, gateGen_g1_rz, gateGen_g2_rzz, gateGen_g2_rxx, gateGen_g2_ryy,
    rotCoeff_trotter, termGens_append, termGens_map_one, termGens_map_two]

/-! ### the circuit is the step repeated: its unitary is a power -/

theorem stepGens_repeat (L n : Nat) (step : List Gate) :
    stepGens L (repeatSteps n step) = (List.replicate n (stepGens L step)).flatten := by
  induction n with
  | zero => simp [repeatSteps, stepGens]
  | succ k ih =>
    have e : repeatSteps (k + 1) step = step ++ repeatSteps k step := by simp [repeatSteps, List.replicate_succ]
    rw [e, stepGens_append, ih, List.replicate_succ, List.flatten_cons]

theorem stepUnitary_repeat (L n : Nat) (step : List Gate) :
    stepUnitary L (stepGens L (repeatSteps n step)) = stepUnitary L (stepGens L step) ^ n := by
  rw [stepGens_repeat]
  induction n with
  | zero => simp [stepUnitary]
  | succ k ih => rw [List.replicate_succ, List.flatten_cons, stepUnitary_append, ih, pow_succ']

/-! ### `from_pauli_sum` accepts every term of `MPO.hamiltonian` -/

theorem mpoTerms_accepted {K : Type} (L : Nat) (per : Bool) (two : List (K × Op × Op)) (one : List (K × Op))
    (h : L ≠ 1 ∨ per = false) : ∀ t ∈ mpoTerms L per two one, (opList L t.2).isSome := by
  intro t ht
  simp only [mpoTerms, List.mem_append, List.mem_flatMap, List.mem_map] at ht
  rcases ht with ⟨a, _, i, hi, rfl⟩ | ⟨a, _, i, hi, rfl⟩
  · rw [opList_isSome_iff]
    have hp := hamPairs_lt L per (i, (i + 1) % L) (by
      simp only [hamPairs, List.mem_map]; exact ⟨i, hi, rfl⟩)
    simp only at hp
    have hne : i ≠ (i + 1) % L := by
      cases per with
      | false =>
        simp only [hamBonds, Bool.false_eq_true, if_false, List.mem_range] at hi
        rw [Nat.mod_eq_of_lt (by omega)]; omega
      | true =>
        have hL : L ≠ 1 := by rcases h with h | h; exact h; exact absurd h (by simp)
        simp only [hamBonds, if_true, List.mem_range] at hi
        by_cases hlt : i + 1 < L
        · rw [Nat.mod_eq_of_lt hlt]; omega
        · have : i + 1 = L := by omega
          rw [this, Nat.mod_self]; omega
    refine ⟨by simpa using hne, ?_⟩
    intro t ht
    simp only [List.mem_cons, List.not_mem_nil, or_false] at ht
    rcases ht with rfl | rfl
    · exact hp.1
    · exact hp.2
  · rw [opList_isSome_iff]
    refine ⟨by simp, ?_⟩
    intro t ht
    simp only [List.mem_cons, List.not_mem_nil, or_false] at ht
    subst ht
    exact List.mem_range.mp hi

theorem opList_length (L : Nat) (spec : Spec) (ops : List Op) (h : opList L spec = some ops) : ops.length = L := by
  unfold opList at h
  split at h
  · simp at h
  · split at h
    · simp at h
    · simp only [Option.some.injEq] at h
      subst h
      simp

/-! ### link to the automaton of `from_pauli_sum`: `hamMat` is the operator `MPO.ising` / `MPO.heisenberg` encode -/

/-- digit `k` (site `k`) of the row / column index `i` of a `2^L × 2^L` matrix, site 0 most significant -/
def cfg (L i : Nat) (k : Nat) : Nat := i / 2 ^ (L - 1 - k) % 2

theorem toC_termProd (ops : List Op) (σ σ' : Nat → Nat) (k n : Nat) :
    (termProd pauli ops σ σ' k n).toC = termProd pauliC ops σ σ' k n := by
  induction n generalizing k with
  | zero => simp [termProd, GRat.toC_one]
  | succ n ih => simp only [termProd, GRat.toC_mul, ih, pauliC]

theorem pauliEntry_drop (L : Nat) (ops : List Op) (hl : ops.length = L) (i j : Nat) :
    ∀ n k, k + n = L →
      pauliEntry (ops.drop k) (i % 2 ^ n) (j % 2 ^ n) = termProd pauliC ops (cfg L i) (cfg L j) k n := by
  intro n
  induction n with
  | zero =>
    intro k hk
    have : ops.drop k = [] := List.drop_eq_nil_of_le (by omega)
    simp [this, pauliEntry, termProd]
  | succ n ih =>
    intro k hk
    have hk' : k < ops.length := by omega
    have hlen : (ops.drop (k + 1)).length = n := by rw [List.length_drop]; omega
    have hd : (2 : Nat) ^ n ∣ 2 ^ (n + 1) := pow_dvd_pow 2 (Nat.le_succ n)
    have hdig (x : Nat) : x % 2 ^ (n + 1) / 2 ^ n = cfg L x k := by
      unfold cfg
      rw [pow_succ, Nat.mod_mul_right_div_self, show L - 1 - k = n by omega]
    rw [List.drop_eq_getElem_cons hk']
    simp only [pauliEntry, termProd]
    rw [hlen, Nat.mod_mod_of_dvd _ hd, Nat.mod_mod_of_dvd _ hd, ih (k + 1) (by omega), hdig, hdig]
    simp only [List.getD_eq_getElem?_getD, List.getElem?_eq_getElem hk', Option.getD_some]

theorem pauliEntry_eq_termProd (L : Nat) (ops : List Op) (hl : ops.length = L) (i j : Nat) (hi : i < 2 ^ L)
    (hj : j < 2 ^ L) : pauliEntry ops i j = termProd pauliC ops (cfg L i) (cfg L j) 0 L := by
  have h := pauliEntry_drop L ops hl i j L 0 (by omega)
  rwa [List.drop_zero, Nat.mod_eq_of_lt hi, Nat.mod_eq_of_lt hj] at h

theorem hamOfGens_apply (L : Nat) (gens : List (List Op × Rat)) (i j : Fin (2 ^ L)) :
    hamOfGens L gens i j = (gens.map fun g => (((g.2 : ℝ) : ℂ)) * pauliEntry g.1 i.val j.val).sum := by
  induction gens with
  | nil => simp [hamOfGens]
  | cons g gs ih =>
    unfold hamOfGens at ih ⊢
    rw [List.map_cons, List.sum_cons, List.map_cons, List.sum_cons, Matrix.add_apply, ih, Matrix.smul_apply,
      pauliMat_apply, smul_eq_mul]

/-- **circuit and MPO builder describe the same operator**: entry `(i, j)` of `hamMat L terms` — the operator whose
    first-order product formula the circuit step is — equals `Σ_t coeff_t · Π_k P_{t,k}[σ_k, σ'_k]` over the parsed terms at
    the digits `σ, σ'` of `i, j`; by `fsm_sum` that is the path sum of the automaton `from_pauli_sum` builds from the same
    term list (`Props/C07.lean::circuit_mpo_same_hamiltonian`) -/
theorem hamMat_entry_termSum (L : Nat) (terms : List (Rat × Spec)) (pt : List (GRat × List Op))
    (h : parseTerms L (terms.map fun t => (GRat.ofRat t.1, t.2)) = some pt) (i j : Fin (2 ^ L)) :
    hamMat L terms i j = (termSum pauli pt L (cfg L i.val) (cfg L j.val)).toC := by
  rw [hamMat, hamOfGens_apply]
  unfold termSum
  induction terms generalizing pt with
  | nil =>
    simp only [List.map_nil, parseTerms, Option.some.injEq] at h
    subst h
    simp [termGens, GRat.toC_zero]
  | cons t rest ih =>
    obtain ⟨c, sp⟩ := t
    simp only [List.map_cons, parseTerms] at h
    cases ho : opList L sp with
    | none => simp [ho] at h
    | some o =>
      cases hr : parseTerms L (rest.map fun t => (GRat.ofRat t.1, t.2)) with
      | none => simp [ho, hr] at h
      | some r =>
        simp only [ho, hr, Option.some.injEq] at h
        subst h
        have hg : termGens L 1 ((c, sp) :: rest) = (o, 1 * c) :: termGens L 1 rest := by
          simp [termGens, ho]
        rw [hg, List.map_cons, List.sum_cons, List.map_cons, List.sum_cons, GRat.toC_add, GRat.toC_mul, GRat.toC_ofRat,
          toC_termProd, ← pauliEntry_eq_termProd L o (opList_length L sp o ho) i.val j.val i.isLt j.isLt, ← ih r hr]
        simp

/-- a term list all of whose terms `from_pauli_sum` accepts is parsed (the coefficients play no role) -/
theorem parseTerms_of_accepted {K K' : Type} (L : Nat) (f : K → K') (terms : List (K × Spec))
    (h : ∀ t ∈ terms, (opList L t.2).isSome) : ∃ pt, parseTerms L (terms.map fun t => (f t.1, t.2)) = some pt := by
  induction terms with
  | nil => exact ⟨[], rfl⟩
  | cons t rest ih =>
    obtain ⟨pr, hpr⟩ := ih fun u hu => h u (List.mem_cons_of_mem _ hu)
    obtain ⟨o, ho⟩ := Option.isSome_iff_exists.mp (h t List.mem_cons_self)
    exact ⟨(f t.1, o) :: pr, by simp only [List.map_cons, parseTerms, ho, hpr]⟩

theorem mod_pow_div_mod_two (i m r : Nat) : i % 2 ^ (m + (r + 1)) / 2 ^ m % 2 = i / 2 ^ m % 2 := by
  rw [pow_add, Nat.mod_mul_right_div_self, Nat.mod_mod_of_dvd _ (dvd_pow_self 2 (Nat.succ_ne_zero r))]

/-- `cfg L i` are the digits `unflat [2, …, 2] i` of C06's index map — the digits at which `MPO.to_matrix` places a bond path
    sum (`to_matrix_entry`, `dense_eq_sparse`) -/
theorem cfg_eq_unflat (L : Nat) : ∀ (i k : Nat), k < L →
    (Yaqs.Index.unflat (List.replicate L 2) i).getD k 0 = cfg L i k := by
  induction L with
  | zero => intro i k hk; omega
  | succ L ih =>
    intro i k hk
    rw [List.replicate_succ, Yaqs.Index.unflat, Yaqs.Index.dimProd_replicate]
    cases k with
    | zero => simp [cfg]
    | succ k =>
      rw [List.getD_cons_succ, ih (i % 2 ^ L) k (by omega)]
      unfold cfg
      have hm : L + 1 - 1 - (k + 1) = L - 1 - k := by omega
      rw [hm]
      have := mod_pow_div_mod_two i (L - 1 - k) k
      rwa [show L - 1 - k + (k + 1) = L by omega] at this

/-! ### the whole circuit: `N` steps of size `T/N` against `exp(T · Σ generators)` -/

section l2
open scoped Matrix.Norms.L2Operator
open Filter Topology

theorem circuit_step_eq_curve (L : Nat) (step : Rat → List Gate) (gens1 : List (List Op × Rat))
    (hscale : ∀ dt, stepGens L (step dt) = gens1.map (scaleGen dt)) (T : Rat) (N : ℕ) :
    stepUnitary L (stepGens L (repeatSteps N (step (T / N)))) = prodExp (gens1.map (genMat L)) ((T : ℝ) / N) ^ N := by
  rw [stepUnitary_repeat, hscale, stepUnitary_scale, Rat.cast_div, Rat.cast_natCast]
  rfl

/-- generic form of the library statements: a builder whose step generators scale linearly with `dt` converges to the
    exponential of `T ·` (sum of its generators at `dt = 1`), with the explicit first-order error bound -/
theorem circuit_trotter_bound (L : Nat) (step : Rat → List Gate) (gens1 : List (List Op × Rat))
    (hscale : ∀ dt, stepGens L (step dt) = gens1.map (scaleGen dt)) (T : Rat) (N : ℕ) (hN : 0 < N) :
    ‖stepUnitary L (stepGens L (repeatSteps N (step (T / N)))) - exp ((T : ℝ) • genSum L gens1)‖
      ≤ (T : ℝ) ^ 2 * ((gens1.map (genMat L)).map norm).sum ^ 2
          * Real.exp (|(T : ℝ)| * ((gens1.map (genMat L)).map norm).sum) / N := by
  rw [circuit_step_eq_curve L step gens1 hscale T N]
  exact trotter_global_bound (gens1.map (genMat L)) (genMat_mem_skew L gens1) (T : ℝ) N hN

theorem circuit_trotter_tendsto (L : Nat) (step : Rat → List Gate) (gens1 : List (List Op × Rat))
    (hscale : ∀ dt, stepGens L (step dt) = gens1.map (scaleGen dt)) (T : Rat) :
    Tendsto (fun N : ℕ => stepUnitary L (stepGens L (repeatSteps N (step (T / N))))) atTop
      (𝓝 (exp ((T : ℝ) • genSum L gens1))) := by
  have h := trotter_tendsto (gens1.map (genMat L)) (genMat_mem_skew L gens1) (T : ℝ)
  refine h.congr fun N => ?_
  rw [circuit_step_eq_curve L step gens1 hscale T N]

end l2

end

end Yaqs.Trotter
