import YaqsModel.Lemmas.LocalOp
import YaqsModel.Lemmas.CheckerEndToEnd
import YaqsModel.Props.C06
import YaqsModel.Model.Lottery

/-!
# The embedded operator of `Lemmas/LocalOp.lean` is the one C04, C06 and C01's dense lottery model use

* `embedL (siteLens p) X` is definitionally what C04's `embed1 d n p X` unfolds to (`embedL (pairLens p q) G` = `embed2`);
* at Kronecker positions (`kronIdx`, site 0 most significant) it is the matrix `_embed_generic` builds (C06 `embed_site_one`);
* the dense jump model of the C01 / C03 lottery driver, `Lottery.apply1` (bit arithmetic on a dense vector in Kronecker order),
  computes exactly `Σ_c m[b_s][c] · v[b with s := c]`, the right-hand side of `apply_one_site_dense`.
-/
namespace Yaqs.LocalOp
open Yaqs.Embed

/-- C04's `embed1` / `embed2` are the lens embeddings used here -/
theorem embed_is_c04 {K : Type} [CommSemiring K] (d n p : Nat) (hp : p < n) (A : Matrix (Fin d) (Fin d) K) :
    Yaqs.CheckerE2E.embed1 d n p A = embedL (siteLens (⟨p, hp⟩ : Fin n)) A := by
  unfold Yaqs.CheckerE2E.embed1
  rw [dif_pos hp]

theorem embed2_is_c04 {K : Type} [CommSemiring K] (d n p q : Nat) (hp : p < n) (hq : q < n) (hpq : p ≠ q)
    (G : Matrix (Fin d × Fin d) (Fin d × Fin d) K) :
    Yaqs.CheckerE2E.embed2 d n p q G
      = embedL (pairLens (⟨p, hp⟩ : Fin n) ⟨q, hq⟩ (Fin.ne_of_val_ne hpq)) G := by
  unfold Yaqs.CheckerE2E.embed2
  rw [dif_pos ⟨hp, hq, hpq⟩]

section c06
open Yaqs.Index
variable {α : Type} [MulZeroOneClass α]

/-- a digit list as a configuration `Fin L → ℕ` -/
def cfgFn (L : Nat) (b : List Nat) : Fin L → Nat := fun k => b.getD k 0

theorem cfgFn_agree (pre pre' post post' : List Nat) (x x' : Nat) (hp : pre'.length = pre.length)
    (hq : post'.length = post.length) :
    Function.update (cfgFn (pre.length + 1 + post.length) (pre ++ x :: post)) ⟨pre.length, by omega⟩ x'
        = cfgFn (pre.length + 1 + post.length) (pre' ++ x' :: post')
      ↔ pre = pre' ∧ post = post' := by
  constructor
  · intro h
    constructor
    · apply List.ext_getElem hp.symm
      intro k h1 h2
      have := congrFun h ⟨k, by omega⟩
      rw [Function.update_of_ne (by intro e; have := congrArg Fin.val e; simp at this; omega)] at this
      simp only [cfgFn, List.getD_eq_getElem?_getD] at this
      rw [List.getElem?_append_left h1, List.getElem?_append_left h2] at this
      simpa [List.getElem?_eq_getElem h1, List.getElem?_eq_getElem h2] using this
    · apply List.ext_getElem hq.symm
      intro k h1 h2
      have := congrFun h ⟨pre.length + 1 + k, by omega⟩
      rw [Function.update_of_ne (by intro e; have := congrArg Fin.val e; simp at this; omega)] at this
      simp only [cfgFn, List.getD_eq_getElem?_getD] at this
      rw [List.getElem?_append_right (by omega), List.getElem?_append_right (by omega)] at this
      have e1 : pre.length + 1 + k - pre.length = k + 1 := by omega
      have e2 : pre.length + 1 + k - pre'.length = k + 1 := by omega
      rw [e1, e2] at this
      simpa [List.getElem?_eq_getElem h1, List.getElem?_eq_getElem h2] using this
  · rintro ⟨rfl, rfl⟩
    funext k
    by_cases hk : k = ⟨pre.length, by omega⟩
    · subst hk
      simp [cfgFn, List.getD_eq_getElem?_getD]
    · rw [Function.update_of_ne hk]
      have hk' : (k : Nat) ≠ pre.length := fun e => hk (Fin.ext e)
      simp only [cfgFn, List.getD_eq_getElem?_getD]
      by_cases hlt : (k : Nat) < pre.length
      · rw [List.getElem?_append_left hlt, List.getElem?_append_left hlt]
      · rw [List.getElem?_append_right (by omega), List.getElem?_append_right (by omega)]
        have : (k : Nat) - pre.length = ((k : Nat) - pre.length - 1) + 1 := by omega
        rw [this]
        simp

/-- **C06 link**: the matrix `_embed_generic(sites=[i], op_matrix=A)` builds has, at the Kronecker positions of two basis
    states, exactly the entry of the lens embedding `embedL (siteLens i) A` between the corresponding configurations -/
theorem embed_is_c06 (A : Mat α) (pre pre' post post' : List Nat) (x x' : Nat)
    (hp : pre'.length = pre.length) (hq : post'.length = post.length) (hA : A.rows = 2 ∧ A.cols = 2)
    (hb : ∀ z ∈ pre ++ x :: post, z < 2) (hb' : ∀ z ∈ pre' ++ x' :: post', z < 2) :
    ∃ M, embed1 (pre.length + 1 + post.length) pre.length A = some M ∧
      M.e (kronIdx (List.replicate (pre.length + 1 + post.length) 2) (pre ++ x :: post))
          (kronIdx (List.replicate (pre.length + 1 + post.length) 2) (pre' ++ x' :: post'))
        = embedL (siteLens (⟨pre.length, by omega⟩ : Fin (pre.length + 1 + post.length))) (fun i j => A.e i j)
            (cfgFn _ (pre ++ x :: post)) (cfgFn _ (pre' ++ x' :: post')) := by
  obtain ⟨M, hM, he⟩ := embed_site_one A pre pre' post post' x x' hp hq hA hb hb'
  refine ⟨M, hM, ?_⟩
  rw [he]
  have hx : cfgFn (pre.length + 1 + post.length) (pre ++ x :: post) ⟨pre.length, by omega⟩ = x := by
    simp [cfgFn, List.getD_eq_getElem?_getD]
  have hx' : cfgFn (pre.length + 1 + post.length) (pre' ++ x' :: post') ⟨pre.length, by omega⟩ = x' := by
    simp [cfgFn, List.getD_eq_getElem?_getD, ← hp]
  show _ = if Function.update (cfgFn _ (pre ++ x :: post)) ⟨pre.length, by omega⟩
      (cfgFn _ (pre' ++ x' :: post') ⟨pre.length, by omega⟩) = cfgFn _ (pre' ++ x' :: post') then
      A.e (cfgFn _ (pre ++ x :: post) ⟨pre.length, by omega⟩) (cfgFn _ (pre' ++ x' :: post') ⟨pre.length, by omega⟩) else 0
  rw [hx, hx']
  by_cases h : pre = pre' ∧ post = post'
  · rw [if_pos h, if_pos ((cfgFn_agree pre pre' post post' x x' hp hq).mpr h)]
  · rw [if_neg h, if_neg (fun h' => h ((cfgFn_agree pre pre' post post' x x' hp hq).mp h'))]

end c06

section lottery
open Yaqs.Index Yaqs.Lottery

theorem kronIdx_site (pre post : List Nat) (x : Nat) (hb : ∀ z ∈ pre ++ x :: post, z < 2) :
    kronIdx (List.replicate (pre.length + 1 + post.length) 2) (pre ++ x :: post)
      = (kronIdx (List.replicate pre.length 2) pre * 2 + x) * 2 ^ post.length
        + kronIdx (List.replicate post.length 2) post ∧
    kronIdx (List.replicate post.length 2) post < 2 ^ post.length := by
  have vpre : Valid (List.replicate pre.length 2) pre :=
    (valid_replicate_iff _ _ _).mpr ⟨rfl, fun z hz => hb z (List.mem_append_left _ hz)⟩
  have vpost : Valid (List.replicate post.length 2) post :=
    (valid_replicate_iff _ _ _).mpr ⟨rfl, fun z hz => hb z (by simp [hz])⟩
  have vx : Valid [2] [x] := by simp [Valid, hb x (by simp)]
  have hsplit : List.replicate (pre.length + 1 + post.length) 2
      = List.replicate pre.length 2 ++ ([2] ++ List.replicate post.length 2) := by
    rw [show pre.length + 1 + post.length = pre.length + (1 + post.length) by omega, List.replicate_add, List.replicate_add]
    rfl
  have hK := kronIdx_lt vpost
  rw [dimProd_replicate] at hK
  refine ⟨?_, hK⟩
  rw [hsplit, show pre ++ x :: post = pre ++ ([x] ++ post) by simp, kronIdx_append vpre (vx.append vpost),
    kronIdx_append vx vpost, dimProd_append, dimProd_replicate]
  simp [kronIdx, kronIdxFrom, dimProd]
  ring

/-- **C01 link**: the dense one-site application of the lottery driver (`Lottery.apply1`, used by `applyProc` / `denseNrm` for the
    jump weights and the jump branch) on a vector in Kronecker order computes, at the position of the basis state
    `pre ++ x :: post`, the sum `m[x][0]·v[… 0 …] + m[x][1]·v[… 1 …]` over the values of site `s = |pre|` — the right-hand side
    of `apply_one_site_dense` for qubits. -/
theorem lottery_apply1_dense (pre post : List Nat) (x : Nat) (m : Lottery.Mat) (v : Vec)
    (hb : ∀ z ∈ pre ++ x :: post, z < 2) (hv : v.length = 2 ^ (pre.length + 1 + post.length)) :
    vecGet (apply1 (pre.length + 1 + post.length) pre.length m v)
        (kronIdx (List.replicate (pre.length + 1 + post.length) 2) (pre ++ x :: post))
      = CR.add (CR.mul (matGet m x 0) (vecGet v (kronIdx (List.replicate (pre.length + 1 + post.length) 2) (pre ++ 0 :: post))))
          (CR.mul (matGet m x 1) (vecGet v (kronIdx (List.replicate (pre.length + 1 + post.length) 2) (pre ++ 1 :: post)))) := by
  have hx : x < 2 := hb x (by simp)
  have hb0 : ∀ z ∈ pre ++ 0 :: post, z < 2 := by
    intro z hz
    simp only [List.mem_append, List.mem_cons] at hz
    rcases hz with h | rfl | h
    · exact hb z (by simp [h])
    · omega
    · exact hb z (by simp [h])
  have hb1 : ∀ z ∈ pre ++ 1 :: post, z < 2 := by
    intro z hz
    simp only [List.mem_append, List.mem_cons] at hz
    rcases hz with h | rfl | h
    · exact hb z (by simp [h])
    · omega
    · exact hb z (by simp [h])
  obtain ⟨e, hK⟩ := kronIdx_site pre post x hb
  obtain ⟨e0, _⟩ := kronIdx_site pre post 0 hb0
  obtain ⟨e1, _⟩ := kronIdx_site pre post 1 hb1
  set P := kronIdx (List.replicate pre.length 2) pre
  set K := kronIdx (List.replicate post.length 2) post
  set q := post.length
  have hpos : 0 < 2 ^ q := Nat.pow_pos (by omega)
  have hlt : (P * 2 + x) * 2 ^ q + K < v.length := by
    have vall : Valid (List.replicate (pre.length + 1 + q) 2) (pre ++ x :: post) :=
      (valid_replicate_iff _ _ _).mpr ⟨by simp [q]; omega, hb⟩
    have := kronIdx_lt vall
    rw [dimProd_replicate, e] at this
    rw [hv]; exact this
  have hdiv : ((P * 2 + x) * 2 ^ q + K) / 2 ^ q = P * 2 + x := by
    rw [Nat.mul_comm, Nat.mul_add_div hpos, Nat.div_eq_of_lt hK]; rfl
  have hst : pre.length + 1 + q - 1 - pre.length = q := by omega
  rw [e, e0, e1]
  unfold apply1 vecGet
  simp only [hst]
  rw [List.getD_eq_getElem?_getD, List.getElem?_map, List.getElem?_range hlt]
  simp only [Option.map_some, Option.getD_some, hdiv]
  have hmod : (P * 2 + x) % 2 = x := by omega
  rw [hmod]
  have hbase : (P * 2 + x) * 2 ^ q + K - x * 2 ^ q = (P * 2 + 0) * 2 ^ q + K := by
    have : (P * 2 + x) * 2 ^ q = P * 2 * 2 ^ q + x * 2 ^ q := by ring
    rw [this]; simp only [Nat.add_zero]; omega
  have hbase1 : (P * 2 + x) * 2 ^ q + K - x * 2 ^ q + 2 ^ q = (P * 2 + 1) * 2 ^ q + K := by
    rw [hbase]; ring
  rw [hbase1, hbase]

end lottery

end Yaqs.LocalOp
