import YaqsModel.Model.Lottery

/-! helper lemmas for the jump lottery (kept apart from the property theorems of C01 / C03) -/
namespace Yaqs.Lottery
open Yaqs Yaqs.Dist

/-! ### the enumerate loop writes exactly the slots of the processes that satisfy its condition -/

theorem set_append_length (pre : List Rat) (x y : Rat) (t : List Rat) :
    (pre ++ x :: t).set pre.length y = pre ++ y :: t := by
  induction pre with
  | nil => rfl
  | cons a pre ih => simp only [List.cons_append, List.length_cons, List.set_cons_succ, ih]

theorem enumLoop_map_aux (c : Proc → Bool) (w g : Proc → Rat) (ps : List Proc) (pre : List Rat) :
    enumLoop c w pre.length ps (pre ++ ps.map g) = pre ++ ps.map (fun p => if c p then w p else g p) := by
  induction ps generalizing pre with
  | nil => simp [enumLoop]
  | cons p ps ih =>
    simp only [enumLoop, List.map_cons]
    have h := ih (pre ++ [if c p = true then w p else g p])
    simp only [List.length_append, List.length_cons, List.length_nil, Nat.zero_add, List.append_assoc,
      List.cons_append, List.nil_append] at h
    by_cases hc : c p = true
    · simp only [hc, if_true] at h ⊢
      rw [set_append_length]
      exact h
    · simp only [hc] at h ⊢
      exact h

/-- one `for idx, process in enumerate(...)` loop over slots that are a function of the process -/
theorem enumLoop_map (c : Proc → Bool) (w g : Proc → Rat) (ps : List Proc) :
    enumLoop c w 0 ps (ps.map g) = ps.map (fun p => if c p then w p else g p) := by
  have := enumLoop_map_aux c w g ps []
  simpa using this

/-- slot of process `p` after the first `k` sites of the sweep -/
def slotAfter (L : Nat) (w1 w2 : Proc → Rat) : Nat → Proc → Rat
  | 0, _ => 0
  | k + 1, p =>
    if (decide (k + 1 < L) && hit2 k p) = true then w2 p
    else if hit1 k p = true then w1 p
    else slotAfter L w1 w2 k p

theorem siteStep_map (L : Nat) (procs : List Proc) (w1 w2 g : Proc → Rat) (site : Nat) :
    siteStep L procs w1 w2 (procs.map g) site =
      procs.map (fun p => if (decide (site + 1 < L) && hit2 site p) = true then w2 p
                          else if hit1 site p = true then w1 p else g p) := by
  unfold siteStep
  simp only [enumLoop_map]
  by_cases h : site + 1 < L
  · simp only [h, if_true, decide_true, Bool.true_and]
  · simp only [h, if_false, decide_false, Bool.false_and, Bool.false_eq_true]

theorem replicate_eq_map (procs : List Proc) :
    List.replicate procs.length (0 : Rat) = procs.map (fun _ => 0) := by
  induction procs with
  | nil => rfl
  | cons p ps ih => simp only [List.length_cons, List.replicate_succ, List.map_cons, ih]

theorem foldl_siteStep (L : Nat) (procs : List Proc) (w1 w2 : Proc → Rat) (k : Nat) :
    (List.range k).foldl (siteStep L procs w1 w2) (List.replicate procs.length 0) =
      procs.map (slotAfter L w1 w2 k) := by
  induction k with
  | zero => simp only [List.range_zero, List.foldl_nil, replicate_eq_map]; rfl
  | succ k ih =>
    rw [List.range_succ, List.foldl_append, ih]
    simp only [List.foldl_cons, List.foldl_nil, siteStep_map]
    rfl

theorem sweepSlots_eq_map (L : Nat) (procs : List Proc) (w1 w2 : Proc → Rat) :
    sweepSlots L procs w1 w2 = procs.map (slotAfter L w1 w2 L) :=
  foldl_siteStep L procs w1 w2 L

/-! ### closed form of a slot -/

theorem slotAfter_one (L : Nat) (w1 w2 : Proc → Rat) (p : Proc) (s : Nat) (hs : p.sites = [s]) (k : Nat) :
    slotAfter L w1 w2 k p = if s < k then w1 p else 0 := by
  induction k with
  | zero => simp [slotAfter]
  | succ k ih =>
    have h2 : hit2 k p = false := by simp [hit2, hs]
    have h1 : hit1 k p = (s == k) := by simp [hit1, hs]
    simp only [slotAfter, h2, h1, Bool.and_false, Bool.false_eq_true, if_false, ih]
    by_cases e : s = k
    · subst e; simp
    · have : (s == k) = false := by simpa using e
      simp only [this, Bool.false_eq_true, if_false]
      by_cases hlt : s < k
      · have : s < k + 1 := by omega
        simp [hlt, this]
      · have : ¬ s < k + 1 := by omega
        simp [hlt, this]

theorem slotAfter_two (L : Nat) (w1 w2 : Proc → Rat) (p : Proc) (s0 s1 : Nat) (hs : p.sites = [s0, s1])
    (k : Nat) :
    slotAfter L w1 w2 k p =
      if s0 < k ∧ s0 + 1 < L ∧ (p.pauli = true ∨ s1 = s0 + 1) then w2 p else 0 := by
  induction k with
  | zero => simp [slotAfter]
  | succ k ih =>
    have h1 : hit1 k p = false := by simp [hit1, hs]
    have h2 : hit2 k p = (s0 == k && (p.pauli || s1 == k + 1)) := by simp [hit2, hs]
    simp only [slotAfter, h1, h2, Bool.false_eq_true, if_false, ih]
    by_cases e : s0 = k
    · subst e
      by_cases hc : s0 + 1 < L ∧ (p.pauli = true ∨ s1 = s0 + 1)
      · have hl : s0 + 1 < L := hc.1
        rcases hc.2 with hp | hq
        · simp [hl, hp]
        · simp [hl, hq]
      · have : ¬ (s0 < s0 + 1 ∧ s0 + 1 < L ∧ (p.pauli = true ∨ s1 = s0 + 1)) := fun h => hc h.2
        simp only [this, if_false]
        have hk : ¬ (s0 < s0 ∧ s0 + 1 < L ∧ (p.pauli = true ∨ s1 = s0 + 1)) := fun h => hc h.2
        simp only [hk, if_false]
        by_cases hl : s0 + 1 < L
        · have hn : ¬ (p.pauli = true ∨ s1 = s0 + 1) := fun h => hc ⟨hl, h⟩
          have hp : p.pauli = false := by
            cases hpp : p.pauli with
            | true => exact absurd (Or.inl hpp) hn
            | false => rfl
          have hq : (s1 == s0 + 1) = false := by
            have : s1 ≠ s0 + 1 := fun h => hn (Or.inr h)
            simpa using this
          simp [hp, hq]
        · simp [hl]
    · have hne : (s0 == k) = false := by simpa using e
      simp only [hne, Bool.false_and, Bool.and_false, Bool.false_eq_true, if_false]
      by_cases hlt : s0 < k
      · have : s0 < k + 1 := by omega
        simp [hlt, this]
      · have : ¬ s0 < k + 1 := by omega
        simp [hlt, this]

theorem slotAfter_other (L : Nat) (w1 w2 : Proc → Rat) (p : Proc)
    (h1 : ∀ s, p.sites ≠ [s]) (h2 : ∀ s0 s1, p.sites ≠ [s0, s1]) (k : Nat) :
    slotAfter L w1 w2 k p = 0 := by
  induction k with
  | zero => rfl
  | succ k ih =>
    have e1 : hit1 k p = false := by
      unfold hit1
      split
      · rename_i s hs; exact absurd hs (h1 s)
      · rfl
    have e2 : hit2 k p = false := by
      unfold hit2
      split
      · rename_i s0 s1 hs; exact absurd hs (h2 s0 s1)
      · rfl
    simp [slotAfter, e1, e2, ih]

/-- the slot of a process after the whole sweep: its own weight if the sweep reaches it, else the initial 0 -/
theorem slotAfter_full (L : Nat) (dt : Rat) (nrm : Proc → Rat) (n : Rat) (p : Proc) :
    slotAfter L (wOne dt nrm) (wTwo dt nrm n) L p = if visited L p = true then weightOf dt nrm n p else 0 := by
  match hs : p.sites with
  | [s] =>
    rw [slotAfter_one L _ _ p s hs L]
    simp [visited, weightOf, hs]
  | [s0, s1] =>
    rw [slotAfter_two L _ _ p s0 s1 hs L]
    have hv : visited L p = (decide (s0 + 1 < L) && (p.pauli || s1 == s0 + 1)) := by simp [visited, hs]
    have hw : weightOf dt nrm n p = wTwo dt nrm n p := by simp [weightOf, hs]
    rw [hv, hw]
    by_cases hl : s0 + 1 < L
    · have : s0 < L := by omega
      simp [hl, this]
    · simp [hl]
  | [] =>
    rw [slotAfter_other L _ _ p (by simp [hs]) (by simp [hs]) L]
    simp [visited, hs]
  | _ :: _ :: _ :: _ =>
    rw [slotAfter_other L _ _ p (by simp [hs]) (by simp [hs]) L]
    simp [visited, hs]

/-! ### sums -/

theorem sum_map_div (l : List Rat) (W : Rat) : (l.map (· / W)).sum = l.sum / W := by
  induction l with
  | nil => simp only [List.map_nil, List.sum_nil]; grind
  | cons x xs ih => simp only [List.map_cons, List.sum_cons, ih]; grind

theorem sum_map_nonneg {α : Type} (l : List α) (f : α → Rat) (h : ∀ a ∈ l, 0 ≤ f a) : 0 ≤ (l.map f).sum := by
  induction l with
  | nil => simp
  | cons x xs ih =>
    simp only [List.map_cons, List.sum_cons]
    have h1 := h x (by simp)
    have h2 := ih (fun a ha => h a (by simp [ha]))
    grind

theorem sum_map_perm {α : Type} (f : α → Rat) {l l' : List α} (h : l.Perm l') : (l.map f).sum = (l'.map f).sum := by
  induction h with
  | nil => rfl
  | cons x _ ih => simp only [List.map_cons, List.sum_cons, ih]
  | swap x y l => simp only [List.map_cons, List.sum_cons]; grind
  | trans _ _ ih1 ih2 => rw [ih1, ih2]

theorem sum_map_mul_left {α : Type} (l : List α) (c : Rat) (f : α → Rat) :
    (l.map (fun a => c * f a)).sum = c * (l.map f).sum := by
  induction l with
  | nil => simp
  | cons x xs ih => simp only [List.map_cons, List.sum_cons, ih]; grind

theorem sum_map_congr {α : Type} (l : List α) (f g : α → Rat) (h : ∀ a ∈ l, f a = g a) :
    (l.map f).sum = (l.map g).sum := by
  induction l with
  | nil => rfl
  | cons x xs ih =>
    simp only [List.map_cons, List.sum_cons]
    rw [h x (by simp), ih (fun a ha => h a (by simp [ha]))]

/-! ### the jump branches -/

theorem mass_jumpBranches (c : Rat) (i : Nat) (pv : List Rat) : mass (jumpBranches c i pv) = c * pv.sum := by
  induction pv generalizing i with
  | nil => simp [jumpBranches, mass]
  | cons p ps ih => simp only [jumpBranches, mass, ih, List.sum_cons]; grind

theorem nonNeg_jumpBranches (c : Rat) (hc : 0 ≤ c) (i : Nat) (pv : List Rat) (h : ∀ p ∈ pv, 0 ≤ p) :
    NonNeg (jumpBranches c i pv) := by
  induction pv generalizing i with
  | nil => trivial
  | cons p ps ih =>
    exact ⟨Rat.mul_nonneg hc (h p (by simp)), ih (i + 1) (fun q hq => h q (by simp [hq]))⟩

/-- expectation over the jump branches when the probability vector and the branch values both come from the
    process list (`v (i + j)` is the value of the branch of the `j`-th process) -/
theorem expect_jumpBranches (c v0 : Rat) (v : Nat → Rat) (f g : Proc → Rat) (ps : List Proc) (i : Nat)
    (hv : ∀ j (h : j < ps.length), f ps[j] ≠ 0 → v (i + j) = g ps[j]) :
    expect (jumpBranches c i (ps.map f)) (branchVal v0 v) = c * (ps.map (fun p => f p * g p)).sum := by
  induction ps generalizing i with
  | nil => simp [jumpBranches, expect]
  | cons p ps ih =>
    simp only [List.map_cons, jumpBranches, expect, branchVal, List.sum_cons]
    have h0 := hv 0 (by simp)
    simp only [Nat.add_zero, List.getElem_cons_zero] at h0
    have ih' := ih (i + 1) (by
      intro j hj hne
      have := hv (j + 1) (by simp; omega) (by simpa using hne)
      simpa [Nat.add_assoc, Nat.add_comm 1 j] using this)
    rw [ih']
    by_cases hf : f p = 0
    · rw [hf]; grind
    · rw [h0 hf]; grind

theorem jumpProb_nonneg (n : Rat) : 0 ≤ jumpProb n := by
  unfold jumpProb; grind

theorem jumpProb_le_one (n : Rat) : jumpProb n ≤ 1 := by
  unfold jumpProb; grind

theorem jumpProb_of_unit (n : Rat) (h0 : 0 ≤ n) (h1 : n ≤ 1) : jumpProb n = 1 - n := by
  unfold jumpProb stochasticFactor; grind

end Yaqs.Lottery

namespace Yaqs.Lottery
open Yaqs Yaqs.Dist

/-! ### closed forms used in the statements of C01 / C03 -/

/-- the slot of process `p` after the sweep: its weight if the sweep reaches it, else the initial `0.0` -/
def slotOf (L : Nat) (dt : Rat) (nrm : Proc → Rat) (n : Rat) (p : Proc) : Rat :=
  if visited L p = true then weightOf dt nrm n p else 0

/-- `dp = float(np.sum(dp_m_list))` -/
def totalW (L : Nat) (procs : List Proc) (dt : Rat) (nrm : Proc → Rat) (n : Rat) : Rat :=
  (procs.map (slotOf L dt nrm n)).sum

/-- `Σ_k dt·γ_k·a_k` over the processes the sweep reaches (`a_k = ⟨L_k ψ̃|O|L_k ψ̃⟩`) -/
def krausSum (L : Nat) (procs : List Proc) (dt : Rat) (a : Proc → Rat) : Rat :=
  (procs.map (fun p => if visited L p = true then dt * p.gamma * a p else 0)).sum

theorem slots_eq_map (L : Nat) (procs : List Proc) (dt : Rat) (nrm : Proc → Rat) (n : Rat) :
    slots L procs dt nrm n = procs.map (slotOf L dt nrm n) := by
  unfold slots
  rw [sweepSlots_eq_map]
  apply List.map_congr_left
  intro p _
  exact slotAfter_full L dt nrm n p

theorem probVector_eq (L : Nat) (procs : List Proc) (dt : Rat) (nrm : Proc → Rat) (n : Rat) :
    probVector L procs dt nrm n =
      if totalW L procs dt nrm n = 0 then none
      else some (procs.map (fun p => slotOf L dt nrm n p / totalW L procs dt nrm n)) := by
  unfold probVector totalW
  simp only [slots_eq_map, List.map_map]
  rfl

theorem visited_length (L : Nat) (p : Proc) (h : visited L p = true) :
    p.sites.length = 1 ∨ p.sites.length = 2 := by
  unfold visited at h
  split at h
  · rename_i s hs; left; simp [hs]
  · rename_i s0 s1 hs; right; simp [hs]
  · exact absurd h (by simp)

/-- with unitary Pauli pairs (`‖L ψ‖² = ‖ψ‖²`) every visited process has weight `dt·γ·‖L ψ‖²` -/
theorem weightOf_eq_of_visited (L : Nat) (dt : Rat) (nrm : Proc → Rat) (n : Rat) (p : Proc)
    (hv : visited L p = true) (hP : p.pauli = true → p.sites.length = 2 → nrm p = n) :
    weightOf dt nrm n p = dt * p.gamma * nrm p := by
  unfold weightOf wOne wTwo
  rcases visited_length L p hv with h1 | h2
  · simp [h1]
  · have : ¬ p.sites.length = 1 := by omega
    simp only [this, if_false]
    by_cases hp : p.pauli = true
    · simp only [hp, if_true]; rw [hP hp h2]
    · simp [hp]

theorem sum_map_div' {α : Type} (l : List α) (k : α → Rat) (W : Rat) :
    (l.map (fun x => k x / W)).sum = (l.map k).sum / W := by
  have := sum_map_div (l.map k) W
  simpa [List.map_map, Function.comp_def] using this

theorem zip_map_self {α β : Type} (l : List α) (f : α → β) : (l.map f).zip l = l.map (fun x => (f x, x)) := by
  induction l with
  | nil => rfl
  | cons x xs ih => simp only [List.map_cons, List.zip_cons_cons, ih]

theorem expect_lottery (n : Rat) (pv : List Rat) (f : Branch → Rat) :
    expect (lottery n pv) f = (1 - jumpProb n) * f Branch.noJump + expect (jumpBranches (jumpProb n) 0 pv) f := by
  simp only [lottery, expect]

theorem mass_lottery (n : Rat) (pv : List Rat) : mass (lottery n pv) = (1 - jumpProb n) + jumpProb n * pv.sum := by
  simp only [lottery, mass, mass_jumpBranches]

end Yaqs.Lottery
