import YaqsModel.Lemmas.ConserveLocal

/-!
`⟨ψ|ψ⟩` in the index model of `Model/Heff.lean`: the network value for the identity MPO (`MPO.identity`: every tensor
`W[o,p,0,0] = δ_{op}`, MPO bonds of dimension 1).  With left-isometric sites on the left and right-isometric sites on the
right (mixed canonical form) the environment blocks are identities and the norm is the plain sum `Σ |A_s|²` of the centre
tensor — resp. `Σ |C|²` of the bond matrix.
-/
namespace Yaqs.Heff

open Finset

section norm
variable {K : Type*} [CommSemiring K]

/-- the tensor of `MPO.identity`: `W[o,p,l,r] = δ_{op}` (MPO bonds of dimension 1) -/
def idOp : ℕ → ℕ → ℕ → ℕ → K := fun o p _ _ => if o = p then 1 else 0

/-- a block that is the identity on the first `n` bond indices (MPO leg 0) -/
def IsIdEnv (n : ℕ) (E : ℕ → ℕ → ℕ → K) : Prop := ∀ i j, i < n → j < n → E i 0 j = if i = j then 1 else 0

theorem isIdEnv_idEnv (n : ℕ) : IsIdEnv n (idEnv : ℕ → ℕ → ℕ → K) := fun _ _ _ _ => rfl

/-- shape of a site of the norm network: ket = bra shapes, identity MPO tensor with bonds of dimension 1 -/
def IdSite (s : Site K) : Prop :=
  s.d.o = s.d.p ∧ s.d.a = s.d.aa ∧ s.d.b = s.d.bb ∧ s.d.l = 1 ∧ s.d.r = 1 ∧ s.W = idOp

/-- `Σ_{p,a} A[p,a,b] · cj(A[p,a,B]) = δ_{bB}` — the columns of `A.reshape(p·a, b)` are orthonormal -/
def LeftIsoIdx (cj : K → K) (s : Site K) : Prop :=
  ∀ b B, b < s.d.b → B < s.d.b →
    ∑ p ∈ range s.d.p, ∑ a ∈ range s.d.a, s.ket p a b * cj (s.ket p a B) = if b = B then 1 else 0

/-- `Σ_{p,b} A[p,a,b] · cj(A[p,A',b]) = δ_{aA'}` — the rows of `A.transpose(1,0,2).reshape(a, p·b)` are orthonormal -/
def RightIsoIdx (cj : K → K) (s : Site K) : Prop :=
  ∀ a A', a < s.d.a → A' < s.d.a →
    ∑ p ∈ range s.d.p, ∑ b ∈ range s.d.b, s.ket p a b * cj (s.ket p A' b) = if a = A' then 1 else 0

theorem sum_delta_left (n : ℕ) (f : ℕ → K) (i : ℕ) (hi : i < n) :
    ∑ j ∈ range n, (if i = j then 1 else 0) * f j = f i := by
  rw [Finset.sum_eq_single i]
  · simp
  · intro j _ hj; simp [Ne.symm hj]
  · intro h; exact absurd (Finset.mem_range.mpr hi) h

theorem sum_delta_left' (n : ℕ) (f : ℕ → K) (i : ℕ) (hi : i < n) :
    ∑ j ∈ range n, (if j = i then 1 else 0) * f j = f i := by
  rw [Finset.sum_eq_single i]
  · simp
  · intro j _ hj; simp [hj]
  · intro h; exact absurd (Finset.mem_range.mpr hi) h

theorem sum_delta_right (n : ℕ) (f : ℕ → K) (i : ℕ) (hi : i < n) :
    ∑ j ∈ range n, f j * (if j = i then 1 else 0) = f i := by
  rw [Finset.sum_eq_single i]
  · simp
  · intro j _ hj; simp [hj]
  · intro h; exact absurd (Finset.mem_range.mpr hi) h

/-- absorbing a site with the identity MPO into an identity left block gives the Gram matrix of the site's columns -/
theorem updateLeft_idOp (cj : K → K) (d : SiteDims) (hop : d.o = d.p) (ha : d.a = d.aa) (hl : d.l = 1)
    (L : ℕ → ℕ → ℕ → K) (hL : IsIdEnv d.a L) (ket bra : ℕ → ℕ → ℕ → K) (b B : ℕ) :
    updateLeft cj d L idOp ket bra b 0 B = ∑ p ∈ range d.p, ∑ a ∈ range d.a, ket p a b * cj (bra p a B) := by
  unfold updateLeft
  simp only [sumTo_eq_sum, hl, Finset.range_one, Finset.sum_singleton]
  refine Finset.sum_congr rfl fun p hp => Finset.sum_congr rfl fun a ha' => ?_
  congr 1
  have e1 : ∀ o, ∑ A' ∈ range d.aa, L a 0 A' * cj (bra o A' B) = cj (bra o a B) := by
    intro o
    rw [← ha]
    rw [Finset.sum_congr rfl (fun A' hA' => by rw [hL a A' (Finset.mem_range.mp ha') (Finset.mem_range.mp hA')])]
    exact sum_delta_left d.a (fun A' => cj (bra o A' B)) a (Finset.mem_range.mp ha')
  simp only [e1, idOp]
  rw [hop]
  exact sum_delta_left' d.p (fun o => cj (bra o a B)) p (Finset.mem_range.mp hp)

/-- the mirror image for the right block -/
theorem updateRight_idOp (cj : K → K) (d : SiteDims) (hop : d.o = d.p) (hb : d.b = d.bb) (hr : d.r = 1)
    (R : ℕ → ℕ → ℕ → K) (hR : IsIdEnv d.b R) (ket bra : ℕ → ℕ → ℕ → K) (a A' : ℕ) :
    updateRight cj d R idOp ket bra a 0 A' = ∑ p ∈ range d.p, ∑ b ∈ range d.b, ket p a b * cj (bra p A' b) := by
  unfold updateRight
  simp only [sumTo_eq_sum, hr, Finset.range_one, Finset.sum_singleton]
  -- Σ_o Σ_B (Σ_p idOp o p * Σ_b ket p a b * R b 0 B) * cj (bra o A' B)
  have e1 : ∀ p B, B < d.bb → ∑ b ∈ range d.b, ket p a b * R b 0 B = ket p a B := by
    intro p B hB
    rw [← hb] at hB
    rw [Finset.sum_congr rfl (fun b hb' => by rw [hR b B (Finset.mem_range.mp hb') hB])]
    exact sum_delta_right d.b (fun b => ket p a b) B hB
  have e2 : ∀ o B, o < d.o → B < d.bb →
      (∑ p ∈ range d.p, idOp o p 0 0 * ∑ b ∈ range d.b, ket p a b * R b 0 B) = ket o a B := by
    intro o B ho hB
    rw [Finset.sum_congr rfl (fun p _ => by rw [e1 p B hB])]
    rw [hop] at ho
    exact sum_delta_left d.p (fun p => ket p a B) o ho
  rw [Finset.sum_congr rfl (fun o ho => Finset.sum_congr rfl (fun B hB => by
    rw [e2 o B (Finset.mem_range.mp ho) (Finset.mem_range.mp hB)]))]
  rw [hop, hb]

/-- with identity blocks on both sides the identity-MPO projector is the identity map on the site tensor -/
theorem projectSite_idOp (d : SiteDims) (hop : d.o = d.p) (ha : d.a = d.aa) (hb : d.b = d.bb) (hl : d.l = 1)
    (hr : d.r = 1) (L R : ℕ → ℕ → ℕ → K) (hL : IsIdEnv d.a L) (hR : IsIdEnv d.b R) (A : ℕ → ℕ → ℕ → K)
    (o A' B : ℕ) (ho : o < d.o) (hA : A' < d.aa) (hB : B < d.bb) :
    projectSite d L R idOp A o A' B = A o A' B := by
  unfold projectSite
  simp only [sumTo_eq_sum, hl, hr, Finset.range_one, Finset.sum_singleton]
  have hB' : B < d.b := hb ▸ hB
  have hA' : A' < d.a := ha ▸ hA
  have ho' : o < d.p := hop ▸ ho
  have e1 : ∀ p a, ∑ b ∈ range d.b, A p a b * R b 0 B = A p a B := by
    intro p a
    rw [Finset.sum_congr rfl (fun b hb' => by rw [hR b B (Finset.mem_range.mp hb') hB'])]
    exact sum_delta_right d.b (fun b => A p a b) B hB'
  have e2 : ∀ a, (∑ p ∈ range d.p, idOp o p 0 0 * ∑ b ∈ range d.b, A p a b * R b 0 B) = A o a B := by
    intro a
    rw [Finset.sum_congr rfl (fun p _ => by rw [e1 p a])]
    exact sum_delta_left d.p (fun p => A p a B) o ho'
  rw [Finset.sum_congr rfl (fun a ha' => by rw [e2 a, hL a A' (Finset.mem_range.mp ha') hA'])]
  exact sum_delta_right d.a (fun a => A o a B) A' hA'

/-- with identity blocks on both sides the zero-site projector is the identity map on the bond matrix -/
theorem projectBond_id (e : BondDims) (hm : e.m = 1) (hu : e.u = e.pp) (hv : e.v = e.w)
    (L R : ℕ → ℕ → ℕ → K) (hL : IsIdEnv e.u L) (hR : IsIdEnv e.v R) (C : ℕ → ℕ → K)
    (p w : ℕ) (hp : p < e.pp) (hw : w < e.w) :
    projectBond e L R C p w = C p w := by
  unfold projectBond
  simp only [sumTo_eq_sum, hm, Finset.range_one, Finset.sum_singleton]
  have hp' : p < e.u := hu ▸ hp
  have hw' : w < e.v := hv ▸ hw
  have e1 : ∀ u, ∑ v ∈ range e.v, C u v * R v 0 w = C u w := by
    intro u
    rw [Finset.sum_congr rfl (fun v hv' => by rw [hR v w (Finset.mem_range.mp hv') hw'])]
    exact sum_delta_right e.v (fun v => C u v) w hw'
  rw [Finset.sum_congr rfl (fun u hu' => by rw [e1 u, hL u p (Finset.mem_range.mp hu') hp'])]
  rw [Finset.sum_congr rfl (fun u _ => by rw [mul_comm])]
  exact sum_delta_right e.u (fun u => C u w) p hp'

/-- left-canonical part of a norm chain: incoming bond dimension `n`, every site an identity-MPO site with orthonormal
    columns, consecutive dimensions match -/
def LeftCanon (cj : K → K) : ℕ → List (Site K) → Prop
  | _, [] => True
  | n, s :: ss => s.d.a = n ∧ IdSite s ∧ LeftIsoIdx cj s ∧ LeftCanon cj s.d.b ss

/-- bond dimension to the right of a left part -/
def outDim : ℕ → List (Site K) → ℕ
  | n, [] => n
  | _, s :: ss => outDim s.d.b ss

/-- right-canonical part of a norm chain, `n` the bond dimension at its right end -/
def RightCanon (cj : K → K) (n : ℕ) : List (Site K) → Prop
  | [] => True
  | s :: ss => s.d.b = inDim n ss ∧ IdSite s ∧ RightIsoIdx cj s ∧ RightCanon cj n ss
where
  /-- bond dimension to the left of a right part -/
  inDim (n : ℕ) : List (Site K) → ℕ
    | [] => n
    | s :: _ => s.d.a

omit [CommSemiring K] in
theorem outDim_append_singleton (n : ℕ) (ls : List (Site K)) (t : Site K) : outDim n (ls ++ [t]) = t.d.b := by
  induction ls generalizing n with
  | nil => rfl
  | cons s ss ih => exact ih s.d.b

theorem leftEnvChain_isId (cj : K → K) (n : ℕ) (ls : List (Site K)) (h : LeftCanon cj n ls)
    (L0 : ℕ → ℕ → ℕ → K) (h0 : IsIdEnv n L0) : IsIdEnv (outDim n ls) (leftEnvChain cj L0 ls) := by
  induction ls generalizing n L0 with
  | nil => exact h0
  | cons s ss ih =>
    obtain ⟨hn, ⟨hop, ha, _, hl, _, hW⟩, hiso, hss⟩ := h
    refine ih s.d.b hss _ ?_
    intro b B hb hB
    rw [hW, updateLeft_idOp cj s.d hop ha hl L0 (hn ▸ h0)]
    exact hiso b B hb hB

theorem rightEnvChain_isId (cj : K → K) (n : ℕ) (rs : List (Site K)) (h : RightCanon cj n rs)
    (R0 : ℕ → ℕ → ℕ → K) (h0 : IsIdEnv n R0) :
    IsIdEnv (RightCanon.inDim n rs) (rightEnvChain cj R0 rs) := by
  induction rs with
  | nil => exact h0
  | cons s ss ih =>
    obtain ⟨hn, ⟨hop, _, hb, _, hr, hW⟩, hiso, hss⟩ := h
    have hR := ih hss
    intro a A' ha hA
    simp only [rightEnvChain]
    rw [hW, updateRight_idOp cj s.d hop hb hr _ (hn ▸ hR)]
    exact hiso a A' ha hA

end norm

end Yaqs.Heff
