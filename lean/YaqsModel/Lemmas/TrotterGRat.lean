import YaqsModel.Model.Trotter
import Mathlib.Algebra.Ring.Defs
import Mathlib.Algebra.Order.Ring.Rat
import Mathlib.Tactic.Ring

/-! The Gaussian rationals used by the driver form a commutative ring with exactly the operations of the model file,
    so the theorems stated over an arbitrary commutative semiring apply to what the driver computes. -/
namespace Yaqs.Trotter.GRat

@[ext] theorem ext {a b : GRat} (h1 : a.re = b.re) (h2 : a.im = b.im) : a = b := by
  cases a; cases b; simp_all

@[simp] theorem add_re (a b : GRat) : (a + b).re = a.re + b.re := rfl
@[simp] theorem add_im (a b : GRat) : (a + b).im = a.im + b.im := rfl
@[simp] theorem mul_re (a b : GRat) : (a * b).re = a.re * b.re - a.im * b.im := rfl
@[simp] theorem mul_im (a b : GRat) : (a * b).im = a.re * b.im + a.im * b.re := rfl
@[simp] theorem neg_re (a : GRat) : (-a).re = -a.re := rfl
@[simp] theorem neg_im (a : GRat) : (-a).im = -a.im := rfl
@[simp] theorem zero_re : (0 : GRat).re = 0 := rfl
@[simp] theorem zero_im : (0 : GRat).im = 0 := rfl
@[simp] theorem one_re : (1 : GRat).re = 1 := rfl
@[simp] theorem one_im : (1 : GRat).im = 0 := rfl

instance : CommRing GRat where
  add := (· + ·)
  zero := 0
  neg := Neg.neg
  mul := (· * ·)
  one := 1
  nsmul := nsmulRec
  zsmul := zsmulRec
  add_assoc a b c := by ext <;> simp <;> ring
  zero_add a := by ext <;> simp
  add_zero a := by ext <;> simp
  add_comm a b := by ext <;> simp <;> ring
  neg_add_cancel a := by ext <;> simp
  left_distrib a b c := by ext <;> simp <;> ring
  right_distrib a b c := by ext <;> simp <;> ring
  zero_mul a := by ext <;> simp
  mul_zero a := by ext <;> simp
  mul_assoc a b c := by ext <;> simp <;> ring
  one_mul a := by ext <;> simp
  mul_one a := by ext <;> simp
  mul_comm a b := by ext <;> simp <;> ring

end Yaqs.Trotter.GRat
