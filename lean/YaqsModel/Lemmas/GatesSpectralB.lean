import YaqsModel.Lemmas.Gates

/-! spectral form of the generator pairs: complementary orthogonal idempotents and eigen-decomposition  (one lemma per gate; assembled into the property theorems in `Props/C18.lean`) -/
namespace Yaqs.Gates
open Matrix

variable {K : Type} [CommRing K]
set_option linter.unusedVariables false
set_option linter.unusedSectionVars false
theorem proj_rxx_sum (hf : K) (hhf : 2 * hf = 1) : toM (GG.rxx.proj hf).1 + toM (GG.rxx.proj hf).2 = 1 := by gate_entries

theorem proj_rxx_pp (hf : K) (hhf : 2 * hf = 1) : toM (GG.rxx.proj hf).1 * toM (GG.rxx.proj hf).1 = toM (GG.rxx.proj hf).1 := by gate_entries

theorem proj_rxx_qq (hf : K) (hhf : 2 * hf = 1) : toM (GG.rxx.proj hf).2 * toM (GG.rxx.proj hf).2 = toM (GG.rxx.proj hf).2 := by gate_entries

theorem proj_rxx_pq (hf : K) (hhf : 2 * hf = 1) : toM (GG.rxx.proj hf).1 * toM (GG.rxx.proj hf).2 = 0 := by gate_entries

theorem proj_rxx_qp (hf : K) (hhf : 2 * hf = 1) : toM (GG.rxx.proj hf).2 * toM (GG.rxx.proj hf).1 = 0 := by gate_entries

theorem eig_rxx (i hf lam : K) (hi : i * i = -1) (hhf : 2 * hf = 1) : (GG.rxx.eig lam).1 • toM (GG.rxx.proj hf).1 + (GG.rxx.eig lam).2 • toM (GG.rxx.proj hf).2 = toM (genKron (GG.rxx.generator i lam)) := by gate_entries

theorem proj_ryy_sum (hf : K) (hhf : 2 * hf = 1) : toM (GG.ryy.proj hf).1 + toM (GG.ryy.proj hf).2 = 1 := by gate_entries

theorem proj_ryy_pp (hf : K) (hhf : 2 * hf = 1) : toM (GG.ryy.proj hf).1 * toM (GG.ryy.proj hf).1 = toM (GG.ryy.proj hf).1 := by gate_entries

theorem proj_ryy_qq (hf : K) (hhf : 2 * hf = 1) : toM (GG.ryy.proj hf).2 * toM (GG.ryy.proj hf).2 = toM (GG.ryy.proj hf).2 := by gate_entries

theorem proj_ryy_pq (hf : K) (hhf : 2 * hf = 1) : toM (GG.ryy.proj hf).1 * toM (GG.ryy.proj hf).2 = 0 := by gate_entries

theorem proj_ryy_qp (hf : K) (hhf : 2 * hf = 1) : toM (GG.ryy.proj hf).2 * toM (GG.ryy.proj hf).1 = 0 := by gate_entries

theorem eig_ryy (i hf lam : K) (hi : i * i = -1) (hhf : 2 * hf = 1) : (GG.ryy.eig lam).1 • toM (GG.ryy.proj hf).1 + (GG.ryy.eig lam).2 • toM (GG.ryy.proj hf).2 = toM (genKron (GG.ryy.generator i lam)) := by gate_entries

theorem proj_rzz_sum (hf : K) (hhf : 2 * hf = 1) : toM (GG.rzz.proj hf).1 + toM (GG.rzz.proj hf).2 = 1 := by gate_entries

theorem proj_rzz_pp (hf : K) (hhf : 2 * hf = 1) : toM (GG.rzz.proj hf).1 * toM (GG.rzz.proj hf).1 = toM (GG.rzz.proj hf).1 := by gate_entries

theorem proj_rzz_qq (hf : K) (hhf : 2 * hf = 1) : toM (GG.rzz.proj hf).2 * toM (GG.rzz.proj hf).2 = toM (GG.rzz.proj hf).2 := by gate_entries

theorem proj_rzz_pq (hf : K) (hhf : 2 * hf = 1) : toM (GG.rzz.proj hf).1 * toM (GG.rzz.proj hf).2 = 0 := by gate_entries

theorem proj_rzz_qp (hf : K) (hhf : 2 * hf = 1) : toM (GG.rzz.proj hf).2 * toM (GG.rzz.proj hf).1 = 0 := by gate_entries

theorem eig_rzz (i hf lam : K) (hi : i * i = -1) (hhf : 2 * hf = 1) : (GG.rzz.eig lam).1 • toM (GG.rzz.proj hf).1 + (GG.rzz.eig lam).2 • toM (GG.rzz.proj hf).2 = toM (genKron (GG.rzz.generator i lam)) := by gate_entries

end Yaqs.Gates
