import Mathlib.LinearAlgebra.Matrix.ConjTranspose
import Mathlib.Algebra.Star.Pi
import Mathlib.Algebra.Field.Basic
import Mathlib.Tactic.Ring
import Mathlib.Tactic.Abel

/-! the Lanczos iteration of `expm_krylov` in exact arithmetic, Hermitian operator, normalised vectors, plain
    three-term recurrence (the code does **not** re-orthogonalise): the vectors are orthonormal and `Vᴴ A V` is the real
    symmetric tridiagonal matrix of the `alpha`s and `beta`s.  Helper lemmas for `Props/C19.lean` (x19 extension). -/
namespace Yaqs.Krylov

open Matrix

section
variable {n K : Type*} [Fintype n] [Field K] [StarRing K]

/-- `np.vdot(x, y) = Σ conj(x_i) y_i` -/
def ip (x y : n → K) : K := star x ⬝ᵥ y

theorem ip_conj (x y : n → K) : ip x y = star (ip y x) := star_dotProduct x y

theorem ip_herm (A : Matrix n n K) (hA : Aᴴ = A) (x y : n → K) : ip x (A *ᵥ y) = ip (A *ᵥ x) y := by
  unfold ip
  rw [dotProduct_mulVec, star_mulVec, hA]

theorem ip_zero_left (y : n → K) : ip 0 y = 0 := by unfold ip; simp

theorem ip_add_right (x y z : n → K) : ip x (y + z) = ip x y + ip x z := by unfold ip; rw [dotProduct_add]

theorem ip_sub_right (x y z : n → K) : ip x (y - z) = ip x y - ip x z := by unfold ip; rw [dotProduct_sub]

theorem ip_smul_right (c : K) (x y : n → K) : ip x (c • y) = c * ip x y := by
  unfold ip; rw [dotProduct_smul, smul_eq_mul]

theorem ip_add_left (x y z : n → K) : ip (x + y) z = ip x z + ip y z := by
  unfold ip; rw [star_add, add_dotProduct]

theorem ip_smul_left (c : K) (x y : n → K) : ip (c • x) y = star c * ip x y := by
  unfold ip
  have : star (c • x) = star c • star x := by funext i; simp
  rw [this, smul_dotProduct, smul_eq_mul]

/-- three-term recurrence with the convention `w 0 = 0` (`w (j+1)` is the `j`-th Lanczos vector `v_j`), `a j = alpha[j]`,
    `c j = beta[j]`, `b j = beta[j-1]` -/
theorem lanczosH_orth_aux (A : Matrix n n K) (hA : Aᴴ = A) (w : ℕ → n → K) (a b c : ℕ → K) (m : ℕ)
    (hw0 : w 0 = 0)
    (hrec : ∀ j, j + 1 < m → c j • w (j + 2) = A *ᵥ w (j + 1) - a j • w (j + 1) - b j • w j)
    (hra : ∀ j, star (a j) = a j) (hrb : ∀ j, star (b j) = b j) (hbc : ∀ j, b (j + 1) = c j)
    (ha : ∀ j, j < m → a j = ip (w (j + 1)) (A *ᵥ w (j + 1)))
    (hn : ∀ j, j < m → ip (w (j + 1)) (w (j + 1)) = 1)
    (hc : ∀ j, j + 1 < m → c j ≠ 0) :
    ∀ k, k ≤ m → ∀ i j, i < j → j ≤ k → ip (w i) (w j) = 0 := by
  intro k
  induction k with
  | zero => intro _ i j hij hj; omega
  | succ k ih =>
    intro hk i j hij hj
    have Q := ih (by omega)
    by_cases hjk : j ≤ k
    · exact Q i j hij hjk
    have hj' : j = k + 1 := by omega
    subst hj'
    rcases Nat.eq_zero_or_pos i with hi0 | hipos
    · rw [hi0, hw0, ip_zero_left]
    -- k ≥ 1 since 1 ≤ i ≤ k
    obtain ⟨j0, rfl⟩ : ∃ j0, k = j0 + 1 := ⟨k - 1, by omega⟩
    have hcj : c j0 ≠ 0 := hc j0 (by omega)
    have hr := hrec j0 (by omega)
    -- it suffices to show `c j0 * ⟨w i, w (j0+2)⟩ = 0`
    have key : c j0 * ip (w i) (w (j0 + 2)) = 0 := by
      rw [← ip_smul_right, hr, ip_sub_right, ip_sub_right, ip_smul_right, ip_smul_right]
      by_cases hik : i = j0 + 1
      · -- i = k
        subst hik
        rw [← ha j0 (by omega), hn j0 (by omega), ip_conj (w (j0 + 1)) (w j0), Q j0 (j0 + 1) (by omega) (le_refl _)]
        simp
      · have hilt : i < j0 + 1 := by omega
        obtain ⟨i0, rfl⟩ : ∃ i0, i = i0 + 1 := ⟨i - 1, by omega⟩
        -- expand `A w_i` by the recurrence at `i0`
        have hri := hrec i0 (by omega)
        have hAw : A *ᵥ w (i0 + 1) = c i0 • w (i0 + 2) + a i0 • w (i0 + 1) + b i0 • w i0 := by
          rw [hri]; abel
        have hcr : star (c i0) = c i0 := by rw [← hbc i0]; exact hrb _
        rw [ip_herm A hA, hAw, ip_add_left, ip_add_left, ip_smul_left, ip_smul_left, ip_smul_left, hcr, hra, hrb,
          Q (i0 + 1) (j0 + 1) hilt (le_refl _), Q i0 (j0 + 1) (by omega) (le_refl _)]
        by_cases hi2 : i0 + 2 = j0 + 1
        · -- i = k - 1
          have hi0 : i0 = j0 - 1 := by omega
          obtain ⟨j1, rfl⟩ : ∃ j1, j0 = j1 + 1 := ⟨j0 - 1, by omega⟩
          have : i0 = j1 := by omega
          subst this
          rw [hn (i0 + 1) (by omega), hn i0 (by omega), hbc i0]
          ring
        · rw [Q (i0 + 2) (j0 + 1) (by omega) (le_refl _), Q (i0 + 1) j0 (by omega) (by omega)]
          ring
    rcases mul_eq_zero.mp key with h | h
    · exact absurd h hcj
    · exact h

/-- `shiftV v 0 = 0` plays the role of `v_{-1} = 0`, `shiftV v (j+1) = v j` -/
def shiftV (v : ℕ → n → K) : ℕ → n → K
  | 0 => 0
  | j + 1 => v j

/-- `shiftB β 0 = 0`, `shiftB β (j+1) = β j` (the `beta[j-1]` of iteration `j`) -/
def shiftB (β : ℕ → K) : ℕ → K
  | 0 => 0
  | j + 1 => β j

/-- the tridiagonal matrix `eigh_tridiagonal(alpha, beta)` diagonalises: `alpha` on the diagonal, `beta` next to it -/
def tri (α β : ℕ → K) (i j : ℕ) : K :=
  if i = j then α i else if i + 1 = j then β i else if j + 1 = i then β j else 0

/-- one run of the Lanczos loop of `expm_krylov` that produced `m` vectors `v 0 … v (m-1)` (exact arithmetic):
    `alpha[j] = ⟨v_j, A v_j⟩` (the code takes the real part; for Hermitian `A` the number is real), `w = A v_j − alpha[j] v_j −
    beta[j-1] v_{j-1}`, `beta[j] = ‖w‖ ≠ 0`, `v_{j+1} = w / beta[j]` — so `beta[j] • v_{j+1} = w` and `⟨v_{j+1}, v_{j+1}⟩ = 1` -/
structure LanczosRun (A : Matrix n n K) (v : ℕ → n → K) (α β : ℕ → K) (m : ℕ) : Prop where
  first : 1 < m → β 0 • v 1 = A *ᵥ v 0 - α 0 • v 0
  step : ∀ j, j + 2 < m → β (j + 1) • v (j + 2) = A *ᵥ v (j + 1) - α (j + 1) • v (j + 1) - β j • v j
  alpha : ∀ j, j < m → α j = ip (v j) (A *ᵥ v j)
  unit : ∀ j, j < m → ip (v j) (v j) = 1
  nobreak : ∀ j, j + 1 < m → β j ≠ 0
  alpha_real : ∀ j, star (α j) = α j
  beta_real : ∀ j, star (β j) = β j

theorem lanczosH_orth (A : Matrix n n K) (hA : Aᴴ = A) (v : ℕ → n → K) (α β : ℕ → K) (m : ℕ)
    (h : LanczosRun A v α β m) : ∀ i j, i < j → j < m → ip (v i) (v j) = 0 := by
  intro i j hij hj
  have key := lanczosH_orth_aux A hA (shiftV v) α (shiftB β) β m rfl ?_ h.alpha_real ?_ (fun _ => rfl) ?_ ?_
    h.nobreak m (le_refl _) (i + 1) (j + 1) (by omega) (by omega)
  · exact key
  · intro j hj
    cases j with
    | zero => simp only [shiftV, shiftB]; rw [h.first (by omega)]; simp
    | succ j => simp only [shiftV, shiftB]; exact h.step j (by omega)
  · intro j
    cases j with
    | zero => simp [shiftB]
    | succ j => exact h.beta_real j
  · intro j hj; exact h.alpha j hj
  · intro j hj; exact h.unit j hj

theorem lanczosH_orthonormal (A : Matrix n n K) (hA : Aᴴ = A) (v : ℕ → n → K) (α β : ℕ → K) (m : ℕ)
    (h : LanczosRun A v α β m) : ∀ i j, i < m → j < m → ip (v i) (v j) = if i = j then 1 else 0 := by
  intro i j hi hj
  by_cases hij : i = j
  · subst hij; rw [if_pos rfl]; exact h.unit i hi
  · rw [if_neg hij]
    rcases Nat.lt_or_gt_of_ne hij with hlt | hgt
    · exact lanczosH_orth A hA v α β m h i j hlt hj
    · rw [ip_conj, lanczosH_orth A hA v α β m h j i hgt hi, star_zero]

/-- `A v_j` expanded by the recurrence (`j + 1 < m`) -/
theorem lanczosH_Av (A : Matrix n n K) (v : ℕ → n → K) (α β : ℕ → K) (m : ℕ) (h : LanczosRun A v α β m)
    (j : ℕ) (hj : j + 1 < m) :
    A *ᵥ v j = β j • v (j + 1) + α j • v j + shiftB β j • shiftV v j := by
  cases j with
  | zero => rw [h.first (by omega)]; simp [shiftV, shiftB]
  | succ j => rw [h.step j (by omega)]; simp only [shiftV, shiftB]; abel

omit [StarRing K] in
theorem tri_symm (α β : ℕ → K) (i j : ℕ) : tri α β i j = tri α β j i := by
  unfold tri
  by_cases h : i = j
  · subst h; rfl
  · have h' : ¬ j = i := fun e => h e.symm
    rw [if_neg h, if_neg h']
    by_cases h1 : i + 1 = j
    · have h2 : ¬ j + 1 = i := by omega
      rw [if_pos h1, if_neg h2, if_pos h1]
    · rw [if_neg h1]
      by_cases h2 : j + 1 = i
      · rw [if_pos h2, if_pos h2]
      · rw [if_neg h2, if_neg h2, if_neg h1]

theorem tri_real (α β : ℕ → K) (hα : ∀ j, star (α j) = α j) (hβ : ∀ j, star (β j) = β j) (i j : ℕ) :
    star (tri α β i j) = tri α β i j := by
  unfold tri
  split_ifs <;> simp [hα, hβ]

/-- column `j` of `Vᴴ A V` for `j + 1 < m` -/
theorem lanczosH_col (A : Matrix n n K) (hA : Aᴴ = A) (v : ℕ → n → K) (α β : ℕ → K) (m : ℕ)
    (h : LanczosRun A v α β m) (i j : ℕ) (hi : i < m) (hj : j + 1 < m) :
    ip (v i) (A *ᵥ v j) = tri α β i j := by
  have on := lanczosH_orthonormal A hA v α β m h
  rw [lanczosH_Av A v α β m h j hj, ip_add_right, ip_add_right, ip_smul_right, ip_smul_right, ip_smul_right,
    on i (j + 1) hi hj, on i j hi (by omega)]
  unfold tri
  cases j with
  | zero =>
    simp only [shiftB, zero_mul, add_zero]
    by_cases h0 : i = 0
    · subst h0; simp
    · by_cases h1 : i = 1
      · subst h1; simp
      · have : ¬ i = 0 + 1 := by omega
        have h2 : ¬ 0 + 1 = i := by omega
        simp [h0, this, h2]
  | succ j =>
    simp only [shiftB, shiftV]
    rw [on i j hi (by omega)]
    have hcases : i = j ∨ i = j + 1 ∨ i = j + 1 + 1 ∨ (i ≠ j ∧ i ≠ j + 1 ∧ i ≠ j + 1 + 1) := by omega
    rcases hcases with h0 | h0 | h0 | ⟨h0, h1, h2⟩
    · subst h0
      simp [show ¬ i = i + 1 + 1 by omega]
    · subst h0
      simp
    · subst h0
      simp [show ¬ j + 1 + 1 = j by omega]
    · simp [h0, h1, h2, show ¬ j + 1 + 1 = i by omega]

theorem lanczosH_tri (A : Matrix n n K) (hA : Aᴴ = A) (v : ℕ → n → K) (α β : ℕ → K) (m : ℕ)
    (h : LanczosRun A v α β m) (i j : ℕ) (hi : i < m) (hj : j < m) :
    ip (v i) (A *ᵥ v j) = tri α β i j := by
  by_cases hj1 : j + 1 < m
  · exact lanczosH_col A hA v α β m h i j hi hj1
  · by_cases hij : i = j
    · subst hij; rw [← h.alpha i hi]; simp [tri]
    · have hi1 : i + 1 < m := by omega
      rw [ip_herm A hA, ip_conj, lanczosH_col A hA v α β m h j i hj hi1,
        tri_real α β h.alpha_real h.beta_real, tri_symm]

end

end Yaqs.Krylov
