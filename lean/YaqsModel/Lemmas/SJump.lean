import YaqsModel.Model.SJump
import Mathlib.Tactic.Linarith
import Mathlib.Tactic.Ring
import Mathlib.Tactic.NormNum
import Mathlib.Algebra.Order.Ring.Rat
import Mathlib.Data.Nat.Cast.Order.Ring

/-! helper lemmas for the scheduled-jump matching rule -/
namespace Yaqs.SJump

theorem absQ_le_iff (x b : Rat) : absQ x ≤ b ↔ -b ≤ x ∧ x ≤ b := by
  unfold absQ
  split
  · constructor
    · intro h; constructor <;> linarith
    · intro h; linarith [h.1]
  · constructor
    · intro h; constructor <;> linarith
    · intro h; exact h.2

theorem absQ_nonneg (x : Rat) : 0 ≤ absQ x := by
  unfold absQ; split <;> linarith

theorem jmatch_iff (tj t dt : Rat) :
    jmatch tj t dt = true ↔ -(dt / 1000) ≤ tj - t ∧ tj - t ≤ dt / 1000 := by
  unfold jmatch isclose
  rw [decide_eq_true_iff, absQ_le_iff]
  constructor <;> intro h <;> constructor <;> linarith [h.1, h.2]

theorem jmatchOld_iff (tj t dt : Rat) :
    jmatchOld tj t dt = true ↔
      -(dt / 1000 + absQ t / 100000) ≤ tj - t ∧ tj - t ≤ dt / 1000 + absQ t / 100000 := by
  unfold jmatchOld isclose
  rw [decide_eq_true_iff, absQ_le_iff]
  constructor <;> intro h <;> constructor <;> linarith [h.1, h.2]

/-- two different grid indices are at least one step apart -/
theorem grid_gap (dt : Rat) (hdt : 0 < dt) (m k : Nat) (h : k < m) :
    dt ≤ gridTime dt m - gridTime dt k := by
  unfold gridTime
  have h1 : (k : Rat) + 1 ≤ (m : Rat) := by exact_mod_cast h
  have : 0 ≤ ((m : Rat) - k - 1) * dt := mul_nonneg (by linarith) (le_of_lt hdt)
  nlinarith

end Yaqs.SJump
