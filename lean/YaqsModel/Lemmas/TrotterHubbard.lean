import YaqsModel.Lemmas.TrotterHubbardGates
import Mathlib.Tactic.FieldSimp

/-!
# Lemmas.TrotterHubbard — one sub-step of the Fermi–Hubbard circuits as a product formula (xh07 extension of C07)

* `hop_block`                      `add_hopping_term`'s gate list multiplies to `exp(-iα/2 XZ…ZX)·exp(-iα/2 YZ…ZY)`
* `circMat_listGens`               a list of phase gates and Pauli rotations multiplies to the product of its generators' gates
* `fh1d_substep_matrix`, `fh2d_substep_matrix`   the matrices of the two sub-steps are `stepUnitary` of `fh1dGens` / `fh2dGens`
* `fh1dGens_structure`, `fh2dGens_structure`     those generator lists are the palindromic second-order arrangement
                                   `½ chem, ½ onsite, hop, ½ onsite, ½ chem` of the Jordan–Wigner terms, scaled by `dt/n`
* `secondOrderGens_*`              scaling in the step and the sum of the generators of such an arrangement
* `secondOrder_consistent`, `secondOrder_converges`   derivative at 0 and the `1/N` bound for every such arrangement
* `cF`, `numF`, `hopF`, `jw_car`, `jw_number`, `jw_hopping`   Jordan–Wigner modes, their anticommutation relations and images
* `hubbardJW`, `hubbardTerms_jw`, `hubbard1d_jw`, `hubbard2d_jw`   the Pauli term lists are the Jordan–Wigner image of the Hamiltonian
* `fh1d_bonds_perm`, `fh2d_bonds_perm`             the hopping loops cover all nearest-neighbour bonds once
* `fh1d_consistent`, `fh2d_consistent`, `fh1d_converges`, `fh2d_converges`   the two builders
* `mergeGens_spec`                 the merged coefficient table the driver prints is the same operator
-/
namespace Yaqs.Trotter

open Matrix NormedSpace Yaqs.TrotterLimit

noncomputable section

/-! ### the hopping block -/

theorem addLongRange_lriList (i j : Nat) (isX : Bool) (α : Rat) (h : i < j) :
    addLongRange [] i j (some isX) α = .ok (lriList i j isX α) := by
  have hn : ¬ i ≥ j := by omega
  unfold addLongRange lriList
  simp only [hn, if_false, foldl_ladder, List.nil_append]

theorem hopGates_eq (i j : Nat) (α : Rat) (h : i < j) :
    hopGates i j α = lriList i j true α ++ lriList i j false α := by
  unfold hopGates addHopping
  rw [addLongRange_lriList i j true α h, addLongRange_lriList i j false α h]
  simp

/-- **the hopping block** `add_hopping_term(circ, i, j, α)` appends has the unitary
    `exp(-i α/2 X_i Z⋯Z X_j) · exp(-i α/2 Y_i Z⋯Z Y_j)` (list order), `exp(-i α/2 Y…Y) · exp(-i α/2 X…X)` in operator order -/
theorem hop_block (L i j : Nat) (α : Rat) (hij : i < j) (hj : j < L) :
    circMat L (hopGates i j α) = stepUnitary L (hopGens L i j α) ∧
    circMat L (hopGates i j α).reverse = stepUnitary L (hopGens L i j α).reverse := by
  rw [hopGates_eq i j α hij]
  have hx := lri_block_unitary L i j true α hij hj
  have hy := lri_block_unitary L i j false α hij hj
  simp only [if_true, Bool.false_eq_true, if_false] at hx hy
  constructor
  · rw [circMat_append, hx.1, hy.1]
    simp [stepUnitary, hopGens]
  · rw [List.reverse_append, circMat_append, hx.2, hy.2]
    simp [stepUnitary, hopGens]

/-! ### gate lists of phase gates and rotations -/

theorem listGens_nil (L : Nat) : listGens L [] = [] := rfl
theorem listGens_cons (L : Nat) (g : Gate) (gs : List Gate) : listGens L (g :: gs) = gateGens L g ++ listGens L gs := by
  simp [listGens]
theorem listGens_append (L : Nat) (a b : List Gate) : listGens L (a ++ b) = listGens L a ++ listGens L b := by
  simp [listGens]

/-- a gate list all of whose gates are the product of their generators' exponentials multiplies to `stepUnitary` of its
    generator list -/
theorem circMat_listGens (L : Nat) (gs : List Gate) (h : ∀ g ∈ gs, gateMat L g = stepUnitary L (gateGens L g)) :
    circMat L gs = stepUnitary L (listGens L gs) := by
  induction gs with
  | nil => simp [circMat, listGens, stepUnitary]
  | cons g gs ih =>
    rw [circMat_cons, listGens_cons, stepUnitary_append, h g List.mem_cons_self,
      ih fun g' hg' => h g' (List.mem_cons_of_mem _ hg')]

/-- Pauli rotations with a rational angle: by the convention of `Lemmas/TrotterPauli.lean` -/
theorem rot_gate_eq (L : Nat) (g : Gate)
    (h1 : gateMat L g = match gateGen L g with | some gn => exp (genMat L gn) | none => 1)
    (h2 : gateGens L g = (gateGen L g).toList) : gateMat L g = stepUnitary L (gateGens L g) := by
  rw [h1, h2]
  cases gateGen L g <;> simp [stepUnitary]

theorem rxx_gate_eq (L a b : Nat) (θ : Rat) : gateMat L (g2 .rxx a b θ) = stepUnitary L (gateGens L (g2 .rxx a b θ)) :=
  rot_gate_eq L _ rfl rfl
theorem ryy_gate_eq (L a b : Nat) (θ : Rat) : gateMat L (g2 .ryy a b θ) = stepUnitary L (gateGens L (g2 .ryy a b θ)) :=
  rot_gate_eq L _ rfl rfl

/-! ### bonds -/

theorem mem_fh1dBonds (L : Nat) (b : Nat × Nat) (h : b ∈ fh1dBonds L) : b.2 = b.1 + 1 ∧ b.2 < L := by
  simp only [fh1dBonds, evensBelow, oddsBelow, List.mem_map, List.mem_append, List.mem_filter, List.mem_range] at h
  obtain ⟨j, hj, rfl⟩ := h
  constructor
  · rfl
  · rcases hj with hj | hj <;> simp only <;> omega

theorem mem_fh2dBonds (Lx Ly : Nat) (b : Nat × Nat) (h : b ∈ fh2dBonds Lx Ly) : b.1 < b.2 ∧ b.2 < Lx * Ly := by
  simp only [fh2dBonds, evensBelow, oddsBelow, List.mem_append, List.mem_flatMap, List.mem_map, List.mem_filter,
    List.mem_range] at h
  rcases h with ((⟨y, hy, x, hx, rfl⟩ | ⟨y, hy, x, hx, rfl⟩) | ⟨y, hy, x, hx, rfl⟩) | ⟨y, hy, x, hx, rfl⟩
  · refine ⟨by simp, ?_⟩
    simp only
    have h1 : y * Lx + Lx ≤ Lx * Ly := by
      calc y * Lx + Lx = (y + 1) * Lx := by ring
        _ ≤ Ly * Lx := Nat.mul_le_mul_right _ (by omega)
        _ = Lx * Ly := Nat.mul_comm _ _
    omega
  · refine ⟨by simp, ?_⟩
    simp only
    have h1 : y * Lx + Lx ≤ Lx * Ly := by
      calc y * Lx + Lx = (y + 1) * Lx := by ring
        _ ≤ Ly * Lx := Nat.mul_le_mul_right _ (by omega)
        _ = Lx * Ly := Nat.mul_comm _ _
    omega
  · have hx0 : 0 < Lx := by omega
    refine ⟨by simp only; omega, ?_⟩
    simp only
    have h1 : (y + 2) * Lx ≤ Ly * Lx := Nat.mul_le_mul_right _ (by omega)
    have h2 : (y + 2) * Lx = y * Lx + Lx + Lx := by ring
    have h3 : Ly * Lx = Lx * Ly := Nat.mul_comm _ _
    omega
  · have hx0 : 0 < Lx := by omega
    refine ⟨by simp only; omega, ?_⟩
    simp only
    have h1 : (y + 2) * Lx ≤ Ly * Lx := Nat.mul_le_mul_right _ (by omega)
    have h2 : (y + 2) * Lx = y * Lx + Lx + Lx := by ring
    have h3 : Ly * Lx = Lx * Ly := Nat.mul_comm _ _
    omega

/-! ### the sub-steps as matrices -/

theorem fh2dSubstep_layers (Lx Ly : Nat) (u t mu dt : Rat) (n : Nat) :
    fh2dSubstep Lx Ly u t mu dt n = fh2dChem Lx Ly mu dt n ++ fh2dOnsite Lx Ly u dt n ++ fh2dHop Lx Ly t dt n
      ++ fh2dOnsite Lx Ly u dt n ++ fh2dChem Lx Ly mu dt n := rfl

/-- **1-D sub-step**: the gate list of one sub-step of `create_1d_fermi_hubbard_circuit` multiplies to the product of the
    exponentials of `fh1dGens`, in circuit order -/
theorem fh1d_substep_matrix (L : Nat) (u t mu dt : Rat) (n : Nat) :
    circMat (2 * L) (fh1dSubstep L u t mu dt n) = stepUnitary (2 * L) (fh1dGens L u t mu dt n) := by
  unfold fh1dGens
  apply circMat_listGens
  intro g hg
  simp only [fh1dSubstep, List.mem_append, List.mem_flatMap, List.mem_map, List.mem_range, List.mem_cons,
    List.not_mem_nil, or_false] at hg
  rcases hg with (((⟨j, _, rfl | rfl⟩ | ⟨j, hj, rfl⟩) | ⟨b, _, rfl | rfl | rfl | rfl⟩) | ⟨j, hj, rfl⟩) | ⟨j, _, rfl | rfl⟩
  · exact p_gate_eq _ _ _
  · exact p_gate_eq _ _ _
  · exact cp_gate_eq _ _ _ _ (by omega) (by omega) (by omega)
  · exact rxx_gate_eq _ _ _ _
  · exact ryy_gate_eq _ _ _ _
  · exact rxx_gate_eq _ _ _ _
  · exact ryy_gate_eq _ _ _ _
  · exact cp_gate_eq _ _ _ _ (by omega) (by omega) (by omega)
  · exact p_gate_eq _ _ _
  · exact p_gate_eq _ _ _

theorem circMat_flatMap {β : Type} (L : Nat) (l : List β) (F : β → List Gate) (G : β → List (List Op × Rat))
    (h : ∀ b ∈ l, circMat L (F b) = stepUnitary L (G b)) : circMat L (l.flatMap F) = stepUnitary L (l.flatMap G) := by
  induction l with
  | nil => simp [circMat, stepUnitary]
  | cons b bs ih =>
    rw [List.flatMap_cons, List.flatMap_cons, circMat_append, stepUnitary_append, h b List.mem_cons_self,
      ih fun b' hb' => h b' (List.mem_cons_of_mem _ hb')]

/-- **2-D sub-step**: the gate list of one sub-step of `create_2d_fermi_hubbard_circuit` — phase gates, controlled phases and the
    basis-change / CNOT-ladder blocks of `add_hopping_term` — multiplies to the product of the exponentials of `fh2dGens` -/
theorem fh2d_substep_matrix (Lx Ly : Nat) (u t mu dt : Rat) (n : Nat) :
    circMat (2 * (Lx * Ly)) (fh2dSubstep Lx Ly u t mu dt n) = stepUnitary (2 * (Lx * Ly)) (fh2dGens Lx Ly u t mu dt n) := by
  have hchem : circMat (2 * (Lx * Ly)) (fh2dChem Lx Ly mu dt n)
      = stepUnitary (2 * (Lx * Ly)) (listGens (2 * (Lx * Ly)) (fh2dChem Lx Ly mu dt n)) := by
    apply circMat_listGens
    intro g hg
    simp only [fh2dChem, List.mem_flatMap, List.mem_range, List.mem_cons, List.not_mem_nil, or_false] at hg
    obtain ⟨j, _, rfl | rfl⟩ := hg <;> exact p_gate_eq _ _ _
  have hons : circMat (2 * (Lx * Ly)) (fh2dOnsite Lx Ly u dt n)
      = stepUnitary (2 * (Lx * Ly)) (listGens (2 * (Lx * Ly)) (fh2dOnsite Lx Ly u dt n)) := by
    apply circMat_listGens
    intro g hg
    simp only [fh2dOnsite, List.mem_map, List.mem_range] at hg
    obtain ⟨j, hj, rfl⟩ := hg
    exact cp_gate_eq _ _ _ _ (by omega) (by omega) (by omega)
  have hhop : circMat (2 * (Lx * Ly)) (fh2dHop Lx Ly t dt n)
      = stepUnitary (2 * (Lx * Ly)) ((fh2dBonds Lx Ly).flatMap fun b =>
          hopGens (2 * (Lx * Ly)) (2 * b.1) (2 * b.2) (fhHop2dAngle t dt n)
            ++ hopGens (2 * (Lx * Ly)) (2 * b.1 + 1) (2 * b.2 + 1) (fhHop2dAngle t dt n)) := by
    unfold fh2dHop
    apply circMat_flatMap
    intro b hb
    obtain ⟨h1, h2⟩ := mem_fh2dBonds Lx Ly b hb
    rw [circMat_append, stepUnitary_append, (hop_block _ _ _ _ (by omega) (by omega)).1,
      (hop_block _ _ _ _ (by omega) (by omega)).1]
  rw [fh2dSubstep_layers]
  unfold fh2dGens
  simp only [circMat_append, stepUnitary_append, hchem, hons, hhop]


/-! ### the generator lists are the second-order arrangement of the Jordan–Wigner terms -/

/-- `½A, ½B, C, ½B, ½A` at step `τ`: the palindromic arrangement of both Hubbard builders -/
def secondOrderGens (A B C : List (List Op × Rat)) (τ : Rat) : List (List Op × Rat) :=
  A.map (scaleGen (τ / 2)) ++ B.map (scaleGen (τ / 2)) ++ C.map (scaleGen τ) ++ B.map (scaleGen (τ / 2))
    ++ A.map (scaleGen (τ / 2))

theorem flatMap_congr' {β γ : Type} (l : List β) (f g : β → List γ) (h : ∀ x ∈ l, f x = g x) :
    l.flatMap f = l.flatMap g := by
  induction l with
  | nil => rfl
  | cons x xs ih =>
    rw [List.flatMap_cons, List.flatMap_cons, h x List.mem_cons_self, ih fun y hy => h y (List.mem_cons_of_mem _ hy)]

theorem chem_coeff (mu dt : Rat) (n : Nat) (hn : n ≠ 0) :
    phaseCoeff (fhChemAngle mu dt n) = dt / n / 2 * (-mu / 2) := by
  have h : (n : Rat) ≠ 0 := by exact_mod_cast hn
  unfold phaseCoeff fhChemAngle
  field_simp

theorem onsite_coeff (u dt : Rat) (n : Nat) (hn : n ≠ 0) :
    cphaseCoeff (fhOnsiteAngle u dt n) = dt / n / 2 * (u / 4) := by
  have h : (n : Rat) ≠ 0 := by exact_mod_cast hn
  unfold cphaseCoeff fhOnsiteAngle
  field_simp

theorem hop1d_coeff (t dt : Rat) (n : Nat) : rotCoeff (fhHop1dAngle t dt n) = dt / n * (-t / 2) := by
  unfold rotCoeff fhHop1dAngle
  ring

theorem hop2d_coeff (t dt : Rat) (n : Nat) : rotCoeff (fhHop2dAngle t dt n) = dt / n * (-t / 2) := by
  unfold rotCoeff fhHop2dAngle
  ring

theorem p_gens (N q : Nat) (mu dt : Rat) (n : Nat) (hn : n ≠ 0) :
    gateGens N (g1 .p q (fhChemAngle mu dt n)) = (numberTerms N (-mu) q).map (scaleGen (dt / n / 2)) := by
  show [(zString N [], phaseCoeff (fhChemAngle mu dt n)), (zString N [q], -phaseCoeff (fhChemAngle mu dt n))] = _
  rw [chem_coeff mu dt n hn]
  simp only [numberTerms, scaleGen, List.map_cons, List.map_nil]
  rw [show -(dt / n / 2 * (-mu / 2)) = dt / n / 2 * -(-mu / 2) by ring]

theorem cp_gens (N a b : Nat) (u dt : Rat) (n : Nat) (hn : n ≠ 0) :
    gateGens N (g2 .cp a b (fhOnsiteAngle u dt n)) = (densityTerms N u a b).map (scaleGen (dt / n / 2)) := by
  show [(zString N [], cphaseCoeff (fhOnsiteAngle u dt n)), (zString N [a], -cphaseCoeff (fhOnsiteAngle u dt n)),
    (zString N [b], -cphaseCoeff (fhOnsiteAngle u dt n)), (zString N [a, b], cphaseCoeff (fhOnsiteAngle u dt n))] = _
  rw [onsite_coeff u dt n hn]
  simp only [densityTerms, scaleGen, List.map_cons, List.map_nil]
  rw [show -(dt / n / 2 * (u / 4)) = dt / n / 2 * -(u / 4) by ring]

theorem hop_gens (N a b : Nat) (t dt : Rat) (n : Nat) :
    hopGens N a b (fhHop2dAngle t dt n) = (hoppingTerms N (-t) a b).map (scaleGen (dt / n)) := by
  unfold hopGens hoppingTerms
  rw [hop2d_coeff]
  simp only [scaleGen, List.map_cons, List.map_nil]

/-- the string of an `rxx`/`ryy` gate on neighbouring qubits is the (empty) Jordan–Wigner string between them -/
theorem opList_adjacent (N a : Nat) (o : Op) (h : a + 1 < N) :
    opList N [(o, a + 1), (o, a)] = some (hopString N a (a + 1) o) := by
  rw [opList_two N o o (a + 1) a h (by omega) (by omega)]
  unfold hopString strOf
  congr 1
  apply List.map_congr_left
  intro i _
  by_cases h1 : a + 1 = i
  · simp [h1]
  · by_cases h2 : a = i
    · simp [h2]
    · have h3 : ¬ (i = a ∨ i = a + 1) := by omega
      simp [h1, h2, h3]

theorem rxx_gens (N a : Nat) (t dt : Rat) (n : Nat) (h : a + 1 < N) :
    gateGens N (g2 .rxx (a + 1) a (fhHop1dAngle t dt n)) = [(hopString N a (a + 1) .X, dt / n * (-t / 2))] := by
  show (gateGen N (g2 .rxx (a + 1) a (fhHop1dAngle t dt n))).toList = _
  have := gateGen_g2_rxx N (a + 1, a) (fhHop1dAngle t dt n)
  simp only at this
  rw [this, pairGen]
  simp only
  rw [opList_adjacent N a .X h, hop1d_coeff]
  rfl

theorem ryy_gens (N a : Nat) (t dt : Rat) (n : Nat) (h : a + 1 < N) :
    gateGens N (g2 .ryy (a + 1) a (fhHop1dAngle t dt n)) = [(hopString N a (a + 1) .Y, dt / n * (-t / 2))] := by
  show (gateGen N (g2 .ryy (a + 1) a (fhHop1dAngle t dt n))).toList = _
  have := gateGen_g2_ryy N (a + 1, a) (fhHop1dAngle t dt n)
  simp only at this
  rw [this, pairGen]
  simp only
  rw [opList_adjacent N a .Y h, hop1d_coeff]
  rfl

/-- **generators of one 1-D sub-step** (`n ≠ 0`): exactly, in circuit order, the palindromic arrangement `½ chem, ½ onsite, hop,
    ½ onsite, ½ chem` at step `dt/n` of the Jordan–Wigner terms of `-μ Σ n`, `U Σ n↑n↓`, `-t Σ (c†c + h.c.)` in the layout
    `↑[j] = j`, `↓[j] = L + j` -/
theorem fh1dGens_structure (L : Nat) (u t mu dt : Rat) (n : Nat) (hn : n ≠ 0) :
    fh1dGens L u t mu dt n =
      secondOrderGens (chemTerms (2 * L) (fun j => j) (fun j => L + j) (List.range L) mu)
        (onsiteTerms (2 * L) (fun j => j) (fun j => L + j) (List.range L) u)
        (hopTerms (2 * L) (fun j => j) (fun j => L + j) (fh1dBonds L) t) (dt / n) := by
  have hchem : listGens (2 * L) ((List.range L).flatMap fun j =>
        [g1 .p j (fhChemAngle mu dt n), g1 .p (L + j) (fhChemAngle mu dt n)])
      = (chemTerms (2 * L) (fun j => j) (fun j => L + j) (List.range L) mu).map (scaleGen (dt / n / 2)) := by
    unfold listGens chemTerms
    rw [List.flatMap_assoc, List.map_flatMap]
    apply flatMap_congr'
    intro j _
    simp only [List.flatMap_cons, List.flatMap_nil, List.append_nil, List.map_append, p_gens _ _ _ _ _ hn]
  have hons : listGens (2 * L) ((List.range L).map fun j => g2 .cp j (L + j) (fhOnsiteAngle u dt n))
      = (onsiteTerms (2 * L) (fun j => j) (fun j => L + j) (List.range L) u).map (scaleGen (dt / n / 2)) := by
    unfold listGens onsiteTerms
    rw [List.flatMap_map, List.map_flatMap]
    apply flatMap_congr'
    intro j _
    rw [cp_gens _ _ _ _ _ _ hn]
  have hhop : listGens (2 * L) ((fh1dBonds L).flatMap fun b =>
        [g2 .rxx b.2 b.1 (fhHop1dAngle t dt n), g2 .ryy b.2 b.1 (fhHop1dAngle t dt n),
         g2 .rxx (L + b.2) (L + b.1) (fhHop1dAngle t dt n), g2 .ryy (L + b.2) (L + b.1) (fhHop1dAngle t dt n)])
      = (hopTerms (2 * L) (fun j => j) (fun j => L + j) (fh1dBonds L) t).map (scaleGen (dt / n)) := by
    unfold listGens hopTerms
    rw [List.flatMap_assoc, List.map_flatMap]
    apply flatMap_congr'
    intro b hb
    obtain ⟨h1, h2⟩ := mem_fh1dBonds L b hb
    obtain ⟨a, c⟩ := b
    simp only at h1 h2
    subst h1
    simp only [List.flatMap_cons, List.flatMap_nil, List.append_nil]
    rw [rxx_gens _ _ _ _ _ (by omega), ryy_gens _ _ _ _ _ (by omega),
      show L + (a + 1) = L + a + 1 by omega, rxx_gens _ _ _ _ _ (by omega), ryy_gens _ _ _ _ _ (by omega)]
    simp only [hoppingTerms, scaleGen, List.map_cons, List.map_nil, List.cons_append, List.nil_append]
  unfold fh1dGens fh1dSubstep secondOrderGens
  simp only [listGens_append]
  rw [hchem, hons, hhop]

/-- **generators of one 2-D sub-step** (`n ≠ 0`): the same arrangement in the layout `↑[p] = 2p`, `↓[p] = 2p + 1` of
    `lookup_qiskit_ordering`, hopping along `fh2dBonds` with the Jordan–Wigner strings over the qubits in between -/
theorem fh2dGens_structure (Lx Ly : Nat) (u t mu dt : Rat) (n : Nat) (hn : n ≠ 0) :
    fh2dGens Lx Ly u t mu dt n =
      secondOrderGens (chemTerms (2 * (Lx * Ly)) (fun p => 2 * p) (fun p => 2 * p + 1) (List.range (Lx * Ly)) mu)
        (onsiteTerms (2 * (Lx * Ly)) (fun p => 2 * p) (fun p => 2 * p + 1) (List.range (Lx * Ly)) u)
        (hopTerms (2 * (Lx * Ly)) (fun p => 2 * p) (fun p => 2 * p + 1) (fh2dBonds Lx Ly) t) (dt / n) := by
  have hchem : listGens (2 * (Lx * Ly)) (fh2dChem Lx Ly mu dt n)
      = (chemTerms (2 * (Lx * Ly)) (fun p => 2 * p) (fun p => 2 * p + 1) (List.range (Lx * Ly)) mu).map
          (scaleGen (dt / n / 2)) := by
    unfold listGens chemTerms fh2dChem
    rw [List.flatMap_assoc, List.map_flatMap]
    apply flatMap_congr'
    intro j _
    simp only [List.flatMap_cons, List.flatMap_nil, List.append_nil, List.map_append, p_gens _ _ _ _ _ hn]
  have hons : listGens (2 * (Lx * Ly)) (fh2dOnsite Lx Ly u dt n)
      = (onsiteTerms (2 * (Lx * Ly)) (fun p => 2 * p) (fun p => 2 * p + 1) (List.range (Lx * Ly)) u).map
          (scaleGen (dt / n / 2)) := by
    unfold listGens onsiteTerms fh2dOnsite
    rw [List.flatMap_map, List.map_flatMap]
    apply flatMap_congr'
    intro j _
    rw [cp_gens _ _ _ _ _ _ hn]
  unfold fh2dGens secondOrderGens
  simp only
  rw [hchem, hons]
  congr 3
  unfold hopTerms
  rw [List.map_flatMap]
  apply flatMap_congr'
  intro b _
  rw [hop_gens, hop_gens, List.map_append]


/-! ### scaling and sums of the second-order arrangement -/

theorem scaleGen_scaleGen (a b : Rat) (g : List Op × Rat) : scaleGen a (scaleGen b g) = scaleGen (a * b) g := by
  unfold scaleGen
  simp only
  rw [mul_assoc]

/-- the generators at step `τ` are `τ ·` the generators at step 1 -/
theorem secondOrderGens_scale (A B C : List (List Op × Rat)) (τ : Rat) :
    secondOrderGens A B C τ = (secondOrderGens A B C 1).map (scaleGen τ) := by
  have e1 : (scaleGen τ ∘ scaleGen (1 / 2)) = scaleGen (τ / 2) := by
    funext g
    rw [Function.comp_apply, scaleGen_scaleGen]
    congr 1
    ring
  have e2 : (scaleGen τ ∘ scaleGen 1) = scaleGen τ := by
    funext g
    rw [Function.comp_apply, scaleGen_scaleGen, mul_one]
  simp only [secondOrderGens, List.map_append, List.map_map, e1, e2]

theorem genSum_nil (L : Nat) : genSum L [] = 0 := by simp [genSum]
theorem genSum_append (L : Nat) (a b : List (List Op × Rat)) : genSum L (a ++ b) = genSum L a + genSum L b := by
  simp [genSum]

theorem genSum_map_scale (L : Nat) (c : Rat) (gens : List (List Op × Rat)) :
    genSum L (gens.map (scaleGen c)) = (c : ℝ) • genSum L gens := by
  induction gens with
  | nil => simp [genSum]
  | cons g gs ih =>
    unfold genSum at ih ⊢
    rw [List.map_cons, List.map_cons, List.sum_cons, List.map_cons, List.sum_cons, ih, genMat_scale, smul_add]

/-- the two half steps add up: the generators of the palindromic arrangement at step 1 sum to the sum of all terms once -/
theorem genSum_secondOrder (L : Nat) (A B C : List (List Op × Rat)) :
    genSum L (secondOrderGens A B C 1) = genSum L (A ++ B ++ C) := by
  unfold secondOrderGens
  simp only [genSum_append, genSum_map_scale]
  have h2 : ((1 / 2 : ℚ) : ℝ) = 1 / 2 := by norm_num
  have h1 : ((1 : ℚ) : ℝ) = 1 := by norm_num
  rw [h2, h1]
  module

theorem hamOfGens_append (L : Nat) (a b : List (List Op × Rat)) : hamOfGens L (a ++ b) = hamOfGens L a + hamOfGens L b := by
  simp [hamOfGens]

theorem circMat_repeat (L m : Nat) (step : List Gate) : circMat L (repeatSteps m step) = circMat L step ^ m := by
  induction m with
  | zero => simp [repeatSteps, circMat]
  | succ k ih =>
    have e : repeatSteps (k + 1) step = step ++ repeatSteps k step := by simp [repeatSteps, List.replicate_succ]
    rw [e, circMat_append, ih, pow_succ']

section consistent
open scoped Matrix.Norms.Operator

/-- **consistency of a palindromic second-order step**: as a function of the step size the product is the curve over its
    generators at step 1; it is `1` at `0` and its derivative there is `-i · Σ c P` over all terms (each once) -/
theorem secondOrder_consistent (L : Nat) (A B C : List (List Op × Rat)) :
    (∀ τ : Rat, stepUnitary L (secondOrderGens A B C τ) = stepCurve L (secondOrderGens A B C 1) (τ : ℝ)) ∧
    stepCurve L (secondOrderGens A B C 1) 0 = 1 ∧
    HasDerivAt (stepCurve L (secondOrderGens A B C 1)) ((-Complex.I) • hamOfGens L (A ++ B ++ C)) 0 := by
  refine ⟨fun τ => by rw [secondOrderGens_scale, stepUnitary_scale], prodExp_zero _, ?_⟩
  rw [← genSum_eq_ham, ← genSum_secondOrder]
  exact hasDerivAt_prodExp _

end consistent

section converges
open scoped Matrix.Norms.L2Operator
open Filter Topology

/-- **convergence**: `N` palindromic steps of size `T/N` are within `T²s²e^{|T|s}/N` of `exp(-i T Σ c P)` and converge to it -/
theorem secondOrder_converges (L : Nat) (A B C : List (List Op × Rat)) (T : Rat) :
    (∀ N : ℕ, 0 < N →
      ‖stepUnitary L (secondOrderGens A B C (T / N)) ^ N - exp ((T : ℝ) • ((-Complex.I) • hamOfGens L (A ++ B ++ C)))‖
        ≤ (T : ℝ) ^ 2 * (((secondOrderGens A B C 1).map (genMat L)).map norm).sum ^ 2
            * Real.exp (|(T : ℝ)| * (((secondOrderGens A B C 1).map (genMat L)).map norm).sum) / N) ∧
    Tendsto (fun N : ℕ => stepUnitary L (secondOrderGens A B C (T / N)) ^ N) atTop
      (𝓝 (exp ((T : ℝ) • ((-Complex.I) • hamOfGens L (A ++ B ++ C))))) := by
  have hstep (N : ℕ) : stepUnitary L (secondOrderGens A B C (T / N))
      = prodExp ((secondOrderGens A B C 1).map (genMat L)) ((T : ℝ) / N) := by
    rw [secondOrderGens_scale, stepUnitary_scale, Rat.cast_div, Rat.cast_natCast]
    rfl
  have hsum : ((secondOrderGens A B C 1).map (genMat L)).sum = (-Complex.I) • hamOfGens L (A ++ B ++ C) := by
    rw [← genSum_eq_ham, ← genSum_secondOrder]
    rfl
  have hb := fun N hN => trotter_global_bound ((secondOrderGens A B C 1).map (genMat L))
    (genMat_mem_skew L (secondOrderGens A B C 1)) (T : ℝ) N hN
  have ht := trotter_tendsto ((secondOrderGens A B C 1).map (genMat L)) (genMat_mem_skew L (secondOrderGens A B C 1)) (T : ℝ)
  rw [hsum] at ht
  refine ⟨fun N hN => ?_, ht.congr fun N => by rw [hstep N]⟩
  have := hb N hN
  rw [hsum] at this
  rw [hstep N]
  exact this

end converges


/-! ### Jordan–Wigner operators -/

/-- the Jordan–Wigner annihilation operator of mode `q` on `N` qubits: `Z_0 ⋯ Z_{q-1} σ⁻_q` -/
def cF (N q : Nat) : Matrix (Fin (2 ^ N)) (Fin (2 ^ N)) ℂ :=
  kronFn N fun k => if k.val < q then pauliM Op.Z else if k.val = q then sigM else 1

/-- number operator `c†_q c_q` -/
def numF (N q : Nat) : Matrix (Fin (2 ^ N)) (Fin (2 ^ N)) ℂ := (cF N q)ᴴ * cF N q

/-- hopping operator `c†_a c_b + c†_b c_a` -/
def hopF (N a b : Nat) : Matrix (Fin (2 ^ N)) (Fin (2 ^ N)) ℂ := (cF N a)ᴴ * cF N b + (cF N b)ᴴ * cF N a

theorem pauliM_Z_herm : (pauliM Op.Z)ᴴ = pauliM Op.Z := by
  rw [pauliM_Z]; ext a b; fin_cases a <;> fin_cases b <;> simp [Matrix.conjTranspose_apply]
theorem zz : pauliM Op.Z * pauliM Op.Z = 1 := by
  rw [pauliM_Z]; ext a b; fin_cases a <;> fin_cases b <;> simp
theorem sig_num : sigMᴴ * sigM = proj1 := by
  ext a b; fin_cases a <;> fin_cases b <;> simp [sigM, proj1, Matrix.conjTranspose_apply, Matrix.mul_apply, Fin.sum_univ_two]
theorem sig_num' : sigM * sigMᴴ = proj0 := by
  ext a b; fin_cases a <;> fin_cases b <;> simp [sigM, proj0, Matrix.conjTranspose_apply, Matrix.mul_apply, Fin.sum_univ_two]
theorem sigP_Z : sigMᴴ * pauliM Op.Z = sigMᴴ := by
  rw [pauliM_Z]; ext a b; fin_cases a <;> fin_cases b <;> simp [sigM, Matrix.conjTranspose_apply, Matrix.mul_apply, Fin.sum_univ_two]
theorem Z_sigM : pauliM Op.Z * sigM = sigM := by
  rw [pauliM_Z]; ext a b; fin_cases a <;> fin_cases b <;> simp [sigM, Matrix.mul_apply, Fin.sum_univ_two]
theorem sigM_Z : sigM * pauliM Op.Z = (-1 : ℂ) • sigM := by
  rw [pauliM_Z]; ext a b; fin_cases a <;> fin_cases b <;> simp [sigM, Matrix.mul_apply, Fin.sum_univ_two]
theorem sigM_sq : sigM * sigM = 0 := by
  ext a b; fin_cases a <;> fin_cases b <;> simp [sigM, Matrix.mul_apply, Fin.sum_univ_two]
theorem proj1_eq : proj1 = (1 / 2 : ℂ) • (1 : M2) + (-(1 / 2) : ℂ) • pauliM Op.Z := by
  rw [pauliM_Z]; ext a b; fin_cases a <;> fin_cases b <;> simp [proj1]
  norm_num
theorem X_eq : pauliM Op.X = sigMᴴ + sigM := by
  rw [pauliM_X]; ext a b; fin_cases a <;> fin_cases b <;> simp [sigM, Matrix.conjTranspose_apply]
theorem Y_eq : pauliM Op.Y = Complex.I • sigMᴴ + (-Complex.I) • sigM := by
  rw [pauliM_Y]; ext a b; fin_cases a <;> fin_cases b <;> simp [sigM, Matrix.conjTranspose_apply]

/-! #### linearity of the one-site embedding -/

theorem site1_add (L q : Nat) (hq : q < L) (A B : M2) : site1 L q (A + B) = site1 L q A + site1 L q B := by
  unfold site1
  symm
  apply kronFn_add_slot L _ _ _ ⟨q, hq⟩
  · simp
  · intro k hk
    have : k.val ≠ q := fun e => hk (Fin.ext e)
    simp [this]

theorem site1_smul (L q : Nat) (hq : q < L) (c : ℂ) (A : M2) : site1 L q (c • A) = c • site1 L q A := by
  unfold site1
  apply kronFn_smul_slot L _ _ ⟨q, hq⟩ c
  · simp
  · intro k hk
    have : k.val ≠ q := fun e => hk (Fin.ext e)
    simp [this]

theorem site1_one (L q : Nat) : site1 L q 1 = 1 := by
  unfold site1
  rw [← kronFn_one L]
  apply kronFn_congr
  intro k
  by_cases h : k.val = q <;> simp [h]

theorem site1_Z (L q : Nat) : site1 L q (pauliM Op.Z) = pauliMat L (zString L [q]) := by
  unfold zString
  rw [pauliMat_strOf', pstr_single]

/-- **Jordan–Wigner, number operator**: `c†_q c_q = (1 - Z_q)/2` -/
theorem jw_number (N q : Nat) (hq : q < N) :
    numF N q = (1 / 2 : ℂ) • (1 - pauliMat N (zString N [q])) := by
  have h1 : numF N q = site1 N q proj1 := by
    unfold numF cF site1
    rw [kronFn_conjTranspose, kronFn_mul]
    apply kronFn_congr
    intro k
    by_cases h : k.val < q
    · have : k.val ≠ q := by omega
      simp [h, this, pauliM_Z_herm, zz]
    · by_cases h' : k.val = q <;> simp [h, h', sig_num]
  rw [h1, proj1_eq, site1_add N q hq, site1_smul N q hq, site1_smul N q hq, site1_one, site1_Z]
  module

/-! #### the hopping operator -/

/-- `A_a Z_{a+1} ⋯ Z_{b-1} B_b` -/
def hopK (N a b : Nat) (A B : M2) : Matrix (Fin (2 ^ N)) (Fin (2 ^ N)) ℂ :=
  kronFn N fun k => if k.val = a then A else if k.val = b then B else if a < k.val ∧ k.val < b then pauliM Op.Z else 1

theorem hopK_add_left (N a b : Nat) (ha : a < N) (A A' B : M2) :
    hopK N a b (A + A') B = hopK N a b A B + hopK N a b A' B := by
  unfold hopK
  symm
  apply kronFn_add_slot N _ _ _ ⟨a, ha⟩
  · simp
  · intro k hk
    have : k.val ≠ a := fun e => hk (Fin.ext e)
    simp [this]

theorem hopK_add_right (N a b : Nat) (hb : b < N) (hab : a ≠ b) (A B B' : M2) :
    hopK N a b A (B + B') = hopK N a b A B + hopK N a b A B' := by
  unfold hopK
  symm
  have hba : b ≠ a := fun e => hab e.symm
  apply kronFn_add_slot N _ _ _ ⟨b, hb⟩
  · simp [hba]
  · intro k hk
    have : k.val ≠ b := fun e => hk (Fin.ext e)
    simp [this]

theorem hopK_smul_left (N a b : Nat) (ha : a < N) (c : ℂ) (A B : M2) :
    hopK N a b (c • A) B = c • hopK N a b A B := by
  unfold hopK
  apply kronFn_smul_slot N _ _ ⟨a, ha⟩ c
  · simp
  · intro k hk
    have : k.val ≠ a := fun e => hk (Fin.ext e)
    simp [this]

theorem hopK_smul_right (N a b : Nat) (hb : b < N) (hab : a ≠ b) (c : ℂ) (A B : M2) :
    hopK N a b A (c • B) = c • hopK N a b A B := by
  unfold hopK
  have hba : b ≠ a := fun e => hab e.symm
  apply kronFn_smul_slot N _ _ ⟨b, hb⟩ c
  · simp [hba]
  · intro k hk
    have : k.val ≠ b := fun e => hk (Fin.ext e)
    simp [this]

theorem pauliMat_hopString (N a b : Nat) (o : Op) : pauliMat N (hopString N a b o) = hopK N a b (pauliM o) (pauliM o) := by
  unfold hopString hopK
  rw [pauliMat_strOf', pstr]
  apply kronFn_congr
  intro k
  by_cases h1 : k.val = a
  · simp [h1]
  · by_cases h2 : k.val = b
    · simp [h2]
    · by_cases h3 : a < k.val ∧ k.val < b <;> simp [h1, h2, h3, pauliM_I]

theorem cdag_c (N a b : Nat) (hab : a < b) : (cF N a)ᴴ * cF N b = hopK N a b sigMᴴ sigM := by
  unfold cF hopK
  rw [kronFn_conjTranspose, kronFn_mul]
  apply kronFn_congr
  intro k
  by_cases h1 : k.val < a
  · have : k.val < b := by omega
    have h2 : k.val ≠ a := by omega
    have h3 : k.val ≠ b := by omega
    have h4 : ¬ a < k.val := by omega
    simp [h1, this, h2, h3, h4, pauliM_Z_herm, zz]
  · by_cases h2 : k.val = a
    · simp [h2, hab, sigP_Z]
    · by_cases h3 : k.val < b
      · have h4 : k.val ≠ b := by omega
        have h5 : a < k.val ∧ k.val < b := by omega
        simp [h1, h2, h3, h4, h5]
      · by_cases h4 : k.val = b
        · have : ¬ b < a := by omega
          have h6 : b ≠ a := by omega
          simp [h4, this, h6]
        · simp [h1, h2, h3, h4]

theorem cdag_c' (N a b : Nat) (hab : a < b) : (cF N b)ᴴ * cF N a = hopK N a b sigM sigMᴴ := by
  unfold cF hopK
  rw [kronFn_conjTranspose, kronFn_mul]
  apply kronFn_congr
  intro k
  by_cases h1 : k.val < a
  · have : k.val < b := by omega
    have h2 : k.val ≠ a := by omega
    have h3 : k.val ≠ b := by omega
    have h4 : ¬ a < k.val := by omega
    simp [h1, this, h2, h3, h4, pauliM_Z_herm, zz]
  · by_cases h2 : k.val = a
    · simp [h2, hab, pauliM_Z_herm, Z_sigM]
    · by_cases h3 : k.val < b
      · have h4 : k.val ≠ b := by omega
        have h5 : a < k.val ∧ k.val < b := by omega
        simp [h1, h2, h3, h4, h5, pauliM_Z_herm]
      · by_cases h4 : k.val = b
        · have : ¬ b < a := by omega
          have h6 : b ≠ a := by omega
          simp [h4, this, h6]
        · simp [h1, h2, h3, h4]

/-- **Jordan–Wigner, hopping**: `c†_a c_b + c†_b c_a = ½ (X_a Z_{a+1} ⋯ Z_{b-1} X_b + Y_a Z ⋯ Z Y_b)` for `a < b` -/
theorem jw_hopping (N a b : Nat) (hab : a < b) (hb : b < N) :
    hopF N a b = (1 / 2 : ℂ) • (pauliMat N (hopString N a b Op.X) + pauliMat N (hopString N a b Op.Y)) := by
  have ha : a < N := by omega
  have hne : a ≠ b := by omega
  unfold hopF
  rw [cdag_c N a b hab, cdag_c' N a b hab, pauliMat_hopString, pauliMat_hopString, X_eq, Y_eq]
  simp only [hopK_add_left N a b ha, hopK_add_right N a b hb hne, hopK_smul_left N a b ha, hopK_smul_right N a b hb hne,
    smul_add, smul_smul]
  have hII : Complex.I * Complex.I = -1 := Complex.I_mul_I
  have e1 : Complex.I * -Complex.I = 1 := by rw [mul_neg, hII, neg_neg]
  have e2 : -Complex.I * Complex.I = 1 := by rw [neg_mul, hII, neg_neg]
  have e3 : -Complex.I * -Complex.I = -1 := by rw [neg_mul_neg, hII]
  rw [hII, e1, e2, e3]
  module


/-! #### canonical anticommutation relations (the `cF` are fermionic modes) -/

theorem c_cdag_same (N q : Nat) : cF N q * (cF N q)ᴴ = site1 N q proj0 := by
  unfold cF site1
  rw [kronFn_conjTranspose, kronFn_mul]
  apply kronFn_congr
  intro k
  by_cases h : k.val < q
  · have : k.val ≠ q := by omega
    simp [h, this, pauliM_Z_herm, zz]
  · by_cases h' : k.val = q <;> simp [h, h', sig_num']

theorem cdag_c_same (N q : Nat) : (cF N q)ᴴ * cF N q = site1 N q proj1 := by
  unfold cF site1
  rw [kronFn_conjTranspose, kronFn_mul]
  apply kronFn_congr
  intro k
  by_cases h : k.val < q
  · have : k.val ≠ q := by omega
    simp [h, this, pauliM_Z_herm, zz]
  · by_cases h' : k.val = q <;> simp [h, h', sig_num]

theorem c_c_same (N q : Nat) (hq : q < N) : cF N q * cF N q = 0 := by
  unfold cF
  rw [kronFn_mul]
  apply kronFn_eq_zero N _ ⟨q, hq⟩
  simp [sigM_sq]

theorem c_cdag_lt (N p q : Nat) (hpq : p < q) : cF N p * (cF N q)ᴴ = hopK N p q ((-1 : ℂ) • sigM) sigMᴴ := by
  unfold cF hopK
  rw [kronFn_conjTranspose, kronFn_mul]
  apply kronFn_congr
  intro k
  by_cases h1 : k.val < p
  · have : k.val < q := by omega
    have h2 : k.val ≠ p := by omega
    have h3 : k.val ≠ q := by omega
    have h4 : ¬ p < k.val := by omega
    simp [h1, this, h2, h3, h4, pauliM_Z_herm, zz]
  · by_cases h2 : k.val = p
    · simp [h2, hpq, pauliM_Z_herm, sigM_Z]
    · by_cases h3 : k.val < q
      · have h4 : k.val ≠ q := by omega
        have h5 : p < k.val ∧ k.val < q := by omega
        simp [h1, h2, h3, h4, h5, pauliM_Z_herm]
      · by_cases h4 : k.val = q
        · have : ¬ q < p := by omega
          have h6 : q ≠ p := by omega
          simp [h4, this, h6]
        · simp [h1, h2, h3, h4]

theorem c_c_lt (N p q : Nat) (hpq : p < q) : cF N p * cF N q = hopK N p q ((-1 : ℂ) • sigM) sigM := by
  unfold cF hopK
  rw [kronFn_mul]
  apply kronFn_congr
  intro k
  by_cases h1 : k.val < p
  · have : k.val < q := by omega
    have h2 : k.val ≠ p := by omega
    have h3 : k.val ≠ q := by omega
    have h4 : ¬ p < k.val := by omega
    simp [h1, this, h2, h3, h4, zz]
  · by_cases h2 : k.val = p
    · simp [h2, hpq, sigM_Z]
    · by_cases h3 : k.val < q
      · have h4 : k.val ≠ q := by omega
        have h5 : p < k.val ∧ k.val < q := by omega
        simp [h1, h2, h3, h4, h5]
      · by_cases h4 : k.val = q
        · have : ¬ q < p := by omega
          have h6 : q ≠ p := by omega
          simp [h4, this, h6]
        · simp [h1, h2, h3, h4]

theorem c_c_gt (N p q : Nat) (hpq : p < q) : cF N q * cF N p = hopK N p q sigM sigM := by
  unfold cF hopK
  rw [kronFn_mul]
  apply kronFn_congr
  intro k
  by_cases h1 : k.val < p
  · have : k.val < q := by omega
    have h2 : k.val ≠ p := by omega
    have h3 : k.val ≠ q := by omega
    have h4 : ¬ p < k.val := by omega
    simp [h1, this, h2, h3, h4, zz]
  · by_cases h2 : k.val = p
    · simp [h2, hpq, Z_sigM]
    · by_cases h3 : k.val < q
      · have h4 : k.val ≠ q := by omega
        have h5 : p < k.val ∧ k.val < q := by omega
        simp [h1, h2, h3, h4, h5]
      · by_cases h4 : k.val = q
        · have : ¬ q < p := by omega
          have h6 : q ≠ p := by omega
          simp [h4, this, h6]
        · simp [h1, h2, h3, h4]

/-- **the Jordan–Wigner operators are fermionic modes**: `{c_p, c†_q} = δ_pq`, `{c_p, c_q} = 0` -/
theorem jw_car (N p q : Nat) (hp : p < N) (hq : q < N) :
    cF N p * (cF N q)ᴴ + (cF N q)ᴴ * cF N p = (if p = q then 1 else 0) ∧ cF N p * cF N q + cF N q * cF N p = 0 := by
  have lt (a b : Nat) (hab : a < b) (hb : b < N) :
      cF N a * (cF N b)ᴴ + (cF N b)ᴴ * cF N a = 0 ∧ cF N a * cF N b + cF N b * cF N a = 0 := by
    have ha : a < N := by omega
    rw [c_cdag_lt N a b hab, cdag_c' N a b hab, c_c_lt N a b hab, c_c_gt N a b hab, hopK_smul_left N a b ha,
      hopK_smul_left N a b ha]
    constructor <;> module
  rcases Nat.lt_trichotomy p q with h | h | h
  · have := lt p q h hq
    simp only [Nat.ne_of_lt h, if_false]
    exact this
  · subst h
    simp only [if_true]
    refine ⟨?_, by rw [c_c_same N p hp, add_zero]⟩
    rw [c_cdag_same, cdag_c_same, ← site1_add N p hp, proj_add, site1_one]
  · have := lt q p h hp
    simp only [Nat.ne_of_gt h, if_false]
    refine ⟨?_, by rw [add_comm]; exact this.2⟩
    have h1 := congrArg Matrix.conjTranspose this.1
    simp only [Matrix.conjTranspose_add, Matrix.conjTranspose_mul, Matrix.conjTranspose_conjTranspose,
      Matrix.conjTranspose_zero] at h1
    exact h1

/-! #### the term lists are the Jordan–Wigner images -/

theorem hamOfGens_nil (L : Nat) : hamOfGens L [] = 0 := by simp [hamOfGens]
theorem hamOfGens_cons (L : Nat) (g : List Op × Rat) (gs : List (List Op × Rat)) :
    hamOfGens L (g :: gs) = (((g.2 : ℝ) : ℂ)) • pauliMat L g.1 + hamOfGens L gs := by simp [hamOfGens]

theorem hamOfGens_flatMap {β : Type} (L : Nat) (l : List β) (F : β → List (List Op × Rat)) :
    hamOfGens L (l.flatMap F) = (l.map fun x => hamOfGens L (F x)).sum := by
  induction l with
  | nil => simp [hamOfGens]
  | cons x xs ih => rw [List.flatMap_cons, hamOfGens_append, ih, List.map_cons, List.sum_cons]

theorem zString_mul (L a b : Nat) (hab : a ≠ b) :
    pauliMat L (zString L [a]) * pauliMat L (zString L [b]) = pauliMat L (zString L [a, b]) := by
  unfold zString
  rw [pauliMat_strOf', pauliMat_strOf', pauliMat_strOf', pstr, pstr, pstr, kronFn_mul]
  apply kronFn_congr
  intro k
  have hba : b ≠ a := fun e => hab e.symm
  by_cases ha : k.val = a
  · simp [ha, hab, pauliM_I]
  · by_cases hb : k.val = b <;> simp [ha, hb, hba, pauliM_I]

/-- `c · n_q` -/
theorem ham_numberTerms (N q : Nat) (c : Rat) (hq : q < N) :
    hamOfGens N (numberTerms N c q) = (((c : ℝ) : ℂ)) • numF N q := by
  unfold numberTerms
  rw [hamOfGens_cons, hamOfGens_cons, hamOfGens_nil, jw_number N q hq, pauliMat_zString_nil]
  push_cast
  module

/-- `c · n_a n_b` -/
theorem ham_densityTerms (N a b : Nat) (c : Rat) (ha : a < N) (hb : b < N) (hab : a ≠ b) :
    hamOfGens N (densityTerms N c a b) = (((c : ℝ) : ℂ)) • (numF N a * numF N b) := by
  unfold densityTerms
  rw [hamOfGens_cons, hamOfGens_cons, hamOfGens_cons, hamOfGens_cons, hamOfGens_nil, jw_number N a ha, jw_number N b hb,
    pauliMat_zString_nil, ← zString_mul N a b hab]
  simp only [Matrix.smul_mul, Matrix.mul_smul, sub_mul, mul_sub, one_mul, mul_one, smul_smul]
  push_cast
  module

/-- `c · (c†_a c_b + c†_b c_a)` -/
theorem ham_hoppingTerms (N a b : Nat) (c : Rat) (hab : a < b) (hb : b < N) :
    hamOfGens N (hoppingTerms N c a b) = (((c : ℝ) : ℂ)) • hopF N a b := by
  unfold hoppingTerms
  rw [hamOfGens_cons, hamOfGens_cons, hamOfGens_nil, jw_hopping N a b hab hb]
  push_cast
  module

/-- the Fermi–Hubbard Hamiltonian `-t Σ_{⟨pq⟩σ} (c†_{pσ} c_{qσ} + h.c.) + U Σ_p n_{p↑} n_{p↓} - μ Σ_{pσ} n_{pσ}` in the
    Jordan–Wigner operators `cF` of the mode layout `up, dn : site → qubit` -/
def hubbardJW (N : Nat) (up dn : Nat → Nat) (sites : List Nat) (bonds : List (Nat × Nat)) (u t mu : Rat) :
    Matrix (Fin (2 ^ N)) (Fin (2 ^ N)) ℂ :=
  (sites.map fun j => (((-mu : ℚ) : ℝ) : ℂ) • numF N (up j) + (((-mu : ℚ) : ℝ) : ℂ) • numF N (dn j)).sum
    + (sites.map fun j => (((u : ℚ) : ℝ) : ℂ) • (numF N (up j) * numF N (dn j))).sum
    + (bonds.map fun b => (((-t : ℚ) : ℝ) : ℂ) • hopF N (up b.1) (up b.2)
        + (((-t : ℚ) : ℝ) : ℂ) • hopF N (dn b.1) (dn b.2)).sum

theorem map_sum_congr {β : Type} {M : Type} [AddMonoid M] (l : List β) (f g : β → M) (h : ∀ x ∈ l, f x = g x) :
    (l.map f).sum = (l.map g).sum := by
  rw [List.map_congr_left h]

/-- **the Pauli term list of the model is the Jordan–Wigner image of the fermionic Hamiltonian** -/
theorem hubbardTerms_jw (N : Nat) (up dn : Nat → Nat) (sites : List Nat) (bonds : List (Nat × Nat)) (u t mu : Rat)
    (hs : ∀ j ∈ sites, up j < N ∧ dn j < N ∧ up j ≠ dn j)
    (hbd : ∀ b ∈ bonds, up b.1 < up b.2 ∧ up b.2 < N ∧ dn b.1 < dn b.2 ∧ dn b.2 < N) :
    hamOfGens N (hubbardTerms N up dn sites bonds u t mu) = hubbardJW N up dn sites bonds u t mu := by
  unfold hubbardTerms hubbardJW chemTerms onsiteTerms hopTerms
  rw [hamOfGens_append, hamOfGens_append, hamOfGens_flatMap, hamOfGens_flatMap, hamOfGens_flatMap]
  congr 1
  · congr 1
    · apply map_sum_congr
      intro j hj
      obtain ⟨h1, h2, _⟩ := hs j hj
      rw [hamOfGens_append, ham_numberTerms N _ _ h1, ham_numberTerms N _ _ h2]
    · apply map_sum_congr
      intro j hj
      obtain ⟨h1, h2, h3⟩ := hs j hj
      rw [ham_densityTerms N _ _ _ h1 h2 h3]
  · apply map_sum_congr
    intro b hb
    obtain ⟨h1, h2, h3, h4⟩ := hbd b hb
    rw [hamOfGens_append, ham_hoppingTerms N _ _ _ h1 h2, ham_hoppingTerms N _ _ _ h3 h4]

theorem hubbard1d_jw (L : Nat) (u t mu : Rat) :
    hamOfGens (2 * L) (hubbard1dTerms L u t mu)
      = hubbardJW (2 * L) (fun j => j) (fun j => L + j) (List.range L) (fh1dBonds L) u t mu := by
  unfold hubbard1dTerms
  apply hubbardTerms_jw
  · intro j hj
    have := List.mem_range.mp hj
    exact ⟨by omega, by omega, by omega⟩
  · intro b hb
    obtain ⟨h1, h2⟩ := mem_fh1dBonds L b hb
    exact ⟨by omega, by omega, by omega, by omega⟩

theorem hubbard2d_jw (Lx Ly : Nat) (u t mu : Rat) :
    hamOfGens (2 * (Lx * Ly)) (hubbard2dTerms Lx Ly u t mu)
      = hubbardJW (2 * (Lx * Ly)) (fun p => 2 * p) (fun p => 2 * p + 1) (List.range (Lx * Ly)) (fh2dBonds Lx Ly) u t mu := by
  unfold hubbard2dTerms
  apply hubbardTerms_jw
  · intro j hj
    have := List.mem_range.mp hj
    exact ⟨by omega, by omega, by omega⟩
  · intro b hb
    obtain ⟨h1, h2⟩ := mem_fh2dBonds Lx Ly b hb
    exact ⟨by omega, by omega, by omega, by omega⟩


/-! ### the hopping bonds of the builders are all nearest-neighbour bonds, each once -/

theorem evens_odds_perm (n : Nat) : (evensBelow n ++ oddsBelow n).Perm (List.range n) := by
  have e : oddsBelow n = (List.range n).filter fun k => !(decide (k % 2 = 0)) := by
    unfold oddsBelow
    apply List.filter_congr
    intro k _
    rcases Nat.mod_two_eq_zero_or_one k with h | h <;> simp [h]
  rw [e]
  exact List.filter_append_perm _ _

theorem fh1d_bonds_perm (L : Nat) : (fh1dBonds L).Perm ((List.range (L - 1)).map fun j => (j, j + 1)) :=
  (evens_odds_perm (L - 1)).map _

theorem fh2d_bonds_perm (Lx Ly : Nat) : (fh2dBonds Lx Ly).Perm (latticeBonds Lx Ly) := by
  unfold fh2dBonds latticeBonds
  rw [List.append_assoc]
  apply List.Perm.append
  · refine (List.flatMap_append_perm _ _ _).trans ?_
    apply List.Perm.flatMap_left
    intro y _
    rw [← List.map_append]
    exact (evens_odds_perm (Lx - 1)).map _
  · rw [← List.flatMap_append]
    exact (evens_odds_perm (Ly - 1)).flatMap_right _

/-! ### the two builders: one sub-step, consistency, convergence -/

/-- generators of one 1-D sub-step at `dt/n = 1` -/
def fh1dGens1 (L : Nat) (u t mu : Rat) : List (List Op × Rat) :=
  secondOrderGens (chemTerms (2 * L) (fun j => j) (fun j => L + j) (List.range L) mu)
    (onsiteTerms (2 * L) (fun j => j) (fun j => L + j) (List.range L) u)
    (hopTerms (2 * L) (fun j => j) (fun j => L + j) (fh1dBonds L) t) 1

/-- generators of one 2-D sub-step at `dt/n = 1` -/
def fh2dGens1 (Lx Ly : Nat) (u t mu : Rat) : List (List Op × Rat) :=
  secondOrderGens (chemTerms (2 * (Lx * Ly)) (fun p => 2 * p) (fun p => 2 * p + 1) (List.range (Lx * Ly)) mu)
    (onsiteTerms (2 * (Lx * Ly)) (fun p => 2 * p) (fun p => 2 * p + 1) (List.range (Lx * Ly)) u)
    (hopTerms (2 * (Lx * Ly)) (fun p => 2 * p) (fun p => 2 * p + 1) (fh2dBonds Lx Ly) t) 1

theorem fh1d_substep_curve (L : Nat) (u t mu dt : Rat) (n : Nat) (hn : n ≠ 0) :
    circMat (2 * L) (fh1dSubstep L u t mu dt n) = stepCurve (2 * L) (fh1dGens1 L u t mu) ((dt / n : ℚ) : ℝ) := by
  rw [fh1d_substep_matrix, fh1dGens_structure L u t mu dt n hn, secondOrderGens_scale, stepUnitary_scale]
  rfl

theorem fh2d_substep_curve (Lx Ly : Nat) (u t mu dt : Rat) (n : Nat) (hn : n ≠ 0) :
    circMat (2 * (Lx * Ly)) (fh2dSubstep Lx Ly u t mu dt n)
      = stepCurve (2 * (Lx * Ly)) (fh2dGens1 Lx Ly u t mu) ((dt / n : ℚ) : ℝ) := by
  rw [fh2d_substep_matrix, fh2dGens_structure Lx Ly u t mu dt n hn, secondOrderGens_scale, stepUnitary_scale]
  rfl

section converges
open scoped Matrix.Norms.L2Operator
open Filter Topology

/-- the common convergence argument: a circuit of `n·steps` sub-steps, each the curve over `gens1` at `dt/n` -/
theorem substeps_converge (N : Nat) (gens1 : List (List Op × Rat)) (H : Matrix (Fin (2 ^ N)) (Fin (2 ^ N)) ℂ)
    (hsum : (gens1.map (genMat N)).sum = (-Complex.I) • H) (U : ℕ → Matrix (Fin (2 ^ N)) (Fin (2 ^ N)) ℂ) (dt : Rat)
    (steps : Nat) (hsteps : steps ≠ 0)
    (hU : ∀ n : ℕ, n ≠ 0 → U n = stepCurve N gens1 ((dt / n : ℚ) : ℝ) ^ (n * steps)) :
    (∀ n : ℕ, n ≠ 0 →
      ‖U n - exp ((((steps : ℚ) * dt : ℚ) : ℝ) • ((-Complex.I) • H))‖
        ≤ (((steps : ℚ) * dt : ℚ) : ℝ) ^ 2 * ((gens1.map (genMat N)).map norm).sum ^ 2
            * Real.exp (|(((steps : ℚ) * dt : ℚ) : ℝ)| * ((gens1.map (genMat N)).map norm).sum) / ((n * steps : ℕ) : ℝ)) ∧
    Tendsto U atTop (𝓝 (exp ((((steps : ℚ) * dt : ℚ) : ℝ) • ((-Complex.I) • H)))) := by
  set T : ℝ := (((steps : ℚ) * dt : ℚ) : ℝ) with hT
  set As := gens1.map (genMat N) with hAs
  have hbound : ∀ n : ℕ, n ≠ 0 → ‖U n - exp (T • ((-Complex.I) • H))‖
      ≤ T ^ 2 * (As.map norm).sum ^ 2 * Real.exp (|T| * (As.map norm).sum) / ((n * steps : ℕ) : ℝ) := by
    intro n hn
    have hpos : 0 < n * steps := Nat.mul_pos (Nat.pos_of_ne_zero hn) (Nat.pos_of_ne_zero hsteps)
    have h := trotter_global_bound As (genMat_mem_skew N gens1) T (n * steps) hpos
    rw [hsum] at h
    have e : ((dt / n : ℚ) : ℝ) = T / ((n * steps : ℕ) : ℝ) := by
      rw [hT]
      have h1 : (n : ℝ) ≠ 0 := by exact_mod_cast hn
      have h2 : (steps : ℝ) ≠ 0 := by exact_mod_cast hsteps
      push_cast
      field_simp
    rw [hU n hn, e]
    exact h
  refine ⟨hbound, ?_⟩
  rw [tendsto_iff_norm_sub_tendsto_zero]
  have hC : 0 ≤ T ^ 2 * (As.map norm).sum ^ 2 * Real.exp (|T| * (As.map norm).sum) := by positivity
  refine squeeze_zero' (Eventually.of_forall fun _ => norm_nonneg _) ?_
    (tendsto_const_div_atTop_nhds_zero_nat (T ^ 2 * (As.map norm).sum ^ 2 * Real.exp (|T| * (As.map norm).sum)))
  filter_upwards [eventually_gt_atTop 0] with n hn
  refine (hbound n (by omega)).trans ?_
  apply div_le_div_of_nonneg_left hC (by exact_mod_cast hn)
  have : 1 ≤ steps := Nat.pos_of_ne_zero hsteps
  exact_mod_cast Nat.le_mul_of_pos_right n this

end converges


/-- the Jordan–Wigner Hamiltonian of the 1-D builder (`↑[j] = j`, `↓[j] = L + j`) -/
def hubbardJW1d (L : Nat) (u t mu : Rat) : Matrix (Fin (2 ^ (2 * L))) (Fin (2 ^ (2 * L))) ℂ :=
  hubbardJW (2 * L) (fun j => j) (fun j => L + j) (List.range L) (fh1dBonds L) u t mu

/-- the Jordan–Wigner Hamiltonian of the 2-D builder (`↑[p] = 2p`, `↓[p] = 2p + 1`) -/
def hubbardJW2d (Lx Ly : Nat) (u t mu : Rat) : Matrix (Fin (2 ^ (2 * (Lx * Ly)))) (Fin (2 ^ (2 * (Lx * Ly)))) ℂ :=
  hubbardJW (2 * (Lx * Ly)) (fun p => 2 * p) (fun p => 2 * p + 1) (List.range (Lx * Ly)) (fh2dBonds Lx Ly) u t mu

theorem fh1dGens1_sum (L : Nat) (u t mu : Rat) :
    ((fh1dGens1 L u t mu).map (genMat (2 * L))).sum = (-Complex.I) • hubbardJW1d L u t mu := by
  have h := (genSum_secondOrder (2 * L) (chemTerms (2 * L) (fun j => j) (fun j => L + j) (List.range L) mu)
    (onsiteTerms (2 * L) (fun j => j) (fun j => L + j) (List.range L) u)
    (hopTerms (2 * L) (fun j => j) (fun j => L + j) (fh1dBonds L) t)).trans (genSum_eq_ham _ _)
  have h2 := hubbard1d_jw L u t mu
  unfold hubbard1dTerms hubbardTerms at h2
  rw [h2] at h
  exact h

theorem fh2dGens1_sum (Lx Ly : Nat) (u t mu : Rat) :
    ((fh2dGens1 Lx Ly u t mu).map (genMat (2 * (Lx * Ly)))).sum = (-Complex.I) • hubbardJW2d Lx Ly u t mu := by
  have h := (genSum_secondOrder (2 * (Lx * Ly))
    (chemTerms (2 * (Lx * Ly)) (fun p => 2 * p) (fun p => 2 * p + 1) (List.range (Lx * Ly)) mu)
    (onsiteTerms (2 * (Lx * Ly)) (fun p => 2 * p) (fun p => 2 * p + 1) (List.range (Lx * Ly)) u)
    (hopTerms (2 * (Lx * Ly)) (fun p => 2 * p) (fun p => 2 * p + 1) (fh2dBonds Lx Ly) t)).trans (genSum_eq_ham _ _)
  have h2 := hubbard2d_jw Lx Ly u t mu
  unfold hubbard2dTerms hubbardTerms at h2
  rw [h2] at h
  exact h

section consistent
open scoped Matrix.Norms.Operator

theorem fh1d_consistent (L : Nat) (u t mu : Rat) :
    (∀ (dt : Rat) (n : Nat), n ≠ 0 →
      circMat (2 * L) (fh1dSubstep L u t mu dt n) = stepCurve (2 * L) (fh1dGens1 L u t mu) ((dt / n : ℚ) : ℝ)) ∧
    stepCurve (2 * L) (fh1dGens1 L u t mu) 0 = 1 ∧
    HasDerivAt (stepCurve (2 * L) (fh1dGens1 L u t mu)) ((-Complex.I) • hubbardJW1d L u t mu) 0 := by
  refine ⟨fun dt n hn => fh1d_substep_curve L u t mu dt n hn, prodExp_zero _, ?_⟩
  rw [← fh1dGens1_sum]
  exact hasDerivAt_prodExp _

theorem fh2d_consistent (Lx Ly : Nat) (u t mu : Rat) :
    (∀ (dt : Rat) (n : Nat), n ≠ 0 →
      circMat (2 * (Lx * Ly)) (fh2dSubstep Lx Ly u t mu dt n)
        = stepCurve (2 * (Lx * Ly)) (fh2dGens1 Lx Ly u t mu) ((dt / n : ℚ) : ℝ)) ∧
    stepCurve (2 * (Lx * Ly)) (fh2dGens1 Lx Ly u t mu) 0 = 1 ∧
    HasDerivAt (stepCurve (2 * (Lx * Ly)) (fh2dGens1 Lx Ly u t mu)) ((-Complex.I) • hubbardJW2d Lx Ly u t mu) 0 := by
  refine ⟨fun dt n hn => fh2d_substep_curve Lx Ly u t mu dt n hn, prodExp_zero _, ?_⟩
  rw [← fh2dGens1_sum]
  exact hasDerivAt_prodExp _

end consistent

section converges
open scoped Matrix.Norms.L2Operator
open Filter Topology

theorem fh1d_converges (L : Nat) (u t mu dt : Rat) (steps : Nat) (hsteps : steps ≠ 0) :
    (∀ n : ℕ, n ≠ 0 →
      ‖circMat (2 * L) (fh1dCircuit L u t mu dt n steps)
          - exp ((((steps : ℚ) * dt : ℚ) : ℝ) • ((-Complex.I) • hubbardJW1d L u t mu))‖
        ≤ (((steps : ℚ) * dt : ℚ) : ℝ) ^ 2 * (((fh1dGens1 L u t mu).map (genMat (2 * L))).map norm).sum ^ 2
            * Real.exp (|(((steps : ℚ) * dt : ℚ) : ℝ)| * (((fh1dGens1 L u t mu).map (genMat (2 * L))).map norm).sum)
            / ((n * steps : ℕ) : ℝ)) ∧
    Tendsto (fun n : ℕ => circMat (2 * L) (fh1dCircuit L u t mu dt n steps)) atTop
      (𝓝 (exp ((((steps : ℚ) * dt : ℚ) : ℝ) • ((-Complex.I) • hubbardJW1d L u t mu)))) :=
  substeps_converge (2 * L) (fh1dGens1 L u t mu) _ (fh1dGens1_sum L u t mu) _ dt steps hsteps fun n hn => by
    unfold fh1dCircuit
    rw [circMat_repeat, fh1d_substep_curve L u t mu dt n hn]

theorem fh2d_converges (Lx Ly : Nat) (u t mu dt : Rat) (steps : Nat) (hsteps : steps ≠ 0) :
    (∀ n : ℕ, n ≠ 0 →
      ‖circMat (2 * (Lx * Ly)) (fh2dCircuit Lx Ly u t mu dt n steps)
          - exp ((((steps : ℚ) * dt : ℚ) : ℝ) • ((-Complex.I) • hubbardJW2d Lx Ly u t mu))‖
        ≤ (((steps : ℚ) * dt : ℚ) : ℝ) ^ 2
            * (((fh2dGens1 Lx Ly u t mu).map (genMat (2 * (Lx * Ly)))).map norm).sum ^ 2
            * Real.exp (|(((steps : ℚ) * dt : ℚ) : ℝ)|
                * (((fh2dGens1 Lx Ly u t mu).map (genMat (2 * (Lx * Ly)))).map norm).sum)
            / ((n * steps : ℕ) : ℝ)) ∧
    Tendsto (fun n : ℕ => circMat (2 * (Lx * Ly)) (fh2dCircuit Lx Ly u t mu dt n steps)) atTop
      (𝓝 (exp ((((steps : ℚ) * dt : ℚ) : ℝ) • ((-Complex.I) • hubbardJW2d Lx Ly u t mu)))) :=
  substeps_converge (2 * (Lx * Ly)) (fh2dGens1 Lx Ly u t mu) _ (fh2dGens1_sum Lx Ly u t mu) _ dt steps hsteps fun n hn => by
    unfold fh2dCircuit
    rw [circMat_repeat, fh2d_substep_curve Lx Ly u t mu dt n hn, Nat.mul_comm steps n]

end converges


/-! ### the merged coefficient table (what the driver prints for `fhmerged` / `fhterms`) is the same operator -/

theorem hamOfGens_map_addCoeff (L : Nat) (g : List Op × Rat) : ∀ (tbl : List (List Op × Rat)), (tbl.map Prod.fst).Nodup →
    hamOfGens L (tbl.map fun e => if e.1 = g.1 then (e.1, e.2 + g.2) else e)
      = hamOfGens L tbl + (if tbl.any (fun e => e.1 = g.1) then (((g.2 : ℝ) : ℂ)) • pauliMat L g.1 else 0) := by
  intro tbl
  induction tbl with
  | nil => intro _; simp [hamOfGens]
  | cons e rest ih =>
    intro hnd
    rw [List.map_cons, List.nodup_cons] at hnd
    obtain ⟨hnot, hrest⟩ := hnd
    rw [List.map_cons, hamOfGens_cons, hamOfGens_cons, ih hrest]
    by_cases he : e.1 = g.1
    · have hany : rest.any (fun e => e.1 = g.1) = false := by
        rw [List.any_eq_false]
        intro x hx hx1
        simp only [decide_eq_true_eq] at hx1
        exact hnot (List.mem_map.mpr ⟨x, hx, hx1.trans he.symm⟩)
      simp only [he, if_true, List.any_cons, decide_true, Bool.true_or, hany, Bool.false_eq_true, if_false, add_zero]
      push_cast
      rw [add_smul]
      abel
    · simp only [he, if_false, List.any_cons, decide_false, Bool.false_or]
      abel

theorem addCoeff_spec (L : Nat) (tbl : List (List Op × Rat)) (g : List Op × Rat) (hnd : (tbl.map Prod.fst).Nodup) :
    hamOfGens L (addCoeff tbl g) = hamOfGens L tbl + (((g.2 : ℝ) : ℂ)) • pauliMat L g.1 ∧
    ((addCoeff tbl g).map Prod.fst).Nodup := by
  unfold addCoeff
  by_cases h : tbl.any (fun e => e.1 = g.1) = true
  · rw [if_pos h]
    constructor
    · rw [hamOfGens_map_addCoeff L g tbl hnd, if_pos h]
    · have : (tbl.map fun e => if e.1 = g.1 then (e.1, e.2 + g.2) else e).map Prod.fst = tbl.map Prod.fst := by
        rw [List.map_map]
        apply List.map_congr_left
        intro e _
        by_cases he : e.1 = g.1 <;> simp [he]
      rw [this]
      exact hnd
  · rw [if_neg h]
    constructor
    · rw [hamOfGens_append, hamOfGens_cons, hamOfGens_nil, add_zero]
    · rw [List.map_append, List.map_cons, List.map_nil]
      apply List.Nodup.append hnd (List.nodup_singleton _)
      intro a ha hb
      rw [List.mem_singleton] at hb
      subst hb
      apply h
      rw [List.any_eq_true]
      obtain ⟨x, hx, hx1⟩ := List.mem_map.mp ha
      exact ⟨x, hx, by simpa using hx1⟩

theorem foldl_addCoeff_spec (L : Nat) (gens : List (List Op × Rat)) : ∀ (tbl : List (List Op × Rat)), (tbl.map Prod.fst).Nodup →
    hamOfGens L (gens.foldl addCoeff tbl) = hamOfGens L tbl + hamOfGens L gens ∧
    ((gens.foldl addCoeff tbl).map Prod.fst).Nodup := by
  induction gens with
  | nil => intro tbl h; simp [hamOfGens, h]
  | cons g gs ih =>
    intro tbl h
    obtain ⟨h1, h2⟩ := addCoeff_spec L tbl g h
    obtain ⟨h3, h4⟩ := ih (addCoeff tbl g) h2
    rw [List.foldl_cons]
    refine ⟨?_, h4⟩
    rw [h3, h1, hamOfGens_cons]
    abel

theorem hamOfGens_filter_nonzero (L : Nat) (gens : List (List Op × Rat)) :
    hamOfGens L (gens.filter fun e => e.2 ≠ 0) = hamOfGens L gens := by
  induction gens with
  | nil => rfl
  | cons g gs ih =>
    by_cases hc : g.2 = 0
    · rw [List.filter_cons_of_neg (by simp [hc]), hamOfGens_cons, ih, hc]
      simp
    · rw [List.filter_cons_of_pos (by simpa using hc), hamOfGens_cons, hamOfGens_cons, ih]

/-- merging equal strings and dropping zero sums does not change the operator, and the merged table has one entry per string -/
theorem mergeGens_spec (L : Nat) (gens : List (List Op × Rat)) :
    hamOfGens L (mergeGens gens) = hamOfGens L gens ∧ ((mergeGens gens).map Prod.fst).Nodup ∧
    ∀ e ∈ mergeGens gens, e.2 ≠ 0 := by
  unfold mergeGens
  obtain ⟨h1, h2⟩ := foldl_addCoeff_spec L gens [] (by simp)
  refine ⟨?_, ?_, ?_⟩
  · rw [hamOfGens_filter_nonzero, h1, hamOfGens_nil, zero_add]
  · exact (h2.sublist ((List.filter_sublist).map _))
  · intro e he
    have := (List.mem_filter.mp he).2
    simpa using this


end

end Yaqs.Trotter
