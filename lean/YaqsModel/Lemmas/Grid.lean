import YaqsModel.Model.Grid
import Mathlib.Tactic.Linarith
import Mathlib.Tactic.Ring
import Mathlib.Tactic.NormNum
import Mathlib.Tactic.FieldSimp
import Mathlib.Algebra.Order.Ring.Rat
import Mathlib.Algebra.Order.Field.Basic
import Mathlib.Data.Nat.Cast.Order.Ring

/-! helper lemmas for the time grid: rounding to the nearest integer, error propagation in the standard model -/
namespace Yaqs.Grid

theorem absQ_le_iff (x b : Rat) : absQ x ≤ b ↔ -b ≤ x ∧ x ≤ b := by
  unfold absQ
  split
  · constructor
    · intro h; constructor <;> linarith
    · intro h; linarith [h.1]
  · constructor
    · intro h; constructor <;> linarith
    · intro h; exact h.2

theorem floor_eq_of (q : Rat) (k : Int) (h1 : (k : Rat) ≤ q) (h2 : q < (k : Rat) + 1) : q.floor = k := by
  have a : k ≤ q.floor := Rat.le_floor_iff.mpr h1
  have b : (q.floor : Rat) ≤ q := Rat.floor_le q
  have c : (q.floor : Rat) < ((k + 1 : Int) : Rat) := by push_cast; linarith
  have d : q.floor < k + 1 := by exact_mod_cast c
  omega

/-- a rational closer than ½ to an integer rounds to it -/
theorem rne_eq_of_near (q : Rat) (k : Int) (h1 : (k : Rat) - 1 / 2 < q) (h2 : q < (k : Rat) + 1 / 2) :
    rne q = k := by
  unfold rne
  by_cases hq : (k : Rat) ≤ q
  · have hf : q.floor = k := floor_eq_of q k hq (by linarith)
    simp only [hf]
    have : q - (k : Rat) < 1 / 2 := by linarith
    rw [if_pos this]
  · have hq' : q < (k : Rat) := lt_of_not_ge hq
    have hf : q.floor = k - 1 := floor_eq_of q (k - 1) (by push_cast; linarith) (by push_cast; linarith)
    simp only [hf]
    have h3 : ¬ (q - ((k - 1 : Int) : Rat) < 1 / 2) := by push_cast; linarith
    have h4 : 1 / 2 < q - ((k - 1 : Int) : Rat) := by push_cast; linarith
    rw [if_neg h3, if_pos h4]
    omega

/-- product of three factors each within `2⁻⁵³` of 1 is within `2⁻⁵¹` of 1 -/
theorem three_roundings (a b c : Rat) (ha : absQ a ≤ u64) (hb : absQ b ≤ u64) (hc : absQ c ≤ u64) :
    absQ ((1 + a) * (1 + b) * (1 + c) - 1) ≤ 1 / 2 ^ 51 := by
  rw [absQ_le_iff] at ha hb hc ⊢
  unfold u64 at ha hb hc
  obtain ⟨ha1, ha2⟩ := ha
  obtain ⟨hb1, hb2⟩ := hb
  obtain ⟨hc1, hc2⟩ := hc
  have hx0 : 0 ≤ 1 + a := by norm_num at ha1 ⊢; linarith
  have hy0 : 0 ≤ 1 + b := by norm_num at hb1 ⊢; linarith
  have hz0 : 0 ≤ 1 + c := by norm_num at hc1 ⊢; linarith
  have hup2 : (1 + a) * (1 + b) ≤ (1 + 1 / 2 ^ 53) * (1 + 1 / 2 ^ 53) :=
    mul_le_mul (by linarith) (by linarith) hy0 (by norm_num)
  have hup3 : (1 + a) * (1 + b) * (1 + c) ≤ (1 + 1 / 2 ^ 53) * (1 + 1 / 2 ^ 53) * (1 + 1 / 2 ^ 53) :=
    mul_le_mul hup2 (by linarith) hz0 (by norm_num)
  have hlo2 : (1 - 1 / 2 ^ 53) * (1 - 1 / 2 ^ 53) ≤ (1 + a) * (1 + b) :=
    mul_le_mul (by linarith) (by linarith) (by norm_num) hx0
  have hlo3 : (1 - 1 / 2 ^ 53) * (1 - 1 / 2 ^ 53) * (1 - 1 / 2 ^ 53) ≤ (1 + a) * (1 + b) * (1 + c) :=
    mul_le_mul hlo2 (by linarith) (by norm_num) (mul_nonneg hx0 hy0)
  constructor
  · have : -(1 / 2 ^ 51 : Rat) ≤ (1 - 1 / 2 ^ 53) * (1 - 1 / 2 ^ 53) * (1 - 1 / 2 ^ 53) - 1 := by norm_num
    linarith
  · have : (1 + 1 / 2 ^ 53 : Rat) * (1 + 1 / 2 ^ 53) * (1 + 1 / 2 ^ 53) - 1 ≤ 1 / 2 ^ 51 := by norm_num
    linarith

/-- two roundings, the first with `2⁻⁵²`: within `2⁻⁵¹` -/
theorem two_roundings (a b : Rat) (ha : absQ a ≤ 1 / 2 ^ 52) (hb : absQ b ≤ u64) :
    absQ ((1 + a) * (1 + b) - 1) ≤ 1 / 2 ^ 51 := by
  rw [absQ_le_iff] at ha hb ⊢
  unfold u64 at hb
  obtain ⟨ha1, ha2⟩ := ha
  obtain ⟨hb1, hb2⟩ := hb
  have hx0 : 0 ≤ 1 + a := by norm_num at ha1 ⊢; linarith
  have hy0 : 0 ≤ 1 + b := by norm_num at hb1 ⊢; linarith
  have hup2 : (1 + a) * (1 + b) ≤ (1 + 1 / 2 ^ 52) * (1 + 1 / 2 ^ 53) :=
    mul_le_mul (by linarith) (by linarith) hy0 (by norm_num)
  have hlo2 : (1 - 1 / 2 ^ 52) * (1 - 1 / 2 ^ 53) ≤ (1 + a) * (1 + b) :=
    mul_le_mul (by linarith) (by linarith) (by norm_num) hx0
  constructor
  · have : -(1 / 2 ^ 51 : Rat) ≤ (1 - 1 / 2 ^ 52) * (1 - 1 / 2 ^ 53) - 1 := by norm_num
    linarith
  · have : (1 + 1 / 2 ^ 52 : Rat) * (1 + 1 / 2 ^ 53) - 1 ≤ 1 / 2 ^ 51 := by norm_num
    linarith

end Yaqs.Grid
