import YaqsModel.Lemmas.TrotterPauli
import YaqsModel.Model.TrotterHubbard
import Mathlib.Logic.Equiv.Fin.Basic
import Mathlib.Algebra.BigOperators.Pi
import Mathlib.Algebra.BigOperators.Ring.Finset
import Mathlib.Algebra.BigOperators.Fin
import Mathlib.Data.Fintype.BigOperators

/-!
# Lemmas.TrotterKron — Kronecker products of one-site matrices on `2^L` indices (xh07 extension of C07)

`kronFn L f` is `f 0 ⊗ f 1 ⊗ ⋯ ⊗ f (L-1)` (site 0 the leftmost factor, the convention of `pauliMat` / `MPO.to_matrix`) written
entrywise through the binary digits `dig L i k = cfg L i k` of the row / column index.  It is multiplicative site by site
(`kronFn_mul`), multilinear in every slot (`kronFn_update_add`, `kronFn_update_smul`), `kronFn_one`, and the Pauli strings of
`Lemmas/TrotterPauli.lean` are the special case `pauliMat_eq_kronFn`.
-/
namespace Yaqs.Trotter

open Matrix

noncomputable section

/-- binary digit `k` (site `k`, site 0 most significant) of the index `i` of a `2^L`-dimensional matrix -/
def dig (L : Nat) (i : Fin (2 ^ L)) (k : Fin L) : Fin 2 := ⟨cfg L i.val k.val, Nat.mod_lt _ (by norm_num)⟩

theorem dig_val (L : Nat) (i : Fin (2 ^ L)) (k : Fin L) : (dig L i k).val = cfg L i.val k.val := rfl

/-- the digits of an index, as an equivalence with the digit functions (Mathlib's little-endian `finFunctionFinEquiv`
    read from the other end) -/
def digE (L : Nat) : Fin (2 ^ L) ≃ (Fin L → Fin 2) :=
  finFunctionFinEquiv.symm.trans (Equiv.arrowCongr Fin.revPerm (Equiv.refl _))

theorem digE_apply (L : Nat) (i : Fin (2 ^ L)) : digE L i = dig L i := by
  funext k
  apply Fin.ext
  simp only [digE, Equiv.trans_apply, Equiv.arrowCongr_apply, Equiv.refl_apply, Fin.revPerm_symm, Fin.revPerm_apply,
    Function.comp_apply, finFunctionFinEquiv_symm_apply_val, Fin.val_rev, dig_val, cfg]
  congr 3
  omega

theorem dig_injective (L : Nat) : Function.Injective (dig L) := by
  intro i j h
  apply (digE L).injective
  rw [digE_apply, digE_apply, h]

/-- `f 0 ⊗ f 1 ⊗ ⋯ ⊗ f (L-1)`, site 0 leftmost -/
def kronFn (L : Nat) (f : Fin L → Matrix (Fin 2) (Fin 2) ℂ) : Matrix (Fin (2 ^ L)) (Fin (2 ^ L)) ℂ :=
  Matrix.of fun i j => ∏ k, f k (dig L i k) (dig L j k)

theorem kronFn_apply (L : Nat) (f : Fin L → Matrix (Fin 2) (Fin 2) ℂ) (i j : Fin (2 ^ L)) :
    kronFn L f i j = ∏ k, f k (dig L i k) (dig L j k) := rfl

/-- **the Kronecker product is multiplicative site by site** -/
theorem kronFn_mul (L : Nat) (f g : Fin L → Matrix (Fin 2) (Fin 2) ℂ) :
    kronFn L f * kronFn L g = kronFn L fun k => f k * g k := by
  ext i j
  rw [Matrix.mul_apply, kronFn_apply]
  simp only [kronFn_apply, Matrix.mul_apply]
  rw [Finset.prod_univ_sum, Fintype.piFinset_univ]
  rw [← Equiv.sum_comp (digE L)]
  apply Finset.sum_congr rfl
  intro m _
  rw [digE_apply, ← Finset.prod_mul_distrib]

theorem kronFn_one (L : Nat) : kronFn L (fun _ => 1) = 1 := by
  ext i j
  rw [kronFn_apply]
  simp only [Matrix.one_apply]
  rw [Finset.prod_ite_zero]
  simp only [Finset.mem_univ, forall_const, Finset.prod_const_one]
  by_cases h : i = j
  · subst h; simp
  · rw [if_neg h, if_neg]
    intro hd
    exact h (dig_injective L (funext hd))

theorem kronFn_congr (L : Nat) {f g : Fin L → Matrix (Fin 2) (Fin 2) ℂ} (h : ∀ k, f k = g k) : kronFn L f = kronFn L g := by
  rw [funext h]

/-- a zero factor kills the product -/
theorem kronFn_eq_zero (L : Nat) (f : Fin L → Matrix (Fin 2) (Fin 2) ℂ) (q : Fin L) (h : f q = 0) : kronFn L f = 0 := by
  ext i j
  rw [kronFn_apply]
  exact Finset.prod_eq_zero (Finset.mem_univ q) (by rw [h]; rfl)

/-- linearity in slot `q` -/
theorem kronFn_update_add (L : Nat) (f : Fin L → Matrix (Fin 2) (Fin 2) ℂ) (q : Fin L) (A B : Matrix (Fin 2) (Fin 2) ℂ) :
    kronFn L (Function.update f q (A + B)) = kronFn L (Function.update f q A) + kronFn L (Function.update f q B) := by
  ext i j
  simp only [Matrix.add_apply, kronFn_apply]
  rw [← Finset.mul_prod_erase _ _ (Finset.mem_univ q), ← Finset.mul_prod_erase _ _ (Finset.mem_univ q),
    ← Finset.mul_prod_erase _ _ (Finset.mem_univ q)]
  simp only [Function.update_self, Matrix.add_apply]
  have e (C : Matrix (Fin 2) (Fin 2) ℂ) :
      ∏ k ∈ Finset.univ.erase q, Function.update f q C k (dig L i k) (dig L j k)
        = ∏ k ∈ Finset.univ.erase q, f k (dig L i k) (dig L j k) := by
    apply Finset.prod_congr rfl
    intro k hk
    rw [Function.update_of_ne (Finset.ne_of_mem_erase hk)]
  rw [e, e, e]
  ring

theorem kronFn_update_smul (L : Nat) (f : Fin L → Matrix (Fin 2) (Fin 2) ℂ) (q : Fin L) (c : ℂ)
    (A : Matrix (Fin 2) (Fin 2) ℂ) :
    kronFn L (Function.update f q (c • A)) = c • kronFn L (Function.update f q A) := by
  ext i j
  simp only [Matrix.smul_apply, kronFn_apply, smul_eq_mul]
  rw [← Finset.mul_prod_erase _ _ (Finset.mem_univ q), ← Finset.mul_prod_erase _ _ (Finset.mem_univ q)]
  simp only [Function.update_self, Matrix.smul_apply, smul_eq_mul]
  have e (C : Matrix (Fin 2) (Fin 2) ℂ) :
      ∏ k ∈ Finset.univ.erase q, Function.update f q C k (dig L i k) (dig L j k)
        = ∏ k ∈ Finset.univ.erase q, f k (dig L i k) (dig L j k) := by
    apply Finset.prod_congr rfl
    intro k hk
    rw [Function.update_of_ne (Finset.ne_of_mem_erase hk)]
  rw [e, e]
  ring

theorem kronFn_conjTranspose (L : Nat) (f : Fin L → Matrix (Fin 2) (Fin 2) ℂ) :
    (kronFn L f)ᴴ = kronFn L fun k => (f k)ᴴ := by
  ext i j
  simp only [conjTranspose_apply, kronFn_apply, star_prod]

/-- a Kronecker product of diagonal matrices is diagonal -/
theorem kronFn_diagonal (L : Nat) (d : Fin L → Fin 2 → ℂ) :
    kronFn L (fun k => Matrix.diagonal (d k)) = Matrix.diagonal fun i => ∏ k, d k (dig L i k) := by
  ext i j
  rw [kronFn_apply]
  by_cases h : i = j
  · subst h
    simp
  · rw [Matrix.diagonal_apply_ne _ h]
    have : ∃ k, dig L i k ≠ dig L j k := by
      by_contra hc
      push Not at hc
      exact h (dig_injective L (funext hc))
    obtain ⟨k, hk⟩ := this
    exact Finset.prod_eq_zero (Finset.mem_univ k) (Matrix.diagonal_apply_ne _ hk)

/-- two products that differ only in slot `q`, where they add up -/
theorem kronFn_add_slot (L : Nat) (f g h : Fin L → Matrix (Fin 2) (Fin 2) ℂ) (q : Fin L) (hq : h q = f q + g q)
    (hne : ∀ k, k ≠ q → f k = h k ∧ g k = h k) : kronFn L f + kronFn L g = kronFn L h := by
  have ef : f = Function.update h q (f q) := by
    funext k
    by_cases hk : k = q
    · subst hk; simp
    · rw [Function.update_of_ne hk, (hne k hk).1]
  have eg : g = Function.update h q (g q) := by
    funext k
    by_cases hk : k = q
    · subst hk; simp
    · rw [Function.update_of_ne hk, (hne k hk).2]
  have eh : h = Function.update h q (f q + g q) := by
    rw [← hq]; simp
  rw [ef, eg, eh, kronFn_update_add]
  simp

/-- a scalar in slot `q` comes out -/
theorem kronFn_smul_slot (L : Nat) (f h : Fin L → Matrix (Fin 2) (Fin 2) ℂ) (q : Fin L) (c : ℂ) (hq : f q = c • h q)
    (hne : ∀ k, k ≠ q → f k = h k) : kronFn L f = c • kronFn L h := by
  have ef : f = Function.update h q (c • h q) := by
    funext k
    by_cases hk : k = q
    · subst hk; simp [hq]
    · rw [Function.update_of_ne hk, hne k hk]
  have eh : h = Function.update h q (h q) := by simp
  rw [ef, kronFn_update_smul, ← eh]

/-- a product over the sites all of whose factors except possibly the one at site `q` are 1 -/
theorem prod_single_site (L q : Nat) (F : Fin L → ℂ) (h : ∀ k : Fin L, k.val ≠ q → F k = 1) :
    ∏ k, F k = if hq : q < L then F ⟨q, hq⟩ else 1 := by
  by_cases hq : q < L
  · rw [dif_pos hq]
    apply Finset.prod_eq_single_of_mem _ (Finset.mem_univ _)
    intro k _ hk
    exact h k fun e => hk (Fin.ext e)
  · rw [dif_neg hq]
    apply Finset.prod_eq_one
    intro k _
    exact h k (by have := k.isLt; omega)

/-! ### Pauli strings -/

/-- the 2 × 2 Pauli matrix of a label -/
def pauliM (o : Op) : Matrix (Fin 2) (Fin 2) ℂ := Matrix.of fun a b => pauliC o a.val b.val

theorem termProd_eq_prod {K : Type} [CommMonoid K] [Zero K] [Add K] {α : Type} (P : Op → α → α → K) (ops : List Op)
    (σ σ' : Nat → α) (n s : Nat) :
    termProd P ops σ σ' s n = ∏ k ∈ Finset.range n, P (ops.getD (s + k) Op.I) (σ (s + k)) (σ' (s + k)) := by
  induction n generalizing s with
  | zero => simp [termProd]
  | succ n ih =>
    rw [termProd, ih, Finset.prod_range_succ']
    rw [mul_comm]
    congr 1
    apply Finset.prod_congr rfl
    intro k _
    rw [show s + 1 + k = s + (k + 1) by omega]

/-- a Pauli string of `TrotterPauli` is the Kronecker product of its one-site Pauli matrices -/
theorem pauliMat_eq_kronFn (L : Nat) (ops : List Op) (hl : ops.length = L) :
    pauliMat L ops = kronFn L fun k => pauliM (ops.getD k.val Op.I) := by
  ext i j
  rw [pauliMat_apply, pauliEntry_eq_termProd L ops hl i.val j.val i.isLt j.isLt, termProd_eq_prod, kronFn_apply,
    Finset.prod_range]
  apply Finset.prod_congr rfl
  intro k _
  simp only [zero_add, pauliM, Matrix.of_apply, dig_val]

theorem strOf_length (L : Nat) (s : Nat → Op) : (strOf L s).length = L := by simp [strOf]

theorem strOf_getD (L : Nat) (s : Nat → Op) (k : Nat) (hk : k < L) : (strOf L s).getD k Op.I = s k := by
  simp [strOf, List.getD_eq_getElem?_getD, hk]

/-- `pauliMat` of a string given as a function of the site -/
theorem pauliMat_strOf (L : Nat) (s : Nat → Op) : pauliMat L (strOf L s) = kronFn L fun k => pauliM (s k.val) := by
  rw [pauliMat_eq_kronFn L _ (strOf_length L s)]
  apply kronFn_congr
  intro k
  rw [strOf_getD L s k.val k.isLt]

theorem strOf_congr (L : Nat) {s s' : Nat → Op} (h : ∀ k < L, s k = s' k) : strOf L s = strOf L s' := by
  unfold strOf
  apply List.map_congr_left
  intro k hk
  exact h k (List.mem_range.mp hk)

end

end Yaqs.Trotter
