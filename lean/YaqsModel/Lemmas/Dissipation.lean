import YaqsModel.Model.Dissipation
import YaqsModel.Lemmas.Layers
import Mathlib.Algebra.BigOperators.Group.List.Basic
import Mathlib.Algebra.BigOperators.Group.List.Lemmas
import Mathlib.Data.List.Perm.Basic

/-! helper lemmas for the dissipation sweep and the noisy pipeline (kept apart from the property theorems of C03) -/
namespace Yaqs.Dissipation
open Yaqs.Lottery List

/-! ### the enumerated process list -/

theorem indexed_map_snd (k : Nat) (ps : List Proc) : (indexed k ps).map Prod.snd = ps := by
  induction ps generalizing k with
  | nil => rfl
  | cons p ps ih => simp [indexed, ih]

theorem indexed_length (k : Nat) (ps : List Proc) : (indexed k ps).length = ps.length := by
  induction ps generalizing k with
  | nil => rfl
  | cons p ps ih => simp [indexed, ih]

theorem indexed_fst_ge (k : Nat) (ps : List Proc) (x : Nat × Proc) (hx : x ∈ indexed k ps) : k ≤ x.1 := by
  induction ps generalizing k with
  | nil => simp [indexed] at hx
  | cons p ps ih =>
    simp only [indexed, List.mem_cons] at hx
    rcases hx with h | h
    · subst h; exact Nat.le_refl _
    · exact Nat.le_of_succ_le (ih (k + 1) h)

theorem indexed_lookup (k : Nat) (ps : List Proc) (x : Nat × Proc) (hx : x ∈ indexed k ps) :
    ps[x.1 - k]? = some x.2 := by
  induction ps generalizing k with
  | nil => simp [indexed] at hx
  | cons p ps ih =>
    simp only [indexed, List.mem_cons] at hx
    rcases hx with h | h
    · subst h; simp
    · have hge := indexed_fst_ge (k + 1) ps x h
      have := ih (k + 1) h
      have e : x.1 - k = (x.1 - (k + 1)) + 1 := by omega
      rw [e, List.getElem?_cons_succ]
      exact this

theorem indexed_lookup0 (ps : List Proc) (x : Nat × Proc) (hx : x ∈ indexed 0 ps) : ps[x.1]? = some x.2 := by
  simpa using indexed_lookup 0 ps x hx

theorem indexed_mem_snd (k : Nat) (ps : List Proc) (x : Nat × Proc) (hx : x ∈ indexed k ps) : x.2 ∈ ps := by
  have := indexed_lookup k ps x hx
  exact List.mem_of_getElem? this

theorem indexed_pairwise (k : Nat) (ps : List Proc) : (indexed k ps).Pairwise (fun a b => a.1 < b.1) := by
  induction ps generalizing k with
  | nil => simp [indexed]
  | cons p ps ih =>
    simp only [indexed, List.pairwise_cons]
    exact ⟨fun b hb => indexed_fst_ge (k + 1) ps b hb, ih (k + 1)⟩

/-! ### an exception-free sweep is not cut -/

theorem cutAtRaise_eq_self (ops : List Op) (h : ∀ o ∈ ops, o.isRaise = false) : cutAtRaise ops = ops := by
  induction ops with
  | nil => rfl
  | cons o r ih =>
    have ho := h o (by simp)
    have hr : ∀ x ∈ r, x.isRaise = false := fun x hx => h x (by simp [hx])
    cases o with
    | raise k => simp [Op.isRaise] at ho
    | qr i => simp [cutAtRaise, ih hr]
    | svd i => simp [cutAtRaise, ih hr]
    | app k t c kd => simp [cutAtRaise, ih hr]

/-! ### what the two loops emit for well-sited processes -/

theorem hit1_iff (i : Nat) (p : Proc) : hit1 i p = true ↔ p.sites = [i] := by
  unfold hit1
  split
  · rename_i s hs; simp [hs]
  · rename_i h
    constructor
    · intro hf; cases hf
    · intro hs; exact absurd hs (h i)

theorem here2_iff (i : Nat) (p : Proc) : here2 i p = true ↔ ∃ s0, p.sites = [s0, i] := by
  unfold here2
  split
  · rename_i s0 s1 hs
    simp only [beq_iff_eq, hs]
    constructor
    · intro h; exact ⟨s0, by rw [h]⟩
    · rintro ⟨t, ht⟩; simp at ht; exact ht.2
  · rename_i h
    constructor
    · intro hf; cases hf
    · rintro ⟨s0, hs⟩; exact absurd hs (h s0 i)

theorem op1_eq_expected (dt : Rat) (i : Nat) (kp : Nat × Proc) (h : hit1 i kp.2 = true) :
    op1 dt i kp = expectedOp dt kp := by
  have hs := (hit1_iff i kp.2).mp h
  unfold op1 expectedOp targetOf kindOf
  simp [hs]

theorem op2_eq_expected (L : Nat) (dt : Rat) (i : Nat) (kp : Nat × Proc) (h : here2 i kp.2 = true)
    (hw : wellSited L kp.2 = true) : op2 dt i kp = expectedOp dt kp := by
  obtain ⟨s0, hs⟩ := (here2_iff i kp.2).mp h
  unfold wellSited at hw
  simp only [hs, Bool.and_eq_true, decide_eq_true_eq, Bool.or_eq_true, beq_iff_eq] at hw
  unfold op2 expectedOp targetOf kindOf isLongrange
  by_cases hp : kp.2.pauli = true
  · simp [hs, hp]
  · have hadj : i = s0 + 1 := by
      rcases hw.2 with h' | h'
      · exact absurd h' hp
      · exact h'
    subst hadj
    simp [hs, hp]
    omega

/-- a well-sited two-site process is never handled at site 0 -/
theorem here2_zero_false (L : Nat) (p : Proc) (hw : wellSited L p = true) : here2 0 p = false := by
  by_contra hc
  have hc' : here2 0 p = true := by simpa using hc
  obtain ⟨s0, hs⟩ := (here2_iff 0 p).mp hc'
  unfold wellSited at hw
  simp [hs] at hw

theorem hit1_here2_exclusive (i : Nat) (p : Proc) : ¬ (hit1 i p = true ∧ here2 i p = true) := by
  rintro ⟨h1, h2⟩
  have a := (hit1_iff i p).mp h1
  obtain ⟨s0, b⟩ := (here2_iff i p).mp h2
  rw [a] at b
  simp at b

theorem anchorOf_eq_iff (L : Nat) (p : Proc) (hw : wellSited L p = true) (i : Nat) :
    anchorOf p = i ↔ (hit1 i p = true ∨ here2 i p = true) := by
  unfold wellSited at hw
  rw [hit1_iff, here2_iff]
  unfold anchorOf
  split at hw
  · rename_i s hs
    simp [hs]
  · rename_i s0 s1 hs
    simp only [hs, List.getLastD_cons, List.getLastD_nil]
    constructor
    · intro h; right; exact ⟨s0, by rw [h]⟩
    · rintro (h | ⟨t, h⟩)
      · simp at h
      · simp at h; exact h.2
  · cases hw

theorem anchorOf_lt (L : Nat) (p : Proc) (hw : wellSited L p = true) : anchorOf p < L := by
  unfold wellSited at hw
  unfold anchorOf
  split at hw
  · rename_i s hs; simpa [hs] using hw
  · rename_i s0 s1 hs
    simp only [Bool.and_eq_true, decide_eq_true_eq] at hw
    simpa [hs] using hw.1.2
  · cases hw

/-! ### splitting a list by two exclusive predicates, and by a bounded key -/

theorem filter_two_perm {α : Type} (l : List α) (p q r : α → Bool)
    (hr : ∀ x ∈ l, r x = (p x || q x)) (hd : ∀ x ∈ l, ¬ (p x = true ∧ q x = true)) :
    (l.filter p ++ l.filter q).Perm (l.filter r) := by
  induction l with
  | nil => simp
  | cons x l ih =>
    have ih' := ih (fun y hy => hr y (by simp [hy])) (fun y hy => hd y (by simp [hy]))
    have hrx := hr x (by simp)
    have hdx := hd x (by simp)
    cases hp : p x <;> cases hq : q x
    · have : r x = false := by rw [hrx, hp, hq]; rfl
      simpa [List.filter_cons, hp, hq, this] using ih'
    · have : r x = true := by rw [hrx, hp, hq]; rfl
      simp only [List.filter_cons, hp, hq, this, if_true, Bool.false_eq_true, if_false]
      exact List.perm_middle.trans (List.Perm.cons x ih')
    · have : r x = true := by rw [hrx, hp, hq]; rfl
      simp only [List.filter_cons, hp, hq, this, if_true, Bool.false_eq_true, if_false, List.cons_append]
      exact List.Perm.cons x ih'
    · exact absurd ⟨hp, hq⟩ hdx

theorem sitesDown_succ (L : Nat) : sitesDown (L + 1) = L :: sitesDown L := by
  unfold sitesDown
  rw [List.range_succ, List.reverse_append]
  rfl

theorem mem_sitesDown (L i : Nat) : i ∈ sitesDown L ↔ i < L := by
  unfold sitesDown
  simp

theorem sitesDown_pairwise (L : Nat) : (sitesDown L).Pairwise (fun a b => b < a) := by
  unfold sitesDown
  rw [List.pairwise_reverse]
  exact List.pairwise_lt_range

/-- visiting the keys `L-1, …, 0` and collecting the elements with that key enumerates the elements with key `< L` -/
theorem flatMap_key_perm {α : Type} (key : α → Nat) (l : List α) (L : Nat) :
    ((sitesDown L).flatMap (fun i => l.filter (fun x => key x == i))).Perm (l.filter (fun x => decide (key x < L))) := by
  induction L with
  | zero => simp [sitesDown]
  | succ L ih =>
    rw [sitesDown_succ, List.flatMap_cons]
    have h := filter_two_perm l (fun x => key x == L) (fun x => decide (key x < L)) (fun x => decide (key x < L + 1))
      (by
        intro x _
        by_cases h1 : key x = L
        · simp [h1]
        · by_cases h2 : key x < L
          · have : key x < L + 1 := by omega
            simp [h2, this]
          · have : ¬ key x < L + 1 := by omega
            simp [h1, h2, this])
      (by
        intro x _ ⟨h1, h2⟩
        simp only [beq_iff_eq, decide_eq_true_eq] at h1 h2
        omega)
    exact (List.Perm.append_left _ ih).trans h

/-! ### the sweep, site by site -/

/-- the process applications of one sweep position, written with `expectedOp` -/
def siteApps (dt : Rat) (ips : List (Nat × Proc)) (i : Nat) : List Op :=
  (ips.filter (fun kp => hit1 i kp.2)).map (expectedOp dt) ++ (ips.filter (fun kp => here2 i kp.2)).map (expectedOp dt)

/-- closed form of one sweep position for well-sited processes -/
theorem siteOps_wellSited (L : Nat) (dt : Rat) (ips : List (Nat × Proc)) (hw : ∀ kp ∈ ips, wellSited L kp.2 = true)
    (i : Nat) : siteOps dt ips i = siteApps dt ips i ++ (if i = 0 then [] else [Op.svd i]) := by
  unfold siteOps siteApps loop1 loop2
  have e1 : (ips.filter (fun kp => hit1 i kp.2)).map (op1 dt i) = (ips.filter (fun kp => hit1 i kp.2)).map (expectedOp dt) := by
    apply List.map_congr_left
    intro kp hkp
    exact op1_eq_expected dt i kp (List.mem_filter.mp hkp).2
  have e2 : (ips.filter (fun kp => here2 i kp.2)).map (op2 dt i) = (ips.filter (fun kp => here2 i kp.2)).map (expectedOp dt) := by
    apply List.map_congr_left
    intro kp hkp
    have := List.mem_filter.mp hkp
    exact op2_eq_expected L dt i kp this.2 (hw kp this.1)
  rw [e1, e2]
  by_cases hi : i = 0
  · subst hi
    have : ips.filter (fun kp => here2 0 kp.2) = [] := by
      apply List.filter_eq_nil_iff.mpr
      intro kp hkp
      simp [here2_zero_false L kp.2 (hw kp hkp)]
    simp [this]
  · simp [hi]

theorem expectedOp_isApp (dt : Rat) (kp : Nat × Proc) : (expectedOp dt kp).isApp = true := rfl

theorem apps_siteApps (dt : Rat) (ips : List (Nat × Proc)) (i : Nat) : apps (siteApps dt ips i) = siteApps dt ips i := by
  unfold apps
  apply List.filter_eq_self.mpr
  intro o ho
  unfold siteApps at ho
  simp only [List.mem_append, List.mem_map] at ho
  rcases ho with ⟨kp, _, rfl⟩ | ⟨kp, _, rfl⟩ <;> rfl

theorem siteApps_no_raise (dt : Rat) (ips : List (Nat × Proc)) (i : Nat) : ∀ o ∈ siteApps dt ips i, o.isRaise = false := by
  intro o ho
  unfold siteApps at ho
  simp only [List.mem_append, List.mem_map] at ho
  rcases ho with ⟨kp, _, rfl⟩ | ⟨kp, _, rfl⟩ <;> rfl

/-- closed form of the whole main branch for well-sited processes: no exception, hence nothing is cut -/
theorem fullOps_wellSited (L : Nat) (dt : Rat) (procs : List Proc) (hw : ∀ p ∈ procs, wellSited L p = true) :
    cutAtRaise (fullOps L dt procs) =
      (sitesDown L).flatMap (fun i => siteApps dt (indexed 0 procs) i ++ (if i = 0 then [] else [Op.svd i])) := by
  have hw' : ∀ kp ∈ indexed 0 procs, wellSited L kp.2 = true :=
    fun kp hkp => hw kp.2 (indexed_mem_snd 0 procs kp hkp)
  have e : fullOps L dt procs =
      (sitesDown L).flatMap (fun i => siteApps dt (indexed 0 procs) i ++ (if i = 0 then [] else [Op.svd i])) := by
    unfold fullOps
    apply List.flatMap_congr
    intro i _
    exact siteOps_wellSited L dt (indexed 0 procs) hw' i
  rw [e]
  apply cutAtRaise_eq_self
  intro o ho
  simp only [List.mem_flatMap, List.mem_append] at ho
  obtain ⟨i, _, h | h⟩ := ho
  · exact siteApps_no_raise dt _ i o h
  · split at h
    · simp at h
    · simp only [List.mem_singleton] at h; subst h; rfl

theorem apps_append (a b : List Op) : apps (a ++ b) = apps a ++ apps b := by
  unfold apps; exact List.filter_append ..

theorem shifts_append (a b : List Op) : shifts (a ++ b) = shifts a ++ shifts b := by
  unfold shifts; exact List.filter_append ..

theorem shifts_siteApps (dt : Rat) (ips : List (Nat × Proc)) (i : Nat) : shifts (siteApps dt ips i) = [] := by
  unfold shifts
  apply List.filter_eq_nil_iff.mpr
  intro o ho
  unfold siteApps at ho
  simp only [List.mem_append, List.mem_map] at ho
  rcases ho with ⟨kp, _, rfl⟩ | ⟨kp, _, rfl⟩ <;> simp [expectedOp, Op.isApp]

/-- all process applications of the sweep, as a permutation of one `expectedOp` per process -/
theorem apps_sweep_perm (L : Nat) (dt : Rat) (procs : List Proc) (hw : ∀ p ∈ procs, wellSited L p = true) :
    (apps ((sitesDown L).flatMap (fun i => siteApps dt (indexed 0 procs) i ++ (if i = 0 then [] else [Op.svd i])))).Perm
      ((indexed 0 procs).map (expectedOp dt)) := by
  have hw' : ∀ kp ∈ indexed 0 procs, wellSited L kp.2 = true :=
    fun kp hkp => hw kp.2 (indexed_mem_snd 0 procs kp hkp)
  generalize indexed 0 procs = ips at hw'
  -- step 1: the applications per site
  have e1 : apps ((sitesDown L).flatMap (fun i => siteApps dt ips i ++ (if i = 0 then [] else [Op.svd i]))) =
      (sitesDown L).flatMap (fun i => siteApps dt ips i) := by
    unfold apps
    rw [List.filter_flatMap]
    apply List.flatMap_congr
    intro i _
    rw [List.filter_append]
    have := apps_siteApps dt ips i
    unfold apps at this
    rw [this]
    split <;> simp [Op.isApp]
  rw [e1]
  -- step 2: per site, the two filters are the elements anchored there
  have e2 : ((sitesDown L).flatMap (fun i => siteApps dt ips i)).Perm
      ((sitesDown L).flatMap (fun i => (ips.filter (fun kp => anchorOf kp.2 == i)).map (expectedOp dt))) := by
    apply List.Perm.flatMap_left
    intro i _
    unfold siteApps
    rw [← List.map_append]
    apply List.Perm.map
    apply filter_two_perm
    · intro kp hkp
      have := anchorOf_eq_iff L kp.2 (hw' kp hkp) i
      by_cases ha : anchorOf kp.2 = i
      · have h := this.mp ha
        rcases h with h | h <;> simp [ha, h]
      · have h : ¬ (hit1 i kp.2 = true ∨ here2 i kp.2 = true) := fun hc => ha (this.mpr hc)
        have h1 : hit1 i kp.2 = false := by
          cases hh : hit1 i kp.2
          · rfl
          · exact absurd (Or.inl hh) h
        have h2 : here2 i kp.2 = false := by
          cases hh : here2 i kp.2
          · rfl
          · exact absurd (Or.inr hh) h
        simp [ha, h1, h2]
    · intro kp _
      exact hit1_here2_exclusive i kp.2
  refine e2.trans ?_
  -- step 3: collecting by anchor enumerates everything
  have e3 : (sitesDown L).flatMap (fun i => (ips.filter (fun kp => anchorOf kp.2 == i)).map (expectedOp dt)) =
      ((sitesDown L).flatMap (fun i => ips.filter (fun kp => anchorOf kp.2 == i))).map (expectedOp dt) := by
    rw [List.map_flatMap]
  rw [e3]
  apply List.Perm.map
  have h := flatMap_key_perm (fun kp : Nat × Proc => anchorOf kp.2) ips L
  have e4 : ips.filter (fun x => decide (anchorOf x.2 < L)) = ips := by
    apply List.filter_eq_self.mpr
    intro kp hkp
    simpa using anchorOf_lt L kp.2 (hw' kp hkp)
  rw [e4] at h
  exact h

/-- the gauge moves of the sweep -/
theorem shifts_sweep (L : Nat) (dt : Rat) (ips : List (Nat × Proc)) :
    shifts ((sitesDown L).flatMap (fun i => siteApps dt ips i ++ (if i = 0 then [] else [Op.svd i]))) =
      ((sitesDown L).filter (fun i => i != 0)).map Op.svd := by
  induction L with
  | zero => simp [sitesDown, shifts]
  | succ L ih =>
    rw [sitesDown_succ, List.flatMap_cons, shifts_append, shifts_append, ih, shifts_siteApps]
    by_cases hL : L = 0
    · subst hL; simp [shifts]
    · simp [hL, shifts, Op.isApp, Op.isRaise]

/-! ### order -/

/-- position of an operation inside one sweep position: one-site processes (0), then two-site processes (1), then the
    centre shift (2); within a group the position of the process in the list -/
def rank (procs : List Proc) : Op → Nat × Nat
  | .app k _ _ _ => (if (procs[k]?.map (fun p => p.sites.length)) = some 1 then 0 else 1, k)
  | .raise k => (1, k)
  | .svd _ => (2, 0)
  | .qr _ => (2, 0)

/-- `a` is performed before `b` according to the sweep: larger anchor site first; on the same site one-site processes, then
    two-site processes, then the shift; inside a group in list order -/
def Before (procs : List Proc) (a b : Op) : Prop :=
  b.anchor < a.anchor ∨
    (a.anchor = b.anchor ∧ ((rank procs a).1 < (rank procs b).1 ∨ ((rank procs a).1 = (rank procs b).1 ∧ (rank procs a).2 < (rank procs b).2)))

theorem expectedOp_anchor (L : Nat) (dt : Rat) (kp : Nat × Proc) (hw : wellSited L kp.2 = true) :
    (expectedOp dt kp).anchor = anchorOf kp.2 := by
  unfold wellSited at hw
  unfold expectedOp Op.anchor targetOf anchorOf
  split at hw
  · rename_i s hs; simp [hs]
  · rename_i s0 s1 hs
    by_cases hp : kp.2.pauli = true <;> simp [hs, hp]
  · cases hw

theorem siteApps_anchor (L : Nat) (dt : Rat) (ips : List (Nat × Proc)) (hw : ∀ kp ∈ ips, wellSited L kp.2 = true) (i : Nat) :
    ∀ o ∈ siteApps dt ips i, o.anchor = i := by
  intro o ho
  unfold siteApps at ho
  simp only [List.mem_append, List.mem_map, List.mem_filter] at ho
  rcases ho with ⟨kp, ⟨hm, hh⟩, rfl⟩ | ⟨kp, ⟨hm, hh⟩, rfl⟩
  · rw [expectedOp_anchor L dt kp (hw kp hm)]
    exact (anchorOf_eq_iff L kp.2 (hw kp hm) i).mpr (Or.inl hh)
  · rw [expectedOp_anchor L dt kp (hw kp hm)]
    exact (anchorOf_eq_iff L kp.2 (hw kp hm) i).mpr (Or.inr hh)

theorem rank_expected_one (procs : List Proc) (dt : Rat) (i : Nat) (kp : Nat × Proc) (hm : kp ∈ indexed 0 procs)
    (h : hit1 i kp.2 = true) : rank procs (expectedOp dt kp) = (0, kp.1) := by
  have hl := indexed_lookup0 procs kp hm
  have hs := (hit1_iff i kp.2).mp h
  simp [rank, expectedOp, hl, hs]

theorem rank_expected_two (procs : List Proc) (dt : Rat) (i : Nat) (kp : Nat × Proc) (hm : kp ∈ indexed 0 procs)
    (h : here2 i kp.2 = true) : rank procs (expectedOp dt kp) = (1, kp.1) := by
  have hl := indexed_lookup0 procs kp hm
  obtain ⟨s0, hs⟩ := (here2_iff i kp.2).mp h
  simp [rank, expectedOp, hl, hs]

theorem rank_app_fst_lt (procs : List Proc) (k : Nat) (t : List Nat) (c : Rat) (kd : Kind) :
    (rank procs (.app k t c kd)).1 < 2 := by
  simp only [rank]
  split <;> omega

/-- one group (one-site or two-site processes of a sweep position) is in list order -/
theorem group_sorted (procs : List Proc) (dt : Rat) (i g : Nat) (sel : Nat × Proc → Bool)
    (hrank : ∀ kp ∈ indexed 0 procs, sel kp = true → rank procs (expectedOp dt kp) = (g, kp.1))
    (hanchor : ∀ kp ∈ indexed 0 procs, sel kp = true → (expectedOp dt kp).anchor = i) :
    (((indexed 0 procs).filter sel).map (expectedOp dt)).Pairwise (Before procs) := by
  rw [List.pairwise_map]
  have hpw := (indexed_pairwise 0 procs).filter sel
  refine (List.Pairwise.and_mem.mp hpw).imp ?_
  intro a b hab
  have ha := List.mem_filter.mp hab.1
  have hb := List.mem_filter.mp hab.2.1
  right
  refine ⟨by rw [hanchor a ha.1 ha.2, hanchor b hb.1 hb.2], Or.inr ?_⟩
  rw [hrank a ha.1 ha.2, hrank b hb.1 hb.2]
  exact ⟨rfl, hab.2.2⟩

/-- the closed form of the sweep is strictly sorted by `Before` -/
theorem sweep_sorted (L : Nat) (dt : Rat) (procs : List Proc) (hw : ∀ p ∈ procs, wellSited L p = true) :
    ((sitesDown L).flatMap (fun i => siteApps dt (indexed 0 procs) i ++ (if i = 0 then [] else [Op.svd i]))).Pairwise
      (Before procs) := by
  have hw' : ∀ kp ∈ indexed 0 procs, wellSited L kp.2 = true :=
    fun kp hkp => hw kp.2 (indexed_mem_snd 0 procs kp hkp)
  have hanch : ∀ i, ∀ o ∈ siteApps dt (indexed 0 procs) i ++ (if i = 0 then [] else [Op.svd i]), o.anchor = i := by
    intro i o ho
    rcases List.mem_append.mp ho with h | h
    · exact siteApps_anchor L dt _ hw' i o h
    · split at h
      · simp at h
      · simp only [List.mem_singleton] at h; subst h; rfl
  have hanchor1 : ∀ i, ∀ kp ∈ indexed 0 procs, hit1 i kp.2 = true → (expectedOp dt kp).anchor = i := by
    intro i kp hm hh
    rw [expectedOp_anchor L dt kp (hw' kp hm)]
    exact (anchorOf_eq_iff L kp.2 (hw' kp hm) i).mpr (Or.inl hh)
  have hanchor2 : ∀ i, ∀ kp ∈ indexed 0 procs, here2 i kp.2 = true → (expectedOp dt kp).anchor = i := by
    intro i kp hm hh
    rw [expectedOp_anchor L dt kp (hw' kp hm)]
    exact (anchorOf_eq_iff L kp.2 (hw' kp hm) i).mpr (Or.inr hh)
  rw [List.pairwise_flatMap]
  refine ⟨?_, ?_⟩
  · intro i _
    rw [List.pairwise_append]
    refine ⟨?_, ?_, ?_⟩
    · -- inside the process applications of one site
      unfold siteApps
      rw [List.pairwise_append]
      refine ⟨?_, ?_, ?_⟩
      · exact group_sorted procs dt i 0 _ (fun kp hm hh => rank_expected_one procs dt i kp hm hh) (hanchor1 i)
      · exact group_sorted procs dt i 1 _ (fun kp hm hh => rank_expected_two procs dt i kp hm hh) (hanchor2 i)
      · intro x hx y hy
        simp only [List.mem_map, List.mem_filter] at hx hy
        obtain ⟨a, ⟨ham, hah⟩, rfl⟩ := hx
        obtain ⟨b, ⟨hbm, hbh⟩, rfl⟩ := hy
        right
        refine ⟨by rw [hanchor1 i a ham hah, hanchor2 i b hbm hbh], Or.inl ?_⟩
        rw [rank_expected_one procs dt i a ham hah, rank_expected_two procs dt i b hbm hbh]
        exact Nat.zero_lt_one
    · split <;> simp
    · intro x hx y hy
      split at hy
      · simp at hy
      · simp only [List.mem_singleton] at hy
        subst hy
        right
        refine ⟨siteApps_anchor L dt _ hw' i x hx, Or.inl ?_⟩
        unfold siteApps at hx
        simp only [List.mem_append, List.mem_map] at hx
        rcases hx with ⟨kp, _, rfl⟩ | ⟨kp, _, rfl⟩ <;> exact rank_app_fst_lt procs _ _ _ _
  · refine (sitesDown_pairwise L).imp ?_
    intro i j hji x hx y hy
    left
    rw [hanch i x hx, hanch j y hy]
    exact hji

/-! ### the early return -/

theorem earlyReturn_iff (nm : Option (List Proc)) :
    earlyReturn nm = true ↔ nm = none ∨ ∃ ps, nm = some ps ∧ ∀ p ∈ ps, p.gamma = 0 := by
  cases nm with
  | none => simp [earlyReturn]
  | some ps => simp [earlyReturn, List.all_eq_true]

theorem earlyReturn_eq_not_isNoisy (nm : Option (List Proc)) : earlyReturn nm = !isNoisy nm := by
  cases nm with
  | none => rfl
  | some ps =>
    simp only [earlyReturn, isNoisy]
    induction ps with
    | nil => rfl
    | cons p ps ih =>
      simp only [List.all_cons, List.any_cons, ih]
      cases h : (p.gamma == 0) <;> simp [bne, h]

theorem dissipationOps_early (L : Nat) (nm : Option (List Proc)) (dt : Rat) (h : earlyReturn nm = true) :
    dissipationOps L nm dt = (sitesDown L).map Op.qr := by
  simp [dissipationOps, h]

theorem dissipationOps_main (L : Nat) (procs : List Proc) (dt : Rat) (h : earlyReturn (some procs) = false) :
    dissipationOps L (some procs) dt = cutAtRaise (fullOps L dt procs) := by
  simp [dissipationOps, h]

/-! ### products -/

section Product
variable {M : Type*} [Monoid M]

/-- interpretation of an operation in a monoid: the application of process `k` with coefficient `c` is `F procs[k] c`,
    gauge moves (centre shifts) do not change the represented state and are the identity -/
def interp (procs : List Proc) (F : Proc → Rat → M) : Op → M
  | .app k _ c _ =>
    match procs[k]? with
    | some p => F p c
    | none => 1
  | _ => 1

theorem prod_map_apps (procs : List Proc) (F : Proc → Rat → M) (ops : List Op) :
    (ops.map (interp procs F)).prod = ((apps ops).map (interp procs F)).prod := by
  induction ops with
  | nil => rfl
  | cons o r ih =>
    cases o with
    | app k t c kd =>
      have : apps (Op.app k t c kd :: r) = Op.app k t c kd :: apps r := by
        unfold apps; rw [List.filter_cons_of_pos rfl]
      rw [this, List.map_cons, List.map_cons, List.prod_cons, List.prod_cons, ih]
    | qr i =>
      have : apps (Op.qr i :: r) = apps r := by
        unfold apps; rw [List.filter_cons_of_neg (by simp [Op.isApp])]
      rw [this, List.map_cons, List.prod_cons, ih]; simp [interp]
    | svd i =>
      have : apps (Op.svd i :: r) = apps r := by
        unfold apps; rw [List.filter_cons_of_neg (by simp [Op.isApp])]
      rw [this, List.map_cons, List.prod_cons, ih]; simp [interp]
    | raise k =>
      have : apps (Op.raise k :: r) = apps r := by
        unfold apps; rw [List.filter_cons_of_neg (by simp [Op.isApp])]
      rw [this, List.map_cons, List.prod_cons, ih]; simp [interp]

theorem interp_expected (procs : List Proc) (F : Proc → Rat → M) (dt : Rat) (kp : Nat × Proc)
    (hm : kp ∈ indexed 0 procs) : interp procs F (expectedOp dt kp) = F kp.2 (coef dt kp.2) := by
  simp [interp, expectedOp, indexed_lookup0 procs kp hm]

/-- product of the sweep in any monoid in which the per-process factors commute -/
theorem sweep_prod (L : Nat) (dt : Rat) (procs : List Proc) (hw : ∀ p ∈ procs, wellSited L p = true)
    (F : Proc → Rat → M)
    (hc : ∀ p ∈ procs, ∀ q ∈ procs, Commute (F p (coef dt p)) (F q (coef dt q))) :
    ((cutAtRaise (fullOps L dt procs)).map (interp procs F)).prod = (procs.map (fun p => F p (coef dt p))).prod := by
  rw [fullOps_wellSited L dt procs hw, prod_map_apps]
  have hperm := (apps_sweep_perm L dt procs hw).map (interp procs F)
  have e : ((indexed 0 procs).map (expectedOp dt)).map (interp procs F) = procs.map (fun p => F p (coef dt p)) := by
    rw [List.map_map]
    have : (indexed 0 procs).map (interp procs F ∘ expectedOp dt) =
        (indexed 0 procs).map ((fun p => F p (coef dt p)) ∘ Prod.snd) := by
      apply List.map_congr_left
      intro kp hkp
      simp only [Function.comp]
      exact interp_expected procs F dt kp hkp
    rw [this, ← List.map_map, indexed_map_snd]
  rw [e] at hperm
  have hpc : (procs.map (fun p => F p (coef dt p))).Pairwise Commute := by
    apply List.pairwise_of_forall_mem_list
    intro a ha b hb
    simp only [List.mem_map] at ha hb
    obtain ⟨p, hp, rfl⟩ := ha
    obtain ⟨q, hq, rfl⟩ := hb
    exact hc p hp q hq
  exact (hperm.symm.prod_eq' hpc).symm

/-- the product over the process list does not depend on the order of the list when the factors commute -/
theorem prod_perm_of_commute (dt : Rat) (procs procs' : List Proc) (hp : procs.Perm procs') (F : Proc → Rat → M)
    (hc : ∀ p ∈ procs, ∀ q ∈ procs, Commute (F p (coef dt p)) (F q (coef dt q))) :
    (procs.map (fun p => F p (coef dt p))).prod = (procs'.map (fun p => F p (coef dt p))).prod := by
  apply List.Perm.prod_eq' (hp.map _)
  apply List.pairwise_of_forall_mem_list
  intro a ha b hb
  simp only [List.mem_map] at ha hb
  obtain ⟨p, hp', rfl⟩ := ha
  obtain ⟨q, hq, rfl⟩ := hb
  exact hc p hp' q hq

end Product

/-! ### the local noise model of a nearest-neighbour gate -/

theorem local_wellSited (L a : Nat) (h : a + 1 < L) (procs : List Proc) :
    ∀ p ∈ localNoise procs a (a + 1), wellSited L p = true := by
  intro p hp
  unfold localNoise at hp
  simp only [List.mem_filter, Bool.or_eq_true, beq_iff_eq] at hp
  unfold wellSited
  rcases hp.2 with (hs | hs) | hs
  · simp [hs]; omega
  · simp [hs]; omega
  · simp [hs]; omega

theorem local_target_subset (a : Nat) (procs : List Proc) (p : Proc) (hp : p ∈ localNoise procs a (a + 1)) :
    ∀ t ∈ targetOf p, t = a ∨ t = a + 1 := by
  unfold localNoise at hp
  simp only [List.mem_filter, Bool.or_eq_true, beq_iff_eq] at hp
  unfold targetOf
  rcases hp.2 with (hs | hs) | hs
  · by_cases hpa : p.pauli = true <;> simp [hs, hpa]
  · simp [hs]
  · simp [hs]

/-! ### the noisy pipeline -/

theorem noiseBlock_noise (nm : Option (List Proc)) (L a b : Nat) :
    ∀ e ∈ noiseBlock nm L a b, e.isNoise = true ∧ e.isGate = false ∧ e.toEvent = none := by
  intro e he
  unfold noiseBlock at he
  split at he
  · simp only [List.mem_singleton] at he; subst he; exact ⟨rfl, rfl, rfl⟩
  · simp only [List.mem_append, List.mem_map, List.mem_singleton] at he
    rcases he with ⟨o, _, rfl⟩ | rfl <;> exact ⟨rfl, rfl, rfl⟩

theorem noiseBlock_filterMap (nm : Option (List Proc)) (L a b : Nat) :
    (noiseBlock nm L a b).filterMap PEv.toEvent = [] := by
  apply List.filterMap_eq_nil_iff.mpr
  intro e he
  exact (noiseBlock_noise nm L a b e he).2.2

theorem noiseBlock_filter_keep (nm : Option (List Proc)) (L a b : Nat) :
    (noiseBlock nm L a b).filter (fun e => e.isGate || e.isNoise) = noiseBlock nm L a b := by
  apply List.filter_eq_self.mpr
  intro e he
  simp [(noiseBlock_noise nm L a b e he).1]

theorem noiseBlock_filter_noise (nm : Option (List Proc)) (L a b : Nat) :
    (noiseBlock nm L a b).filter PEv.isNoise = noiseBlock nm L a b := by
  apply List.filter_eq_self.mpr
  intro e he
  exact (noiseBlock_noise nm L a b e he).1

/-- forgetting the noise events gives the event list of the noise-free model (`Layers.emit`) -/
theorem noisyEmit_toEvent (nm : Option (List Proc)) (L : Nat) (s : Bool) (col : Nat) (order : List Layers.Instr) :
    (noisyEmit nm L s col order).filterMap PEv.toEvent = Layers.emit s col order := by
  induction order generalizing col with
  | nil => rfl
  | cons i r ih =>
    cases i with
    | gate1 t q => simp [noisyEmit, Layers.emit, PEv.toEvent, ih]
    | gate2 t a b =>
      simp [noisyEmit, Layers.emit, PEv.toEvent, List.filterMap_append, noiseBlock_filterMap, ih]
    | measure q c => simpa [noisyEmit, Layers.emit] using ih col
    | barrier qs => simpa [noisyEmit, Layers.emit] using ih col
    | sbarrier qs =>
      cases s
      · simpa [noisyEmit, Layers.emit] using ih col
      · simp [noisyEmit, Layers.emit, PEv.toEvent, ih]

/-- gate and noise events of the loop body: per scheduled gate its block, nothing else -/
theorem noisyEmit_blocks (nm : Option (List Proc)) (L : Nat) (s : Bool) (col : Nat) (order : List Layers.Instr) :
    (noisyEmit nm L s col order).filter (fun e => e.isGate || e.isNoise) =
      (Layers.gates order).flatMap (gateBlock nm L) := by
  induction order generalizing col with
  | nil => rfl
  | cons i r ih =>
    cases i with
    | gate1 t q =>
      simp [noisyEmit, Layers.gates, Layers.Instr.isGate, gateBlock, PEv.isGate, List.filter_cons] at ih ⊢
      exact ih col
    | gate2 t a b =>
      have hg : Layers.gates (.gate2 t a b :: r) = .gate2 t a b :: Layers.gates r := by
        unfold Layers.gates; rw [List.filter_cons_of_pos rfl]
      rw [hg, List.flatMap_cons]
      simp only [noisyEmit, gateBlock]
      have h1 : ((PEv.app2 t a b).isGate || (PEv.app2 t a b).isNoise) = true := rfl
      rw [List.filter_cons, if_pos h1, List.filter_append, noiseBlock_filter_keep, List.cons_append]
      exact congrArg (fun x => PEv.app2 t a b :: (noiseBlock nm L a b ++ x)) (ih col)
    | measure q c => simpa [noisyEmit, Layers.gates, Layers.Instr.isGate] using ih col
    | barrier qs => simpa [noisyEmit, Layers.gates, Layers.Instr.isGate] using ih col
    | sbarrier qs =>
      cases s
      · simpa [noisyEmit, Layers.gates, Layers.Instr.isGate] using ih col
      · simpa [noisyEmit, Layers.gates, Layers.Instr.isGate, PEv.isGate, PEv.isNoise] using ih (col + 1)

/-- the noise block is the expansion of what the placement model (`Lottery.afterGate`) puts after the gate -/
theorem expand_afterGate (nm : Option (List Proc)) (L q0 q1 : Nat) :
    (afterGate nm (Gate.two q0 q1)).flatMap (expandDOp L) = noiseBlock nm L q0 q1 := by
  have h := earlyReturn_eq_not_isNoisy nm
  unfold afterGate noiseBlock
  cases hn : isNoisy nm
  · simp [h, hn, expandDOp]
  · simp [h, hn, expandDOp]

/-- the noise events of the loop body are the expansion of `Lottery.digitalOps` on the scheduled gates -/
theorem noisyEmit_noise (nm : Option (List Proc)) (L : Nat) (s : Bool) (col : Nat) (order : List Layers.Instr) :
    (noisyEmit nm L s col order).filter PEv.isNoise =
      (digitalOps nm ((Layers.gates order).filterMap toGate)).flatMap (expandDOp L) := by
  induction order generalizing col with
  | nil => rfl
  | cons i r ih =>
    cases i with
    | gate1 t q =>
      simp [noisyEmit, Layers.gates, Layers.Instr.isGate, toGate, digitalOps, afterGate, expandDOp, PEv.isNoise,
        List.filter_cons] at ih ⊢
      exact ih col
    | gate2 t a b =>
      have e := expand_afterGate nm L a b
      simp only [noisyEmit, Layers.gates, Layers.Instr.isGate, List.filter_cons, PEv.isNoise, Bool.false_eq_true,
        if_false, if_true, List.filter_append, noiseBlock_filter_noise, List.filterMap_cons, toGate, digitalOps,
        List.flatMap_cons, List.flatMap_append, expandDOp, List.nil_append, e] at ih ⊢
      rw [ih col]
    | measure q c => simpa [noisyEmit, Layers.gates, Layers.Instr.isGate] using ih col
    | barrier qs => simpa [noisyEmit, Layers.gates, Layers.Instr.isGate] using ih col
    | sbarrier qs =>
      cases s
      · simpa [noisyEmit, Layers.gates, Layers.Instr.isGate] using ih col
      · simpa [noisyEmit, Layers.gates, Layers.Instr.isGate, PEv.isNoise] using ih (col + 1)

/-! ### the exception branch -/

/-- the process kinds on which the two-site loop raises: a pair that is neither Pauli nor adjacent, whose larger site is
    a sweep position `1 … L-1` -/
def raisesAt (L : Nat) (p : Proc) : Bool :=
  match p.sites with
  | [_, s1] => decide (s1 ≠ 0) && decide (s1 < L) && !p.pauli && isLongrange p
  | _ => false

theorem cutAtRaise_raise_mem (ops : List Op) : (∃ k, Op.raise k ∈ cutAtRaise ops) ↔ ∃ k, Op.raise k ∈ ops := by
  induction ops with
  | nil => simp [cutAtRaise]
  | cons o r ih =>
    cases o with
    | raise k => simp [cutAtRaise]
    | qr i => simp [cutAtRaise, ih]
    | svd i => simp [cutAtRaise, ih]
    | app k t c kd => simp [cutAtRaise, ih]

/-- what is executed is a prefix of the exception-free operation list, and it ends with the exception if there is one -/
theorem cutAtRaise_prefix (ops : List Op) : cutAtRaise ops <+: ops := by
  induction ops with
  | nil => exact List.prefix_refl _
  | cons o r ih =>
    cases o with
    | raise k => simp [cutAtRaise]
    | qr i => simpa [cutAtRaise] using ih
    | svd i => simpa [cutAtRaise] using ih
    | app k t c kd => simpa [cutAtRaise] using ih

theorem cutAtRaise_last (ops : List Op) (k : Nat) (h : Op.raise k ∈ cutAtRaise ops) :
    (cutAtRaise ops).getLast? = some (Op.raise k) := by
  induction ops with
  | nil => simp [cutAtRaise] at h
  | cons o r ih =>
    cases o with
    | raise j =>
      simp only [cutAtRaise, List.mem_singleton] at h
      simp [cutAtRaise, h]
    | qr i =>
      simp only [cutAtRaise, List.mem_cons, reduceCtorEq, false_or] at h
      have h2 := ih h
      have hne : cutAtRaise r ≠ [] := by intro hc; rw [hc] at h; simp at h
      simp only [cutAtRaise]
      rw [List.getLast?_cons_of_ne_nil hne]  -- keeps the last element
      exact h2
    | svd i =>
      simp only [cutAtRaise, List.mem_cons, reduceCtorEq, false_or] at h
      have h2 := ih h
      have hne : cutAtRaise r ≠ [] := by intro hc; rw [hc] at h; simp at h
      simp only [cutAtRaise]
      rw [List.getLast?_cons_of_ne_nil hne]
      exact h2
    | app j t c kd =>
      simp only [cutAtRaise, List.mem_cons, reduceCtorEq, false_or] at h
      have h2 := ih h
      have hne : cutAtRaise r ≠ [] := by intro hc; rw [hc] at h; simp at h
      simp only [cutAtRaise]
      rw [List.getLast?_cons_of_ne_nil hne]
      exact h2

theorem raise_mem_fullOps (L : Nat) (dt : Rat) (procs : List Proc) (k : Nat) :
    Op.raise k ∈ fullOps L dt procs ↔ ∃ p, (k, p) ∈ indexed 0 procs ∧ raisesAt L p = true := by
  unfold fullOps
  simp only [List.mem_flatMap, mem_sitesDown]
  constructor
  · rintro ⟨i, hi, hm⟩
    unfold siteOps loop1 loop2 at hm
    simp only [List.mem_append, List.mem_map, List.mem_filter] at hm
    rcases hm with ⟨kp, _, h⟩ | hm
    · simp [op1] at h
    · split at hm
      · simp at hm
      · rename_i hi0
        simp only [List.mem_append, List.mem_map, List.mem_filter, List.mem_singleton, reduceCtorEq, or_false] at hm
        obtain ⟨kp, ⟨hmem, hh⟩, h⟩ := hm
        obtain ⟨s0, hs⟩ := (here2_iff i kp.2).mp hh
        unfold op2 at h
        by_cases hp : kp.2.pauli = true
        · simp [hp] at h
        · by_cases hl : isLongrange kp.2 = true
          · simp only [hp, hl, if_true, Bool.false_eq_true, if_false, Op.raise.injEq] at h
            refine ⟨kp.2, ?_, ?_⟩
            · rw [← h]; exact hmem
            · unfold raisesAt
              simp only [hs, Bool.and_eq_true, decide_eq_true_eq, Bool.not_eq_true', hl, and_true]
              exact ⟨⟨hi0, hi⟩, by simpa using hp⟩
          · simp [hp, hl] at h
  · rintro ⟨p, hmem, hr⟩
    unfold raisesAt at hr
    split at hr
    · rename_i s0 s1 hs
      simp only [Bool.and_eq_true, decide_eq_true_eq, Bool.not_eq_true'] at hr
      obtain ⟨⟨⟨h0, hL⟩, hp⟩, hl⟩ := hr
      refine ⟨s1, hL, ?_⟩
      unfold siteOps loop2
      simp only [List.mem_append, List.mem_map, List.mem_filter, h0, if_false]
      right; left
      refine ⟨(k, p), ⟨hmem, (here2_iff s1 p).mpr ⟨s0, hs⟩⟩, ?_⟩
      simp [op2, hp, hl]
    · cases hr

/-! ### small facts used by the property theorems -/

theorem indexed_mem_of_lookup (j : Nat) (ps : List Proc) (k : Nat) (p : Proc) (h : ps[k]? = some p) :
    (j + k, p) ∈ indexed j ps := by
  induction ps generalizing j k with
  | nil => simp at h
  | cons q ps ih =>
    cases k with
    | zero =>
      simp only [List.getElem?_cons_zero, Option.some.injEq] at h
      subst h
      simp [indexed]
    | succ k =>
      simp only [List.getElem?_cons_succ] at h
      have := ih (j + 1) k h
      simp only [indexed, List.mem_cons]
      right
      have e : j + (k + 1) = j + 1 + k := by omega
      rw [e]
      exact this

theorem sweep_no_raise (L : Nat) (dt : Rat) (ips : List (Nat × Proc)) :
    ∀ o ∈ (sitesDown L).flatMap (fun i => siteApps dt ips i ++ (if i = 0 then [] else [Op.svd i])), o.isRaise = false := by
  intro o ho
  simp only [List.mem_flatMap, List.mem_append] at ho
  obtain ⟨i, _, h | h⟩ := ho
  · exact siteApps_no_raise dt _ i o h
  · split at h
    · simp at h
    · simp only [List.mem_singleton] at h; subst h; rfl

theorem qr_not_mem_fullOps (L : Nat) (dt : Rat) (procs : List Proc) (i : Nat) : Op.qr i ∉ fullOps L dt procs := by
  unfold fullOps siteOps loop1 loop2
  simp only [List.mem_flatMap, List.mem_append, List.mem_map, List.mem_filter, not_exists, not_and, not_or]
  intro j _
  refine ⟨?_, ?_⟩
  · intro kp _ h; simp [op1] at h
  · split
    · simp
    · simp only [List.mem_append, List.mem_map, List.mem_filter, List.mem_singleton, reduceCtorEq, or_false, not_exists,
        not_and]
      intro kp _ h
      unfold op2 at h
      split at h
      · cases h
      · split at h <;> cases h

theorem mem_of_mem_apps (ops : List Op) (o : Op) (h : o ∈ apps ops) : o ∈ ops := (List.mem_filter.mp h).1

theorem mem_apps_of_app (ops : List Op) (k : Nat) (t : List Nat) (c : Rat) (kd : Kind) (h : Op.app k t c kd ∈ ops) :
    Op.app k t c kd ∈ apps ops := List.mem_filter.mpr ⟨h, rfl⟩

end Yaqs.Dissipation
