import YaqsModel.Lemmas.Consistency
import Mathlib.Analysis.Normed.Operator.NormedSpace

/-!
# Lemmas.ConsistencyFlow — the exact Lindblad flow `exp(t𝓛)` and the comparison with the one-step average

`lindFlow H Ls t = exp(t • 𝓛)` is Mathlib's exponential in the Banach algebra of (real-)linear maps on `Matrix n n ℂ`;
`lindFlow_solves` says it solves the master equation `dρ/dt = 𝓛ρ` that `analog/lindblad.py` integrates.
-/
namespace Yaqs.Consistency

open Matrix NormedSpace Yaqs.MasterEq
open scoped Matrix.Norms.Operator

variable {n : Type} [Fintype n] [DecidableEq n]

noncomputable section

omit [DecidableEq n] in
theorem lind_eq (H : Matrix n n ℂ) (Ls : List (Proc (Matrix n n ℂ))) (ρ : Matrix n n ℂ) :
    lind H Ls ρ
      = (-Complex.I) • (H * ρ - ρ * H) - (1 / 2 : ℂ) • (genK Ls * ρ + ρ * genK Ls) + jumpSum Ls ρ :=
  (noJump_add_jump_eq_lind H Ls ρ).symm

/-- the Lindbladian as an `ℝ`-linear map on matrices -/
def lindLin (H : Matrix n n ℂ) (Ls : List (Proc (Matrix n n ℂ))) : Matrix n n ℂ →ₗ[ℝ] Matrix n n ℂ where
  toFun := lind H Ls
  map_add' a b := by
    rw [lind_eq, lind_eq, lind_eq, jumpSum_add]
    simp only [Matrix.mul_add, Matrix.add_mul]
    module
  map_smul' r a := by
    rw [lind_eq, lind_eq, jumpSum_smul]
    simp only [Matrix.mul_smul, Matrix.smul_mul, RingHom.id_apply]
    module

/-- the Lindbladian as a bounded operator -/
def lindCLM (H : Matrix n n ℂ) (Ls : List (Proc (Matrix n n ℂ))) : Matrix n n ℂ →L[ℝ] Matrix n n ℂ :=
  LinearMap.toContinuousLinearMap (lindLin H Ls)

omit [DecidableEq n] in
theorem lindCLM_apply (H : Matrix n n ℂ) (Ls : List (Proc (Matrix n n ℂ))) (ρ : Matrix n n ℂ) :
    lindCLM H Ls ρ = lind H Ls ρ := rfl

set_option backward.isDefEq.respectTransparency false in
/-- the exact solution operator of the master equation, `exp(t𝓛)` -/
def lindFlow (H : Matrix n n ℂ) (Ls : List (Proc (Matrix n n ℂ))) (t : ℝ) : Matrix n n ℂ →L[ℝ] Matrix n n ℂ :=
  exp (t • lindCLM H Ls)

omit [DecidableEq n] in
set_option backward.isDefEq.respectTransparency false in
theorem lindFlow_zero (H : Matrix n n ℂ) (Ls : List (Proc (Matrix n n ℂ))) (ρ : Matrix n n ℂ) :
    lindFlow H Ls 0 ρ = ρ := by
  unfold lindFlow
  have h0 : (0 : ℝ) • lindCLM H Ls = 0 := by
    ext x i j
    simp
  rw [h0]
  have h1 : exp (0 : Matrix n n ℂ →L[ℝ] Matrix n n ℂ) = 1 := exp_zero
  rw [h1]
  rfl

set_option backward.isDefEq.respectTransparency false in
/-- `t ↦ exp(t𝓛)ρ` solves `dρ/dt = 𝓛ρ` -/
theorem lindFlow_solves (H : Matrix n n ℂ) (Ls : List (Proc (Matrix n n ℂ))) (ρ : Matrix n n ℂ) (t : ℝ) :
    HasDerivAt (fun s => lindFlow H Ls s ρ) (lind H Ls (lindFlow H Ls t ρ)) t := by
  have h := hasDerivAt_exp_smul_const' (𝕂 := ℝ) (lindCLM H Ls) t
  have h2 := HasFDerivAt.comp_hasDerivAt t
    (ContinuousLinearMap.apply ℝ (Matrix n n ℂ) ρ).hasFDerivAt h
  exact h2

set_option backward.isDefEq.respectTransparency false in
/-- the one-step average and the exact flow agree to first order: their difference has derivative `0` at `t = 0` -/
theorem hasDerivAt_avgState_sub_flow {H : Matrix n n ℂ} {Ls : List (Proc (Matrix n n ℂ))} {A : ℝ → Matrix n n ℂ}
    (hA : IsNoJumpFamily H Ls A) (hH : Hᴴ = H) (ρ : Matrix n n ℂ) (hρ : trace ρ = 1)
    (hκ : trace (genK Ls * ρ) ≠ 0) :
    avgState Ls A ρ 0 - lindFlow H Ls 0 ρ = 0 ∧
      HasDerivAt (fun t => avgState Ls A ρ t - lindFlow H Ls t ρ) 0 0 := by
  obtain ⟨h0, hd⟩ := hasDerivAt_avgState hA hH ρ hρ hκ
  have hf := lindFlow_solves H Ls ρ 0
  rw [lindFlow_zero] at hf
  refine ⟨by rw [h0, lindFlow_zero, sub_self], ?_⟩
  have := HasDerivAt.sub (F := Matrix n n ℂ) hd hf
  rw [sub_self] at this
  exact this

end

end Yaqs.Consistency
