import YaqsModel.Model.TomoComb
import YaqsModel.Lemmas.Tomo
import Mathlib.LinearAlgebra.Multilinear.Basic
import Mathlib.LinearAlgebra.Matrix.Kronecker
import Mathlib.Data.Matrix.Mul

/-!
helper lemmas for the extension of `Props/C17.lean`: the exact comb (interventions given by their Choi matrices in the
code's convention, arbitrary segment matrices, partial trace) over any commutative star ring, its multilinearity, the
Kraus form, and the bridge to the executable model of `Model/TomoComb.lean`.
-/

open Matrix

namespace Yaqs.Tomo

section Generic
variable {K : Type*} [CommRing K] [StarRing K] {e : Type*} [Fintype e] [DecidableEq e]

/-- joint operators on (site 0) ⊗ (environment with basis `e`) -/
abbrev Joint (K e : Type*) := Matrix (Fin 2 × e) (Fin 2 × e) K

/-- `(A_J ⊗ id)(X)` where `A_J(σ)[a,b] = Σ_ij J[2a+i, 2b+j] σ[i,j]` is the map whose Choi matrix in the code's
    convention (`J = Σ_ij A(|i⟩⟨j|) ⊗ |i⟩⟨j|`) is `J` -/
def applyChoi (J : Matrix (Fin 4) (Fin 4) K) (X : Joint K e) : Joint K e :=
  fun x y => ∑ i, ∑ j, J (idx4 x.1 i) (idx4 y.1 j) * X (i, x.2) (j, y.2)

/-- a segment `X ↦ U X Uᴴ` -/
def evolve (U X : Joint K e) : Joint K e := U * X * Uᴴ

/-- partial trace over the environment -/
def ptrace (X : Joint K e) : Matrix (Fin 2) (Fin 2) K := fun a b => ∑ c, X (a, c) (b, c)

/-- state after `k` slots, slot 0 first; in every slot first the intervention, then the segment -/
def physState : (k : Nat) → (Fin k → Joint K e) → (Fin k → Matrix (Fin 4) (Fin 4) K) → Joint K e → Joint K e
  | 0, _, _, X => X
  | k + 1, U, J, X => physState k (Fin.tail U) (Fin.tail J) (evolve (U 0) (applyChoi (J 0) X))

/-- the exact comb: output component `o = 2·row + col` of `Tr_env` of the final state -/
def physComb (k : Nat) (U : Fin k → Joint K e) (X0 : Joint K e) (J : Fin k → Matrix (Fin 4) (Fin 4) K) (o : Fin 4) : K :=
  ptrace (physState k U J X0) (hi o) (lo o)

omit [StarRing K] [Fintype e] [DecidableEq e] in
theorem applyChoi_add_left (J J' : Matrix (Fin 4) (Fin 4) K) (X : Joint K e) :
    applyChoi (J + J') X = applyChoi J X + applyChoi J' X := by
  ext x y
  simp only [applyChoi, Matrix.add_apply, add_mul, Finset.sum_add_distrib]

omit [StarRing K] [Fintype e] [DecidableEq e] in
theorem applyChoi_smul_left (c : K) (J : Matrix (Fin 4) (Fin 4) K) (X : Joint K e) :
    applyChoi (c • J) X = c • applyChoi J X := by
  ext x y
  simp only [applyChoi, Matrix.smul_apply, smul_eq_mul, Finset.mul_sum, mul_assoc]

omit [StarRing K] [Fintype e] [DecidableEq e] in
theorem applyChoi_add_right (J : Matrix (Fin 4) (Fin 4) K) (X X' : Joint K e) :
    applyChoi J (X + X') = applyChoi J X + applyChoi J X' := by
  ext x y
  simp only [applyChoi, Matrix.add_apply, mul_add, Finset.sum_add_distrib]

omit [StarRing K] [Fintype e] [DecidableEq e] in
theorem applyChoi_smul_right (c : K) (J : Matrix (Fin 4) (Fin 4) K) (X : Joint K e) :
    applyChoi J (c • X) = c • applyChoi J X := by
  ext x y
  simp only [applyChoi, Matrix.smul_apply, smul_eq_mul, Finset.mul_sum]
  refine Finset.sum_congr rfl fun i _ => Finset.sum_congr rfl fun j _ => ?_
  ring

omit [DecidableEq e] in
theorem evolve_add (U X X' : Joint K e) : evolve U (X + X') = evolve U X + evolve U X' := by
  simp only [evolve, Matrix.mul_add, Matrix.add_mul]

omit [DecidableEq e] in
theorem evolve_smul (c : K) (U X : Joint K e) : evolve U (c • X) = c • evolve U X := by
  simp only [evolve, Matrix.mul_smul, Matrix.smul_mul]

omit [DecidableEq e] in
theorem physState_add : ∀ (k : Nat) (U : Fin k → Joint K e) (J : Fin k → Matrix (Fin 4) (Fin 4) K) (X X' : Joint K e),
    physState k U J (X + X') = physState k U J X + physState k U J X'
  | 0, _, _, _, _ => rfl
  | k + 1, U, J, X, X' => by
    simp only [physState, applyChoi_add_right, evolve_add, physState_add k]

omit [DecidableEq e] in
theorem physState_smul : ∀ (k : Nat) (U : Fin k → Joint K e) (J : Fin k → Matrix (Fin 4) (Fin 4) K) (c : K)
    (X : Joint K e), physState k U J (c • X) = c • physState k U J X
  | 0, _, _, _, _ => rfl
  | k + 1, U, J, c, X => by
    simp only [physState, applyChoi_smul_right, evolve_smul, physState_smul k]

omit [DecidableEq e] in
theorem physState_update_add : ∀ (k : Nat) (U : Fin k → Joint K e) (J : Fin k → Matrix (Fin 4) (Fin 4) K)
    (t : Fin k) (A B : Matrix (Fin 4) (Fin 4) K) (X : Joint K e),
    physState k U (Function.update J t (A + B)) X =
      physState k U (Function.update J t A) X + physState k U (Function.update J t B) X
  | 0, _, _, t, _, _, _ => t.elim0
  | k + 1, U, J, t, A, B, X => by
    refine Fin.cases ?_ (fun t' => ?_) t
    · simp only [physState, Function.update_self, Fin.tail_update_zero, applyChoi_add_left, evolve_add,
        physState_add]
    · have h0 : ∀ v, Function.update J t'.succ v 0 = J 0 := fun v =>
        Function.update_of_ne (Fin.succ_ne_zero t').symm v J
      simp only [physState, h0, Fin.tail_update_succ, physState_update_add k]

omit [DecidableEq e] in
theorem physState_update_smul : ∀ (k : Nat) (U : Fin k → Joint K e) (J : Fin k → Matrix (Fin 4) (Fin 4) K)
    (t : Fin k) (c : K) (A : Matrix (Fin 4) (Fin 4) K) (X : Joint K e),
    physState k U (Function.update J t (c • A)) X = c • physState k U (Function.update J t A) X
  | 0, _, _, t, _, _, _ => t.elim0
  | k + 1, U, J, t, c, A, X => by
    refine Fin.cases ?_ (fun t' => ?_) t
    · simp only [physState, Function.update_self, Fin.tail_update_zero, applyChoi_smul_left, evolve_smul,
        physState_smul]
    · have h0 : ∀ v, Function.update J t'.succ v 0 = J 0 := fun v =>
        Function.update_of_ne (Fin.succ_ne_zero t').symm v J
      simp only [physState, h0, Fin.tail_update_succ, physState_update_smul k]

/-- the exact comb as a multilinear map of the Choi matrices of the `k` interventions -/
def physCombML (k : Nat) (U : Fin k → Joint K e) (X0 : Joint K e) (o : Fin 4) :
    MultilinearMap K (fun _ : Fin k => Matrix (Fin 4) (Fin 4) K) K where
  toFun J := physComb k U X0 J o
  map_update_add' := by
    intro inst J t A B
    rw [Subsingleton.elim inst (instDecidableEqFin k)]
    simp only [physComb, physState_update_add, ptrace, Matrix.add_apply, Finset.sum_add_distrib]
  map_update_smul' := by
    intro inst J t c A
    rw [Subsingleton.elim inst (instDecidableEqFin k)]
    simp only [physComb, physState_update_smul, ptrace, Matrix.smul_apply, Finset.mul_sum, smul_eq_mul]

omit [DecidableEq e] in
@[simp] theorem physCombML_apply (k : Nat) (U : Fin k → Joint K e) (X0 : Joint K e) (o : Fin 4)
    (J : Fin k → Matrix (Fin 4) (Fin 4) K) : physCombML k U X0 o J = physComb k U X0 J o := rfl

/-! ### order of operations -/

omit [DecidableEq e] in
/-- the last slot acts last: `state_{k+1} = U_k (A_{J_k} ⊗ id)(state_k) U_kᴴ` -/
theorem physState_snoc : ∀ (k : Nat) (U : Fin (k + 1) → Joint K e) (J : Fin (k + 1) → Matrix (Fin 4) (Fin 4) K)
    (X : Joint K e),
    physState (k + 1) U J X =
      evolve (U (Fin.last k)) (applyChoi (J (Fin.last k)) (physState k (Fin.init U) (Fin.init J) X))
  | 0, U, J, X => by simp [physState]
  | k + 1, U, J, X => by
    rw [physState, physState_snoc k]
    have h1 : Fin.tail U (Fin.last k) = U (Fin.last (k + 1)) := by simp [Fin.tail]
    have h2 : Fin.tail J (Fin.last k) = J (Fin.last (k + 1)) := by simp [Fin.tail]
    have h3 : Fin.init (Fin.tail U) = Fin.tail (Fin.init U) := by
      funext i; simp [Fin.init, Fin.tail]
    have h4 : Fin.init (Fin.tail J) = Fin.tail (Fin.init J) := by
      funext i; simp [Fin.init, Fin.tail]
    rw [h1, h2, h3, h4]
    rfl

/-! ### Kraus form -/

/-- row-major vectorisation `vec(A)[2a+i] = A[a,i]` -/
def rowVec (A : Matrix (Fin 2) (Fin 2) K) : Fin 4 → K := fun r => A (hi r) (lo r)

/-- Choi matrix (code convention) of the CP map with Kraus operators `A_n`: `Σ_n vec(A_n) vec(A_n)ᴴ` -/
def krausChoi {ν : Type*} [Fintype ν] (A : ν → Matrix (Fin 2) (Fin 2) K) : Matrix (Fin 4) (Fin 4) K :=
  ∑ n, vecMulVec (rowVec (A n)) (star (rowVec (A n)))

/-- `A ⊗ 1` on the joint space, site 0 first -/
def liftSite (A : Matrix (Fin 2) (Fin 2) K) : Joint K e := kroneckerMap (· * ·) A (1 : Matrix e e K)

theorem hi_idx4 (a i : Fin 2) : hi (idx4 a i) = a := by
  apply Fin.ext; simp only [hi, idx4]; omega

theorem lo_idx4 (a i : Fin 2) : lo (idx4 a i) = i := by
  apply Fin.ext; simp only [lo, idx4]; omega

theorem idx4_hi_lo (r : Fin 4) : idx4 (hi r) (lo r) = r := by
  apply Fin.ext; simp only [hi, lo, idx4]; omega

omit [StarRing K] in
theorem liftSite_mul_apply (A : Matrix (Fin 2) (Fin 2) K) (X : Joint K e) (x y : Fin 2 × e) :
    (liftSite A * X : Matrix (Fin 2 × e) (Fin 2 × e) K) x y = ∑ i, A x.1 i * X (i, x.2) y := by
  simp only [liftSite, Matrix.mul_apply, kroneckerMap_apply, Matrix.one_apply, Fintype.sum_prod_type]
  refine Finset.sum_congr rfl fun i _ => ?_
  simp

theorem mul_liftSite_conjTranspose_apply (A : Matrix (Fin 2) (Fin 2) K) (X : Joint K e) (x y : Fin 2 × e) :
    (X * (liftSite A)ᴴ : Matrix (Fin 2 × e) (Fin 2 × e) K) x y = ∑ j, X x (j, y.2) * star (A y.1 j) := by
  simp only [liftSite, Matrix.mul_apply, conjTranspose_apply, kroneckerMap_apply, Matrix.one_apply,
    Fintype.sum_prod_type]
  refine Finset.sum_congr rfl fun j _ => ?_
  simp only [apply_ite star, star_zero, mul_ite, mul_zero, mul_one, Finset.sum_ite_eq,
    Finset.mem_univ, if_true]

/-- one Kraus operator: the map with Choi matrix `vec(A) vec(A)ᴴ` is `X ↦ (A⊗1) X (A⊗1)ᴴ` -/
theorem applyChoi_vecMulVec (A : Matrix (Fin 2) (Fin 2) K) (X : Joint K e) :
    applyChoi (vecMulVec (rowVec A) (star (rowVec A))) X = liftSite A * X * (liftSite A)ᴴ := by
  ext x y
  rw [mul_liftSite_conjTranspose_apply]
  simp only [liftSite_mul_apply, applyChoi, vecMulVec_apply, rowVec, Pi.star_apply, hi_idx4, lo_idx4,
    Finset.sum_mul]
  rw [Finset.sum_comm]
  refine Finset.sum_congr rfl fun j _ => Finset.sum_congr rfl fun i _ => ?_
  ring

omit [StarRing K] [Fintype e] [DecidableEq e] in
theorem applyChoi_sum_left {ν : Type*} (s : Finset ν) (J : ν → Matrix (Fin 4) (Fin 4) K) (X : Joint K e) :
    applyChoi (∑ n ∈ s, J n) X = ∑ n ∈ s, applyChoi (J n) X := by
  classical
  induction s using Finset.induction_on with
  | empty =>
    ext x y
    simp [applyChoi]
  | insert a s ha ih => rw [Finset.sum_insert ha, Finset.sum_insert ha, applyChoi_add_left, ih]

/-- any completely positive map: Kraus operators `A_n` -/
theorem applyChoi_krausChoi {ν : Type*} [Fintype ν] (A : ν → Matrix (Fin 2) (Fin 2) K) (X : Joint K e) :
    applyChoi (krausChoi A) X = ∑ n, liftSite (A n) * X * (liftSite (A n))ᴴ := by
  rw [krausChoi, applyChoi_sum_left]
  exact Finset.sum_congr rfl fun n _ => applyChoi_vecMulVec (A n) X

/-- the evolution with CP interventions given by Kraus operators, written without any Choi matrix -/
def krausState {ν : Type*} [Fintype ν] : (k : Nat) → (Fin k → Joint K e) → (Fin k → ν → Matrix (Fin 2) (Fin 2) K) →
    Joint K e → Joint K e
  | 0, _, _, X => X
  | k + 1, U, A, X =>
    krausState k (Fin.tail U) (Fin.tail A) (U 0 * (∑ n, liftSite (A 0 n) * X * (liftSite (A 0 n))ᴴ) * (U 0)ᴴ)

theorem physState_kraus {ν : Type*} [Fintype ν] : ∀ (k : Nat) (U : Fin k → Joint K e)
    (A : Fin k → ν → Matrix (Fin 2) (Fin 2) K) (X : Joint K e),
    physState k U (fun t => krausChoi (A t)) X = krausState k U A X
  | 0, _, _, _ => rfl
  | k + 1, U, A, X => by
    rw [physState, krausState, applyChoi_krausChoi]
    exact physState_kraus k (Fin.tail U) (Fin.tail A) _

/-! ### pure states and rank-one interventions: the vector-level run -/

/-- `U_{k-1} (A_{k-1}⊗1) … U_0 (A_0⊗1) ψ` — the un-normalised run of state vectors (`rawRun` of `weights_sequence`) -/
def pureRun : (k : Nat) → (Fin k → Joint K e) → (Fin k → Matrix (Fin 2) (Fin 2) K) → (Fin 2 × e → K) → (Fin 2 × e → K)
  | 0, _, _, ψ => ψ
  | k + 1, U, A, ψ => pureRun k (Fin.tail U) (Fin.tail A) (U 0 *ᵥ (liftSite (A 0) *ᵥ ψ))

omit [DecidableEq e] in
theorem conj_vecMulVec (M : Joint K e) (ψ : Fin 2 × e → K) :
    M * vecMulVec ψ (star ψ) * Mᴴ = vecMulVec (M *ᵥ ψ) (star (M *ᵥ ψ)) := by
  rw [Matrix.mul_vecMulVec, Matrix.vecMulVec_mul, Matrix.star_mulVec]

/-- pure initial state, one Kraus operator per slot: the state stays pure and is the vector-level run -/
theorem physState_pure : ∀ (k : Nat) (U : Fin k → Joint K e) (A : Fin k → Matrix (Fin 2) (Fin 2) K) (ψ : Fin 2 × e → K),
    physState k U (fun t => vecMulVec (rowVec (A t)) (star (rowVec (A t)))) (vecMulVec ψ (star ψ)) =
      vecMulVec (pureRun k U A ψ) (star (pureRun k U A ψ))
  | 0, _, _, _ => rfl
  | k + 1, U, A, ψ => by
    rw [physState, pureRun, applyChoi_vecMulVec, conj_vecMulVec, evolve, conj_vecMulVec]
    exact physState_pure k (Fin.tail U) (Fin.tail A) _

omit [DecidableEq e] in
/-- scalar factors of the interventions come out as their product (multilinearity) -/
theorem physComb_smul_univ (k : Nat) (U : Fin k → Joint K e) (X0 : Joint K e) (c : Fin k → K)
    (J : Fin k → Matrix (Fin 4) (Fin 4) K) (o : Fin 4) :
    physComb k U X0 (fun t => c t • J t) o = (∏ t, c t) * physComb k U X0 J o := by
  have := (physCombML k U X0 o).map_smul_univ c J
  simpa [smul_eq_mul] using this

/-! ### product operators -/

/-- `σ ⊗ τ` on the joint space -/
def kronJoint (σ : Matrix (Fin 2) (Fin 2) K) (τ : Matrix e e K) : Joint K e := kroneckerMap (· * ·) σ τ

omit [StarRing K] [DecidableEq e] [Fintype e] in
/-- on product operators `applyChoi J` acts on the first factor only, as the map `σ ↦ Σ_ij J[2a+i,2b+j] σ[i,j]` -/
theorem applyChoi_kronJoint (J : Matrix (Fin 4) (Fin 4) K) (σ : Matrix (Fin 2) (Fin 2) K) (τ : Matrix e e K) :
    applyChoi J (kronJoint σ τ) =
      kronJoint (Matrix.of fun a b => ∑ i, ∑ j, J (idx4 a i) (idx4 b j) * σ i j) τ := by
  ext x y
  simp only [applyChoi, kronJoint, kroneckerMap_apply, Matrix.of_apply]
  rw [Finset.sum_mul]
  refine Finset.sum_congr rfl fun i _ => ?_
  rw [Finset.sum_mul]
  refine Finset.sum_congr rfl fun j _ => ?_
  ring

end Generic

end Yaqs.Tomo
