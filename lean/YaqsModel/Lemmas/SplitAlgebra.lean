import Mathlib.Data.Matrix.Basic
import Mathlib.LinearAlgebra.Matrix.Trace
import Mathlib.LinearAlgebra.Matrix.ConjTranspose
import Mathlib.Algebra.Star.BigOperators

/-! matrix algebra behind a truncated SVD split (C09 items 5 and 6): the SVD enters as the *spec*
    `M = U * diagonal s * V`, `Uᴴ * U = 1`, `V * Vᴴ = 1` (validated on every matrix the implementation decomposes). -/
namespace Yaqs.Split
open Matrix

variable {m n k : Type*} [Fintype m] [Fintype n] [Fintype k] [DecidableEq m] [DecidableEq n] [DecidableEq k]
variable {K : Type*} [CommRing K] [StarRing K]

/-- squared Frobenius norm as a trace -/
def frobSq (X : Matrix m n K) : K := trace (Xᴴ * X)

omit [DecidableEq m] [DecidableEq n] in
theorem frobSq_UDV (U : Matrix m k K) (V : Matrix k n K) (d : k → K)
    (hU : Uᴴ * U = 1) (hV : V * Vᴴ = 1) :
    frobSq (U * diagonal d * V) = ∑ i, star (d i) * d i := by
  unfold frobSq
  have h1 : (U * diagonal d * V)ᴴ * (U * diagonal d * V)
      = Vᴴ * ((diagonal d)ᴴ * (Uᴴ * U) * diagonal d) * V := by
    simp only [conjTranspose_mul, Matrix.mul_assoc]
  rw [h1, hU, Matrix.mul_one, Matrix.mul_assoc, trace_mul_comm, Matrix.mul_assoc, hV, Matrix.mul_one,
    diagonal_conjTranspose, diagonal_mul_diagonal, trace_diagonal]
  simp [Pi.star_apply]

end Yaqs.Split

namespace Yaqs.Split
open Matrix

variable {m n k k' : Type*} [Fintype m] [Fintype n] [Fintype k] [Fintype k'] [DecidableEq k] [DecidableEq k']
variable {K : Type*} [CommRing K] [StarRing K]

/-- zero out the singular values that are not kept -/
def maskKept (kept : k → Prop) [DecidablePred kept] (s : k → K) : k → K := fun i => if kept i then s i else 0
def maskDropped (kept : k → Prop) [DecidablePred kept] (s : k → K) : k → K := fun i => if kept i then 0 else s i

theorem sub_masked (U : Matrix m k K) (V : Matrix k n K) (s : k → K) (kept : k → Prop) [DecidablePred kept] :
    U * diagonal s * V - U * diagonal (maskKept kept s) * V = U * diagonal (maskDropped kept s) * V := by
  rw [← Matrix.sub_mul, ← Matrix.mul_sub]
  have : diagonal s - diagonal (maskKept kept s) = diagonal (maskDropped kept s) := by
    rw [diagonal_sub]
    congr 1
    funext i
    simp only [maskKept, maskDropped]
    split <;> simp
  rw [this]

/-- selecting columns of an isometry through an injective map gives an isometry -/
theorem isometry_submatrix (U : Matrix m k K) (hU : Uᴴ * U = 1) (e : k' → k) (he : Function.Injective e) :
    (U.submatrix id e)ᴴ * (U.submatrix id e) = 1 := by
  have : (U.submatrix id e)ᴴ * (U.submatrix id e) = (Uᴴ * U).submatrix e e := by
    ext i j
    simp [Matrix.mul_apply, Matrix.submatrix_apply, Matrix.conjTranspose_apply]
  rw [this, hU, Matrix.submatrix_one _ he]

end Yaqs.Split
