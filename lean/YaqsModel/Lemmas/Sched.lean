import YaqsModel.Model.Sched

/-!
# Helper lemmas for `Model.Sched` (C13)

The invariant `Inv0` (everything except "the window is full while jobs remain") is established by `start`,
kept by the initial submission loop `fill` and by every `step`; `Full` holds from `init` on.
-/
set_option linter.unusedSimpArgs false
namespace Yaqs.Sched

/-! ## lists -/

theorem eraseIdx_perm {α} (l : List α) (p : Nat) (h : p < l.length) : l.Perm (l[p] :: l.eraseIdx p) := by
  induction l generalizing p with
  | nil => simp at h
  | cons x xs ih =>
    cases p with
    | zero => simp
    | succ p =>
      simp only [List.length_cons, Nat.add_lt_add_iff_right] at h
      simp only [List.getElem_cons_succ, List.eraseIdx_cons_succ]
      exact ((ih p h).cons x).trans (List.Perm.swap _ _ _)

theorem map_eraseIdx_perm {α β} (f : α → β) (l : List α) (p : Nat) (h : p < l.length) :
    (l.map f).Perm (f l[p] :: (l.eraseIdx p).map f) := by
  have := (eraseIdx_perm l p h).map f
  simpa using this

theorem mem_of_mem_eraseIdx' {α} {l : List α} {p : Nat} {x : α} (h : x ∈ l.eraseIdx p) : x ∈ l :=
  (List.eraseIdx_sublist l p).subset h

theorem sum_set (l : List Nat) (i v : Nat) (h : i < l.length) : (l.set i v).sum + l[i] = l.sum + v := by
  induction l generalizing i with
  | nil => simp at h
  | cons x xs ih =>
    cases i with
    | zero => simp; omega
    | succ i =>
      simp only [List.length_cons, Nat.add_lt_add_iff_right] at h
      simp only [List.set_cons_succ, List.sum_cons, List.getElem_cons_succ]
      have := ih i h
      omega

theorem sum_le_length_mul (l : List Nat) (R : Nat) (h : ∀ x ∈ l, x ≤ R) : l.sum ≤ l.length * R := by
  induction l with
  | nil => simp
  | cons x xs ih =>
    simp only [List.sum_cons, List.length_cons, Nat.succ_mul]
    have h1 := h x (by simp)
    have h2 := ih (fun y hy => h y (by simp [hy]))
    omega

theorem getD_set (l : List Nat) (i j v : Nat) :
    (l.set i v).getD j 0 = if i = j ∧ i < l.length then v else l.getD j 0 := by
  simp only [List.getD_eq_getElem?_getD, List.getElem?_set]
  by_cases hij : i = j
  · subst hij
    by_cases hl : i < l.length
    · simp [hl]
    · simp [hl]
  · simp [hij]

theorem mem_set_le (l : List Nat) (i v R : Nat) (h : ∀ x ∈ l, x ≤ R) (hv : v ≤ R) : ∀ x ∈ l.set i v, x ≤ R := by
  intro x hx
  rcases List.mem_or_eq_of_mem_set hx with h1 | h1
  · exact h x h1
  · omega

theorem getD_le_of_forall (l : List Nat) (i R : Nat) (h : ∀ x ∈ l, x ≤ R) : l.getD i 0 ≤ R := by
  simp only [List.getD_eq_getElem?_getD]
  cases hi : l[i]? with
  | none => simp
  | some v =>
    simp only [Option.getD_some]
    exact h v (List.mem_of_getElem? hi)

theorem getD_eq_getElem (l : List Nat) (i : Nat) (h : i < l.length) : l.getD i 0 = l[i] := by
  simp [List.getD_eq_getElem?_getD, h]

/-! ## the invariant -/

/-- the job indices accounted for: yielded, in flight, and the one whose failure was raised -/
def content (s : State) : List Nat :=
  match s.status with
  | .running => s.yielded.map (·.1) ++ s.inflight.map (·.2)
  | .raised j _ => j :: (s.yielded.map (·.1) ++ s.inflight.map (·.2))

structure Inv0 (s : State) : Prop where
  cap : s.inflight.length ≤ s.maxInflight
  next_le : s.next ≤ s.nJobs
  part : (content s).Perm (List.range s.next)
  ret_len : s.retries.length = s.nJobs
  ret_le : ∀ x ∈ s.retries, x ≤ s.maxRetries
  sub_infl : ∀ p ∈ s.inflight, s.subs[p.1]? = some p.2
  sub_yield : ∀ p ∈ s.yielded, s.subs[p.2]? = some p.1
  ids : (s.inflight.map (·.1)).Pairwise (· < ·)
  count : ∀ i, s.subs.count i = (if i < s.next then 1 else 0) + s.retries.getD i 0
  sub_raised : ∀ j a, s.status = .raised j a → s.subs[a]? = some j

/-- while the generator runs and jobs remain unsubmitted, the window is full -/
def Full (s : State) : Prop := s.status = .running → s.next < s.nJobs → s.inflight.length = s.maxInflight

/-! ### constants -/

@[simp] theorem submit_nJobs (s : State) (i : Nat) : (submit s i).nJobs = s.nJobs := rfl
@[simp] theorem submit_maxInflight (s : State) (i : Nat) : (submit s i).maxInflight = s.maxInflight := rfl
@[simp] theorem submit_maxRetries (s : State) (i : Nat) : (submit s i).maxRetries = s.maxRetries := rfl
@[simp] theorem submitNext_nJobs (s : State) : (submitNext s).nJobs = s.nJobs := rfl
@[simp] theorem submitNext_maxInflight (s : State) : (submitNext s).maxInflight = s.maxInflight := rfl
@[simp] theorem submitNext_maxRetries (s : State) : (submitNext s).maxRetries = s.maxRetries := rfl

/-- the four shapes a state can have after a possible event -/
theorem step_ok_next (s : State) (pos a i : Nat) (hr : s.status = .running) (hp : s.inflight[pos]? = some (a, i))
    (hn : s.next < s.nJobs) :
    step s (.complete pos .ok) =
      { s with inflight := s.inflight.eraseIdx pos ++ [(s.subs.length, s.next)],
               yielded := s.yielded ++ [(i, a)], subs := s.subs ++ [s.next], next := s.next + 1 } := by
  simp [step, hr, hp, hn, submitNext, submit]

theorem step_ok_last (s : State) (pos a i : Nat) (hr : s.status = .running) (hp : s.inflight[pos]? = some (a, i))
    (hn : ¬ s.next < s.nJobs) :
    step s (.complete pos .ok) =
      { s with inflight := s.inflight.eraseIdx pos, yielded := s.yielded ++ [(i, a)] } := by
  simp [step, hr, hp, hn]

theorem step_retry (s : State) (pos a i : Nat) (hr : s.status = .running) (hp : s.inflight[pos]? = some (a, i))
    (hb : s.retries.getD i 0 < s.maxRetries) :
    step s (.complete pos .retryable) =
      { s with inflight := s.inflight.eraseIdx pos ++ [(s.subs.length, i)],
               retries := s.retries.set i (s.retries.getD i 0 + 1), subs := s.subs ++ [i] } := by
  simp only [List.getD_eq_getElem?_getD] at hb
  simp [step, hr, hp, hb, submit]

theorem step_exhausted (s : State) (pos a i : Nat) (hr : s.status = .running) (hp : s.inflight[pos]? = some (a, i))
    (hb : ¬ s.retries.getD i 0 < s.maxRetries) :
    step s (.complete pos .retryable) =
      { s with inflight := s.inflight.eraseIdx pos, status := .raised i a } := by
  simp only [List.getD_eq_getElem?_getD] at hb
  simp [step, hr, hp, hb]

theorem step_fatal (s : State) (pos a i : Nat) (hr : s.status = .running) (hp : s.inflight[pos]? = some (a, i)) :
    step s (.complete pos .fatal) =
      { s with inflight := s.inflight.eraseIdx pos, status := .raised i a } := by
  simp [step, hr, hp]

theorem step_raised (s : State) (e : Event) (j a : Nat) (hr : s.status = .raised j a) : step s e = s := by
  cases e; simp [step, hr]

theorem step_invalid (s : State) (pos : Nat) (o : Outcome) (hp : s.inflight[pos]? = none) :
    step s (.complete pos o) = s := by
  unfold step
  cases hs : s.status <;> simp [hp]


/-! ### helper facts about one loop body -/

theorem erase_length {α} (l : List α) (pos : Nat) (h : pos < l.length) : (l.eraseIdx pos).length + 1 = l.length := by
  rw [List.length_eraseIdx]; simp [h]; omega

theorem getElem?_append_of_some {l : List Nat} {k v : Nat} (x : Nat) (h : l[k]? = some v) :
    (l ++ [x])[k]? = some v := by
  have hk : k < l.length := (List.getElem?_eq_some_iff.mp h).1
  rw [List.getElem?_append_left hk]; exact h

theorem lt_of_getElem?_some {l : List Nat} {k v : Nat} (h : l[k]? = some v) : k < l.length :=
  (List.getElem?_eq_some_iff.mp h).1

theorem sub_infl_erase_append (infl : List (Nat × Nat)) (subs : List Nat) (pos j : Nat)
    (h : ∀ p ∈ infl, subs[p.1]? = some p.2) :
    ∀ p ∈ infl.eraseIdx pos ++ [(subs.length, j)], (subs ++ [j])[p.1]? = some p.2 := by
  intro p hp
  rcases List.mem_append.mp hp with h1 | h1
  · exact getElem?_append_of_some j (h p (mem_of_mem_eraseIdx' h1))
  · simp only [List.mem_singleton] at h1
    subst h1
    simp

theorem sub_infl_erase (infl : List (Nat × Nat)) (subs : List Nat) (pos : Nat)
    (h : ∀ p ∈ infl, subs[p.1]? = some p.2) : ∀ p ∈ infl.eraseIdx pos, subs[p.1]? = some p.2 :=
  fun p hp => h p (mem_of_mem_eraseIdx' hp)

theorem ids_erase (infl : List (Nat × Nat)) (pos : Nat) (h : (infl.map (·.1)).Pairwise (· < ·)) :
    ((infl.eraseIdx pos).map (·.1)).Pairwise (· < ·) :=
  h.sublist ((List.eraseIdx_sublist infl pos).map _)

theorem ids_erase_append (infl : List (Nat × Nat)) (pos L j : Nat) (h : (infl.map (·.1)).Pairwise (· < ·))
    (hL : ∀ p ∈ infl, p.1 < L) : ((infl.eraseIdx pos ++ [(L, j)]).map (·.1)).Pairwise (· < ·) := by
  rw [List.map_append, List.pairwise_append]
  refine ⟨ids_erase infl pos h, by simp, ?_⟩
  intro x hx y hy
  simp only [List.map_cons, List.map_nil, List.mem_singleton] at hy
  subst hy
  obtain ⟨p, hp, rfl⟩ := List.mem_map.mp hx
  exact hL p (mem_of_mem_eraseIdx' hp)

theorem count_append_singleton (l : List Nat) (x j : Nat) :
    (l ++ [x]).count j = l.count j + (if x = j then 1 else 0) := by
  rw [List.count_append, List.count_singleton]
  by_cases h : x = j
  · subst h; simp
  · have : (j == x) = false := by simp; omega
    simp [h]

section shapes
variable {s : State} {pos a i : Nat}

theorem pos_lt (hp : s.inflight[pos]? = some (a, i)) : pos < s.inflight.length :=
  (List.getElem?_eq_some_iff.mp hp).1

theorem getElem_pos (hp : s.inflight[pos]? = some (a, i)) : s.inflight[pos]'(pos_lt hp) = (a, i) :=
  (List.getElem?_eq_some_iff.mp hp).2

theorem mem_pos (hp : s.inflight[pos]? = some (a, i)) : (a, i) ∈ s.inflight :=
  List.mem_of_getElem? hp

theorem jobs_perm (hp : s.inflight[pos]? = some (a, i)) :
    (s.inflight.map (·.2)).Perm (i :: (s.inflight.eraseIdx pos).map (·.2)) := by
  have := map_eraseIdx_perm (·.2) s.inflight pos (pos_lt hp)
  rw [getElem_pos hp] at this
  exact this

theorem job_lt_next (h : Inv0 s) (hr : s.status = .running) (hm : (a, i) ∈ s.inflight) : i < s.next := by
  have hc : i ∈ content s := by
    unfold content; rw [hr]
    exact List.mem_append_right _ (List.mem_map.mpr ⟨(a, i), hm, rfl⟩)
  exact List.mem_range.mp ((h.part.mem_iff).mp hc)

/-- `Y ++ [i] ++ E ~ Y ++ F` when `F ~ i :: E` -/
theorem perm_move {Y F E : List Nat} {i : Nat} (hF : F.Perm (i :: E)) : ((Y ++ [i]) ++ E).Perm (Y ++ F) := by
  have : (Y ++ [i]) ++ E = Y ++ (i :: E) := by simp
  rw [this]
  exact List.Perm.append_left Y hF.symm

theorem inv0_ok_next (h : Inv0 s) (hr : s.status = .running) (hp : s.inflight[pos]? = some (a, i))
    (hn : s.next < s.nJobs) : Inv0 (step s (.complete pos .ok)) := by
  rw [step_ok_next s pos a i hr hp hn]
  have hlen := erase_length s.inflight pos (pos_lt hp)
  have hpart := h.part
  unfold content at hpart; rw [hr] at hpart; simp only at hpart
  refine ⟨?_, ?_, ?_, h.ret_len, h.ret_le, ?_, ?_, ?_, ?_, by intro j a' hh; simp [hr] at hh⟩
  · have := h.cap; simp only [List.length_append, List.length_singleton]; omega
  · simp only; omega
  · unfold content; simp only [hr]
    rw [List.range_succ, List.map_append, List.map_append, ← List.append_assoc]
    exact List.Perm.append_right _ ((perm_move (jobs_perm hp)).trans hpart)
  · exact sub_infl_erase_append s.inflight s.subs pos s.next h.sub_infl
  · intro p hp'
    rcases List.mem_append.mp hp' with h1 | h1
    · exact getElem?_append_of_some _ (h.sub_yield p h1)
    · simp only [List.mem_singleton] at h1; subst h1
      exact getElem?_append_of_some _ (h.sub_infl (a, i) (mem_pos hp))
  · exact ids_erase_append s.inflight pos s.subs.length s.next h.ids
      (fun p hp' => lt_of_getElem?_some (h.sub_infl p hp'))
  · intro j
    simp only
    rw [count_append_singleton, h.count j]
    by_cases h1 : j < s.next
    · have : ¬ s.next = j := by omega
      simp [h1, this]; omega
    · by_cases h2 : s.next = j
      · subst h2; simp; omega
      · have : ¬ j < s.next + 1 := by omega
        simp [h1, h2, this]

theorem inv0_ok_last (h : Inv0 s) (hr : s.status = .running) (hp : s.inflight[pos]? = some (a, i))
    (hn : ¬ s.next < s.nJobs) : Inv0 (step s (.complete pos .ok)) := by
  rw [step_ok_last s pos a i hr hp hn]
  have hlen := erase_length s.inflight pos (pos_lt hp)
  have hpart := h.part
  unfold content at hpart; rw [hr] at hpart; simp only at hpart
  refine ⟨?_, h.next_le, ?_, h.ret_len, h.ret_le, ?_, ?_, ?_, h.count, by intro j a' hh; simp [hr] at hh⟩
  · have := h.cap; simp only; omega
  · unfold content; simp only [hr]
    rw [List.map_append]
    exact (perm_move (jobs_perm hp)).trans hpart
  · exact sub_infl_erase s.inflight s.subs pos h.sub_infl
  · intro p hp'
    rcases List.mem_append.mp hp' with h1 | h1
    · exact h.sub_yield p h1
    · simp only [List.mem_singleton] at h1; subst h1
      exact h.sub_infl (a, i) (mem_pos hp)
  · exact ids_erase s.inflight pos h.ids

theorem inv0_retry (h : Inv0 s) (hr : s.status = .running) (hp : s.inflight[pos]? = some (a, i))
    (hb : s.retries.getD i 0 < s.maxRetries) : Inv0 (step s (.complete pos .retryable)) := by
  rw [step_retry s pos a i hr hp hb]
  have hlen := erase_length s.inflight pos (pos_lt hp)
  have hpart := h.part
  unfold content at hpart; rw [hr] at hpart; simp only at hpart
  have hi : i < s.next := job_lt_next h hr (mem_pos hp)
  have hil : i < s.retries.length := by have := h.ret_len; have := h.next_le; omega
  refine ⟨?_, h.next_le, ?_, ?_, ?_, ?_, ?_, ?_, ?_, by intro j a' hh; simp [hr] at hh⟩
  · have := h.cap; simp only [List.length_append, List.length_singleton]; omega
  · unfold content; simp only [hr]
    rw [List.map_append, ← List.append_assoc]
    simp only [List.map_cons, List.map_nil]
    refine List.Perm.trans ?_ hpart
    refine List.Perm.trans (List.perm_append_singleton _ _) ?_
    refine List.Perm.trans List.perm_middle.symm ?_
    exact List.Perm.append_left _ (jobs_perm hp).symm
  · simp only [List.length_set]; exact h.ret_len
  · exact mem_set_le s.retries i _ s.maxRetries h.ret_le (by omega)
  · exact sub_infl_erase_append s.inflight s.subs pos i h.sub_infl
  · intro p hp'
    exact getElem?_append_of_some _ (h.sub_yield p hp')
  · exact ids_erase_append s.inflight pos s.subs.length i h.ids
      (fun p hp' => lt_of_getElem?_some (h.sub_infl p hp'))
  · intro j
    simp only
    rw [count_append_singleton, h.count j, getD_set]
    by_cases h1 : i = j
    · subst h1; simp [hil]; omega
    · simp [h1]

theorem inv0_raise (h : Inv0 s) (hr : s.status = .running) (hp : s.inflight[pos]? = some (a, i)) :
    Inv0 { s with inflight := s.inflight.eraseIdx pos, status := .raised i a } := by
  have hlen := erase_length s.inflight pos (pos_lt hp)
  have hpart := h.part
  unfold content at hpart; rw [hr] at hpart; simp only at hpart
  refine ⟨?_, h.next_le, ?_, h.ret_len, h.ret_le, ?_, h.sub_yield, ?_, h.count, ?_⟩
  rotate_right
  · intro j a' hh
    simp only [Status.raised.injEq] at hh
    obtain ⟨rfl, rfl⟩ := hh
    exact h.sub_infl (a, i) (mem_pos hp)
  · have := h.cap; simp only; omega
  · unfold content; simp only
    refine List.Perm.trans List.perm_middle.symm ?_
    exact (List.Perm.append_left _ (jobs_perm hp).symm).trans hpart
  · exact sub_infl_erase s.inflight s.subs pos h.sub_infl
  · exact ids_erase s.inflight pos h.ids

end shapes

/-- **every loop body keeps the invariant** -/
theorem inv0_step (s : State) (e : Event) (h : Inv0 s) : Inv0 (step s e) := by
  cases e with
  | complete pos o =>
    cases hs : s.status with
    | raised j a => rw [step_raised s _ j a hs]; exact h
    | running =>
      cases hp : s.inflight[pos]? with
      | none => rw [step_invalid s pos o hp]; exact h
      | some p =>
        obtain ⟨a, i⟩ := p
        cases o with
        | ok =>
          by_cases hn : s.next < s.nJobs
          · exact inv0_ok_next h hs hp hn
          · exact inv0_ok_last h hs hp hn
        | retryable =>
          by_cases hb : s.retries.getD i 0 < s.maxRetries
          · exact inv0_retry h hs hp hb
          · rw [step_exhausted s pos a i hs hp hb]; exact inv0_raise h hs hp
        | fatal => rw [step_fatal s pos a i hs hp]; exact inv0_raise h hs hp


/-! ### constants and status under `step` -/

theorem step_consts (s : State) (e : Event) :
    (step s e).nJobs = s.nJobs ∧ (step s e).maxInflight = s.maxInflight ∧ (step s e).maxRetries = s.maxRetries := by
  cases e with
  | complete pos o =>
    cases hs : s.status with
    | raised j a => rw [step_raised s _ j a hs]; simp
    | running =>
      cases hp : s.inflight[pos]? with
      | none => rw [step_invalid s pos o hp]; simp
      | some p =>
        obtain ⟨a, i⟩ := p
        cases o with
        | ok =>
          by_cases hn : s.next < s.nJobs
          · rw [step_ok_next s pos a i hs hp hn]; simp
          · rw [step_ok_last s pos a i hs hp hn]; simp
        | retryable =>
          by_cases hb : s.retries.getD i 0 < s.maxRetries
          · rw [step_retry s pos a i hs hp hb]; simp
          · rw [step_exhausted s pos a i hs hp hb]; simp
        | fatal => rw [step_fatal s pos a i hs hp]; simp

theorem run_nil (s : State) : run s [] = s := rfl
theorem run_cons (s : State) (e : Event) (es : List Event) : run s (e :: es) = run (step s e) es := rfl
theorem run_append (s : State) (es fs : List Event) : run s (es ++ fs) = run (run s es) fs := by
  simp [run, List.foldl_append]

theorem run_consts (s : State) (es : List Event) :
    (run s es).nJobs = s.nJobs ∧ (run s es).maxInflight = s.maxInflight ∧ (run s es).maxRetries = s.maxRetries := by
  induction es generalizing s with
  | nil => simp [run_nil]
  | cons e es ih =>
    rw [run_cons]
    have h1 := ih (step s e)
    have h2 := step_consts s e
    omega

theorem inv0_run (s : State) (es : List Event) (h : Inv0 s) : Inv0 (run s es) := by
  induction es generalizing s with
  | nil => exact h
  | cons e es ih => exact ih _ (inv0_step s e h)

theorem run_raised (s : State) (es : List Event) (j a : Nat) (hr : s.status = .raised j a) : run s es = s := by
  induction es with
  | nil => rfl
  | cons e es ih => rw [run_cons, step_raised s e j a hr]; exact ih

/-! ### the window stays full -/

theorem full_step (s : State) (e : Event) (hf : Full s) : Full (step s e) := by
  cases e with
  | complete pos o =>
    cases hs : s.status with
    | raised j a => rw [step_raised s _ j a hs]; exact hf
    | running =>
      cases hp : s.inflight[pos]? with
      | none => rw [step_invalid s pos o hp]; exact hf
      | some p =>
        obtain ⟨a, i⟩ := p
        have hlen := erase_length s.inflight pos (pos_lt hp)
        cases o with
        | ok =>
          by_cases hn : s.next < s.nJobs
          · rw [step_ok_next s pos a i hs hp hn]
            intro _ _
            have := hf hs hn
            simp only [List.length_append, List.length_singleton]; omega
          · rw [step_ok_last s pos a i hs hp hn]
            intro _ h2; simp only at h2; omega
        | retryable =>
          by_cases hb : s.retries.getD i 0 < s.maxRetries
          · rw [step_retry s pos a i hs hp hb]
            intro _ h2
            have := hf hs h2
            simp only [List.length_append, List.length_singleton]; omega
          · rw [step_exhausted s pos a i hs hp hb]; intro h1; simp at h1
        | fatal => rw [step_fatal s pos a i hs hp]; intro h1; simp at h1

theorem full_run (s : State) (es : List Event) (h : Full s) : Full (run s es) := by
  induction es generalizing s with
  | nil => exact h
  | cons e es ih => exact ih _ (full_step s e h)

/-! ### the initial submission loop -/

theorem inv0_start (n w R : Nat) : Inv0 (start n w R) := by
  refine ⟨by simp [start], by simp [start], ?_, by simp [start], ?_, by simp [start], by simp [start],
    by simp [start], ?_, by simp [start]⟩
  · simp [content, start]
  · intro x hx; simp only [start] at hx; have := List.eq_of_mem_replicate hx; omega
  · intro i
    simp [start, List.getD_eq_getElem?_getD, List.getElem?_replicate]
    split <;> simp

theorem inv0_submitNext (s : State) (h : Inv0 s) (hr : s.status = .running) (hn : s.next < s.nJobs)
    (hl : s.inflight.length < s.maxInflight) : Inv0 (submitNext s) := by
  have hpart := h.part
  unfold content at hpart; rw [hr] at hpart; simp only at hpart
  refine ⟨?_, ?_, ?_, h.ret_len, h.ret_le, ?_, ?_, ?_, ?_, by intro j a' hh; simp [submitNext, submit, hr] at hh⟩
  · simp only [submitNext, submit, List.length_append, List.length_singleton]; omega
  · simp only [submitNext, submit]; omega
  · unfold content; simp only [submitNext, submit, hr]
    rw [List.range_succ, List.map_append, ← List.append_assoc]
    exact List.Perm.append_right _ hpart
  · intro p hp
    simp only [submitNext, submit] at hp ⊢
    rcases List.mem_append.mp hp with h1 | h1
    · exact getElem?_append_of_some _ (h.sub_infl p h1)
    · simp only [List.mem_singleton] at h1; subst h1; simp
  · intro p hp
    simp only [submitNext, submit] at hp ⊢
    exact getElem?_append_of_some _ (h.sub_yield p hp)
  · simp only [submitNext, submit]
    rw [List.map_append, List.pairwise_append]
    refine ⟨h.ids, by simp, ?_⟩
    intro x hx y hy
    simp only [List.map_cons, List.map_nil, List.mem_singleton] at hy
    subst hy
    obtain ⟨p, hp, rfl⟩ := List.mem_map.mp hx
    exact lt_of_getElem?_some (h.sub_infl p hp)
  · intro j
    simp only [submitNext, submit]
    rw [count_append_singleton, h.count j]
    by_cases h1 : j < s.next
    · have : ¬ s.next = j := by omega
      have h3 : j < s.next + 1 := by omega
      simp [h1, this, h3]
    · by_cases h2 : s.next = j
      · subst h2; simp; omega
      · have : ¬ j < s.next + 1 := by omega
        simp [h1, h2, this]

theorem fill_props (s : State) (fuel : Nat) (h : Inv0 s) (hr : s.status = .running) :
    Inv0 (fill s fuel) ∧ (fill s fuel).status = .running ∧ (fill s fuel).yielded = s.yielded ∧
    (fill s fuel).nJobs = s.nJobs ∧ (fill s fuel).maxInflight = s.maxInflight ∧
    (fill s fuel).maxRetries = s.maxRetries ∧
    (s.nJobs - s.next ≤ fuel →
      ¬ ((fill s fuel).next < (fill s fuel).nJobs ∧ (fill s fuel).inflight.length < (fill s fuel).maxInflight)) := by
  induction fuel generalizing s with
  | zero =>
    have e : fill s 0 = s := rfl
    rw [e]
    refine ⟨h, hr, rfl, rfl, rfl, rfl, ?_⟩
    intro h1 h2; omega
  | succ fuel ih =>
    unfold fill
    by_cases hc : s.next < s.nJobs ∧ s.inflight.length < s.maxInflight
    · rw [if_pos hc]
      have h' := inv0_submitNext s h hr hc.1 hc.2
      have := ih (submitNext s) h' (by simp [submitNext, submit, hr])
      refine ⟨this.1, this.2.1, ?_, ?_, ?_, ?_, ?_⟩
      · rw [this.2.2.1]; rfl
      · rw [this.2.2.2.1]; rfl
      · rw [this.2.2.2.2.1]; rfl
      · rw [this.2.2.2.2.2.1]; rfl
      · intro hf
        apply this.2.2.2.2.2.2
        simp only [submitNext, submit]; omega
    · rw [if_neg hc]
      exact ⟨h, hr, rfl, rfl, rfl, rfl, fun _ => hc⟩

/-- `nJobs` iterations are enough for the initial `while` loop -/
theorem fill_fuel_enough (n w R : Nat) :
    ¬ ((init n w R).next < n ∧ (init n w R).inflight.length < w * 2) := by
  have := fill_props (start n w R) n (inv0_start n w R) rfl
  have h7 := this.2.2.2.2.2.2 (by simp [start])
  rw [this.2.2.2.1, this.2.2.2.2.1] at h7
  exact h7

theorem init_consts (n w R : Nat) :
    (init n w R).nJobs = n ∧ (init n w R).maxInflight = w * 2 ∧ (init n w R).maxRetries = R ∧
    (init n w R).status = .running ∧ (init n w R).yielded = [] := by
  have := fill_props (start n w R) n (inv0_start n w R) rfl
  exact ⟨this.2.2.2.1, this.2.2.2.2.1, this.2.2.2.2.2.1, this.2.1, this.2.2.1⟩

theorem inv0_init (n w R : Nat) : Inv0 (init n w R) :=
  (fill_props (start n w R) n (inv0_start n w R) rfl).1

theorem full_init (n w R : Nat) : Full (init n w R) := by
  intro _ hn
  have h := fill_fuel_enough n w R
  have hc := (inv0_init n w R).cap
  have hk := init_consts n w R
  rw [hk.1] at hn
  rw [hk.2.1] at hc ⊢
  omega

theorem reach_consts (n w R : Nat) (es : List Event) :
    (run (init n w R) es).nJobs = n ∧ (run (init n w R) es).maxInflight = w * 2 ∧
    (run (init n w R) es).maxRetries = R := by
  have h1 := run_consts (init n w R) es
  have h2 := init_consts n w R
  exact ⟨h1.1.trans h2.1, h1.2.1.trans h2.2.1, h1.2.2.trans h2.2.2.1⟩


/-! ### validity, raising, termination measure -/

theorem valid_iff (s : State) (pos : Nat) (o : Outcome) :
    (Event.complete pos o).valid s = true ↔ s.status = .running ∧ pos < s.inflight.length := by
  simp [Event.valid]

theorem valid_some {s : State} {pos : Nat} {o : Outcome} (hv : (Event.complete pos o).valid s = true) :
    s.status = .running ∧ ∃ a i, s.inflight[pos]? = some (a, i) := by
  obtain ⟨h1, h2⟩ := (valid_iff s pos o).mp hv
  refine ⟨h1, (s.inflight[pos]).1, (s.inflight[pos]).2, ?_⟩
  simp [h2]

/-- one loop body: the generator keeps running iff the event does not raise -/
theorem step_running_iff (s : State) (e : Event) (hs : s.status = .running) :
    (step s e).status = .running ↔ ¬ (e.valid s = true ∧ raises s e = true) := by
  cases e with
  | complete pos o =>
    cases hp : s.inflight[pos]? with
    | none =>
      rw [step_invalid s pos o hp]
      have : ¬ pos < s.inflight.length := by
        intro h; simp [h] at hp
      simp [hs, valid_iff, this]
    | some p =>
      obtain ⟨a, i⟩ := p
      have hv : (Event.complete pos o).valid s = true := (valid_iff s pos o).mpr ⟨hs, pos_lt hp⟩
      cases o with
      | ok =>
        by_cases hn : s.next < s.nJobs
        · rw [step_ok_next s pos a i hs hp hn]; simp [hs, raises, hp]
        · rw [step_ok_last s pos a i hs hp hn]; simp [hs, raises, hp]
      | retryable =>
        by_cases hb : s.retries.getD i 0 < s.maxRetries
        · rw [step_retry s pos a i hs hp hb]
          simp only [List.getD_eq_getElem?_getD] at hb
          simp [hs, raises, hp, hb]
        · rw [step_exhausted s pos a i hs hp hb]
          simp only [List.getD_eq_getElem?_getD] at hb
          simp [raises, hp, hv]; omega
      | fatal => rw [step_fatal s pos a i hs hp]; simp [raises, hp, hv]

/-- what is raised is the failing attempt itself -/
theorem step_raised_which (s : State) (pos : Nat) (o : Outcome) (j b : Nat) (hs : s.status = .running)
    (h : (step s (.complete pos o)).status = .raised j b) : s.inflight[pos]? = some (b, j) := by
  cases hp : s.inflight[pos]? with
  | none => rw [step_invalid s pos o hp, hs] at h; simp at h
  | some p =>
    obtain ⟨a, i⟩ := p
    cases o with
    | ok =>
      by_cases hn : s.next < s.nJobs
      · rw [step_ok_next s pos a i hs hp hn] at h; simp [hs] at h
      · rw [step_ok_last s pos a i hs hp hn] at h; simp [hs] at h
    | retryable =>
      by_cases hb : s.retries.getD i 0 < s.maxRetries
      · rw [step_retry s pos a i hs hp hb] at h; simp [hs] at h
      · rw [step_exhausted s pos a i hs hp hb] at h
        simp only [Status.raised.injEq] at h; obtain ⟨rfl, rfl⟩ := h; rfl
    | fatal =>
      rw [step_fatal s pos a i hs hp] at h
      simp only [Status.raised.injEq] at h; obtain ⟨rfl, rfl⟩ := h; rfl

theorem run_running_iff (s : State) (es : List Event) (hs : s.status = .running) :
    (run s es).status = .running ↔
      ∀ k, (hk : k < es.length) → ¬ (es[k].valid (run s (es.take k)) = true ∧ raises (run s (es.take k)) es[k] = true) := by
  induction es generalizing s with
  | nil => simp [run_nil, hs]
  | cons e es ih =>
    rw [run_cons]
    constructor
    · intro hfin
      have h1 : (step s e).status = .running := by
        cases hst : (step s e).status with
        | running => rfl
        | raised j a => rw [run_raised _ es j a hst, hst] at hfin; simp at hfin
      intro k hk
      cases k with
      | zero =>
        simp only [List.take_zero, run_nil, List.getElem_cons_zero]
        exact (step_running_iff s e hs).mp h1
      | succ k =>
        simp only [List.take_succ_cons, run_cons, List.getElem_cons_succ]
        exact (ih (step s e) h1).mp hfin k (by simpa using hk)
    · intro hall
      have h0 := hall 0 (by simp)
      simp only [List.take_zero, run_nil, List.getElem_cons_zero] at h0
      have h1 : (step s e).status = .running := (step_running_iff s e hs).mpr h0
      apply (ih (step s e) h1).mpr
      intro k hk
      have := hall (k + 1) (by simpa using hk)
      simpa only [List.take_succ_cons, run_cons, List.getElem_cons_succ] using this

theorem yielded_lt (s : State) (h : Inv0 s) (hr : s.status = .running) :
    s.yielded.length + s.inflight.length = s.next := by
  have := h.part.length_eq
  unfold content at this; rw [hr] at this
  simpa using this

/-- **termination**: every loop body that actually runs decreases the measure -/
theorem measure_step_lt (s : State) (e : Event) (h : Inv0 s) (hv : e.valid s = true) :
    measure (step s e) < measure s := by
  cases e with
  | complete pos o =>
    obtain ⟨hs, a, i, hp⟩ := valid_some hv
    have hyl := yielded_lt s h hs
    have hpl := pos_lt hp
    have hnl := h.next_le
    have key : (s.nJobs - (s.yielded.length + 1)) * (s.maxRetries + 1) + (s.maxRetries + 1)
        = (s.nJobs - s.yielded.length) * (s.maxRetries + 1) := by
      have : s.nJobs - s.yielded.length = (s.nJobs - (s.yielded.length + 1)) + 1 := by omega
      rw [this, Nat.add_mul]; simp
    cases o with
    | ok =>
      by_cases hn : s.next < s.nJobs
      · rw [step_ok_next s pos a i hs hp hn]
        simp only [measure, hs, List.length_append, List.length_singleton]
        omega
      · rw [step_ok_last s pos a i hs hp hn]
        simp only [measure, hs, List.length_append, List.length_singleton]
        omega
    | retryable =>
      by_cases hb : s.retries.getD i 0 < s.maxRetries
      · have h' := inv0_retry h hs hp hb
        rw [step_retry s pos a i hs hp hb] at h' ⊢
        have hi : i < s.next := job_lt_next h hs (mem_pos hp)
        have hil : i < s.retries.length := by have := h.ret_len; omega
        have hsum := sum_set s.retries i (s.retries.getD i 0 + 1) hil
        rw [getD_eq_getElem s.retries i hil] at hsum
        have hbound := sum_le_length_mul _ s.maxRetries h'.ret_le
        have hlen' := h'.ret_len
        simp only at hbound hlen'
        rw [hlen'] at hbound
        rw [getD_eq_getElem s.retries i hil] at hbound
        simp only [measure, hs]
        rw [getD_eq_getElem s.retries i hil]
        omega
      · rw [step_exhausted s pos a i hs hp hb]
        simp only [measure, hs]; omega
    | fatal =>
      rw [step_fatal s pos a i hs hp]
      simp only [measure, hs]; omega

/-! ### batches are sequences of single completions -/

theorem stepId_eq (s : State) (a : Nat) (o : Outcome) : stepId s a o = s ∨ ∃ p, stepId s a o = step s (.complete p o) := by
  unfold stepId
  split
  · exact Or.inr ⟨_, rfl⟩
  · exact Or.inl rfl

theorem foldl_batch_eq_run (snap : List (Nat × Nat)) (b : List (Nat × Outcome)) (s : State) :
    ∃ evs, b.foldl (fun t po => match snap[po.1]? with
                                | some (a, _) => stepId t a po.2
                                | none => t) s = run s evs := by
  induction b generalizing s with
  | nil => exact ⟨[], rfl⟩
  | cons po rest ih =>
    simp only [List.foldl_cons]
    cases hsn : snap[po.1]? with
    | none => simpa [hsn] using ih s
    | some p =>
      obtain ⟨a, i⟩ := p
      simp only
      rcases stepId_eq s a po.2 with h | ⟨q, h⟩
      · rw [h]; exact ih s
      · rw [h]
        obtain ⟨evs, he⟩ := ih (step s (.complete q po.2))
        exact ⟨.complete q po.2 :: evs, by rw [he, run_cons]⟩

theorem stepBatch_eq_run (s : State) (b : List (Nat × Outcome)) : ∃ evs, stepBatch s b = run s evs :=
  foldl_batch_eq_run s.inflight b s

theorem runBatches_eq_run (s : State) (bs : List (List (Nat × Outcome))) : ∃ evs, runBatches s bs = run s evs := by
  induction bs generalizing s with
  | nil => exact ⟨[], rfl⟩
  | cons b bs ih =>
    obtain ⟨e1, h1⟩ := stepBatch_eq_run s b
    obtain ⟨e2, h2⟩ := ih (stepBatch s b)
    refine ⟨e1 ++ e2, ?_⟩
    rw [run_append, ← h1, ← h2]; rfl

/-- the lookup by attempt id finds exactly that attempt (ids are distinct) -/
theorem stepId_spec (s : State) (h : Inv0 s) (a i : Nat) (o : Outcome) (hm : (a, i) ∈ s.inflight) :
    ∃ p, s.inflight[p]? = some (a, i) ∧ stepId s a o = step s (.complete p o) := by
  unfold stepId
  cases hf : s.inflight.findIdx? (fun p => p.1 == a) with
  | none =>
    rw [List.findIdx?_eq_none_iff] at hf
    have := hf (a, i) hm
    simp at this
  | some p =>
    refine ⟨p, ?_, rfl⟩
    rw [List.findIdx?_eq_some_iff_getElem] at hf
    obtain ⟨hlt, hpa, _⟩ := hf
    have hpa' : (s.inflight[p]).1 = a := by simpa using hpa
    -- two entries with the same id are the same entry
    obtain ⟨q, hq, hqe⟩ := List.getElem_of_mem hm
    have hids := h.ids
    rw [List.pairwise_iff_getElem] at hids
    have hpq : p = q := by
      rcases Nat.lt_trichotomy p q with hlt' | heq | hgt
      · have := hids p q (by simpa using hlt) (by simpa using hq) hlt'
        simp only [List.getElem_map] at this
        rw [hpa', hqe] at this; simp at this
      · exact heq
      · have := hids q p (by simpa using hq) (by simpa using hlt) hgt
        simp only [List.getElem_map] at this
        rw [hpa', hqe] at this; simp at this
    subst hpq
    rw [List.getElem?_eq_getElem hlt, hqe]


/-! ### stitching: a fold of `set` over yields with distinct indices -/

section stitch
variable {γ : Type}

theorem foldl_set_length (v : Nat × Nat → γ) (ys : List (Nat × Nat)) (r : List γ) :
    (ys.foldl (fun r y => r.set y.1 (v y)) r).length = r.length := by
  induction ys generalizing r with
  | nil => rfl
  | cons y ys ih => simp only [List.foldl_cons]; rw [ih]; simp

theorem foldl_set_untouched (v : Nat × Nat → γ) (ys : List (Nat × Nat)) (r : List γ) (i : Nat)
    (hi : i ∉ ys.map (·.1)) : (ys.foldl (fun r y => r.set y.1 (v y)) r)[i]? = r[i]? := by
  induction ys generalizing r with
  | nil => rfl
  | cons y ys ih =>
    simp only [List.map_cons, List.mem_cons, not_or] at hi
    simp only [List.foldl_cons]
    rw [ih _ hi.2, List.getElem?_set_ne (fun h => hi.1 h.symm)]

/-- the slot of an index that was yielded once holds exactly the value yielded with it -/
theorem foldl_set_get (v : Nat × Nat → γ) (ys : List (Nat × Nat)) (r : List γ) (y : Nat × Nat)
    (hnd : (ys.map (·.1)).Nodup) (hy : y ∈ ys) (hlen : y.1 < r.length) :
    (ys.foldl (fun r y => r.set y.1 (v y)) r)[y.1]? = some (v y) := by
  induction ys generalizing r with
  | nil => simp at hy
  | cons y0 ys ih =>
    simp only [List.map_cons, List.nodup_cons] at hnd
    simp only [List.foldl_cons]
    rcases List.mem_cons.mp hy with h | h
    · subst h
      rw [foldl_set_untouched v ys _ _ hnd.1]
      simp [hlen]
    · exact ih _ hnd.2 h (by simpa using hlen)

theorem stitch_row {α : Type} (work : Nat → Nat → List α) (ys : List (Nat × Nat)) (tab : List (List (Option α))) (k : Nat) :
    (ys.foldl (fun tab y => stitchObs tab y.1 (work y.1 y.2)) tab)[k]? =
      (tab[k]?).map (fun row => ys.foldl (fun r y => r.set y.1 ((work y.1 y.2)[k]?)) row) := by
  induction ys generalizing tab with
  | nil => simp
  | cons y ys ih =>
    simp only [List.foldl_cons]
    rw [ih]
    simp only [stitchObs, List.getElem?_mapIdx]
    cases tab[k]? <;> simp

end stitch

/-! ### tomography: accumulation is a sum over the yields of each sequence -/

theorem getD_set_int (l : List Int) (i j : Nat) (v : Int) :
    (l.set i v).getD j 0 = if i = j ∧ i < l.length then v else l.getD j 0 := by
  simp only [List.getD_eq_getElem?_getD, List.getElem?_set]
  by_cases hij : i = j
  · subst hij
    by_cases hl : i < l.length
    · simp [hl]
    · simp [hl]
  · simp [hij]

theorem accumulate_fold (nTraj : Nat) (weight : Nat → Nat → Int) (ys : List (Nat × Nat)) (acc : List Int) (q : Nat)
    (hq : q < acc.length) (hys : ∀ y ∈ ys, y.1 / nTraj < acc.length) :
    (ys.foldl (fun acc y => acc.set (y.1 / nTraj) (acc.getD (y.1 / nTraj) 0 + weight y.1 y.2)) acc).getD q 0 =
      acc.getD q 0 + ((ys.filter (fun y => y.1 / nTraj == q)).map (fun y => weight y.1 y.2)).sum := by
  induction ys generalizing acc with
  | nil => simp
  | cons y ys ih =>
    simp only [List.foldl_cons]
    have hy := hys y (by simp)
    rw [ih _ (by simpa using hq) (fun z hz => by simpa using hys z (by simp [hz]))]
    rw [getD_set_int]
    by_cases h : y.1 / nTraj = q
    · subst h
      simp [hy, List.filter_cons]; omega
    · have : (y.1 / nTraj == q) = false := by simpa using h
      simp [h, List.filter_cons, this]

/-! ### serial loop -/

theorem serialLoop_spec (fails : Nat → Bool) (l : List Nat) (st : SerialState) :
    serialLoop fails l st =
      { yielded := st.yielded ++ (l.takeWhile (fun i => !fails i)).map (fun i => (i, 0)),
        calls := st.calls ++ l.takeWhile (fun i => !fails i) ++ (l.find? fails).toList,
        raisedAt := match l.find? fails with
                    | some i => some i
                    | none => st.raisedAt } := by
  induction l generalizing st with
  | nil => simp [serialLoop]
  | cons i rest ih =>
    unfold serialLoop
    by_cases hf : fails i = true
    · simp [hf]
    · have hf' : fails i = false := by simpa using hf
      simp only [hf', Bool.not_false, ↓reduceIte]
      rw [ih]
      simp [List.takeWhile_cons, List.find?_cons, hf']

theorem takeWhile_append_find_prefix (p : Nat → Bool) (l : List Nat) :
    (l.takeWhile (fun i => !p i) ++ (l.find? p).toList) <+: l := by
  induction l with
  | nil => simp
  | cons x xs ih =>
    by_cases hx : p x = true
    · simp [List.takeWhile_cons, List.find?_cons, hx]
    · have hx' : p x = false := by simpa using hx
      simp only [List.takeWhile_cons, hx', Bool.not_false, ↓reduceIte, List.find?_cons, List.cons_append]
      exact (List.prefix_cons_inj x).mpr ih

theorem takeWhile_eq_self (p : Nat → Bool) (l : List Nat) (h : ∀ x ∈ l, p x = true) : l.takeWhile p = l := by
  induction l with
  | nil => rfl
  | cons x xs ih =>
    rw [List.takeWhile_cons, h x (by simp)]
    simp only [↓reduceIte]
    rw [ih (fun y hy => h y (by simp [hy]))]

end Yaqs.Sched
