import YaqsModel.Lemmas.Heff

/-!
Locality of the energy in the index model of `Model/Heff.lean` (used by `Props/C05.lean`):
the number `⟨ψ|H|ψ⟩` obtained by absorbing a whole chain into the environment blocks equals the quadratic form of the
local effective Hamiltonian of any one site (`project_site`) — resp. of the bond matrix between two sites
(`project_bond`) — built from the environments of the rest of the chain.
-/
namespace Yaqs.Heff

open Finset

section local_
variable {K : Type*} [CommSemiring K]

/-- `Σ_{o,A,B} cj(bra[o,A,B]) · Y[o,A,B]` (`np.vdot(bra, Y)` of two 3-leg tensors) -/
def braket3 (cj : K → K) (d0 d1 d2 : ℕ) (bra Y : ℕ → ℕ → ℕ → K) : K :=
  ∑ o ∈ range d0, ∑ A ∈ range d1, ∑ B ∈ range d2, cj (bra o A B) * Y o A B

/-- `Σ_{p,w} cj(bra[p,w]) · Y[p,w]` (`np.vdot(bra, Y)` of two matrices) -/
def braket2 (cj : K → K) (d0 d1 : ℕ) (bra Y : ℕ → ℕ → K) : K :=
  ∑ p ∈ range d0, ∑ w ∈ range d1, cj (bra p w) * Y p w

/-- pairing the left block with the right block after the right block absorbed one site = `⟨bra | project_site(ket)⟩` -/
theorem pair3_updateRight (cj : K → K) (d : SiteDims) (L R : ℕ → ℕ → ℕ → K) (W : ℕ → ℕ → ℕ → ℕ → K)
    (ket bra : ℕ → ℕ → ℕ → K) :
    pair3 d.a d.l d.aa L (updateRight cj d R W ket bra) =
      braket3 cj d.o d.aa d.bb bra (projectSite d L R W ket) := by
  unfold pair3 updateRight braket3 projectSite
  simp only [sumTo_eq_sum, Finset.mul_sum, Finset.sum_mul]
  -- left: (a l A' o B p r b)   right: (o A' B a l p r b)
  rw [sw2, sw1, sw0, sw2, sw1, sw3, sw2]
  refine Finset.sum_congr rfl fun _ _ => Finset.sum_congr rfl fun _ _ => Finset.sum_congr rfl fun _ _ =>
    Finset.sum_congr rfl fun _ _ => Finset.sum_congr rfl fun _ _ => Finset.sum_congr rfl fun _ _ =>
    Finset.sum_congr rfl fun _ _ => Finset.sum_congr rfl fun _ _ => ?_
  ring

/-- the same with the site absorbed into the left block -/
theorem pair3_updateLeft (cj : K → K) (d : SiteDims) (L R : ℕ → ℕ → ℕ → K) (W : ℕ → ℕ → ℕ → ℕ → K)
    (ket bra : ℕ → ℕ → ℕ → K) :
    pair3 d.b d.r d.bb (updateLeft cj d L W ket bra) R =
      braket3 cj d.o d.aa d.bb bra (projectSite d L R W ket) := by
  rw [update_adjoint, pair3_updateRight]

/-- value of the network `⟨ψ|H|ψ⟩` cut at the left end of a non-empty chain: the boundary block `L0` paired with the
    whole chain absorbed from the right into `R0` (`0` for the empty chain, which has no bond to cut) -/
def cutLeft (cj : K → K) (L0 R0 : ℕ → ℕ → ℕ → K) : List (Site K) → K
  | [] => 0
  | s0 :: rest => pair3 s0.d.a s0.d.l s0.d.aa L0 (rightEnvChain cj R0 (s0 :: rest))

/-- `⟨ψ|H|ψ⟩` of an open chain: identity boundary blocks on both ends -/
def totalE (cj : K → K) (chain : List (Site K)) : K := cutLeft cj idEnv idEnv chain

/-- cutting the same network to the right of site `s` -/
theorem cutLeft_eq_cut_right (cj : K → K) (ls : List (Site K)) (s : Site K) (rs : List (Site K))
    (hd : ChainDims (ls ++ s :: rs)) (L0 R0 : ℕ → ℕ → ℕ → K) :
    cutLeft cj L0 R0 (ls ++ s :: rs) =
      pair3 s.d.b s.d.r s.d.bb (leftEnvChain cj L0 (ls ++ [s])) (rightEnvChain cj R0 rs) := by
  induction ls generalizing L0 with
  | nil =>
    simp only [List.nil_append, cutLeft, rightEnvChain, leftEnvChain]
    exact (update_adjoint cj s.d L0 (rightEnvChain cj R0 rs) s.W s.ket s.ket).symm
  | cons l0 ls ih =>
    have e := update_adjoint cj l0.d L0 (rightEnvChain cj R0 (ls ++ s :: rs)) l0.W l0.ket l0.ket
    simp only [List.cons_append, cutLeft, rightEnvChain, leftEnvChain]
    rw [← e]
    cases ls with
    | nil =>
      obtain ⟨h1, h2, h3, hd'⟩ := hd
      have := ih hd' (updateLeft cj l0.d L0 l0.W l0.ket l0.ket)
      simp only [List.nil_append, cutLeft] at this
      rw [h1, h2, h3]
      exact this
    | cons l1 ls' =>
      obtain ⟨h1, h2, h3, hd'⟩ := hd
      have := ih hd' (updateLeft cj l0.d L0 l0.W l0.ket l0.ket)
      simp only [List.cons_append, cutLeft] at this
      rw [h1, h2, h3]
      exact this

/-- **energy is local (site)**: the whole-chain value equals `⟨A_s | project_site(L, R, W_s, A_s)⟩` -/
theorem cutLeft_eq_local_site (cj : K → K) (ls : List (Site K)) (s : Site K) (rs : List (Site K))
    (hd : ChainDims (ls ++ s :: rs)) (L0 R0 : ℕ → ℕ → ℕ → K) :
    cutLeft cj L0 R0 (ls ++ s :: rs) =
      braket3 cj s.d.o s.d.aa s.d.bb s.ket
        (projectSite s.d (leftEnvChain cj L0 ls) (rightEnvChain cj R0 rs) s.W s.ket) := by
  rw [cutLeft_eq_cut_right cj ls s rs hd, leftEnvChain_append]
  exact pair3_updateLeft cj s.d _ _ s.W s.ket s.ket

/-- `⟨bra | Y⟩` of two 3-leg tensors is the dot product of their row-major flattenings -/
theorem braket3_flat (cj : K → K) (d0 d1 d2 : ℕ) (bra Y : ℕ → ℕ → ℕ → K) :
    braket3 cj d0 d1 d2 bra Y =
      ∑ row ∈ range (d0 * d1 * d2), cj (flattenT3 d1 d2 bra row) * flattenT3 d1 d2 Y row := by
  unfold braket3
  rw [sum_range_flat3]
  refine Finset.sum_congr rfl fun o _ => Finset.sum_congr rfl fun A hA => Finset.sum_congr rfl fun B hB => ?_
  unfold flattenT3
  rw [unflat3_flat3 _ _ _ _ _ (Finset.mem_range.mp hA) (Finset.mem_range.mp hB)]

theorem braket2_flat (cj : K → K) (d0 d1 : ℕ) (bra Y : ℕ → ℕ → K) :
    braket2 cj d0 d1 bra Y = ∑ row ∈ range (d0 * d1), cj (flattenT2 d1 bra row) * flattenT2 d1 Y row := by
  unfold braket2
  rw [sum_range_flat2]
  refine Finset.sum_congr rfl fun p _ => Finset.sum_congr rfl fun w hw => ?_
  unfold flattenT2
  rw [unflat2_flat2 _ _ _ (Finset.mem_range.mp hw)]

/-- the local form is the quadratic form of the dense effective Hamiltonian on the flattened site tensor -/
theorem local_site_eq_dense (cj : K → K) (d : SiteDims) (L R : ℕ → ℕ → ℕ → K) (W : ℕ → ℕ → ℕ → ℕ → K)
    (ket bra : ℕ → ℕ → ℕ → K) :
    braket3 cj d.o d.aa d.bb bra (projectSite d L R W ket) =
      ∑ row ∈ range (d.o * d.aa * d.bb), cj (flattenT3 d.aa d.bb bra row) *
        matVec (d.p * d.a * d.b) (denseHeffSite d L R W) (flattenT3 d.a d.b ket) row := by
  rw [braket3_flat]
  refine Finset.sum_congr rfl fun row hrow => ?_
  obtain ⟨_, h2, h3⟩ := unflat3_lt d.o d.aa d.bb row (Finset.mem_range.mp hrow)
  have h := dense_matVec_site d L R W ket (unflat3 d.aa d.bb row).1 _ _ h2 h3
  rw [flat3_unflat3] at h
  rw [h]
  rfl

theorem local_bond_eq_dense (cj : K → K) (e : BondDims) (L R : ℕ → ℕ → ℕ → K) (C bra : ℕ → ℕ → K) :
    braket2 cj e.pp e.w bra (projectBond e L R C) =
      ∑ row ∈ range (e.pp * e.w), cj (flattenT2 e.w bra row) *
        matVec (e.u * e.v) (denseHeffBond e L R) (flattenT2 e.v C) row := by
  rw [braket2_flat]
  refine Finset.sum_congr rfl fun row hrow => ?_
  obtain ⟨_, h2⟩ := unflat2_lt e.pp e.w row (Finset.mem_range.mp hrow)
  have h := dense_matVec_bond e L R C (unflat2 e.w row).1 _ h2
  rw [flat2_unflat2] at h
  rw [h]
  rfl

end local_

/-! ### the bond matrix after a QR split -/

section bond
variable {K : Type*} [CommSemiring K] [StarRing K]

/-- `Q · C`: the site tensor `A[p,a,b] = Σ_u Q[p,a,u] · C[u,b]` (`np.linalg.qr` of `A.reshape(p·a, b)`, left-to-right) -/
def mulC (k : ℕ) (Q : ℕ → ℕ → ℕ → K) (C : ℕ → ℕ → K) : ℕ → ℕ → ℕ → K :=
  fun p a b => ∑ u ∈ range k, Q p a u * C u b

/-- `C · Q`: the site tensor `A[p,a,b] = Σ_u C[a,u] · Q[p,u,b]` (QR of the transposed tensor, right-to-left) -/
def Cmul (k : ℕ) (C : ℕ → ℕ → K) (Q : ℕ → ℕ → ℕ → K) : ℕ → ℕ → ℕ → K :=
  fun p a b => ∑ u ∈ range k, C a u * Q p u b

/-- the left block after absorbing `Q·C` is the left block after absorbing `Q`, contracted with `C` (ket) and `C*` (bra) -/
theorem updateLeft_mulC (d : SiteDims) (k : ℕ) (L : ℕ → ℕ → ℕ → K) (W : ℕ → ℕ → ℕ → ℕ → K)
    (Q : ℕ → ℕ → ℕ → K) (C : ℕ → ℕ → K) (b r B : ℕ) :
    updateLeft star d L W (mulC k Q C) (mulC k Q C) b r B =
      ∑ u ∈ range k, ∑ v ∈ range k, C u b * star (C v B) * updateLeft star d L W Q Q u r v := by
  simp only [updateLeft_expand, mulC, star_sum, star_mul', Finset.mul_sum, Finset.sum_mul]
  -- left: (p a o A' u v)   right: (u v p a o A')
  rw [sw3, sw2, sw1, sw0, sw4, sw3, sw2, sw1, sw0]
  refine Finset.sum_congr rfl fun _ _ => Finset.sum_congr rfl fun _ _ => Finset.sum_congr rfl fun _ _ =>
    Finset.sum_congr rfl fun _ _ => Finset.sum_congr rfl fun _ _ => Finset.sum_congr rfl fun _ _ => ?_
  ring

/-- **energy is local (bond, left-to-right)**: with the site tensor split as `Q·C`, the value of the network cut to the
    right of the site is `⟨C | project_bond(L', R, C)⟩`, `L'` the left block that absorbed `Q` -/
theorem pair3_updateLeft_mulC (d : SiteDims) (k : ℕ) (L R : ℕ → ℕ → ℕ → K) (W : ℕ → ℕ → ℕ → ℕ → K)
    (Q : ℕ → ℕ → ℕ → K) (C : ℕ → ℕ → K) :
    pair3 d.b d.r d.bb (updateLeft star d L W (mulC k Q C) (mulC k Q C)) R =
      braket2 star k d.bb C (projectBond ⟨k, d.b, d.r, k, d.bb⟩ (updateLeft star d L W Q Q) R C) := by
  unfold pair3 braket2 projectBond
  simp only [updateLeft_mulC, sumTo_eq_sum, Finset.mul_sum, Finset.sum_mul]
  -- left: (b r B u v)   right: (v B u r b)   [names: p:=v, w:=B, u, a:=r, v:=b]
  rw [sum5_rot, sw2, sw1, sw3, sw2, sw3]
  refine Finset.sum_congr rfl fun _ _ => Finset.sum_congr rfl fun _ _ => Finset.sum_congr rfl fun _ _ =>
    Finset.sum_congr rfl fun _ _ => Finset.sum_congr rfl fun _ _ => ?_
  ring

/-- the right block after absorbing `C·Q` is the right block after absorbing `Q`, contracted with `C` (ket) and `C*` (bra) -/
theorem updateRight_Cmul (d : SiteDims) (k : ℕ) (R : ℕ → ℕ → ℕ → K) (W : ℕ → ℕ → ℕ → ℕ → K)
    (Q : ℕ → ℕ → ℕ → K) (C : ℕ → ℕ → K) (a l A' : ℕ) :
    updateRight star d R W (Cmul k C Q) (Cmul k C Q) a l A' =
      ∑ u ∈ range k, ∑ v ∈ range k, C a u * star (C A' v) * updateRight star d R W Q Q u l v := by
  simp only [updateRight_expand, Cmul, star_sum, star_mul', Finset.mul_sum, Finset.sum_mul]
  -- left: (o B p b v u)   right: (u v o B p b)
  rw [sw3, sw2, sw1, sw0, sw4, sw3, sw2, sw1, sw0]
  refine Finset.sum_congr rfl fun _ _ => Finset.sum_congr rfl fun _ _ => Finset.sum_congr rfl fun _ _ =>
    Finset.sum_congr rfl fun _ _ => Finset.sum_congr rfl fun _ _ => Finset.sum_congr rfl fun _ _ => ?_
  ring

/-- **energy is local (bond, right-to-left)**: with the site tensor split as `C·Q`, the value of the network cut to the
    left of the site is `⟨C | project_bond(L, R', C)⟩`, `R'` the right block that absorbed `Q` -/
theorem pair3_updateRight_Cmul (d : SiteDims) (k : ℕ) (L R : ℕ → ℕ → ℕ → K) (W : ℕ → ℕ → ℕ → ℕ → K)
    (Q : ℕ → ℕ → ℕ → K) (C : ℕ → ℕ → K) :
    pair3 d.a d.l d.aa L (updateRight star d R W (Cmul k C Q) (Cmul k C Q)) =
      braket2 star d.aa k C (projectBond ⟨d.a, k, d.l, d.aa, k⟩ L (updateRight star d R W Q Q) C) := by
  unfold pair3 braket2 projectBond
  simp only [updateRight_Cmul, sumTo_eq_sum, Finset.mul_sum]
  -- left: (a l A' u v)   right: (A' v a l u)
  rw [sw1, sw0, sw3, sw2, sw1]
  refine Finset.sum_congr rfl fun _ _ => Finset.sum_congr rfl fun _ _ => Finset.sum_congr rfl fun _ _ =>
    Finset.sum_congr rfl fun _ _ => Finset.sum_congr rfl fun _ _ => ?_
  ring

end bond

section chainbond
variable {K : Type*} [CommSemiring K]

/-- cutting the same network to the left of site `s` -/
theorem cutLeft_eq_cut_left (cj : K → K) (ls : List (Site K)) (s : Site K) (rs : List (Site K))
    (hd : ChainDims (ls ++ s :: rs)) (L0 R0 : ℕ → ℕ → ℕ → K) :
    cutLeft cj L0 R0 (ls ++ s :: rs) =
      pair3 s.d.a s.d.l s.d.aa (leftEnvChain cj L0 ls) (rightEnvChain cj R0 (s :: rs)) := by
  induction ls generalizing L0 with
  | nil => rfl
  | cons l0 ls ih =>
    have e := update_adjoint cj l0.d L0 (rightEnvChain cj R0 (ls ++ s :: rs)) l0.W l0.ket l0.ket
    simp only [List.cons_append, cutLeft, rightEnvChain, leftEnvChain]
    rw [← e]
    cases ls with
    | nil =>
      obtain ⟨h1, h2, h3, hd'⟩ := hd
      have := ih hd' (updateLeft cj l0.d L0 l0.W l0.ket l0.ket)
      simp only [List.nil_append, cutLeft] at this
      rw [h1, h2, h3]
      exact this
    | cons l1 ls' =>
      obtain ⟨h1, h2, h3, hd'⟩ := hd
      have := ih hd' (updateLeft cj l0.d L0 l0.W l0.ket l0.ket)
      simp only [List.cons_append, cutLeft] at this
      rw [h1, h2, h3]
      exact this

variable [StarRing K]

/-- **energy is local (bond, left-to-right sweep)** for a chain: site `s` holds `Q·C`; `L'` is built over `ls` and the
    site carrying `Q` alone -/
theorem cutLeft_eq_local_bond_lr (ls : List (Site K)) (s : Site K) (rs : List (Site K))
    (hd : ChainDims (ls ++ s :: rs)) (L0 R0 : ℕ → ℕ → ℕ → K) (k : ℕ) (Q : ℕ → ℕ → ℕ → K) (C : ℕ → ℕ → K)
    (hs : s.ket = mulC k Q C) :
    cutLeft star L0 R0 (ls ++ s :: rs) =
      braket2 star k s.d.bb C (projectBond ⟨k, s.d.b, s.d.r, k, s.d.bb⟩
        (leftEnvChain star L0 (ls ++ [⟨s.d, Q, s.W⟩])) (rightEnvChain star R0 rs) C) := by
  rw [cutLeft_eq_cut_right star ls s rs hd, leftEnvChain_append, leftEnvChain_append]
  simp only [leftEnvChain]
  rw [hs]
  exact pair3_updateLeft_mulC s.d k _ _ s.W Q C

/-- **energy is local (bond, right-to-left sweep)** for a chain: site `s` holds `C·Q`; `R'` is built over the site carrying
    `Q` alone and `rs` -/
theorem cutLeft_eq_local_bond_rl (ls : List (Site K)) (s : Site K) (rs : List (Site K))
    (hd : ChainDims (ls ++ s :: rs)) (L0 R0 : ℕ → ℕ → ℕ → K) (k : ℕ) (Q : ℕ → ℕ → ℕ → K) (C : ℕ → ℕ → K)
    (hs : s.ket = Cmul k C Q) :
    cutLeft star L0 R0 (ls ++ s :: rs) =
      braket2 star s.d.aa k C (projectBond ⟨s.d.a, k, s.d.l, s.d.aa, k⟩
        (leftEnvChain star L0 ls) (rightEnvChain star R0 (⟨s.d, Q, s.W⟩ :: rs)) C) := by
  rw [cutLeft_eq_cut_left star ls s rs hd]
  simp only [rightEnvChain]
  rw [hs]
  exact pair3_updateRight_Cmul s.d k _ _ s.W Q C

end chainbond

end Yaqs.Heff
