import YaqsModel.Lemmas.ConserveFlow
import Mathlib.LinearAlgebra.Matrix.Reindex
import Mathlib.Data.Matrix.Block
import Mathlib.Topology.Instances.Matrix

/-!
The window sweep of `apply_two_qubit_gate` at the level of MPS tensors over ℂ (used by `Props/C02.lean`).

A site tensor with left bond `α` and right bond `β` is a family `X : σ → Matrix α β ℂ` (one matrix per physical index); the
amplitude of a configuration is the product of the matrices.  Bond types may differ from site to site (rectangular
matrices), and the bonds created by the splits are new types.

* `actR E X` — an operator `E` on the legs `(phys, right bond)` applied to `X`, the left bond a spectator.  This is what
  `update_site` does when the effective Hamiltonian is `1 ⊗ K` (`Lemmas/GateExact.lean`, `site_heff_idleft`,
  `pair_heff_idleft`): `E = exp(-(t·i)•K)` (`site_step_idleft` below, through `flow_spectator`).
* `actL F X` — an operator on `(phys, left bond)`, the right bond a spectator (`site_heff_idright`, `pair_heff_idright`).
* `cancel_left` / `cancel_right` — the two cancellations of the sweep; `sweep_*` — the window shapes.
-/
set_option linter.unusedSectionVars false

namespace Yaqs.GateSweep

open Matrix Yaqs.Conserve

/-! ### `exp` commutes with the spectator embedding -/

section lift
variable {μ ν α : Type*} [Fintype μ] [DecidableEq μ] [Fintype ν] [DecidableEq ν] [Fintype α] [DecidableEq α]

/-- `1 ⊗ K` in an index set `μ ≃ ν × α`: `K` on the `ν` part, the `α` part a spectator -/
def liftSpec (e : μ ≃ ν × α) (K : Matrix ν ν ℂ) : Matrix μ μ ℂ :=
  Matrix.of fun i j => if (e i).2 = (e j).2 then K (e i).1 (e j).1 else 0

theorem liftSpec_eq (e : μ ≃ ν × α) (K : Matrix ν ν ℂ) :
    liftSpec e K = Matrix.reindex e.symm e.symm (blockDiagonal fun _ : α => K) := by
  ext i j
  simp [liftSpec, blockDiagonal_apply]

/-- `K ↦ 1 ⊗ K` as a ring homomorphism (block diagonal with equal blocks, re-indexed) -/
noncomputable def liftHom (e : μ ≃ ν × α) : Matrix ν ν ℂ →+* Matrix μ μ ℂ :=
  (Matrix.reindexAlgEquiv ℂ ℂ e.symm).toRingHom.comp
    ((Matrix.blockDiagonalRingHom ν α ℂ).comp (Pi.constRingHom α (Matrix ν ν ℂ)))

theorem liftHom_apply (e : μ ≃ ν × α) (K : Matrix ν ν ℂ) : liftHom e K = liftSpec e K := by
  rw [liftSpec_eq]
  rfl

set_option backward.isDefEq.respectTransparency false in
theorem exp_liftSpec (e : μ ≃ ν × α) (K : Matrix ν ν ℂ) :
    NormedSpace.exp (liftSpec e K) = liftSpec e (NormedSpace.exp K) := by
  have hcont : Continuous (liftHom e : Matrix ν ν ℂ → Matrix μ μ ℂ) := by
    show Continuous fun A : Matrix ν ν ℂ => Matrix.reindex e.symm e.symm (blockDiagonal fun _ : α => A)
    fun_prop
  have key := open scoped Matrix.Norms.Operator in NormedSpace.map_exp (liftHom e) hcont K
  rw [liftHom_apply, liftHom_apply] at key
  exact key.symm

theorem smul_liftSpec (c : ℂ) (e : μ ≃ ν × α) (K : Matrix ν ν ℂ) : c • liftSpec e K = liftSpec e (c • K) := by
  ext i j
  simp only [liftSpec, Matrix.smul_apply, Matrix.of_apply, smul_eq_mul]
  split_ifs <;> simp

/-- **the flow of `1 ⊗ K` is `1 ⊗ (flow of K)`** -/
theorem flow_liftSpec (e : μ ≃ ν × α) (K : Matrix ν ν ℂ) (t : ℝ) :
    flow (liftSpec e K) t = liftSpec e (flow K t) := by
  unfold flow
  rw [smul_liftSpec, exp_liftSpec]

end lift

/-! ### operators acting on part of the legs of a site tensor -/

section act
variable {σ α β γ : Type*} [Fintype σ] [Fintype α] [Fintype β] [Fintype γ]

/-- the legs `(phys, right bond)` of `X` as a vector, for a fixed left bond index -/
def vecR (X : σ → Matrix α β ℂ) (a : α) : σ × β → ℂ := fun x => X x.1 a x.2

/-- the legs `(phys, left bond)` of `X` as a vector, for a fixed right bond index -/
def vecL (X : σ → Matrix α β ℂ) (b : β) : σ × α → ℂ := fun x => X x.1 x.2 b

/-- `E` (rows = out, columns = in) on the legs `(phys, right bond)`; the left bond is a spectator -/
def actR (E : Matrix (σ × β) (σ × β) ℂ) (X : σ → Matrix α β ℂ) : σ → Matrix α β ℂ :=
  fun t => Matrix.of fun a b => (E *ᵥ vecR X a) (t, b)

/-- `F` on the legs `(phys, left bond)`; the right bond is a spectator -/
def actL (F : Matrix (σ × α) (σ × α) ℂ) (X : σ → Matrix α β ℂ) : σ → Matrix α β ℂ :=
  fun s => Matrix.of fun a b => (F *ᵥ vecL X b) (s, a)

theorem vecR_actR (E : Matrix (σ × β) (σ × β) ℂ) (X : σ → Matrix α β ℂ) (a : α) :
    vecR (actR E X) a = E *ᵥ vecR X a := rfl

theorem vecL_actL (F : Matrix (σ × α) (σ × α) ℂ) (X : σ → Matrix α β ℂ) (b : β) :
    vecL (actL F X) b = F *ᵥ vecL X b := rfl

theorem actR_actR (E F : Matrix (σ × β) (σ × β) ℂ) (X : σ → Matrix α β ℂ) : actR E (actR F X) = actR (E * F) X := by
  funext t
  ext a b
  simp only [actR, Matrix.of_apply]
  rw [← Matrix.mulVec_mulVec]
  rfl

theorem actL_actL (E F : Matrix (σ × α) (σ × α) ℂ) (X : σ → Matrix α β ℂ) : actL E (actL F X) = actL (E * F) X := by
  funext t
  ext a b
  simp only [actL, Matrix.of_apply]
  rw [← Matrix.mulVec_mulVec]
  rfl

theorem actR_one [DecidableEq σ] [DecidableEq β] (X : σ → Matrix α β ℂ) : actR (1 : Matrix (σ × β) (σ × β) ℂ) X = X := by
  funext t
  ext a b
  simp only [actR, Matrix.of_apply, Matrix.one_mulVec]
  rfl

theorem actL_one [DecidableEq σ] [DecidableEq α] (X : σ → Matrix α β ℂ) : actL (1 : Matrix (σ × α) (σ × α) ℂ) X = X := by
  funext t
  ext a b
  simp only [actL, Matrix.of_apply, Matrix.one_mulVec]
  rfl

/-- multiplying every matrix of the family by a fixed matrix on the left (the isometry of a split) commutes with an
    operator that does not touch the left bond -/
theorem mul_actR (U : Matrix γ α ℂ) (E : Matrix (σ × β) (σ × β) ℂ) (X : σ → Matrix α β ℂ) :
    (fun t => U * actR E X t) = actR E (fun t => U * X t) := by
  funext t
  ext g b
  simp only [actR, Matrix.mul_apply, Matrix.of_apply, Matrix.mulVec, dotProduct, vecR, Finset.mul_sum]
  rw [Finset.sum_comm]
  exact Finset.sum_congr rfl fun x _ => Finset.sum_congr rfl fun a _ => by ring

/-- the mirror image: multiplying on the right by a fixed matrix commutes with an operator that does not touch the right
    bond -/
theorem actL_mul (V : Matrix β γ ℂ) (F : Matrix (σ × α) (σ × α) ℂ) (X : σ → Matrix α β ℂ) :
    (fun s => actL F X s * V) = actL F (fun s => X s * V) := by
  funext s
  ext a g
  simp only [actL, Matrix.mul_apply, Matrix.of_apply, Matrix.mulVec, dotProduct, vecL, Finset.mul_sum, Finset.sum_mul]
  rw [Finset.sum_comm]
  exact Finset.sum_congr rfl fun x _ => Finset.sum_congr rfl fun b _ => by ring

end act

/-! ### from the dense effective Hamiltonian to `actR` / `actL` -/

section step
variable {σ α β : Type*} [Fintype σ] [DecidableEq σ] [Fintype α] [DecidableEq α] [Fintype β] [DecidableEq β]

/-- `(phys, left, right) ≃ ((phys, right), left)` -/
def splitLeft : σ × α × β ≃ (σ × β) × α where
  toFun x := ((x.1, x.2.2), x.2.1)
  invFun y := (y.1.1, y.2, y.1.2)
  left_inv _ := rfl
  right_inv _ := rfl

/-- `(phys, left, right) ≃ ((phys, left), right)` -/
def splitRight : σ × α × β ≃ (σ × α) × β where
  toFun x := ((x.1, x.2.1), x.2.2)
  invFun y := (y.1.1, y.1.2, y.2)
  left_inv _ := rfl
  right_inv _ := rfl

/-- **site / pair step with the identity block on the left.**  `H` is the dense effective Hamiltonian on the flattened
    legs `(phys, left, right)` — the order of `reshape(-1)` — and has the form `δ_{a a'}·K[(s,b),(s',b')]`
    (`dense_heff_idleft`); `X'` is what `update_site(…, X, t)` returns when the Krylov exponential is exact.  Then
    `X' = actR (exp(-(t·i)•K)) X`. -/
theorem site_step_idleft (H : Matrix (σ × α × β) (σ × α × β) ℂ) (K : Matrix (σ × β) (σ × β) ℂ)
    (hH : ∀ s a b s' a' b', H (s, a, b) (s', a', b') = if a = a' then K (s, b) (s', b') else 0) (t : ℝ)
    (X X' : σ → Matrix α β ℂ)
    (hstep : ∀ s a b, X' s a b = (flow H t *ᵥ fun x : σ × α × β => X x.1 x.2.1 x.2.2) (s, a, b)) :
    X' = actR (flow K t) X := by
  have hl : H = liftSpec splitLeft K := by
    ext ⟨s, a, b⟩ ⟨s', a', b'⟩
    rw [hH]
    rfl
  funext s
  ext a b
  rw [hstep, hl, flow_liftSpec]
  simp only [actR, Matrix.of_apply, Matrix.mulVec, dotProduct, liftSpec, vecR]
  rw [Fintype.sum_prod_type, Fintype.sum_prod_type]
  refine Finset.sum_congr rfl fun s' _ => ?_
  rw [Fintype.sum_prod_type, Finset.sum_comm]
  refine Finset.sum_congr rfl fun b' _ => ?_
  show ∑ x, (if a = x then flow K t (s, b) (s', b') else 0) * X s' x b' = flow K t (s, b) (s', b') * X s' a b'
  rw [Finset.sum_eq_single a (fun x _ hx => by simp [Ne.symm hx]) (fun h => absurd (Finset.mem_univ a) h)]
  simp

/-- **site / pair step with the identity block on the right**: `H = K'[(s,a),(s',a')]·δ_{b b'}` (`dense_heff_idright`) ⇒
    `X' = actL (exp(-(t·i)•K')) X` -/
theorem site_step_idright (H : Matrix (σ × α × β) (σ × α × β) ℂ) (K : Matrix (σ × α) (σ × α) ℂ)
    (hH : ∀ s a b s' a' b', H (s, a, b) (s', a', b') = if b = b' then K (s, a) (s', a') else 0) (t : ℝ)
    (X X' : σ → Matrix α β ℂ)
    (hstep : ∀ s a b, X' s a b = (flow H t *ᵥ fun x : σ × α × β => X x.1 x.2.1 x.2.2) (s, a, b)) :
    X' = actL (flow K t) X := by
  have hl : H = liftSpec splitRight K := by
    ext ⟨s, a, b⟩ ⟨s', a', b'⟩
    rw [hH]
    rfl
  funext s
  ext a b
  rw [hstep, hl, flow_liftSpec]
  simp only [actL, Matrix.of_apply, Matrix.mulVec, dotProduct, liftSpec, vecL]
  rw [Fintype.sum_prod_type, Fintype.sum_prod_type]
  refine Finset.sum_congr rfl fun s' _ => ?_
  rw [Fintype.sum_prod_type]
  refine Finset.sum_congr rfl fun a' _ => ?_
  show ∑ y, (if b = y then flow K t (s, a) (s', a') else 0) * X s' a' y = flow K t (s, a) (s', a') * X s' a' b
  rw [Finset.sum_eq_single b (fun x _ hx => by simp [Ne.symm hx]) (fun h => absurd (Finset.mem_univ b) h)]
  simp

/-- `((s, u), a, b) ≃ (pair index, (a, b))` for a numbering `pr` of the pairs of physical indices -/
def splitBoth {π : Type*} (pr : σ × σ ≃ π) : (σ × σ) × α × β ≃ π × (α × β) where
  toFun x := (pr x.1, (x.2.1, x.2.2))
  invFun y := (pr.symm y.1, y.2.1, y.2.2)
  left_inv x := by simp
  right_inv y := by simp

/-- **the gate's own pair step**: `H = Gen[(s,u),(s',u')]·δ_{a a'}·δ_{b b'}` on the flattened legs `((s,u), left, right)` of the
    merged tensor (`pair_heff_gate`) ⇒ the new merged tensor is `exp(-(t·i)•Gen)` applied to the two physical legs -/
theorem pair_step_gate {π : Type*} [Fintype π] [DecidableEq π] (pr : σ × σ ≃ π)
    (H : Matrix ((σ × σ) × α × β) ((σ × σ) × α × β) ℂ) (Gen : Matrix π π ℂ)
    (hH : ∀ st a b st' a' b', H (st, a, b) (st', a', b') = if a = a' ∧ b = b' then Gen (pr st) (pr st') else 0)
    (t : ℝ) (θ θ' : σ → σ → Matrix α β ℂ)
    (hstep : ∀ s u a b, θ' s u a b =
      (flow H t *ᵥ fun x : (σ × σ) × α × β => θ x.1.1 x.1.2 x.2.1 x.2.2) ((s, u), a, b)) :
    ∀ s u, θ' s u = ∑ s', ∑ u', flow Gen t (pr (s, u)) (pr (s', u')) • θ s' u' := by
  have hl : H = liftSpec (splitBoth pr) Gen := by
    ext ⟨st, a, b⟩ ⟨st', a', b'⟩
    rw [hH]
    show _ = if (a, b) = (a', b') then Gen (pr st) (pr st') else 0
    by_cases h : a = a' ∧ b = b'
    · rw [if_pos h, if_pos (by rw [h.1, h.2])]
    · rw [if_neg h, if_neg (fun e => h ⟨congrArg Prod.fst e, congrArg Prod.snd e⟩)]
  intro s u
  ext a b
  rw [hstep, hl, flow_liftSpec]
  simp only [Matrix.mulVec, dotProduct, Matrix.sum_apply, Matrix.smul_apply, smul_eq_mul]
  rw [Fintype.sum_prod_type, Fintype.sum_prod_type]
  refine Finset.sum_congr rfl fun s' _ => Finset.sum_congr rfl fun u' _ => ?_
  rw [Fintype.sum_prod_type]
  show ∑ a', ∑ b', (if (a, b) = (a', b') then flow Gen t (pr (s, u)) (pr (s', u')) else 0) * θ s' u' a' b' =
    flow Gen t (pr (s, u)) (pr (s', u')) * θ s' u' a b
  rw [Finset.sum_eq_single a, Finset.sum_eq_single b]
  · simp
  · intro b' _ hb
    have : (a, b) ≠ (a, b') := fun e => hb (congrArg Prod.snd e).symm
    simp [this]
  · intro h; exact absurd (Finset.mem_univ b) h
  · intro a' _ ha
    refine Finset.sum_eq_zero fun b' _ => ?_
    have : (a, b) ≠ (a', b') := fun e => ha (congrArg Prod.fst e).symm
    simp [this]
  · intro h; exact absurd (Finset.mem_univ a) h

end step

/-! ### the two cancellations and the window shapes -/

section sweep
variable {σ : Type*} [Fintype σ] [DecidableEq σ]

theorem flow_neg_mul {n : Type*} [Fintype n] [DecidableEq n] (K : Matrix n n ℂ) (t : ℝ) :
    flow K (-t) * flow K t = 1 := by
  rw [← flow_add, neg_add_cancel, flow_zero]

theorem flow_mul_neg {n : Type*} [Fintype n] [DecidableEq n] (K : Matrix n n ℂ) (t : ℝ) :
    flow K t * flow K (-t) = 1 := by
  rw [← flow_add, add_neg_cancel, flow_zero]

/-- **cancellation to the left of the gate**: forward step `exp(-(t·i)•(1⊗K))` on the merged pair `A·B`, exact split into
    `U·M`, backward step `exp(+(t·i)•(1⊗K))` on `M`: the product `U·M'` is the product `A·B` before the three steps. -/
theorem cancel_left {a m k c : Type*} [Fintype a] [Fintype m] [Fintype k] [Fintype c] [DecidableEq c]
    (A : σ → Matrix a m ℂ) (B : σ → Matrix m c ℂ) (K : Matrix (σ × c) (σ × c) ℂ) (t : ℝ)
    (U : σ → Matrix a k ℂ) (M M' : σ → Matrix k c ℂ)
    (hpair : ∀ s, (fun t' => U s * M t') = actR (flow K t) (fun t' => A s * B t'))
    (hsite : M' = actR (flow K (-t)) M) :
    ∀ s t', U s * M' t' = A s * B t' := by
  intro s t'
  have h : U s * actR (flow K (-t)) M t' = actR (flow K (-t)) (fun t'' => U s * M t'') t' :=
    congrFun (mul_actR (U s) (flow K (-t)) M) t'
  rw [hsite, h, hpair s, actR_actR, flow_neg_mul, actR_one]

/-- **cancellation to the right of the gate**: backward step `exp(+(t·i)•(K⊗1))` on the site tensor `M`, merge with the next
    tensor `B`, forward step `exp(-(t·i)•(K⊗1))` on the merged pair, exact split into `U·N`: the product `U·N` is the product
    `M·B` before the three steps. -/
theorem cancel_right {k m c j : Type*} [Fintype k] [DecidableEq k] [Fintype m] [Fintype c] [Fintype j]
    (M M' : σ → Matrix k m ℂ) (B : σ → Matrix m c ℂ) (K : Matrix (σ × k) (σ × k) ℂ) (t : ℝ)
    (U : σ → Matrix k j ℂ) (N : σ → Matrix j c ℂ)
    (hsite : M' = actL (flow K (-t)) M)
    (hpair : ∀ t', (fun s => U s * N t') = actL (flow K t) (fun s => M' s * B t')) :
    ∀ s t', U s * N t' = M s * B t' := by
  intro s t'
  have h : U s * N t' = actL (flow K t) (fun s' => M' s' * B t') s := congrFun (hpair t') s
  rw [h, hsite, actL_mul (B t') (flow K (-t)) M, actL_actL, flow_mul_neg, actL_one]

/-- window of two sites: the only pair is the gate's -/
theorem sweep_2 {a m1 b k1 : Type*} [Fintype a] [Fintype m1] [Fintype b] [Fintype k1]
    (G : σ → σ → σ → σ → ℂ) (A0 : σ → Matrix a m1 ℂ) (A1 : σ → Matrix m1 b ℂ)
    (U0 : σ → Matrix a k1 ℂ) (M1 : σ → Matrix k1 b ℂ)
    (hgate : ∀ s t, U0 s * M1 t = ∑ s', ∑ t', G s t s' t' • (A0 s' * A1 t')) :
    ∀ s0 s1, U0 s0 * M1 s1 = ∑ s', ∑ t', G s0 s1 s' t' • (A0 s' * A1 t') := hgate

/-- window of three sites, gate on window sites (0,1): gate pair, then the cancelling group on the right -/
theorem sweep_3_left {a m1 m2 b k1 k2 : Type*} [Fintype a] [Fintype m1] [Fintype m2] [Fintype b]
    [Fintype k1] [DecidableEq k1] [Fintype k2]
    (G : σ → σ → σ → σ → ℂ) (A0 : σ → Matrix a m1 ℂ) (A1 : σ → Matrix m1 m2 ℂ) (A2 : σ → Matrix m2 b ℂ)
    (K : Matrix (σ × k1) (σ × k1) ℂ) (t : ℝ)
    (U0 : σ → Matrix a k1 ℂ) (M1 M1' : σ → Matrix k1 m2 ℂ) (U1 : σ → Matrix k1 k2 ℂ) (M2 : σ → Matrix k2 b ℂ)
    (hgate : ∀ s t, U0 s * M1 t = ∑ s', ∑ t', G s t s' t' • (A0 s' * A1 t'))
    (hsite : M1' = actL (flow K (-t)) M1)
    (hpair : ∀ t', (fun s => U1 s * M2 t') = actL (flow K t) (fun s => M1' s * A2 t')) :
    ∀ s0 s1 s2, U0 s0 * U1 s1 * M2 s2 = ∑ s', ∑ t', G s0 s1 s' t' • (A0 s' * A1 t' * A2 s2) := by
  intro s0 s1 s2
  rw [Matrix.mul_assoc, cancel_right M1 M1' A2 K t U1 M2 hsite hpair s1 s2, ← Matrix.mul_assoc, hgate,
    Matrix.sum_mul]
  refine Finset.sum_congr rfl fun s' _ => ?_
  rw [Matrix.sum_mul]
  exact Finset.sum_congr rfl fun t' _ => by rw [Matrix.smul_mul]

/-- window of three sites, gate on window sites (1,2): the cancelling group on the left, then the gate pair -/
theorem sweep_3_right {a m1 m2 b k1 k2 : Type*} [Fintype a] [Fintype m1] [Fintype m2] [DecidableEq m2] [Fintype b]
    [Fintype k1] [Fintype k2]
    (G : σ → σ → σ → σ → ℂ) (A0 : σ → Matrix a m1 ℂ) (A1 : σ → Matrix m1 m2 ℂ) (A2 : σ → Matrix m2 b ℂ)
    (K : Matrix (σ × m2) (σ × m2) ℂ) (t : ℝ)
    (U0 : σ → Matrix a k1 ℂ) (M1 M1' : σ → Matrix k1 m2 ℂ) (U1 : σ → Matrix k1 k2 ℂ) (M2 : σ → Matrix k2 b ℂ)
    (hpair : ∀ s, (fun t' => U0 s * M1 t') = actR (flow K t) (fun t' => A0 s * A1 t'))
    (hsite : M1' = actR (flow K (-t)) M1)
    (hgate : ∀ s t, U1 s * M2 t = ∑ s', ∑ t', G s t s' t' • (M1' s' * A2 t')) :
    ∀ s0 s1 s2, U0 s0 * U1 s1 * M2 s2 = ∑ s', ∑ t', G s1 s2 s' t' • (A0 s0 * A1 s' * A2 t') := by
  intro s0 s1 s2
  rw [Matrix.mul_assoc, hgate, Matrix.mul_sum]
  refine Finset.sum_congr rfl fun s' _ => ?_
  rw [Matrix.mul_sum]
  refine Finset.sum_congr rfl fun t' _ => ?_
  rw [Matrix.mul_smul, ← Matrix.mul_assoc, cancel_left A0 A1 K t U0 M1 M1' hpair hsite s0 s']

/-- window of four sites, gate on window sites (1,2): cancelling group, gate pair, cancelling group -/
theorem sweep_4 {a m1 m2 m3 b k1 k2 k3 : Type*} [Fintype a] [Fintype m1] [Fintype m2] [DecidableEq m2] [Fintype m3]
    [Fintype b] [Fintype k1] [Fintype k2] [DecidableEq k2] [Fintype k3]
    (G : σ → σ → σ → σ → ℂ)
    (A0 : σ → Matrix a m1 ℂ) (A1 : σ → Matrix m1 m2 ℂ) (A2 : σ → Matrix m2 m3 ℂ) (A3 : σ → Matrix m3 b ℂ)
    (K1 : Matrix (σ × m2) (σ × m2) ℂ) (K2 : Matrix (σ × k2) (σ × k2) ℂ) (tL tR : ℝ)
    (U0 : σ → Matrix a k1 ℂ) (M1 M1' : σ → Matrix k1 m2 ℂ) (U1 : σ → Matrix k1 k2 ℂ) (M2 M2' : σ → Matrix k2 m3 ℂ)
    (U2 : σ → Matrix k2 k3 ℂ) (M3 : σ → Matrix k3 b ℂ)
    (hpairL : ∀ s, (fun t' => U0 s * M1 t') = actR (flow K1 tL) (fun t' => A0 s * A1 t'))
    (hsiteL : M1' = actR (flow K1 (-tL)) M1)
    (hgate : ∀ s t, U1 s * M2 t = ∑ s', ∑ t', G s t s' t' • (M1' s' * A2 t'))
    (hsiteR : M2' = actL (flow K2 (-tR)) M2)
    (hpairR : ∀ t', (fun s => U2 s * M3 t') = actL (flow K2 tR) (fun s => M2' s * A3 t')) :
    ∀ s0 s1 s2 s3, U0 s0 * U1 s1 * U2 s2 * M3 s3 =
      ∑ s', ∑ t', G s1 s2 s' t' • (A0 s0 * A1 s' * A2 t' * A3 s3) := by
  intro s0 s1 s2 s3
  rw [Matrix.mul_assoc, cancel_right M2 M2' A3 K2 tR U2 M3 hsiteR hpairR s2 s3, ← Matrix.mul_assoc,
    sweep_3_right G A0 A1 A2 K1 tL U0 M1 M1' U1 M2 hpairL hsiteL hgate s0 s1 s2, Matrix.sum_mul]
  refine Finset.sum_congr rfl fun s' _ => ?_
  rw [Matrix.sum_mul]
  exact Finset.sum_congr rfl fun t' _ => by rw [Matrix.smul_mul]

/-! ### the hypotheses of the sweep theorems can be met for arbitrary data -/

/-- the trivial exact split of a pair tensor: new bond = (left physical index, left bond) -/
theorem exact_split_exists {a c : Type*} [Fintype a] [DecidableEq a] [Fintype c] (θ : σ → σ → Matrix a c ℂ) :
    ∃ (U : σ → Matrix a (σ × a) ℂ) (M : σ → Matrix (σ × a) c ℂ), ∀ s t, U s * M t = θ s t := by
  refine ⟨fun s => Matrix.of fun x y => if (s, x) = y then 1 else 0, fun t => Matrix.of fun y z => θ y.1 t y.2 z, ?_⟩
  intro s t
  ext x z
  simp only [Matrix.mul_apply, Matrix.of_apply]
  rw [Finset.sum_eq_single (s, x)]
  · simp
  · intro y _ hy
    simp [Ne.symm hy]
  · intro h; exact absurd (Finset.mem_univ _) h

/-- for any four site tensors, any generators `K1`, `K2`, any two-site operator `G` and any times there are splits and
    intermediate tensors that satisfy every hypothesis of `sweep_4` -/
theorem sweep_4_hyps_sat {a m1 m2 m3 b : Type*} [Fintype a] [Fintype m1] [DecidableEq m1] [Fintype m2] [DecidableEq m2]
    [Fintype m3] [Fintype b] (G : σ → σ → σ → σ → ℂ)
    (A0 : σ → Matrix a m1 ℂ) (A1 : σ → Matrix m1 m2 ℂ) (A2 : σ → Matrix m2 m3 ℂ) (A3 : σ → Matrix m3 b ℂ)
    (K1 : Matrix (σ × m2) (σ × m2) ℂ) (K2 : Matrix (σ × (σ × m1)) (σ × (σ × m1)) ℂ) (tL tR : ℝ) :
    ∃ (U0 : σ → Matrix a m1 ℂ) (M1 M1' : σ → Matrix m1 m2 ℂ) (U1 : σ → Matrix m1 (σ × m1) ℂ)
      (M2 M2' : σ → Matrix (σ × m1) m3 ℂ) (U2 : σ → Matrix (σ × m1) m3 ℂ) (M3 : σ → Matrix m3 b ℂ),
      (∀ s, (fun t' => U0 s * M1 t') = actR (flow K1 tL) (fun t' => A0 s * A1 t')) ∧
      M1' = actR (flow K1 (-tL)) M1 ∧
      (∀ s t, U1 s * M2 t = ∑ s', ∑ t', G s t s' t' • (M1' s' * A2 t')) ∧
      M2' = actL (flow K2 (-tR)) M2 ∧
      (∀ t', (fun s => U2 s * M3 t') = actL (flow K2 tR) (fun s => M2' s * A3 t')) := by
  obtain ⟨U1, M2, h12⟩ := exact_split_exists
    (fun s t => ∑ s', ∑ t', G s t s' t' • (actR (flow K1 (-tL)) (actR (flow K1 tL) A1) s' * A2 t'))
  refine ⟨A0, actR (flow K1 tL) A1, _, U1, M2, _, actL (flow K2 tR) (actL (flow K2 (-tR)) M2), A3,
    fun s => mul_actR (A0 s) (flow K1 tL) A1, rfl, h12, rfl, fun t' => actL_mul (A3 t') (flow K2 tR) _⟩

end sweep

end Yaqs.GateSweep
