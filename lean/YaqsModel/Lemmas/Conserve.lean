import YaqsModel.Model.Conserve
import YaqsModel.Lemmas.Sweep
import Mathlib.Algebra.Order.Field.Basic
import Mathlib.Algebra.Order.AbsoluteValue.Basic
import Mathlib.Tactic.Linarith
import Mathlib.Tactic.Ring

/-! helper lemmas for `Model/Conserve.lean`: erasure of the gauge steps gives the primitive lists of `Model/Sweep.lean`,
    the centre walks of the fixed-branch integrators, and the induction over a step list of an abstract system whose
    steps conserve norm and energy (used by `Props/C05.lean`). -/
namespace Yaqs.Sweep

theorem prims_append (xs ys : List Step) : prims (xs ++ ys) = prims xs ++ prims ys := by
  induction xs with
  | nil => rfl
  | cons x xs ih => cases x <;> simp [prims, ih]

theorem prims_ssLRFull (L : Nat) (h : Rat) : ∀ n i, prims (ssLRFull h n i) = ssLR L h n i := by
  intro n
  induction n with
  | zero => intro i; rfl
  | succ n ih => intro i; simp [ssLRFull, ssLR, prims, ih]

theorem prims_ssRLFull (h : Rat) : ∀ n, prims (ssRLFull h n) = ssRL h n := by
  intro n
  induction n with
  | zero => rfl
  | succ n ih => simp [ssRLFull, ssRL, prims, ih]

theorem prims_tsLRFull (h : Rat) : ∀ n i, prims (tsLRFull h n i) = tsLR h n i := by
  intro n
  induction n with
  | zero => intro i; rfl
  | succ n ih => intro i; simp [tsLRFull, tsLR, prims, ih]

theorem prims_tsRLFull (h : Rat) : ∀ n, prims (tsRLFull h n) = tsRL h n := by
  intro n
  induction n with
  | zero => rfl
  | succ n ih => simp [tsRLFull, tsRL, prims, ih]

theorem walkAll_append (c : Centre) (xs ys : List Step) :
    walkAll c (xs ++ ys) = (walkAll c xs).bind fun c' => walkAll c' ys := by
  induction xs generalizing c with
  | nil => rfl
  | cons x xs ih =>
    simp only [List.cons_append, walkAll]
    cases walk c x with
    | none => rfl
    | some c' => exact ih c'

theorem walk_ssLRFull (h : Rat) : ∀ n i, walkAll (.site i) (ssLRFull h n i) = some (.site (i + n)) := by
  intro n
  induction n with
  | zero => intro i; rfl
  | succ n ih =>
    intro i
    simp only [ssLRFull, walkAll, walk, if_true]
    rw [ih (i + 1)]
    congr 2
    omega

theorem walk_ssRLFull (h : Rat) : ∀ n, walkAll (.site n) (ssRLFull h n) = some (.site 0) := by
  intro n
  induction n with
  | zero => rfl
  | succ n ih =>
    simp [ssRLFull, walkAll, walk, ih]

theorem walk_tsLRFull (h : Rat) : ∀ n i, walkAll (.site i) (tsLRFull h n i) = some (.site (i + n)) := by
  intro n
  induction n with
  | zero => intro i; rfl
  | succ n ih =>
    intro i
    simp only [tsLRFull, walkAll, walk, true_or, if_true]
    rw [ih (i + 1)]
    congr 2
    omega

theorem walk_tsRLFull (h : Rat) : ∀ n, walkAll (.site n) (tsRLFull h n) = some (.site 0) := by
  intro n
  induction n with
  | zero => rfl
  | succ n ih =>
    simp only [tsRLFull, walkAll, walk, or_true, if_true, Bool.false_eq_true, if_false]
    exact ih

theorem lossless_ssLRFull (h : Rat) : ∀ n i, ∀ st ∈ ssLRFull h n i, st.lossless = true := by
  intro n
  induction n with
  | zero => intro i st hst; simp [ssLRFull] at hst
  | succ n ih =>
    intro i st hst
    simp only [ssLRFull, List.mem_cons] at hst
    rcases hst with rfl | rfl | rfl | rfl | hst
    · rfl
    · rfl
    · rfl
    · rfl
    · exact ih (i + 1) st hst

theorem lossless_ssRLFull (h : Rat) : ∀ n, ∀ st ∈ ssRLFull h n, st.lossless = true := by
  intro n
  induction n with
  | zero => intro st hst; simp [ssRLFull] at hst
  | succ n ih =>
    intro st hst
    simp only [ssRLFull, List.mem_cons] at hst
    rcases hst with rfl | rfl | rfl | rfl | hst
    · rfl
    · rfl
    · rfl
    · rfl
    · exact ih st hst

theorem lossTotal_tsLR (L : Nat) (h : Rat) : ∀ n i, lossTotal L (tsLR h n i) = n := by
  intro n
  induction n with
  | zero => intro i; rfl
  | succ n ih => intro i; simp only [tsLR, lossTotal, lossCount, ih (i + 1)]; omega

theorem lossTotal_tsRL (L : Nat) (h : Rat) : ∀ n, lossTotal L (tsRL h n) = n := by
  intro n
  induction n with
  | zero => rfl
  | succ n ih => simp only [tsRL, lossTotal, lossCount, ih]; omega

theorem prims_lrLoopFull (L : Nat) (d : Nat → Bool) (h : Rat) :
    ∀ n i lock, prims (lrLoopFull L d h n i lock) = lrLoop L d h n i lock := by
  intro n
  induction n with
  | zero => intro i lock; rfl
  | succ n ih =>
    intro i lock
    unfold lrLoopFull lrLoop
    split
    · split <;> simp [prims, prims_append, ih]
    · split
      · exact ih _ _
      · split <;> simp [prims, ih]

theorem prims_rlLoopFull (d : Nat → Bool) (h : Rat) :
    ∀ n lock, prims (rlLoopFull d h n lock) = rlLoop d h n lock := by
  intro n
  induction n with
  | zero => intro lock; rfl
  | succ n ih =>
    intro lock
    unfold rlLoopFull rlLoop
    split
    · split <;> simp [prims, prims_append, ih]
    · split
      · exact ih _
      · split <;> simp [prims, prims_append, ih]

theorem walk_lrLoopFull (L : Nat) (d : Nat → Bool) (h : Rat) :
    ∀ n i lock, i + n = L → 1 ≤ n → walkAll (.site i) (lrLoopFull L d h n i lock) = some (.site (L - 1)) := by
  intro n
  induction n with
  | zero => intro i lock _ h1; omega
  | succ n ih =>
    intro i lock hL _
    by_cases hn : n = 0
    · subst hn
      have hi : i = L - 1 := by omega
      unfold lrLoopFull
      split
      · simp [hi, lrLoopFull, walkAll, walk]
      · simp [hi, lrLoopFull, walkAll]
    · have hi : i ≠ L - 1 := by omega
      have ih' := fun lock' => ih (i + 1) lock' (by omega) (by omega)
      unfold lrLoopFull
      split
      · simp only [List.cons_append, List.nil_append, walkAll, walk, if_true]
        exact ih' _
      · split
        · simp only [walkAll, walk, true_or, if_true]
          exact ih' _
        · simp only [walkAll, walk, true_or, if_true]
          exact ih' _

theorem walk_rlLoopFull (d : Nat → Bool) (h : Rat) :
    ∀ n lock, 1 ≤ n → walkAll (.site (n - 1)) (rlLoopFull d h n lock) = some (.site 0) := by
  intro n
  induction n with
  | zero => intro lock h1; omega
  | succ n ih =>
    intro lock _
    by_cases hn : n = 0
    · subst hn
      unfold rlLoopFull
      split
      · simp [rlLoopFull, walkAll, walk]
      · simp [rlLoopFull, walkAll]
    · have ih' := fun lock' => ih lock' (by omega)
      have e1 : n + 1 - 1 = n := by omega
      have hc : (Centre.site n = Centre.site (n - 1) ∨ Centre.site n = Centre.site (n - 1 + 1)) := by
        right; congr 1; omega
      have h1n : 1 ≤ n := by omega
      unfold rlLoopFull
      rw [e1]
      split
      · simp only [List.cons_append, List.nil_append, walkAll, walk, true_and, h1n, if_true]
        exact ih' _
      · split
        · simp only [walkAll, walk, if_pos hc, if_true, Bool.false_eq_true, if_false, List.cons_append, List.nil_append]
          exact ih' _
        · simp only [walkAll, walk, if_pos hc, if_true, Bool.false_eq_true, if_false, List.nil_append]
          exact ih' _

theorem prims_flatten (calls : List (List Step)) : prims calls.flatten = (calls.map prims).flatten := by
  induction calls with
  | nil => rfl
  | cons c cs ih => simp [prims_append, ih]

theorem walkAll_flatten (c0 : Centre) (calls : List (List Step)) (h : ∀ c ∈ calls, walkAll c0 c = some c0) :
    walkAll c0 calls.flatten = some c0 := by
  induction calls with
  | nil => rfl
  | cons c cs ih =>
    rw [List.flatten_cons, walkAll_append, h c (by simp)]
    exact ih fun c' hc' => h c' (by simp [hc'])

theorem lossTotal_flatten_le (L B : Nat) (calls : List (List Op)) (h : ∀ c ∈ calls, lossTotal L c ≤ B) :
    lossTotal L calls.flatten ≤ calls.length * B := by
  induction calls with
  | nil => simp [lossTotal]
  | cons c cs ih =>
    have h1 := h c (by simp)
    have h2 := ih fun c' hc' => h c' (by simp [hc'])
    simp only [List.flatten_cons, lossTotal_append, List.length_cons]
    have : (cs.length + 1) * B = cs.length * B + B := by ring
    omega

/-! ### an abstract system whose steps act on a state with an energy, a squared norm and a canonical centre -/

section sys
variable {σ R : Type*} [Field R] [LinearOrder R] [IsStrictOrderedRing R]

/-- a state space with the two conserved quantities, the canonical-form predicate and the action of every step -/
structure TdvpSys (σ R : Type*) where
  /-- `⟨ψ|H|ψ⟩` -/
  E : σ → R
  /-- `⟨ψ|ψ⟩` -/
  N : σ → R
  /-- the state is in mixed canonical form with the non-isometric tensor at the given place -/
  ctr : σ → Centre → Prop
  /-- what one step does to the state -/
  act : Step → σ → σ

def TdvpSys.run (S : TdvpSys σ R) : List Step → σ → σ
  | [], x => x
  | st :: rest, x => TdvpSys.run S rest (S.act st x)

/-- the hypotheses about the steps (see `Props/C05.lean`, `one_site_sweep_conserves`, for which theorem discharges which) -/
structure TdvpSys.Sound (S : TdvpSys σ R) (thr eps : R) : Prop where
  /-- every step other than a truncating split, applied where the centre is, keeps energy and norm and leaves the
      centre where `walk` says -/
  exact : ∀ st c c' x, st.lossless = true → walk c st = some c' → S.ctr x c →
    S.E (S.act st x) = S.E x ∧ S.N (S.act st x) = S.N x ∧ S.ctr (S.act st x) c'
  /-- a truncating split lowers the squared norm by the discarded weight `≤ thr` and moves the energy by at most `eps` -/
  lossy : ∀ st c c' x, st.lossless = false → walk c st = some c' → S.ctr x c →
    S.ctr (S.act st x) c' ∧ S.N x - thr ≤ S.N (S.act st x) ∧ S.N (S.act st x) ≤ S.N x ∧
      |S.E (S.act st x) - S.E x| ≤ eps

omit [Field R] [LinearOrder R] [IsStrictOrderedRing R] in
theorem TdvpSys.run_append (S : TdvpSys σ R) (xs ys : List Step) (x : σ) :
    S.run (xs ++ ys) x = S.run ys (S.run xs x) := by
  induction xs generalizing x with
  | nil => rfl
  | cons st xs ih => exact ih _

omit [IsStrictOrderedRing R] in
theorem run_exact (S : TdvpSys σ R) (thr eps : R) (hS : S.Sound thr eps) (steps : List Step)
    (hl : ∀ st ∈ steps, st.lossless = true) (c c' : Centre) (hw : walkAll c steps = some c') (x : σ)
    (hx : S.ctr x c) :
    S.E (S.run steps x) = S.E x ∧ S.N (S.run steps x) = S.N x ∧ S.ctr (S.run steps x) c' := by
  induction steps generalizing c x with
  | nil =>
    simp only [walkAll, Option.some.injEq] at hw
    subst hw
    exact ⟨rfl, rfl, hx⟩
  | cons st rest ih =>
    simp only [walkAll] at hw
    cases hws : walk c st with
    | none => rw [hws] at hw; exact absurd hw (by simp)
    | some c1 =>
      rw [hws] at hw
      obtain ⟨e1, n1, k1⟩ := hS.exact st c c1 x (hl st (by simp)) hws hx
      obtain ⟨e2, n2, k2⟩ := ih (fun s hs => hl s (by simp [hs])) c1 hw (S.act st x) k1
      exact ⟨e2.trans e1, n2.trans n1, k2⟩

theorem lossCount_of_lossless (L : Nat) (o : Op) (h : (Step.prim o).lossless = true) : lossCount L o = 0 := by
  cases o <;> simp_all [Step.lossless, lossCount]

theorem run_drift (S : TdvpSys σ R) (thr eps : R) (hS : S.Sound thr eps) (L : Nat)
    (steps : List Step) (c c' : Centre) (hw : walkAll c steps = some c') (x : σ) (hx : S.ctr x c) :
    S.ctr (S.run steps x) c' ∧
    S.N x - (lossTotal L (prims steps) : R) * thr ≤ S.N (S.run steps x) ∧ S.N (S.run steps x) ≤ S.N x ∧
    |S.E (S.run steps x) - S.E x| ≤ (lossTotal L (prims steps) : R) * eps := by
  induction steps generalizing c x with
  | nil =>
    simp only [walkAll, Option.some.injEq] at hw
    subst hw
    simp [TdvpSys.run, prims, lossTotal, hx]
  | cons st rest ih =>
    simp only [walkAll] at hw
    cases hws : walk c st with
    | none => rw [hws] at hw; exact absurd hw (by simp)
    | some c1 =>
      rw [hws] at hw
      by_cases hl : st.lossless = true
      · obtain ⟨e1, n1, k1⟩ := hS.exact st c c1 x hl hws hx
        obtain ⟨k2, lo, hi, en⟩ := ih c1 hw (S.act st x) k1
        have hp : lossTotal L (prims (st :: rest)) = lossTotal L (prims rest) := by
          cases st with
          | prim o => simp [prims, lossTotal, lossCount_of_lossless L o hl]
          | _ => rfl
        rw [hp]
        simp only [TdvpSys.run]
        rw [n1, e1] at *
        exact ⟨k2, lo, hi, en⟩
      · have hl' : st.lossless = false := by simpa using hl
        obtain ⟨k1, lo1, hi1, en1⟩ := hS.lossy st c c1 x hl' hws hx
        obtain ⟨k2, lo, hi, en⟩ := ih c1 hw (S.act st x) k1
        have hp : lossTotal L (prims (st :: rest)) = 1 + lossTotal L (prims rest) := by
          cases st with
          | prim o =>
            cases o with
            | split p r => simp [prims, lossTotal, lossCount]
            | trunc => simp [walk] at hws
            | _ => simp [Step.lossless] at hl'
          | _ => simp [Step.lossless] at hl'
        rw [hp]
        simp only [TdvpSys.run]
        push_cast
        refine ⟨k2, by linarith, by linarith, ?_⟩
        have tri := abs_sub_le (S.E (S.run rest (S.act st x))) (S.E (S.act st x)) (S.E x)
        linarith

end sys

theorem normTrace_join (L : Nat) (thr : Rat) : ∀ a b x z y, NormTrace L thr a x z → NormTrace L thr b z y →
    NormTrace L thr (a ++ b) x y := by
  intro a b x z y h1 h2
  induction h1 with
  | nil x => exact h2
  | step o os x x' z' l1 l2 _ ih => exact NormTrace.step o (os ++ b) x x' y l1 l2 (ih h2)

/-- for a rational-valued norm the run produces the abstract norm trace that `norm_budget` of C05 takes as input -/
theorem normTrace_of_run {σ : Type*} (S : TdvpSys σ Rat) (thr eps : Rat) (hS : S.Sound thr eps) (L : Nat)
    (steps : List Step) (c c' : Centre) (hw : walkAll c steps = some c') (x : σ) (hx : S.ctr x c) :
    NormTrace L thr (prims steps) (S.N x) (S.N (S.run steps x)) := by
  induction steps generalizing c x with
  | nil => exact NormTrace.nil _
  | cons st rest ih =>
    simp only [walkAll] at hw
    cases hws : walk c st with
    | none => rw [hws] at hw; exact absurd hw (by simp)
    | some c1 =>
      rw [hws] at hw
      by_cases hl : st.lossless = true
      · obtain ⟨_, n1, k1⟩ := hS.exact st c c1 x hl hws hx
        have t := ih c1 hw (S.act st x) k1
        cases st with
        | prim o =>
          simp only [prims, TdvpSys.run]
          refine NormTrace.step o _ _ (S.N (S.act (.prim o) x)) _ ?_ ?_ t
          · rw [n1, lossCount_of_lossless L o hl]; simp
          · rw [n1]
        | _ =>
          simp only [prims, TdvpSys.run]
          rw [← n1]
          exact t
      · have hl' : st.lossless = false := by simpa using hl
        obtain ⟨k1, lo1, hi1, _⟩ := hS.lossy st c c1 x hl' hws hx
        have t := ih c1 hw (S.act st x) k1
        cases st with
        | prim o =>
          cases o with
          | split p r =>
            simp only [prims, TdvpSys.run]
            refine NormTrace.step _ _ _ (S.N (S.act (.prim (.split p r)) x)) _ ?_ hi1 t
            simp only [lossCount, Nat.cast_one, one_mul]
            exact lo1
          | trunc => simp [walk] at hws
          | _ => simp [Step.lossless] at hl'
        | _ => simp [Step.lossless] at hl'

end Yaqs.Sweep
