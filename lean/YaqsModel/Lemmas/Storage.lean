import YaqsModel.Model.Storage
import YaqsModel.Lemmas.Params
import Mathlib.Tactic.Ring
import Mathlib.Tactic.Linarith
import Mathlib.Tactic.FieldSimp
import Mathlib.Algebra.Order.Ring.Rat
import Mathlib.Algebra.Order.Field.Basic
import Mathlib.Data.Nat.Cast.Order.Ring

/-! helper lemmas for `Model.Storage` (result storage of C15 / C11 / C12) -/
namespace Yaqs.Storage
open Yaqs.Params (Counts addAll addCount sortCounts total)

/-! ### row assignment -/

theorem assignRow_exact (cols : Nat) (row : List Rat) (h : row.length = cols) : assignRow cols row = .ok row := by
  simp [assignRow, h]

theorem assignRow_broadcast (cols : Nat) (x : Rat) (h : cols ≠ 1) :
    assignRow cols [x] = .ok (List.replicate cols x) := by
  have : ¬ (1 = cols) := fun e => h e.symm
  simp [assignRow, this]

theorem assignRow_error (cols : Nat) (row : List Rat) (h1 : row.length ≠ cols) (h2 : row.length ≠ 1) :
    assignRow cols row = .error (.broadcast row.length cols) := by
  simp [assignRow, h1, h2]

theorem assignRow_ok_length (cols : Nat) (row r : List Rat) (h : assignRow cols row = .ok r) : r.length = cols := by
  unfold assignRow at h
  split at h
  · cases h; assumption
  · split at h
    · cases h; simp
    · cases h

theorem fillFrom_ok (cols : Nat) (res : Nat → List Rat) (is : List Nat) (h : ∀ i ∈ is, (res i).length = cols) :
    fillFrom cols res is = .ok (is.map res) := by
  induction is with
  | nil => rfl
  | cons i is ih =>
    have h1 := h i (by simp)
    have h2 := ih (fun j hj => h j (by simp [hj]))
    simp [fillFrom, assignRow_exact _ _ h1, h2]

theorem fillFrom_error (cols : Nat) (res : Nat → List Rat) (is : List Nat)
    (h : ∃ i ∈ is, (res i).length ≠ cols ∧ (res i).length ≠ 1) : ∃ e, fillFrom cols res is = .error e := by
  induction is with
  | nil => obtain ⟨i, hi, _⟩ := h; cases hi
  | cons i is ih =>
    obtain ⟨j, hj, h1, h2⟩ := h
    simp only [fillFrom]
    cases ha : assignRow cols (res i) with
    | error e => exact ⟨e, rfl⟩
    | ok r =>
      rcases List.mem_cons.mp hj with rfl | hj'
      · rw [assignRow_error _ _ h1 h2] at ha; cases ha
      · obtain ⟨e, he⟩ := ih ⟨j, hj', h1, h2⟩
        exact ⟨e, by simp [he]⟩

theorem fillFrom_ok_shape (cols : Nat) (res : Nat → List Rat) (is : List Nat) (t : List (List Rat))
    (h : fillFrom cols res is = .ok t) : t.length = is.length ∧ ∀ r ∈ t, r.length = cols := by
  induction is generalizing t with
  | nil => simp only [fillFrom] at h; cases h; simp
  | cons i is ih =>
    simp only [fillFrom] at h
    cases ha : assignRow cols (res i) with
    | error e => rw [ha] at h; cases h
    | ok r =>
      rw [ha] at h
      cases hf : fillFrom cols res is with
      | error e => rw [hf] at h; cases h
      | ok rest =>
        rw [hf] at h
        cases h
        obtain ⟨hl, hr⟩ := ih rest hf
        refine ⟨by simp [hl], ?_⟩
        intro r' hr'
        rcases List.mem_cons.mp hr' with rfl | hm
        · exact assignRow_ok_length _ _ _ ha
        · exact hr _ hm

theorem fill_ok (a : Alloc) (res : Nat → List Rat) (h : ∀ i, i < a.rows → (res i).length = a.cols) :
    fill a res = .ok ((List.range a.rows).map res) :=
  fillFrom_ok _ _ _ (fun i hi => h i (List.mem_range.mp hi))

/-! ### column sums and means -/

theorem colSum_nil (k : Nat) : colSum [] k = 0 := rfl

theorem colSum_cons (r : List Rat) (t : List (List Rat)) (k : Nat) : colSum (r :: t) k = r.getD k 0 + colSum t k := by
  simp [colSum]

theorem colSum_replicate (n : Nat) (r : List Rat) (k : Nat) : colSum (List.replicate n r) k = (n : Rat) * r.getD k 0 := by
  induction n with
  | zero => simp [colSum]
  | succ n ih => rw [List.replicate_succ, colSum_cons, ih]; push_cast; ring

theorem getD_map_of_lt (f : Rat → Rat) (r : List Rat) (k : Nat) (h : k < r.length) :
    (r.map f).getD k 0 = f (r.getD k 0) := by
  simp [List.getD_eq_getElem?_getD, List.getElem?_map, List.getElem?_eq_getElem h]

theorem colSum_affine (a c : Rat) (t : List (List Rat)) (k : Nat) (h : ∀ r ∈ t, k < r.length) :
    colSum (t.map (·.map (fun x => a * x + c))) k = a * colSum t k + (t.length : Rat) * c := by
  induction t with
  | nil => simp [colSum]
  | cons r t ih =>
    rw [List.map_cons, colSum_cons, colSum_cons, ih (fun r' hr' => h r' (by simp [hr'])),
      getD_map_of_lt _ _ _ (h r (by simp))]
    simp only [List.length_cons]; push_cast; ring

theorem getD_zipWith_add (r s : List Rat) (k : Nat) (hr : k < r.length) (hs : k < s.length) :
    (List.zipWith (· + ·) r s).getD k 0 = r.getD k 0 + s.getD k 0 := by
  simp [List.getD_eq_getElem?_getD, List.getElem?_zipWith, List.getElem?_eq_getElem hr, List.getElem?_eq_getElem hs]

theorem colSum_add (t u : List (List Rat)) (k : Nat) (hl : t.length = u.length)
    (ht : ∀ r ∈ t, k < r.length) (hu : ∀ r ∈ u, k < r.length) :
    colSum (List.zipWith (List.zipWith (· + ·)) t u) k = colSum t k + colSum u k := by
  induction t generalizing u with
  | nil => cases u with
    | nil => simp [colSum]
    | cons s u => simp at hl
  | cons r t ih =>
    cases u with
    | nil => simp at hl
    | cons s u =>
      rw [List.zipWith_cons_cons, colSum_cons, colSum_cons, colSum_cons,
        ih u (by simpa using hl) (fun r' hr' => ht r' (by simp [hr'])) (fun r' hr' => hu r' (by simp [hr'])),
        getD_zipWith_add _ _ _ (ht r (by simp)) (hu s (by simp))]
      ring

/-- mapping a function over a reduction's values -/
def Agg.map (f : Rat → Rat) : Agg → Agg
  | .values v => .values (v.map f)
  | .nan n => .nan n
  | .valueError => .valueError

theorem meanAxis0_ne_nil (cols : Nat) (t : List (List Rat)) (h : t ≠ []) :
    meanAxis0 cols t = .values ((List.range cols).map (fun k => colSum t k / (t.length : Rat))) := by
  cases t with
  | nil => exact absurd rfl h
  | cons r t => simp [meanAxis0]

theorem meanAxis0_nil (cols : Nat) : meanAxis0 cols [] = .nan cols := rfl

theorem meanAxis0_single (cols : Nat) (r : List Rat) (h : r.length = cols) : meanAxis0 cols [r] = .values r := by
  rw [meanAxis0_ne_nil _ _ (by simp)]
  congr 1
  apply List.ext_getElem
  · simp [h]
  · intro k h1 h2
    simp only [List.length_map, List.length_range] at h1
    have hk : k < r.length := by omega
    simp [colSum, List.getD_eq_getElem?_getD, List.getElem?_eq_getElem hk]

theorem meanAxis0_replicate (cols n : Nat) (r : List Rat) (h : r.length = cols) (hn : 0 < n) :
    meanAxis0 cols (List.replicate n r) = .values r := by
  have hne : List.replicate n r ≠ [] := by
    cases n with
    | zero => omega
    | succ n => simp [List.replicate_succ]
  rw [meanAxis0_ne_nil _ _ hne]
  congr 1
  apply List.ext_getElem
  · simp [h]
  · intro k h1 h2
    simp only [List.length_map, List.length_range] at h1
    have hk : k < r.length := by omega
    have hn' : (n : Rat) ≠ 0 := by exact_mod_cast (Nat.pos_iff_ne_zero.mp hn)
    simp only [List.getElem_map, List.getElem_range, colSum_replicate, List.length_replicate]
    rw [mul_div_cancel_left₀ _ hn']
    simp [List.getD_eq_getElem?_getD, List.getElem?_eq_getElem hk]

theorem meanAxis0_affine (cols : Nat) (a c : Rat) (t : List (List Rat)) (h : ∀ r ∈ t, r.length = cols) :
    meanAxis0 cols (t.map (·.map (fun x => a * x + c))) = (meanAxis0 cols t).map (fun x => a * x + c) := by
  cases t with
  | nil => rfl
  | cons r t =>
    rw [meanAxis0_ne_nil _ _ (by simp), meanAxis0_ne_nil _ _ (by simp)]
    simp only [Agg.map, List.map_map]
    congr 1
    apply List.map_congr_left
    intro k hk
    have hk' : k < cols := List.mem_range.mp hk
    have hlen : ∀ r' ∈ r :: t, k < r'.length := fun r' hr' => by rw [h r' hr']; exact hk'
    have hn : (((r :: t).length : Nat) : Rat) ≠ 0 := by simp only [List.length_cons]; positivity
    simp only [Function.comp_def, List.length_map]
    rw [colSum_affine a c (r :: t) k hlen]
    field_simp

theorem meanAxis0_add (cols : Nat) (t u : List (List Rat)) (hl : t.length = u.length) (hne : t ≠ [])
    (ht : ∀ r ∈ t, r.length = cols) (hu : ∀ r ∈ u, r.length = cols) :
    meanAxis0 cols (List.zipWith (List.zipWith (· + ·)) t u) =
      .values ((List.range cols).map (fun k => colSum t k / (t.length : Rat) + colSum u k / (u.length : Rat))) := by
  have hz : List.zipWith (List.zipWith (· + ·)) t u ≠ [] := by
    cases t with
    | nil => exact absurd rfl hne
    | cons r t => cases u with
      | nil => simp at hl
      | cons s u => simp
  rw [meanAxis0_ne_nil _ _ hz]
  congr 1
  apply List.map_congr_left
  intro k hk
  have hk' : k < cols := List.mem_range.mp hk
  rw [colSum_add t u k hl (fun r hr => by rw [ht r hr]; exact hk') (fun r hr => by rw [hu r hr]; exact hk')]
  simp only [List.length_zipWith, ← hl, Nat.min_self]
  rw [add_div]

/-! ### weak mode -/

theorem addAll_nil_right (acc : Counts) : addAll acc [] = acc := rfl

theorem foldl_truthy_eq (ms : List (Option Counts)) (acc : Counts) :
    (ms.filterMap truthy).foldl addAll acc = (ms.filterMap id).foldl addAll acc := by
  induction ms generalizing acc with
  | nil => rfl
  | cons m ms ih =>
    cases m with
    | none =>
      have h1 : (none :: ms).filterMap truthy = ms.filterMap truthy := by simp [List.filterMap_cons, truthy]
      have h2 : (none :: ms).filterMap id = ms.filterMap id := by simp
      rw [h1, h2]; exact ih acc
    | some c =>
      cases c with
      | nil =>
        have h1 : (some [] :: ms).filterMap truthy = ms.filterMap truthy := by simp [List.filterMap_cons, truthy]
        have h2 : (some [] :: ms).filterMap id = [] :: ms.filterMap id := by simp
        rw [h1, h2, List.foldl_cons, addAll_nil_right]; exact ih acc
      | cons x xs =>
        have h1 : (some (x :: xs) :: ms).filterMap truthy = (x :: xs) :: ms.filterMap truthy := by
          simp [truthy]
        have h2 : (some (x :: xs) :: ms).filterMap id = (x :: xs) :: ms.filterMap id := by simp
        rw [h1, h2, List.foldl_cons, List.foldl_cons]; exact ih _

/-- the storage model's `aggregate_measurements` is the one of `Model.Params` (C12 / C20) -/
theorem aggregateMeasurements_eq_params (ms : List (Option Counts)) :
    aggregateMeasurements ms = Params.aggregate ms := by
  unfold aggregateMeasurements Params.aggregate hasNone
  rw [foldl_truthy_eq]
  cases ms with
  | nil => rfl
  | cons m ms => cases m <;> rfl

theorem hasNone_map_some (l : List Counts) : hasNone (l.map some) = false := by
  induction l with
  | nil => rfl
  | cons x xs ih => simp [hasNone]

theorem filterMap_id_map_some (l : List Counts) : (l.map some).filterMap id = l := by
  induction l with
  | nil => rfl
  | cons x xs ih => simp

theorem aggregate_all_dicts (l : List Counts) :
    aggregateMeasurements (l.map some) = .ok (sortCounts (l.foldl addAll [])) := by
  unfold aggregateMeasurements
  rw [hasNone_map_some, foldl_truthy_eq, filterMap_id_map_some]
  simp

theorem addCount_fresh (acc : Counts) (k v : Nat) (h : k ∉ acc.map (·.1)) : addCount acc k v = acc ++ [(k, v)] := by
  induction acc with
  | nil => rfl
  | cons x xs ih =>
    obtain ⟨k', v'⟩ := x
    have hne : ¬ (k' = k) := fun e => h (by simp [e])
    have hx : k ∉ xs.map (·.1) := fun hm => h (by simp at hm ⊢; exact Or.inr hm)
    simp [addCount, hne, ih hx]

theorem addAll_fresh (acc d : Counts) (h : ((acc ++ d).map (·.1)).Nodup) : addAll acc d = acc ++ d := by
  unfold addAll
  induction d generalizing acc with
  | nil => simp
  | cons x xs ih =>
    obtain ⟨k, v⟩ := x
    have hk : k ∉ acc.map (·.1) := by
      intro hm
      rw [List.map_append, List.nodup_append] at h
      exact h.2.2 k hm k (by simp) rfl
    rw [List.foldl_cons, addCount_fresh acc k v hk]
    have h' : (((acc ++ [(k, v)]) ++ xs).map (·.1)).Nodup := by simpa using h
    rw [ih (acc ++ [(k, v)]) h']
    simp

theorem hasNone_append_replicate (l : List Counts) (m : Nat) :
    hasNone (l.map some ++ List.replicate m none) = decide (0 < m) := by
  cases m with
  | zero => simp [hasNone_map_some]
  | succ m => simp [hasNone, List.replicate_succ]

end Yaqs.Storage
