import YaqsModel.Lemmas.MpsBridge
import YaqsModel.Model.MpsBonds
import YaqsModel.Props.C09

/-!
# Bridge, second part: SVD centre shift, last-site QR, Gram tests, `truncate`

`Lemmas/MpsBridge.lean` connects the executable list model of `Model/Mps.lean` with the `Matrix` statements of C10 for
the QR shift, the flip and the padding loop.  This file does the same for the remaining definitions the driver runs:

* `thetaMat` (the merged two-site matrix handed to the SVD) — entries and shape, and its Matrix reading
  `(toSite n a s * toSite n b t) l r`;
* a general *executable two-site replacement*: two pairs with the same frame and the same `thetaMat` give the same
  amplitudes inside every chain;
* `twoSiteSVD` / `shiftRightSVD` — the merged matrix of the new pair is `u[:, :keep] · diag(s[:keep]) · v[:keep, :]`;
* `shiftRightQRLast` — old amplitude = new amplitude · `r₀₀`;
* `gramLeft`, `gramRight`, `isLeftIso`, `isRightIso`, `checkCanonicalOf`;
* `truncateEv`.
-/

namespace Yaqs.Mps

open scoped Matrix

/-! ### indexing into flattened / chunked lists -/

theorem getD_of_lt {α} (l : List α) (d : α) {i : Nat} (h : i < l.length) : l.getD i d = l[i] := by
  simp [List.getD_eq_getElem?_getD, List.getElem?_eq_getElem h]

theorem getD_flatten_uniform {α} (n : Nat) (d : α) : ∀ (L : List (List α)), (∀ m ∈ L, m.length = n) →
    ∀ i j, j < n → L.flatten.getD (i * n + j) d = (L.getD i []).getD j d
  | [], _, i, j, _ => by simp
  | m :: L, h, 0, j, hj => by
    have hm : m.length = n := h m (by simp)
    simp [List.getD_eq_getElem?_getD, List.getElem?_append_left (by omega : j < m.length)]
  | m :: L, h, i + 1, j, hj => by
    have hm : m.length = n := h m (by simp)
    have e : (i + 1) * n + j = m.length + (i * n + j) := by rw [hm]; ring
    have ih := getD_flatten_uniform n d L (fun m' hm' => h m' (by simp [hm'])) i j hj
    rw [List.flatten_cons, e]
    simp only [List.getD_eq_getElem?_getD] at ih ⊢
    rw [List.getElem?_append_right (Nat.le_add_right _ _), Nat.add_sub_cancel_left, List.getElem?_cons_succ]
    exact ih

theorem getD_take_drop {α} (l : List α) (a n j : Nat) (d : α) :
    ((l.drop a).take n).getD j d = if j < n then l.getD (a + j) d else d := by
  simp only [List.getD_eq_getElem?_getD, List.getElem?_take, List.getElem?_drop]
  split <;> rfl

/-- `(chunks n l).flatten = l` when the length is a multiple of `n` (`reshape(p, n, ·)` then `reshape(p * n, ·)`) -/
theorem flatten_chunks {α} (n : Nat) (hn : 0 < n) : ∀ (p : Nat) (l : List α), l.length = p * n → (chunks n l).flatten = l
  | 0, l, h => by
    have : l = [] := List.length_eq_zero_iff.mp (by simpa using h)
    subst this
    simp [chunks]
  | p + 1, l, h => by
    have hlen : l.length / n = p + 1 := by rw [h]; exact Nat.mul_div_cancel _ hn
    have hd : (l.drop n).length = p * n := by rw [List.length_drop, h]; rw [Nat.succ_mul]; omega
    have hdlen : (l.drop n).length / n = p := by rw [hd]; exact Nat.mul_div_cancel _ hn
    have ih := flatten_chunks n hn p (l.drop n) hd
    have e : chunks n l = l.take n :: chunks n (l.drop n) := by
      unfold chunks
      rw [hlen, hdlen, List.range_succ_eq_map, List.map_cons, List.map_map]
      congr 1
      · simp
      · apply List.map_congr_left
        intro i _
        simp only [Function.comp, List.drop_drop]
        congr 2
        rw [Nat.succ_mul]; omega
    rw [e, List.flatten_cons, ih, List.take_append_drop]

theorem length_chunks {α} (n : Nat) (l : List α) : (chunks n l).length = l.length / n := by simp [chunks]

theorem getD_chunks {α} (n : Nat) (l : List α) (s : Nat) (hs : s < l.length / n) :
    (chunks n l).getD s [] = (l.drop (s * n)).take n := by
  unfold chunks
  rw [getD_of_lt _ _ (by simpa using hs)]
  simp

/-- `concatenate([f(t·r + x) for x in range(r)] for t in range(p)) = [f(j) for j in range(p·r)]` -/
theorem flatten_range_blocks {β} (r : Nat) (f : Nat → β) : ∀ p : Nat,
    ((List.range p).map (fun t => (List.range r).map (fun x => f (t * r + x)))).flatten = (List.range (p * r)).map f
  | 0 => by simp
  | p + 1 => by
    rw [List.range_succ, List.map_append, List.flatten_append, flatten_range_blocks r f p, Nat.succ_mul, List.range_add,
      List.map_append]
    simp [List.map_map, Function.comp_def]

/-! ### `thetaMat`: the merged two-site matrix -/

theorem entry_eq (m : Mat) (i j : Nat) : entry m i j = (m.getD i []).getD j 0 := rfl

theorem mul_lt_of_lt {s p l n : Nat} (hs : s < p) (hl : l < n) : s * n + l < p * n := by
  have : (s + 1) * n ≤ p * n := Nat.mul_le_mul_right n hs
  rw [Nat.succ_mul] at this
  omega

/-- row `s·left + l` of the flattened tensor is row `l` of slice `s` -/
theorem getD_flattenRows (t : Tensor) (ht : wellShaped t = true) (s l : Nat) (hl : l < leftDim t) :
    (flattenRows t).getD (s * leftDim t + l) [] = (t.getD s []).getD l [] := by
  obtain ⟨_, _, _, hall⟩ := (wellShaped_iff t).mp ht
  exact getD_flatten_uniform (leftDim t) [] t (fun m hm => (hall m hm).1) s l hl

theorem length_flattenRows (t : Tensor) (ht : wellShaped t = true) : (flattenRows t).length = t.length * leftDim t := by
  obtain ⟨_, _, _, hall⟩ := (wellShaped_iff t).mp ht
  exact length_flatten_uniform (leftDim t) t (fun m hm => (hall m hm).1)

theorem rows_flattenRows (t : Tensor) (ht : wellShaped t = true) : ∀ row ∈ flattenRows t, row.length = rightDim t := by
  obtain ⟨_, _, _, hall⟩ := (wellShaped_iff t).mp ht
  intro row hrow
  simp only [flattenRows, List.mem_flatten] at hrow
  obtain ⟨m, hm, hr⟩ := hrow
  exact (hall m hm).2 row hr

theorem length_vecMat (v : List CRat) (b : Mat) : (vecMat v b).length = ncols b := by simp [vecMat]

theorem getD_vecMat (v : List CRat) (b : Mat) (j : Nat) (hj : j < ncols b) : (vecMat v b).getD j 0 = dot v (col b j) := by
  unfold vecMat
  rw [getD_of_lt _ _ (by simpa using hj)]
  simp

/-- one row of `thetaMat`: `arow` contracted with every slice of `b`, slices side by side -/
def thetaRow (b : Tensor) (arow : List CRat) : List CRat := (b.map (fun bt => vecMat arow bt)).flatten

theorem thetaMat_eq (a b : Tensor) : thetaMat a b = (flattenRows a).map (thetaRow b) := rfl

theorem length_thetaRow (b : Tensor) (hb : wellShaped b = true) (arow : List CRat) :
    (thetaRow b arow).length = b.length * rightDim b := by
  unfold thetaRow
  rw [length_flatten_uniform (rightDim b)]
  · simp
  · intro m hm
    simp only [List.mem_map] at hm
    obtain ⟨bt, hbt, rfl⟩ := hm
    rw [length_vecMat, ncols_of_wellShaped hb hbt]

theorem getD_thetaRow (b : Tensor) (hb : wellShaped b = true) (arow : List CRat) (t r : Nat) (ht : t < b.length)
    (hr : r < rightDim b) : (thetaRow b arow).getD (t * rightDim b + r) 0 = dot arow (col (b.getD t []) r) := by
  unfold thetaRow
  rw [getD_flatten_uniform (rightDim b) 0 _ _ t r hr]
  · have e1 : (b.map (fun bt => vecMat arow bt)).getD t [] = vecMat arow (b.getD t []) := by
      rw [getD_of_lt _ [] (by simpa using ht : t < (b.map (fun bt => vecMat arow bt)).length), List.getElem_map,
        getD_of_lt _ [] ht]
    rw [e1]
    refine getD_vecMat _ _ _ ?_
    rw [getD_of_lt _ [] ht, ncols_of_wellShaped hb (List.getElem_mem ht)]; exact hr
  · intro m hm
    simp only [List.mem_map] at hm
    obtain ⟨bt, hbt, rfl⟩ := hm
    rw [length_vecMat, ncols_of_wellShaped hb hbt]

/-- shape of `thetaMat`: `(phys_i · left) × (phys_j · right)` -/
theorem thetaMat_shape (a b : Tensor) (ha : wellShaped a = true) (hb : wellShaped b = true) :
    (thetaMat a b).length = a.length * leftDim a ∧ ∀ row ∈ thetaMat a b, row.length = b.length * rightDim b := by
  refine ⟨by rw [thetaMat_eq, List.length_map, length_flattenRows a ha], fun row hrow => ?_⟩
  rw [thetaMat_eq, List.mem_map] at hrow
  obtain ⟨arow, _, rfl⟩ := hrow
  exact length_thetaRow b hb arow

/-- entry `[(s·left + l), (t·right + r)]` of `thetaMat a b` is the contraction of row `l` of `a[s]` with column `r` of
    `b[t]` -/
theorem entry_thetaMat_dot (a b : Tensor) (ha : wellShaped a = true) (hb : wellShaped b = true) (s l t r : Nat)
    (hs : s < a.length) (hl : l < leftDim a) (ht : t < b.length) (hr : r < rightDim b) :
    entry (thetaMat a b) (s * leftDim a + l) (t * rightDim b + r) =
      dot ((a.getD s []).getD l []) (col (b.getD t []) r) := by
  have hi : s * leftDim a + l < (flattenRows a).length := by
    rw [length_flattenRows a ha]; exact mul_lt_of_lt hs hl
  have e1 : ((flattenRows a).map (thetaRow b)).getD (s * leftDim a + l) [] =
      thetaRow b ((a.getD s []).getD l []) := by
    rw [getD_of_lt _ [] (by simpa using hi : s * leftDim a + l < ((flattenRows a).map (thetaRow b)).length),
      List.getElem_map, ← getD_of_lt _ [] hi, getD_flattenRows a ha s l hl]
  rw [entry_eq, thetaMat_eq, e1]
  exact getD_thetaRow b hb _ t r ht hr

/-- **entries of `thetaMat`** as a finite sum over the shared bond (any bound `n` that covers the shorter of the two
    bond dimensions) -/
theorem entry_thetaMat (a b : Tensor) (ha : wellShaped a = true) (hb : wellShaped b = true) (s l t r : Nat)
    (hs : s < a.length) (hl : l < leftDim a) (ht : t < b.length) (hr : r < rightDim b) (n : Nat)
    (hn : min (rightDim a) (leftDim b) ≤ n) :
    entry (thetaMat a b) (s * leftDim a + l) (t * rightDim b + r) =
      ∑ k ∈ Finset.range n, entry (a.getD s []) l k * entry (b.getD t []) k r := by
  obtain ⟨_, _, _, halla⟩ := (wellShaped_iff a).mp ha
  obtain ⟨_, _, _, hallb⟩ := (wellShaped_iff b).mp hb
  rw [entry_thetaMat_dot a b ha hb s l t r hs hl ht hr, dot_eq_sum _ _ n]
  · refine Finset.sum_congr rfl fun k _ => ?_
    rw [col_getD]
    rfl
  · have h1 : (a.getD s []) ∈ a := by rw [getD_of_lt _ _ hs]; exact List.getElem_mem hs
    have h2 : (b.getD t []) ∈ b := by rw [getD_of_lt _ _ ht]; exact List.getElem_mem ht
    have h3 : ((a.getD s []).getD l []).length = rightDim a := by
      have hll : l < (a.getD s []).length := by rw [(halla _ h1).1]; exact hl
      rw [getD_of_lt _ _ hll]
      exact (halla _ h1).2 _ (List.getElem_mem hll)
    rw [h3, col_length, (hallb _ h2).1]
    exact hn

/-! ### Matrix reading of the two-site block -/

theorem toSite_eq (n : Nat) (t : Tensor) (s : Nat) : toSite n t s = toMat n (t.getD s []) := rfl

theorem getD_nil_of_le {α} (l : List (List α)) (i : Nat) (h : l.length ≤ i) : l.getD i [] = [] := by
  simp [List.getD_eq_getElem?_getD, List.getElem?_eq_none h]

theorem getD_mem {α} (l : List (List α)) {i : Nat} (h : i < l.length) : l.getD i [] ∈ l := by
  rw [getD_of_lt _ [] h]; exact List.getElem_mem h

/-- **the two-site block of the Matrix reading is `thetaMat`**: entry `(i, j)` of `toSite n a s * toSite n b t` is entry
    `[(s·left + i), (t·right + j)]` of the merged matrix, and `0` outside the frame of the two tensors -/
theorem block_entry (n : Nat) (a b : Tensor) (ha : wellShaped a = true) (hb : wellShaped b = true)
    (hra : rightDim a ≤ n) (s t : Nat) (i j : Fin n) :
    (toSite n a s * toSite n b t) i j =
      if s < a.length ∧ i.val < leftDim a ∧ t < b.length ∧ j.val < rightDim b then
        entry (thetaMat a b) (s * leftDim a + i.val) (t * rightDim b + j.val) else 0 := by
  obtain ⟨_, _, _, halla⟩ := (wellShaped_iff a).mp ha
  rw [Matrix.mul_apply]
  simp only [toSite_eq, toMat_apply]
  rw [Fin.sum_univ_eq_sum_range (fun k : Nat => entry (a.getD s []) i.val k * entry (b.getD t []) k j.val) n]
  split
  · next h =>
    obtain ⟨hs, hi, ht, hj⟩ := h
    rw [entry_thetaMat a b ha hb s i.val t j.val hs hi ht hj n (le_trans (Nat.min_le_left _ _) hra)]
  · next h =>
    refine Finset.sum_eq_zero fun k _ => ?_
    by_cases hs : s < a.length
    · by_cases hi : i.val < leftDim a
      · by_cases ht : t < b.length
        · have hj : ¬ j.val < rightDim b := fun hj => h ⟨hs, hi, ht, hj⟩
          have hm := getD_mem b ht
          rw [entry_of_le_cols (b.getD t []) (rows_le_of_wellShaped hb _ hm) k j.val
            (by rw [ncols_of_wellShaped hb hm]; omega), mul_zero]
        · rw [getD_nil_of_le b t (by omega), entry_nil, mul_zero]
      · rw [entry_of_le_rows (a.getD s []) i.val k (by rw [(halla _ (getD_mem a hs)).1]; omega), zero_mul]
    · rw [getD_nil_of_le a s (by omega), entry_nil, zero_mul]

/-- `(a', b')` fits where `(a, b)` sits in a chain: same physical dimensions, same outer bonds, a common inner bond
    that fits into `n` (decidable) -/
def sameFrame (n : Nat) (a b a' b' : Tensor) : Bool :=
  wellShaped a' && wellShaped b' && a'.length == a.length && b'.length == b.length && leftDim a' == leftDim a &&
    rightDim b' == rightDim b && rightDim a' == leftDim b' && decide (rightDim a' ≤ n)

theorem sameFrame_iff (n : Nat) (a b a' b' : Tensor) :
    sameFrame n a b a' b' = true ↔ wellShaped a' = true ∧ wellShaped b' = true ∧ a'.length = a.length ∧
      b'.length = b.length ∧ leftDim a' = leftDim a ∧ rightDim b' = rightDim b ∧ rightDim a' = leftDim b' ∧
      rightDim a' ≤ n := by
  simp [sameFrame, and_assoc]

/-- equal merged matrices ⇒ equal two-site blocks in the Matrix reading (every pair of physical indices) -/
theorem block_eq_of_theta (n : Nat) (a b a' b' : Tensor) (ha : wellShaped a = true) (hb : wellShaped b = true)
    (hra : rightDim a ≤ n) (hf : sameFrame n a b a' b' = true) (hθ : thetaMat a' b' = thetaMat a b) (s t : Nat) :
    toSite n a' s * toSite n b' t = toSite n a s * toSite n b t := by
  obtain ⟨ha', hb', h1, h2, h3, h4, _, h6⟩ := (sameFrame_iff n a b a' b').mp hf
  ext i j
  rw [block_entry n a' b' ha' hb' h6 s t i j, block_entry n a b ha hb hra s t i j, h1, h2, h3, h4, hθ]

/-- **closure under an executable two-site replacement** -/
theorem replace2_wellShapedChain (n : Nat) (pre post : List Tensor) (a b a' b' : Tensor)
    (hws : wellShapedChain n (pre ++ a :: b :: post) = true) (hf : sameFrame n a b a' b' = true) :
    wellShapedChain n (pre ++ a' :: b' :: post) = true := by
  obtain ⟨hall, hbm, hhead, hlast⟩ := (wellShapedChain_iff n _).mp hws
  obtain ⟨ha', hb', _, _, hl, hr, hin, hn⟩ := (sameFrame_iff n a b a' b').mp hf
  have ha := hall a (by simp)
  have hb := hall b (by simp)
  refine (wellShapedChain_iff n _).mpr ⟨?_, ?_, ?_, ?_⟩
  · intro t ht
    simp only [List.mem_append, List.mem_cons] at ht
    rcases ht with ht | rfl | rfl | ht
    · exact hall t (by simp [ht])
    · exact ⟨ha', by rw [hl]; exact ha.2.1, hn⟩
    · exact ⟨hb', by rw [← hin]; exact hn, by rw [hr]; exact hb.2.2⟩
    · exact hall t (by simp [ht])
  · rw [bondsMatch_iff, List.isChain_append] at hbm ⊢
    obtain ⟨h1, h2, h3⟩ := hbm
    rw [List.isChain_cons_cons] at h2
    refine ⟨h1, ?_, ?_⟩
    · rw [List.isChain_cons_cons]
      exact ⟨hin, (isChain_cons_congr _ b post hr).mpr h2.2⟩
    · intro x hx y hy
      simp only [List.head?_cons, Option.mem_def, Option.some.injEq] at hy
      subst hy
      rw [hl]
      exact h3 x hx a (by simp)
  · rw [headD_append_cons] at hhead ⊢
    by_cases hp : pre = []
    · simp only [hp, if_true] at hhead ⊢; rw [hl]; exact hhead
    · simpa only [hp, if_false] using hhead
  · rw [lastRight_append _ _ (by simp)] at hlast ⊢
    show lastRight (b' :: post) = 1
    rw [lastRight_cons_congr _ b post hr]
    exact hlast

theorem cfgOK_replace2 (pre post : List Tensor) (a b a' b' : Tensor) (h1 : a'.length = a.length)
    (h2 : b'.length = b.length) (cfg : List Nat) :
    cfgOK (pre ++ a' :: b' :: post) cfg = cfgOK (pre ++ a :: b :: post) cfg := by
  apply cfgOK_congr
  simp [h1, h2]

theorem toMatrixChain_append2 (n : Nat) (pre post : List Tensor) (a b : Tensor) :
    toMatrixChain n (pre ++ a :: b :: post) = toMatrixChain n pre ++ toSite n a :: toSite n b :: toMatrixChain n post := by
  simp [toMatrixChain]

/-- **executable two-site replacement** (list model): inside any well-shaped chain, a pair `(a', b')` with the frame of
    `(a, b)` and the same merged matrix `thetaMat` gives the same amplitudes. -/
theorem amp_replace2 (n : Nat) (hn : 0 < n) (pre post : List Tensor) (a b a' b' : Tensor)
    (hws : wellShapedChain n (pre ++ a :: b :: post) = true) (hf : sameFrame n a b a' b' = true)
    (hθ : thetaMat a' b' = thetaMat a b) (cfg : List Nat) (hcfg : cfgOK (pre ++ a :: b :: post) cfg = true) :
    amp (pre ++ a' :: b' :: post) cfg = amp (pre ++ a :: b :: post) cfg := by
  obtain ⟨hall, -⟩ := (wellShapedChain_iff n _).mp hws
  obtain ⟨_, _, h1, h2, -⟩ := (sameFrame_iff n a b a' b').mp hf
  have ha := hall a (by simp)
  have hb := hall b (by simp)
  have hws' := replace2_wellShapedChain n pre post a b a' b' hws hf
  have hcfg' : cfgOK (pre ++ a' :: b' :: post) cfg = true := by rw [cfgOK_replace2 pre post a b a' b' h1 h2]; exact hcfg
  have hlen : (toMatrixChain n pre).length + 2 ≤ cfg.length := by
    have := cfgOK_length _ _ hcfg
    simp at this ⊢; omega
  rw [amp_eq_chain n hn _ cfg hws' hcfg', amp_eq_chain n hn _ cfg hws hcfg, toMatrixChain_append2, toMatrixChain_append2,
    Alg.two_site_replace (toMatrixChain n pre) (toMatrixChain n post) (toSite n a) (toSite n b) (toSite n a') (toSite n b')
      (block_eq_of_theta n a b a' b' ha.1 hb.1 ha.2.2 hf hθ) cfg hlen]

theorem physDim_replace2 (pre post : List Tensor) (a b a' b' : Tensor) (h1 : a'.length = a.length)
    (h2 : b'.length = b.length) :
    (pre ++ a' :: b' :: post).map physDim = (pre ++ a :: b :: post).map physDim := by
  simp [physDim, h1, h2]

theorem toVec_replace2 (n : Nat) (hn : 0 < n) (pre post : List Tensor) (a b a' b' : Tensor)
    (hws : wellShapedChain n (pre ++ a :: b :: post) = true) (hf : sameFrame n a b a' b' = true)
    (hθ : thetaMat a' b' = thetaMat a b) : toVec (pre ++ a' :: b' :: post) = toVec (pre ++ a :: b :: post) := by
  obtain ⟨hall, -⟩ := (wellShapedChain_iff n _).mp hws
  obtain ⟨_, _, h1, h2, -⟩ := (sameFrame_iff n a b a' b').mp hf
  exact toVec_congr _ _ (physDim_replace2 pre post a b a' b' h1 h2) (fun t ht => ((wellShaped_iff t).mp (hall t ht).1).1)
    (fun cfg hcfg => amp_replace2 n hn pre post a b a' b' hws hf hθ cfg hcfg)

/-! ### the SVD centre shift (`twoSiteSVD`, `shiftRightSVD`) -/

/-- `diag(s) @ v` on lists (row `k` of `v` scaled by `s[k]`; the shorter of the two lists decides) -/
def diagMulRows (s : List Rat) (v : Mat) : Mat :=
  List.zipWith (fun sk vrow => vrow.map (fun x => CRat.ofRat sk * x)) s v

/-- the slice `[:, t·right : (t+1)·right]` of a matrix -/
def colBlock (right t : Nat) (m : Mat) : Mat := m.map (fun row => (row.drop (t * right)).take right)

theorem twoSiteSVD_eq (a b : Tensor) (u : Mat) (s : List Rat) (v : Mat) (keep : Nat) :
    twoSiteSVD a b u s v keep =
      (reshapeRows (leftDim a) (u.map (fun row => row.take keep)),
       (List.range (physDim b)).map (fun t => colBlock (rightDim b) t ((diagMulRows s v).take keep))) := rfl

/-- shapes of the SVD factors handed to `twoSiteSVD` (decidable): `u` is `(phys_i·left) × k`, `s` has `k` entries, `v` is
    `k × (phys_j·right)`, and `1 ≤ keep ≤ k`, `keep ≤ n` — what `robust_svd(theta, full_matrices=False)` returns and what
    the rank rule selects -/
def svdShaped (n : Nat) (a b : Tensor) (u : Mat) (s : List Rat) (v : Mat) (keep : Nat) : Bool :=
  decide (1 ≤ keep) && decide (keep ≤ s.length) && decide (keep ≤ n) && u.length == a.length * leftDim a &&
    u.all (fun row => row.length == s.length) && v.length == s.length &&
    v.all (fun row => row.length == b.length * rightDim b)

theorem svdShaped_iff (n : Nat) (a b : Tensor) (u : Mat) (s : List Rat) (v : Mat) (keep : Nat) :
    svdShaped n a b u s v keep = true ↔ 1 ≤ keep ∧ keep ≤ s.length ∧ keep ≤ n ∧ u.length = a.length * leftDim a ∧
      (∀ row ∈ u, row.length = s.length) ∧ v.length = s.length ∧ ∀ row ∈ v, row.length = b.length * rightDim b := by
  simp [svdShaped, List.all_eq_true, and_assoc]

theorem rows_diagMulRows (c : Nat) : ∀ (s : List Rat) (v : Mat), (∀ row ∈ v, row.length = c) →
    ∀ row ∈ diagMulRows s v, row.length = c
  | [], _, _, row, h => by simp [diagMulRows] at h
  | _ :: _, [], _, row, h => by simp [diagMulRows] at h
  | x :: s, r :: v, hv, row, h => by
    simp only [diagMulRows, List.zipWith_cons_cons, List.mem_cons] at h
    rcases h with rfl | h
    · simpa using hv r (by simp)
    · exact rows_diagMulRows c s v (fun row' h' => hv row' (by simp [h'])) row h

theorem length_diagMulRows (s : List Rat) (v : Mat) : (diagMulRows s v).length = min s.length v.length := by
  simp [diagMulRows]

theorem ncols_of_rows (m : Mat) (c : Nat) (hne : 1 ≤ m.length) (h : ∀ row ∈ m, row.length = c) : ncols m = c := by
  match m, hne with
  | r :: m', _ => simpa [ncols] using h r (by simp)

theorem length_chunk_full {α} (l : List α) (n p i : Nat) (hl : l.length = p * n) (hi : i < p) :
    ((l.drop (i * n)).take n).length = n := by
  have : (i + 1) * n ≤ p * n := Nat.mul_le_mul_right n hi
  rw [Nat.succ_mul] at this
  rw [List.length_take, List.length_drop, hl]
  omega

/-- the new pair of the executable SVD shift has the frame of the old pair, with inner bond `keep` -/
theorem twoSiteSVD_frame (n : Nat) (a b : Tensor) (u : Mat) (s : List Rat) (v : Mat) (keep : Nat)
    (ha : wellShaped a = true) (hb : wellShaped b = true) (hsh : svdShaped n a b u s v keep = true) :
    sameFrame n a b (twoSiteSVD a b u s v keep).1 (twoSiteSVD a b u s v keep).2 = true ∧
      rightDim (twoSiteSVD a b u s v keep).1 = keep ∧ leftDim (twoSiteSVD a b u s v keep).2 = keep := by
  obtain ⟨hk1, hks, hkn, hul, hur, hvl, hvr⟩ := (svdShaped_iff n a b u s v keep).mp hsh
  obtain ⟨ha1, hal, _, _⟩ := (wellShaped_iff a).mp ha
  obtain ⟨hb1, _, hbr, _⟩ := (wellShaped_iff b).mp hb
  rw [twoSiteSVD_eq]
  simp only
  -- left tensor
  have hu'len : (u.map (fun row => row.take keep)).length = a.length * leftDim a := by simpa using hul
  have hAlen : (reshapeRows (leftDim a) (u.map (fun row => row.take keep))).length = a.length := by
    rw [reshapeRows, length_chunks, hu'len]; exact Nat.mul_div_cancel _ hal
  have hA := wellShaped_of_shape (reshapeRows (leftDim a) (u.map (fun row => row.take keep))) (leftDim a) keep
    (by omega) hal hk1 (fun m hm => by
      obtain ⟨i, hi, rfl⟩ := List.getElem_of_mem hm
      have hi' : i < a.length := by omega
      refine ⟨?_, fun row hrow => ?_⟩
      · simp only [reshapeRows, chunks, List.getElem_map, List.getElem_range]
        exact length_chunk_full _ _ _ _ hu'len hi'
      · have := mem_chunks _ _ _ (List.getElem_mem hi) row hrow
        simp only [List.mem_map] at this
        obtain ⟨r0, hr0, rfl⟩ := this
        rw [List.length_take, hur r0 hr0]; omega)
  -- right tensor
  have hsvlen : ((diagMulRows s v).take keep).length = keep := by
    rw [List.length_take, length_diagMulRows, hvl]; omega
  have hsvrows : ∀ row ∈ (diagMulRows s v).take keep, row.length = b.length * rightDim b := fun row hrow =>
    rows_diagMulRows _ s v hvr row (List.mem_of_mem_take hrow)
  have hB := wellShaped_of_shape ((List.range (physDim b)).map
      (fun t => colBlock (rightDim b) t ((diagMulRows s v).take keep))) keep (rightDim b)
    (by simpa [physDim] using hb1) hk1 hbr (fun m hm => by
      simp only [List.mem_map, List.mem_range] at hm
      obtain ⟨t, ht, rfl⟩ := hm
      refine ⟨by rw [colBlock, List.length_map]; exact hsvlen, fun row hrow => ?_⟩
      simp only [colBlock, List.mem_map] at hrow
      obtain ⟨r0, hr0, rfl⟩ := hrow
      exact length_chunk_full r0 _ _ _ (hsvrows r0 hr0) ht)
  refine ⟨(sameFrame_iff _ _ _ _ _).mpr ⟨hA.1, hB.1, hAlen, by simp [physDim], hA.2.1, hB.2.2, ?_, ?_⟩, hA.2.2, hB.2.1⟩
  · rw [hA.2.2, hB.2.1]
  · rw [hA.2.2]; exact hkn

theorem col_colBlock (right t : Nat) (m : Mat) (j : Nat) (hj : j < right) :
    col (colBlock right t m) j = col m (t * right + j) := by
  simp only [col, colBlock, List.map_map]
  apply List.map_congr_left
  intro row _
  simp [hj]

/-- **the merged matrix of the new pair is the truncated SVD product** `u[:, :keep] · (diag(s) v)[:keep, :]` — for every
    `keep` the rank rule can select. -/
theorem thetaMat_twoSiteSVD (n : Nat) (a b : Tensor) (u : Mat) (s : List Rat) (v : Mat) (keep : Nat)
    (ha : wellShaped a = true) (_hb : wellShaped b = true) (hsh : svdShaped n a b u s v keep = true) :
    thetaMat (twoSiteSVD a b u s v keep).1 (twoSiteSVD a b u s v keep).2 =
      matMul (u.map (fun row => row.take keep)) ((diagMulRows s v).take keep) := by
  obtain ⟨hk1, hks, hkn, hul, hur, hvl, hvr⟩ := (svdShaped_iff n a b u s v keep).mp hsh
  obtain ⟨_, hal, _, _⟩ := (wellShaped_iff a).mp ha
  have hsvlen : ((diagMulRows s v).take keep).length = keep := by
    rw [List.length_take, length_diagMulRows, hvl]; omega
  have hsvrows : ∀ row ∈ (diagMulRows s v).take keep, row.length = b.length * rightDim b := fun row hrow =>
    rows_diagMulRows _ s v hvr row (List.mem_of_mem_take hrow)
  have hnc : ncols ((diagMulRows s v).take keep) = physDim b * rightDim b :=
    ncols_of_rows _ _ (by omega) hsvrows
  rw [twoSiteSVD_eq, thetaMat_eq]
  simp only
  rw [show flattenRows (reshapeRows (leftDim a) (u.map (fun row => row.take keep))) = u.map (fun row => row.take keep) from
    flatten_chunks (leftDim a) hal a.length _ (by simpa using hul)]
  unfold matMul
  apply List.map_congr_left
  intro arow _
  unfold thetaRow
  rw [List.map_map, hnc, ← flatten_range_blocks (rightDim b) (fun j => dot arow (col ((diagMulRows s v).take keep) j))]
  congr 1
  apply List.map_congr_left
  intro t ht
  rw [List.mem_range] at ht
  simp only [Function.comp, vecMat]
  have hncb : ncols (colBlock (rightDim b) t ((diagMulRows s v).take keep)) = rightDim b :=
    ncols_of_rows _ _ (by rw [colBlock, List.length_map, hsvlen]; exact hk1) (fun row hrow => by
      simp only [colBlock, List.mem_map] at hrow
      obtain ⟨r0, hr0, rfl⟩ := hrow
      exact length_chunk_full r0 _ _ _ (hsvrows r0 hr0) ht)
  rw [hncb]
  apply List.map_congr_left
  intro j hj
  rw [List.mem_range] at hj
  rw [col_colBlock _ _ _ _ hj]

/-- nothing discarded: `u[:, :k] = u`, `(diag(s) v)[:k] = diag(s) v` -/
theorem truncated_full (u : Mat) (s : List Rat) (v : Mat) (keep : Nat) (hur : ∀ row ∈ u, row.length = s.length)
    (hk : s.length ≤ keep) :
    matMul (u.map (fun row => row.take keep)) ((diagMulRows s v).take keep) = matMul u (diagMulRows s v) := by
  have h1 : u.map (fun row => row.take keep) = u := by
    conv_rhs => rw [← List.map_id u]
    apply List.map_congr_left
    intro row hrow
    exact List.take_of_length_le (by rw [hur row hrow]; exact hk)
  have h2 : (diagMulRows s v).take keep = diagMulRows s v :=
    List.take_of_length_le (by rw [length_diagMulRows]; omega)
  rw [h1, h2]

/-- **untruncated SVD shift**: with the SVD spec `u · diag(s) · v = thetaMat a b` entrywise and `keep = len(s)`, the new
    pair has the merged matrix of the old pair -/
theorem thetaMat_twoSiteSVD_full (n : Nat) (a b : Tensor) (u : Mat) (s : List Rat) (v : Mat)
    (ha : wellShaped a = true) (hb : wellShaped b = true) (hsh : svdShaped n a b u s v s.length = true)
    (hspec : matMul u (diagMulRows s v) = thetaMat a b) :
    thetaMat (twoSiteSVD a b u s v s.length).1 (twoSiteSVD a b u s v s.length).2 = thetaMat a b := by
  rw [thetaMat_twoSiteSVD n a b u s v s.length ha hb hsh,
    truncated_full u s v s.length ((svdShaped_iff n a b u s v s.length).mp hsh).2.2.2.2.1 (le_refl _), hspec]

/-! ### the QR shift at the last site (`shiftRightQRLast`: `R` is thrown away) -/

theorem toMatrixChain_append1 (n : Nat) (pre : List Tensor) (a : Tensor) :
    toMatrixChain n (pre ++ [a]) = toMatrixChain n pre ++ [toSite n a] := by
  simp [toMatrixChain]

/-- **last-site QR on the list model**: the chain stays well-shaped, and the old chain product is the new one times `R` -/
theorem qrLast_chain (n : Nat) (pre : List Tensor) (a : Tensor) (q r : Mat)
    (hws : wellShapedChain n (pre ++ [a]) = true) (hqs : qrShaped n a q r = true) (hr1 : r.length = 1)
    (hqr : matMul q r = flattenRows a) (cfg : List Nat) (hcfg : cfgOK (pre ++ [a]) cfg = true) :
    wellShapedChain n (pre ++ [shiftRightQRLast a q]) = true ∧ cfgOK (pre ++ [shiftRightQRLast a q]) cfg = true ∧
      Alg.chain (toMatrixChain n (pre ++ [a])) cfg =
        Alg.chain (toMatrixChain n (pre ++ [shiftRightQRLast a q])) cfg * toMat n r := by
  obtain ⟨hall, hbm, hhead, hlast⟩ := (wellShapedChain_iff n _).mp hws
  obtain ⟨hk1, hkn, hq, hr⟩ := (qrShaped_iff n a q r).mp hqs
  have ha := hall a (by simp)
  obtain ⟨hQ, hQl, hQr, hQn⟩ := shiftRightQR_shape_left a a q r ha.1 hqr hk1 hq
  change wellShaped (shiftRightQRLast a q) = true at hQ
  change leftDim (shiftRightQRLast a q) = leftDim a at hQl
  change rightDim (shiftRightQRLast a q) = r.length at hQr
  change (shiftRightQRLast a q).length = a.length at hQn
  have hA : ∀ s, toSite n a s = toSite n (shiftRightQRLast a q) s * toMat n r := fun s =>
    shiftRightQR_bridge_left n a a q r ha.1 hqr (fun row hrow => by rw [hq row hrow]; exact hkn)
      (fun row hrow => by
        rw [hr row hrow]
        cases r with
        | nil => simp at hrow
        | cons r0 r' => simp [ncols, hr r0 (by simp)]) s
  refine ⟨(wellShapedChain_iff n _).mpr ⟨?_, ?_, ?_, ?_⟩, ?_, ?_⟩
  · intro t ht
    simp only [List.mem_append, List.mem_cons, List.not_mem_nil, or_false] at ht
    rcases ht with ht | rfl
    · exact hall t (by simp [ht])
    · exact ⟨hQ, by rw [hQl]; exact ha.2.1, by omega⟩
  · rw [bondsMatch_iff, List.isChain_append] at hbm ⊢
    obtain ⟨h1, _, h3⟩ := hbm
    refine ⟨h1, by simp, ?_⟩
    intro x hx y hy
    simp only [List.head?_cons, Option.mem_def, Option.some.injEq] at hy
    subst hy
    rw [hQl]
    exact h3 x hx a (by simp)
  · have e : ∀ x : Tensor, (pre ++ [x]).headD [] = if pre = [] then x else pre.headD [] := by
      intro x; cases pre <;> simp
    rw [e] at hhead ⊢
    by_cases hp : pre = []
    · simp only [hp, if_true] at hhead ⊢; rw [hQl]; exact hhead
    · simpa only [hp, if_false] using hhead
  · rw [lastRight_append _ _ (by simp)]
    simp [lastRight, hQr, hr1]
  · rw [← hcfg]
    apply cfgOK_congr
    simp [hQn]
  · rw [toMatrixChain_append1, toMatrixChain_append1]
    refine Alg.last_site_factor (toMatrixChain n pre) (toSite n a) (toSite n (shiftRightQRLast a q)) (toMat n r) hA cfg ?_
    have := cfgOK_length _ _ hcfg
    simpa using this

/-- the `(0,0)` entry of `M · R` for a one-row `R` is `M₀₀ · r₀₀` -/
theorem mul_oneRow_entry (n : Nat) (hn : 0 < n) (M : Matrix (Fin n) (Fin n) CRat) (r : Mat) (hr1 : r.length = 1) :
    (M * toMat n r) ⟨0, hn⟩ ⟨0, hn⟩ = M ⟨0, hn⟩ ⟨0, hn⟩ * entry r 0 0 := by
  rw [Matrix.mul_apply]
  refine (Finset.sum_eq_single (⟨0, hn⟩ : Fin n) (fun j _ hj => ?_) (fun h => absurd (Finset.mem_univ _) h)).trans rfl
  have : 1 ≤ j.val := by
    rcases j with ⟨j, hjn⟩
    cases j with
    | zero => exact absurd rfl hj
    | succ j => simp
  rw [toMat_apply, entry_of_le_rows r _ _ (by omega), mul_zero]

/-! ### the Gram tests of `check_canonical_form` -/

theorem entry_conjMat (m : Mat) (i j : Nat) : entry (conjMat m) i j = CRat.conj (entry m i j) := by
  simp only [entry, conjMat, List.getD_eq_getElem?_getD, List.getElem?_map]
  cases m[i]? with
  | none => rfl
  | some row =>
    simp only [Option.map_some, Option.getD_some, List.getElem?_map]
    cases row[j]? <;> rfl

theorem getD_transpose (m : Mat) (k : Nat) (hk : k < ncols m) : (transpose m).getD k [] = col m k := by
  unfold transpose
  rw [getD_of_lt _ [] (by simpa using hk)]
  simp

theorem length_transpose (m : Mat) : (transpose m).length = ncols m := by simp [transpose]

/-- entries of `xᵀ · y` -/
theorem entry_transpose_matMul (x y : Mat) (N k l : Nat) (hN : min x.length y.length ≤ N) :
    entry (matMul (transpose x) y) k l =
      if k < ncols x ∧ l < ncols y then ∑ i ∈ Finset.range N, entry x i k * entry y i l else 0 := by
  rw [entry_matMul, length_transpose]
  split
  · next h =>
    rw [getD_transpose x k h.1, dot_eq_sum _ _ N (by simpa using hN)]
    refine Finset.sum_congr rfl fun i _ => ?_
    rw [col_getD, col_getD]
  · rfl

theorem sum_range_mul {M : Type*} [AddCommMonoid M] (l : Nat) (f : Nat → M) : ∀ p : Nat,
    ∑ i ∈ Finset.range (p * l), f i = ∑ s ∈ Finset.range p, ∑ j ∈ Finset.range l, f (s * l + j)
  | 0 => by simp
  | p + 1 => by
    rw [Nat.succ_mul, Finset.sum_range_add, sum_range_mul l f p, Finset.sum_range_succ]

theorem entry_flattenRows (t : Tensor) (ht : wellShaped t = true) (s j k : Nat) (hj : j < leftDim t) :
    entry (flattenRows t) (s * leftDim t + j) k = entry (t.getD s []) j k := by
  rw [entry_eq, getD_flattenRows t ht s j hj]; rfl

theorem conjMat_length (m : Mat) : (conjMat m).length = m.length := by simp [conjMat]

theorem ncols_conjMat (m : Mat) : ncols (conjMat m) = ncols m := by
  cases m <;> simp [conjMat, ncols]

theorem ncols_flattenRows (t : Tensor) (ht : wellShaped t = true) : ncols (flattenRows t) = rightDim t := by
  obtain ⟨h1, hl, _, _⟩ := (wellShaped_iff t).mp ht
  refine ncols_of_rows _ _ ?_ (rows_flattenRows t ht)
  rw [length_flattenRows t ht]
  exact Nat.mul_pos h1 hl

/-- **entries of `gramLeft`**: `Σ_s Σ_j conj(T[s][j][k]) · T[s][j][l]` = `(Σ_s T_sᴴ T_s)[k][l]` -/
theorem entry_gramLeft (t : Tensor) (ht : wellShaped t = true) (k l : Nat) :
    entry (gramLeft t) k l =
      if k < rightDim t ∧ l < rightDim t then
        ∑ s ∈ Finset.range t.length, ∑ j ∈ Finset.range (leftDim t),
          CRat.conj (entry (t.getD s []) j k) * entry (t.getD s []) j l
      else 0 := by
  unfold gramLeft
  simp only
  rw [entry_transpose_matMul _ _ (t.length * leftDim t) k l (by rw [conjMat_length, length_flattenRows t ht]; simp),
    ncols_conjMat, ncols_flattenRows t ht]
  split
  · rw [sum_range_mul]
    refine Finset.sum_congr rfl fun s _ => Finset.sum_congr rfl fun j hj => ?_
    rw [Finset.mem_range] at hj
    rw [entry_conjMat, entry_flattenRows t ht s j k hj, entry_flattenRows t ht s j l hj]
  · rfl

theorem getD_flipTensor (t : Tensor) (s : Nat) : (flipTensor t).getD s [] = transpose (t.getD s []) := by
  by_cases hs : s < t.length
  · rw [getD_of_lt _ [] (by simpa [flipTensor] using hs : s < (flipTensor t).length), getD_of_lt _ [] hs]
    simp [flipTensor]
  · rw [getD_nil_of_le _ _ (by simpa [flipTensor] using hs), getD_nil_of_le _ _ (by omega), transpose_nil]

/-- **entries of `gramRight`**: `Σ_s Σ_r T[s][j][r] · conj(T[s][l][r])` = `(Σ_s T_s T_sᴴ)[j][l]` -/
theorem entry_gramRight (t : Tensor) (ht : wellShaped t = true) (j l : Nat) :
    entry (gramRight t) j l =
      if j < leftDim t ∧ l < leftDim t then
        ∑ s ∈ Finset.range t.length, ∑ r ∈ Finset.range (rightDim t),
          entry (t.getD s []) j r * CRat.conj (entry (t.getD s []) l r)
      else 0 := by
  obtain ⟨hf, hfl, hfr⟩ := flipTensor_shape t ht
  have hlen : (flipTensor t).length = t.length := by simp [flipTensor]
  unfold gramRight
  simp only
  rw [entry_transpose_matMul _ _ (t.length * rightDim t) j l
      (by rw [conjMat_length, length_flattenRows _ hf, hlen, hfl]; simp),
    ncols_conjMat, ncols_flattenRows _ hf, hfr]
  split
  · rw [sum_range_mul]
    refine Finset.sum_congr rfl fun s hs => Finset.sum_congr rfl fun r hr => ?_
    rw [Finset.mem_range] at hr hs
    have hm := getD_mem t hs
    have hnc : ncols (t.getD s []) = rightDim t := ncols_of_wellShaped ht hm
    have e : ∀ x, entry (flattenRows (flipTensor t)) (s * rightDim t + r) x = entry (t.getD s []) x r := by
      intro x
      have := entry_flattenRows (flipTensor t) hf s r x (by rw [hfl]; exact hr)
      rw [hfl] at this
      rw [this, getD_flipTensor, entry_transpose, hnc, if_pos hr]
    rw [entry_conjMat, e, e]
  · rfl

theorem entry_identity (n i j : Nat) :
    entry (identity n) i j = if i < n ∧ j < n then (if i = j then 1 else 0) else 0 := by
  by_cases hi : i < n
  · rw [entry_of_lt _ _ _ (by simpa [identity] using hi)]
    by_cases hj : j < n
    · simp [identity, hi, hj, List.getD_eq_getElem?_getD]
    · simp [identity, hi, hj, List.getD_eq_getElem?_getD]
  · rw [entry_of_le_rows _ _ _ (by simpa [identity] using hi)]
    simp [hi]

/-- two list matrices of the same rectangular shape with the same entries are equal -/
theorem mat_ext (m m' : Mat) (r c : Nat) (h1 : m.length = r) (h1' : m'.length = r) (h2 : ∀ row ∈ m, row.length = c)
    (h2' : ∀ row ∈ m', row.length = c) (h : ∀ i, i < r → ∀ j, j < c → entry m i j = entry m' i j) : m = m' := by
  apply List.ext_getElem (by rw [h1, h1'])
  intro i hi hi'
  have hl := h2 _ (List.getElem_mem hi)
  have hl' := h2' _ (List.getElem_mem hi')
  apply List.ext_getElem (by rw [hl, hl'])
  intro j hj hj'
  have := h i (by omega) j (by omega)
  rw [entry_of_lt m i j hi, entry_of_lt m' i j hi', getD_of_lt _ 0 hj, getD_of_lt _ 0 hj'] at this
  exact this

theorem gramLeft_shape (t : Tensor) (ht : wellShaped t = true) :
    (gramLeft t).length = rightDim t ∧ ∀ row ∈ gramLeft t, row.length = rightDim t := by
  unfold gramLeft
  simp only
  refine ⟨by rw [matMul_length, length_transpose, ncols_conjMat, ncols_flattenRows t ht], fun row hrow => ?_⟩
  rw [matMul_row_length _ _ row hrow, ncols_flattenRows t ht]

theorem gramRight_shape (t : Tensor) (ht : wellShaped t = true) :
    (gramRight t).length = leftDim t ∧ ∀ row ∈ gramRight t, row.length = leftDim t := by
  obtain ⟨hf, _, hfr⟩ := flipTensor_shape t ht
  unfold gramRight
  simp only
  refine ⟨by rw [matMul_length, length_transpose, ncols_flattenRows _ hf, hfr], fun row hrow => ?_⟩
  rw [matMul_row_length _ _ row hrow, ncols_conjMat, ncols_flattenRows _ hf, hfr]

theorem identity_shape (n : Nat) : (identity n).length = n ∧ ∀ row ∈ identity n, row.length = n := by
  refine ⟨by simp [identity], fun row hrow => ?_⟩
  simp only [identity, List.mem_map, List.mem_range] at hrow
  obtain ⟨i, _, rfl⟩ := hrow
  simp

/-- the left test of `check_canonical_form`, entry by entry -/
theorem isLeftIso_iff_entries (t : Tensor) (ht : wellShaped t = true) :
    isLeftIso t = true ↔ ∀ k, k < rightDim t → ∀ l, l < rightDim t →
      entry (gramLeft t) k l = if k = l then 1 else 0 := by
  unfold isLeftIso
  rw [beq_iff_eq]
  constructor
  · intro h k hk l hl
    rw [h, entry_identity, if_pos (And.intro hk hl)]
  · intro h
    refine mat_ext _ _ (rightDim t) (rightDim t) (gramLeft_shape t ht).1 (identity_shape _).1 (gramLeft_shape t ht).2
      (identity_shape _).2 (fun k hk l hl => ?_)
    rw [h k hk l hl, entry_identity, if_pos (And.intro hk hl)]

theorem isRightIso_iff_entries (t : Tensor) (ht : wellShaped t = true) :
    isRightIso t = true ↔ ∀ k, k < leftDim t → ∀ l, l < leftDim t →
      entry (gramRight t) k l = if k = l then 1 else 0 := by
  unfold isRightIso
  rw [beq_iff_eq]
  constructor
  · intro h k hk l hl
    rw [h, entry_identity, if_pos (And.intro hk hl)]
  · intro h
    refine mat_ext _ _ (leftDim t) (leftDim t) (gramRight_shape t ht).1 (identity_shape _).1 (gramRight_shape t ht).2
      (identity_shape _).2 (fun k hk l hl => ?_)
    rw [h k hk l hl, entry_identity, if_pos (And.intro hk hl)]

/-! ### Matrix reading of the Gram tests -/

theorem toMat_gramLeft (n : Nat) (t : Tensor) (ht : wellShaped t = true) (hl : leftDim t ≤ n) :
    toMat n (gramLeft t) = ∑ s : Fin t.length, (toSite n t s.val)ᴴ * toSite n t s.val := by
  obtain ⟨_, _, _, hall⟩ := (wellShaped_iff t).mp ht
  ext k l
  rw [toMat_apply, entry_gramLeft t ht, Matrix.sum_apply]
  simp only [Matrix.mul_apply, Matrix.conjTranspose_apply, toSite_eq, toMat_apply, CRat.star_def]
  rw [Fin.sum_univ_eq_sum_range
    (fun s => ∑ j : Fin n, CRat.conj (entry (t.getD s []) j.val k.val) * entry (t.getD s []) j.val l.val) t.length]
  have hin : ∀ s, s ∈ Finset.range t.length →
      ∑ j : Fin n, CRat.conj (entry (t.getD s []) j.val k.val) * entry (t.getD s []) j.val l.val =
        ∑ j ∈ Finset.range (leftDim t), CRat.conj (entry (t.getD s []) j k.val) * entry (t.getD s []) j l.val := by
    intro s hs
    rw [Finset.mem_range] at hs
    rw [Fin.sum_univ_eq_sum_range (fun j => CRat.conj (entry (t.getD s []) j k.val) * entry (t.getD s []) j l.val) n]
    symm
    refine Finset.sum_subset (Finset.range_mono hl) (fun j _ hj => ?_)
    rw [Finset.mem_range] at hj
    rw [entry_of_le_rows (t.getD s []) j l.val (by rw [(hall _ (getD_mem t hs)).1]; omega), mul_zero]
  rw [Finset.sum_congr rfl hin]
  split
  · rfl
  · next h =>
    symm
    refine Finset.sum_eq_zero fun s hs => Finset.sum_eq_zero fun j _ => ?_
    rw [Finset.mem_range] at hs
    have hm := getD_mem t hs
    have hrows := rows_le_of_wellShaped ht _ hm
    have hnc := ncols_of_wellShaped ht hm
    by_cases hk : k.val < rightDim t
    · have hl' : ¬ l.val < rightDim t := fun h' => h ⟨hk, h'⟩
      rw [entry_of_le_cols _ hrows j l.val (by rw [hnc]; omega), mul_zero]
    · rw [entry_of_le_cols _ hrows j k.val (by rw [hnc]; omega)]
      exact zero_mul _

theorem toMat_gramRight (n : Nat) (t : Tensor) (ht : wellShaped t = true) (hr : rightDim t ≤ n) :
    toMat n (gramRight t) = ∑ s : Fin t.length, toSite n t s.val * (toSite n t s.val)ᴴ := by
  obtain ⟨_, _, _, hall⟩ := (wellShaped_iff t).mp ht
  ext k l
  rw [toMat_apply, entry_gramRight t ht, Matrix.sum_apply]
  simp only [Matrix.mul_apply, Matrix.conjTranspose_apply, toSite_eq, toMat_apply, CRat.star_def]
  rw [Fin.sum_univ_eq_sum_range
    (fun s => ∑ j : Fin n, entry (t.getD s []) k.val j.val * CRat.conj (entry (t.getD s []) l.val j.val)) t.length]
  have hin : ∀ s, s ∈ Finset.range t.length →
      ∑ j : Fin n, entry (t.getD s []) k.val j.val * CRat.conj (entry (t.getD s []) l.val j.val) =
        ∑ j ∈ Finset.range (rightDim t), entry (t.getD s []) k.val j * CRat.conj (entry (t.getD s []) l.val j) := by
    intro s hs
    rw [Finset.mem_range] at hs
    rw [Fin.sum_univ_eq_sum_range (fun j => entry (t.getD s []) k.val j * CRat.conj (entry (t.getD s []) l.val j)) n]
    symm
    refine Finset.sum_subset (Finset.range_mono hr) (fun j _ hj => ?_)
    rw [Finset.mem_range] at hj
    have hm := getD_mem t hs
    rw [entry_of_le_cols _ (rows_le_of_wellShaped ht _ hm) k.val j (by rw [ncols_of_wellShaped ht hm]; omega)]
    exact zero_mul _
  rw [Finset.sum_congr rfl hin]
  split
  · rfl
  · next h =>
    symm
    refine Finset.sum_eq_zero fun s hs => Finset.sum_eq_zero fun j _ => ?_
    rw [Finset.mem_range] at hs
    have hlen := (hall _ (getD_mem t hs)).1
    by_cases hk : k.val < leftDim t
    · have hl' : ¬ l.val < leftDim t := fun h' => h ⟨hk, h'⟩
      rw [entry_of_le_rows _ l.val j (by rw [hlen]; omega)]
      exact mul_zero _
    · rw [entry_of_le_rows _ k.val j (by rw [hlen]; omega)]
      exact zero_mul _

theorem toMat_identity (n : Nat) : toMat n (identity n) = 1 := by
  ext i j
  rw [toMat_apply, entry_identity, if_pos (And.intro i.isLt j.isLt), Matrix.one_apply]
  simp [Fin.ext_iff]

/-- **`isLeftIso` is the Matrix isometry condition** `Σ_s T_sᴴ T_s = 1` on the right bond (read in `Fin n`, the identity
    of the `rightDim × rightDim` block) -/
theorem isLeftIso_iff_matrix (n : Nat) (t : Tensor) (ht : wellShaped t = true) (hl : leftDim t ≤ n)
    (hr : rightDim t ≤ n) :
    isLeftIso t = true ↔
      ∑ s : Fin t.length, (toSite n t s.val)ᴴ * toSite n t s.val = toMat n (identity (rightDim t)) := by
  rw [← toMat_gramLeft n t ht hl]
  constructor
  · intro h
    unfold isLeftIso at h
    rw [beq_iff_eq] at h
    rw [h]
  · intro h
    refine (isLeftIso_iff_entries t ht).mpr (fun k hk l hl' => ?_)
    have := congrFun (congrFun h ⟨k, by omega⟩) ⟨l, by omega⟩
    rw [toMat_apply, toMat_apply, entry_identity, if_pos (And.intro hk hl')] at this
    exact this

theorem isRightIso_iff_matrix (n : Nat) (t : Tensor) (ht : wellShaped t = true) (hl : leftDim t ≤ n)
    (hr : rightDim t ≤ n) :
    isRightIso t = true ↔
      ∑ s : Fin t.length, toSite n t s.val * (toSite n t s.val)ᴴ = toMat n (identity (leftDim t)) := by
  rw [← toMat_gramRight n t ht hr]
  constructor
  · intro h
    unfold isRightIso at h
    rw [beq_iff_eq] at h
    rw [h]
  · intro h
    refine (isRightIso_iff_entries t ht).mpr (fun k hk l hl' => ?_)
    have := congrFun (congrFun h ⟨k, by omega⟩) ⟨l, by omega⟩
    rw [toMat_apply, toMat_apply, entry_identity, if_pos (And.intro hk hl')] at this
    exact this

/-- reshaping `Q` to `(phys, left, k)` and flattening again is the identity: the Gram matrix of the new site is `QᴴQ` -/
theorem gramLeft_reshapeRows (left p : Nat) (q : Mat) (hl : 0 < left) (hq : q.length = p * left) :
    gramLeft (reshapeRows left q) = matMul (transpose (conjMat q)) q := by
  unfold gramLeft
  simp only
  rw [show flattenRows (reshapeRows left q) = q from flatten_chunks left hl p q hq]

/-- **after the executable QR shift the new site passes the left test** whenever `QᴴQ = 1` -/
theorem isLeftIso_shiftRightQR (a b : Tensor) (q r : Mat) (ha : wellShaped a = true) (hqr : matMul q r = flattenRows a)
    (hk : 1 ≤ r.length) (hq : ∀ row ∈ q, row.length = r.length)
    (hiso : matMul (transpose (conjMat q)) q = identity r.length) : isLeftIso (shiftRightQR a b q r).1 = true := by
  obtain ⟨_, hal, _, _⟩ := (wellShaped_iff a).mp ha
  have hql : q.length = a.length * leftDim a := by
    rw [← length_flattenRows a ha, ← hqr, matMul_length]
  obtain ⟨_, _, hQr, _⟩ := shiftRightQR_shape_left a b q r ha hqr hk hq
  unfold isLeftIso
  rw [beq_iff_eq, hQr]
  show gramLeft (reshapeRows (leftDim a) q) = identity r.length
  rw [gramLeft_reshapeRows (leftDim a) a.length q hal hql, hiso]

/-! ### `truncateBonds`: every bond exactly once -/

theorem bondsOf_append (len : Nat) : ∀ (e1 e2 : List Ev) (f : Bool),
    bondsOf len f (e1 ++ e2) = bondsOf len f e1 ++ bondsOf len (if (e1.filter (· = Ev.flip)).length % 2 = 1 then !f else f) e2
  | [], e2, f => by simp [bondsOf]
  | e :: e1, e2, f => by
    cases e with
    | flip =>
      simp only [List.cons_append, bondsOf, bondsOf_append len e1 e2 (!f), List.filter_cons, decide_true, if_true,
        List.length_cons]
      congr 2
      by_cases h : (e1.filter (· = Ev.flip)).length % 2 = 1
      · have : ((e1.filter (· = Ev.flip)).length + 1) % 2 ≠ 1 := by omega
        simp [h, this]
      · have : ((e1.filter (· = Ev.flip)).length + 1) % 2 = 1 := by omega
        simp [h, this]
    | qr i => simp [bondsOf, bondsOf_append len e1 e2 f]
    | qrDrop i => simp [bondsOf, bondsOf_append len e1 e2 f]
    | svd i => simp [bondsOf, bondsOf_append len e1 e2 f]
    | svdT i => simp [bondsOf, bondsOf_append len e1 e2 f]

theorem bondsOf_svdT (len : Nat) (f : Bool) (l : List Nat) : bondsOf len f (l.map Ev.svdT) = l.map (bondAt len f) := by
  induction l with
  | nil => rfl
  | cons i l ih => simp [bondsOf, ih]

theorem filter_flip_svdT (l : List Nat) : (l.map Ev.svdT).filter (· = Ev.flip) = [] := by
  induction l with
  | nil => rfl
  | cons i l ih => simp [ih]

/-- the bonds of `truncate`, written out: `0, …, c-1`, then `len-2, len-3, …, c` -/
theorem truncateBonds_eq (len c : Nat) (h1 : len ≠ 1) :
    truncateBonds len c = List.range c ++ (List.range (len - 1 - c)).map (fun i => len - 2 - i) := by
  unfold truncateBonds truncateEv
  rw [if_neg h1, List.append_assoc, List.append_assoc, bondsOf_append, bondsOf_svdT, filter_flip_svdT]
  simp only [List.length_nil, Nat.zero_mod, Nat.zero_ne_one, if_false, List.cons_append, List.nil_append, bondsOf]
  rw [bondsOf_append, bondsOf_svdT, filter_flip_svdT]
  simp only [bondsOf, List.append_nil, Bool.not_false]
  rw [show bondAt len false = id from by funext i; simp [bondAt],
    show bondAt len true = (fun i => len - 2 - i) from by funext i; simp [bondAt], List.map_id]

theorem map_sub_eq_reverse_shift (c m : Nat) :
    (List.range m).map (fun i => c + m - 1 - i) = ((List.range m).map (fun i => c + i)).reverse := by
  apply List.ext_getElem (by simp)
  intro i h1 h2
  simp only [List.length_map, List.length_range] at h1
  simp only [List.getElem_map, List.getElem_range, List.getElem_reverse, List.length_map, List.length_range]
  omega

/-- **`truncate` visits every bond of the chain exactly once** (`c < len`) -/
theorem truncateBonds_perm (len c : Nat) (hc : c < len) : (truncateBonds len c).Perm (List.range (len - 1)) := by
  by_cases h1 : len = 1
  · subst h1
    simp [truncateBonds, truncateEv, bondsOf]
  · rw [truncateBonds_eq len c h1]
    have e : (List.range (len - 1 - c)).map (fun i => len - 2 - i) =
        ((List.range (len - 1 - c)).map (fun i => c + i)).reverse := by
      rw [← map_sub_eq_reverse_shift]
      apply List.map_congr_left
      intro i hi
      rw [List.mem_range] at hi
      omega
    rw [e]
    have : List.range (len - 1) = List.range c ++ (List.range (len - 1 - c)).map (fun i => c + i) := by
      rw [← List.range_add]
      congr 1
      omega
    rw [this]
    exact List.Perm.append_left _ (List.reverse_perm _)

/-! ### `setCanonBonds`: the two sweeps of `set_canonical_form` touch the same bonds in the same order -/

theorem bondsOf_qr (len : Nat) (f : Bool) (l : List Nat) : bondsOf len f (l.map Ev.qr) = l.map (bondAt len f) := by
  induction l with
  | nil => rfl
  | cons i l ih => simp [bondsOf, ih]

theorem bondsOf_svd (len : Nat) (f : Bool) (l : List Nat) : bondsOf len f (l.map Ev.svd) = l.map (bondAt len f) := by
  induction l with
  | nil => rfl
  | cons i l ih => simp [bondsOf, ih]

theorem filter_flip_qr (l : List Nat) : (l.map Ev.qr).filter (· = Ev.flip) = [] := by
  induction l with
  | nil => rfl
  | cons i l ih => simp [ih]

theorem filter_flip_svd (l : List Nat) : (l.map Ev.svd).filter (· = Ev.flip) = [] := by
  induction l with
  | nil => rfl
  | cons i l ih => simp [ih]

theorem flatMap_range_singleton {β} (f : Nat → List β) (g : Nat → β) : ∀ m : Nat, (∀ i, i < m → f i = [g i]) →
    (List.range m).flatMap f = (List.range m).map g
  | 0, _ => by simp
  | m + 1, h => by
    rw [List.range_succ, List.flatMap_append, List.map_append,
      flatMap_range_singleton f g m (fun i hi => h i (by omega))]
    simp [h m (by omega)]

theorem sweepEv_qr (len m : Nat) (hm : m + 1 ≤ len) : sweepEv len (some m) "QR" = (List.range m).map Ev.qr := by
  unfold sweepEv
  simp only
  rw [show min m len = m by omega]
  refine flatMap_range_singleton _ _ m (fun i hi => ?_)
  unfold shiftRightEv
  rw [if_pos (Or.inl rfl), if_pos (by omega)]

theorem sweepEv_svd (len m : Nat) (hm : m + 1 ≤ len) : sweepEv len (some m) "SVD" = (List.range m).map Ev.svd := by
  unfold sweepEv
  simp only
  rw [show min m len = m by omega]
  refine flatMap_range_singleton _ _ m (fun i hi => ?_)
  unfold shiftRightEv
  have h1 : ¬ ("SVD" = "QR" ∨ i + 1 = len) := by
    intro h
    rcases h with h | h
    · exact absurd h (by decide)
    · omega
  rw [if_neg h1, if_pos rfl]

/-- `set_canonical_form(c, "QR" | "SVD")` and `truncate` (centre `c`) run their two-site primitives on the same bonds in
    the same order -/
theorem setCanonBonds_eq (len c : Nat) (dec : String) (hdec : dec = "QR" ∨ dec = "SVD") (hc : c < len) :
    setCanonBonds len c dec = List.range c ++ (List.range (len - 1 - c)).map (fun i => len - 2 - i) := by
  unfold setCanonBonds setCanonEv
  rw [if_pos (by omega)]
  rcases hdec with rfl | rfl
  · rw [sweepEv_qr len c (by omega), sweepEv_qr len (len - 1 - c) (by omega), List.append_assoc, List.append_assoc,
      bondsOf_append, bondsOf_qr, filter_flip_qr]
    simp only [List.length_nil, Nat.zero_mod, Nat.zero_ne_one, if_false, List.cons_append, List.nil_append, bondsOf]
    rw [bondsOf_append, bondsOf_qr, filter_flip_qr]
    simp only [bondsOf, List.append_nil, Bool.not_false]
    rw [show bondAt len false = id from by funext i; simp [bondAt],
      show bondAt len true = (fun i => len - 2 - i) from by funext i; simp [bondAt], List.map_id]
  · rw [sweepEv_svd len c (by omega), sweepEv_svd len (len - 1 - c) (by omega), List.append_assoc, List.append_assoc,
      bondsOf_append, bondsOf_svd, filter_flip_svd]
    simp only [List.length_nil, Nat.zero_mod, Nat.zero_ne_one, if_false, List.cons_append, List.nil_append, bondsOf]
    rw [bondsOf_append, bondsOf_svd, filter_flip_svd]
    simp only [bondsOf, List.append_nil, Bool.not_false]
    rw [show bondAt len false = id from by funext i; simp [bondAt],
      show bondAt len true = (fun i => len - 2 - i) from by funext i; simp [bondAt], List.map_id]

theorem setCanonBonds_eq_truncateBonds (len c : Nat) (dec : String) (hdec : dec = "QR" ∨ dec = "SVD") (hc : c < len) :
    setCanonBonds len c dec = truncateBonds len c := by
  rw [setCanonBonds_eq len c dec hdec hc]
  by_cases h1 : len = 1
  · subst h1
    have : c = 0 := by omega
    subst this
    simp [truncateBonds, truncateEv, bondsOf]
  · rw [truncateBonds_eq len c h1]

end Yaqs.Mps

/-! ### `truncateEv` interpreted on the algebraic chain -/

namespace Yaqs.Mps.Alg

variable {K : Type*} [CommRing K] {ι σ : Type*} [Fintype ι] [DecidableEq ι]

theorem runEvs_svdT (d : Dec σ ι K) (n : Nat) (ts : List (Site σ ι K)) :
    runEvs d ((List.range n).map Ev.svdT) ts = sweep d true n ts := by
  induction n with
  | zero => simp [runEvs, sweep]
  | succ n ih =>
    rw [List.range_succ, List.map_append, runEvs_append, ih, sweep_succ]
    rfl

/-- the event list of `truncate` is the two-sweep fold `setCanonical` with the SVD primitive at every step (for one
    site the list is empty and the fold is the identity) -/
theorem truncateEv_run (d : Dec σ ι K) (c : Nat) (ts : List (Site σ ι K)) (hc : c < ts.length) :
    runEvs d (truncateEv ts.length c) ts = setCanonical d true c ts := by
  unfold truncateEv setCanonical
  by_cases h1 : ts.length = 1
  · rw [if_pos h1]
    have hc0 : c = 0 := by omega
    subst hc0
    simp [h1, sweep]
  · rw [if_neg h1]
    simp only [runEvs_append, runEvs_flip, runEvs_svdT]

end Yaqs.Mps.Alg

/-! ### what the truncating SVD shift does to the merged matrix (rectangular Matrix reading, link to C09.6) -/

namespace Yaqs.Mps

open scoped Matrix

/-- a list matrix read as an `R × C` matrix (entries outside the list are `0`) -/
def toRect (R C : Nat) (m : Mat) : Matrix (Fin R) (Fin C) CRat := Matrix.of fun i j => entry m i.val j.val

@[simp] theorem toRect_apply (R C : Nat) (m : Mat) (i : Fin R) (j : Fin C) : toRect R C m i j = entry m i.val j.val := rfl

/-- entries of a list product as a finite sum (rectangular version of `toMat_matMul`) -/
theorem entry_matMul_sum (a b : Mat) (N i j : Nat) (ha : ∀ row ∈ a, row.length ≤ N)
    (hb : ∀ row ∈ b, row.length ≤ ncols b) :
    entry (matMul a b) i j = ∑ k ∈ Finset.range N, entry a i k * entry b k j := by
  rw [entry_matMul]
  by_cases hi : i < a.length
  · by_cases hj : j < ncols b
    · rw [if_pos ⟨hi, hj⟩, dot_eq_sum _ _ N]
      · refine Finset.sum_congr rfl fun k _ => ?_
        rw [col_getD, entry_of_lt a _ _ hi]
        simp [List.getD_eq_getElem?_getD, List.getElem?_eq_getElem hi]
      · have := ha (a[i]) (List.getElem_mem hi)
        simp [List.getD_eq_getElem?_getD, List.getElem?_eq_getElem hi]
        omega
    · rw [if_neg (by tauto)]
      symm
      refine Finset.sum_eq_zero fun k _ => ?_
      rw [entry_of_le_cols b hb k _ (by omega), mul_zero]
  · rw [if_neg (by tauto)]
    symm
    refine Finset.sum_eq_zero fun k _ => ?_
    rw [entry_of_le_rows a _ _ (by omega), zero_mul]

theorem entry_cons_succ (r : List CRat) (m : Mat) (x j : Nat) : entry (r :: m) (x + 1) j = entry m x j := by
  simp [entry]

theorem entry_map_take (u : Mat) (keep i x : Nat) :
    entry (u.map (fun row => row.take keep)) i x = if x < keep then entry u i x else 0 := by
  simp only [entry, List.getD_eq_getElem?_getD, List.getElem?_map]
  cases u[i]? with
  | none => simp
  | some row =>
    simp only [Option.map_some, Option.getD_some, List.getElem?_take]
    split <;> rfl

theorem entry_take (m : Mat) (keep x j : Nat) : entry (m.take keep) x j = if x < keep then entry m x j else 0 := by
  simp only [entry, List.getD_eq_getElem?_getD, List.getElem?_take]
  split
  · rfl
  · simp

theorem ofRat_zero : CRat.ofRat 0 = 0 := rfl

theorem entry_diagMulRows : ∀ (s : List Rat) (v : Mat) (x j : Nat),
    entry (diagMulRows s v) x j = CRat.ofRat (s.getD x 0) * entry v x j
  | [], v, x, j => by
    have : diagMulRows [] v = [] := by simp [diagMulRows]
    rw [this, entry_nil]
    simp [ofRat_zero]
  | a :: s, [], x, j => by
    have : diagMulRows (a :: s) [] = [] := by simp [diagMulRows]
    rw [this, entry_nil, mul_zero]
  | a :: s, r :: v, 0, j => by
    simp only [diagMulRows, List.zipWith_cons_cons, entry, List.getD_cons_zero]
    simp only [List.getD_eq_getElem?_getD, List.getElem?_map]
    cases r[j]? with
    | none => simp
    | some y => simp
  | a :: s, r :: v, x + 1, j => by
    have : diagMulRows (a :: s) (r :: v) = r.map (fun y => CRat.ofRat a * y) :: diagMulRows s v := by
      simp [diagMulRows]
    rw [this, entry_cons_succ, entry_cons_succ, List.getD_cons_succ]
    exact entry_diagMulRows s v x j

/-- **Matrix reading of the truncated product** `u[:, :keep] · (diag(s) v)[:keep, :] = U · diag(s restricted to the kept
    values) · V` with `U : R × k`, `V : k × C` the rectangular readings of the SVD factors -/
theorem toRect_truncated (R C : Nat) (u : Mat) (s : List Rat) (v : Mat) (keep : Nat) (hk : keep ≤ s.length)
    (hvr : ∀ row ∈ v, row.length = C) :
    toRect R C (matMul (u.map (fun row => row.take keep)) ((diagMulRows s v).take keep)) =
      toRect R s.length u *
        Matrix.diagonal (fun x : Fin s.length => if x.val < keep then CRat.ofRat (s.getD x.val 0) else 0) *
        toRect s.length C v := by
  have ha : ∀ row ∈ u.map (fun row => row.take keep), row.length ≤ s.length := by
    intro row hrow
    simp only [List.mem_map] at hrow
    obtain ⟨r0, _, rfl⟩ := hrow
    rw [List.length_take]; omega
  have hb : ∀ row ∈ (diagMulRows s v).take keep, row.length ≤ ncols ((diagMulRows s v).take keep) := by
    have hrows : ∀ row ∈ (diagMulRows s v).take keep, row.length = C := fun row hrow =>
      rows_diagMulRows C s v hvr row (List.mem_of_mem_take hrow)
    intro row hrow
    have hne : 1 ≤ ((diagMulRows s v).take keep).length := List.length_pos_of_mem hrow
    rw [ncols_of_rows _ C hne hrows, hrows row hrow]
  ext i j
  rw [toRect_apply, entry_matMul_sum _ _ s.length i.val j.val ha hb, Matrix.mul_apply]
  have hR : ∀ x : Fin s.length,
      (toRect R s.length u *
        Matrix.diagonal (fun x : Fin s.length => if x.val < keep then CRat.ofRat (s.getD x.val 0) else 0)) i x *
          toRect s.length C v x j =
        (fun x : Nat => (if x < keep then entry u i.val x else 0) *
          (if x < keep then CRat.ofRat (s.getD x 0) * entry v x j.val else 0)) x.val := by
    intro x
    rw [Matrix.mul_diagonal]
    simp only [toRect_apply]
    by_cases h : x.val < keep
    · simp only [h, if_true]; rw [mul_assoc]
    · simp only [h, if_false, mul_zero, zero_mul]
  rw [Finset.sum_congr rfl (fun x _ => hR x)]
  refine Eq.trans ?_ (Fin.sum_univ_eq_sum_range (fun x : Nat => (if x < keep then entry u i.val x else 0) *
          (if x < keep then CRat.ofRat (s.getD x 0) * entry v x j.val else 0)) s.length).symm
  refine Finset.sum_congr rfl fun x _ => ?_
  rw [entry_map_take, entry_take, entry_diagMulRows]

/-- the untruncated product: `u · (diag(s) v) = U · diag(s) · V` -/
theorem toRect_full (R C : Nat) (u : Mat) (s : List Rat) (v : Mat) (hur : ∀ row ∈ u, row.length = s.length)
    (hvr : ∀ row ∈ v, row.length = C) :
    toRect R C (matMul u (diagMulRows s v)) =
      toRect R s.length u * Matrix.diagonal (fun x : Fin s.length => CRat.ofRat (s.getD x.val 0)) * toRect s.length C v := by
  rw [← truncated_full u s v s.length hur (le_refl _), toRect_truncated R C u s v s.length (le_refl _) hvr]
  congr 3
  funext x
  rw [if_pos x.isLt]

/-- **truncation error of the executable SVD shift (Frobenius norm of the change of the merged two-site matrix)** from
    the SVD spec: `‖θ(a,b) − θ(a',b')‖²_F = Σ_{x ≥ keep} |s_x|²` -/
theorem twoSiteSVD_frob (n : Nat) (a b : Tensor) (u : Mat) (s : List Rat) (v : Mat) (keep : Nat)
    (ha : wellShaped a = true) (hb : wellShaped b = true) (hsh : svdShaped n a b u s v keep = true)
    (hspec : matMul u (diagMulRows s v) = thetaMat a b)
    (hU : (toRect u.length s.length u)ᴴ * toRect u.length s.length u = 1)
    (hV : toRect s.length (b.length * rightDim b) v * (toRect s.length (b.length * rightDim b) v)ᴴ = 1) :
    Yaqs.Split.frobSq (toRect u.length (b.length * rightDim b) (thetaMat a b) -
        toRect u.length (b.length * rightDim b)
          (thetaMat (twoSiteSVD a b u s v keep).1 (twoSiteSVD a b u s v keep).2)) =
      ∑ x : Fin s.length, if x.val < keep then 0 else
        star (CRat.ofRat (s.getD x.val 0)) * CRat.ofRat (s.getD x.val 0) := by
  obtain ⟨_, hks, _, _, hur, _, hvr⟩ := (svdShaped_iff n a b u s v keep).mp hsh
  rw [thetaMat_twoSiteSVD n a b u s v keep ha hb hsh, ← hspec, toRect_full _ _ u s v hur hvr,
    toRect_truncated _ _ u s v keep hks hvr]
  exact Yaqs.Split.c09_split_error (toRect u.length s.length u) (toRect s.length (b.length * rightDim b) v)
    (fun x : Fin s.length => CRat.ofRat (s.getD x.val 0)) hU hV (fun x => x.val < keep)

theorem ofRat_add (p q : Rat) : CRat.ofRat (p + q) = CRat.ofRat p + CRat.ofRat q := by
  apply CRat.ext <;> simp [CRat.ofRat]

theorem star_ofRat_mul (q : Rat) : star (CRat.ofRat q) * CRat.ofRat q = CRat.ofRat (q * q) := by
  apply CRat.ext <;> simp [CRat.ofRat, CRat.star_def]

theorem sum_dropped_list : ∀ (l : List Rat) (keep : Nat),
    (∑ x ∈ Finset.range l.length, if x < keep then (0 : CRat) else CRat.ofRat (l.getD x 0 * l.getD x 0)) =
      CRat.ofRat (Yaqs.Rank.sqsum (l.drop keep))
  | [], keep => by simp [Yaqs.Rank.sqsum, ofRat_zero]
  | a :: l, 0 => by
    rw [List.length_cons, Finset.sum_range_succ']
    have := sum_dropped_list l 0
    simp only [Nat.not_lt_zero, if_false, List.drop_zero, List.getD_cons_succ, List.getD_cons_zero] at this ⊢
    rw [this, Yaqs.Rank.sqsum, ofRat_add, add_comm]
  | a :: l, keep + 1 => by
    rw [List.length_cons, Finset.sum_range_succ']
    have := sum_dropped_list l keep
    simp only [Nat.add_lt_add_iff_right, List.getD_cons_succ, Nat.zero_lt_succ, if_true, add_zero,
      List.drop_succ_cons] at this ⊢
    exact this

/-- the discarded weight as the model's `tailWeight` -/
theorem sum_dropped_eq_tailWeight (s : List Rat) (keep : Nat) :
    (∑ x : Fin s.length, if x.val < keep then (0 : CRat) else
        star (CRat.ofRat (s.getD x.val 0)) * CRat.ofRat (s.getD x.val 0)) =
      CRat.ofRat (Yaqs.Rank.tailWeight s keep) := by
  rw [Fin.sum_univ_eq_sum_range
    (fun x => if x < keep then (0 : CRat) else star (CRat.ofRat (s.getD x 0)) * CRat.ofRat (s.getD x 0)) s.length]
  unfold Yaqs.Rank.tailWeight
  rw [← sum_dropped_list s keep]
  refine Finset.sum_congr rfl fun x _ => ?_
  rw [star_ofRat_mul]

/-! ### a two-site move at position `i` of a chain (how the events of `truncateEv` act on the list model) -/

/-- apply a two-site move to the tensors at positions `i`, `i + 1` (nothing happens if there is no such pair) -/
def applyAt (f : Tensor → Tensor → Tensor × Tensor) : Nat → List Tensor → List Tensor
  | 0, a :: b :: post => (f a b).1 :: (f a b).2 :: post
  | i + 1, t :: ts => t :: applyAt f i ts
  | _, ts => ts

theorem applyAt_split (f : Tensor → Tensor → Tensor × Tensor) : ∀ (i : Nat) (ts : List Tensor), i + 1 < ts.length →
    ∃ pre a b post, ts = pre ++ a :: b :: post ∧ pre.length = i ∧ ts[i]? = some a ∧ ts[i + 1]? = some b ∧
      applyAt f i ts = pre ++ (f a b).1 :: (f a b).2 :: post
  | 0, a :: b :: post, _ => ⟨[], a, b, post, rfl, rfl, rfl, rfl, rfl⟩
  | 0, [], h => by simp at h
  | 0, [_], h => by simp at h
  | i + 1, [], h => by simp at h
  | i + 1, t :: ts, h => by
    obtain ⟨pre, a, b, post, e, hl, h1, h2, hap⟩ := applyAt_split f i ts (by simpa using h)
    refine ⟨t :: pre, a, b, post, by rw [e]; rfl, by simp [hl], by simpa using h1, by simpa using h2, ?_⟩
    simp [applyAt, hap]

/-- every event of `truncateEv` is a flip or a two-site SVD at a position that has a right neighbour -/
theorem truncateEv_events (len c : Nat) (hc : c < len) :
    ∀ e ∈ truncateEv len c, e = Ev.flip ∨ ∃ i, e = Ev.svdT i ∧ i + 1 < len := by
  intro e he
  unfold truncateEv at he
  split at he
  · simp at he
  · simp only [List.mem_append, List.mem_map, List.mem_range, List.mem_cons, List.not_mem_nil, or_false] at he
    rcases he with ((⟨i, hi, rfl⟩ | rfl) | ⟨i, hi, rfl⟩) | rfl
    · exact Or.inr ⟨i, rfl, by omega⟩
    · exact Or.inl rfl
    · exact Or.inr ⟨i, rfl, by omega⟩
    · exact Or.inl rfl

end Yaqs.Mps
