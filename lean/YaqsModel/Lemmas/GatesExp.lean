import YaqsModel.Model.Gates
import Mathlib.Analysis.Normed.Algebra.MatrixExponential
import Mathlib.Analysis.SpecialFunctions.Exponential
import Mathlib.Analysis.Complex.Trigonometric

/-!
The functional-calculus step of C18 with Mathlib's genuine matrix exponential: for two complementary orthogonal
idempotents `P + Q = 1`, `exp(a•P + b•Q) = e^a•P + e^b•Q` over ℂ.  Proof: `(x₀,x₁) ↦ x₀P + x₁Q` is a continuous ring
homomorphism `ℂ² → M₄(ℂ)`, and ring homomorphisms commute with `exp` (`NormedSpace.map_exp`).
-/
namespace Yaqs.Gates
open Matrix

/-- the ring homomorphism `(x₀, x₁) ↦ x₀ P + x₁ Q` of two complementary orthogonal idempotents -/
noncomputable def twoProjHom (P Q : Matrix (Fin 4) (Fin 4) ℂ) (hPP : P * P = P) (hQQ : Q * Q = Q)
    (hPQ : P * Q = 0) (hQP : Q * P = 0) (h1 : P + Q = 1) : (Fin 2 → ℂ) →+* Matrix (Fin 4) (Fin 4) ℂ where
  toFun x := x 0 • P + x 1 • Q
  map_one' := by simp [h1]
  map_mul' x y := by
    simp only [Pi.mul_apply, Matrix.add_mul, Matrix.mul_add, Matrix.smul_mul, Matrix.mul_smul, hPP, hQQ, hPQ, hQP,
      smul_zero, add_zero, zero_add, smul_smul]
    congr 1 <;> rw [mul_comm]
  map_zero' := by simp
  map_add' x y := by
    simp only [Pi.add_apply, add_smul]
    abel

set_option backward.isDefEq.respectTransparency false in
theorem exp_two_proj (P Q : Matrix (Fin 4) (Fin 4) ℂ) (hPP : P * P = P) (hQQ : Q * Q = Q)
    (hPQ : P * Q = 0) (hQP : Q * P = 0) (h1 : P + Q = 1) (a b : ℂ) :
    NormedSpace.exp (a • P + b • Q) = Complex.exp a • P + Complex.exp b • Q := by
  have hcont : Continuous (twoProjHom P Q hPP hQQ hPQ hQP h1) := by
    show Continuous fun x : Fin 2 → ℂ => x 0 • P + x 1 • Q
    fun_prop
  have key := open scoped Matrix.Norms.Operator in
    NormedSpace.map_exp (twoProjHom P Q hPP hQQ hPQ hQP h1) hcont ![a, b]
  have h0 : NormedSpace.exp (![a, b] : Fin 2 → ℂ) 0 = Complex.exp a := by
    rw [Pi.coe_exp, ← Complex.exp_eq_exp_ℂ]; rfl
  have h1' : NormedSpace.exp (![a, b] : Fin 2 → ℂ) 1 = Complex.exp b := by
    rw [Pi.coe_exp, ← Complex.exp_eq_exp_ℂ]; rfl
  have e1 : (twoProjHom P Q hPP hQQ hPQ hQP h1) ![a, b] = a • P + b • Q := rfl
  rw [← e1, ← key]
  show NormedSpace.exp (![a, b] : Fin 2 → ℂ) 0 • P + NormedSpace.exp (![a, b] : Fin 2 → ℂ) 1 • Q = _
  rw [h0, h1']

/-- the float each class feeds into its generator, as a function of the gate angle θ:
    `np.pi/4` (cx, cz), `θ` (cp), `θ/2` (rxx ryy rzz) -/
noncomputable def GG.lamOf (g : GG) (θ : ℝ) : ℂ :=
  match g with
  | .cx | .cz => (Real.pi / 4 : ℝ)
  | .cp => θ
  | .rxx | .ryy | .rzz => (θ / 2 : ℝ)

/-- the unit-circle point the matrix of the class is written in: `(cos θ, sin θ)` for cp, half angle for rxx ryy rzz
    (cx, cz have no angle) -/
noncomputable def GG.circleOf (g : GG) (θ : ℝ) : ℂ × ℂ :=
  match g with
  | .cx | .cz => (1, 0)
  | .cp => (Real.cos θ, Real.sin θ)
  | .rxx | .ryy | .rzz => (Real.cos (θ / 2), Real.sin (θ / 2))

/-- `e(λ) = exp(-iλ)` at the eigenvalues equals the phases used by the gate table -/
theorem phases_of_exp (g : GG) (θ : ℝ) :
    Complex.exp (-Complex.I * (g.eig (g.lamOf θ)).1) = (g.phases Complex.I (g.circleOf θ).1 (g.circleOf θ).2).1 ∧
    Complex.exp (-Complex.I * (g.eig (g.lamOf θ)).2) = (g.phases Complex.I (g.circleOf θ).1 (g.circleOf θ).2).2 := by
  have hpi : Complex.exp (-Complex.I * (two * two * ((Real.pi / 4 : ℝ) : ℂ))) = -1 := by
    have : -Complex.I * (two * two * ((Real.pi / 4 : ℝ) : ℂ)) = -(Real.pi * Complex.I) := by
      simp only [two]; push_cast; ring
    rw [this, Complex.exp_neg, Complex.exp_pi_mul_I]; norm_num
  have hcis (φ : ℝ) : Complex.exp (-Complex.I * -(φ : ℂ)) = Real.cos φ + Complex.I * Real.sin φ := by
    rw [show -Complex.I * -(φ : ℂ) = (φ : ℂ) * Complex.I by ring, Complex.exp_mul_I]
    push_cast; ring
  have hcis' (φ : ℝ) : Complex.exp (-Complex.I * (φ : ℂ)) = Real.cos φ + -(Complex.I * Real.sin φ) := by
    rw [show -Complex.I * (φ : ℂ) = ((-φ : ℝ) : ℂ) * Complex.I by push_cast; ring, Complex.exp_mul_I]
    rw [← Complex.ofReal_cos, ← Complex.ofReal_sin, Real.cos_neg, Real.sin_neg]
    push_cast; ring
  cases g <;> simp only [GG.eig, GG.lamOf, GG.phases, GG.circleOf, mul_zero, Complex.exp_zero, true_and]
  · exact hpi
  · exact hpi
  · exact hcis θ
  · exact ⟨hcis' _, hcis _⟩
  · exact ⟨hcis' _, hcis _⟩
  · exact ⟨hcis' _, hcis _⟩

end Yaqs.Gates
