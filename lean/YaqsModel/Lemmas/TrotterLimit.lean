import YaqsModel.Lemmas.ExpTail
import Mathlib.Analysis.Normed.Algebra.Exponential
import Mathlib.Analysis.SpecialFunctions.Exponential
import Mathlib.Tactic.Linarith
import Mathlib.Tactic.Ring
import Mathlib.Tactic.NoncommRing

/-!
# Lemmas.TrotterLimit — the Lie–Trotter product formula in a Banach algebra (xt07 extension of C07)

Analytic part of "every Trotter circuit converges, as the step shrinks, to `exp(-iHT)`".  Everything here is for an
arbitrary complete normed `ℂ`-algebra `𝔸` (no `‖1‖ = 1` needed); `Lemmas/TrotterMatrix.lean` instantiates it for
`Matrix n n ℂ` with the spectral (`ℓ²` operator) norm, in which the factors of a Trotter step are unitary.

For a list `A₁ … A_m` put `P = exp A₁ ⋯ exp A_m`, `S = A₁ + … + A_m`, `s = ‖A₁‖ + … + ‖A_m‖`.
* `prod_exp_bounds`              `‖P − 1‖ ≤ e^s − 1`  and  `‖P − 1 − S‖ ≤ e^s − 1 − s`   (induction on the list)
* `norm_prod_exp_sub_exp_sum_le` `‖P − exp S‖ ≤ 2 (e^s − 1 − s) ≤ s² e^s`               (Taylor remainder of `exp`)
* `norm_prod_exp_smul_sub_le`    the same for `τ • A_k`: `≤ |τ|² s² e^{|τ| s}`           (second-order local error)
* `norm_pow_sub_pow_le`          `‖U^N − V^N‖ ≤ N ‖U − V‖` for contractions              (errors add)
* `norm_trotter_pow_sub_le`      `‖P(τ)^N − (exp τS)^N‖ ≤ N |τ|² s² e^{|τ| s}` when both are contractions
-/
namespace Yaqs.TrotterLimit

open NormedSpace

section ring
variable {𝔸 : Type*} [NormedRing 𝔸]

/-- **telescoping**: powers of two contractions differ by at most `N` times the difference of the bases -/
theorem norm_pow_sub_pow_le (U V : 𝔸) (hU : ‖U‖ ≤ 1) (hV : ‖V‖ ≤ 1) (N : ℕ) :
    ‖U ^ N - V ^ N‖ ≤ N * ‖U - V‖ := by
  induction N with
  | zero => simp
  | succ k ih =>
    have e : U ^ (k + 1) - V ^ (k + 1) = (U ^ k - V ^ k) * U + V ^ k * (U - V) := by
      rw [pow_succ, pow_succ]; noncomm_ring
    have hVk : ‖V ^ k * (U - V)‖ ≤ ‖U - V‖ := by
      rcases Nat.eq_zero_or_pos k with rfl | hk
      · simp
      · calc ‖V ^ k * (U - V)‖ ≤ ‖V ^ k‖ * ‖U - V‖ := norm_mul_le _ _
          _ ≤ 1 * ‖U - V‖ := by
              apply mul_le_mul_of_nonneg_right _ (norm_nonneg _)
              exact (norm_pow_le' V hk).trans (pow_le_one₀ (norm_nonneg _) hV)
          _ = ‖U - V‖ := one_mul _
    have hUk : ‖(U ^ k - V ^ k) * U‖ ≤ k * ‖U - V‖ := by
      calc ‖(U ^ k - V ^ k) * U‖ ≤ ‖U ^ k - V ^ k‖ * ‖U‖ := norm_mul_le _ _
        _ ≤ (k * ‖U - V‖) * 1 := mul_le_mul ih hU (norm_nonneg _) (by positivity)
        _ = k * ‖U - V‖ := mul_one _
    rw [e]
    calc ‖(U ^ k - V ^ k) * U + V ^ k * (U - V)‖ ≤ ‖(U ^ k - V ^ k) * U‖ + ‖V ^ k * (U - V)‖ := norm_add_le _ _
      _ ≤ k * ‖U - V‖ + ‖U - V‖ := add_le_add hUk hVk
      _ = ((k + 1 : ℕ) : ℝ) * ‖U - V‖ := by push_cast; ring

/-- a product of contractions is a contraction (given `‖1‖ ≤ 1`, which holds in every C⋆-algebra) -/
theorem norm_list_prod_le_one {ι : Type*} (l : List ι) (f : ι → 𝔸) (h1 : ‖(1 : 𝔸)‖ ≤ 1) (h : ∀ a ∈ l, ‖f a‖ ≤ 1) :
    ‖(l.map f).prod‖ ≤ 1 := by
  induction l with
  | nil => simpa using h1
  | cons a l ih =>
    rw [List.map_cons, List.prod_cons]
    calc ‖f a * (l.map f).prod‖ ≤ ‖f a‖ * ‖(l.map f).prod‖ := norm_mul_le _ _
      _ ≤ 1 * 1 := mul_le_mul (h a (List.mem_cons_self)) (ih fun b hb => h b (List.mem_cons_of_mem _ hb))
          (norm_nonneg _) zero_le_one
      _ = 1 := one_mul _

theorem norm_list_sum_le (l : List 𝔸) : ‖l.sum‖ ≤ (l.map norm).sum := by
  induction l with
  | nil => simp
  | cons a l ih =>
    rw [List.sum_cons, List.map_cons, List.sum_cons]
    exact (norm_add_le _ _).trans (add_le_add le_rfl ih)

theorem list_sum_norm_nonneg (l : List 𝔸) : 0 ≤ (l.map norm).sum := by
  induction l with
  | nil => simp
  | cons a l ih => rw [List.map_cons, List.sum_cons]; exact add_nonneg (norm_nonneg _) ih

end ring

section banach
variable {𝔸 : Type*} [NormedRing 𝔸] [NormedAlgebra ℂ 𝔸] [CompleteSpace 𝔸]

/-- `‖exp X − 1‖ ≤ e^{‖X‖} − 1` -/
theorem norm_exp_sub_one_le (X : 𝔸) : ‖exp X - 1‖ ≤ Real.exp ‖X‖ - 1 := by
  have h := Yaqs.Krylov.norm_exp_sub_partial_le X 1 (by norm_num)
  rw [Yaqs.Krylov.expTail_eq] at h
  simpa using h

/-- `‖exp X − 1 − X‖ ≤ e^{‖X‖} − 1 − ‖X‖`: the second-order Taylor remainder of the exponential series -/
theorem norm_exp_sub_one_sub_le (X : 𝔸) : ‖exp X - 1 - X‖ ≤ Real.exp ‖X‖ - 1 - ‖X‖ := by
  have h := Yaqs.Krylov.norm_exp_sub_partial_le X 2 (by norm_num)
  rw [Yaqs.Krylov.expTail_eq] at h
  have e1 : ∑ j ∈ Finset.range 2, ((Nat.factorial j : ℂ)⁻¹) • X ^ j = 1 + X := by
    simp [Finset.sum_range_succ]
  have e2 : ∑ j ∈ Finset.range 2, ‖X‖ ^ j / (Nat.factorial j : ℝ) = 1 + ‖X‖ := by
    simp [Finset.sum_range_succ]
  rw [e1, e2, sub_add_eq_sub_sub, sub_add_eq_sub_sub] at h
  exact h

/-- `x ↦ e^x − 1 − x` is monotone on `[0, ∞)` -/
theorem exp_sub_one_sub_mono {x y : ℝ} (hx : 0 ≤ x) (hxy : x ≤ y) :
    Real.exp x - 1 - x ≤ Real.exp y - 1 - y := by
  have h := Yaqs.Krylov.expTail_mono 2 hx hxy
  rw [Yaqs.Krylov.expTail_eq, Yaqs.Krylov.expTail_eq] at h
  have e (z : ℝ) : ∑ j ∈ Finset.range 2, z ^ j / (Nat.factorial j : ℝ) = 1 + z := by
    simp [Finset.sum_range_succ]
  rw [e, e] at h
  linarith

/-- `2 (e^s − 1 − s) ≤ s² e^s` for `s ≥ 0` -/
theorem two_mul_exp_sub_le {s : ℝ} (hs : 0 ≤ s) : 2 * (Real.exp s - 1 - s) ≤ s ^ 2 * Real.exp s := by
  have h := Yaqs.Krylov.expTail_le 2 hs
  rw [Yaqs.Krylov.expTail_eq] at h
  have e : ∑ j ∈ Finset.range 2, s ^ j / (Nat.factorial j : ℝ) = 1 + s := by
    simp [Finset.sum_range_succ]
  have f2 : ((Nat.factorial 2 : ℕ) : ℝ) = 2 := by norm_num [Nat.factorial]
  rw [e, f2] at h
  linarith

/-- with `P = exp A₁ ⋯ exp A_m`, `S = Σ A_k`, `s = Σ ‖A_k‖`:  `‖P − 1‖ ≤ e^s − 1` and `‖P − 1 − S‖ ≤ e^s − 1 − s` -/
theorem prod_exp_bounds (As : List 𝔸) :
    ‖(As.map exp).prod - 1‖ ≤ Real.exp (As.map norm).sum - 1 ∧
    ‖(As.map exp).prod - 1 - As.sum‖ ≤ Real.exp (As.map norm).sum - 1 - (As.map norm).sum := by
  induction As with
  | nil => simp
  | cons A As ih =>
    obtain ⟨ih1, ih2⟩ := ih
    simp only [List.map_cons, List.prod_cons, List.sum_cons]
    generalize (As.map exp).prod = P at ih1 ih2 ⊢
    generalize As.sum = S at ih2 ⊢
    generalize (As.map norm).sum = s at ih1 ih2 ⊢
    have ha1 := norm_exp_sub_one_le A
    have ha2 := norm_exp_sub_one_sub_le A
    have ha : 0 ≤ Real.exp ‖A‖ - 1 := (norm_nonneg _).trans ha1
    have hmul : ‖(exp A - 1) * (P - 1)‖ ≤ (Real.exp ‖A‖ - 1) * (Real.exp s - 1) :=
      (norm_mul_le _ _).trans (mul_le_mul ha1 ih1 (norm_nonneg _) ha)
    have hexp : Real.exp (‖A‖ + s) = Real.exp ‖A‖ * Real.exp s := Real.exp_add _ _
    constructor
    · have e : exp A * P - 1 = (P - 1) + (exp A - 1) + (exp A - 1) * (P - 1) := by noncomm_ring
      rw [e, hexp]
      calc ‖(P - 1) + (exp A - 1) + (exp A - 1) * (P - 1)‖
          ≤ ‖(P - 1) + (exp A - 1)‖ + ‖(exp A - 1) * (P - 1)‖ := norm_add_le _ _
        _ ≤ (‖P - 1‖ + ‖exp A - 1‖) + ‖(exp A - 1) * (P - 1)‖ := add_le_add (norm_add_le _ _) le_rfl
        _ ≤ ((Real.exp s - 1) + (Real.exp ‖A‖ - 1)) + (Real.exp ‖A‖ - 1) * (Real.exp s - 1) :=
            add_le_add (add_le_add ih1 ha1) hmul
        _ = Real.exp ‖A‖ * Real.exp s - 1 := by ring
    · have e : exp A * P - 1 - (A + S) = (P - 1 - S) + (exp A - 1 - A) + (exp A - 1) * (P - 1) := by noncomm_ring
      rw [e, hexp]
      calc ‖(P - 1 - S) + (exp A - 1 - A) + (exp A - 1) * (P - 1)‖
          ≤ ‖(P - 1 - S) + (exp A - 1 - A)‖ + ‖(exp A - 1) * (P - 1)‖ := norm_add_le _ _
        _ ≤ (‖P - 1 - S‖ + ‖exp A - 1 - A‖) + ‖(exp A - 1) * (P - 1)‖ := add_le_add (norm_add_le _ _) le_rfl
        _ ≤ ((Real.exp s - 1 - s) + (Real.exp ‖A‖ - 1 - ‖A‖)) + (Real.exp ‖A‖ - 1) * (Real.exp s - 1) :=
            add_le_add (add_le_add ih2 ha2) hmul
        _ = Real.exp ‖A‖ * Real.exp s - 1 - (‖A‖ + s) := by ring

/-- **second-order local error of the product formula** (any ordering of the factors):
    `‖exp A₁ ⋯ exp A_m − exp(A₁ + … + A_m)‖ ≤ 2 (e^s − 1 − s)`, `s = Σ ‖A_k‖` -/
theorem norm_prod_exp_sub_exp_sum_le (As : List 𝔸) :
    ‖(As.map exp).prod - exp As.sum‖ ≤ 2 * (Real.exp (As.map norm).sum - 1 - (As.map norm).sum) := by
  obtain ⟨_, h2⟩ := prod_exp_bounds As
  have h3 := norm_exp_sub_one_sub_le As.sum
  have h4 := exp_sub_one_sub_mono (norm_nonneg As.sum) (norm_list_sum_le As)
  have e : (As.map exp).prod - exp As.sum = ((As.map exp).prod - 1 - As.sum) - (exp As.sum - 1 - As.sum) := by abel
  rw [e]
  calc ‖((As.map exp).prod - 1 - As.sum) - (exp As.sum - 1 - As.sum)‖
      ≤ ‖(As.map exp).prod - 1 - As.sum‖ + ‖exp As.sum - 1 - As.sum‖ := norm_sub_le _ _
    _ ≤ _ := by linarith

/-- `… ≤ s² e^s` -/
theorem norm_prod_exp_sub_exp_sum_le' (As : List 𝔸) :
    ‖(As.map exp).prod - exp As.sum‖ ≤ (As.map norm).sum ^ 2 * Real.exp (As.map norm).sum :=
  (norm_prod_exp_sub_exp_sum_le As).trans (two_mul_exp_sub_le (list_sum_norm_nonneg As))

omit [CompleteSpace 𝔸] in
theorem sum_norm_smul (τ : ℂ) (As : List 𝔸) :
    ((As.map fun A => τ • A).map norm).sum = ‖τ‖ * (As.map norm).sum := by
  induction As with
  | nil => simp
  | cons A As ih =>
    simp only [List.map_cons, List.sum_cons] at ih ⊢
    rw [ih, norm_smul, mul_add]

/-- **second-order local error, scaled**: `‖exp(τA₁) ⋯ exp(τA_m) − exp(τ ΣA)‖ ≤ |τ|² s² e^{|τ| s}` -/
theorem norm_prod_exp_smul_sub_le (τ : ℂ) (As : List 𝔸) :
    ‖(As.map fun A => exp (τ • A)).prod - exp (τ • As.sum)‖
      ≤ ‖τ‖ ^ 2 * (As.map norm).sum ^ 2 * Real.exp (‖τ‖ * (As.map norm).sum) := by
  have h := norm_prod_exp_sub_exp_sum_le' (As.map fun A => τ • A)
  rw [sum_norm_smul, List.map_map, ← List.smul_sum] at h
  have e : (exp ∘ fun A : 𝔸 => τ • A) = fun A => exp (τ • A) := rfl
  rw [e] at h
  calc _ ≤ (‖τ‖ * (As.map norm).sum) ^ 2 * Real.exp (‖τ‖ * (As.map norm).sum) := h
    _ = _ := by ring

/-- **global error of `N` steps** when the step and the exact flow are contractions (unitary in the application):
    `‖(exp(τA₁) ⋯ exp(τA_m))^N − exp(τ ΣA)^N‖ ≤ N |τ|² s² e^{|τ| s}` -/
theorem norm_trotter_pow_sub_le (τ : ℂ) (As : List 𝔸) (N : ℕ)
    (hF : ‖(As.map fun A => exp (τ • A)).prod‖ ≤ 1) (hE : ‖exp (τ • As.sum)‖ ≤ 1) :
    ‖(As.map fun A => exp (τ • A)).prod ^ N - exp (τ • As.sum) ^ N‖
      ≤ N * (‖τ‖ ^ 2 * (As.map norm).sum ^ 2 * Real.exp (‖τ‖ * (As.map norm).sum)) :=
  (norm_pow_sub_pow_le _ _ hF hE N).trans
    (mul_le_mul_of_nonneg_left (norm_prod_exp_smul_sub_le τ As) (Nat.cast_nonneg N))

end banach

end Yaqs.TrotterLimit
