import YaqsModel.Lemmas.Accumulate
import YaqsModel.Lemmas.ConsistencyQuadratic
import Mathlib.Analysis.Matrix.Normed

/-!
# Lemmas.AccumulateEnsemble — the fan of `Lemmas/Accumulate.lean` applied to a trajectory ensemble

A trajectory ensemble is a finite list of weighted unit vectors `(w_i, ψ_i)`; its state is `Σ w_i ψ_iψ_i†`.  One step of the
tensor-jump method replaces every member by its branches; the state of the new ensemble is `Σ w_i E_i` with
`E_i = pureAverage Ls (B ψ_i)` the branch average of member `i` (`Props/C01.lean::c01_average_is_lottery_expectation`),
`B` the no-jump propagator of the step.  Because the exact flow `F` is *linear*, the one-step defect of the ensemble is the
weighted sum of the members' local errors (`ens_local`) — this is where the nonlinearity of the trajectory-average map in
`ψ` is harmless — and the fan (`accumulate_flow_seminorm`) adds the defects up along the grid.
-/
namespace Yaqs.Consistency

open Matrix NormedSpace Yaqs.MasterEq

variable {n : Type} [Fintype n] [DecidableEq n]

noncomputable section

/-- a finite ensemble of weighted pure states -/
abbrev Ens (n : Type) := List (ℝ × (n → ℂ))

/-- the density matrix of an ensemble, `Σ w_i ψ_iψ_i†` -/
def ensState (ens : Ens n) : Matrix n n ℂ := (ens.map fun e => e.1 • vecMulVec e.2 (star e.2)).sum

/-- the averaged state after one step with no-jump propagator `B`: `Σ w_i · pureAverage Ls (B ψ_i)` -/
def ensStep (Ls : List (Proc (Matrix n n ℂ))) (B : Matrix n n ℂ) (ens : Ens n) : Matrix n n ℂ :=
  (ens.map fun e => e.1 • pureAverage Ls (B *ᵥ e.2)).sum

/-- weights are non-negative and sum to one, members are unit vectors -/
def IsEnsemble (ens : Ens n) : Prop :=
  (∀ e ∈ ens, 0 ≤ e.1 ∧ star e.2 ⬝ᵥ e.2 = 1) ∧ (ens.map Prod.fst).sum = 1

omit [DecidableEq n] in
/-- the one-step defect of an ensemble against a linear exact map is at most (total weight)·(uniform local error) -/
theorem ens_local (N : Seminorm ℝ (Matrix n n ℂ)) (F : Matrix n n ℂ →ₗ[ℝ] Matrix n n ℂ)
    (Ls : List (Proc (Matrix n n ℂ))) (B : Matrix n n ℂ) (b : ℝ)
    (hloc : ∀ ψ : n → ℂ, star ψ ⬝ᵥ ψ = 1 → N (pureAverage Ls (B *ᵥ ψ) - F (vecMulVec ψ (star ψ))) ≤ b)
    (ens : Ens n) (hens : ∀ e ∈ ens, 0 ≤ e.1 ∧ star e.2 ⬝ᵥ e.2 = 1) :
    N (ensStep Ls B ens - F (ensState ens)) ≤ (ens.map Prod.fst).sum * b := by
  induction ens with
  | nil => simp [ensStep, ensState]
  | cons e t ih =>
    have he := hens e List.mem_cons_self
    have ht := ih (fun e' h' => hens e' (List.mem_cons_of_mem _ h'))
    have eq : ensStep Ls B (e :: t) - F (ensState (e :: t))
        = e.1 • (pureAverage Ls (B *ᵥ e.2) - F (vecMulVec e.2 (star e.2)))
          + (ensStep Ls B t - F (ensState t)) := by
      simp only [ensStep, ensState, List.map_cons, List.sum_cons, map_add, map_smul, smul_sub]
      abel
    rw [eq]
    refine (map_add_le_add N _ _).trans ?_
    rw [map_smul_eq_mul, Real.norm_eq_abs, abs_of_nonneg he.1]
    simp only [List.map_cons, List.sum_cons, add_mul]
    exact add_le_add (mul_le_mul_of_nonneg_left (hloc _ he.2) he.1) ht

omit [DecidableEq n] in
theorem ens_local_one (N : Seminorm ℝ (Matrix n n ℂ)) (F : Matrix n n ℂ →ₗ[ℝ] Matrix n n ℂ)
    (Ls : List (Proc (Matrix n n ℂ))) (B : Matrix n n ℂ) (b : ℝ)
    (hloc : ∀ ψ : n → ℂ, star ψ ⬝ᵥ ψ = 1 → N (pureAverage Ls (B *ᵥ ψ) - F (vecMulVec ψ (star ψ))) ≤ b)
    (ens : Ens n) (hens : IsEnsemble ens) :
    N (ensStep Ls B ens - F (ensState ens)) ≤ b := by
  have := ens_local N F Ls B b hloc ens hens.1
  rwa [hens.2, one_mul] at this

omit [DecidableEq n] in
/-- global error of the ensemble average on a uniform grid, any seminorm: fan + `(1+K dt)^m ≤ e^{K m dt}` -/
theorem ens_global (N : Seminorm ℝ (Matrix n n ℂ)) (F : Matrix n n ℂ →ₗ[ℝ] Matrix n n ℂ)
    (Ls : List (Proc (Matrix n n ℂ))) (B : Matrix n n ℂ) (dt K C : ℝ) (hK : 0 ≤ K) (hdt : 0 ≤ dt) (hC : 0 ≤ C)
    (m : ℕ) (ens : ℕ → Ens n) (y : ℕ → Matrix n n ℂ)
    (hens : ∀ k < m, IsEnsemble (ens k))
    (hstep : ∀ k < m, ensState (ens (k + 1)) = ensStep Ls B (ens k))
    (hy : ∀ k < m, y (k + 1) = F (y k))
    (hloc : ∀ ψ : n → ℂ, star ψ ⬝ᵥ ψ = 1 → N (pureAverage Ls (B *ᵥ ψ) - F (vecMulVec ψ (star ψ))) ≤ C * dt ^ 2)
    (hstab : ∀ M, N (F M) ≤ (1 + K * dt) * N M) :
    N (ensState (ens m) - y m)
      ≤ Real.exp (K * (m * dt)) * (N (ensState (ens 0) - y 0) + C * (m * dt) * dt) := by
  have hu : 0 ≤ K * dt := mul_nonneg hK hdt
  have h1 := Yaqs.Accumulate.accumulate_flow_seminorm N (fun _ => F) (fun k => ensState (ens k)) y
    (1 + K * dt) (C * dt ^ 2) (by linarith) m hy (fun _ _ u => hstab u)
    (fun k hk => by
      show N (ensState (ens (k + 1)) - F (ensState (ens k))) ≤ C * dt ^ 2
      rw [hstep k hk]
      exact ens_local_one N F Ls B _ hloc _ (hens k hk))
  have h2 := Yaqs.Accumulate.fan_le_exp (K * dt) (N (ensState (ens 0) - y 0)) (C * dt ^ 2) hu
    (apply_nonneg N _) (by positivity) m
  refine (h1.trans h2).trans (le_of_eq ?_)
  have e1 : (m : ℝ) * (K * dt) = K * (m * dt) := by ring
  have e2 : (m : ℝ) * (C * dt ^ 2) = C * (m * dt) * dt := by ring
  rw [e1, e2]

/-! ### the max-entry seminorm: the norm in which xa01's local error bound is stated -/

section Entry
attribute [local instance] Matrix.seminormedAddCommGroup Matrix.normedSpace

/-- `max_{i,j} |M i j|` as a seminorm on matrices -/
def entrySeminorm : Seminorm ℝ (Matrix n n ℂ) := normSeminorm ℝ (Matrix n n ℂ)

omit [DecidableEq n] in
theorem entrySeminorm_le_iff (M : Matrix n n ℂ) {r : ℝ} (hr : 0 ≤ r) :
    entrySeminorm M ≤ r ↔ ∀ i j, ‖M i j‖ ≤ r := Matrix.norm_le_iff hr

omit [DecidableEq n] in
theorem entry_le_entrySeminorm (M : Matrix n n ℂ) (i j : n) : ‖M i j‖ ≤ entrySeminorm M :=
  Matrix.norm_entry_le_entrywise_sup_norm M

end Entry

/-! ### the exact grid solution is the flow at the grid times -/

open scoped Matrix.Norms.Operator in
set_option backward.isDefEq.respectTransparency false in
omit [DecidableEq n] in
theorem lindFlow_add (H : Matrix n n ℂ) (Ls : List (Proc (Matrix n n ℂ))) (s t : ℝ) (ρ : Matrix n n ℂ) :
    lindFlow H Ls (s + t) ρ = lindFlow H Ls s (lindFlow H Ls t ρ) := by
  unfold lindFlow
  have hc : Commute (s • lindCLM H Ls) (t • lindCLM H Ls) := by
    show (s • lindCLM H Ls) * (t • lindCLM H Ls) = (t • lindCLM H Ls) * (s • lindCLM H Ls)
    ext x : 1
    simp only [mul_apply_eq_comp, _root_.smul_apply, map_smul]
    rw [smul_comm]
  have ha : (s + t) • lindCLM H Ls = s • lindCLM H Ls + t • lindCLM H Ls := by
    ext x : 1
    simp only [_root_.add_apply, _root_.smul_apply, add_smul]
  rw [ha]
  have hb : ∀ z : Matrix n n ℂ →L[ℝ] Matrix n n ℂ,
      z ∈ Metric.eball (0 : Matrix n n ℂ →L[ℝ] Matrix n n ℂ)
        (expSeries ℝ (Matrix n n ℂ →L[ℝ] Matrix n n ℂ)).radius := by
    intro z
    rw [expSeries_radius_eq_top]
    exact edist_lt_top _ _
  have h := exp_add_of_commute_of_mem_ball (𝕂 := ℝ) hc (hb _) (hb _)
  have h2 := congrArg (fun f : Matrix n n ℂ →L[ℝ] Matrix n n ℂ => f ρ) h
  exact h2

omit [DecidableEq n] in
/-- the sequence `y (k+1) = exp(dt𝓛)(y k)` is the exact solution sampled on the grid: `y k = exp((k·dt)𝓛)(y 0)` -/
theorem lindFlow_grid (H : Matrix n n ℂ) (Ls : List (Proc (Matrix n n ℂ))) (dt : ℝ) (y : ℕ → Matrix n n ℂ) (m : ℕ)
    (hy : ∀ k < m, y (k + 1) = lindFlow H Ls dt (y k)) : y m = lindFlow H Ls (m * dt) (y 0) := by
  induction m with
  | zero => simp [lindFlow_zero]
  | succ m ih =>
    rw [hy m (Nat.lt_succ_self m), ih (fun k hk => hy k (Nat.lt_succ_of_lt hk)), ← lindFlow_add]
    congr 2
    push_cast
    ring

end

end Yaqs.Consistency
