import YaqsModel.Lemmas.TomoComb
import YaqsModel.Lemmas.TomoWeights

/-!
bridge between the executable comb of `Model/TomoComb.lean` (ℚ(i), `fsum`, stored tables) and the matrix-level comb of
`Lemmas/TomoComb.lean`; links to the older model objects (`mapOfChoi`, `choiOf`, `choiB`, `applyBasisMap`).
-/

open Matrix

namespace Yaqs.Tomo
open Yaqs CRatT

theorem jsum_eq_sum (d : Nat) (f : Fin 2 × Fin d → CRatT) : jsum d f = ∑ z, f z := by
  simp only [jsum, fsum_eq_sum, Fintype.sum_prod_type]

/-- a model operator (a function of row and column index) seen as a Mathlib matrix -/
def toJoint {d : Nat} (X : JointE d) : Joint CRatT (Fin d) := X

theorem applyChoiE_eq (d : Nat) (J : M4) (X : JointE d) :
    toJoint (applyChoiE d J X) = applyChoi (toMat J) (toJoint X) := by
  funext x y
  simp only [applyChoiE, applyChoi, fsum_eq_sum, toMat, toJoint]

theorem evolveE_eq (d : Nat) (U X : JointE d) :
    toJoint (evolveE d U X) = evolve (toJoint U) (toJoint X) := by
  funext x y
  show evolveE d U X x y = (toJoint U * toJoint X * (toJoint U)ᴴ) x y
  rw [Matrix.mul_apply]
  simp only [Matrix.mul_apply, conjTranspose_apply, evolveE, mulAdjE, mulE, jsum_eq_sum]
  rfl

theorem ptraceE_eq (d : Nat) (X : JointE d) : toMat (ptraceE d X) = ptrace (toJoint X) := by
  funext a b
  simp only [ptraceE, ptrace, fsum_eq_sum, toMat, toJoint]

theorem stepE_eq (d : Nat) (U : JointE d) (J : M4) (X : JointE d) :
    toJoint (stepE d U J X) = evolve (toJoint U) (applyChoi (toMat J) (toJoint X)) := by
  rw [stepE, evolveE_eq, applyChoiE_eq]

/-- the executable state (list of slots) is the matrix-level state -/
theorem physStateE_ofFn : ∀ (k d : Nat) (U : Fin k → JointE d) (J : Fin k → M4) (X : JointE d),
    toJoint (physStateE d (List.ofFn fun t => (U t, J t)) X) =
      physState k (fun t => toJoint (U t)) (fun t => toMat (J t)) (toJoint X)
  | 0, _, _, _, _ => rfl
  | k + 1, d, U, J, X => by
    rw [List.ofFn_succ, physStateE, physState.eq_def]
    simp only
    rw [← stepE_eq]
    exact physStateE_ofFn k d (fun t => U t.succ) (fun t => J t.succ) _

theorem physCombE_ofFn (k d : Nat) (U : Fin k → JointE d) (J : Fin k → M4) (X : JointE d) (o : Fin 4) :
    physCombE d (List.ofFn fun t => (U t, J t)) X o =
      physComb k (fun t => toJoint (U t)) (toJoint X) (fun t => toMat (J t)) o := by
  rw [physComb, ← physStateE_ofFn, ← ptraceE_eq]
  rfl

/-! ### stored tables -/

theorem rd_tab {α : Type} [Inhabited α] {n : Nat} (f : Fin n → α) (i : Fin n) : rd (tab f) i = f i := by
  simp [rd, tab, Array.getD]

theorem readJ_tabJ (d : Nat) (X : JointE d) : readJ d (tabJ d X) = X := by
  funext x y
  simp only [readJ, tabJ, rd_tab]

theorem stepT_eq (d : Nat) (U : Tab) (J : M4) (X : Tab) :
    readJ d (stepT d U J X) = stepE d (readJ d U) J (readJ d X) := by
  simp only [stepT, readJ_tabJ, stepE, evolveE]

theorem physStateT_eq (d : Nat) : ∀ (segs : List (Tab × M4)) (X : Tab),
    readJ d (physStateT d segs X) = physStateE d (segs.map fun s => (readJ d s.1, s.2)) (readJ d X)
  | [], _ => rfl
  | (U, J) :: rest, X => by
    rw [physStateT, physStateT_eq d rest, List.map_cons, physStateE, stepT_eq]

/-- what the driver runs (every intermediate operator stored) equals the closure-level model -/
theorem physCombT_eq (d : Nat) (segs : List (JointE d × M4)) (X0 : JointE d) (o : Fin 4) :
    physCombT d (segs.map fun s => (tabJ d s.1, s.2)) (tabJ d X0) o = physCombE d segs X0 o := by
  rw [physCombT, physStateT_eq, readJ_tabJ, List.map_map]
  have : ((fun s : Tab × M4 => (readJ d s.1, s.2)) ∘ fun s : JointE d × M4 => (tabJ d s.1, s.2)) = id := by
    funext s
    simp only [Function.comp, readJ_tabJ, id]
  rw [this, List.map_id]
  rfl

/-! ### links to the older model objects -/

/-- on product operators: the first factor goes through `mapOfChoi J` (the inverse of the builder inside
    `predict_final_state`, `choi_roundtrip`), the second is untouched -/
theorem applyChoiE_product (d : Nat) (J : M4) (σ : M2) (τ : Fin d → Fin d → CRatT) :
    applyChoiE d J (fun x y => σ x.1 y.1 * τ x.2 y.2) = fun x y => mapOfChoi J σ x.1 y.1 * τ x.2 y.2 := by
  funext x y
  simp only [applyChoiE, mapOfChoi, fsum_eq_sum, idx4, Finset.sum_mul]
  refine Finset.sum_congr rfl fun i _ => Finset.sum_congr rfl fun j _ => ?_
  ring

/-- for the sixteen probes `applyChoiE` is the measure-and-prepare action `applyBasisMap` of `weights_step` -/
theorem applyChoiE_probe (d : Nat) (a : Fin 16) (X : JointE d) :
    applyChoiE d (choiB a) X = applyBasisMap d (choiIdx a).2 (choiIdx a).1 X := by
  funext x y
  simp only [applyChoiE, applyBasisMap, choiB, kron2, transpose2, hi_idx4, lo_idx4, fsum_eq_sum, Finset.mul_sum]
  refine Finset.sum_congr rfl fun i _ => Finset.sum_congr rfl fun j _ => ?_
  ring

/-- the builder inside `predict_final_state` applied to a map given by Kraus operators yields `Σ_n vec(A_n) vec(A_n)ᴴ` -/
theorem choiOf_kraus {ν : Type*} [Fintype ν] (A : ν → Matrix (Fin 2) (Fin 2) CRatT) :
    choiOf (fun σ a b => ∑ n, (A n * toMat σ * (A n)ᴴ) a b) = krausChoi A := by
  funext r c
  rw [choiOf_apply, krausChoi, Matrix.sum_apply]
  refine Finset.sum_congr rfl fun n _ => ?_
  simp only [Matrix.mul_apply, conjTranspose_apply, vecMulVec_apply, rowVec, Pi.star_apply,
    Fin.sum_univ_two]
  generalize lo r = i
  generalize lo c = j
  fin_cases i <;> fin_cases j <;> simp [toMat, unitM]

/-! ### the probes are rank-one: `B_{4p+m} = scale_p scale_m · vec(A) vec(A)ᴴ` with `A = |vec_p⟩⟨vec_m|` -/

/-- the (un-normalised) probe operator `|vec_p⟩⟨vec_m|` -/
def probeOp (a : Fin 16) : M2 := fun i j => psiVec (choiIdx a).1 i * conj (psiVec (choiIdx a).2 j)

/-- its normalisation `scale_p · scale_m` (the squared norms of `get_basis_states`) -/
def probeScale (a : Fin 16) : Rat := psiScale (choiIdx a).1 * psiScale (choiIdx a).2

theorem choiB_rank_one_entry : ∀ (a : Fin 16) (r c : Fin 4),
    choiB a r c = rsmul (probeScale a) (probeOp a (hi r) (lo r) * conj (probeOp a (hi c) (lo c))) := by
  decide +kernel

theorem choiB_rank_one (a : Fin 16) :
    toMat (choiB a) =
      ofRat (probeScale a) • vecMulVec (rowVec (toMat (probeOp a))) (star (rowVec (toMat (probeOp a)))) := by
  funext r c
  simp only [toMat, Matrix.smul_apply, vecMulVec_apply, rowVec, Pi.star_apply, star_def, smul_eq_mul,
    choiB_rank_one_entry a r c, rsmul_eq_mul]

/-- the table entry that the exact comb demands for a probe sequence `r`, from a pure initial state: the product of the
    normalisations times `Tr_env |φ⟩⟨φ|` of the vector-level run `φ = U_{k-1}(A_{r_{k-1}}⊗1) … U_0 (A_{r_0}⊗1) ψ₀` -/
theorem physComb_probes_pure (k d : Nat) (U : Fin k → JointE d) (ψ0 : Fin 2 × Fin d → CRatT) (r : Fin k → Fin 16)
    (o : Fin 4) :
    physComb k (fun t => toJoint (U t)) (vecMulVec ψ0 (star ψ0)) (fun t => toMat (choiB (r t))) o =
      (∏ t, ofRat (probeScale (r t))) *
        ptrace (vecMulVec (pureRun k (fun t => toJoint (U t)) (fun t => toMat (probeOp (r t))) ψ0)
          (star (pureRun k (fun t => toJoint (U t)) (fun t => toMat (probeOp (r t))) ψ0))) (hi o) (lo o) := by
  simp only [choiB_rank_one]
  rw [physComb_smul_univ, physComb, physState_pure]

theorem krausChoiE_ofFn : ∀ (n : Nat) (A : Fin n → M2),
    toMat (krausChoiE (List.ofFn A)) = krausChoi (fun i => toMat (A i))
  | 0, A => by
    funext r c
    simp [krausChoiE, krausChoi, toMat]
  | n + 1, A => by
    have ih := krausChoiE_ofFn n (fun i => A i.succ)
    funext r c
    have ih' := congrFun (congrFun ih r) c
    rw [krausChoi, Fin.sum_univ_succ, Matrix.add_apply, ← krausChoi, ← ih']
    simp only [krausChoiE, toMat, List.ofFn_succ, List.foldr_cons, vecMulVec_apply, rowVec, Pi.star_apply, star_def]

end Yaqs.Tomo
