import YaqsModel.Model.Lottery
import Mathlib.Algebra.BigOperators.Group.Finset.Basic
import Mathlib.Algebra.Order.Ring.Rat
import Mathlib.Tactic.Ring
import Mathlib.Tactic.LinearCombination

/-!
# Lemmas.PauliNorm — a unitary local operator does not change the dense squared norm (list model of `Model/Lottery.lean`)

`create_probability_distribution` writes the weight `dt·γ·state.norm(site)` for a Pauli pair instead of `dt·γ·‖L ψ̃‖²`.  In the
dense model this is `wTwo … n` versus `denseNrm L v p`; the two agree when the operator is unitary.  This file proves it in the
list model itself (no Matrix bridge): the sum over the `2^L` positions of `apply1` / `apply2` is regrouped into the blocks the
bit arithmetic of those functions addresses (`sum_blocks`, `sum_blocks4`), and inside one block the statement is the
polynomial identity `Σ_r |Σ_c m_rc x_c|² = Σ_c |x_c|²` that follows from `mᴴ m = 1` (`pair_norm`, `quad_norm`).
-/
namespace Yaqs.Lottery
open Finset

/-! ## `mᴴ m = 1` for a `d×d` list matrix -/

def cOne : CR := ⟨1, 0⟩

/-- entry `(c, c')` of `mᴴ m` -/
def gram (d : Nat) (m : Mat) (c c' : Nat) : CR :=
  (List.range d).foldl (fun acc r => CR.add acc (CR.mul (CR.conj (matGet m r c)) (matGet m r c'))) CR.zero

/-- `mᴴ m` -/
def dagMul (d : Nat) (m : Mat) : Mat := (List.range d).map fun c => (List.range d).map fun c' => gram d m c c'

/-- the `d×d` identity -/
def idMat (d : Nat) : Mat := (List.range d).map fun c => (List.range d).map fun c' => if c = c' then cOne else CR.zero

/-- `mᴴ m = 1` (entries outside the `d×d` frame are not looked at) -/
def IsUnitary (d : Nat) (m : Mat) : Prop := dagMul d m = idMat d

instance (d : Nat) (m : Mat) : Decidable (IsUnitary d m) := by unfold IsUnitary; infer_instance

/-- `np.kron(a, b)` of two 2×2 matrices: row `2·r₁ + r₂`, column `2·c₁ + c₂` -/
def kron2 (a b : Mat) : Mat :=
  (List.range 4).map fun r => (List.range 4).map fun c => CR.mul (matGet a (r / 2) (c / 2)) (matGet b (r % 2) (c % 2))

/-- `NoiseLibrary.pauli_x/y/z().matrix` (= `PAULI_MAP`) -/
def pX : Mat := [[⟨0, 0⟩, ⟨1, 0⟩], [⟨1, 0⟩, ⟨0, 0⟩]]
def pY : Mat := [[⟨0, 0⟩, ⟨0, -1⟩], [⟨0, 1⟩, ⟨0, 0⟩]]
def pZ : Mat := [[⟨1, 0⟩, ⟨0, 0⟩], [⟨0, 0⟩, ⟨-1, 0⟩]]
def pauliMats : List Mat := [pX, pY, pZ]

/-! ## one block: the polynomial identities -/

theorem pair_norm (m : Mat) (h : IsUnitary 2 m) (x y : CR) :
    CR.normSq (CR.add (CR.mul (matGet m 0 0) x) (CR.mul (matGet m 0 1) y)) +
      CR.normSq (CR.add (CR.mul (matGet m 1 0) x) (CR.mul (matGet m 1 1) y)) = CR.normSq x + CR.normSq y := by
  unfold IsUnitary dagMul idMat at h
  simp only [show List.range 2 = [0, 1] from rfl, List.map_cons, List.map_nil, List.cons.injEq, and_true, gram,
    List.foldl_cons, List.foldl_nil] at h
  obtain ⟨⟨h00, h01⟩, _, h11⟩ := h
  generalize matGet m 0 0 = a at *
  generalize matGet m 0 1 = b at *
  generalize matGet m 1 0 = c at *
  generalize matGet m 1 1 = d at *
  obtain ⟨ar, ai⟩ := a
  obtain ⟨br, bi⟩ := b
  obtain ⟨cr, ci⟩ := c
  obtain ⟨dr, di⟩ := d
  obtain ⟨xr, xi⟩ := x
  obtain ⟨yr, yi⟩ := y
  simp only [CR.add, CR.mul, CR.conj, CR.zero, cOne, CR.mk.injEq, if_true, if_false, zero_ne_one] at h00 h01 h11
  simp only [CR.normSq, CR.add, CR.mul]
  linear_combination (xr * xr + xi * xi) * h00.1 + (yr * yr + yi * yi) * h11.1
    + 2 * (xr * yr + xi * yi) * h01.1 - 2 * (xr * yi - xi * yr) * h01.2

/-! ## regrouping the sum over the dense positions -/

theorem vecNormSq_map_range (N : Nat) (g : Nat → CR) :
    vecNormSq ((List.range N).map g) = ∑ i ∈ range N, CR.normSq (g i) := by
  unfold vecNormSq
  induction N with
  | zero => simp
  | succ n ih =>
    rw [List.range_succ, List.map_append, List.map_append, List.sum_append, ih, Finset.sum_range_succ]
    simp

theorem vecNormSq_eq_sum (v : Vec) : vecNormSq v = ∑ i ∈ range v.length, CR.normSq (vecGet v i) := by
  induction v with
  | nil => simp [vecNormSq]
  | cons a t ih =>
    rw [List.length_cons, Finset.sum_range_succ']
    unfold vecNormSq vecGet at *
    simp only [List.map_cons, List.sum_cons, List.getD_cons_succ, List.getD_cons_zero, ih]
    ring

theorem apply1_length (L s : Nat) (m : Mat) (v : Vec) : (apply1 L s m v).length = v.length := by
  simp [apply1]

theorem apply2_length (L i j : Nat) (m : Mat) (v : Vec) : (apply2 L i j m v).length = v.length := by
  simp [apply2]

/-- blocks of `2·st`: lower half `st·(2k) + j`, upper half `st·(2k+1) + j` -/
theorem sum_blocks (st K : Nat) (F : Nat → Rat) :
    ∑ i ∈ range (st * (2 * K)), F i =
      ∑ k ∈ range K, ∑ j ∈ range st, (F (st * (2 * k) + j) + F (st * (2 * k + 1) + j)) := by
  induction K with
  | zero => simp
  | succ K ih =>
    have e : st * (2 * (K + 1)) = st * (2 * K) + (st + st) := by ring
    rw [e, Finset.sum_range_add, ih, Finset.sum_range_succ, Finset.sum_range_add, Finset.sum_add_distrib]
    congr 2
    apply Finset.sum_congr rfl
    intro j _
    congr 1
    ring


/-- **one-site operator** `apply1` with a unitary 2×2 matrix keeps the dense squared norm (all register lengths, all sites) -/
theorem apply1_norm (L s : Nat) (m : Mat) (v : Vec) (hm : IsUnitary 2 m) (hs : s < L) (hv : v.length = 2 ^ L) :
    vecNormSq (apply1 L s m v) = vecNormSq v := by
  obtain ⟨r, rfl⟩ : ∃ r, L = s + 1 + r := ⟨L - s - 1, by omega⟩
  have hst : s + 1 + r - 1 - s = r := by omega
  have hN : v.length = 2 ^ r * (2 * 2 ^ s) := by rw [hv]; ring
  rw [vecNormSq_eq_sum v]
  unfold apply1
  simp only [hst]
  rw [vecNormSq_map_range, hN, sum_blocks, sum_blocks]
  apply sum_congr rfl
  intro k _
  apply sum_congr rfl
  intro j hj
  have hj := mem_range.mp hj
  have hpos : 0 < 2 ^ r := Nat.pow_pos (by omega)
  generalize 2 ^ r = T at *
  have d0 : (T * (2 * k) + j) / T = 2 * k := by
    have := Nat.mul_add_div hpos (2 * k) j; rw [Nat.div_eq_of_lt hj] at this; omega
  have d1 : (T * (2 * k + 1) + j) / T = 2 * k + 1 := by
    have := Nat.mul_add_div hpos (2 * k + 1) j; rw [Nat.div_eq_of_lt hj] at this; omega
  have m0 : 2 * k % 2 = 0 := by omega
  have m1 : (2 * k + 1) % 2 = 1 := by omega
  have e1 : T * (2 * k + 1) = T * (2 * k) + T := by ring
  have b1 : T * (2 * k + 1) + j - 1 * T = T * (2 * k) + j := by rw [e1]; omega
  have b2 : T * (2 * k) + j + T = T * (2 * k + 1) + j := by rw [e1]; omega
  simp only [d0, d1, m0, m1, b1, b2, Nat.zero_mul, Nat.sub_zero]
  exact pair_norm m hm _ _


theorem quad_norm (m : Mat) (h : IsUnitary 4 m) (x0 x1 x2 x3 : CR) :
    CR.normSq (CR.add (CR.add (CR.mul (matGet m 0 0) x0) (CR.mul (matGet m 0 1) x1)) (CR.add (CR.mul (matGet m 0 2) x2) (CR.mul (matGet m 0 3) x3))) +
      CR.normSq (CR.add (CR.add (CR.mul (matGet m 1 0) x0) (CR.mul (matGet m 1 1) x1)) (CR.add (CR.mul (matGet m 1 2) x2) (CR.mul (matGet m 1 3) x3))) +
      CR.normSq (CR.add (CR.add (CR.mul (matGet m 2 0) x0) (CR.mul (matGet m 2 1) x1)) (CR.add (CR.mul (matGet m 2 2) x2) (CR.mul (matGet m 2 3) x3))) +
      CR.normSq (CR.add (CR.add (CR.mul (matGet m 3 0) x0) (CR.mul (matGet m 3 1) x1)) (CR.add (CR.mul (matGet m 3 2) x2) (CR.mul (matGet m 3 3) x3)))
      = CR.normSq x0 + CR.normSq x1 + CR.normSq x2 + CR.normSq x3 := by
  unfold IsUnitary dagMul idMat at h
  simp only [show List.range 4 = [0, 1, 2, 3] from rfl, List.map_cons, List.map_nil, List.cons.injEq, and_true, gram,
    List.foldl_cons, List.foldl_nil] at h
  obtain ⟨⟨h00, h01, h02, h03⟩, ⟨_, h11, h12, h13⟩, ⟨_, _, h22, h23⟩, ⟨_, _, _, h33⟩⟩ := h
  generalize matGet m 0 0 = a00 at *
  generalize matGet m 0 1 = a01 at *
  generalize matGet m 0 2 = a02 at *
  generalize matGet m 0 3 = a03 at *
  generalize matGet m 1 0 = a10 at *
  generalize matGet m 1 1 = a11 at *
  generalize matGet m 1 2 = a12 at *
  generalize matGet m 1 3 = a13 at *
  generalize matGet m 2 0 = a20 at *
  generalize matGet m 2 1 = a21 at *
  generalize matGet m 2 2 = a22 at *
  generalize matGet m 2 3 = a23 at *
  generalize matGet m 3 0 = a30 at *
  generalize matGet m 3 1 = a31 at *
  generalize matGet m 3 2 = a32 at *
  generalize matGet m 3 3 = a33 at *
  obtain ⟨a00r, a00i⟩ := a00
  obtain ⟨a01r, a01i⟩ := a01
  obtain ⟨a02r, a02i⟩ := a02
  obtain ⟨a03r, a03i⟩ := a03
  obtain ⟨a10r, a10i⟩ := a10
  obtain ⟨a11r, a11i⟩ := a11
  obtain ⟨a12r, a12i⟩ := a12
  obtain ⟨a13r, a13i⟩ := a13
  obtain ⟨a20r, a20i⟩ := a20
  obtain ⟨a21r, a21i⟩ := a21
  obtain ⟨a22r, a22i⟩ := a22
  obtain ⟨a23r, a23i⟩ := a23
  obtain ⟨a30r, a30i⟩ := a30
  obtain ⟨a31r, a31i⟩ := a31
  obtain ⟨a32r, a32i⟩ := a32
  obtain ⟨a33r, a33i⟩ := a33
  obtain ⟨x0r, x0i⟩ := x0
  obtain ⟨x1r, x1i⟩ := x1
  obtain ⟨x2r, x2i⟩ := x2
  obtain ⟨x3r, x3i⟩ := x3
  simp only [CR.add, CR.mul, CR.conj, CR.zero, cOne, CR.mk.injEq, ↓reduceIte, Nat.reduceEqDiff]
    at h00 h01 h02 h03 h11 h12 h13 h22 h23 h33
  simp only [CR.normSq, CR.add, CR.mul]
  linear_combination (x0r * x0r + x0i * x0i) * h00.1
    + (x1r * x1r + x1i * x1i) * h11.1
    + (x2r * x2r + x2i * x2i) * h22.1
    + (x3r * x3r + x3i * x3i) * h33.1
    + 2 * (x0r * x1r + x0i * x1i) * h01.1 - 2 * (x0r * x1i - x0i * x1r) * h01.2
    + 2 * (x0r * x2r + x0i * x2i) * h02.1 - 2 * (x0r * x2i - x0i * x2r) * h02.2
    + 2 * (x0r * x3r + x0i * x3i) * h03.1 - 2 * (x0r * x3i - x0i * x3r) * h03.2
    + 2 * (x1r * x2r + x1i * x2i) * h12.1 - 2 * (x1r * x2i - x1i * x2r) * h12.2
    + 2 * (x1r * x3r + x1i * x3i) * h13.1 - 2 * (x1r * x3i - x1i * x3r) * h13.2
    + 2 * (x2r * x3r + x2i * x3i) * h23.1 - 2 * (x2r * x3i - x2i * x3r) * h23.2

/-- blocks of `4·t`: quarter `q` of block `k` is `t·(4k+q) + u` -/
theorem sum_blocks4 (t K : Nat) (F : Nat → Rat) :
    ∑ i ∈ range (t * (4 * K)), F i =
      ∑ k ∈ range K, ∑ u ∈ range t,
        (F (t * (4 * k) + u) + F (t * (4 * k + 1) + u) + F (t * (4 * k + 2) + u) + F (t * (4 * k + 3) + u)) := by
  induction K with
  | zero => simp
  | succ K ih =>
    have e : t * (4 * (K + 1)) = t * (4 * K) + (t + t + t + t) := by ring
    rw [e, Finset.sum_range_add, ih, Finset.sum_range_succ, Finset.sum_range_add, Finset.sum_range_add,
      Finset.sum_range_add, Finset.sum_add_distrib, Finset.sum_add_distrib, Finset.sum_add_distrib]
    congr 2
    congr 1
    congr 1
    · apply Finset.sum_congr rfl; intro u _; congr 1; ring
    · apply Finset.sum_congr rfl; intro u _; congr 1; ring
    · apply Finset.sum_congr rfl; intro u _; congr 1; ring


/-- **adjacent two-site operator** `apply2` on `(i, i+1)` with a unitary 4×4 matrix keeps the dense squared norm -/
theorem apply2_norm (L i : Nat) (m : Mat) (v : Vec) (hm : IsUnitary 4 m) (hi : i + 1 < L) (hv : v.length = 2 ^ L) :
    vecNormSq (apply2 L i (i + 1) m v) = vecNormSq v := by
  obtain ⟨r, rfl⟩ : ∃ r, L = i + 2 + r := ⟨L - i - 2, by omega⟩
  have hsi : i + 2 + r - 1 - i = r + 1 := by omega
  have hsj : i + 2 + r - 1 - (i + 1) = r := by omega
  have hN : v.length = 2 ^ r * (4 * 2 ^ i) := by rw [hv]; ring
  rw [vecNormSq_eq_sum v]
  unfold apply2
  simp only [hsi, hsj, pow_succ]
  rw [vecNormSq_map_range, hN, sum_blocks4, sum_blocks4]
  apply sum_congr rfl
  intro k _
  apply sum_congr rfl
  intro u hu
  have hu := mem_range.mp hu
  have hpos : 0 < 2 ^ r := Nat.pow_pos (by omega)
  generalize 2 ^ r = T at *
  have dj : ∀ q, (T * (4 * k + q) + u) / T = 4 * k + q := by
    intro q
    have := Nat.mul_add_div hpos (4 * k + q) u; rw [Nat.div_eq_of_lt hu] at this; omega
  have di : ∀ q, (T * (4 * k + q) + u) / (T * 2) = (4 * k + q) / 2 := by
    intro q; rw [← Nat.div_div_eq_div_mul, dj]
  have dj0 := dj 0
  have di0 := di 0
  simp only [Nat.add_zero] at dj0 di0
  have e1 : T * (4 * k + 1) = T * (4 * k) + T := by ring
  have e2 : T * (4 * k + 2) = T * (4 * k) + T * 2 := by ring
  have e3 : T * (4 * k + 3) = T * (4 * k) + T * 2 + T := by ring
  have c0 : (4 * k) / 2 % 2 = 0 ∧ (4 * k) % 2 = 0 := by omega
  have c1 : (4 * k + 1) / 2 % 2 = 0 ∧ (4 * k + 1) % 2 = 1 := by omega
  have c2 : (4 * k + 2) / 2 % 2 = 1 ∧ (4 * k + 2) % 2 = 0 := by omega
  have c3 : (4 * k + 3) / 2 % 2 = 1 ∧ (4 * k + 3) % 2 = 1 := by omega
  simp only [dj, di, dj0, di0, c0.1, c0.2, c1.1, c1.2, c2.1, c2.2, c3.1, c3.2]
  have b1 : T * (4 * k + 1) + u - 0 * (T * 2) - 1 * T = T * (4 * k) + u := by rw [e1]; omega
  have b2 : T * (4 * k + 2) + u - 1 * (T * 2) - 0 * T = T * (4 * k) + u := by rw [e2]; omega
  have b3 : T * (4 * k + 3) + u - 1 * (T * 2) - 1 * T = T * (4 * k) + u := by rw [e3]; omega
  have b0 : T * (4 * k) + u - 0 * (T * 2) - 0 * T = T * (4 * k) + u := by omega
  have a1 : T * (4 * k) + u + T = T * (4 * k + 1) + u := by rw [e1]; omega
  have a2 : T * (4 * k) + u + T * 2 = T * (4 * k + 2) + u := by rw [e2]; omega
  have a3 : T * (4 * k + 2) + u + T = T * (4 * k + 3) + u := by rw [e3, e2]; omega
  simp only [b0, b1, b2, b3, a1, a2, a3, Nat.mul_zero, Nat.mul_one, Nat.add_zero, Nat.zero_add, Nat.reduceAdd]
  exact quad_norm m hm _ _ _ _


/-! ## two-site processes whose operator is unitary -/

/-- a two-site process the way `NoiseModel.__init__` fills it (sites sorted; adjacent → `matrix`, otherwise `factors`) whose
    operator is unitary: 4×4 unitary matrix on `(i, i+1)`, or two unitary 2×2 factors on distinct non-adjacent sites (either
    order) -/
def UnitaryPair (L : Nat) (p : Proc) : Prop :=
  match p.sites, p.op with
  | [i, j], .factors a b => i < L ∧ j < L ∧ isLongrange p = true ∧ IsUnitary 2 a ∧ IsUnitary 2 b
  | [i, j], .mat m => j = i + 1 ∧ j < L ∧ IsUnitary 4 m
  | _, _ => False

instance (L : Nat) (p : Proc) : Decidable (UnitaryPair L p) := by
  unfold UnitaryPair; split <;> infer_instance

theorem unitaryPair_norm (L : Nat) (v : Vec) (p : Proc) (hv : v.length = 2 ^ L) (hp : p.pauli = true)
    (hu : UnitaryPair L p) : denseNrm L v p = vecNormSq v := by
  unfold UnitaryPair at hu
  split at hu
  · rename_i i j a b hs hop
    obtain ⟨hi, hj, hl, ha, hb⟩ := hu
    unfold denseNrm applyProc
    rw [hs]
    simp only [hp, hl, Bool.and_self, if_true, hop]
    rw [apply1_norm _ _ _ _ hb hj (by rw [apply1_length]; exact hv), apply1_norm _ _ _ _ ha hi hv]
  · rename_i i j m hs hop
    obtain ⟨rfl, hj, hm⟩ := hu
    have hl : isLongrange p = false := by
      unfold isLongrange; rw [hs]; simp; omega
    unfold denseNrm applyProc
    rw [hs]
    simp only [hp, hl, Bool.and_false, Bool.false_eq_true, if_false, hop]
    exact apply2_norm L i m v hm hj hv
  · exact absurd hu id

end Yaqs.Lottery
