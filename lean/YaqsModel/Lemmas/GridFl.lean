import YaqsModel.Lemmas.Grid
import Mathlib.Algebra.Order.Field.Power
import Mathlib.Data.Rat.Lemmas

/-! the executable rounding function `fl` satisfies the standard model of floating-point arithmetic -/
namespace Yaqs.Grid

theorem pow2_eq_zpow (e : Int) : pow2 e = (2 : Rat) ^ e := by
  unfold pow2
  split
  · rename_i h
    obtain ⟨n, rfl⟩ := Int.eq_ofNat_of_zero_le h
    simp
  · rename_i h
    obtain ⟨n, rfl⟩ := Int.exists_eq_neg_ofNat (le_of_lt (not_le.mp h))
    simp [zpow_neg]

theorem rne_err (x : Rat) : -(1 / 2) ≤ (rne x : Rat) - x ∧ (rne x : Rat) - x ≤ 1 / 2 := by
  unfold rne
  have h1 := Rat.floor_le x
  have h2 := Rat.lt_floor_add_one x
  push_cast at h2
  simp only
  split_ifs <;> push_cast <;> constructor <;> linarith

/-- `expo` brackets a positive rational between consecutive powers of two -/
theorem expo_spec (a : Rat) (ha : 0 < a) : (2 : Rat) ^ (expo a) ≤ a ∧ a < (2 : Rat) ^ (expo a + 1) := by
  have hnum : 0 < a.num := Rat.num_pos.mpr ha
  have hN0 : a.num.natAbs ≠ 0 := by omega
  have hD0 : a.den ≠ 0 := a.den_nz
  -- integer brackets
  have hA1 : 2 ^ (Nat.log2 a.num.natAbs) ≤ a.num.natAbs := Nat.log2_self_le hN0
  have hA2 : a.num.natAbs < 2 ^ (Nat.log2 a.num.natAbs + 1) := Nat.lt_log2_self
  have hB1 : 2 ^ (Nat.log2 a.den) ≤ a.den := Nat.log2_self_le hD0
  have hB2 : a.den < 2 ^ (Nat.log2 a.den + 1) := Nat.lt_log2_self
  -- the same over the rationals
  set lN := Nat.log2 a.num.natAbs with hlN
  set lD := Nat.log2 a.den with hlD
  have hNq : (a.num.natAbs : Rat) = (a.num : Rat) := by
    rw [← Int.cast_natCast, Int.natAbs_of_nonneg (le_of_lt hnum)]
  have hA1q : (2 : Rat) ^ lN ≤ (a.num : Rat) := by rw [← hNq]; exact_mod_cast hA1
  have hA2q : (a.num : Rat) < 2 * (2 : Rat) ^ lN := by
    rw [← hNq]
    have : ((a.num.natAbs : Nat) : Rat) < ((2 ^ (lN + 1) : Nat) : Rat) := by exact_mod_cast hA2
    rw [pow_succ] at this
    push_cast at this
    linarith
  have hB1q : (2 : Rat) ^ lD ≤ (a.den : Rat) := by exact_mod_cast hB1
  have hB2q : (a.den : Rat) < 2 * (2 : Rat) ^ lD := by
    have : ((a.den : Nat) : Rat) < ((2 ^ (lD + 1) : Nat) : Rat) := by exact_mod_cast hB2
    rw [pow_succ] at this
    push_cast at this
    linarith
  have hAp : (0 : Rat) < (2 : Rat) ^ lN := by positivity
  have hBp : (0 : Rat) < (2 : Rat) ^ lD := by positivity
  have hDp : (0 : Rat) < (a.den : Rat) := by exact_mod_cast Nat.pos_of_ne_zero hD0
  have haD : a * (a.den : Rat) = (a.num : Rat) := Rat.mul_den_eq_num a
  -- powers of two with integer exponents
  have he0 : (2 : Rat) ^ ((lN : Int) - (lD : Int)) = (2 : Rat) ^ lN / (2 : Rat) ^ lD := by
    rw [zpow_sub₀ (by norm_num : (2 : Rat) ≠ 0), zpow_natCast, zpow_natCast]
  have hup : a < 2 * ((2 : Rat) ^ lN / (2 : Rat) ^ lD) := by
    rw [← mul_div_assoc, lt_div_iff₀ hBp]
    have : a * (2 : Rat) ^ lD ≤ a * (a.den : Rat) := mul_le_mul_of_nonneg_left hB1q (le_of_lt ha)
    linarith
  have hlo : (2 : Rat) ^ lN / (2 : Rat) ^ lD / 2 < a := by
    rw [div_div, div_lt_iff₀ (by positivity)]
    have : a * (a.den : Rat) < a * (2 * (2 : Rat) ^ lD) := mul_lt_mul_of_pos_left hB2q ha
    calc (2 : Rat) ^ lN ≤ (a.num : Rat) := hA1q
      _ = a * (a.den : Rat) := haD.symm
      _ < a * (2 * (2 : Rat) ^ lD) := this
      _ = a * ((2 : Rat) ^ lD * 2) := by ring
  unfold expo
  simp only [← hlN, ← hlD, pow2_eq_zpow]
  split
  · rename_i hlt
    constructor
    · rw [zpow_sub₀ (by norm_num : (2 : Rat) ≠ 0), he0, zpow_one]
      exact le_of_lt hlo
    · have : ((lN : Int) - (lD : Int) - 1 + 1) = (lN : Int) - (lD : Int) := by ring
      rw [this]
      exact hlt
  · rename_i hge
    constructor
    · exact le_of_not_gt hge
    · rw [zpow_add₀ (by norm_num : (2 : Rat) ≠ 0), he0, zpow_one]
      linarith

/-- rounding a positive rational to 53 significant bits: relative error at most `2⁻⁵³` -/
theorem round53_err (a : Rat) (ha : 0 < a) :
    -(a / 2 ^ 53) ≤ (rne (a / pow2 (expo a - 52)) : Rat) * pow2 (expo a - 52) - a ∧
    (rne (a / pow2 (expo a - 52)) : Rat) * pow2 (expo a - 52) - a ≤ a / 2 ^ 53 := by
  have hP : (0 : Rat) < pow2 (expo a - 52) := by rw [pow2_eq_zpow]; positivity
  have hsplit : (2 : Rat) ^ (expo a) = pow2 (expo a - 52) * 2 ^ 52 := by
    rw [pow2_eq_zpow, zpow_sub₀ (by norm_num : (2 : Rat) ≠ 0)]
    have : ((2 : Rat) ^ (52 : Int)) = 2 ^ 52 := by norm_cast
    rw [this]
    field_simp
  have hge : pow2 (expo a - 52) * 2 ^ 52 ≤ a := by rw [← hsplit]; exact (expo_spec a ha).1
  have herr := rne_err (a / pow2 (expo a - 52))
  have hxa : a / pow2 (expo a - 52) * pow2 (expo a - 52) = a := by field_simp
  have hform : (rne (a / pow2 (expo a - 52)) : Rat) * pow2 (expo a - 52) - a
      = ((rne (a / pow2 (expo a - 52)) : Rat) - a / pow2 (expo a - 52)) * pow2 (expo a - 52) := by
    rw [sub_mul, hxa]
  rw [hform]
  have hhalf : pow2 (expo a - 52) / 2 ≤ a / 2 ^ 53 := by
    rw [div_le_div_iff₀ (by norm_num) (by norm_num)]
    nlinarith
  constructor
  · have := mul_le_mul_of_nonneg_right herr.1 (le_of_lt hP)
    linarith
  · have := mul_le_mul_of_nonneg_right herr.2 (le_of_lt hP)
    linarith

/-- **the standard model holds for the executable `fl`**: `fl q = q (1 + δ)` with `|δ| ≤ 2⁻⁵³`, for every rational -/
theorem fl_standard_model (q : Rat) : Rounds u64 (fl q) q := by
  by_cases hq : q = 0
  · subst hq
    exact ⟨0, by decide +kernel, by simp [fl]⟩
  · unfold fl
    rw [if_neg hq]
    simp only
    have ha : 0 < absQ q := by
      unfold absQ
      split
      · linarith
      · rcases lt_or_gt_of_ne hq with h | h
        · exact absurd h ‹_›
        · exact h
    obtain ⟨h1, h2⟩ := round53_err (absQ q) ha
    set r := (rne (absQ q / pow2 (expo (absQ q) - 52)) : Rat) * pow2 (expo (absQ q) - 52) with hr
    refine ⟨(r - absQ q) / absQ q, ?_, ?_⟩
    · rw [absQ_le_iff]
      unfold u64
      constructor
      · rw [le_div_iff₀ ha]; linarith
      · rw [div_le_iff₀ ha]; linarith
    · have hane : absQ q ≠ 0 := ne_of_gt ha
      by_cases hneg : q < 0
      · rw [if_pos hneg]
        have : absQ q = -q := by unfold absQ; rw [if_pos hneg]
        have hq' : q = -absQ q := by rw [this]; ring
        rw [this] at hane ⊢
        field_simp
        ring
      · rw [if_neg hneg]
        have : absQ q = q := by unfold absQ; rw [if_neg hneg]
        rw [this] at hane ⊢
        field_simp
        ring

/-- proof of `grid_steps` (stated in `Props/C15.lean`) -/
theorem grid_steps_aux (dt T q : Rat) (k : Nat) (hdt : 0 < dt) (hk : k < 2 ^ 40)
    (hT : Rounds (1 / 2 ^ 52) T ((k : Rat) * dt)) (hq : Rounds u64 q (T / dt)) : rne q = (k : Int) := by
  obtain ⟨d0, h0, rfl⟩ := hT
  obtain ⟨d1, h1, rfl⟩ := hq
  have hne : dt ≠ 0 := ne_of_gt hdt
  have hform : (k : Rat) * dt * (1 + d0) / dt * (1 + d1) = (k : Rat) + (k : Rat) * ((1 + d0) * (1 + d1) - 1) := by
    field_simp
    ring
  rw [hform]
  have he := two_roundings d0 d1 h0 h1
  rw [absQ_le_iff] at he
  have hk0 : (0 : Rat) ≤ (k : Rat) := Nat.cast_nonneg k
  have hk' : (k : Rat) ≤ 2 ^ 40 := by exact_mod_cast Nat.le_of_lt hk
  have hup : (k : Rat) * ((1 + d0) * (1 + d1) - 1) ≤ 2 ^ 40 * (1 / 2 ^ 51) :=
    le_trans (mul_le_mul_of_nonneg_left he.2 hk0) (mul_le_mul_of_nonneg_right hk' (by norm_num))
  have hlo : -(2 ^ 40 * (1 / 2 ^ 51) : Rat) ≤ (k : Rat) * ((1 + d0) * (1 + d1) - 1) := by
    have h1 : (k : Rat) * (-(1 / 2 ^ 51)) ≤ (k : Rat) * ((1 + d0) * (1 + d1) - 1) :=
      mul_le_mul_of_nonneg_left he.1 hk0
    have h2 : (k : Rat) * (1 / 2 ^ 51) ≤ 2 ^ 40 * (1 / 2 ^ 51) := mul_le_mul_of_nonneg_right hk' (by norm_num)
    linarith
  have hsmall : (2 ^ 40 * (1 / 2 ^ 51) : Rat) < 1 / 2 := by norm_num
  apply rne_eq_of_near
  · push_cast; linarith
  · push_cast; linarith

/-- proof of `grid_points` (stated in `Props/C15.lean`) -/
theorem grid_points_aux (dt T stop step : Rat) (k : Nat) (hk : 1 ≤ k) (hdt : 0 < dt)
    (hT : Rounds (1 / 2 ^ 52) T ((k : Rat) * dt))
    (hs : Rounds u64 stop ((k : Rat) * dt)) (hst : Rounds u64 step (stop / (k : Rat))) :
    (∀ (i : Nat) (t : Rat), Rounds u64 t ((i : Rat) * step) →
        absQ (t - (i : Rat) * dt) ≤ (i : Rat) * dt / 2 ^ 51) ∧
    (∀ t : Rat, Rounds u64 t ((0 : Nat) * step) → t = 0) ∧
    absQ (stop - T) ≤ (k : Rat) * dt * (3 / 2 ^ 53) := by
  obtain ⟨a, ha, rfl⟩ := hs
  obtain ⟨b, hb, rfl⟩ := hst
  have hk0 : (k : Rat) ≠ 0 := by
    have : (1 : Rat) ≤ (k : Rat) := by exact_mod_cast hk
    linarith
  refine ⟨?_, ?_, ?_⟩
  · intro i t ht
    obtain ⟨c, hc, rfl⟩ := ht
    have hform : (i : Rat) * ((k : Rat) * dt * (1 + a) / (k : Rat) * (1 + b)) * (1 + c) - (i : Rat) * dt
        = ((i : Rat) * dt) * ((1 + a) * (1 + b) * (1 + c) - 1) := by
      field_simp
    rw [hform]
    have he := three_roundings a b c ha hb hc
    rw [absQ_le_iff] at he ⊢
    have hid : (0 : Rat) ≤ (i : Rat) * dt := mul_nonneg (Nat.cast_nonneg i) (le_of_lt hdt)
    constructor
    · have := mul_le_mul_of_nonneg_left he.1 hid
      linarith
    · have := mul_le_mul_of_nonneg_left he.2 hid
      linarith
  · intro t ht
    obtain ⟨c, _, rfl⟩ := ht
    simp
  · obtain ⟨d0, h0, rfl⟩ := hT
    have hform : (k : Rat) * dt * (1 + a) - (k : Rat) * dt * (1 + d0) = ((k : Rat) * dt) * (a - d0) := by ring
    rw [hform]
    rw [absQ_le_iff] at ha h0 ⊢
    unfold u64 at ha
    have hkd : (0 : Rat) ≤ (k : Rat) * dt := mul_nonneg (Nat.cast_nonneg k) (le_of_lt hdt)
    have h1 : a - d0 ≤ 3 / 2 ^ 53 := by norm_num at ha h0 ⊢; linarith [ha.2, h0.1]
    have h2 : -(3 / 2 ^ 53 : Rat) ≤ a - d0 := by norm_num at ha h0 ⊢; linarith [ha.1, h0.2]
    constructor
    · have := mul_le_mul_of_nonneg_left h2 hkd
      linarith
    · have := mul_le_mul_of_nonneg_left h1 hkd
      linarith

/-- proof of `grid_exec` (stated in `Props/C15.lean`) -/
theorem grid_exec_aux (T dt : Rat) (k : Nat) (hdt : 0 < dt) (hk1 : 1 ≤ k) (hk : k < 2 ^ 40)
    (hT : Rounds (1 / 2 ^ 52) T ((k : Rat) * dt)) :
    timesQ T dt = some ((List.range (k + 1)).map (pointQ k dt)) ∧
    pointQ k dt 0 = 0 ∧
    (∀ i : Nat, i ≤ k → absQ (pointQ k dt i - (i : Rat) * dt) ≤ (i : Rat) * dt / 2 ^ 51) ∧
    absQ (pointQ k dt k - T) ≤ (k : Rat) * dt * (3 / 2 ^ 53) := by
  have hsteps : numStepsQ T dt = (k : Int) :=
    grid_steps_aux dt T (fl (T / dt)) k hdt hk hT (fl_standard_model _)
  have hs := fl_standard_model ((k : Rat) * dt)
  have hst := fl_standard_model (fl ((k : Rat) * dt) / (k : Rat))
  have gp := grid_points_aux dt T (fl ((k : Rat) * dt)) (fl (fl ((k : Rat) * dt) / (k : Rat))) k hk1 hdt hT hs hst
  have hkq : (1 : Rat) ≤ (k : Rat) := by exact_mod_cast hk1
  -- the step is not zero
  have hstep : fl (fl ((k : Rat) * dt) / (k : Rat)) ≠ 0 := by
    obtain ⟨a, ha, hsa⟩ := hs
    obtain ⟨b, hb, hsb⟩ := hst
    rw [hsb, hsa]
    rw [absQ_le_iff] at ha hb
    unfold u64 at ha hb
    have h1 : 0 < 1 + a := by norm_num at ha; linarith [ha.1]
    have h2 : 0 < 1 + b := by norm_num at hb; linarith [hb.1]
    have hk0 : (0 : Rat) < (k : Rat) := by linarith
    have : 0 < (k : Rat) * dt * (1 + a) / (k : Rat) * (1 + b) := by positivity
    exact ne_of_gt this
  refine ⟨?_, ?_, ?_, ?_⟩
  · unfold timesQ lenQ
    rw [if_neg (ne_of_gt hdt)]
    simp only [hsteps]
    have h1 : ¬ ((k : Int) < -1) := by omega
    have h2 : ((k : Int) + 1).toNat = k + 1 := by omega
    simp [h1, h2]
  · unfold pointQ
    have : ¬ (0 = k) := by omega
    simp only [this, if_false, hstep, Nat.cast_zero, zero_mul]
    simp [fl]
  · intro i hi
    by_cases hik : i = k
    · subst hik
      unfold pointQ
      simp only [if_true]
      obtain ⟨a, ha, hsa⟩ := hs
      rw [hsa]
      have hform : (i : Rat) * dt * (1 + a) - (i : Rat) * dt = ((i : Rat) * dt) * a := by ring
      rw [hform]
      rw [absQ_le_iff] at ha ⊢
      unfold u64 at ha
      have hid : (0 : Rat) ≤ (i : Rat) * dt := mul_nonneg (by linarith) (le_of_lt hdt)
      have h1 : a ≤ 1 / 2 ^ 51 := by norm_num at ha ⊢; linarith [ha.2]
      have h2 : -(1 / 2 ^ 51 : Rat) ≤ a := by norm_num at ha ⊢; linarith [ha.1]
      constructor
      · have := mul_le_mul_of_nonneg_left h2 hid; linarith
      · have := mul_le_mul_of_nonneg_left h1 hid; linarith
    · unfold pointQ
      simp only [hik, if_false, hstep]
      exact gp.1 i _ (fl_standard_model _)
  · unfold pointQ
    simp only [if_true]
    exact gp.2.2

end Yaqs.Grid
