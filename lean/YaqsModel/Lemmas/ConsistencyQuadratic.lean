import YaqsModel.Lemmas.ConsistencyFlow
import YaqsModel.Lemmas.ConsistencyDegenerate
import Mathlib.Analysis.Calculus.Taylor
import Mathlib.Analysis.Calculus.ContDiff.Operations

/-!
# Lemmas.ConsistencyQuadratic — the one-step error of the trajectory average is `O(t²)`

All curves involved are twice continuously differentiable (matrix exponentials are analytic, the ratio `(1−n)/c` is
smooth where `c ≠ 0`), so Taylor's theorem with remainder (`exists_taylor_mean_remainder_bound`) turns "same value and
same derivative at `0`" into a quadratic bound on `[0, δ]`.
-/
namespace Yaqs.Consistency

open Matrix NormedSpace Yaqs.MasterEq Set
open scoped Matrix.Norms.Operator

variable {n : Type} [Fintype n] [DecidableEq n]

noncomputable section

/-- Taylor with remainder: a `C²` curve that vanishes at `0` together with its derivative is `O(t²)` on some `[0, δ]` -/
theorem quad_of_contDiffAt {E : Type} [NormedAddCommGroup E] [NormedSpace ℝ E] {f : ℝ → E}
    (hf : ContDiffAt ℝ 2 f 0) (h0 : f 0 = 0) (hd : HasDerivAt f 0 0) :
    ∃ C δ : ℝ, 0 < δ ∧ ∀ t, 0 ≤ t → t ≤ δ → ‖f t‖ ≤ C * t ^ 2 := by
  obtain ⟨u, uo, xu, hu⟩ := ContDiffWithinAt.contDiffOn' (m := 2) le_rfl (by simp) hf
  obtain ⟨ε, εpos, hε⟩ := Metric.isOpen_iff.mp uo 0 xu
  have δpos : 0 < ε / 2 := by positivity
  have hsub : Icc 0 (ε / 2) ⊆ insert 0 univ ∩ u := by
    intro x hx
    refine ⟨by simp, hε ?_⟩
    rw [Metric.mem_ball, dist_zero_right, Real.norm_eq_abs, abs_of_nonneg hx.1]
    linarith [hx.2]
  have hIcc : ContDiffOn ℝ ((1 : ℕ) + 1) f (Icc 0 (ε / 2)) := by
    have := hu.mono hsub
    exact_mod_cast this
  obtain ⟨C, hC⟩ := exists_taylor_mean_remainder_bound (n := 1) δpos.le hIcc
  refine ⟨C, ε / 2, δpos, fun t ht0 htδ => ?_⟩
  have := hC t ⟨ht0, htδ⟩
  have hdw : derivWithin f (Icc 0 (ε / 2)) 0 = 0 :=
    hd.hasDerivWithinAt.derivWithin (uniqueDiffOn_Icc δpos 0 (left_mem_Icc.mpr δpos.le))
  rw [taylorWithinEval_succ, taylor_within_zero_eval, iteratedDerivWithin_one, hdw, h0, smul_zero, add_zero,
    sub_zero, sub_zero] at this
  simpa using this

/-- an entry is bounded by the `ℓ∞`-operator norm -/
theorem entry_norm_le (M : Matrix n n ℂ) (i j : n) : ‖M i j‖ ≤ ‖M‖ := by
  rw [Matrix.linfty_opNorm_def]
  have h1 : ‖M i j‖₊ ≤ ∑ j, ‖M i j‖₊ :=
    Finset.single_le_sum (f := fun j => ‖M i j‖₊) (fun _ _ => zero_le) (Finset.mem_univ j)
  have h2 : (∑ j, ‖M i j‖₊) ≤ Finset.univ.sup (fun i => ∑ j, ‖M i j‖₊) :=
    Finset.le_sup (f := fun i => ∑ j, ‖M i j‖₊) (Finset.mem_univ i)
  exact_mod_cast h1.trans h2

/-- twice continuously differentiable propagator family (with respect to the matrix topology) -/
def SmoothFamily (A : ℝ → Matrix n n ℂ) : Prop := ContDiff ℝ 2 A

theorem contDiff_exp_smul (X : Matrix n n ℂ) : ContDiff ℝ 2 (fun t : ℝ => exp (t • X)) := by
  have h : ContDiff ℝ 2 (exp : Matrix n n ℂ → Matrix n n ℂ) :=
    contDiff_iff_contDiffAt.mpr fun x => (NormedSpace.exp_analytic (𝕂 := ℝ) x).contDiffAt
  exact h.comp (contDiff_id.smul contDiff_const)

theorem smooth_unitaryStep (H : Matrix n n ℂ) : SmoothFamily (unitaryStep H) := contDiff_exp_smul _

theorem smooth_dissFactor (p : Proc (Matrix n n ℂ)) : SmoothFamily (dissFactor p) := contDiff_exp_smul _

theorem smooth_dissStepK (Ls : List (Proc (Matrix n n ℂ))) : SmoothFamily (dissStepK Ls) := contDiff_exp_smul _

theorem smooth_mul {A B : ℝ → Matrix n n ℂ} (hA : SmoothFamily A) (hB : SmoothFamily B) :
    SmoothFamily (fun t => A t * B t) :=
  ContDiff.mul hA hB

theorem smooth_dissStep (Ls : List (Proc (Matrix n n ℂ))) : SmoothFamily (dissStep Ls) := by
  induction Ls with
  | nil =>
    have : dissStep ([] : List (Proc (Matrix n n ℂ))) = fun _ => 1 := by funext t; simp [dissStep]
    rw [this]; exact contDiff_const
  | cons p ps ih =>
    have e : dissStep (p :: ps) = fun s => dissFactor p s * dissStep ps s := by
      funext s; simp [dissStep]
    rw [e]
    exact smooth_mul (smooth_dissFactor p) ih

omit [DecidableEq n] in
theorem smooth_half {A : ℝ → Matrix n n ℂ} (hA : SmoothFamily A) : SmoothFamily (fun t => A (t / 2)) :=
  ContDiff.comp hA (contDiff_id.div_const 2)

theorem smooth_order1 (H : Matrix n n ℂ) (Ls : List (Proc (Matrix n n ℂ))) :
    SmoothFamily (fun t => dissStep Ls t * unitaryStep H t) :=
  smooth_mul (smooth_dissStep Ls) (smooth_unitaryStep H)

theorem smooth_order1K (H : Matrix n n ℂ) (Ls : List (Proc (Matrix n n ℂ))) :
    SmoothFamily (fun t => dissStepK Ls t * unitaryStep H t) :=
  smooth_mul (smooth_dissStepK Ls) (smooth_unitaryStep H)

theorem smooth_order2 (H : Matrix n n ℂ) (Ls : List (Proc (Matrix n n ℂ))) :
    SmoothFamily (fun t => dissStep Ls (t / 2) * unitaryStep H t * dissStep Ls (t / 2)) :=
  smooth_mul (smooth_mul (smooth_half (smooth_dissStep Ls)) (smooth_unitaryStep H)) (smooth_half (smooth_dissStep Ls))

theorem smooth_mcwf (H : Matrix n n ℂ) (Ls : List (Proc (Matrix n n ℂ))) :
    SmoothFamily (fun t : ℝ => exp (t • ((-Complex.I) • (H - ((1 / 2 : ℂ) * Complex.I) • genK Ls)))) :=
  contDiff_exp_smul _

/-! ### smoothness of the pieces of the average -/

omit [DecidableEq n] in
theorem contDiff_lin {F : Type} [NormedAddCommGroup F] [NormedSpace ℝ F] (φ : Matrix n n ℂ →ₗ[ℝ] F)
    {g : ℝ → Matrix n n ℂ} {m : WithTop ℕ∞} (hg : ContDiff ℝ m g) : ContDiff ℝ m (fun s => φ (g s)) :=
  (LinearMap.toContinuousLinearMap φ).contDiff.comp hg

theorem smooth_sigma {A : ℝ → Matrix n n ℂ} (hA : SmoothFamily A) (ρ : Matrix n n ℂ) :
    ContDiff ℝ 2 (sigma A ρ) := by
  have h1 : ContDiff ℝ 2 (fun t => A t * ρ) := ContDiff.mul hA contDiff_const
  have h2 : ContDiff ℝ 2 (fun t => (A t)ᴴ) := contDiff_lin ctLin hA
  exact ContDiff.mul h1 h2

theorem smooth_nrm {A : ℝ → Matrix n n ℂ} (hA : SmoothFamily A) (ρ : Matrix n n ℂ) :
    ContDiff ℝ 2 (nrm A ρ) :=
  contDiff_lin (traceLinearMap n ℝ ℂ) (smooth_sigma hA ρ)

theorem smooth_cw (Ls : List (Proc (Matrix n n ℂ))) {A : ℝ → Matrix n n ℂ} (hA : SmoothFamily A)
    (ρ : Matrix n n ℂ) : ContDiff ℝ 2 (cw Ls A ρ) := by
  have h1 : ContDiff ℝ 2 (fun t => genK Ls * sigma A ρ t) := ContDiff.mul contDiff_const (smooth_sigma hA ρ)
  exact contDiff_lin (traceLinearMap n ℝ ℂ) h1

theorem smooth_avgState (Ls : List (Proc (Matrix n n ℂ))) {A : ℝ → Matrix n n ℂ} (hA : SmoothFamily A)
    (ρ : Matrix n n ℂ) (hc : cw Ls A ρ 0 ≠ 0) : ContDiffAt ℝ 2 (avgState Ls A ρ) 0 := by
  have hs := smooth_sigma hA ρ
  have hi : ContDiffAt ℝ 2 (cw Ls A ρ)⁻¹ 0 := (smooth_cw Ls hA ρ).contDiffAt.inv hc
  have hnum : ContDiffAt ℝ 2 (fun t => 1 - nrm A ρ t) 0 := (contDiff_const.sub (smooth_nrm hA ρ)).contDiffAt
  have hr : ContDiffAt ℝ 2 (ratio Ls A ρ) 0 := by
    have := hnum.mul hi
    have e : ratio Ls A ρ = fun t => (1 - nrm A ρ t) * (cw Ls A ρ)⁻¹ t := by
      funext t; simp [ratio, div_eq_mul_inv]
    rw [e]
    exact this
  have hJ : ContDiff ℝ 2 (fun t => jumpSum Ls (sigma A ρ t)) := contDiff_lin (jumpSumLin Ls) hs
  exact hs.contDiffAt.add (hr.smul hJ.contDiffAt)

set_option backward.isDefEq.respectTransparency false in
theorem smooth_lindFlow (H : Matrix n n ℂ) (Ls : List (Proc (Matrix n n ℂ))) (ρ : Matrix n n ℂ) :
    ContDiff ℝ 2 (fun t => lindFlow H Ls t ρ) := by
  have h : ContDiff ℝ 2 (exp : (Matrix n n ℂ →L[ℝ] Matrix n n ℂ) → (Matrix n n ℂ →L[ℝ] Matrix n n ℂ)) :=
    contDiff_iff_contDiffAt.mpr fun x => (NormedSpace.exp_analytic (𝕂 := ℝ) x).contDiffAt
  have h2 : ContDiff ℝ 2 (fun t : ℝ => exp (t • lindCLM H Ls)) := h.comp (contDiff_id.smul contDiff_const)
  exact (ContinuousLinearMap.apply ℝ (Matrix n n ℂ) ρ).contDiff.comp h2

/-! ### the quadratic one-step error -/

/-- **quadratic local error** (density-matrix form, non-zero jump rate) -/
theorem quadratic_error_avgState {H : Matrix n n ℂ} {Ls : List (Proc (Matrix n n ℂ))} {A : ℝ → Matrix n n ℂ}
    (hA : IsNoJumpFamily H Ls A) (hS : SmoothFamily A) (hH : Hᴴ = H) (ρ : Matrix n n ℂ) (hρ : trace ρ = 1)
    (hκ : trace (genK Ls * ρ) ≠ 0) :
    ∃ C δ : ℝ, 0 < δ ∧ ∀ t, 0 ≤ t → t ≤ δ → ∀ i j,
      ‖(avgState Ls A ρ t - lindFlow H Ls t ρ) i j‖ ≤ C * t ^ 2 := by
  obtain ⟨h0, hd⟩ := hasDerivAt_avgState_sub_flow hA hH ρ hρ hκ
  have hc : cw Ls A ρ 0 ≠ 0 := by rw [cw_zero Ls hA.zero]; exact hκ
  have hsm : ContDiffAt ℝ 2 (fun t => avgState Ls A ρ t - lindFlow H Ls t ρ) 0 :=
    (smooth_avgState Ls hS ρ hc).sub (smooth_lindFlow H Ls ρ).contDiffAt
  have hd' : HasDerivAt (F := Matrix n n ℂ) (fun t => avgState Ls A ρ t - lindFlow H Ls t ρ) 0 0 := hd
  obtain ⟨C, δ, δpos, hC⟩ := quad_of_contDiffAt hsm h0 hd'
  exact ⟨C, δ, δpos, fun t ht0 htδ i j => (entry_norm_le _ i j).trans (hC t ht0 htδ)⟩

/-- **quadratic local error** for every unit vector and non-negative strengths (both cases of the jump rate) -/
theorem quadratic_error_pure {H : Matrix n n ℂ} {Ls : List (Proc (Matrix n n ℂ))} {A : ℝ → Matrix n n ℂ}
    (hA : IsNoJumpFamily H Ls A) (hS : SmoothFamily A) (hH : Hᴴ = H) (hγ : ∀ p ∈ Ls, 0 ≤ p.gamma) (ψ : n → ℂ)
    (hψ : star ψ ⬝ᵥ ψ = 1) :
    ∃ C δ : ℝ, 0 < δ ∧ ∀ t, 0 ≤ t → t ≤ δ → ∀ i j,
      ‖(pureAverage Ls (A t *ᵥ ψ) - lindFlow H Ls t (vecMulVec ψ (star ψ))) i j‖ ≤ C * t ^ 2 := by
  set ρ := vecMulVec ψ (star ψ) with hρdef
  have hρ1 : trace ρ = 1 := by rw [hρdef, trace_pure, hψ]
  by_cases hκ : star ψ ⬝ᵥ (genK Ls *ᵥ ψ) = 0
  · -- degenerate: split `E − S = (E − σ) + (σ − S)`
    obtain ⟨hJ0, -, -⟩ := hasDerivAt_avgState_degenerate hA hH hγ ψ hψ hκ
    have hκ' : trace (genK Ls * ρ) = 0 := by rw [hρdef, trace_mul_pure, hκ]
    -- σ − S
    have hs := hasDerivAt_sigma_noJump hA hH ρ
    have hf := lindFlow_solves H Ls ρ 0
    rw [← hρdef] at hJ0
    rw [lindFlow_zero, ← noJump_add_jump_eq_lind, hJ0, add_zero] at hf
    have hd1 := hasDerivAt_subM hs hf
    rw [sub_self] at hd1
    have hd1' : HasDerivAt (F := Matrix n n ℂ) (fun t => sigma A ρ t - lindFlow H Ls t ρ) 0 0 := hd1
    have h01 : (fun t => sigma A ρ t - lindFlow H Ls t ρ) 0 = 0 := by
      show sigma A ρ 0 - lindFlow H Ls 0 ρ = 0
      rw [sigma_zero hA.zero, lindFlow_zero, sub_self]
    have hsm1 : ContDiffAt ℝ 2 (fun t => sigma A ρ t - lindFlow H Ls t ρ) 0 :=
      ((smooth_sigma hS ρ).sub (smooth_lindFlow H Ls ρ)).contDiffAt
    obtain ⟨C1, δ1, δ1pos, hC1⟩ := quad_of_contDiffAt hsm1 h01 hd1'
    -- 1 − n
    have hn := hasDerivAt_nrm hA hH ρ
    rw [hκ', neg_zero] at hn
    have hg : HasDerivAt (fun t => 1 - nrm A ρ t) 0 0 := by
      have := HasDerivAt.const_sub (1 : ℂ) hn
      rw [neg_zero] at this
      exact this
    have hg0 : (fun t => 1 - nrm A ρ t) 0 = 0 := by
      show 1 - nrm A ρ 0 = 0
      rw [nrm_zero hA.zero, hρ1, sub_self]
    have hsm2 : ContDiffAt ℝ 2 (fun t => 1 - nrm A ρ t) 0 := (contDiff_const.sub (smooth_nrm hS ρ)).contDiffAt
    obtain ⟨C2, δ2, δ2pos, hC2⟩ := quad_of_contDiffAt hsm2 hg0 hg
    refine ⟨C1 + C2, min δ1 δ2, lt_min δ1pos δ2pos, fun t ht0 htδ i j => ?_⟩
    have e : pureAverage Ls (A t *ᵥ ψ) - lindFlow H Ls t ρ
        = (pureAverage Ls (A t *ᵥ ψ) - sigma A ρ t) + (sigma A ρ t - lindFlow H Ls t ρ) := by abel
    rw [e, Matrix.add_apply]
    have b1 : ‖(pureAverage Ls (A t *ᵥ ψ) - sigma A ρ t) i j‖ ≤ C2 * t ^ 2 := by
      have := jump_term_entry_le Ls hγ (A t *ᵥ ψ) i j
      rw [← sigma_pure, ← nrm_pure, ← hρdef] at this
      exact this.trans (hC2 t ht0 (htδ.trans (min_le_right _ _)))
    have b2 : ‖(sigma A ρ t - lindFlow H Ls t ρ) i j‖ ≤ C1 * t ^ 2 :=
      (entry_norm_le _ i j).trans (hC1 t ht0 (htδ.trans (min_le_left _ _)))
    calc ‖_ + _‖ ≤ ‖(pureAverage Ls (A t *ᵥ ψ) - sigma A ρ t) i j‖ + ‖(sigma A ρ t - lindFlow H Ls t ρ) i j‖ :=
          norm_add_le _ _
      _ ≤ C2 * t ^ 2 + C1 * t ^ 2 := add_le_add b1 b2
      _ = (C1 + C2) * t ^ 2 := by ring
  · have hκ' : trace (genK Ls * ρ) ≠ 0 := by rwa [hρdef, trace_mul_pure]
    obtain ⟨C, δ, δpos, hC⟩ := quadratic_error_avgState hA hS hH ρ hρ1 hκ'
    refine ⟨C, δ, δpos, fun t ht0 htδ i j => ?_⟩
    have := hC t ht0 htδ i j
    rwa [hρdef, avgState_pure] at this

/-- **quadratic local error, MCWF form** (weights and jump operators from the pre-step state) -/
theorem quadratic_error_mcwf {H : Matrix n n ℂ} {Ls : List (Proc (Matrix n n ℂ))} {A : ℝ → Matrix n n ℂ}
    (hA : IsNoJumpFamily H Ls A) (hS : SmoothFamily A) (hH : Hᴴ = H) (ρ : Matrix n n ℂ) (hρ : trace ρ = 1)
    (hκ : trace (genK Ls * ρ) ≠ 0) :
    ∃ C δ : ℝ, 0 < δ ∧ ∀ t, 0 ≤ t → t ≤ δ → ∀ i j,
      ‖(avgStateMcwf Ls A ρ t - lindFlow H Ls t ρ) i j‖ ≤ C * t ^ 2 := by
  obtain ⟨h0, hd⟩ := hasDerivAt_avgStateMcwf hA hH ρ hρ hκ
  have hf := lindFlow_solves H Ls ρ 0
  rw [lindFlow_zero] at hf
  have hsub := hasDerivAt_subM hd hf
  rw [sub_self] at hsub
  have hsub' : HasDerivAt (F := Matrix n n ℂ) (fun t => avgStateMcwf Ls A ρ t - lindFlow H Ls t ρ) 0 0 := hsub
  have h00 : (fun t => avgStateMcwf Ls A ρ t - lindFlow H Ls t ρ) 0 = 0 := by
    show avgStateMcwf Ls A ρ 0 - lindFlow H Ls 0 ρ = 0
    rw [h0, lindFlow_zero, sub_self]
  have hr : ContDiff ℝ 2 (fun t => (1 - nrm A ρ t) / trace (genK Ls * ρ)) :=
    (contDiff_const.sub (smooth_nrm hS ρ)).div_const _
  have hsm : ContDiffAt ℝ 2 (fun t => avgStateMcwf Ls A ρ t - lindFlow H Ls t ρ) 0 :=
    (((smooth_sigma hS ρ).add (hr.smul contDiff_const)).sub (smooth_lindFlow H Ls ρ)).contDiffAt
  obtain ⟨C, δ, δpos, hC⟩ := quad_of_contDiffAt hsm h00 hsub'
  exact ⟨C, δ, δpos, fun t ht0 htδ i j => (entry_norm_le _ i j).trans (hC t ht0 htδ)⟩

/-! ### C03: unit time step, all strengths scaled by `s` -/

/-- `apply_dissipation(state, local_noise, dt = 1, …)` with every strength multiplied by `s`:
    one factor `expm(-0.5 * 1 * (s·γ_k) * L_k†L_k)` per process -/
def digitalDiss (Ls : List (Proc (Matrix n n ℂ))) (s : ℝ) : Matrix n n ℂ :=
  (Ls.map fun p => exp ((1 : ℝ) • ((-((s : ℂ) * rateC p.gamma / 2)) • (p.opᴴ * p.op)))).prod

/-- scaling the strengths at `dt = 1` is the analog sweep at `dt = s` -/
theorem digitalDiss_eq (Ls : List (Proc (Matrix n n ℂ))) (s : ℝ) : digitalDiss Ls s = dissStep Ls s := by
  unfold digitalDiss dissStep dissFactor
  congr 1
  apply List.map_congr_left
  intro p _
  congr 1
  rw [one_smul, ← Complex.coe_smul, smul_smul]
  congr 1
  ring

/-- the noise step of `digital_tjm` is a no-jump family for the Hamiltonian `0` (the gate has been applied before) -/
theorem noJump_digital (Ls : List (Proc (Matrix n n ℂ))) : IsNoJumpFamily 0 Ls (digitalDiss Ls) := by
  have e : digitalDiss Ls = dissStep Ls := funext (digitalDiss_eq Ls)
  rw [e]
  refine ⟨dissStep_zero Ls, ?_⟩
  have := hasDerivAt_dissStep Ls
  unfold genG
  rw [smul_zero, zero_add]
  exact this

theorem smooth_digital (Ls : List (Proc (Matrix n n ℂ))) : SmoothFamily (digitalDiss Ls) := by
  have e : digitalDiss Ls = dissStep Ls := funext (digitalDiss_eq Ls)
  rw [e]
  exact smooth_dissStep Ls

end

end Yaqs.Consistency
