import YaqsModel.Model.Sweep
import Mathlib.Tactic.Linarith
import Mathlib.Tactic.Ring
import Mathlib.Algebra.Order.Ring.Rat

/-! helper lemmas for the sweep schedules (kept apart from the property theorems) -/
namespace Yaqs.Sweep

/-! ### the loops produce chains -/

theorem lrLoop_chain (L : Nat) (d : Nat → Bool) (h : Rat) (hreal : Realizable L d (L - 1)) :
    ∀ n i, i + n = L → 2 ≤ n → ChainLR L h i (lrLoop L d h n i false) := by
  intro n
  induction n with
  | zero => intro i _ h2; omega
  | succ n ih =>
    intro i hi h2
    by_cases hn : n = 1
    · -- i = L - 2 : two visits remain
      subst hn
      have hiL : (i = L - 2) = True := eq_true (by omega)
      have hi1 : (i + 1 = L - 1) = True := eq_true (by omega)
      have h1 : (i = L - 1) = False := eq_false (by omega)
      by_cases hd : d i = true
      · have e1 : lrLoop L d h 2 i false = [Op.site i h, Op.bond i (-h), Op.site (i + 1) h] := by
          simp [lrLoop, hd, hiL, hi1, h1]
        rw [e1]
        exact ChainLR.one i _ (by omega) (ChainLR.last (i + 1) (by omega))
      · have hd' : d i = false := by simpa using hd
        have hlast : d (i + 1) = false := by
          have e : i + 1 = L - 1 := by omega
          cases hl : d (i + 1) with
          | false => rfl
          | true => rw [e] at hl; have := hreal hl i (by omega); rw [this] at hd'; cases hd'
        have e1 : lrLoop L d h 2 i false = [Op.pair i h, Op.split i true] := by
          simp [lrLoop, hd', hi1, hlast, h1, hiL]
        rw [e1]
        exact ChainLR.lastPair i (by omega)
    · have hn2 : 2 ≤ n := by omega
      have h1 : ¬ (i = L - 1) := by omega
      have h2' : ¬ (i = L - 2) := by omega
      by_cases hd : d i = true
      · have e1 : lrLoop L d h (n + 1) i false = Op.site i h :: Op.bond i (-h) :: lrLoop L d h n (i + 1) false := by
          simp [lrLoop, hd, h1, h2']
        rw [e1]
        exact ChainLR.one i _ (by omega) (ih (i + 1) (by omega) hn2)
      · have hd' : d i = false := by simpa using hd
        have e1 : lrLoop L d h (n + 1) i false =
            Op.pair i h :: Op.split i true :: Op.site (i + 1) (-h) :: lrLoop L d h n (i + 1) false := by
          simp [lrLoop, hd', h1, h2']
        rw [e1]
        exact ChainLR.two i _ (by omega) (ih (i + 1) (by omega) hn2)

theorem rlLoop_chain (L : Nat) (d : Nat → Bool) (h : Rat) (hreal : Realizable L d 0) :
    ∀ n, 2 ≤ n → n ≤ L → ChainRL h (n - 1) (rlLoop d h n false) := by
  intro n
  induction n with
  | zero => intro h2; omega
  | succ n ih =>
    intro h2 hL
    by_cases hn : n = 1
    · subst hn
      by_cases hd : d 1 = true
      · have e1 : rlLoop d h 2 false = [Op.site 1 h, Op.bond 0 (-h), Op.site 0 h] := by
          simp [rlLoop, hd]
        rw [e1]
        exact ChainRL.one 0 _ ChainRL.last
      · have hd' : d 1 = false := by simpa using hd
        have h0 : d 0 = false := by
          cases hl : d 0 with
          | false => rfl
          | true => have := hreal hl 1 (by omega); rw [this] at hd'; cases hd'
        have e1 : rlLoop d h 2 false = [Op.pair 0 h, Op.split 0 false] := by
          simp [rlLoop, hd', h0]
        rw [e1]
        exact ChainRL.lastPair
    · obtain ⟨m, rfl⟩ : ∃ m, n = m + 2 := ⟨n - 2, by omega⟩
      have ih' := ih (by omega) (by omega)
      simp only [Nat.add_sub_cancel] at ih' ⊢
      by_cases hd : d (m + 2) = true
      · have e1 : rlLoop d h (m + 2 + 1) false =
            Op.site (m + 2) h :: Op.bond (m + 1) (-h) :: rlLoop d h (m + 2) false := by
          simp [rlLoop, hd]
        rw [e1]
        exact ChainRL.one (m + 1) _ ih'
      · have hd' : d (m + 2) = false := by simpa using hd
        have e1 : rlLoop d h (m + 2 + 1) false =
            Op.pair (m + 1) h :: Op.split (m + 1) false :: Op.site (m + 1) (-h) :: rlLoop d h (m + 2) false := by
          simp [rlLoop, hd']
        rw [e1]
        exact ChainRL.two m _ ih'

/-! ### what a chain implies -/

theorem chainLR_coverage (L : Nat) (h : Rat) : ∀ i ops, ChainLR L h i ops →
    ∀ j, j < L → coverage j ops = if i ≤ j then h else 0 := by
  intro i ops hc
  induction hc with
  | last i hi =>
    intro j hj
    simp only [coverage, cov]
    by_cases hij : i = j
    · subst hij; simp
    · have : ¬ i ≤ j := by omega
      simp [hij, this]
  | lastPair i hi =>
    intro j hj
    simp only [coverage, cov]
    by_cases hij : i ≤ j
    · have : i = j ∨ i + 1 = j := by omega
      simp [this, hij]
    · have : ¬ (i = j ∨ i + 1 = j) := by omega
      simp [this, hij]
  | one i rest hi _ ih =>
    intro j hj
    simp only [coverage, cov]
    rw [ih j hj]
    by_cases hij : i = j
    · subst hij; simp
    · by_cases h1 : i + 1 ≤ j
      · have : i ≤ j := by omega
        simp [hij, h1, this]
      · have : ¬ i ≤ j := by omega
        simp [hij, h1, this]
  | two i rest hi _ ih =>
    intro j hj
    simp only [coverage, cov]
    rw [ih j hj]
    by_cases hij : i = j
    · subst hij
      have : ¬ (i + 1 = i) := by omega
      simp [this]
    · by_cases h1 : i + 1 = j
      · subst h1; simp
      · by_cases h2 : i + 1 ≤ j
        · have : i ≤ j := by omega
          simp [hij, h1, h2, this]
        · have : ¬ i ≤ j := by omega
          simp [hij, h1, h2, this]

theorem chainRL_coverage (h : Rat) : ∀ i ops, ChainRL h i ops →
    ∀ j, coverage j ops = if j ≤ i then h else 0 := by
  intro i ops hc
  induction hc with
  | last =>
    intro j
    simp only [coverage, cov]
    by_cases hj : 0 = j
    · subst hj; simp
    · have : ¬ j ≤ 0 := by omega
      simp [hj, this]
  | lastPair =>
    intro j
    simp only [coverage, cov]
    by_cases hj : j ≤ 1
    · have : 0 = j ∨ 0 + 1 = j := by omega
      simp [this, hj]
    · have : ¬ (0 = j ∨ 0 + 1 = j) := by omega
      simp [this, hj]
  | one i rest _ ih =>
    intro j
    simp only [coverage, cov]
    rw [ih j]
    by_cases hij : i + 1 = j
    · subst hij
      have : ¬ (i + 1 ≤ i) := by omega
      simp [this]
    · by_cases h1 : j ≤ i
      · have : j ≤ i + 1 := by omega
        simp [hij, h1, this]
      · have : ¬ j ≤ i + 1 := by omega
        simp [hij, h1, this]
  | two i rest _ ih =>
    intro j
    simp only [coverage, cov]
    rw [ih j]
    by_cases hij : i + 1 = j
    · subst hij; simp
    · by_cases h2 : i + 1 + 1 = j
      · subst h2
        have : ¬ (i + 1 + 1 ≤ i + 1) := by omega
        simp [this]
      · by_cases h1 : j ≤ i + 1
        · have : j ≤ i + 2 := by omega
          simp [hij, h2, h1, this]
        · have : ¬ j ≤ i + 2 := by omega
          simp [hij, h2, h1, this]

theorem chainLR_coefSum (L : Nat) (h : Rat) : ∀ i ops, ChainLR L h i ops → coefSum ops = h := by
  intro i ops hc
  induction hc with
  | last i hi => simp [coefSum, coef]
  | lastPair i hi => simp [coefSum, coef]
  | one i rest hi _ ih => simp only [coefSum, coef, ih]; ring
  | two i rest hi _ ih => simp only [coefSum, coef, ih]; ring

theorem chainRL_coefSum (h : Rat) : ∀ i ops, ChainRL h i ops → coefSum ops = h := by
  intro i ops hc
  induction hc with
  | last => simp [coefSum, coef]
  | lastPair => simp [coefSum, coef]
  | one i rest _ ih => simp only [coefSum, coef, ih]; ring
  | two i rest _ ih => simp only [coefSum, coef, ih]; ring

/-- number of truncating splits of a chain starting at site `i` -/
theorem chainLR_loss (L : Nat) (h : Rat) : ∀ i ops, ChainLR L h i ops → lossTotal L ops + i + 1 ≤ L := by
  intro i ops hc
  induction hc with
  | last i hi => simp [lossTotal, lossCount]; omega
  | lastPair i hi => simp [lossTotal, lossCount]; omega
  | one i rest hi _ ih => simp only [lossTotal, lossCount]; omega
  | two i rest hi _ ih => simp only [lossTotal, lossCount]; omega

theorem chainRL_loss (L : Nat) (h : Rat) : ∀ i ops, ChainRL h i ops → lossTotal L ops ≤ i := by
  intro i ops hc
  induction hc with
  | last => simp [lossTotal, lossCount]
  | lastPair => simp [lossTotal, lossCount]
  | one i rest _ ih => simp only [lossTotal, lossCount]; omega
  | two i rest _ ih => simp only [lossTotal, lossCount]; omega

theorem coverage_append (j : Nat) (a b : List Op) : coverage j (a ++ b) = coverage j a + coverage j b := by
  induction a with
  | nil => simp [coverage]
  | cons o os ih => simp only [List.cons_append, coverage, ih]; ring

theorem coefSum_append (a b : List Op) : coefSum (a ++ b) = coefSum a + coefSum b := by
  induction a with
  | nil => simp [coefSum]
  | cons o os ih => simp only [List.cons_append, coefSum, ih]; ring

theorem lossTotal_append (L : Nat) (a b : List Op) : lossTotal L (a ++ b) = lossTotal L a + lossTotal L b := by
  induction a with
  | nil => simp [lossTotal]
  | cons o os ih => simp only [List.cons_append, lossTotal, ih]; omega

/-! ### norm bookkeeping -/

theorem normTrace_bound (L : Nat) (thr : Rat) : ∀ ops x y, NormTrace L thr ops x y →
    x - (lossTotal L ops : Rat) * thr ≤ y ∧ y ≤ x := by
  intro ops x y ht
  induction ht with
  | nil x => simp [lossTotal]
  | step o os x x' y h1 h2 _ ih =>
    obtain ⟨ih1, ih2⟩ := ih
    simp only [lossTotal, Nat.cast_add]
    constructor
    · have : ((lossCount L o : Rat) + (lossTotal L os : Rat)) * thr =
          (lossCount L o : Rat) * thr + (lossTotal L os : Rat) * thr := by ring
      rw [this]; linarith
    · linarith

theorem normTrace_append (L : Nat) (thr : Rat) : ∀ a b x y, NormTrace L thr (a ++ b) x y →
    ∃ z, NormTrace L thr a x z ∧ NormTrace L thr b z y := by
  intro a
  induction a with
  | nil => intro b x y h; exact ⟨x, NormTrace.nil x, h⟩
  | cons o os ih =>
    intro b x y h
    cases h with
    | step _ _ _ x' _ h1 h2 h3 =>
      obtain ⟨z, hz1, hz2⟩ := ih b x' y h3
      exact ⟨z, NormTrace.step o os x x' z h1 h2 hz1, hz2⟩

/-! ### the reduced (cancelled) form of the two half sweeps -/

/-- what remains at site `i` after cancellation, given whether the bond to its left / right was treated one-site -/
def siteTerm (a b : Bool) (i : Nat) (h : Rat) : List Op :=
  if a && b then [Op.site i h] else if !a && !b then [Op.site i (-h)] else []

def bondTerm (d : Bool) (b : Nat) (h : Rat) : Op := if d then Op.bond b (-h) else Op.pair b h

/-- decision of the bond left of site `i` (virtual `true` at the chain end) -/
def pv (d : Nat → Bool) (i : Nat) : Bool := if i = 0 then true else d (i - 1)

/-- decision of the bond right of site `i` (virtual `true` at the chain end) -/
def nx (L : Nat) (d : Nat → Bool) (i : Nat) : Bool := if i + 1 = L then true else d i

def siteSlot (L : Nat) (d : Nat → Bool) (h : Rat) (i : Nat) : List Op := siteTerm (pv d i) (nx L d i) i h

/-- a pending backward site step -/
def pre (a : Bool) (i : Nat) (h : Rat) : List Op := if a then [] else [Op.site i (-h)]

theorem siteTerm_reverse (a b : Bool) (i : Nat) (h : Rat) : (siteTerm a b i h).reverse = siteTerm a b i h := by
  cases a <;> cases b <;> simp [siteTerm]

theorem cancel_pair (p : Nat) (c : Rat) (rest : List Op) : cancel (Op.pair p c :: rest) = Op.pair p c :: cancel rest := by
  simp [cancel]

theorem cancel_bond (p : Nat) (c : Rat) (rest : List Op) : cancel (Op.bond p c :: rest) = Op.bond p c :: cancel rest := by
  simp [cancel]

theorem cancel_site_pair (i p : Nat) (c c' : Rat) (rest : List Op) :
    cancel (Op.site i c :: Op.pair p c' :: rest) = Op.site i c :: Op.pair p c' :: cancel rest := by
  simp [cancel]

theorem cancel_site_bond (i p : Nat) (c c' : Rat) (rest : List Op) :
    cancel (Op.site i c :: Op.bond p c' :: rest) = Op.site i c :: Op.bond p c' :: cancel rest := by
  simp [cancel]

theorem cancel_site_nil (i : Nat) (c : Rat) : cancel [Op.site i c] = [Op.site i c] := by
  simp [cancel]

theorem cancel_inverse (i : Nat) (h : Rat) (hh : 0 < h) (rest : List Op) :
    cancel (Op.site i (-h) :: Op.site i h :: rest) = cancel rest := by
  have : -h < 0 := by linarith
  simp [cancel, this]

theorem cancel_lr (L : Nat) (d : Nat → Bool) (h : Rat) (hh : 0 < h) (hreal : Realizable L d (L - 1)) :
    ∀ n i, 1 ≤ n → i + n + 1 = L →
      cancel (pre (pv d i) i h ++ projOnly (lrLoop L d h (n + 1) i false)) =
        (List.range' i n).flatMap (fun b => siteSlot L d h b ++ [bondTerm (d b) b h]) ++ siteSlot L d h (L - 1) := by
  intro n
  induction n with
  | zero => intro i h1; omega
  | succ n ih =>
    intro i _ hi
    have hnx : nx L d i = d i := by
      have : ¬ (i + 1 = L) := by omega
      simp [nx, this]
    by_cases hn : n = 0
    · subst hn
      have hiL : (i = L - 2) = True := eq_true (by omega)
      have hi1 : (i + 1 = L - 1) = True := eq_true (by omega)
      have h1 : (i = L - 1) = False := eq_false (by omega)
      have hL1 : L - 1 = i + 1 := by omega
      have hpvL : pv d (i + 1) = d i := by simp [pv]
      have hnxL : nx L d (i + 1) = true := by
        have : i + 1 + 1 = L := by omega
        simp [nx, this]
      have hr : List.range' i (0 + 1) = [i] := by simp
      rw [hr, hL1]
      simp only [List.flatMap_cons, List.flatMap_nil, List.append_nil, siteSlot, hnx, hpvL, hnxL]
      cases hd : d i
      · have hlast : d (i + 1) = false := by
          have e : i + 1 = L - 1 := by omega
          cases hl : d (i + 1) with
          | false => rfl
          | true => rw [e] at hl; have := hreal hl i (by omega); rw [this] at hd; cases hd
        have e1 : lrLoop L d h (0 + 1 + 1) i false = [Op.pair i h, Op.split i true] := by
          simp [lrLoop, hd, hi1, hlast, h1, hiL]
        rw [e1]
        cases hp : pv d i <;> simp [pre, projOnly, siteTerm, bondTerm, cancel]
      · have e1 : lrLoop L d h (0 + 1 + 1) i false = [Op.site i h, Op.bond i (-h), Op.site (i + 1) h] := by
          simp [lrLoop, hd, hiL, hi1, h1]
        rw [e1]
        cases hp : pv d i
        · have : cancel (pre false i h ++ projOnly [Op.site i h, Op.bond i (-h), Op.site (i + 1) h]) =
              [Op.bond i (-h), Op.site (i + 1) h] := by
            simp only [pre, projOnly, Bool.false_eq_true, ↓reduceIte, List.cons_append, List.nil_append]
            rw [cancel_inverse i h hh, cancel_bond, cancel_site_nil]
          rw [this]
          simp [siteTerm, bondTerm]
        · simp [pre, projOnly, siteTerm, bondTerm, cancel]
    · have hn1 : 1 ≤ n := by omega
      have h1 : (i = L - 1) = False := eq_false (by omega)
      have h2 : (i = L - 2) = False := eq_false (by omega)
      have hpv1 : pv d (i + 1) = d i := by simp [pv]
      have ih' := ih (i + 1) hn1 (by omega)
      rw [hpv1] at ih'
      rw [List.range'_succ, List.flatMap_cons, List.append_assoc, ← ih']
      simp only [siteSlot, hnx]
      cases hd : d i
      · have e1 : lrLoop L d h (n + 1 + 1) i false =
            Op.pair i h :: Op.split i true :: Op.site (i + 1) (-h) :: lrLoop L d h (n + 1) (i + 1) false := by
          simp [lrLoop, hd, h1, h2]
        rw [e1]
        cases hp : pv d i
        · simp [pre, projOnly, siteTerm, bondTerm, cancel_site_pair]
        · simp [pre, projOnly, siteTerm, bondTerm, cancel_pair]
      · have e1 : lrLoop L d h (n + 1 + 1) i false =
            Op.site i h :: Op.bond i (-h) :: lrLoop L d h (n + 1) (i + 1) false := by
          simp [lrLoop, hd, h1, h2]
        rw [e1]
        cases hp : pv d i
        · have : cancel (pre false i h ++ projOnly (Op.site i h :: Op.bond i (-h) :: lrLoop L d h (n + 1) (i + 1) false)) =
              Op.bond i (-h) :: cancel (projOnly (lrLoop L d h (n + 1) (i + 1) false)) := by
            simp only [pre, projOnly, Bool.false_eq_true, ↓reduceIte, List.cons_append, List.nil_append]
            rw [cancel_inverse i h hh, cancel_bond]
          rw [this]
          simp [siteTerm, bondTerm, pre]
        · simp [pre, projOnly, siteTerm, bondTerm, cancel_site_bond]

theorem rlLoop_succ (d : Nat → Bool) (h : Rat) (i : Nat) (lock : Bool) :
    rlLoop d h (i + 1) lock =
      if d i || lock then
        Op.site i h :: ((if i ≠ 0 then [Op.bond (i - 1) (-h)] else []) ++ rlLoop d h i (lock || decide (i = 1)))
      else if i = 0 then rlLoop d h i lock
      else Op.pair (i - 1) h :: Op.split (i - 1) false ::
        ((if i ≠ 1 then [Op.site (i - 1) (-h)] else []) ++ rlLoop d h i lock) := by
  rw [rlLoop]

theorem siteSlot_reverse (L : Nat) (d : Nat → Bool) (h : Rat) (i : Nat) :
    (siteSlot L d h i).reverse = siteSlot L d h i := by
  simp [siteSlot, siteTerm_reverse]

theorem cancel_rl (L : Nat) (d e : Nat → Bool) (h : Rat) (hh : 0 < h)
    (hmir : ∀ s, 1 ≤ s → s < L → e s = pv d s) (hreal : Realizable L e 0) :
    ∀ s, 1 ≤ s → s < L →
      cancel (pre (nx L d s) s h ++ projOnly (rlLoop e h (s + 1) false)) =
        siteSlot L d h s ++ (List.range s).reverse.flatMap (fun b => bondTerm (d b) b h :: siteSlot L d h b) := by
  intro s
  induction s with
  | zero => intro h1; omega
  | succ s ih =>
    intro _ hs
    have hes : e (s + 1) = d s := by rw [hmir (s + 1) (by omega) hs]; simp [pv]
    have hpv : pv d (s + 1) = d s := by simp [pv]
    have hr : (List.range (s + 1)).reverse = s :: (List.range s).reverse := by
      rw [List.range_succ, List.reverse_append]; rfl
    have hnxs : nx L d s = d s := by
      have : ¬ (s + 1 = L) := by omega
      simp [nx, this]
    rw [hr, List.flatMap_cons]
    by_cases hs0 : s = 0
    · subst hs0
      have hpv0 : pv d 0 = true := by simp [pv]
      simp only [List.range_zero, List.reverse_nil, List.flatMap_nil, List.append_nil, siteSlot, hpv, hpv0, hnxs]
      cases hd : d 0
      · have he1 : e (0 + 1) = false := by rw [hes, hd]
        have he0 : e 0 = false := by
          cases hl : e 0 with
          | false => rfl
          | true => have := hreal hl (0 + 1) hs; rw [this] at he1; cases he1
        have e1 : rlLoop e h (0 + 1 + 1) false = [Op.pair 0 h, Op.split 0 false] := by
          simp [rlLoop, he1, he0]
        rw [e1]
        cases hp : nx L d (0 + 1) <;> simp [pre, projOnly, siteTerm, bondTerm, cancel]
      · have he1 : e (0 + 1) = true := by rw [hes, hd]
        have e1 : rlLoop e h (0 + 1 + 1) false = [Op.site 1 h, Op.bond 0 (-h), Op.site 0 h] := by
          simp [rlLoop, he1]
        rw [e1]
        cases hp : nx L d (0 + 1)
        · have : cancel (pre false (0 + 1) h ++ projOnly [Op.site 1 h, Op.bond 0 (-h), Op.site 0 h]) =
              [Op.bond 0 (-h), Op.site 0 h] := by
            simp only [pre, projOnly, Bool.false_eq_true, ↓reduceIte, List.cons_append, List.nil_append, Nat.zero_add]
            rw [cancel_inverse 1 h hh, cancel_bond, cancel_site_nil]
          rw [this]
          simp [siteTerm, bondTerm]
        · simp [pre, projOnly, siteTerm, bondTerm, cancel]
    · have hs1 : 1 ≤ s := by omega
      have ih' := ih hs1 (by omega)
      rw [hnxs] at ih'
      have hne0 : (s + 1 = 0) = False := eq_false (by omega)
      have hne1 : (s + 1 = 1) = False := eq_false (by omega)
      rw [List.cons_append, ← ih']
      simp only [siteSlot, hpv]
      cases hd : d s
      · have he1 : e (s + 1) = false := by rw [hes, hd]
        have e1 : rlLoop e h (s + 1 + 1) false =
            Op.pair s h :: Op.split s false :: Op.site s (-h) :: rlLoop e h (s + 1) false := by
          rw [rlLoop_succ]; simp [he1, hs0]
        rw [e1]
        cases hp : nx L d (s + 1)
        · simp [pre, projOnly, siteTerm, bondTerm, cancel_site_pair]
        · simp [pre, projOnly, siteTerm, bondTerm, cancel_pair]
      · have he1 : e (s + 1) = true := by rw [hes, hd]
        have e1 : rlLoop e h (s + 1 + 1) false =
            Op.site (s + 1) h :: Op.bond s (-h) :: rlLoop e h (s + 1) false := by
          rw [rlLoop_succ]; simp [he1, hs0]
        rw [e1]
        cases hp : nx L d (s + 1)
        · have : cancel (pre false (s + 1) h ++ projOnly (Op.site (s + 1) h :: Op.bond s (-h) :: rlLoop e h (s + 1) false)) =
              Op.bond s (-h) :: cancel (projOnly (rlLoop e h (s + 1) false)) := by
            simp only [pre, projOnly, Bool.false_eq_true, ↓reduceIte, List.cons_append, List.nil_append]
            rw [cancel_inverse (s + 1) h hh, cancel_bond]
          rw [this]
          simp [siteTerm, bondTerm, pre]
        · simp [pre, projOnly, siteTerm, bondTerm, cancel_site_bond]

/-- the reduced right-to-left half is the reverse of the reduced left-to-right half -/
theorem cancel_palindrome (L : Nat) (hL : 2 ≤ L) (d e : Nat → Bool) (h : Rat) (hh : 0 < h)
    (hrealLR : Realizable L d (L - 1)) (hmir : ∀ s, 1 ≤ s → s < L → e s = d (s - 1)) (hrealRL : Realizable L e 0) :
    cancel (projOnly (ldtdvpRL L e h)) = (cancel (projOnly (ldtdvpLR L d h))).reverse := by
  obtain ⟨n, rfl⟩ : ∃ n, L = n + 2 := ⟨L - 2, by omega⟩
  have hmir' : ∀ s, 1 ≤ s → s < n + 2 → e s = pv d s := by
    intro s h1 h2
    rw [hmir s h1 h2]
    have : ¬ (s = 0) := by omega
    simp [pv, this]
  have hl := cancel_lr (n + 2) d h hh hrealLR (n + 1) 0 (by omega) (by omega)
  have hr := cancel_rl (n + 2) d e h hh hmir' hrealRL (n + 1) (by omega) (by omega)
  have hpv0 : pv d 0 = true := by simp [pv]
  have hnxL : nx (n + 2) d (n + 1) = true := by simp [nx]
  rw [hpv0] at hl
  rw [hnxL] at hr
  simp only [pre, ↓reduceIte, List.nil_append] at hl hr
  have e1 : n + 2 - 1 = n + 1 := by omega
  rw [e1] at hl
  unfold ldtdvpLR ldtdvpRL
  rw [hl, hr]
  rw [List.reverse_append, siteSlot_reverse, List.reverse_flatMap, ← List.range_eq_range']
  congr 2
  funext b
  simp [siteSlot_reverse]

end Yaqs.Sweep
