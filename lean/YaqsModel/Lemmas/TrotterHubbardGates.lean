import YaqsModel.Lemmas.TrotterKron
import Mathlib.Analysis.SpecialFunctions.Sqrt

/-!
# Lemmas.TrotterHubbardGates — dense matrices of the gates of the Fermi–Hubbard circuits (xh07 extension of C07)

* `gateMat L g`   the `2^L × 2^L` matrix of one gate of the circuit library: explicit for `p`, `cp`, `cx` and the basis changes
                  `ry(±π/2)`, `rx(±π/2)` (qiskit's matrices, spec-tied by the harness), `exp(-i θ/2 P)` for the Pauli rotations
                  (the convention of `Lemmas/TrotterPauli.lean`), 1 for barriers
* `circMat L gs`  product of the gate matrices in list order (first gate leftmost; the operator order is the reversed list)
* `p_gate_eq`, `cp_gate_eq`        the phase gates are products of exponentials of Pauli generators (`gateGens`)
* `cx_conj_string`                 `CX_{k,j} · S · CX_{k,j} = Z_k S` for a Pauli string `S` with `I` on `k` and `Z` on `j`
* `ladder_conj`                    the CNOT ladder turns `exp(g Z_j)` into `exp(g Z_i ⋯ Z_j)` — every distance, by induction
* `basis_conj`                     the basis changes turn `Z_i ⋯ Z_j` into `P_i Z ⋯ Z P_j`
* `lri_block_unitary`              the gate list of `add_long_range_interaction` has the unitary `exp(-i α/2 P_i Z⋯Z P_j)`,
                                   in list order and in operator order
-/
namespace Yaqs.Trotter

open Matrix NormedSpace Yaqs.TrotterLimit

noncomputable section

abbrev M2 := Matrix (Fin 2) (Fin 2) ℂ

/-! ### one-site matrices -/

def proj0 : M2 := !![1, 0; 0, 0]
def proj1 : M2 := !![0, 0; 0, 1]
/-- `1/√2` -/
def hs : ℂ := ((Real.sqrt 2 : ℝ) : ℂ)⁻¹
/-- qiskit `RYGate(π/2)`, `RYGate(-π/2)`, `RXGate(π/2)`, `RXGate(-π/2)` -/
def ryP : M2 := hs • !![1, -1; 1, 1]
def ryM : M2 := hs • !![1, 1; -1, 1]
def rxP : M2 := hs • !![1, -Complex.I; -Complex.I, 1]
def rxM : M2 := hs • !![1, Complex.I; Complex.I, 1]
/-- qiskit `PhaseGate(θ)` -/
def phase2 (θ : ℝ) : M2 := Matrix.diagonal ![1, Complex.exp (θ * Complex.I)]
/-- the lowering operator `|0⟩⟨1|` (annihilates the occupied state `|1⟩`, `n = (1 - Z)/2`) -/
def sigM : M2 := !![0, 1; 0, 0]

theorem hs_mul_hs : hs * hs = 1 / 2 := by
  unfold hs
  rw [← mul_inv, ← Complex.ofReal_mul, Real.mul_self_sqrt (by norm_num)]
  norm_num

theorem pauliM_I : pauliM Op.I = 1 := by
  ext a b; fin_cases a <;> fin_cases b <;> simp [pauliM, pauliC, pauli, GRat.toC] <;> rfl
theorem pauliM_X : pauliM Op.X = !![0, 1; 1, 0] := by
  ext a b; fin_cases a <;> fin_cases b <;> apply Complex.ext <;> simp [pauliM, pauliC, pauli, GRat.toC]
theorem pauliM_Y : pauliM Op.Y = !![0, -Complex.I; Complex.I, 0] := by
  ext a b; fin_cases a <;> fin_cases b <;> apply Complex.ext <;> simp [pauliM, pauliC, pauli, GRat.toC]
theorem pauliM_Z : pauliM Op.Z = !![1, 0; 0, -1] := by
  ext a b; fin_cases a <;> fin_cases b <;> apply Complex.ext <;> simp [pauliM, pauliC, pauli, GRat.toC]

/-! ### 2 × 2 identities -/

theorem proj_add : proj0 + proj1 = 1 := by
  ext a b; fin_cases a <;> fin_cases b <;> simp [proj0, proj1]
theorem proj_sub : proj0 + (-1 : ℂ) • proj1 = pauliM Op.Z := by
  rw [pauliM_Z]; ext a b; fin_cases a <;> fin_cases b <;> simp [proj0, proj1]
theorem proj0_sq : proj0 * proj0 = proj0 := by
  ext a b; fin_cases a <;> fin_cases b <;> simp [proj0]
theorem proj1_sq : proj1 * proj1 = proj1 := by
  ext a b; fin_cases a <;> fin_cases b <;> simp [proj1]
theorem proj01 : proj0 * proj1 = 0 := by
  ext a b; fin_cases a <;> fin_cases b <;> simp [proj0, proj1]
theorem proj10 : proj1 * proj0 = 0 := by
  ext a b; fin_cases a <;> fin_cases b <;> simp [proj0, proj1]
theorem xzx : pauliM Op.X * pauliM Op.Z * pauliM Op.X = (-1 : ℂ) • pauliM Op.Z := by
  rw [pauliM_X, pauliM_Z]; ext a b; fin_cases a <;> fin_cases b <;> simp
theorem xx : pauliM Op.X * pauliM Op.X = 1 := by
  rw [pauliM_X]; ext a b; fin_cases a <;> fin_cases b <;> simp
theorem ryPM : ryP * ryM = 1 := by
  unfold ryP ryM
  rw [Matrix.smul_mul, Matrix.mul_smul, smul_smul, hs_mul_hs]
  ext a b; fin_cases a <;> fin_cases b <;> simp <;> norm_num
theorem ryMP : ryM * ryP = 1 := by
  unfold ryP ryM
  rw [Matrix.smul_mul, Matrix.mul_smul, smul_smul, hs_mul_hs]
  ext a b; fin_cases a <;> fin_cases b <;> simp <;> norm_num
theorem rxPM : rxP * rxM = 1 := by
  unfold rxP rxM
  rw [Matrix.smul_mul, Matrix.mul_smul, smul_smul, hs_mul_hs]
  ext a b; fin_cases a <;> fin_cases b <;> simp <;> norm_num
theorem rxMP : rxM * rxP = 1 := by
  unfold rxP rxM
  rw [Matrix.smul_mul, Matrix.mul_smul, smul_smul, hs_mul_hs]
  ext a b; fin_cases a <;> fin_cases b <;> simp <;> norm_num
theorem ryP_conj : ryP * pauliM Op.Z * ryM = (1 : ℂ) • pauliM Op.X := by
  unfold ryP ryM
  rw [pauliM_Z, pauliM_X, Matrix.smul_mul, Matrix.smul_mul, Matrix.mul_smul, smul_smul, hs_mul_hs]
  ext a b; fin_cases a <;> fin_cases b <;> simp <;> norm_num
theorem ryM_conj : ryM * pauliM Op.Z * ryP = (-1 : ℂ) • pauliM Op.X := by
  unfold ryP ryM
  rw [pauliM_Z, pauliM_X, Matrix.smul_mul, Matrix.smul_mul, Matrix.mul_smul, smul_smul, hs_mul_hs]
  ext a b; fin_cases a <;> fin_cases b <;> simp <;> norm_num
theorem rxP_conj : rxP * pauliM Op.Z * rxM = (-1 : ℂ) • pauliM Op.Y := by
  unfold rxP rxM
  rw [pauliM_Z, pauliM_Y, Matrix.smul_mul, Matrix.smul_mul, Matrix.mul_smul, smul_smul, hs_mul_hs]
  ext a b; fin_cases a <;> fin_cases b <;> simp <;> ring
theorem rxM_conj : rxM * pauliM Op.Z * rxP = (1 : ℂ) • pauliM Op.Y := by
  unfold rxP rxM
  rw [pauliM_Z, pauliM_Y, Matrix.smul_mul, Matrix.smul_mul, Matrix.mul_smul, smul_smul, hs_mul_hs]
  ext a b; fin_cases a <;> fin_cases b <;> simp <;> ring

/-! ### embeddings -/

/-- `M` on site `q`, identity elsewhere -/
def site1 (L q : Nat) (M : M2) : Matrix (Fin (2 ^ L)) (Fin (2 ^ L)) ℂ := kronFn L fun k => if k.val = q then M else 1

/-- the Pauli string with label `s k` on site `k` as a Kronecker product -/
def pstr (L : Nat) (s : Nat → Op) : Matrix (Fin (2 ^ L)) (Fin (2 ^ L)) ℂ := kronFn L fun k => pauliM (s k.val)

theorem pauliMat_strOf' (L : Nat) (s : Nat → Op) : pauliMat L (strOf L s) = pstr L s := pauliMat_strOf L s

/-- `CX` with control `c` and target `t`: `|0⟩⟨0|_c ⊗ 1 + |1⟩⟨1|_c ⊗ X_t` -/
def cxMat (L c t : Nat) : Matrix (Fin (2 ^ L)) (Fin (2 ^ L)) ℂ :=
  kronFn L (fun k => if k.val = c then proj0 else 1)
    + kronFn L (fun k => if k.val = c then proj1 else if k.val = t then pauliM Op.X else 1)

/-- `CPhase(θ)` on `a, b`: `|0⟩⟨0|_a ⊗ 1 + |1⟩⟨1|_a ⊗ P(θ)_b` -/
def cpMat (L a b : Nat) (θ : ℝ) : Matrix (Fin (2 ^ L)) (Fin (2 ^ L)) ℂ :=
  kronFn L (fun k => if k.val = a then proj0 else 1)
    + kronFn L (fun k => if k.val = a then proj1 else if k.val = b then phase2 θ else 1)

/-- conjugation of an exponential by an invertible matrix given with its inverse -/
theorem conj_exp {n : Type*} [Fintype n] [DecidableEq n] (V W A : Matrix n n ℂ) (h : V * W = 1) :
    V * exp A * W = exp (V * A * W) := by
  have h' : W * V = 1 := mul_eq_one_comm.mp h
  let U : (Matrix n n ℂ)ˣ := ⟨V, W, h, h'⟩
  have := Matrix.exp_units_conj U A
  exact this.symm

theorem cx_conj_string (L c t : Nat) (s : Nat → Op) (hc : c < L) (ht : t < L) (hct : c ≠ t) (hsc : s c = Op.I)
    (hst : s t = Op.Z) : cxMat L c t * pstr L s * cxMat L c t = pstr L (Function.update s c Op.Z) := by
  unfold cxMat pstr
  simp only [add_mul, mul_add, kronFn_mul]
  -- the two cross terms vanish
  have z1 : kronFn L (fun k : Fin L => (if k.val = c then proj0 else 1) * pauliM (s k.val)
      * (if k.val = c then proj1 else if k.val = t then pauliM Op.X else 1)) = 0 := by
    apply kronFn_eq_zero L _ ⟨c, hc⟩
    simp [hsc, pauliM_I, proj01]
  have z2 : kronFn L (fun k : Fin L => (if k.val = c then proj1 else if k.val = t then pauliM Op.X else 1)
      * pauliM (s k.val) * (if k.val = c then proj0 else 1)) = 0 := by
    apply kronFn_eq_zero L _ ⟨c, hc⟩
    simp [hsc, pauliM_I, proj10]
  rw [z1, z2, add_zero, zero_add]
  -- the second diagonal term: pull the sign of X Z X = -Z out of slot t
  have e2 : kronFn L (fun k : Fin L => (if k.val = c then proj1 else if k.val = t then pauliM Op.X else 1)
      * pauliM (s k.val) * (if k.val = c then proj1 else if k.val = t then pauliM Op.X else 1))
      = kronFn L (fun k : Fin L => if k.val = c then (-1 : ℂ) • proj1 else pauliM (s k.val)) := by
    rw [kronFn_smul_slot L _ (fun k : Fin L => if k.val = c then proj1 else pauliM (s k.val)) ⟨t, ht⟩ (-1),
      ← kronFn_smul_slot L (fun k : Fin L => if k.val = c then (-1 : ℂ) • proj1 else pauliM (s k.val)) _ ⟨c, hc⟩ (-1)]
    · simp
    · intro k hk
      have : k.val ≠ c := fun e => hk (Fin.ext e)
      simp [this]
    · have : t ≠ c := fun e => hct e.symm
      simp [this, hst, xzx]
    · intro k hk
      have hkt : k.val ≠ t := fun e => hk (Fin.ext e)
      by_cases hkc : k.val = c
      · simp [hkc, hsc, pauliM_I, proj1_sq]
      · simp [hkc, hkt]
  rw [e2]
  apply kronFn_add_slot L _ _ _ ⟨c, hc⟩
  · simp [hsc, pauliM_I, proj0_sq]
    rw [← proj_sub, neg_one_smul]
  · intro k hk
    have hkc : k.val ≠ c := fun e => hk (Fin.ext e)
    simp [hkc]


theorem cx_mul_self (L c t : Nat) (hc : c < L) (hct : c ≠ t) : cxMat L c t * cxMat L c t = 1 := by
  unfold cxMat
  simp only [add_mul, mul_add, kronFn_mul]
  have z1 : kronFn L (fun k : Fin L => (if k.val = c then proj0 else 1)
      * (if k.val = c then proj1 else if k.val = t then pauliM Op.X else 1)) = 0 := by
    apply kronFn_eq_zero L _ ⟨c, hc⟩
    simp [proj01]
  have z2 : kronFn L (fun k : Fin L => (if k.val = c then proj1 else if k.val = t then pauliM Op.X else 1)
      * (if k.val = c then proj0 else 1)) = 0 := by
    apply kronFn_eq_zero L _ ⟨c, hc⟩
    simp [proj10]
  rw [z1, z2, add_zero, zero_add, ← kronFn_one L]
  apply kronFn_add_slot L _ _ _ ⟨c, hc⟩
  · simp [proj0_sq, proj1_sq, proj_add]
  · intro k hk
    have hkc : k.val ≠ c := fun e => hk (Fin.ext e)
    have htc : t ≠ c := fun e => hct e.symm
    by_cases hkt : k.val = t <;> simp [hkc, hkt, xx, htc]

/-- **induction step and whole ladder**: conjugating `exp(g · S)` by the CNOTs `cx(k, j)`, `k ∈ ks`, puts a `Z` on every `k ∈ ks` -/
theorem ladder_conj (L j : Nat) (g : ℂ) (hj : j < L) : ∀ (ks : List Nat) (s : Nat → Op), s j = Op.Z →
    (∀ k ∈ ks, k < L ∧ k ≠ j ∧ s k = Op.I) → ks.Nodup →
    (ks.reverse.map fun k => cxMat L k j).prod * exp (g • pstr L s) * (ks.map fun k => cxMat L k j).prod
      = exp (g • pstr L fun m => if m ∈ ks then Op.Z else s m) := by
  intro ks
  induction ks with
  | nil => intro s _ _ _; simp
  | cons k ks ih =>
    intro s hsj hks hnd
    obtain ⟨hkL, hkj, hsk⟩ := hks k List.mem_cons_self
    have hinner : cxMat L k j * exp (g • pstr L s) * cxMat L k j = exp (g • pstr L (Function.update s k Op.Z)) := by
      rw [conj_exp _ _ _ (cx_mul_self L k j hkL hkj), Matrix.mul_smul, Matrix.smul_mul,
        cx_conj_string L k j s hkL hj hkj hsk hsj]
    rw [List.reverse_cons, List.map_append, List.prod_append, List.map_cons, List.prod_cons, List.map_cons,
      List.map_nil, List.prod_cons, List.prod_nil, mul_one]
    have hk_notin : k ∉ ks := (List.nodup_cons.mp hnd).1
    have := ih (Function.update s k Op.Z) (by rw [Function.update_of_ne (Ne.symm hkj)]; exact hsj)
      (fun k' hk' => by
        obtain ⟨h1, h2, h3⟩ := hks k' (List.mem_cons_of_mem _ hk')
        refine ⟨h1, h2, ?_⟩
        rw [Function.update_of_ne (fun e : k' = k => hk_notin (by rw [← e]; exact hk'))]
        exact h3)
      (List.nodup_cons.mp hnd).2
    calc (ks.reverse.map fun k => cxMat L k j).prod * cxMat L k j * exp (g • pstr L s)
          * (cxMat L k j * (ks.map fun k => cxMat L k j).prod)
        = (ks.reverse.map fun k => cxMat L k j).prod * (cxMat L k j * exp (g • pstr L s) * cxMat L k j)
          * (ks.map fun k => cxMat L k j).prod := by simp only [mul_assoc]
      _ = _ := by
        rw [hinner, this]
        congr 3
        funext m
        by_cases hm : m = k
        · subst hm; simp
        · simp [hm]

/-- the string `Z_i Z_{i+1} ⋯ Z_j` -/
def zRun (i j : Nat) : Nat → Op := fun m => if i ≤ m ∧ m ≤ j then Op.Z else Op.I

/-- **basis change**: a one-site matrix `P` with inverse `M` and `P Z M = ε·σ`, `ε² = 1`, on the two ends of `Z_i ⋯ Z_j` -/
theorem basis_conj (L i j : Nat) (P M : M2) (o : Op) (ε : ℂ) (hconj : P * pauliM Op.Z * M = ε • pauliM o)
    (hε : ε * ε = 1) (hij : i < j) (hj : j < L) :
    site1 L i P * site1 L j P * pstr L (zRun i j) * (site1 L i M * site1 L j M)
      = pstr L (fun k => if k = i ∨ k = j then o else if i < k ∧ k < j then Op.Z else Op.I) := by
  unfold site1 pstr
  simp only [kronFn_mul]
  have hi : i < L := by omega
  have hne : i ≠ j := by omega
  rw [kronFn_smul_slot L _ (fun k : Fin L => if k.val = i then pauliM o else
        if k.val = j then ε • pauliM o else if i < k.val ∧ k.val < j then pauliM Op.Z else 1) ⟨i, hi⟩ ε,
    kronFn_smul_slot L (fun k : Fin L => if k.val = i then pauliM o else
        if k.val = j then ε • pauliM o else if i < k.val ∧ k.val < j then pauliM Op.Z else 1)
      (fun k : Fin L => if k.val = i then pauliM o else
        if k.val = j then pauliM o else if i < k.val ∧ k.val < j then pauliM Op.Z else 1) ⟨j, hj⟩ ε,
    smul_smul, hε, one_smul]
  · apply kronFn_congr
    intro k
    by_cases hki : k.val = i
    · simp [hki]
    · by_cases hkj : k.val = j
      · simp [hkj]
      · by_cases hin : i < k.val ∧ k.val < j <;> simp [hki, hkj, hin, pauliM_I]
  · have : j ≠ i := fun e => hne e.symm
    simp [this]
  · intro k hk
    have hkj : k.val ≠ j := fun e => hk (Fin.ext e)
    simp [hkj]
  · simp [hne, zRun, hij.le, hconj]
  · intro k hk
    have hki : k.val ≠ i := fun e => hk (Fin.ext e)
    by_cases hkj : k.val = j
    · have : j ≠ i := fun e => hne e.symm
      simp [hkj, this, zRun, hij.le, hconj]
    · simp only [hki, hkj, if_false, one_mul, mul_one, zRun]
      by_cases hin : i < k.val ∧ k.val < j
      · have : i ≤ k.val ∧ k.val ≤ j := ⟨hin.1.le, hin.2.le⟩
        simp [hin, this]
      · have : ¬ (i ≤ k.val ∧ k.val ≤ j) := by omega
        simp [hin, this, pauliM_I]


/-! ### gate and circuit matrices -/

/-- the matrix of one gate on `L` qubits (site 0 the leftmost tensor factor) -/
def gateMat (L : Nat) (g : Gate) : Matrix (Fin (2 ^ L)) (Fin (2 ^ L)) ℂ :=
  match g.name, g.qs, g.ang with
  | .cx, [c, t], _ => cxMat L c t
  | .p, [q], .q θ => site1 L q (phase2 ((θ : ℚ) : ℝ))
  | .cp, [a, b], .q θ => cpMat L a b ((θ : ℚ) : ℝ)
  | .ry, [q], .hpi => site1 L q ryP
  | .ry, [q], .mhpi => site1 L q ryM
  | .rx, [q], .hpi => site1 L q rxP
  | .rx, [q], .mhpi => site1 L q rxM
  | _, _, _ =>
    match gateGen L g with
    | some gn => exp (genMat L gn)
    | none => 1

/-- the matrix of a gate list: product in list order (first gate leftmost) -/
def circMat (L : Nat) (gs : List Gate) : Matrix (Fin (2 ^ L)) (Fin (2 ^ L)) ℂ := (gs.map (gateMat L)).prod

theorem circMat_nil (L : Nat) : circMat L [] = 1 := by simp [circMat]
theorem circMat_cons (L : Nat) (g : Gate) (gs : List Gate) : circMat L (g :: gs) = gateMat L g * circMat L gs := by
  simp [circMat]
theorem circMat_append (L : Nat) (a b : List Gate) : circMat L (a ++ b) = circMat L a * circMat L b := by
  simp [circMat]

theorem gateMat_cx (L c t : Nat) : gateMat L (cx c t) = cxMat L c t := rfl

theorem gateMat_rz (L q : Nat) (θ : Rat) (hq : q < L) :
    gateMat L (g1 .rz q θ) = exp (genMat L (strOf L (fun m => if q = m then Op.Z else Op.I), rotCoeff θ)) := by
  have h : gateGen L (g1 .rz q θ) = some (strOf L (fun m => if q = m then Op.Z else Op.I), rotCoeff θ) := by
    rw [gateGen_g1_rz, opList_one L Op.Z q hq]; rfl
  show (match gateGen L (g1 .rz q θ) with | some gn => exp (genMat L gn) | none => 1) = _
  rw [h]

theorem circMat_ladder (L j : Nat) (ks : List Nat) : circMat L (ks.map (cx · j)) = (ks.map fun k => cxMat L k j).prod := by
  unfold circMat
  rw [List.map_map]
  rfl

theorem site1_mul_site1 (L i j : Nat) (A B : M2) (hij : i ≠ j) :
    site1 L i A * site1 L j B = kronFn L fun k => if k.val = i then A else if k.val = j then B else 1 := by
  unfold site1
  rw [kronFn_mul]
  apply kronFn_congr
  intro k
  have hji : j ≠ i := fun e => hij e.symm
  by_cases hki : k.val = i
  · simp [hki, hij]
  · by_cases hkj : k.val = j <;> simp [hki, hkj, hji]

theorem site1_comm (L i j : Nat) (A B : M2) (hij : i ≠ j) : site1 L j B * site1 L i A = site1 L i A * site1 L j B := by
  rw [site1_mul_site1 L i j A B hij, site1_mul_site1 L j i B A (fun e => hij e.symm)]
  apply kronFn_congr
  intro k
  have hji : j ≠ i := fun e => hij e.symm
  by_cases hki : k.val = i
  · simp [hki, hij]
  · by_cases hkj : k.val = j <;> simp [hki, hkj, hji]

theorem site1_pair_inv (L i j : Nat) (P M : M2) (hPM : P * M = 1) (hij : i ≠ j) :
    site1 L i P * site1 L j P * (site1 L i M * site1 L j M) = 1 := by
  rw [site1_mul_site1 L i j P P hij, site1_mul_site1 L i j M M hij, kronFn_mul, ← kronFn_one L]
  apply kronFn_congr
  intro k
  by_cases hki : k.val = i
  · simp [hki, hPM]
  · by_cases hkj : k.val = j <;> simp [hki, hkj, hPM]

/-- the matrix identity behind the hopping block: basis change · CNOT ladder · `rz_j(α)` · ladder back · basis change back -/
theorem lri_matrix (L i j : Nat) (α : Rat) (P M : M2) (o : Op) (ε : ℂ) (hPM : P * M = 1)
    (hconj : P * pauliM Op.Z * M = ε • pauliM o) (hε : ε * ε = 1) (hij : i < j) (hj : j < L) :
    site1 L i P * site1 L j P
        * (((List.range' i (j - i)).reverse.map fun k => cxMat L k j).prod
            * exp (genMat L (strOf L (fun m => if j = m then Op.Z else Op.I), rotCoeff α))
            * ((List.range' i (j - i)).map fun k => cxMat L k j).prod)
        * (site1 L i M * site1 L j M)
      = exp (genMat L (hopString L i j o, rotCoeff α)) := by
  have hgen (s : Nat → Op) : genMat L (strOf L s, rotCoeff α)
      = (-(((rotCoeff α : ℚ) : ℝ) : ℂ) * Complex.I) • pstr L s := by
    unfold genMat
    rw [pauliMat_strOf']
  rw [hgen, ladder_conj L j _ hj (List.range' i (j - i)) _ (by simp)
    (fun k hk => by
      rw [List.mem_range'_1] at hk
      have : j ≠ k := by omega
      exact ⟨by omega, by omega, by simp [this]⟩)
    (List.nodup_range' (step := 1) (by norm_num))]
  have hz : (fun m => if m ∈ List.range' i (j - i) then Op.Z else if j = m then Op.Z else Op.I) = zRun i j := by
    funext m
    unfold zRun
    simp only [List.mem_range'_1]
    by_cases h1 : i ≤ m ∧ m < i + (j - i)
    · have : i ≤ m ∧ m ≤ j := by omega
      simp [h1, this]
    · by_cases h2 : j = m
      · have : i ≤ m ∧ m ≤ j := by omega
        simp [h2, this]
      · have : ¬ (i ≤ m ∧ m ≤ j) := by omega
        simp [h1, h2, this]
  rw [hz, conj_exp _ _ _ (site1_pair_inv L i j P M hPM (by omega)), Matrix.mul_smul, Matrix.smul_mul,
    basis_conj L i j P M o ε hconj hε hij hj]
  unfold hopString
  rw [hgen]


/-- the gate list `add_long_range_interaction` produces on an empty circuit for `i < j` (`Props/C07.lean::lri_closed_form`) -/
def lriList (i j : Nat) (isX : Bool) (α : Rat) : List Gate :=
  let nm : GName := if isX then .ry else .rx
  let ks := List.range' i (j - i)
  [⟨nm, [i], .hpi⟩, ⟨nm, [j], .hpi⟩] ++ (ks.reverse.map (cx · j) ++ [g1 .rz j α] ++ ks.map (cx · j))
    ++ [⟨nm, [i], .mhpi⟩, ⟨nm, [j], .mhpi⟩]

theorem circMat_core (L i j : Nat) (α : Rat) (hj : j < L) :
    circMat L ((List.range' i (j - i)).reverse.map (cx · j) ++ [g1 .rz j α] ++ (List.range' i (j - i)).map (cx · j))
      = ((List.range' i (j - i)).reverse.map fun k => cxMat L k j).prod
          * exp (genMat L (strOf L (fun m => if j = m then Op.Z else Op.I), rotCoeff α))
          * ((List.range' i (j - i)).map fun k => cxMat L k j).prod := by
  rw [circMat_append, circMat_append, circMat_ladder, circMat_ladder, circMat_cons, circMat_nil, mul_one, gateMat_rz L j α hj]

theorem lriList_reverse (i j : Nat) (isX : Bool) (α : Rat) :
    (lriList i j isX α).reverse =
      [⟨if isX then .ry else .rx, [j], .mhpi⟩, ⟨if isX then .ry else .rx, [i], .mhpi⟩]
        ++ ((List.range' i (j - i)).reverse.map (cx · j) ++ [g1 .rz j α] ++ (List.range' i (j - i)).map (cx · j))
        ++ [⟨if isX then .ry else .rx, [j], .hpi⟩, ⟨if isX then .ry else .rx, [i], .hpi⟩] := by
  simp [lriList, List.reverse_append, List.map_reverse]

/-- **the hopping block, every distance**: the gate list of `add_long_range_interaction(∅, i, j, X|Y, α)` multiplies — in list
    order and in operator order (reversed list) — to `exp(-i α/2 · P_i Z_{i+1} ⋯ Z_{j-1} P_j)` -/
theorem lri_block_unitary (L i j : Nat) (isX : Bool) (α : Rat) (hij : i < j) (hj : j < L) :
    circMat L (lriList i j isX α) = exp (genMat L (hopString L i j (if isX then Op.X else Op.Y), rotCoeff α)) ∧
    circMat L (lriList i j isX α).reverse = exp (genMat L (hopString L i j (if isX then Op.X else Op.Y), rotCoeff α)) := by
  have hne : i ≠ j := by omega
  constructor
  · unfold lriList
    simp only [circMat_append, circMat_core L i j α hj]
    cases isX
    · have := lri_matrix L i j α rxP rxM Op.Y (-1) rxPM rxP_conj (by norm_num) hij hj
      simpa [circMat, gateMat, mul_assoc] using this
    · have := lri_matrix L i j α ryP ryM Op.X 1 ryPM ryP_conj (by norm_num) hij hj
      simpa [circMat, gateMat, mul_assoc] using this
  · rw [lriList_reverse]
    simp only [circMat_append, circMat_core L i j α hj]
    cases isX
    · have := lri_matrix L i j α rxM rxP Op.Y 1 rxMP rxM_conj (by norm_num) hij hj
      rw [← site1_comm L i j rxM rxM hne, ← site1_comm L i j rxP rxP hne] at this
      simpa [circMat, gateMat, mul_assoc] using this
    · have := lri_matrix L i j α ryM ryP Op.X (-1) ryMP ryM_conj (by norm_num) hij hj
      rw [← site1_comm L i j ryM ryM hne, ← site1_comm L i j ryP ryP hne] at this
      simpa [circMat, gateMat, mul_assoc] using this


/-! ### diagonal strings and the phase gates -/

/-- eigenvalue of `Z` on the digit `d` -/
def zsgn (d : Fin 2) : ℂ := if d = 0 then 1 else -1

/-- eigenvalue of `Z_q` on the basis state `i` (1 when the site does not exist) -/
def zdiag (L q : Nat) (i : Fin (2 ^ L)) : ℂ := if hq : q < L then zsgn (dig L i ⟨q, hq⟩) else 1

theorem one_eq_diag : (1 : M2) = Matrix.diagonal ![1, 1] := by
  ext a b; fin_cases a <;> fin_cases b <;> simp
theorem pauliM_Z_diag : pauliM Op.Z = Matrix.diagonal ![1, -1] := by
  rw [pauliM_Z]; ext a b; fin_cases a <;> fin_cases b <;> simp

theorem site1_diagonal (L q : Nat) (v : Fin 2 → ℂ) :
    site1 L q (Matrix.diagonal v) = Matrix.diagonal fun i => if hq : q < L then v (dig L i ⟨q, hq⟩) else 1 := by
  unfold site1
  have e : (fun k : Fin L => if k.val = q then Matrix.diagonal v else (1 : M2))
      = fun k : Fin L => Matrix.diagonal (if k.val = q then v else ![1, 1]) := by
    funext k
    by_cases h : k.val = q <;> simp [h, one_eq_diag]
  rw [e, kronFn_diagonal]
  congr 1
  funext i
  rw [prod_single_site L q]
  · by_cases hq : q < L <;> simp [hq]
  · intro k hk
    simp only [hk, if_false]
    rcases Fin.exists_fin_two.mp ⟨dig L i k, rfl⟩ with h | h <;> rw [h] <;> rfl

theorem pauliMat_zString_nil (L : Nat) : pauliMat L (zString L []) = 1 := by
  unfold zString
  rw [pauliMat_strOf', pstr, ← kronFn_one L]
  apply kronFn_congr
  intro k
  simp [pauliM_I]

theorem pstr_single (L q : Nat) (o : Op) : pstr L (fun k => if k ∈ [q] then o else Op.I) = site1 L q (pauliM o) := by
  unfold pstr site1
  apply kronFn_congr
  intro k
  by_cases h : k.val = q <;> simp [h, pauliM_I]

theorem pauliMat_zString_one (L q : Nat) : pauliMat L (zString L [q]) = Matrix.diagonal (zdiag L q) := by
  unfold zString
  rw [pauliMat_strOf', pstr_single, pauliM_Z_diag, site1_diagonal]
  congr 1
  funext i
  unfold zdiag
  by_cases hq : q < L
  · simp only [hq, dite_true]
    rcases Fin.exists_fin_two.mp ⟨dig L i ⟨q, hq⟩, rfl⟩ with h | h <;> rw [h] <;> simp [zsgn]
  · simp [hq]

theorem pauliMat_zString_two (L a b : Nat) (hab : a ≠ b) :
    pauliMat L (zString L [a, b]) = Matrix.diagonal fun i => zdiag L a i * zdiag L b i := by
  have e : pauliMat L (zString L [a, b]) = pauliMat L (zString L [a]) * pauliMat L (zString L [b]) := by
    unfold zString
    rw [pauliMat_strOf', pauliMat_strOf', pauliMat_strOf', pstr, pstr, pstr, kronFn_mul]
    apply kronFn_congr
    intro k
    have hba : b ≠ a := fun e => hab e.symm
    by_cases ha : k.val = a
    · simp [ha, hab, pauliM_I]
    · by_cases hb : k.val = b <;> simp [ha, hb, hba, pauliM_I]
  rw [e, pauliMat_zString_one, pauliMat_zString_one, Matrix.diagonal_mul_diagonal]

/-- the gate of a diagonal Pauli string is the diagonal matrix of the phases `exp(-i c λ)` -/
theorem exp_genMat_diag (L : Nat) (l : List Op) (c : Rat) (v : Fin (2 ^ L) → ℂ) (h : pauliMat L l = Matrix.diagonal v) :
    exp (genMat L (l, c)) = Matrix.diagonal fun i => Complex.exp (-(((c : ℝ) : ℂ)) * Complex.I * v i) := by
  unfold genMat
  simp only
  rw [h, ← Matrix.diagonal_smul, Matrix.exp_diagonal]
  congr 1
  funext i
  rw [Pi.coe_exp, ← Complex.exp_eq_exp_ℂ]
  rfl


theorem exp2_eq (x1 x2 y : ℂ) (h : x1 + x2 = y) : Complex.exp x1 * Complex.exp x2 = Complex.exp y := by
  rw [← Complex.exp_add, h]

theorem exp4_eq (x1 x2 x3 x4 y : ℂ) (h : x1 + x2 + x3 + x4 = y) :
    Complex.exp x1 * (Complex.exp x2 * (Complex.exp x3 * Complex.exp x4)) = Complex.exp y := by
  rw [← Complex.exp_add, ← Complex.exp_add, ← Complex.exp_add, ← h]
  congr 1
  ring

theorem zsgn_zero : zsgn 0 = 1 := by simp [zsgn]
theorem zsgn_one : zsgn 1 = -1 := by simp [zsgn]

/-- **`p(θ)` on qubit `q`** (qiskit's `diag(1, e^{iθ})` on site `q`) `= exp(-i c·1) · exp(-i (-c) Z_q)`, `c = -θ/2`:
    the product of the exponentials of its two generators, i.e. `exp(-i c (1 - Z_q))` -/
theorem p_gate_eq (L q : Nat) (θ : Rat) : gateMat L (g1 .p q θ) = stepUnitary L (gateGens L (g1 .p q θ)) := by
  show site1 L q (phase2 ((θ : ℚ) : ℝ))
    = stepUnitary L [(zString L [], phaseCoeff θ), (zString L [q], -phaseCoeff θ)]
  unfold stepUnitary phase2
  simp only [List.map_cons, List.map_nil, List.prod_cons, List.prod_nil, mul_one]
  rw [exp_genMat_diag L _ _ (fun _ => 1) (by rw [pauliMat_zString_nil, Matrix.diagonal_one]),
    exp_genMat_diag L _ _ _ (pauliMat_zString_one L q), Matrix.diagonal_mul_diagonal, site1_diagonal]
  congr 1
  funext i
  unfold zdiag phaseCoeff
  by_cases hq : q < L
  · simp only [hq, dite_true]
    rcases Fin.exists_fin_two.mp ⟨dig L i ⟨q, hq⟩, rfl⟩ with h | h <;> rw [h]
    · rw [zsgn_zero]
      symm
      rw [show ((![1, Complex.exp (((θ : ℚ) : ℝ) * Complex.I)] : Fin 2 → ℂ) 0) = Complex.exp 0 by simp]
      apply exp2_eq
      push_cast
      ring
    · rw [zsgn_one]
      symm
      rw [show ((![1, Complex.exp (((θ : ℚ) : ℝ) * Complex.I)] : Fin 2 → ℂ) 1) = Complex.exp (((θ : ℚ) : ℝ) * Complex.I) by simp]
      apply exp2_eq
      push_cast
      ring
  · simp only [hq, dite_false]
    symm
    rw [← Complex.exp_zero]
    apply exp2_eq
    push_cast
    ring

theorem proj0_diag : proj0 = Matrix.diagonal ![1, 0] := by
  ext a b; fin_cases a <;> fin_cases b <;> simp [proj0]
theorem proj1_diag : proj1 = Matrix.diagonal ![0, 1] := by
  ext a b; fin_cases a <;> fin_cases b <;> simp [proj1]

theorem cpMat_eq (L a b : Nat) (θ : ℝ) (hab : a ≠ b) :
    cpMat L a b θ = site1 L a proj0 + site1 L a proj1 * site1 L b (phase2 θ) := by
  unfold cpMat
  rw [site1_mul_site1 L a b _ _ hab]
  rfl

/-- **`cp(θ)` on qubits `a ≠ b`** (`|0⟩⟨0|_a ⊗ 1 + |1⟩⟨1|_a ⊗ diag(1, e^{iθ})_b`) is the product of the exponentials of its four
    generators `(1, c), (Z_a, -c), (Z_b, -c), (Z_a Z_b, c)`, `c = -θ/4`, i.e. `exp(-i c (1 - Z_a)(1 - Z_b))` -/
theorem cp_gate_eq (L a b : Nat) (θ : Rat) (ha : a < L) (hb : b < L) (hab : a ≠ b) :
    gateMat L (g2 .cp a b θ) = stepUnitary L (gateGens L (g2 .cp a b θ)) := by
  show cpMat L a b ((θ : ℚ) : ℝ)
    = stepUnitary L [(zString L [], cphaseCoeff θ), (zString L [a], -cphaseCoeff θ), (zString L [b], -cphaseCoeff θ),
        (zString L [a, b], cphaseCoeff θ)]
  unfold stepUnitary
  simp only [List.map_cons, List.map_nil, List.prod_cons, List.prod_nil, mul_one]
  rw [exp_genMat_diag L _ _ (fun _ => 1) (by rw [pauliMat_zString_nil, Matrix.diagonal_one]),
    exp_genMat_diag L _ _ _ (pauliMat_zString_one L a), exp_genMat_diag L _ _ _ (pauliMat_zString_one L b),
    exp_genMat_diag L _ _ _ (pauliMat_zString_two L a b hab), Matrix.diagonal_mul_diagonal, Matrix.diagonal_mul_diagonal,
    Matrix.diagonal_mul_diagonal, cpMat_eq L a b _ hab, proj0_diag, proj1_diag, phase2, site1_diagonal, site1_diagonal,
    site1_diagonal, Matrix.diagonal_mul_diagonal, Matrix.diagonal_add]
  congr 1
  funext i
  unfold zdiag cphaseCoeff
  simp only [ha, hb, dite_true]
  rcases Fin.exists_fin_two.mp ⟨dig L i ⟨a, ha⟩, rfl⟩ with h | h <;>
    rcases Fin.exists_fin_two.mp ⟨dig L i ⟨b, hb⟩, rfl⟩ with h' | h' <;> rw [h, h'] <;>
    simp only [zsgn_zero, zsgn_one] <;> symm
  · rw [show ((![1, 0] : Fin 2 → ℂ) 0 + (![0, 1] : Fin 2 → ℂ) 0 * (![1, Complex.exp (((θ : ℚ) : ℝ) * Complex.I)] : Fin 2 → ℂ) 0)
      = Complex.exp 0 by simp]
    apply exp4_eq; push_cast; ring
  · rw [show ((![1, 0] : Fin 2 → ℂ) 0 + (![0, 1] : Fin 2 → ℂ) 0 * (![1, Complex.exp (((θ : ℚ) : ℝ) * Complex.I)] : Fin 2 → ℂ) 1)
      = Complex.exp 0 by simp]
    apply exp4_eq; push_cast; ring
  · rw [show ((![1, 0] : Fin 2 → ℂ) 1 + (![0, 1] : Fin 2 → ℂ) 1 * (![1, Complex.exp (((θ : ℚ) : ℝ) * Complex.I)] : Fin 2 → ℂ) 0)
      = Complex.exp 0 by simp]
    apply exp4_eq; push_cast; ring
  · rw [show ((![1, 0] : Fin 2 → ℂ) 1 + (![0, 1] : Fin 2 → ℂ) 1 * (![1, Complex.exp (((θ : ℚ) : ℝ) * Complex.I)] : Fin 2 → ℂ) 1)
      = Complex.exp (((θ : ℚ) : ℝ) * Complex.I) by simp]
    apply exp4_eq; push_cast; ring


end

end Yaqs.Trotter
