import YaqsModel.Lemmas.ConserveFlow
import YaqsModel.Lemmas.ConserveNorm

/-!
Bridge between the index model of the effective Hamiltonians (`Model/Heff.lean`, functions of natural-number indices) and
Mathlib matrices over `Fin n`, and the conservation of the local quadratic forms under the exact flow
`exp(-(t·i)•H_eff)`.
-/
namespace Yaqs.Conserve

open Matrix Finset Yaqs.Heff

/-- the `n × n` complex matrix with entries `H i j`, `i, j < n` -/
def finMat (n : ℕ) (H : ℕ → ℕ → ℂ) : Matrix (Fin n) (Fin n) ℂ := Matrix.of fun i j => H i j

/-- the first `n` entries of a flattened tensor as a vector over `Fin n` -/
def finVec (n : ℕ) (x : ℕ → ℂ) : Fin n → ℂ := fun i => x i

theorem quadForm_fin (n : ℕ) (H : ℕ → ℕ → ℂ) (x y : ℕ → ℂ) :
    ∑ row ∈ range n, star (y row) * matVec n H x row = star (finVec n y) ⬝ᵥ (finMat n H *ᵥ finVec n x) := by
  unfold matVec
  simp only [sumTo_eq_sum, dotProduct, mulVec, finVec, finMat, Matrix.of_apply, Pi.star_apply]
  rw [Finset.sum_range]
  refine Finset.sum_congr rfl fun i _ => ?_
  rw [Finset.sum_range]

theorem dot_fin (n : ℕ) (x y : ℕ → ℂ) :
    ∑ row ∈ range n, star (y row) * x row = star (finVec n y) ⬝ᵥ finVec n x := by
  simp only [dotProduct, finVec, Pi.star_apply]
  rw [Finset.sum_range]

theorem finMat_hermitian (n : ℕ) (H : ℕ → ℕ → ℂ) (h : ∀ i j, star (H i j) = H j i) :
    (finMat n H)ᴴ = finMat n H := by
  ext i j
  simp only [finMat, Matrix.conjTranspose_apply, Matrix.of_apply]
  exact h j i

/-- **site primitive, energy**: if the new site tensor is the exact flow of the (Hermitian) dense effective Hamiltonian
    applied to the old one, `⟨A'|project_site(A')⟩ = ⟨A|project_site(A)⟩` -/
theorem site_step_energy (d : SiteDims) (ho : d.o = d.p) (ha : d.aa = d.a) (hb : d.bb = d.b)
    (L R : ℕ → ℕ → ℕ → ℂ) (W : ℕ → ℕ → ℕ → ℕ → ℂ)
    (hH : ∀ row col, star (denseHeffSite d L R W row col) = denseHeffSite d L R W col row)
    (t : ℝ) (A A' : ℕ → ℕ → ℕ → ℂ)
    (hstep : finVec (d.p * d.a * d.b) (flattenT3 d.a d.b A') =
      flow (finMat (d.p * d.a * d.b) (denseHeffSite d L R W)) t *ᵥ finVec (d.p * d.a * d.b) (flattenT3 d.a d.b A)) :
    braket3 star d.o d.aa d.bb A' (projectSite d L R W A') =
      braket3 star d.o d.aa d.bb A (projectSite d L R W A) := by
  rw [local_site_eq_dense, local_site_eq_dense, ho, ha, hb, quadForm_fin, quadForm_fin, hstep, quad_mulVec,
    flow_conj_gen _ (finMat_hermitian _ _ hH)]

/-- **site primitive, norm**: a unitary map of the flattened site tensor keeps `Σ |A|²` -/
theorem site_step_norm (d : SiteDims) (ho : d.o = d.p) (ha : d.aa = d.a) (hb : d.bb = d.b)
    (U : Matrix (Fin (d.p * d.a * d.b)) (Fin (d.p * d.a * d.b)) ℂ) (hU : Uᴴ * U = 1) (A A' : ℕ → ℕ → ℕ → ℂ)
    (hstep : finVec (d.p * d.a * d.b) (flattenT3 d.a d.b A') = U *ᵥ finVec (d.p * d.a * d.b) (flattenT3 d.a d.b A)) :
    braket3 star d.o d.aa d.bb A' A' = braket3 star d.o d.aa d.bb A A := by
  rw [braket3_flat, braket3_flat, ho, ha, hb, dot_fin, dot_fin, hstep, normSq_mulVec, hU, Matrix.one_mulVec]

/-- **bond primitive, energy** -/
theorem bond_step_energy (e : BondDims) (hp : e.pp = e.u) (hw : e.w = e.v) (L R : ℕ → ℕ → ℕ → ℂ)
    (hH : ∀ row col, star (denseHeffBond e L R row col) = denseHeffBond e L R col row)
    (t : ℝ) (C C' : ℕ → ℕ → ℂ)
    (hstep : finVec (e.u * e.v) (flattenT2 e.v C') =
      flow (finMat (e.u * e.v) (denseHeffBond e L R)) t *ᵥ finVec (e.u * e.v) (flattenT2 e.v C)) :
    braket2 star e.pp e.w C' (projectBond e L R C') = braket2 star e.pp e.w C (projectBond e L R C) := by
  rw [local_bond_eq_dense, local_bond_eq_dense, hp, hw, quadForm_fin, quadForm_fin, hstep, quad_mulVec,
    flow_conj_gen _ (finMat_hermitian _ _ hH)]

/-- **bond primitive, norm** -/
theorem bond_step_norm (e : BondDims) (hp : e.pp = e.u) (hw : e.w = e.v)
    (U : Matrix (Fin (e.u * e.v)) (Fin (e.u * e.v)) ℂ) (hU : Uᴴ * U = 1) (C C' : ℕ → ℕ → ℂ)
    (hstep : finVec (e.u * e.v) (flattenT2 e.v C') = U *ᵥ finVec (e.u * e.v) (flattenT2 e.v C)) :
    braket2 star e.pp e.w C' C' = braket2 star e.pp e.w C C := by
  rw [braket2_flat, braket2_flat, hp, hw, dot_fin, dot_fin, hstep, normSq_mulVec, hU, Matrix.one_mulVec]

end Yaqs.Conserve

namespace Yaqs.Heff

section
variable {K : Type*} [CommSemiring K]

omit [CommSemiring K] in
/-- replacing a site by one of the same shape keeps the chain well-shaped -/
theorem chainDims_replace (ls : List (Site K)) (s s' : Site K) (rs : List (Site K)) (h : s'.d = s.d)
    (hd : ChainDims (ls ++ s :: rs)) : ChainDims (ls ++ s' :: rs) := by
  induction ls with
  | nil =>
    cases rs with
    | nil => trivial
    | cons r rs =>
      obtain ⟨h1, h2, h3, h4⟩ := hd
      exact ⟨by rw [h]; exact h1, by rw [h]; exact h2, by rw [h]; exact h3, h4⟩
  | cons l0 ls ih =>
    cases ls with
    | nil =>
      obtain ⟨h1, h2, h3, h4⟩ := hd
      exact ⟨by rw [h]; exact h1, by rw [h]; exact h2, by rw [h]; exact h3, ih h4⟩
    | cons l1 ls' =>
      obtain ⟨h1, h2, h3, h4⟩ := hd
      exact ⟨h1, h2, h3, ih h4⟩

/-- the norm network with identity blocks: `⟨ψ|ψ⟩ = Σ |A_s|²` at the centre of a mixed-canonical chain -/
theorem norm_local_site (cj : K → K) (n0 n1 : ℕ) (ls : List (Site K)) (s : Site K) (rs : List (Site K))
    (hd : ChainDims (ls ++ s :: rs)) (hs : IdSite s)
    (hl : LeftCanon cj n0 ls) (hla : outDim n0 ls = s.d.a)
    (hr : RightCanon cj n1 rs) (hrb : RightCanon.inDim n1 rs = s.d.b)
    (L0 R0 : ℕ → ℕ → ℕ → K) (hL0 : IsIdEnv n0 L0) (hR0 : IsIdEnv n1 R0) :
    cutLeft cj L0 R0 (ls ++ s :: rs) = braket3 cj s.d.o s.d.aa s.d.bb s.ket s.ket := by
  rw [cutLeft_eq_local_site cj ls s rs hd]
  obtain ⟨hop, ha, hb, hl1, hr1, hW⟩ := hs
  have hL := leftEnvChain_isId cj n0 ls hl L0 hL0
  have hR := rightEnvChain_isId cj n1 rs hr R0 hR0
  rw [hla] at hL
  rw [hrb] at hR
  unfold braket3
  refine Finset.sum_congr rfl fun o ho => Finset.sum_congr rfl fun A' hA => Finset.sum_congr rfl fun B hB => ?_
  rw [hW, projectSite_idOp s.d hop ha hb hl1 hr1 _ _ hL hR s.ket o A' B (Finset.mem_range.mp ho)
    (Finset.mem_range.mp hA) (Finset.mem_range.mp hB)]

end

end Yaqs.Heff
