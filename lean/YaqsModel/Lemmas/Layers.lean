import YaqsModel.Model.Layers
import Mathlib.Algebra.BigOperators.Group.List.Basic
import Mathlib.Algebra.BigOperators.Group.List.Lemmas
import Mathlib.Algebra.Group.Commute.Defs
import Mathlib.Algebra.FreeMonoid.Basic
import Mathlib.Algebra.Group.Prod
import Mathlib.Data.List.Perm.Basic

/-! helper lemmas for the layer loop (kept apart from the property theorems) -/
namespace Yaqs.Layers

open List

/-- the remaining instructions restricted to one wire -/
def onWire (w : Wire) (l : List Instr) : List Instr := l.filter (Instr.touches w)

/-! ### abstract: a wire-order preserving permutation has the same product -/

section Abstract
variable {G W M : Type*} [Monoid M]

theorem pull_front (g : M) (l1 l2 : List M) (h : ∀ x ∈ l1, Commute g x) :
    (l1 ++ g :: l2).prod = g * (l1 ++ l2).prod := by
  induction l1 with
  | nil => simp
  | cons a l ih =>
    have ha : Commute g a := h a (by simp)
    have hl : ∀ x ∈ l, Commute g x := fun x hx => h x (by simp [hx])
    simp only [List.cons_append, List.prod_cons, ih hl]
    rw [← mul_assoc, ← ha.eq, mul_assoc]

/-- If two lists are permutations of each other and agree on every wire (the sublist of elements touching
    that wire is the same list), and elements touching no common wire commute, their products agree. -/
theorem prod_eq_of_wire_eq [DecidableEq G] (sem : G → M) (touch : W → G → Bool)
    (hcomm : ∀ g h, (∀ w, ¬(touch w g = true ∧ touch w h = true)) → Commute (sem g) (sem h))
    (l₁ l₂ : List G) (hp : l₁.Perm l₂) (hw : ∀ w, l₁.filter (touch w) = l₂.filter (touch w)) :
    (l₁.map sem).prod = (l₂.map sem).prod := by
  induction l₁ generalizing l₂ with
  | nil => simp [hp.symm.eq_nil]
  | cons g l ih =>
    have hg : g ∈ l₂ := hp.subset (by simp)
    obtain ⟨m1, m2, rfl, hnot⟩ := List.eq_append_cons_of_mem hg
    -- nothing in front of the first occurrence of `g` shares a wire with it
    have hdis : ∀ x ∈ m1, ∀ w, ¬(touch w g = true ∧ touch w x = true) := by
      intro x hx w ⟨hgw, hxw⟩
      have h := hw w
      simp only [List.filter_cons, hgw, if_true, List.filter_append] at h
      have hxm : x ∈ m1.filter (touch w) := List.mem_filter.mpr ⟨hx, hxw⟩
      cases hm : m1.filter (touch w) with
      | nil => rw [hm] at hxm; simp at hxm
      | cons y ys =>
        rw [hm] at h
        simp only [List.cons_append, List.cons.injEq] at h
        have : y ∈ m1.filter (touch w) := by rw [hm]; simp
        have hy : y ∈ m1 := (List.mem_filter.mp this).1
        exact hnot (h.1 ▸ hy)
    have hperm : l.Perm (m1 ++ m2) := by
      have := hp.trans List.perm_middle
      exact this.cons_inv
    have hwire : ∀ w, l.filter (touch w) = (m1 ++ m2).filter (touch w) := by
      intro w
      have h := hw w
      simp only [List.filter_cons, List.filter_append] at h ⊢
      by_cases hgw : touch w g = true
      · have hm1 : m1.filter (touch w) = [] := by
          apply List.filter_eq_nil_iff.mpr
          intro x hx hxw
          exact hdis x hx w ⟨hgw, hxw⟩
        simp only [hgw, if_true, hm1, List.nil_append, List.cons.injEq, true_and] at h ⊢
        exact h
      · simp only [hgw, Bool.false_eq_true, if_false] at h
        exact h
    have hc : ∀ x ∈ m1.map sem, Commute (sem g) x := by
      intro x hx
      obtain ⟨y, hy, rfl⟩ := List.mem_map.mp hx
      exact hcomm g y (hdis y hy)
    rw [List.map_cons, List.prod_cons, ih (m1 ++ m2) hperm hwire]
    simp only [List.map_append, List.map_cons]
    rw [pull_front (sem g) (m1.map sem) (m2.map sem) hc]

end Abstract

/-! ### front layer -/

theorem blocked_nil (i : Instr) : blocked [] i = false := by
  simp [blocked]

theorem blocked_false_iff (busy : List Wire) (i : Instr) :
    blocked busy i = false ↔ ∀ w ∈ i.wires, w ∉ busy := by
  simp [blocked]

theorem touches_iff (w : Wire) (i : Instr) : i.touches w = true ↔ w ∈ i.wires := by
  simp [Instr.touches]

/-- nothing in the front layer sits on a busy wire -/
theorem front_not_busy (stay : Instr → Bool) (busy : List Wire) (l : List Instr) :
    ∀ x ∈ (splitFront stay busy l).1, ∀ w ∈ x.wires, w ∉ busy := by
  induction l generalizing busy with
  | nil => simp [splitFront]
  | cons i rest ih =>
    intro x hx w hw
    simp only [splitFront] at hx
    split at hx
    · have := ih (i.wires ++ busy) x hx w hw
      simp only [List.mem_append, not_or] at this
      exact this.2
    · rename_i hb
      have hb' : blocked busy i = false := by simpa using hb
      simp only [List.mem_cons] at hx
      rcases hx with rfl | hx
      · exact (blocked_false_iff busy x).mp hb' w hw
      · have := ih (i.wires ++ busy) x hx w hw
        simp only [List.mem_append, not_or] at this
        exact this.2

/-- nothing in the front layer touches a busy wire -/
theorem onWire_front_nil (stay : Instr → Bool) (busy : List Wire) (l : List Instr) (w : Wire) (hw : w ∈ busy) :
    onWire w (splitFront stay busy l).1 = [] := by
  apply List.filter_eq_nil_iff.mpr
  intro x hx hxw
  exact front_not_busy stay busy l x hx w ((touches_iff w x).mp hxw) hw

/-- the front layer has at most one node per wire -/
theorem onWire_front_le_one (stay : Instr → Bool) (busy : List Wire) (l : List Instr) (w : Wire) :
    (onWire w (splitFront stay busy l).1).length ≤ 1 := by
  induction l generalizing busy with
  | nil => simp [splitFront, onWire]
  | cons i rest ih =>
    simp only [splitFront]
    split
    · exact ih _
    · by_cases hi : i.touches w = true
      · have hnil := onWire_front_nil stay (i.wires ++ busy) rest w
          (List.mem_append_left _ ((touches_iff w i).mp hi))
        simp only [onWire, List.filter_cons, hi, if_true] at hnil ⊢
        rw [hnil]; simp
      · simp only [onWire, List.filter_cons, hi, Bool.false_eq_true, if_false]
        exact ih _

/-- per wire, the remaining instructions are the front node (if any) followed by the rest -/
theorem split_onWire (busy : List Wire) (l : List Instr) (w : Wire) :
    onWire w l = onWire w (splitFront stayNew busy l).1 ++ onWire w (splitFront stayNew busy l).2 := by
  induction l generalizing busy with
  | nil => simp [splitFront, onWire]
  | cons i rest ih =>
    simp only [splitFront, stayNew]
    split
    · by_cases hi : i.touches w = true
      · have hnil := onWire_front_nil stayNew (i.wires ++ busy) rest w
          (List.mem_append_left _ ((touches_iff w i).mp hi))
        have := ih (i.wires ++ busy)
        simp only [onWire, List.filter_cons, hi, if_true] at hnil this ⊢
        rw [hnil] at this ⊢
        simpa using this
      · have := ih (i.wires ++ busy)
        simp only [onWire, List.filter_cons, hi, Bool.false_eq_true, if_false] at this ⊢
        exact this
    · have := ih (i.wires ++ busy)
      by_cases hi : i.touches w = true
      · simp only [onWire, List.filter_cons, hi, if_true, Bool.false_eq_true, if_false, List.cons_append,
          List.cons.injEq, true_and] at this ⊢
        exact this
      · simp only [onWire, List.filter_cons, hi, Bool.false_eq_true, if_false] at this ⊢
        exact this

theorem split_perm (busy : List Wire) (l : List Instr) :
    ((splitFront stayNew busy l).1 ++ (splitFront stayNew busy l).2).Perm l := by
  induction l generalizing busy with
  | nil => simp [splitFront]
  | cons i rest ih =>
    simp only [splitFront, stayNew]
    split
    · exact List.perm_middle.trans ((ih _).cons i)
    · simp only [Bool.false_eq_true, if_false, List.cons_append]
      exact (ih _).cons i

theorem split_length (busy : List Wire) (l : List Instr) :
    (splitFront stayNew busy l).1.length + (splitFront stayNew busy l).2.length = l.length := by
  have := (split_perm busy l).length_eq
  simpa using this

/-- with no busy wire the head of the list is in the front layer: the rest is strictly shorter -/
theorem split_rest_lt (i : Instr) (rest : List Instr) :
    (splitFront stayNew [] (i :: rest)).2.length < (i :: rest).length := by
  have h := split_length [] (i :: rest)
  have h1 : 0 < (splitFront stayNew [] (i :: rest)).1.length := by
    simp [splitFront, blocked_nil]
  omega

/-! ### `process_layer` -/

theorem insertBy_perm (key : Instr → Nat) (x : Instr) (l : List Instr) : (insertBy key x l).Perm (x :: l) := by
  induction l with
  | nil => simp [insertBy]
  | cons y ys ih =>
    simp only [insertBy]
    split
    · exact List.Perm.refl _
    · exact (ih.cons y).trans (List.Perm.swap x y ys)

theorem sortBy_perm (key : Instr → Nat) (l : List Instr) : (sortBy key l).Perm l := by
  induction l with
  | nil => simp [sortBy]
  | cons x xs ih =>
    have : sortBy key (x :: xs) = insertBy key x (sortBy key xs) := rfl
    rw [this]
    exact (insertBy_perm key x _).trans (ih.cons x)

theorem insertBy_sorted (key : Instr → Nat) (x : Instr) (l : List Instr)
    (h : l.Pairwise (fun a b => key a ≤ key b)) : (insertBy key x l).Pairwise (fun a b => key a ≤ key b) := by
  induction l with
  | nil => simp [insertBy]
  | cons y ys ih =>
    simp only [insertBy]
    split
    · rename_i hxy
      refine List.Pairwise.cons ?_ h
      intro z hz
      rcases List.mem_cons.mp hz with rfl | hz
      · exact hxy
      · exact Nat.le_trans hxy ((List.pairwise_cons.mp h).1 z hz)
    · rename_i hxy
      have hy := List.pairwise_cons.mp h
      refine List.Pairwise.cons ?_ (ih hy.2)
      intro z hz
      have := (insertBy_perm key x ys).subset hz
      rcases List.mem_cons.mp this with rfl | hz
      · omega
      · exact hy.1 z hz

/-- each group comes out sorted by the (lower) qubit index -/
theorem sortBy_sorted (key : Instr → Nat) (l : List Instr) : (sortBy key l).Pairwise (fun a b => key a ≤ key b) := by
  induction l with
  | nil => simp [sortBy]
  | cons x xs ih =>
    have : sortBy key (x :: xs) = insertBy key x (sortBy key xs) := rfl
    rw [this]
    exact insertBy_sorted key x _ ih

theorem kinds_exclusive (i : Instr) :
    (i.isDropped = true ∧ i.isSingle = false ∧ i.isEven = false ∧ i.isOdd = false ∧ i.isSB = false) ∨
    (i.isDropped = false ∧ i.isSingle = true ∧ i.isEven = false ∧ i.isOdd = false ∧ i.isSB = false) ∨
    (i.isDropped = false ∧ i.isSingle = false ∧ i.isEven = true ∧ i.isOdd = false ∧ i.isSB = false) ∨
    (i.isDropped = false ∧ i.isSingle = false ∧ i.isEven = false ∧ i.isOdd = true ∧ i.isSB = false) ∨
    (i.isDropped = false ∧ i.isSingle = false ∧ i.isEven = false ∧ i.isOdd = false ∧ i.isSB = true) := by
  cases i with
  | gate1 t q => simp [Instr.isDropped, Instr.isSingle, Instr.isEven, Instr.isOdd, Instr.isSB]
  | gate2 t a b =>
    simp only [Instr.isDropped, Instr.isSingle, Instr.isEven, Instr.isOdd, Instr.isSB]
    by_cases h : min a b % 2 = 0
    · simp [h]
    · simp [h]; exact Nat.mod_two_ne_zero.mp h
  | measure q c => simp [Instr.isDropped, Instr.isSingle, Instr.isEven, Instr.isOdd, Instr.isSB]
  | barrier qs => simp [Instr.isDropped, Instr.isSingle, Instr.isEven, Instr.isOdd, Instr.isSB]
  | sbarrier qs => simp [Instr.isDropped, Instr.isSingle, Instr.isEven, Instr.isOdd, Instr.isSB]

/-- the unsorted version of `layerOrder` -/
def layerParts (layer : List Instr) : List Instr :=
  layer.filter Instr.isDropped ++ (layer.filter Instr.isSingle ++ (layer.filter Instr.isEven ++
    (layer.filter Instr.isOdd ++ layer.filter Instr.isSB)))

theorem layerParts_perm (layer : List Instr) : (layerParts layer).Perm layer := by
  induction layer with
  | nil => simp [layerParts]
  | cons i l ih =>
    unfold layerParts at ih ⊢
    rcases kinds_exclusive i with h | h | h | h | h <;>
      obtain ⟨h1, h2, h3, h4, h5⟩ := h <;>
      simp only [List.filter_cons, h1, h2, h3, h4, h5, if_true, Bool.false_eq_true, if_false, List.cons_append]
    · exact ih.cons i
    · exact List.perm_middle.trans (ih.cons i)
    · refine List.Perm.trans ?_ (ih.cons i)
      rw [← List.append_assoc, ← List.append_assoc]
      refine List.perm_middle.trans ?_
      simp
    · refine List.Perm.trans ?_ (ih.cons i)
      rw [← List.append_assoc, ← List.append_assoc, ← List.append_assoc]
      refine List.perm_middle.trans ?_
      simp
    · refine List.Perm.trans ?_ (ih.cons i)
      rw [← List.append_assoc, ← List.append_assoc, ← List.append_assoc, ← List.append_assoc]
      refine List.perm_middle.trans ?_
      simp

theorem layerOrder_perm (layer : List Instr) : (layerOrder layer).Perm layer := by
  refine List.Perm.trans ?_ (layerParts_perm layer)
  unfold layerOrder layerParts singles evens odds sbarriers
  exact List.Perm.append_left _ (List.Perm.append (sortBy_perm _ _)
    (List.Perm.append (sortBy_perm _ _) (List.Perm.append_right _ (sortBy_perm _ _))))

/-- a permutation of a list with at most one node on wire `w` looks the same on `w` -/
theorem onWire_perm_eq {l₁ l₂ : List Instr} (w : Wire) (hp : l₁.Perm l₂) (h : (onWire w l₂).length ≤ 1) :
    onWire w l₁ = onWire w l₂ := by
  have hp' : (onWire w l₁).Perm (onWire w l₂) := hp.filter _
  match hl : onWire w l₂, h with
  | [], _ => rw [hl] at hp'; exact hp'.eq_nil
  | [a], _ => rw [hl] at hp'; exact List.perm_singleton.mp hp'

theorem onWire_append (w : Wire) (a b : List Instr) : onWire w (a ++ b) = onWire w a ++ onWire w b := by
  simp [onWire]

/-- on every wire, one iteration handles the nodes in the order they stand in the DAG -/
theorem onWire_layerOrder_front (busy : List Wire) (l : List Instr) (w : Wire) :
    onWire w (layerOrder (splitFront stayNew busy l).1) = onWire w (splitFront stayNew busy l).1 :=
  onWire_perm_eq w (layerOrder_perm _) (onWire_front_le_one stayNew busy l w)

/-! ### the loop -/

theorem visitLoop_cons (stay : Instr → Bool) (fuel : Nat) (i : Instr) (rest : List Instr) :
    visitLoop stay (fuel + 1) (i :: rest) =
      (visitLoop stay fuel (splitFront stay [] (i :: rest)).2).map
        (layerOrder (splitFront stay [] (i :: rest)).1 ++ ·) := rfl

/-- `length` fuel suffices for the repaired loop -/
theorem visitLoop_isSome (fuel : Nat) (rem : List Instr) (h : rem.length ≤ fuel) :
    (visitLoop stayNew fuel rem).isSome = true := by
  induction fuel generalizing rem with
  | zero =>
    cases rem with
    | nil => simp [visitLoop]
    | cons i rest => simp at h
  | succ n ih =>
    cases rem with
    | nil => simp [visitLoop]
    | cons i rest =>
      rw [visitLoop_cons]
      have hlt := split_rest_lt i rest
      have := ih (splitFront stayNew [] (i :: rest)).2 (by simp only [List.length_cons] at h hlt; omega)
      simp only [Option.isSome_map, this]

/-- more fuel never changes a finished run -/
theorem visitLoop_mono (stay : Instr → Bool) (fuel : Nat) (rem o : List Instr)
    (h : visitLoop stay fuel rem = some o) : visitLoop stay (fuel + 1) rem = some o := by
  induction fuel generalizing rem o with
  | zero =>
    cases rem with
    | nil => simpa [visitLoop] using h
    | cons i rest => simp [visitLoop] at h
  | succ n ih =>
    cases rem with
    | nil => simpa [visitLoop] using h
    | cons i rest =>
      rw [visitLoop_cons] at h ⊢
      cases hr : visitLoop stay n (splitFront stay [] (i :: rest)).2 with
      | none => rw [hr] at h; simp at h
      | some o' =>
        rw [hr] at h
        rw [ih _ o' hr]
        exact h

theorem visitLoop_mono_add (stay : Instr → Bool) (fuel k : Nat) (rem o : List Instr)
    (h : visitLoop stay fuel rem = some o) : visitLoop stay (fuel + k) rem = some o := by
  induction k with
  | zero => exact h
  | succ k ih => exact visitLoop_mono stay (fuel + k) rem o ih

/-- the visit order is a permutation of the circuit and agrees with it on every wire -/
theorem visitLoop_spec (fuel : Nat) (rem o : List Instr) (h : visitLoop stayNew fuel rem = some o) :
    o.Perm rem ∧ ∀ w, onWire w o = onWire w rem := by
  induction fuel generalizing rem o with
  | zero =>
    cases rem with
    | nil => simp only [visitLoop, Option.some.injEq] at h; subst h; simp [onWire]
    | cons i rest => simp [visitLoop] at h
  | succ n ih =>
    cases rem with
    | nil => simp only [visitLoop, Option.some.injEq] at h; subst h; simp [onWire]
    | cons i rest =>
      rw [visitLoop_cons] at h
      cases hr : visitLoop stayNew n (splitFront stayNew [] (i :: rest)).2 with
      | none => rw [hr] at h; simp at h
      | some o' =>
        rw [hr] at h
        simp only [Option.map_some, Option.some.injEq] at h
        subst h
        obtain ⟨hp, hw⟩ := ih _ o' hr
        constructor
        · exact ((layerOrder_perm _).append hp).trans (split_perm [] (i :: rest))
        · intro w
          rw [onWire_append, onWire_layerOrder_front, hw w, ← split_onWire]

theorem visit_eq (c : List Instr) : visitLoop stayNew c.length c = some (visit c) := by
  have := visitLoop_isSome c.length c (Nat.le_refl _)
  unfold visit
  cases h : visitLoop stayNew c.length c with
  | none => rw [h] at this; simp at this
  | some o => simp

theorem visit_perm (c : List Instr) : (visit c).Perm c := (visitLoop_spec _ _ _ (visit_eq c)).1

theorem visit_onWire (c : List Instr) (w : Wire) : onWire w (visit c) = onWire w c :=
  (visitLoop_spec _ _ _ (visit_eq c)).2 w

theorem visitLoop_eq_visit (fuel : Nat) (rem : List Instr) (h : rem.length ≤ fuel) :
    visitLoop stayNew fuel rem = some (visit rem) := by
  obtain ⟨k, rfl⟩ := Nat.exists_eq_add_of_le h
  exact visitLoop_mono_add stayNew rem.length k rem _ (visit_eq rem)

/-- the recursion equation of the repaired loop, free of fuel -/
theorem visit_cons (i : Instr) (rest : List Instr) :
    visit (i :: rest) =
      layerOrder (splitFront stayNew [] (i :: rest)).1 ++ visit (splitFront stayNew [] (i :: rest)).2 := by
  have h := visit_eq (i :: rest)
  rw [List.length_cons, visitLoop_cons, visitLoop_eq_visit] at h
  · simpa using h.symm
  · have := split_rest_lt i rest
    simp only [List.length_cons] at this
    omega

theorem visit_nil : visit [] = [] := rfl

/-! ### the old loop gets stuck -/

theorem mem_split_rest_of_stay (stay : Instr → Bool) (busy : List Wire) (l : List Instr) (x : Instr)
    (hx : x ∈ l) (hs : stay x = true) : x ∈ (splitFront stay busy l).2 := by
  induction l generalizing busy with
  | nil => simp at hx
  | cons i rest ih =>
    simp only [splitFront]
    rcases List.mem_cons.mp hx with rfl | hx
    · split
      · simp
      · simp
    · have := ih (i.wires ++ busy) hx
      split
      · simp [this]
      · split <;> simp [this]

/-- a node the loop never removes keeps `dag.op_nodes()` non-empty: no amount of fuel finishes the run -/
theorem visitLoop_stuck (stay : Instr → Bool) (fuel : Nat) (rem : List Instr) (x : Instr)
    (hx : x ∈ rem) (hs : stay x = true) : visitLoop stay fuel rem = none := by
  induction fuel generalizing rem with
  | zero =>
    cases rem with
    | nil => simp at hx
    | cons i rest => rfl
  | succ n ih =>
    cases rem with
    | nil => simp at hx
    | cons i rest =>
      rw [visitLoop_cons, ih _ (mem_split_rest_of_stay stay [] (i :: rest) x hx hs)]
      rfl

/-! ### the loop body -/

def sbCount (l : List Instr) : Nat := (l.filter Instr.isSB).length

theorem emit_append (s : Bool) (col : Nat) (a b : List Instr) :
    emit s col (a ++ b) = emit s col a ++ emit s (if s then col + sbCount a else col) b := by
  induction a generalizing col with
  | nil => cases s <;> simp [emit, sbCount]
  | cons i l ih =>
    cases i with
    | gate1 t q => simp [emit, ih, sbCount, Instr.isSB]
    | gate2 t a b => simp [emit, ih, sbCount, Instr.isSB]
    | measure q c => simp [emit, ih, sbCount, Instr.isSB]
    | barrier qs => simp [emit, ih, sbCount, Instr.isSB]
    | sbarrier qs =>
      cases s
      · simp [emit, ih]
      · simp only [List.cons_append, emit, if_true, ih, sbCount, List.filter_cons, Instr.isSB,
          List.length_cons, List.cons.injEq, true_and]
        congr 2
        omega

/-- with sampling on, the loop writes the columns `col+1, col+2, …`, one per labelled barrier -/
theorem evalCols_emit_true (col : Nat) (o : List Instr) :
    evalCols (emit true col o) = List.range' (col + 1) (sbCount o) := by
  induction o generalizing col with
  | nil => simp [emit, evalCols, sbCount]
  | cons i l ih =>
    cases i with
    | gate1 t q => simpa [emit, evalCols, sbCount, Instr.isSB] using ih col
    | gate2 t a b => simpa [emit, evalCols, sbCount, Instr.isSB] using ih col
    | measure q c => simpa [emit, evalCols, sbCount, Instr.isSB] using ih col
    | barrier qs => simpa [emit, evalCols, sbCount, Instr.isSB] using ih col
    | sbarrier qs =>
      have h2 := ih (col + 1)
      have hc : sbCount (Instr.sbarrier qs :: l) = sbCount l + 1 := by rfl
      unfold evalCols at h2 ⊢
      rw [hc, List.range'_succ]
      simp [emit, h2]

/-- with sampling off (strong without `sample_layers`, weak) the loop evaluates nothing -/
theorem evalCols_emit_false (col : Nat) (o : List Instr) : evalCols (emit false col o) = [] := by
  induction o generalizing col with
  | nil => simp [emit, evalCols]
  | cons i l ih =>
    cases i <;> simpa [emit, evalCols] using ih col

/-- the gate applications do not depend on the mode or on the column counter -/
theorem apps_emit (s : Bool) (col : Nat) (o : List Instr) :
    (emit s col o).filter Event.isApp = (gates o).filterMap Event.ofInstr := by
  induction o generalizing col with
  | nil => simp [emit, gates]
  | cons i l ih =>
    cases i with
    | gate1 t q =>
      have h := ih col
      unfold gates at h
      simp [emit, gates, List.filter_cons, Event.isApp, Instr.isGate, Event.ofInstr, h]
    | gate2 t a b =>
      have h := ih col
      unfold gates at h
      simp [emit, gates, List.filter_cons, Event.isApp, Instr.isGate, Event.ofInstr, h]
    | measure q c => simpa [emit, gates, Instr.isGate] using ih col
    | barrier qs => simpa [emit, gates, Instr.isGate] using ih col
    | sbarrier qs =>
      cases s
      · simpa [emit, gates, Instr.isGate] using ih col
      · simpa [emit, gates, Instr.isGate, Event.isApp] using ih (col + 1)

theorem sbCount_perm {a b : List Instr} (h : a.Perm b) : sbCount a = sbCount b :=
  (h.filter _).length_eq

/-- `process_layer` and `_run_strong_sim` use one predicate: they see the same number of sampling barriers -/
theorem sbCount_classify (pred : Option (List Nat) → Bool) (raw : List RawInstr) :
    sbCount (raw.map (classify pred)) = countMid pred raw := by
  induction raw with
  | nil => rfl
  | cons r l ih =>
    unfold sbCount countMid at ih ⊢
    cases r with
    | gate1 t q => simpa [classify, Instr.isSB] using ih
    | gate2 t a b => simpa [classify, Instr.isSB] using ih
    | measure q c => simpa [classify, Instr.isSB] using ih
    | barrier qs lab =>
      by_cases hp : pred lab = true
      · simp [classify, hp, Instr.isSB, List.filter_cons] at ih ⊢
        exact ih
      · simp [classify, hp, Instr.isSB] at ih ⊢
        exact ih

/-! ### a full-width node cuts the run in two -/

theorem splitFront_all_blocked (busy : List Wire) (l : List Instr)
    (h : ∀ j ∈ l, ∃ w ∈ j.wires, w ∈ busy) : splitFront stayNew busy l = ([], l) := by
  induction l generalizing busy with
  | nil => rfl
  | cons i rest ih =>
    have hb : blocked busy i = true := by
      obtain ⟨w, hw, hwb⟩ := h i (by simp)
      simp only [blocked, List.any_eq_true]
      exact ⟨w, hw, by simpa using hwb⟩
    have hrest := ih (i.wires ++ busy) (fun j hj => by
      obtain ⟨w, hw, hwb⟩ := h j (by simp [hj])
      exact ⟨w, hw, List.mem_append_right _ hwb⟩)
    simp only [splitFront, hb, if_true, hrest]

theorem splitFront_append_blocked (busy : List Wire) (pre post : List Instr) (x : Instr)
    (hx : ∃ w ∈ x.wires, w ∈ busy) (hpost : ∀ j ∈ post, ∃ w ∈ j.wires, w ∈ x.wires) :
    splitFront stayNew busy (pre ++ x :: post) =
      ((splitFront stayNew busy pre).1, (splitFront stayNew busy pre).2 ++ x :: post) := by
  induction pre generalizing busy with
  | nil =>
    have hb : blocked busy x = true := by
      obtain ⟨w, hw, hwb⟩ := hx
      simp only [blocked, List.any_eq_true]
      exact ⟨w, hw, by simpa using hwb⟩
    have := splitFront_all_blocked (x.wires ++ busy) post (fun j hj => by
      obtain ⟨w, hw, hwx⟩ := hpost j hj
      exact ⟨w, hw, List.mem_append_left _ hwx⟩)
    simp only [List.nil_append, splitFront, hb, if_true, this]
  | cons i pre ih =>
    have := ih (i.wires ++ busy) (by
      obtain ⟨w, hw, hwb⟩ := hx
      exact ⟨w, hw, List.mem_append_right _ hwb⟩)
    simp only [List.cons_append, splitFront, this]
    split <;> simp [stayNew]

theorem layerOrder_singleton (x : Instr) : layerOrder [x] = [x] := by
  unfold layerOrder singles evens odds sbarriers
  rcases kinds_exclusive x with h | h | h | h | h <;>
    obtain ⟨h1, h2, h3, h4, h5⟩ := h <;>
    simp [h1, h2, h3, h4, h5, sortBy, insertBy]

/-- A node that shares a wire with every other instruction of the circuit (a full-width barrier) is handled
    after everything in front of it and before everything behind it; the two halves run as if alone. -/
theorem visit_full (pre post : List Instr) (x : Instr)
    (hpre : ∀ j ∈ pre, ∃ w ∈ j.wires, w ∈ x.wires) (hpost : ∀ j ∈ post, ∃ w ∈ j.wires, w ∈ x.wires) :
    visit (pre ++ x :: post) = visit pre ++ x :: visit post := by
  generalize hn : pre.length = n
  induction n using Nat.strongRecOn generalizing pre with
  | _ n ih =>
    cases pre with
    | nil =>
      have hs : splitFront stayNew [] (x :: post) = ([x], post) := by
        have := splitFront_all_blocked (x.wires ++ []) post (fun j hj => by
          obtain ⟨w, hw, hwx⟩ := hpost j hj
          exact ⟨w, hw, List.mem_append_left _ hwx⟩)
        rw [List.append_nil] at this
        simp [splitFront, blocked_nil, this, stayNew]
      simp [visit_cons, hs, layerOrder_singleton, visit_nil]
    | cons i pre' =>
      have hx : ∃ w ∈ x.wires, w ∈ i.wires ++ ([] : List Wire) := by
        obtain ⟨w, hw, hwx⟩ := hpre i (by simp)
        exact ⟨w, hwx, by simpa using hw⟩
      have hB := splitFront_append_blocked (i.wires ++ []) pre' post x hx hpost
      have hs : splitFront stayNew [] (i :: pre' ++ x :: post) =
          ((splitFront stayNew [] (i :: pre')).1, (splitFront stayNew [] (i :: pre')).2 ++ x :: post) := by
        simp only [List.cons_append, splitFront, blocked_nil, Bool.false_eq_true, if_false, hB]
        simp [stayNew]
      have hlt := split_rest_lt i pre'
      have hsub : ∀ j ∈ (splitFront stayNew [] (i :: pre')).2, ∃ w ∈ j.wires, w ∈ x.wires := by
        intro j hj
        apply hpre
        exact (split_perm [] (i :: pre')).subset (List.mem_append_right _ hj)
      have hrec := ih (splitFront stayNew [] (i :: pre')).2.length (by omega) _ hsub rfl
      have h1 : visit (i :: pre' ++ x :: post) =
          layerOrder (splitFront stayNew [] (i :: pre' ++ x :: post)).1 ++
            visit (splitFront stayNew [] (i :: pre' ++ x :: post)).2 := visit_cons i (pre' ++ x :: post)
      rw [h1, hs]
      simp only
      rw [hrec, visit_cons i pre']
      simp

/-! ### reverse-order products (operator composition) -/

section Rev
variable {G W M : Type*} [Monoid M]

theorem prod_reverse_eq_of_wire_eq [DecidableEq G] (sem : G → M) (touch : W → G → Bool)
    (hcomm : ∀ g h, (∀ w, ¬(touch w g = true ∧ touch w h = true)) → Commute (sem g) (sem h))
    (l₁ l₂ : List G) (hp : l₁.Perm l₂) (hw : ∀ w, l₁.filter (touch w) = l₂.filter (touch w)) :
    (l₁.map sem).reverse.prod = (l₂.map sem).reverse.prod := by
  have h := prod_eq_of_wire_eq (M := Mᵐᵒᵖ) (fun g => MulOpposite.op (sem g)) touch
    (fun g h hd => (hcomm g h hd).op) l₁ l₂ hp hw
  have key : ∀ l : List G, (l.map (fun g => MulOpposite.op (sem g))).prod =
      MulOpposite.op ((l.map sem).reverse.prod) := by
    intro l
    rw [MulOpposite.op_list_prod]
    simp [List.map_reverse, Function.comp_def]
  rw [key, key] at h
  exact MulOpposite.op_injective h

end Rev

/-! ### qubits vs wires, gates -/

theorem touches_q (q : Nat) (i : Instr) : i.touches (Wire.q q) = i.qubits.contains q := by
  rw [Bool.eq_iff_iff, touches_iff]
  simp [Instr.wires]

theorem onWire_q (q : Nat) (l : List Instr) : onWire (Wire.q q) l = l.filter (fun i => i.qubits.contains q) := by
  unfold onWire
  congr 1
  funext i
  exact touches_q q i

theorem gate_touches_c (n : Nat) (i : Instr) (h : i.isGate = true) : i.touches (Wire.c n) = false := by
  cases i <;> simp_all [Instr.isGate, Instr.touches, Instr.wires, Instr.qubits, Instr.clbits]

theorem gates_perm {a b : List Instr} (h : a.Perm b) : (gates a).Perm (gates b) := h.filter _

theorem gates_onWire (w : Wire) (l : List Instr) : onWire w (gates l) = gates (onWire w l) := by
  simp only [onWire, gates, List.filter_filter]
  congr 1
  funext i
  exact Bool.and_comm _ _

theorem schedule_perm_gates (c : List Instr) : (schedule c).Perm (gates c) := gates_perm (visit_perm c)

theorem schedule_onWire (c : List Instr) (w : Wire) : onWire w (schedule c) = onWire w (gates c) := by
  unfold schedule
  rw [gates_onWire, gates_onWire, visit_onWire]

theorem gates_filter_keep (keep : Instr → Bool) (hk : ∀ i, i.isGate = true → keep i = true) (c : List Instr) :
    gates (c.filter keep) = gates c := by
  simp only [gates, List.filter_filter]
  apply List.filter_congr
  intro i _
  cases hg : i.isGate with
  | false => simp
  | true => simp [hk i hg]

/-- the semantic core of C02/C16: two gate lists that are permutations of each other and agree on every
    qubit have the same product, in either multiplication order -/
theorem gate_prod_eq {M : Type*} [Monoid M] (sem : Instr → M)
    (hcomm : ∀ g h, g.isGate = true → h.isGate = true → (∀ q, ¬(q ∈ g.qubits ∧ q ∈ h.qubits)) →
      Commute (sem g) (sem h))
    (l₁ l₂ : List Instr) (hg₁ : ∀ i ∈ l₁, i.isGate = true) (hg₂ : ∀ i ∈ l₂, i.isGate = true)
    (hp : l₁.Perm l₂) (hw : ∀ w, onWire w l₁ = onWire w l₂) :
    (l₁.map sem).prod = (l₂.map sem).prod ∧ (l₁.map sem).reverse.prod = (l₂.map sem).reverse.prod := by
  let sem' : Instr → M := fun i => if i.isGate then sem i else 1
  have hc' : ∀ g h, (∀ w, ¬(Instr.touches w g = true ∧ Instr.touches w h = true)) →
      Commute (sem' g) (sem' h) := by
    intro g h hd
    by_cases hg : g.isGate = true
    · by_cases hh : h.isGate = true
      · simp only [sem', hg, hh, if_true]
        apply hcomm g h hg hh
        intro q ⟨h1, h2⟩
        apply hd (Wire.q q)
        rw [touches_q, touches_q]
        simp [h1, h2]
      · simp only [sem', hh, Bool.false_eq_true, if_false]
        exact Commute.one_right _
    · simp only [sem', hg, Bool.false_eq_true, if_false]
      exact Commute.one_left _
  have e₁ : l₁.map sem = l₁.map sem' := List.map_congr_left (fun i hi => by simp [sem', hg₁ i hi])
  have e₂ : l₂.map sem = l₂.map sem' := List.map_congr_left (fun i hi => by simp [sem', hg₂ i hi])
  rw [e₁, e₂]
  exact ⟨prod_eq_of_wire_eq sem' (fun w i => Instr.touches w i) hc' l₁ l₂ hp hw,
    prod_reverse_eq_of_wire_eq sem' (fun w i => Instr.touches w i) hc' l₁ l₂ hp hw⟩

theorem mem_gates {i : Instr} {l : List Instr} (h : i ∈ gates l) : i.isGate = true :=
  (List.mem_filter.mp h).2


end Yaqs.Layers
