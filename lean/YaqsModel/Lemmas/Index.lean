import YaqsModel.Model.Index
import Mathlib.Tactic.Ring
import Mathlib.Tactic.Linarith
import Mathlib.Algebra.GroupWithZero.Defs

/-! helper lemmas for `Model.Index` (C06) -/
namespace Yaqs.Index

/-! ### validity -/

theorem Valid.length_eq : ∀ {d b : List Nat}, Valid d b → d.length = b.length
  | [], [], _ => rfl
  | _ :: ds, _ :: bs, h => by simp [Valid.length_eq (d := ds) (b := bs) h.2]
  | [], _ :: _, h => absurd h (by simp [Valid])
  | _ :: _, [], h => absurd h (by simp [Valid])

theorem validB_iff : ∀ (d b : List Nat), validB d b = true ↔ Valid d b
  | [], [] => by simp [validB, Valid]
  | d :: ds, b :: bs => by simp [validB, Valid, validB_iff ds bs]
  | [], _ :: _ => by simp [validB, Valid]
  | _ :: _, [] => by simp [validB, Valid]

instance (d b : List Nat) : Decidable (Valid d b) := decidable_of_iff _ (validB_iff d b)

theorem Valid.append : ∀ {d1 b1 d2 b2 : List Nat}, Valid d1 b1 → Valid d2 b2 → Valid (d1 ++ d2) (b1 ++ b2)
  | [], [], _, _, _, h2 => by simpa using h2
  | _ :: ds, _ :: bs, _, _, h1, h2 => by
    simp only [List.cons_append, Valid]
    exact ⟨h1.1, Valid.append (d1 := ds) (b1 := bs) h1.2 h2⟩
  | [], _ :: _, _, _, h, _ => absurd h (by simp [Valid])
  | _ :: _, [], _, _, h, _ => absurd h (by simp [Valid])

theorem Valid.reverse : ∀ {d b : List Nat}, Valid d b → Valid d.reverse b.reverse
  | [], [], _ => by simp [Valid]
  | d :: ds, b :: bs, h => by
    simp only [List.reverse_cons]
    exact Valid.append (Valid.reverse (d := ds) (b := bs) h.2) (by simp [Valid, h.1])
  | [], _ :: _, h => absurd h (by simp [Valid])
  | _ :: _, [], h => absurd h (by simp [Valid])

theorem valid_replicate_iff (n k : Nat) (b : List Nat) :
    Valid (List.replicate n k) b ↔ b.length = n ∧ ∀ x ∈ b, x < k := by
  induction n generalizing b with
  | zero => cases b <;> simp [Valid]
  | succ n ih =>
    cases b with
    | nil => simp [List.replicate_succ, Valid]
    | cons x xs => simp [List.replicate_succ, Valid, ih xs]; tauto

theorem dimProd_append (d1 d2 : List Nat) : dimProd (d1 ++ d2) = dimProd d1 * dimProd d2 := by
  induction d1 with
  | nil => simp [dimProd]
  | cons d ds ih => simp [dimProd, ih, Nat.mul_assoc]

theorem dimProd_reverse (d : List Nat) : dimProd d.reverse = dimProd d := by
  induction d with
  | nil => rfl
  | cons d ds ih => simp [dimProd_append, dimProd, ih, Nat.mul_comm]

theorem dimProd_replicate (n k : Nat) : dimProd (List.replicate n k) = k ^ n := by
  induction n with
  | zero => rfl
  | succ n ih => simp [List.replicate_succ, dimProd, ih, Nat.pow_succ, Nat.mul_comm]

/-! ### the flat index -/

theorem kronIdxFrom_eq : ∀ {d b : List Nat} (acc : Nat), Valid d b →
    kronIdxFrom acc d b = acc * dimProd d + kronIdx d b
  | [], [], acc, _ => by simp [kronIdxFrom, kronIdx, dimProd]
  | d :: ds, b :: bs, acc, h => by
    have h1 := kronIdxFrom_eq (acc * d + b) h.2
    have h2 := kronIdxFrom_eq (0 * d + b) h.2
    simp only [kronIdx, kronIdxFrom, dimProd] at *
    rw [h1, h2]; ring
  | [], _ :: _, _, h => absurd h (by simp [Valid])
  | _ :: _, [], _, h => absurd h (by simp [Valid])

theorem kronIdx_cons {ds bs : List Nat} (d b : Nat) (h : Valid ds bs) :
    kronIdx (d :: ds) (b :: bs) = b * dimProd ds + kronIdx ds bs := by
  have := kronIdxFrom_eq (0 * d + b) h
  simp only [kronIdx, kronIdxFrom] at *
  rw [this]; ring

theorem kronIdx_lt : ∀ {d b : List Nat}, Valid d b → kronIdx d b < dimProd d
  | [], [], _ => by simp [kronIdx, kronIdxFrom, dimProd]
  | d :: ds, b :: bs, h => by
    rw [kronIdx_cons d b h.2]
    have ih := kronIdx_lt h.2
    have hb : b + 1 ≤ d := h.1
    have : (b + 1) * dimProd ds ≤ d * dimProd ds := Nat.mul_le_mul_right _ hb
    simp only [dimProd]
    nlinarith
  | [], _ :: _, h => absurd h (by simp [Valid])
  | _ :: _, [], h => absurd h (by simp [Valid])

theorem dimProd_pos_of_valid {d b : List Nat} (h : Valid d b) : 0 < dimProd d :=
  Nat.lt_of_le_of_lt (Nat.zero_le _) (kronIdx_lt h)

theorem kronIdxFrom_append : ∀ {d1 b1 : List Nat} (acc : Nat) (d2 b2 : List Nat), d1.length = b1.length →
    kronIdxFrom acc (d1 ++ d2) (b1 ++ b2) = kronIdxFrom (kronIdxFrom acc d1 b1) d2 b2
  | [], [], _, _, _, _ => by simp [kronIdxFrom]
  | d :: ds, b :: bs, acc, d2, b2, h => by
    simp only [List.cons_append, kronIdxFrom]
    exact kronIdxFrom_append _ d2 b2 (by simpa using h)
  | [], _ :: _, _, _, _, h => by simp at h
  | _ :: _, [], _, _, _, h => by simp at h

theorem kronIdx_append {d1 b1 d2 b2 : List Nat} (h1 : Valid d1 b1) (h2 : Valid d2 b2) :
    kronIdx (d1 ++ d2) (b1 ++ b2) = kronIdx d1 b1 * dimProd d2 + kronIdx d2 b2 := by
  unfold kronIdx
  rw [kronIdxFrom_append 0 d2 b2 h1.length_eq, kronIdxFrom_eq _ h2]
  rfl

/-- round trip digits → index → digits -/
theorem unflat_kronIdx : ∀ {d b : List Nat}, Valid d b → unflat d (kronIdx d b) = b
  | [], [], _ => rfl
  | d :: ds, b :: bs, h => by
    have hK := kronIdx_lt h.2
    have hP := dimProd_pos_of_valid h.2
    rw [kronIdx_cons d b h.2]
    simp only [unflat]
    have hdiv : (b * dimProd ds + kronIdx ds bs) / dimProd ds = b := by
      rw [Nat.mul_comm, Nat.mul_add_div hP, Nat.div_eq_of_lt hK]; rfl
    have hmod : (b * dimProd ds + kronIdx ds bs) % dimProd ds = kronIdx ds bs := by
      rw [Nat.mul_comm, Nat.mul_add_mod, Nat.mod_eq_of_lt hK]
    rw [hdiv, hmod, Nat.mod_eq_of_lt h.1, unflat_kronIdx h.2]
  | [], _ :: _, h => absurd h (by simp [Valid])
  | _ :: _, [], h => absurd h (by simp [Valid])

/-- round trip index → digits → index -/
theorem kronIdx_unflat : ∀ (d : List Nat) (k : Nat), k < dimProd d →
    Valid d (unflat d k) ∧ kronIdx d (unflat d k) = k
  | [], k, hk => by
    simp only [dimProd] at hk
    have : k = 0 := by omega
    subst this
    exact ⟨trivial, rfl⟩
  | d :: ds, k, hk => by
    simp only [dimProd] at hk
    have hP : 0 < dimProd ds := by
      rcases Nat.eq_zero_or_pos (dimProd ds) with h0 | h0
      · rw [h0] at hk; simp at hk
      · exact h0
    have hq : k / dimProd ds < d := by
      apply Nat.div_lt_of_lt_mul
      rw [Nat.mul_comm]; exact hk
    have hr : k % dimProd ds < dimProd ds := Nat.mod_lt _ hP
    obtain ⟨hv, he⟩ := kronIdx_unflat ds (k % dimProd ds) hr
    simp only [unflat]
    rw [Nat.mod_eq_of_lt hq]
    refine ⟨⟨hq, hv⟩, ?_⟩
    rw [kronIdx_cons _ _ hv, he, Nat.mul_comm]
    exact Nat.div_add_mod k (dimProd ds)

theorem kronIdx_inj {d b b' : List Nat} (h : Valid d b) (h' : Valid d b')
    (he : kronIdx d b = kronIdx d b') : b = b' := by
  rw [← unflat_kronIdx h, ← unflat_kronIdx h', he]

theorem toVecIdx_eq_code : ∀ {d b : List Nat}, Valid d b → toVecIdx d b = toVecIdxCode d b
  | [], [], _ => rfl
  | d :: ds, b :: bs, h => by
    have ih := toVecIdx_eq_code h.2
    have hv : Valid [d] [b] := by simp [Valid, h.1]
    simp only [toVecIdx, toVecIdxCode, List.reverse_cons] at *
    rw [kronIdx_append h.2.reverse hv, ih]
    simp [kronIdx, kronIdxFrom, dimProd]
    ring
  | [], _ :: _, h => absurd h (by simp [Valid])
  | _ :: _, [], h => absurd h (by simp [Valid])

/-! ### Kronecker products -/

variable {α : Type}

theorem kron_e_mul_add [Mul α] (X A : Mat α) (r c b b' : Nat) (hb : b < A.rows) (hb' : b' < A.cols) :
    (kron X A).e (r * A.rows + b) (c * A.cols + b') = X.e r c * A.e b b' := by
  have h1 : (r * A.rows + b) / A.rows = r := by
    rw [Nat.mul_comm, Nat.mul_add_div (by omega), Nat.div_eq_of_lt hb]; rfl
  have h2 : (c * A.cols + b') / A.cols = c := by
    rw [Nat.mul_comm, Nat.mul_add_div (by omega), Nat.div_eq_of_lt hb']; rfl
  have h3 : (r * A.rows + b) % A.rows = b := by
    rw [Nat.mul_comm, Nat.mul_add_mod, Nat.mod_eq_of_lt hb]
  have h4 : (c * A.cols + b') % A.cols = b' := by
    rw [Nat.mul_comm, Nat.mul_add_mod, Nat.mod_eq_of_lt hb']
  simp only [kron, h1, h2, h3, h4]

/-- entry of a left-nested Kronecker product at accumulated indices -/
theorem foldl_kron_entry [Mul α] : ∀ (As : List (Mat α)) (X : Mat α) (r c : Nat) (bs cs : List Nat),
    Valid (As.map (·.rows)) bs → Valid (As.map (·.cols)) cs →
    (As.foldl kron X).e (kronIdxFrom r (As.map (·.rows)) bs) (kronIdxFrom c (As.map (·.cols)) cs)
      = entryProd (X.e r c) As bs cs
  | [], X, r, c, [], [], _, _ => by simp [kronIdxFrom, entryProd]
  | A :: As, X, r, c, b :: bs, b' :: cs, hr, hc => by
    simp only [List.map_cons, List.foldl_cons, kronIdxFrom, entryProd]
    rw [foldl_kron_entry As (kron X A) _ _ bs cs hr.2 hc.2, kron_e_mul_add X A r c b b' hr.1 hc.1]
  | [], _, _, _, _ :: _, _, h, _ => absurd h (by simp [Valid])
  | [], _, _, _, [], _ :: _, _, h => absurd h (by simp [Valid])
  | _ :: _, _, _, _, [], _, h, _ => absurd h (by simp [Valid])
  | _ :: _, _, _, _, _ :: _, [], _, h => absurd h (by simp [Valid])

theorem foldl_kron_rows [Mul α] (As : List (Mat α)) (X : Mat α) :
    (As.foldl kron X).rows = X.rows * dimProd (As.map (·.rows)) ∧
    (As.foldl kron X).cols = X.cols * dimProd (As.map (·.cols)) := by
  induction As generalizing X with
  | nil => simp [dimProd]
  | cons A As ih =>
    simp only [List.foldl_cons, List.map_cons, dimProd]
    rw [(ih (kron X A)).1, (ih (kron X A)).2]
    simp [kron, Nat.mul_assoc]

/-! ### products of entries with identity factors -/

theorem entryProd_zero [MulZeroClass α] : ∀ (As : List (Mat α)) (bs cs : List Nat),
    entryProd (0 : α) As bs cs = 0
  | [], _, _ => by simp [entryProd]
  | _ :: _, [], _ => by simp [entryProd]
  | _ :: _, _ :: _, [] => by simp [entryProd]
  | A :: As, b :: bs, c :: cs => by
    simp only [entryProd, zero_mul]
    exact entryProd_zero As bs cs

/-- a block of identity factors contributes a Kronecker delta on the digits it covers -/
theorem entryProd_eye_prefix [MulZeroOneClass α] : ∀ (p : Nat) (a : α) (n : Nat) (rest : List (Mat α))
    (pre pre' bs cs : List Nat), pre.length = p → pre'.length = p →
    entryProd a (List.replicate p (eye n) ++ rest) (pre ++ bs) (pre' ++ cs)
      = if pre = pre' then entryProd a rest bs cs else 0
  | 0, a, n, rest, [], [], bs, cs, _, _ => by simp
  | p + 1, a, n, rest, x :: pre, x' :: pre', bs, cs, h, h' => by
    simp only [List.replicate_succ, List.cons_append, entryProd]
    rw [entryProd_eye_prefix p _ n rest pre pre' bs cs (by simpa using h) (by simpa using h')]
    by_cases hx : x = x'
    · subst hx
      simp [eye]
    · have : ¬ (x :: pre = x' :: pre') := by
        intro hc; exact hx (List.cons.inj hc).1
      simp [eye, hx, this, entryProd_zero]
  | 0, _, _, _, _ :: _, _, _, _, h, _ => by simp at h
  | 0, _, _, _, [], _ :: _, _, _, _, h => by simp at h
  | _ + 1, _, _, _, [], _, _, _, h, _ => by simp at h
  | _ + 1, _, _, _, _ :: _, [], _, _, _, h => by simp at h

theorem entryProd_eye_suffix [MulZeroOneClass α] (q : Nat) (a : α) (n : Nat) (post post' : List Nat)
    (h : post.length = q) (h' : post'.length = q) :
    entryProd a (List.replicate q (eye n)) post post' = if post = post' then a else 0 := by
  have := entryProd_eye_prefix q a n [] post post' [] [] h h'
  simpa [entryProd] using this

/-- uniform form of the entry formula: every factor, including the first, appears in the product -/
theorem kronAll_entry_uniform [MulOneClass α] (ops : List (Mat α)) (hne : ops ≠ []) (bs cs : List Nat)
    (hr : Valid (ops.map (·.rows)) bs) (hc : Valid (ops.map (·.cols)) cs) :
    ∃ M, kronAll ops = some M ∧
      M.e (kronIdx (ops.map (·.rows)) bs) (kronIdx (ops.map (·.cols)) cs) = entryProd 1 ops bs cs := by
  cases ops with
  | nil => exact absurd rfl hne
  | cons A As =>
    cases bs with
    | nil => exact absurd hr (by simp [Valid])
    | cons b bs =>
      cases cs with
      | nil => exact absurd hc (by simp [Valid])
      | cons c cs =>
        refine ⟨As.foldl kron A, rfl, ?_⟩
        have := foldl_kron_entry As A b c bs cs hr.2 hc.2
        simpa [kronIdx, kronIdxFrom, entryProd] using this

theorem replicate_set {β : Type} (p q : Nat) (x A : β) :
    (List.replicate (p + 1 + q) x).set p A = List.replicate p x ++ A :: List.replicate q x := by
  induction p with
  | zero => rw [show 0 + 1 + q = q + 1 by omega, List.replicate_succ]; simp
  | succ p ih =>
    rw [show p + 1 + 1 + q = (p + 1 + q) + 1 by omega, List.replicate_succ, List.set_cons_succ, ih]
    simp [List.replicate_succ]

end Yaqs.Index
