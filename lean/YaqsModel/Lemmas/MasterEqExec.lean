import YaqsModel.Model.MasterEqExec
import YaqsModel.Lemmas.MasterEq
import YaqsModel.Lemmas.Index
import Mathlib.Tactic.Linarith

/-!
helper lemmas for the executable one-step MCWF / observable functions of `Model.MasterEq` and `Model.MasterEqExec`
(the property theorems are in `Props/C06.lean`, section "extension 2")

* `toV` — the vector a list denotes (entries outside the list read as `0`), companion of `toM`
* `mulVec`, `vdot`, `vnormSq`, `mtrace ∘ mmul`, `pureRho` computed on lists = the Mathlib quantities under `toM`/`toV`
* `CRat.ofRat` is a ring embedding `ℚ → ℚ(i)`; `conj z * z = ofRat (normSq z)`
* `eulerNext` — the explicit Euler step `ψ − i·dt·H_eff ψ` on lists (only used to state the first-order theorem)
-/
namespace Yaqs.MasterEq

open Matrix

/-! ### `ofRat` -/

theorem ofRat_add (a b : Rat) : CRat.ofRat (a + b) = CRat.ofRat a + CRat.ofRat b := by
  apply CRat.ext <;> simp

theorem ofRat_mul (a b : Rat) : CRat.ofRat (a * b) = CRat.ofRat a * CRat.ofRat b := by
  apply CRat.ext <;> simp

theorem ofRat_zero : CRat.ofRat 0 = 0 := rfl
theorem ofRat_one : CRat.ofRat 1 = 1 := rfl

theorem ofRat_sub (a b : Rat) : CRat.ofRat (a - b) = CRat.ofRat a - CRat.ofRat b := by
  apply CRat.ext <;> simp

theorem ofRat_inj {a b : Rat} (h : CRat.ofRat a = CRat.ofRat b) : a = b := by
  have := congrArg CRat.re h
  simpa using this

theorem star_ofRat (q : Rat) : star (CRat.ofRat q) = CRat.ofRat q := by
  apply CRat.ext <;> simp

theorem conj_mul_self (z : CRat) : CRat.conj z * z = CRat.ofRat (CRat.normSq z) := by
  apply CRat.ext
  · simp [CRat.normSq]
  · simp; ring

theorem ofRat_list_sum (l : List Rat) : CRat.ofRat l.sum = (l.map CRat.ofRat).sum := by
  induction l with
  | nil => rfl
  | cons x xs ih => simp only [List.sum_cons, List.map_cons, ofRat_add, ih]

theorem re_list_sum (l : List CRat) : (l.sum).re = (l.map CRat.re).sum := by
  induction l with
  | nil => rfl
  | cons x xs ih => simp only [List.sum_cons, List.map_cons, CRat.add_re, ih]

/-! ### lists as vectors -/

/-- the vector a list denotes (entries outside the list read as `0`) -/
def toV (m : Nat) (v : CVec) : Fin m → CRat := fun i => vget v i

theorem vget_vtab (m : Nat) (f : Nat → CRat) (i : Nat) (hi : i < m) : vget (vtab m f) i = f i := by
  simp [vget, vtab, hi]

theorem length_vtab (m : Nat) (f : Nat → CRat) : (vtab m f).length = m := by simp [vtab]

theorem length_mulVec (m : Nat) (A : CMat) (v : CVec) : (mulVec m A v).length = m := length_vtab m _

theorem toV_vtab (m : Nat) (f : Nat → CRat) : toV m (vtab m f) = fun i : Fin m => f i := by
  funext i
  exact vget_vtab m f i i.isLt

theorem toV_mulVec (m : Nat) (A : CMat) (v : CVec) : toV m (mulVec m A v) = toM m A *ᵥ toV m v := by
  unfold mulVec
  rw [toV_vtab]
  funext i
  simp only [sumTo_eq_sum, Matrix.mulVec, dotProduct, toM, toV]

theorem vdot_eq (m : Nat) (a b : CVec) : vdot m a b = star (toV m a) ⬝ᵥ toV m b := by
  unfold vdot
  rw [sumTo_eq_sum]
  rfl

theorem sumTo_eq_list_sum (m : Nat) (f : Nat → CRat) : sumTo m f = ((List.range m).map f).sum := by
  unfold sumTo
  rw [foldl_add_eq_sum f (List.range m) 0, zero_add]

theorem range_map_vget (v : CVec) : (List.range v.length).map (vget v) = v := by
  apply List.ext_getElem
  · simp
  · intro i h1 h2
    simp [vget, h2]

/-- `<v|v>` computed by `vnormSq` on a list of length `m` is the Mathlib inner product of the vector it denotes -/
theorem vnormSq_eq (m : Nat) (v : CVec) (hv : v.length = m) :
    CRat.ofRat (vnormSq v) = star (toV m v) ⬝ᵥ toV m v := by
  rw [← vdot_eq, vdot, sumTo_eq_list_sum, ← hv]
  have h : (List.range v.length).map (fun i => CRat.conj (vget v i) * vget v i)
      = ((List.range v.length).map (vget v)).map (fun z => CRat.conj z * z) := by
    rw [List.map_map]; rfl
  rw [h, range_map_vget, vnormSq, ofRat_list_sum, List.map_map]
  congr 1
  apply List.map_congr_left
  intro z _
  exact (conj_mul_self z).symm

theorem vnormSq_mulVec (m : Nat) (A : CMat) (v : CVec) :
    CRat.ofRat (vnormSq (mulVec m A v)) = star (toM m A *ᵥ toV m v) ⬝ᵥ (toM m A *ᵥ toV m v) := by
  rw [vnormSq_eq m _ (length_mulVec m A v), toV_mulVec]


/-! ### the jump weights are the summands of the norm-decay rate of `heff_antihermitian_part` -/

theorem jumpWeights_eq (m : Nat) (Ls : List (Proc CMat)) (ψ : CVec) :
    CRat.ofRat (jumpWeights m Ls ψ).sum
      = ((Ls.map (Proc.map (toM m))).map fun p =>
          CRat.ofRat p.gamma * (star (p.op *ᵥ toV m ψ) ⬝ᵥ (p.op *ᵥ toV m ψ))).sum := by
  unfold jumpWeights
  rw [ofRat_list_sum, List.map_map, List.map_map]
  congr 1
  apply List.map_congr_left
  intro p _
  simp only [Function.comp, Proc.map, ofRat_mul, vnormSq_mulVec]

/-! ### observables -/

theorem obs_trace_eq (m : Nat) (O ρ : CMat) : mtrace m (mmul m O ρ) = trace (toM m O * toM m ρ) := by
  rw [← toM_mmul, trace_toM]

theorem obs_pure_eq (m : Nat) (O : CMat) (v : CVec) :
    vdot m v (mulVec m O v) = star (toV m v) ⬝ᵥ (toM m O *ᵥ toV m v) := by
  rw [vdot_eq, toV_mulVec]

theorem toM_pureRho (m : Nat) (v : CVec) (c : Rat) :
    toM m (pureRho m v c) = CRat.ofRat (1 / c) • vecMulVec (toV m v) (star (toV m v)) := by
  unfold pureRho
  rw [toM_tab]
  funext i j
  simp [vecMulVec_apply, toV]

/-- a number equal to its conjugate has no imaginary part -/
theorem im_eq_zero_of_star_eq (z : CRat) (h : star z = z) : z.im = 0 := by
  have := congrArg CRat.im h
  simp at this
  linarith

theorem trace_mul_real {n : Type} [Fintype n] (O ρ : Matrix n n CRat) (hO : Oᴴ = O) (hρ : ρᴴ = ρ) :
    (trace (O * ρ)).im = 0 := by
  apply im_eq_zero_of_star_eq
  rw [← trace_conjTranspose, conjTranspose_mul, hO, hρ, trace_mul_comm]

theorem expect_real {n : Type} [Fintype n] (O : Matrix n n CRat) (hO : Oᴴ = O) (ψ : n → CRat) :
    (star ψ ⬝ᵥ (O *ᵥ ψ)).im = 0 := by
  apply im_eq_zero_of_star_eq
  calc star (star ψ ⬝ᵥ (O *ᵥ ψ)) = star (O *ᵥ ψ) ⬝ᵥ ψ := by rw [star_dotProduct, star_star]
    _ = (star ψ ᵥ* Oᴴ) ⬝ᵥ ψ := by rw [star_mulVec]
    _ = star ψ ⬝ᵥ (Oᴴ *ᵥ ψ) := by rw [dotProduct_mulVec]
    _ = star ψ ⬝ᵥ (O *ᵥ ψ) := by rw [hO]


/-- `Tr(O·|v><v|/c) = <v|O|v>/c` on lists: the Lindblad read-out on a pure state is the MCWF read-out -/
theorem obsValue_pureRho (m : Nat) (O : CMat) (v : CVec) (c : Rat) :
    obsValue m (pureRho m v c) (.op O) = obsValuePure m v c (.op O) := by
  show (mtrace m (mmul m O (pureRho m v c))).re = (vdot m v (mulVec m O v)).re / c
  rw [obs_trace_eq, toM_pureRho, obs_pure_eq, Matrix.mul_smul, trace_smul, mul_vecMulVec, trace_vecMulVec,
    dotProduct_comm, smul_eq_mul]
  simp only [CRat.mul_re, CRat.ofRat_re, CRat.ofRat_im, zero_mul, sub_zero]
  ring

/-! ### the pair `(v, c)` stands for `v/√c`: a positive real rescaling of `v` (with `c` rescaled accordingly) is the same state -/

theorem vget_map_mul (a : CRat) (v : CVec) (i : Nat) : vget (v.map (a * ·)) i = a * vget v i := by
  unfold vget
  by_cases h : i < v.length
  · simp [h]
  · simp [h]

theorem conj_ofRat_mul (r : Rat) (z : CRat) : CRat.conj (CRat.ofRat r * z) = CRat.ofRat r * CRat.conj z := by
  apply CRat.ext <;> simp

theorem inv_scale (r c : Rat) (hr : r ≠ 0) : 1 / (r * r * c) * (r * r) = 1 / c := by
  have h : r * r ≠ 0 := mul_ne_zero hr hr
  rw [one_div, one_div, mul_inv, mul_comm ((r * r)⁻¹), mul_assoc, inv_mul_cancel₀ h, mul_one]

theorem pureRho_scale (m : Nat) (v : CVec) (c r : Rat) (hr : r ≠ 0) :
    pureRho m (v.map (CRat.ofRat r * ·)) (r * r * c) = pureRho m v c := by
  unfold pureRho tab
  apply List.map_congr_left
  intro i _
  apply List.map_congr_left
  intro j _
  show CRat.ofRat (1 / (r * r * c)) * (vget (v.map (CRat.ofRat r * ·)) i * CRat.conj (vget (v.map (CRat.ofRat r * ·)) j))
    = CRat.ofRat (1 / c) * (vget v i * CRat.conj (vget v j))
  rw [vget_map_mul, vget_map_mul, conj_ofRat_mul, ← inv_scale r c hr, ofRat_mul (1 / (r * r * c)), ofRat_mul r r]
  ring

theorem vnormSq_scale (v : CVec) (r : Rat) : vnormSq (v.map (CRat.ofRat r * ·)) = r * r * vnormSq v := by
  unfold vnormSq
  induction v with
  | nil => simp
  | cons z zs ih =>
    simp only [List.map_cons, List.sum_cons, ih]
    have : CRat.normSq (CRat.ofRat r * z) = r * r * CRat.normSq z := by
      simp [CRat.normSq]; ring
    rw [this]; ring

theorem mulVec_msmul (m : Nat) (c : CRat) (A : CMat) (v : CVec) :
    mulVec m (msmul m c A) v = (mulVec m A v).map (c * ·) := by
  unfold mulVec vtab
  rw [List.map_map]
  apply List.map_congr_left
  intro i hi
  have hi' : i < m := List.mem_range.mp hi
  show sumTo m (fun k => get (msmul m c A) i k * vget v k) = c * sumTo m (fun k => get A i k * vget v k)
  rw [sumTo_eq_list_sum, sumTo_eq_list_sum, ← List.sum_map_mul_left]
  congr 1
  apply List.map_congr_left
  intro k hk
  have hk' : k < m := List.mem_range.mp hk
  unfold msmul
  rw [get_tab m _ i k hi' hk', mul_assoc]

/-! ### `ofIndexMat`: index functions ↔ lists of rows -/

theorem length_tab (n : Nat) (f : Nat → Nat → CRat) : (tab n f).length = n := by simp [tab]

theorem tab_get (n : Nat) (B : CMat) (hB : B.length = n) (hr : ∀ row ∈ B, row.length = n) : tab n (get B) = B := by
  apply List.ext_getElem
  · rw [length_tab, hB]
  · intro i h1 h2
    have hrow : (B[i]).length = n := hr _ (List.getElem_mem h2)
    apply List.ext_getElem
    · simp [tab, hrow]
    · intro j h3 h4
      simp [tab, get, h2, h4]

/-! ### the explicit Euler step (only used to state the first-order theorem on lists) -/

/-- `ψ − i·dt·E ψ` on lists -/
def eulerNext (m : Nat) (E : CMat) (dt : Rat) (ψ : CVec) : CVec :=
  vtab m fun i => vget ψ i + CRat.ofRat dt * ((⟨0, -1⟩ : CRat) * vget (mulVec m E ψ) i)

theorem toV_eulerNext (m : Nat) (E : CMat) (dt : Rat) (ψ : CVec) :
    toV m (eulerNext m E dt ψ) = toV m ψ + CRat.ofRat dt • (((-CRat.I) • toM m E) *ᵥ toV m ψ) := by
  unfold eulerNext
  rw [toV_vtab]
  funext i
  have h1 : vget (mulVec m E ψ) i = (toM m E *ᵥ toV m ψ) i := congrFun (toV_mulVec m E ψ) i
  have h2 : (⟨0, -1⟩ : CRat) = -CRat.I := by decide +kernel
  simp only [h1, h2, Pi.add_apply, Pi.smul_apply, Matrix.smul_mulVec, smul_eq_mul, toV]

end Yaqs.MasterEq
