import YaqsModel.Lemmas.Mps
import YaqsModel.Lemmas.Sweep
import YaqsModel.Model.Bug
import Mathlib.Tactic.Linarith

/-!
# Helper lemmas for the BUG integrator (`core/methods/bug.py`), used by `Props/C05.lean` (extension xb05)

Two layers.
* Schedule (`Yaqs.Sweep`): the step list `bugFull` of `Model/Bug.lean` erases to the tied primitive list `bug`, every
  statement of `local_update` occurs once per site, the bond dimensions before `truncate`.
* Algebra (`Yaqs.Mps.Alg`, the matrix-chain setting of C10: a site tensor is `σ → Matrix ι ι K`, the represented vector is
  `cfg ↦ chain ts cfg`): the centre tensors of `prepare_canonical_site_tensors`, the stacked QR of `find_new_q`, the basis-change
  matrices of `build_basis_change_tensor`, and the statement that the sweep re-expresses the OLD state in the NEW basis without
  changing any amplitude.  The numerical factorisations are hypotheses with exactly the documented spec (`C s = Q s * R`;
  stack `= T * new_q`; `Σ_s new_q s * (new_q s)ᴴ = 1`), never computed.
-/

set_option linter.unusedSectionVars false
set_option linter.unusedVariables false

namespace Yaqs.Sweep

theorem bprims_append (xs ys : List BStep) : bprims (xs ++ ys) = bprims xs ++ bprims ys := by
  induction xs with
  | nil => rfl
  | cons x xs ih => cases x <;> simp [bprims, ih]

theorem bprims_prepSteps : ∀ n i, bprims (prepSteps n i) = [] := by
  intro n
  induction n with
  | zero => intro i; rfl
  | succ n ih => intro i; simp [prepSteps, bprims, ih]

theorem bprims_bugDownFull (L : Nat) : ∀ s, bprims (bugDownFull L s) = bugDown s := by
  intro s
  induction s with
  | zero => rfl
  | succ s ih => simp [bugDownFull, localUpdate, bugDown, bprims, ih]

theorem prepSteps_length : ∀ n i, (prepSteps n i).length = 3 * n := by
  intro n
  induction n with
  | zero => intro i; rfl
  | succ n ih => intro i; simp only [prepSteps, List.length_cons, ih]; omega

theorem bugDownFull_length (L : Nat) : ∀ s, (bugDownFull L s).length = 7 * s := by
  intro s
  induction s with
  | zero => rfl
  | succ s ih => simp only [bugDownFull, localUpdate, List.length_append, List.length_cons, List.length_nil, ih]; omega

/-- the statements of `local_update` that are not primitives, for site `k` -/
def basisSteps (L k : Nat) : List BStep :=
  [.stack k (decide (k = L - 1)), .newQ k, .basis k, .setQ k, .pass k, .rightEnv k]

theorem count_prepSteps (st : BStep) (hst : ∀ i, st ≠ .prepQR i ∧ st ≠ .prepCentre i ∧ st ≠ .prepEnv i) :
    ∀ n i, (prepSteps n i).count st = 0 := by
  intro n
  induction n with
  | zero => intro i; rfl
  | succ n ih =>
    intro i
    obtain ⟨h1, h2, h3⟩ := hst i
    simp only [prepSteps, List.count_cons, ih (i + 1)]
    have e1 : (BStep.prepQR i == st) = false := by simpa using fun h => h1 h.symm
    have e2 : (BStep.prepCentre i == st) = false := by simpa using fun h => h2 h.symm
    have e3 : (BStep.prepEnv i == st) = false := by simpa using fun h => h3 h.symm
    simp [e1, e2, e3]

theorem count_bugDownFull (L k : Nat) (st : BStep) (hst : st ∈ basisSteps L k) :
    ∀ s, (bugDownFull L s).count st = if 1 ≤ k ∧ k ≤ s then 1 else 0 := by
  intro s
  induction s with
  | zero =>
    simp only [bugDownFull, List.count_nil]
    have : ¬ (1 ≤ k ∧ k ≤ 0) := by omega
    rw [if_neg this]
  | succ s ih =>
    simp only [bugDownFull, List.count_append, ih]
    simp only [basisSteps, List.mem_cons, List.not_mem_nil, or_false] at hst
    by_cases hk : k = s + 1
    · subst hk
      have h0 : ¬ (1 ≤ s + 1 ∧ s + 1 ≤ s) := by omega
      have h1 : (1 ≤ s + 1 ∧ s + 1 ≤ s + 1) := by omega
      simp only [h0, h1, if_true, if_false, Nat.add_zero]
      rcases hst with rfl | rfl | rfl | rfl | rfl | rfl <;> simp [localUpdate, List.count_cons]
    · have hz : (localUpdate L (s + 1)).count st = 0 := by
        have hk' : ¬ (s + 1 = k) := fun h => hk h.symm
        rcases hst with rfl | rfl | rfl | rfl | rfl | rfl <;> simp [localUpdate, List.count_cons, hk']
      rw [hz]
      by_cases h2 : 1 ≤ k ∧ k ≤ s
      · have : 1 ≤ k ∧ k ≤ s + 1 := by omega
        simp [h2, this]
      · have : ¬ (1 ≤ k ∧ k ≤ s + 1) := by omega
        simp [h2, this]

/-! ### bond dimensions -/

theorem centreDims_le (d : Nat) : ∀ (b : List Nat) (prev : Nat), ∀ p ∈ b.zip (centreDims d prev b), p.2 ≤ p.1 := by
  intro b
  induction b with
  | nil => intro prev p hp; simp [centreDims] at hp
  | cons x xs ih =>
    intro prev p hp
    simp only [centreDims, List.zip_cons_cons, List.mem_cons] at hp
    rcases hp with rfl | hp
    · exact Nat.min_le_right _ _
    · exact ih _ p hp

theorem centreDims_length (d : Nat) : ∀ (b : List Nat) (prev : Nat), (centreDims d prev b).length = b.length := by
  intro b
  induction b with
  | nil => intro prev; rfl
  | cons x xs ih => intro prev; simp [centreDims, ih]

theorem newBondsAux_spec (d : Nat) : ∀ l : List (Nat × Nat), (∀ p ∈ l, p.2 ≤ p.1) →
    (newBondsAux d l).length = l.length ∧
    ∀ k, (newBondsAux d l).getD k 0 ≤ 2 * (l.map Prod.fst).getD k 0 ∧
      (newBondsAux d l).getD k 0 ≤ d * (newBondsAux d l).getD (k + 1) 1 := by
  intro l
  induction l with
  | nil => intro _; simp [newBondsAux]
  | cons x rest ih =>
    intro h
    obtain ⟨b, c⟩ := x
    have hbc : c ≤ b := h (b, c) (by simp)
    cases rest with
    | nil =>
      refine ⟨by simp [newBondsAux], ?_⟩
      intro k
      cases k with
      | zero =>
        simp only [newBondsAux, List.getD_cons_zero, List.map_cons, List.map_nil]
        refine ⟨?_, ?_⟩
        · have := Nat.min_le_right (d * 1) (b + c); omega
        · have := Nat.min_le_left (d * 1) (b + c); simpa using this
      | succ k => simp [newBondsAux]
    | cons y rest' =>
      obtain ⟨ihl, ihk⟩ := ih (fun p hp => h p (by simp [hp]))
      have hdef : newBondsAux d ((b, c) :: y :: rest') =
          min (d * (newBondsAux d (y :: rest')).headD 1) (c + c) :: newBondsAux d (y :: rest') := by
        simp [newBondsAux]
      rw [hdef]
      refine ⟨by simp [ihl], ?_⟩
      intro k
      cases k with
      | zero =>
        simp only [List.getD_cons_zero, List.map_cons, List.getD_cons_succ]
        refine ⟨?_, ?_⟩
        · have := Nat.min_le_right (d * (newBondsAux d (y :: rest')).headD 1) (c + c); omega
        · have e : (newBondsAux d (y :: rest')).headD 1 = (newBondsAux d (y :: rest')).getD 0 1 := by
            cases newBondsAux d (y :: rest') <;> rfl
          rw [← e]
          exact Nat.min_le_left _ _
      | succ k =>
        simp only [List.getD_cons_succ, List.map_cons]
        exact ihk k

end Yaqs.Sweep

namespace Yaqs.Mps.Alg

open Matrix

variable {K : Type*} [CommRing K] {ι σ : Type*} [Fintype ι] [DecidableEq ι]

/-! ### `prepare_canonical_site_tensors` -/

/-- the `left_q` factors of `prepare_canonical_site_tensors` for a chain `C :: rest` whose first tensor is the current centre -/
def prepQs (qr : Site σ ι K → Site σ ι K × Matrix ι ι K) : Site σ ι K → List (Site σ ι K) → List (Site σ ι K)
  | _, [] => []
  | C, A :: rest => (qr C).1 :: prepQs qr (fun s => (qr C).2 * A s) rest

/-- `canon_tensors`: the first is the tensor itself, every next one is `left_r · A` with `left_r` from the QR of the previous
    CENTRE tensor (`canon_tensors[i - 1]` is read after it was overwritten) -/
def prepCanon (qr : Site σ ι K → Site σ ι K × Matrix ι ι K) : Site σ ι K → List (Site σ ι K) → List (Site σ ι K)
  | C, [] => [C]
  | C, A :: rest => C :: prepCanon qr (fun s => (qr C).2 * A s) rest

theorem prepCanon_length (qr : Site σ ι K → Site σ ι K × Matrix ι ι K) :
    ∀ (rest : List (Site σ ι K)) (C : Site σ ι K), (prepCanon qr C rest).length = rest.length + 1 := by
  intro rest
  induction rest with
  | nil => intro C; rfl
  | cons A rest ih => intro C; simp [prepCanon, ih]

theorem prepQs_length (qr : Site σ ι K → Site σ ι K × Matrix ι ι K) :
    ∀ (rest : List (Site σ ι K)) (C : Site σ ι K), (prepQs qr C rest).length = rest.length := by
  intro rest
  induction rest with
  | nil => intro C; rfl
  | cons A rest ih => intro C; simp [prepQs, ih]

theorem prep_canonical (qr : Site σ ι K → Site σ ι K × Matrix ι ι K)
    (hqr : ∀ (C : Site σ ι K) s, C s = (qr C).1 s * (qr C).2) :
    ∀ (rest : List (Site σ ι K)) (A0 : Site σ ι K) (i : Nat) (C : Site σ ι K) (cfg : List σ),
      (prepCanon qr A0 rest)[i]? = some C → cfg.length = rest.length + 1 →
      chain ((prepQs qr A0 rest).take i ++ C :: rest.drop i) cfg = chain (A0 :: rest) cfg := by
  intro rest
  induction rest with
  | nil =>
    intro A0 i C cfg hC _
    cases i with
    | zero =>
      simp only [prepCanon, List.getElem?_cons_zero, Option.some.injEq] at hC
      subst hC
      simp [prepQs]
    | succ i => simp [prepCanon] at hC
  | cons A rest ih =>
    intro A0 i C cfg hC hlen
    cases i with
    | zero =>
      simp only [prepCanon, List.getElem?_cons_zero, Option.some.injEq] at hC
      subst hC
      simp
    | succ i =>
      simp only [prepCanon, List.getElem?_cons_succ] at hC
      match cfg, hlen with
      | s :: t :: cfg, hlen =>
        have hl : (t :: cfg).length = rest.length + 1 := by simpa using hlen
        have := ih (fun u => (qr A0).2 * A u) i C (t :: cfg) hC hl
        simp only [prepQs, List.take_succ_cons, List.cons_append, List.drop_succ_cons, chain_cons]
        rw [this]
        simp only [chain_cons]
        rw [hqr A0 s]
        simp only [Matrix.mul_assoc]

section star
variable [StarRing K] [Fintype σ]

theorem prepQs_leftIso (qr : Site σ ι K → Site σ ι K × Matrix ι ι K) (hiso : ∀ C : Site σ ι K, LeftIso (qr C).1) :
    ∀ (rest : List (Site σ ι K)) (C : Site σ ι K), ∀ Q ∈ prepQs qr C rest, LeftIso Q := by
  intro rest
  induction rest with
  | nil => intro C Q hQ; simp [prepQs] at hQ
  | cons A rest ih =>
    intro C Q hQ
    simp only [prepQs, List.mem_cons] at hQ
    rcases hQ with rfl | hQ
    · exact hiso C
    · exact ih _ Q hQ

/-! ### `find_new_q` and `build_basis_change_tensor` (rectangular: every leg has its own index type) -/

/-- if the tensor `X` is a row block of the stack that `left_qr` factorised (`X s = T * Qn s`) and the new tensor is
    right-isometric on the rows `T` uses, then the matrix `Σ_s X s · (Qn s)ᴴ` is `T` and it reproduces `X` from `Qn` -/
theorem stack_projection {l n r : Type*} [Fintype l] [Fintype n] [Fintype r] [DecidableEq n]
    (X : σ → Matrix l r K) (Qn : σ → Matrix n r K) (T : Matrix l n K)
    (hX : ∀ s, X s = T * Qn s) (hQ : T * ∑ s, Qn s * (Qn s)ᴴ = T) :
    (∑ s, X s * (Qn s)ᴴ) = T ∧ ∀ t, (∑ s, X s * (Qn s)ᴴ) * Qn t = X t := by
  have h1 : (∑ s, X s * (Qn s)ᴴ) = T := by
    simp only [hX, Matrix.mul_assoc]
    rw [← Matrix.mul_sum, hQ]
  exact ⟨h1, fun t => by rw [h1, hX t]⟩

/-! ### the sweep: the old state in the new basis -/

/-- what `local_update` computes at one site, numerics as data: `A = state.tensors[k]` at entry (`old_q`), `nq = new_q`,
    `T` = the block of the `R` factor of `left_qr` that belongs to the old stack tensor (stack `= T · new_q`) -/
structure SiteUpd (σ ι K : Type*) where
  A : σ → Matrix ι ι K
  nq : σ → Matrix ι ι K
  T : Matrix ι ι K

/-- `right_m_block` handed to the site left of the listed ones: `np.eye` to the right of the last site, otherwise
    `build_basis_change_tensor(old_q, new_q, old_m)[l, n] = Σ_{s,r} (old_q[s] · old_m)[l, r] · conj(new_q[s][n, r])` -/
def Mof : List (SiteUpd σ ι K) → Matrix ι ι K
  | [] => 1
  | u :: rest => ∑ s, u.A s * Mof rest * (u.nq s)ᴴ

/-- the spec of the numerics of the sweep for the sites right of the current centre tensor `C`:
    at every site the stack tensor chosen by `choose_stack_tensor` — the state's own tensor at the last site, otherwise the
    centre tensor `R·A` already multiplied by the basis-change matrix of its right neighbour — is `T · new_q`
    (`left_qr` of the stack, upper block), and `new_q` is right-isometric where `T` lives (`T · Σ_s new_q new_qᴴ = T`;
    for unpadded bonds `Σ_s new_q new_qᴴ = 1`) -/
def SweepSpec (qr : Site σ ι K → Site σ ι K × Matrix ι ι K) : Site σ ι K → List (SiteUpd σ ι K) → Prop
  | _, [] => True
  | C, u :: rest =>
    (u.T * ∑ s, u.nq s * (u.nq s)ᴴ = u.T) ∧
    (∀ s, (if rest.isEmpty then u.A s else (qr C).2 * u.A s * Mof rest) = u.T * u.nq s) ∧
    SweepSpec qr (fun s => (qr C).2 * u.A s) rest

theorem sweep_key (R : Matrix ι ι K) (u : SiteUpd σ ι K) (rest : List (SiteUpd σ ι K))
    (hT : u.T * ∑ s, u.nq s * (u.nq s)ᴴ = u.T)
    (hstack : ∀ s, (if rest.isEmpty then u.A s else R * u.A s * Mof rest) = u.T * u.nq s) (t : σ) :
    R * Mof (u :: rest) * u.nq t = R * u.A t * Mof rest := by
  cases rest with
  | nil =>
    simp only [List.isEmpty_nil, if_true] at hstack
    have h := stack_projection (fun s => u.A s) u.nq u.T hstack hT
    simp only [Mof, Matrix.mul_one]
    rw [Matrix.mul_assoc, h.2 t]
  | cons v rest' =>
    simp only [List.isEmpty_cons, Bool.false_eq_true, if_false] at hstack
    have h := stack_projection (fun s => R * u.A s * Mof (v :: rest')) u.nq u.T hstack hT
    have e : R * Mof (u :: v :: rest') = ∑ s, (R * u.A s * Mof (v :: rest')) * (u.nq s)ᴴ := by
      conv_lhs => rw [Mof]
      rw [Matrix.mul_sum]
      simp only [Matrix.mul_assoc]
    rw [e, h.2 t]

theorem bugSweep_chain (qr : Site σ ι K → Site σ ι K × Matrix ι ι K)
    (hqr : ∀ (C : Site σ ι K) s, C s = (qr C).1 s * (qr C).2) :
    ∀ (upds : List (SiteUpd σ ι K)) (C : Site σ ι K) (cfg : List σ), SweepSpec qr C upds →
      cfg.length = upds.length + 1 →
      chain ((fun s => C s * Mof upds) :: upds.map (·.nq)) cfg = chain (C :: upds.map (·.A)) cfg := by
  intro upds
  induction upds with
  | nil =>
    intro C cfg _ _
    match cfg with
    | [] => simp
    | s :: cfg => simp [chain_cons, Mof]
  | cons u rest ih =>
    intro C cfg hspec hlen
    obtain ⟨hT, hstack, hrest⟩ := hspec
    match cfg, hlen with
    | s :: t :: cfg, hlen =>
      have hl : (t :: cfg).length = rest.length + 1 := by simpa using hlen
      have hi := ih (fun v => (qr C).2 * u.A v) (t :: cfg) hrest hl
      simp only [chain_cons] at hi
      have key := sweep_key (qr C).2 u rest hT hstack t
      simp only [List.map_cons, chain_cons]
      rw [hqr C s]
      calc (qr C).1 s * (qr C).2 * Mof (u :: rest) * (u.nq t * chain (rest.map (·.nq)) cfg)
          = (qr C).1 s * (((qr C).2 * Mof (u :: rest) * u.nq t) * chain (rest.map (·.nq)) cfg) := by
            simp only [Matrix.mul_assoc]
        _ = (qr C).1 s * (((qr C).2 * u.A t * Mof rest) * chain (rest.map (·.nq)) cfg) := by rw [key]
        _ = (qr C).1 s * ((qr C).2 * u.A t * chain (rest.map (·.A)) cfg) := by rw [hi]
        _ = (qr C).1 s * (qr C).2 * (u.A t * chain (rest.map (·.A)) cfg) := by simp only [Matrix.mul_assoc]

/-! ### squared norm of a chain -/

/-- `Σ_cfg chain(cfg) · chain(cfg)ᴴ` computed site by site from the right (`update_right_environment` for the identity MPO) -/
def gramR : List (Site σ ι K) → Matrix ι ι K
  | [] => 1
  | A :: ts => ∑ s, A s * gramR ts * (A s)ᴴ

/-- `Σ_cfg Σ_{a,b} |chain(cfg)[a,b]|²`; for boundary bonds of dimension 1 (zero-padded) this is `Σ_cfg |amp cfg|² = ⟨ψ|ψ⟩` -/
def normSq (ts : List (Site σ ι K)) : K :=
  sumCfg ts.length (fun cfg => Matrix.trace (chain ts cfg * (chain ts cfg)ᴴ))

theorem sumCfg_map {M N : Type*} [AddCommMonoid M] [AddCommMonoid N] (f : M →+ N) :
    ∀ (n : Nat) (F : List σ → M), sumCfg n (fun cfg => f (F cfg)) = f (sumCfg n F) := by
  intro n
  induction n with
  | zero => intro F; rfl
  | succ n ih =>
    intro F
    simp only [sumCfg, map_sum]
    exact Finset.sum_congr rfl fun s _ => ih _

theorem sumCfg_congr {M : Type*} [AddCommMonoid M] : ∀ (n : Nat) (F G : List σ → M),
    (∀ cfg, cfg.length = n → F cfg = G cfg) → sumCfg n F = sumCfg n G := by
  intro n
  induction n with
  | zero => intro F G h; exact h [] rfl
  | succ n ih =>
    intro F G h
    simp only [sumCfg]
    exact Finset.sum_congr rfl fun s _ => ih _ _ fun cfg hc => h (s :: cfg) (by simp [hc])

theorem gram_sum : ∀ ts : List (Site σ ι K),
    sumCfg ts.length (fun cfg => chain ts cfg * (chain ts cfg)ᴴ) = gramR ts := by
  intro ts
  induction ts with
  | nil => simp [sumCfg, gramR]
  | cons A ts ih =>
    simp only [List.length_cons, sumCfg, gramR, chain_cons]
    refine Finset.sum_congr rfl fun s _ => ?_
    have e : ∀ cfg, A s * chain ts cfg * (A s * chain ts cfg)ᴴ =
        ((AddMonoidHom.mulLeft (A s)).comp (AddMonoidHom.mulRight (A s)ᴴ)) (chain ts cfg * (chain ts cfg)ᴴ) := by
      intro cfg
      simp [Matrix.conjTranspose_mul, Matrix.mul_assoc]
    simp only [e]
    rw [sumCfg_map, ih]
    simp [Matrix.mul_assoc]

theorem normSq_eq_trace_gram (ts : List (Site σ ι K)) : normSq ts = Matrix.trace (gramR ts) := by
  unfold normSq
  rw [← gram_sum ts]
  exact sumCfg_map (Matrix.traceAddMonoidHom ι K) _ _

theorem gramR_rightIso : ∀ ts : List (Site σ ι K), (∀ A ∈ ts, RightIso A) → gramR ts = 1 := by
  intro ts
  induction ts with
  | nil => intro _; rfl
  | cons A ts ih =>
    intro h
    have hA : RightIso A := h A (by simp)
    simp only [gramR, ih (fun B hB => h B (by simp [hB])), Matrix.mul_one]
    exact hA

theorem normSq_congr (ts ts' : List (Site σ ι K)) (hl : ts.length = ts'.length)
    (h : ∀ cfg, cfg.length = ts.length → chain ts cfg = chain ts' cfg) : normSq ts = normSq ts' := by
  unfold normSq
  rw [← hl]
  exact sumCfg_congr _ _ _ fun cfg hc => by rw [h cfg hc]

end star

end Yaqs.Mps.Alg
