import YaqsModel.Lemmas.CheckerEndToEnd

/-!
# C04, long-range layers at chain level (extension xl04)

helper lemmas for Part E of `Props/C04.lean`:

* `valsE`, `valsE_mul` — **the MPO of a product is the bond-fused site-wise product**: path values of `zipWith mulSite As Bs`
  (with any product-form terminal weight) are the sum over the intermediate configuration of the path values of the factors
* `vals_pre_sum` — such an identity on a tail of a chain lifts through any prefix
* `segLens` — the lens onto a segment of the register; `embedL segLens (embed2 …)` is `embed2` at the shifted sites
* `lrMul_top`, `lrMul_bottom` — `to_matrix` after all gate-MPO tensors are stacked on the chain
* `lrLayer_represents`, `runStepsLR_represents`, `iterateMpoLR_runEvs` — induction over the blocks of a run
-/
namespace Yaqs.CheckerLR
open Matrix Finset
open Yaqs.MpoConv (Site vals vals_cons lastDr chainFrom wellFormed sumTo_eq_sum identityMpo identitySite lastDr_append
  chainFrom_append sum_range_mul rotateSite rotateMpo)
open Yaqs.MpoUpdate
open Yaqs.Verdict
open Yaqs.Embed
open Yaqs.CheckerChain
open Yaqs.CheckerE2E

variable {K : Type}

/-! ## path values with a terminal weight; the product lemma -/

section product
variable [CommSemiring K]

/-- path values of a chain with the weight `E` on the right bond index of the last tensor (`vals` is `E = 1`; the path values
    of `ts ++ post` are those of `ts` with `E =` the path values of `post`) -/
def valsE : List (Site K) → List Nat → List Nat → (Nat → K) → Nat → K
  | [], _, _, E => E
  | t :: ts, σ, σ', E => fun l => ∑ r ∈ range t.dr, t.e (σ.headD 0) (σ'.headD 0) l r * valsE ts σ.tail σ'.tail E r

theorem valsE_cons (t : Site K) (ts : List (Site K)) (a b : Nat) (σ σ' : List Nat) (E : Nat → K) (l : Nat) :
    valsE (t :: ts) (a :: σ) (b :: σ') E l = ∑ r ∈ range t.dr, t.e a b l r * valsE ts σ σ' E r := rfl

theorem valsE_one : ∀ (ts : List (Site K)) (σ σ' : List Nat) (l : Nat), valsE ts σ σ' (fun _ => 1) l = vals ts σ σ' l
  | [], _, _, _ => rfl
  | t :: ts, σ, σ', l => by
    simp only [valsE, vals, sumTo_eq_sum]
    exact Finset.sum_congr rfl fun r _ => by rw [valsE_one ts]

theorem vals_append_valsE (post : List (Site K)) (sq sq' : List Nat) :
    ∀ (ts : List (Site K)) (s s' : List Nat), s.length = ts.length → s'.length = ts.length → ∀ l,
    vals (ts ++ post) (s ++ sq) (s' ++ sq') l = valsE ts s s' (vals post sq sq') l
  | [], [], [], _, _, _ => rfl
  | t :: ts, a :: s, b :: s', h, h', l => by
    simp only [List.cons_append, vals_cons, valsE_cons]
    exact Finset.sum_congr rfl fun r _ => by
      rw [vals_append_valsE post sq sq' ts s s' (by simpa using h) (by simpa using h') r]
  | [], _ :: _, _, h, _, _ => by simp at h
  | [], [], _ :: _, _, h, _ => by simp at h
  | _ :: _, [], _, h, _, _ => by simp at h
  | _ :: _, _ :: _, [], _, h, _ => by simp at h

/-- reordering of a four-fold sum used twice below -/
theorem sum_swap4 {α β γ δ : Type} (A : Finset α) (B : Finset β) (C : Finset γ) (D : Finset δ) (f : α → β → γ → δ → K) :
    ∑ a ∈ A, ∑ b ∈ B, ∑ c ∈ C, ∑ x ∈ D, f a b c x = ∑ c ∈ C, ∑ x ∈ D, ∑ a ∈ A, ∑ b ∈ B, f a b c x := by
  calc ∑ a ∈ A, ∑ b ∈ B, ∑ c ∈ C, ∑ x ∈ D, f a b c x
      = ∑ a ∈ A, ∑ c ∈ C, ∑ b ∈ B, ∑ x ∈ D, f a b c x := Finset.sum_congr rfl fun _ _ => Finset.sum_comm
    _ = ∑ c ∈ C, ∑ a ∈ A, ∑ b ∈ B, ∑ x ∈ D, f a b c x := Finset.sum_comm
    _ = ∑ c ∈ C, ∑ a ∈ A, ∑ x ∈ D, ∑ b ∈ B, f a b c x :=
        Finset.sum_congr rfl fun _ _ => Finset.sum_congr rfl fun _ _ => Finset.sum_comm
    _ = ∑ c ∈ C, ∑ x ∈ D, ∑ a ∈ A, ∑ b ∈ B, f a b c x := Finset.sum_congr rfl fun _ _ => Finset.sum_comm

/-- **site-wise product of two chains, bonds fused** (`mulSite`: first factor on top, its bond index most significant): the
    path value at the fused bond index `(la, lb)` is the sum over the intermediate configuration `τ` of the product of the path
    values of the two chains — for every length and all bond dimensions, with any terminal weight of product form.  Only the
    second chain's bonds need to match (the fused index is decoded with its bond dimensions). -/
theorem valsE_mul (d : Nat) : ∀ (k : Nat) (As Bs : List (Site K)), As.length = k → Bs.length = k → (∀ b ∈ Bs, b.d = d) →
    ∀ (Adl Bdl : Nat), chainFrom Bdl Bs = true → ∀ (s s' : List Nat), s.length = k → s'.length = k →
    ∀ (E EA EB : Nat → K), (∀ ra, ra < lastDr Adl As → ∀ rb, rb < lastDr Bdl Bs → E (ra * lastDr Bdl Bs + rb) = EA ra * EB rb) →
    ∀ la, la < Adl → ∀ lb, lb < Bdl →
    valsE (List.zipWith mulSite As Bs) s s' E (la * Bdl + lb)
      = ∑ τ : Fin k → Fin d, valsE As s (cfg τ) EA la * valsE Bs (cfg τ) s' EB lb := by
  intro k
  induction k with
  | zero =>
    intro As Bs hA hB _ Adl Bdl _ s s' _ _ E EA EB hE la hla lb hlb
    have eA : As = [] := List.length_eq_zero_iff.mp hA
    have eB : Bs = [] := List.length_eq_zero_iff.mp hB
    subst eA eB
    simp only [List.zipWith_nil_left, valsE, lastDr] at hE ⊢
    rw [hE la hla lb hlb]
    simp
  | succ k ih =>
    intro As Bs hA hB hd Adl Bdl hc s s' hs hs' E EA EB hE la hla lb hlb
    obtain ⟨a, As, rfl⟩ := List.exists_cons_of_length_eq_add_one hA
    obtain ⟨b, Bs, rfl⟩ := List.exists_cons_of_length_eq_add_one hB
    obtain ⟨x, s, rfl⟩ := List.exists_cons_of_length_eq_add_one hs
    obtain ⟨y, s', rfl⟩ := List.exists_cons_of_length_eq_add_one hs'
    simp only [chainFrom, Bool.and_eq_true, decide_eq_true_eq] at hc
    obtain ⟨hbl, hc'⟩ := hc
    subst hbl
    simp only [lastDr] at hE
    have hbd : b.d = d := hd b (by simp)
    have hd' : ∀ b' ∈ Bs, b'.d = d := fun b' hb' => hd b' (by simp [hb'])
    have hlA : As.length = k := by simpa using hA
    have hlB : Bs.length = k := by simpa using hB
    have hls : s.length = k := by simpa using hs
    have hls' : s'.length = k := by simpa using hs'
    -- left-hand side
    have hL : valsE (List.zipWith mulSite (a :: As) (b :: Bs)) (x :: s) (y :: s') E (la * b.dl + lb)
        = ∑ ra ∈ range a.dr, ∑ rb ∈ range b.dr, ∑ c : Fin d, ∑ τ : Fin k → Fin d,
            (a.e x c la ra * b.e c y lb rb) * (valsE As s (cfg τ) EA ra * valsE Bs (cfg τ) s' EB rb) := by
      simp only [List.zipWith_cons_cons, valsE_cons]
      rw [show (mulSite a b).dr = a.dr * b.dr from rfl, sum_range_mul]
      refine Finset.sum_congr rfl fun ra hra => Finset.sum_congr rfl fun rb hrb => ?_
      have hra' : ra < a.dr := Finset.mem_range.mp hra
      have hrb' : rb < b.dr := Finset.mem_range.mp hrb
      rw [mulSite_apply a b x y la lb ra rb hlb hrb', hbd,
        ih As Bs hlA hlB hd' a.dr b.dr hc' s s' hls hls' E EA EB hE ra hra' rb hrb',
        ← Fin.sum_univ_eq_sum_range (fun c => a.e x c la ra * b.e c y lb rb) d, Finset.sum_mul_sum]
    -- right-hand side
    have hR : ∑ τ : Fin (k + 1) → Fin d, valsE (a :: As) (x :: s) (cfg τ) EA la * valsE (b :: Bs) (cfg τ) (y :: s') EB lb
        = ∑ c : Fin d, ∑ τ : Fin k → Fin d, ∑ ra ∈ range a.dr, ∑ rb ∈ range b.dr,
            (a.e x c la ra * b.e c y lb rb) * (valsE As s (cfg τ) EA ra * valsE Bs (cfg τ) s' EB rb) := by
      rw [← Fintype.sum_equiv (Fin.consEquiv fun _ => Fin d)
        (fun p => valsE (a :: As) (x :: s) (cfg (Fin.cons p.1 p.2 : Fin (k + 1) → Fin d)) EA la
          * valsE (b :: Bs) (cfg (Fin.cons p.1 p.2 : Fin (k + 1) → Fin d)) (y :: s') EB lb) _ (fun p => rfl)]
      rw [Fintype.sum_prod_type]
      refine Finset.sum_congr rfl fun c _ => Finset.sum_congr rfl fun τ _ => ?_
      rw [cfg_cons, valsE_cons, valsE_cons, Finset.sum_mul_sum]
      refine Finset.sum_congr rfl fun ra _ => Finset.sum_congr rfl fun rb _ => ?_
      ring
    rw [hL, hR]
    exact sum_swap4 _ _ _ _ _

end product

/-! ## lifting an identity on a tail of the chain through a prefix -/

section prefixLift
variable [CommSemiring K]

/-- if the path values of a tail `X` are a linear combination of path values of tails `Y i` (at every bond index the prefix can
    reach), the same combination holds with any prefix in front -/
theorem vals_pre_sum {ι : Type} (S : Finset ι) (X : List (Site K)) (Y : ι → List (Site K)) (c : ι → K) (s s' : List Nat)
    (t t' : ι → List Nat) (m' : Nat)
    (h : ∀ r, r < m' → vals X s s' r = ∑ i ∈ S, c i * vals (Y i) (t i) (t' i) r) :
    ∀ (pre : List (Site K)) (sp sp' : List Nat), sp.length = pre.length → sp'.length = pre.length →
    ∀ m, lastDr m pre = m' → ∀ l, l < m →
    vals (pre ++ X) (sp ++ s) (sp' ++ s') l = ∑ i ∈ S, c i * vals (pre ++ Y i) (sp ++ t i) (sp' ++ t' i) l
  | [], [], [], _, _, m, hm, l, hl => by
    simp only [lastDr] at hm
    subst hm
    simpa using h l hl
  | p :: pre, a :: sp, b :: sp', h1, h2, m, hm, l, _ => by
    simp only [lastDr] at hm
    simp only [List.cons_append, vals_cons, Finset.mul_sum]
    rw [Finset.sum_comm]
    refine Finset.sum_congr rfl fun r hr => ?_
    rw [vals_pre_sum S X Y c s s' t t' m' h pre sp sp' (by simpa using h1) (by simpa using h2) p.dr hm r
      (Finset.mem_range.mp hr), Finset.mul_sum]
    refine Finset.sum_congr rfl fun i _ => ?_
    ring
  | [], _ :: _, _, h1, _, _, _, _, _ => by simp at h1
  | [], [], _ :: _, _, h2, _, _, _, _ => by simp at h2
  | _ :: _, [], _, h1, _, _, _, _, _ => by simp at h1
  | _ :: _, _ :: _, [], _, h2, _, _, _, _ => by simp at h2

end prefixLift

/-! ## the lens onto a segment of the register -/

section segment

/-- the lens onto the sites `loc, …, loc + len - 1` of an `n`-site register -/
def segLens {d : Nat} (n loc len : Nat) (h : loc + len ≤ n) : Lens (Fin n → Fin d) (Fin len → Fin d) where
  get σ := fun k => σ ⟨loc + k, by omega⟩
  put σ x := fun j => if hj : loc ≤ (j : Nat) ∧ (j : Nat) < loc + len then x ⟨j - loc, by omega⟩ else σ j
  get_put σ x := by
    funext k
    have : loc ≤ loc + (k : Nat) ∧ loc + (k : Nat) < loc + len := ⟨by omega, by omega⟩
    simp only [this, and_self, dite_true]
    congr 1
    exact Fin.ext (by simp)
  put_get σ := by
    funext j
    by_cases hj : loc ≤ (j : Nat) ∧ (j : Nat) < loc + len
    · simp only [hj, and_self, dite_true]
      congr 1
      exact Fin.ext (by simp; omega)
    · simp only [hj, dite_false]
  put_put σ x y := by
    funext j
    by_cases hj : loc ≤ (j : Nat) ∧ (j : Nat) < loc + len
    · simp only [hj, and_self, dite_true]
    · simp only [hj, dite_false]

variable {d : Nat}

theorem cfg_split (n loc len : Nat) (h : loc + len ≤ n) (σ : Fin n → Fin d) :
    cfg σ = (cfg σ).take loc ++ (cfg ((segLens n loc len h).get σ) ++ (cfg σ).drop (loc + len)) := by
  apply List.ext_getElem
  · simp; omega
  · intro k h1 h2
    simp only [List.getElem_append, List.length_take, cfg_length, List.getElem_take, List.getElem_drop]
    by_cases hk : k < loc
    · simp [hk, Nat.min_eq_left (by omega : loc ≤ n)]
    · by_cases hk2 : k < loc + len
      · have e : min loc n = loc := Nat.min_eq_left (by omega)
        simp only [e, hk, dite_false, show k - loc < len by omega, dite_true, cfg_getElem]
        simp only [segLens]
        congr 2
        exact Fin.ext (by simp; omega)
      · have e : min loc n = loc := Nat.min_eq_left (by omega)
        simp only [e, hk, dite_false, show ¬ (k - loc < len) by omega, cfg_getElem]
        congr 2
        exact Fin.ext (by simp; omega)

theorem cfg_put_seg (n loc len : Nat) (h : loc + len ≤ n) (σ : Fin n → Fin d) (x : Fin len → Fin d) :
    cfg ((segLens n loc len h).put σ x) = (cfg σ).take loc ++ (cfg x ++ (cfg σ).drop (loc + len)) := by
  apply List.ext_getElem
  · simp; omega
  · intro k h1 h2
    have e : min loc n = loc := Nat.min_eq_left (by omega)
    simp only [List.getElem_append, List.length_take, cfg_length, List.getElem_take, List.getElem_drop, e, cfg_getElem]
    simp only [segLens]
    by_cases hk : k < loc
    · simp [hk, show ¬ (loc ≤ k ∧ k < loc + len) by omega]
    · by_cases hk2 : k < loc + len
      · simp [hk, show loc ≤ k ∧ k < loc + len by omega, show k - loc < len by omega]
      · simp only [hk, dite_false, show ¬ (k - loc < len) by omega, show ¬ (loc ≤ k ∧ k < loc + len) by omega]
        congr 2
        exact Fin.ext (by simp; omega)

end segment

/-! ## an operator on two sites of a segment, embedded through the segment, is the operator on the shifted sites -/

section segEmbed
variable [CommSemiring K] {d : Nat}

theorem segLens_agree (n loc len : Nat) (h : loc + len ≤ n) (σ τ : Fin n → Fin d) :
    (segLens n loc len h).put σ ((segLens n loc len h).get τ) = τ ↔
      ∀ j : Fin n, ¬ (loc ≤ (j : Nat) ∧ (j : Nat) < loc + len) → σ j = τ j := by
  constructor
  · intro hp j hj
    have := congrFun hp j
    simp only [segLens, hj, dite_false] at this
    exact this
  · intro hq
    funext j
    by_cases hj : loc ≤ (j : Nat) ∧ (j : Nat) < loc + len
    · simp only [segLens, hj, and_self, dite_true]
      congr 1
      exact Fin.ext (by simp; omega)
    · simp only [segLens, hj, dite_false]
      exact hq j hj

/-- **lens composition for two sites inside a segment** -/
theorem embedL_seg_embed2 (n loc len p q : Nat) (h : loc + len ≤ n) (hp : p < len) (hq : q < len) (hpq : p ≠ q)
    (G : Matrix (Fin d × Fin d) (Fin d × Fin d) K) :
    embedL (segLens n loc len h) (embed2 d len p q G) = embed2 d n (loc + p) (loc + q) G := by
  ext σ τ
  rw [embed2_apply d n (loc + p) (loc + q) (by omega) (by omega) (by omega) G σ τ]
  unfold embedL
  by_cases hA : (segLens n loc len h).put σ ((segLens n loc len h).get τ) = τ
  · rw [if_pos hA, embed2_apply d len p q hp hq hpq G]
    have hA' := (segLens_agree n loc len h σ τ).mp hA
    by_cases hB : ∀ k : Fin len, (k : Nat) ≠ p → (k : Nat) ≠ q →
        (segLens n loc len h).get σ k = (segLens n loc len h).get τ k
    · rw [if_pos hB, if_pos]
      · rfl
      · intro j hj1 hj2
        by_cases hj : loc ≤ (j : Nat) ∧ (j : Nat) < loc + len
        · have := hB ⟨j - loc, by omega⟩ (by simp; omega) (by simp; omega)
          simp only [segLens] at this
          have e : (⟨loc + (j - loc), by omega⟩ : Fin n) = j := Fin.ext (by simp; omega)
          rw [e] at this
          exact this
        · exact hA' j hj
    · rw [if_neg hB, if_neg]
      intro hC
      apply hB
      intro k hk1 hk2
      exact hC ⟨loc + k, by omega⟩ (by simp; omega) (by simp; omega)
  · rw [if_neg hA, if_neg]
    intro hC
    apply hA
    rw [segLens_agree]
    intro j hj
    exact hC j (by omega) (by omega)

end segEmbed

/-! ## the chain with all gate-MPO tensors stacked on it -/

section stack
variable [CommSemiring K]

omit [CommSemiring K] in
theorem zipSites_append [Zero K] [One K] [Add K] [Mul K] (f : Site K → Site K → Site K) :
    ∀ (gs ws post : List (Site K)), gs.length = ws.length → zipSites f gs (ws ++ post) = List.zipWith f gs ws ++ post
  | [], [], post, _ => by cases post <;> rfl
  | g :: gs, w :: ws, post, h => by
    simp only [List.cons_append, zipSites, List.zipWith_cons_cons]
    rw [zipSites_append f gs ws post (by simpa using h)]
  | [], _ :: _, _, h => by simp at h
  | _ :: _, [], _, h => by simp at h

omit [CommSemiring K] in
theorem lrMul_split [Zero K] [One K] [Add K] [Mul K] (conj : Bool) (gs pre ws post : List (Site K)) (h : gs.length = ws.length) :
    lrMul conj gs pre.length (pre ++ (ws ++ post))
      = pre ++ (List.zipWith (if conj then lrHangBottom else mulSite) gs ws ++ post) := by
  unfold lrMul
  rw [List.take_left' rfl, List.drop_left' rfl, zipSites_append _ gs ws post h]

omit [CommSemiring K] in
theorem split3 (ts : List (Site K)) (loc len : Nat) (h : loc + len ≤ ts.length) :
    ∃ pre ws post, ts = pre ++ (ws ++ post) ∧ pre.length = loc ∧ ws.length = len :=
  ⟨ts.take loc, (ts.drop loc).take len, (ts.drop loc).drop len, by simp, by simp; omega, by simp; omega⟩

omit [CommSemiring K] in
/-- bonds of a site-wise combination whose bond dimensions are the products of the factors' -/
theorem chainFrom_zipWith [Zero K] [One K] [Add K] [Mul K] (f : Site K → Site K → Site K)
    (hdl : ∀ g w, (f g w).dl = g.dl * w.dl) (hdr : ∀ g w, (f g w).dr = g.dr * w.dr) :
    ∀ (gs ws : List (Site K)) (Gl Wl : Nat), gs.length = ws.length → chainFrom Gl gs = true → chainFrom Wl ws = true →
    chainFrom (Gl * Wl) (List.zipWith f gs ws) = true ∧
      lastDr (Gl * Wl) (List.zipWith f gs ws) = lastDr Gl gs * lastDr Wl ws
  | [], [], _, _, _, _, _ => ⟨rfl, rfl⟩
  | g :: gs, w :: ws, Gl, Wl, h, hg, hw => by
    simp only [chainFrom, Bool.and_eq_true, decide_eq_true_eq] at hg hw
    obtain ⟨ih1, ih2⟩ := chainFrom_zipWith f hdl hdr gs ws g.dr w.dr (by simpa using h) hg.2 hw.2
    simp only [List.zipWith_cons_cons, chainFrom, lastDr, Bool.and_eq_true, decide_eq_true_eq, hdl, hdr, hg.1, hw.1]
    exact ⟨⟨trivial, ih1⟩, ih2⟩
  | [], _ :: _, _, _, h, _, _ => by simp at h
  | _ :: _, [], _, _, h, _, _ => by simp at h

omit [CommSemiring K] in
theorem zipWith_dims [Zero K] [One K] [Add K] [Mul K] (f : Site K → Site K → Site K) (d : Nat) (hd : ∀ g w, (f g w).d = w.d) :
    ∀ (gs ws : List (Site K)), (∀ w ∈ ws, w.d = d) → ∀ t ∈ List.zipWith f gs ws, t.d = d
  | [], _, _, t, ht => by simp at ht
  | _ :: _, [], _, t, ht => by simp at ht
  | g :: gs, w :: ws, h, t, ht => by
    simp only [List.zipWith_cons_cons, List.mem_cons] at ht
    rcases ht with rfl | ht
    · rw [hd]; exact h w (by simp)
    · exact zipWith_dims f d hd gs ws (fun w' hw' => h w' (by simp [hw'])) t ht

omit [CommSemiring K] in
/-- **the stacked chain is a chain again**: the gate bond is fused into the MPO's bonds, the outer gate bonds are 1 -/
theorem goodChain_lrMul [Zero K] [One K] [Add K] [Mul K] (conj : Bool) (d n len : Nat) (gs pre ws post : List (Site K))
    (hg : GoodChain d len gs) (ht : GoodChain d n (pre ++ (ws ++ post))) (hl : ws.length = len) :
    GoodChain d n (lrMul conj gs pre.length (pre ++ (ws ++ post))) := by
  obtain ⟨gl, gc, gla, _⟩ := hg
  obtain ⟨tl, tc, tla, td⟩ := ht
  rw [lrMul_split conj gs pre ws post (by omega)]
  rw [chainFrom_append, chainFrom_append, Bool.and_eq_true, Bool.and_eq_true] at tc
  obtain ⟨c1, c2, c3⟩ := tc
  rw [lastDr_append, lastDr_append] at tla
  have key : chainFrom (1 * lastDr 1 pre) (List.zipWith (if conj then lrHangBottom else mulSite) gs ws) = true ∧
      lastDr (1 * lastDr 1 pre) (List.zipWith (if conj then lrHangBottom else mulSite) gs ws)
        = lastDr 1 gs * lastDr (lastDr 1 pre) ws := by
    apply chainFrom_zipWith _ _ _ gs ws 1 (lastDr 1 pre) (by omega) gc c2
    · intro g w; cases conj
      · rfl
      · exact Nat.mul_comm _ _
    · intro g w; cases conj
      · rfl
      · exact Nat.mul_comm _ _
  rw [Nat.one_mul, gla, Nat.one_mul] at key
  refine ⟨?_, ?_, ?_, ?_⟩
  · simp only [List.length_append, List.length_zipWith] at tl ⊢
    omega
  · rw [chainFrom_append, chainFrom_append, key.2, Bool.and_eq_true, Bool.and_eq_true]
    exact ⟨c1, key.1, c3⟩
  · rw [lastDr_append, lastDr_append, key.2]
    exact tla
  · intro t ht
    simp only [List.mem_append] at ht
    rcases ht with ht | ht | ht
    · exact td t (by simp [ht])
    · refine zipWith_dims _ d ?_ gs ws (fun w hw => td w (by simp [hw])) t ht
      intro g w; cases conj <;> rfl
    · exact td t (by simp [ht])

/-- list-level form of `lrMul_top` -/
theorem vals_stack_top (d len : Nat) (gs pre ws post : List (Site K)) (hgl : gs.length = len) (hga : lastDr 1 gs = 1)
    (hl : ws.length = len) (hwd : ∀ w ∈ ws, w.d = d) (hwc : chainFrom (lastDr 1 pre) ws = true)
    (sp sm sq sp' sm' sq' : List Nat) (hsp : sp.length = pre.length) (hsp' : sp'.length = pre.length)
    (hsm : sm.length = len) (hsm' : sm'.length = len) :
    vals (pre ++ (List.zipWith mulSite gs ws ++ post)) (sp ++ (sm ++ sq)) (sp' ++ (sm' ++ sq')) 0
      = ∑ τ : Fin len → Fin d, vals gs sm (cfg τ) 0 * vals (pre ++ (ws ++ post)) (sp ++ (cfg τ ++ sq)) (sp' ++ (sm' ++ sq')) 0 := by
  refine vals_pre_sum Finset.univ _ (fun _ => ws ++ post) (fun τ : Fin len → Fin d => vals gs sm (cfg τ) 0) (sm ++ sq) (sm' ++ sq')
    (fun τ => cfg τ ++ sq) (fun _ => sm' ++ sq') (lastDr 1 pre) ?_ pre sp sp' hsp hsp' 1 rfl 0 (by omega)
  intro r hr
  rw [vals_append_valsE post sq sq' _ sm sm' (by simp [hgl, hl, hsm]) (by simp [hgl, hl, hsm'])]
  have key := valsE_mul d len gs ws hgl hl hwd 1 (lastDr 1 pre) hwc sm sm' hsm hsm' (vals post sq sq') (fun _ => 1)
    (vals post sq sq') (by
      intro ra hra rb _
      rw [hga] at hra
      have : ra = 0 := by omega
      subst this
      simp) 0 (by omega) r hr
  simp only [Nat.zero_mul, Nat.zero_add] at key
  rw [key]
  refine Finset.sum_congr rfl fun τ _ => ?_
  rw [valsE_one, vals_append_valsE post sq sq' ws (cfg τ) sm' (by simp [hl]) (by simp [hl, hsm'])]

/-- **gate of the first circuit** (`conjugate=False`): `to_matrix` of the chain with the gate-MPO tensors stacked on top of the
    tensors at sites `loc, …, loc+len-1` is `(1 ⊗ to_matrix(gate MPO) ⊗ 1) · to_matrix(chain)` -/
theorem lrMul_top (d n len : Nat) (gs pre ws post : List (Site K)) (hg : GoodChain d len gs)
    (ht : GoodChain d n (pre ++ (ws ++ post))) (hl : ws.length = len) (h : pre.length + len ≤ n) :
    chainMat d n (lrMul false gs pre.length (pre ++ (ws ++ post)))
      = embedL (segLens n pre.length len h) (chainMat d len gs) * chainMat d n (pre ++ (ws ++ post)) := by
  obtain ⟨gl, gc, gla, _⟩ := hg
  obtain ⟨tl, tc, tla, td⟩ := ht
  rw [lrMul_split false gs pre ws post (by omega)]
  rw [chainFrom_append, chainFrom_append, Bool.and_eq_true, Bool.and_eq_true] at tc
  obtain ⟨c1, c2, c3⟩ := tc
  ext σ σ'
  rw [Matrix.mul_apply, sum_embedL_left]
  have key := vals_stack_top d len gs pre ws post gl gla hl (fun w hw => td w (by simp [hw])) c2
    ((cfg σ).take pre.length) (cfg ((segLens n pre.length len h).get σ)) ((cfg σ).drop (pre.length + len))
    ((cfg σ').take pre.length) (cfg ((segLens n pre.length len h).get σ')) ((cfg σ').drop (pre.length + len))
    (by simp; omega) (by simp; omega) (by simp) (by simp)
  rw [← cfg_split n pre.length len h σ, ← cfg_split n pre.length len h σ'] at key
  simp only [chainMat, cfg_put_seg]
  exact key

/-- entry-wise conjugate of a tensor -/
def conjSite (cj : K → K) (g : Site K) : Site K := ⟨g.d, g.dl, g.dr, fun a b l r => cj (g.e a b l r)⟩

/-- the conjugated branch's stacked tensor (gate tensor as `rotate(conjugate=True)` leaves it, MPO bond most significant) is
    the site product of the MPO tensor **on top of** the entry-wise conjugated gate tensor -/
theorem lrHangBottom_rotate (cj : K → K) (g w : Site K) (hd : g.d = w.d) :
    lrHangBottom (rotateSite cj g) w = mulSite w (conjSite cj g) := by
  simp only [lrHangBottom, mulSite, conjSite, rotateSite, hd]
  congr 1
  funext f a L R
  exact MpoConv.sumTo_congr _ _ _ fun c _ => mul_comm _ _

theorem zipWith_lrHangBottom (cj : K → K) (d : Nat) : ∀ (gs ws : List (Site K)), (∀ g ∈ gs, g.d = d) → (∀ w ∈ ws, w.d = d) →
    List.zipWith lrHangBottom (rotateMpo cj gs) ws = List.zipWith mulSite ws (gs.map (conjSite cj))
  | [], ws, _, _ => by cases ws <;> simp [rotateMpo]
  | _ :: _, [], _, _ => by simp [rotateMpo]
  | g :: gs, w :: ws, hg, hw => by
    have ih := zipWith_lrHangBottom cj d gs ws (fun g' h' => hg g' (by simp [h'])) (fun w' h' => hw w' (by simp [h']))
    simp only [rotateMpo] at ih
    simp only [rotateMpo, List.map_cons, List.zipWith_cons_cons, ih]
    rw [lrHangBottom_rotate cj g w (by rw [hg g (by simp), hw w (by simp)])]

omit [CommSemiring K] in
theorem conj_chain [Zero K] [One K] [Add K] [Mul K] (cj : K → K) : ∀ (gs : List (Site K)) (n : Nat),
    chainFrom n (gs.map (conjSite cj)) = chainFrom n gs ∧ lastDr n (gs.map (conjSite cj)) = lastDr n gs
  | [], _ => ⟨rfl, rfl⟩
  | g :: gs, n => by
    obtain ⟨h1, h2⟩ := conj_chain cj gs g.dr
    simp only [List.map_cons, chainFrom, lastDr, conjSite] at h1 h2 ⊢
    exact ⟨by rw [h1], h2⟩

theorem vals_conj [StarRing K] : ∀ (gs : List (Site K)) (s s' : List Nat) (l : Nat),
    vals (gs.map (conjSite star)) s s' l = star (vals gs s s' l)
  | [], _, _, _ => by simp [vals]
  | g :: gs, s, s', l => by
    simp only [List.map_cons, vals, sumTo_eq_sum, star_sum, star_mul']
    exact Finset.sum_congr rfl fun r _ => by rw [vals_conj gs]; rfl

/-- list-level form of `lrMul_bottom` -/
theorem vals_stack_bottom (d len : Nat) (gc pre ws post : List (Site K)) (hgl : gc.length = len) (hgd : ∀ g ∈ gc, g.d = d)
    (hgc : chainFrom 1 gc = true) (hga : lastDr 1 gc = 1) (hl : ws.length = len)
    (sp sm sq sp' sm' sq' : List Nat) (hsp : sp.length = pre.length) (hsp' : sp'.length = pre.length)
    (hsm : sm.length = len) (hsm' : sm'.length = len) :
    vals (pre ++ (List.zipWith mulSite ws gc ++ post)) (sp ++ (sm ++ sq)) (sp' ++ (sm' ++ sq')) 0
      = ∑ τ : Fin len → Fin d, vals gc (cfg τ) sm' 0 * vals (pre ++ (ws ++ post)) (sp ++ (sm ++ sq)) (sp' ++ (cfg τ ++ sq')) 0 := by
  refine vals_pre_sum Finset.univ _ (fun _ => ws ++ post) (fun τ : Fin len → Fin d => vals gc (cfg τ) sm' 0) (sm ++ sq) (sm' ++ sq')
    (fun _ => sm ++ sq) (fun τ => cfg τ ++ sq') (lastDr 1 pre) ?_ pre sp sp' hsp hsp' 1 rfl 0 (by omega)
  intro r hr
  rw [vals_append_valsE post sq sq' _ sm sm' (by simp [hgl, hl, hsm]) (by simp [hgl, hl, hsm'])]
  have key := valsE_mul d len ws gc hl hgl hgd (lastDr 1 pre) 1 hgc sm sm' hsm hsm' (vals post sq sq') (vals post sq sq')
    (fun _ => 1) (by
      intro ra _ rb hrb
      rw [hga] at hrb ⊢
      have : rb = 0 := by omega
      subst this
      simp) r hr 0 (by omega)
  simp only [Nat.mul_one, Nat.add_zero] at key
  rw [key]
  refine Finset.sum_congr rfl fun τ _ => ?_
  rw [valsE_one, vals_append_valsE post sq sq' ws sm (cfg τ) (by simp [hl, hsm]) (by simp [hl]), mul_comm]

/-- **gate of the second circuit** (`conjugate=True`): `to_matrix` of the chain with the tensors of
    `gate_mpo.rotate(conjugate=True)` stacked from below is `to_matrix(chain) · (1 ⊗ conj(to_matrix(gate MPO)) ⊗ 1)` — the
    entry-wise conjugate, **not** the adjoint (C04.21b at chain level) -/
theorem lrMul_bottom [StarRing K] (d n len : Nat) (gs pre ws post : List (Site K)) (hg : GoodChain d len gs)
    (ht : GoodChain d n (pre ++ (ws ++ post))) (hl : ws.length = len) (h : pre.length + len ≤ n) :
    chainMat d n (lrMul true (rotateMpo star gs) pre.length (pre ++ (ws ++ post)))
      = chainMat d n (pre ++ (ws ++ post)) * embedL (segLens n pre.length len h) ((chainMat d len gs).map star) := by
  obtain ⟨gl, gc, gla, gd⟩ := hg
  obtain ⟨tl, tc, tla, td⟩ := ht
  rw [lrMul_split true _ pre ws post (by simp [rotateMpo]; omega)]
  simp only [if_true]
  rw [zipWith_lrHangBottom star d gs ws gd (fun w hw => td w (by simp [hw]))]
  ext σ σ'
  rw [Matrix.mul_apply, sum_embedL_right]
  have key := vals_stack_bottom d len (gs.map (conjSite star)) pre ws post (by simpa using gl)
    (by
      intro g hg
      obtain ⟨g', hg', rfl⟩ := List.mem_map.mp hg
      exact gd g' hg')
    (by rw [(conj_chain star gs 1).1]; exact gc) (by rw [(conj_chain star gs 1).2]; exact gla) hl
    ((cfg σ).take pre.length) (cfg ((segLens n pre.length len h).get σ)) ((cfg σ).drop (pre.length + len))
    ((cfg σ').take pre.length) (cfg ((segLens n pre.length len h).get σ')) ((cfg σ').drop (pre.length + len))
    (by simp; omega) (by simp; omega) (by simp) (by simp)
  rw [← cfg_split n pre.length len h σ, ← cfg_split n pre.length len h σ'] at key
  simp only [chainMat, cfg_put_seg, Matrix.map_apply]
  rw [key]
  refine Finset.sum_congr rfl fun τ _ => ?_
  rw [vals_conj, mul_comm]

end stack

/-! ## the event list of `iterate` as a sequence of blocks -/

section blocks

/-- shape of a block of the event list produced with the sweep `its` -/
def BlkShape (its : List Nat) : Blk → Prop
  | .upd s => s.m ∈ its
  | .lr c g ss => (c = 1 ∨ c = 2) ∧ ss.map Step.m = lrPairs (lrLoc g) (dist g.qs) ∧ g.qs.length > 1 ∧ dist g.qs > 2

theorem longRange_block (its : List Nat) (conj : Bool) (s : State) (r : List Ev × State) (h : longRange conj s = some r) :
    ∃ c g ss, r.1 = Blk.evs (.lr c g ss) ∧ BlkShape its (.lr c g ss) := by
  unfold longRange at h
  simp only at h
  split at h
  · simp at h
  · rename_i i g hpick
    simp only [Option.some.injEq] at h
    subst h
    obtain ⟨ss, e1, e2⟩ := zonePass_steps (lrPairs (min (g.qs.head?.getD 0) (g.qs.getLast?.getD 0)) (dist g.qs))
      (if conj then (s.1, s.2.eraseIdx i) else (s.1.eraseIdx i, s.2))
    have hp := (firstInLayer_spec hpick).2
    simp only [Bool.and_eq_true, decide_eq_true_eq] at hp
    refine ⟨if conj then 2 else 1, g, ss, ?_, ?_, e2, hp.1, hp.2⟩
    · simp only [Blk.evs, ← e1]
      cases conj <;> rfl
    · cases conj <;> simp

theorem loop_blocks (its : List Nat) : ∀ (k : Nat) (s : State) (evs : List Ev), loop its k s = .done evs →
    ∃ bs : List Blk, evs = bs.flatMap Blk.evs ∧ ∀ b ∈ bs, BlkShape its b := by
  intro k
  induction k with
  | zero =>
    intro s evs h
    simp only [loop] at h
    split at h
    · simp only [Res.done.injEq] at h
      exact ⟨[], by simp [← h], by simp⟩
    · simp at h
  | succ k ih =>
    intro s evs h
    simp only [loop] at h
    split at h
    · simp only [Res.done.injEq] at h
      exact ⟨[], by simp [← h], by simp⟩
    · split at h
      · obtain ⟨evs', hr, rfl⟩ := prepend_done h
        obtain ⟨st1, e1, m1⟩ := zonePass_steps its s
        obtain ⟨bs2, e2, m2⟩ := ih _ _ hr
        refine ⟨st1.map Blk.upd ++ bs2, ?_, ?_⟩
        · rw [e1, e2, List.flatMap_append, List.flatMap_map]
          rfl
        · intro b hb
          rcases List.mem_append.mp hb with h' | h'
          · obtain ⟨st, hst, rfl⟩ := List.mem_map.mp h'
            show st.m ∈ its
            rw [← m1]
            exact List.mem_map.mpr ⟨st, hst, rfl⟩
          · exact m2 b h'
      · split at h
        · simp at h
        · rename_i r hlr
          obtain ⟨evs', hr, rfl⟩ := prepend_done h
          obtain ⟨c, g, ss, e1, m1⟩ := longRange_block its _ s r hlr
          obtain ⟨bs2, e2, m2⟩ := ih _ _ hr
          refine ⟨Blk.lr c g ss :: bs2, by rw [e1, e2, List.flatMap_cons], ?_⟩
          intro b hb
          rcases List.mem_cons.mp hb with rfl | h'
          · exact m1
          · exact m2 b h'

theorem parseLayer_flatMap (rest : List Ev) : ∀ (ss : List Step),
    parseLayer (ss.map Step.m) (ss.flatMap Step.evs ++ rest) = some (ss, rest)
  | [] => rfl
  | s :: ss => by
    simp only [List.map_cons, List.flatMap_cons, Step.evs, List.cons_append, List.nil_append, parseLayer,
      parseLayer_flatMap rest ss]
    simp

theorem stepsOfLR_flatMap (its : List Nat) : ∀ (bs : List Blk), (∀ b ∈ bs, BlkShape its b) → ∀ fuel, bs.length ≤ fuel →
    stepsOfLR fuel (bs.flatMap Blk.evs) = some bs
  | [], _, fuel, _ => by cases fuel <;> rfl
  | Blk.upd s :: bs, hb, fuel, hf => by
    obtain ⟨k, rfl⟩ : ∃ k, fuel = k + 1 := ⟨fuel - 1, by simp at hf; omega⟩
    have ih := stepsOfLR_flatMap its bs (fun b h => hb b (by simp [h])) k (by simpa using hf)
    simp only [List.flatMap_cons, Blk.evs, Step.evs, List.cons_append, List.nil_append, stepsOfLR, ih]
    simp
  | Blk.lr c g ss :: bs, hb, fuel, hf => by
    obtain ⟨k, rfl⟩ : ∃ k, fuel = k + 1 := ⟨fuel - 1, by simp at hf; omega⟩
    have ih := stepsOfLR_flatMap its bs (fun b h => hb b (by simp [h])) k (by simpa using hf)
    have hs0 : BlkShape its (Blk.lr c g ss) := hb (Blk.lr c g ss) (by simp)
    have hs : ss.map Step.m = lrPairs (lrLoc g) (dist g.qs) := hs0.2.1
    simp only [List.flatMap_cons, Blk.evs, List.cons_append, stepsOfLR, ← hs, parseLayer_flatMap, ih]

theorem blocks_length_le (bs : List Blk) : bs.length ≤ (bs.flatMap Blk.evs).length := by
  induction bs with
  | nil => simp
  | cons b bs ih =>
    simp only [List.flatMap_cons, List.length_append, List.length_cons]
    have : 1 ≤ (Blk.evs b).length := by
      cases b <;> simp [Blk.evs, Step.evs]
    omega

theorem mem_lrPairs (loc len m : Nat) (h2 : 2 ≤ len) (hm : m ∈ lrPairs loc len) : loc ≤ m ∧ m + 1 < loc + len := by
  unfold lrPairs at hm
  simp only [List.mem_filterMap, List.mem_range] at hm
  obtain ⟨i, hi, he⟩ := hm
  split_ifs at he with h1 h3
  · simp only [Option.some.injEq] at he; omega
  · simp only [Option.some.injEq] at he; omega

theorem mem_consumed_of_lr (c : Nat) (g : Instr) (evs : List Ev) (h : Ev.lr c g ∈ evs) : g ∈ consumed c evs := by
  unfold consumed
  rw [List.mem_flatMap]
  exact ⟨_, h, by simp [Ev.consumed]⟩

end blocks

/-! ## one long-range layer, the whole run -/

section run
variable [CommSemiring K] [StarRing K]

omit [StarRing K] in
theorem embed2_map_star' [StarRing K] (d n p q : Nat) (G : Matrix (Fin d × Fin d) (Fin d × Fin d) K) :
    (embed2 d n p q G).map star = embed2 d n p q (G.map star) := by
  unfold embed2
  split
  · ext σ τ
    simp only [Matrix.map_apply, embedL]
    split_ifs <;> simp
  · ext σ τ
    simp only [Matrix.map_apply, Matrix.one_apply]
    split_ifs <;> simp

omit [CommSemiring K] [StarRing K] in
theorem goodChain_rotate [Zero K] [One K] [Add K] [Mul K] (cj : K → K) (d n : Nat) (gs : List (Site K)) (h : GoodChain d n gs) :
    GoodChain d n (rotateMpo cj gs) := by
  have key : ∀ (gs : List (Site K)) (m : Nat), chainFrom m (rotateMpo cj gs) = chainFrom m gs ∧
      lastDr m (rotateMpo cj gs) = lastDr m gs := by
    intro gs
    induction gs with
    | nil => intro m; exact ⟨rfl, rfl⟩
    | cons g gs ih =>
      intro m
      obtain ⟨h1, h2⟩ := ih g.dr
      simp only [rotateMpo, List.map_cons, chainFrom, lastDr, rotateSite] at h1 h2 ⊢
      exact ⟨by rw [h1], h2⟩
  obtain ⟨hl, hc, hla, hd⟩ := h
  refine ⟨by simpa [rotateMpo] using hl, by rw [(key gs 1).1]; exact hc, by rw [(key gs 1).2]; exact hla, ?_⟩
  intro t ht
  simp only [rotateMpo, List.mem_map] at ht
  obtain ⟨g, hg, rfl⟩ := ht
  exact hd g hg

/-- what `convert_dag_to_tensor_algorithm` and the gate library guarantee of a long-range gate: two distinct qubits inside the
    register, and a gate object that is not the identity placeholder (`name == "I"` is a one-qubit gate) -/
structure LRGateOK (n : Nat) (g : Gate K) (i : Instr) : Prop where
  two : ∃ q0 q1, i.qs = [q0, q1] ∧ q0 ≠ q1 ∧ q0 < n ∧ q1 < n
  notId : g.isId = false

/-- **the gate-MPO hypothesis** (what `split_tensor` + `extend_gate` deliver, C18 `c18_mpo_identity_chain`; spec-tied on every
    long-range layer of an `e2e-lr` run): the tensors `gate_.mpo_tensors` form a chain over the gate's span with outer bonds 1
    whose operator is the gate's stored two-site tensor on the two END sites and the identity in between -/
def GateMpoOK (d : Nat) (g : Gate K) (i : Instr) (gm : List (Site K)) : Prop :=
  GoodChain d (dist i.qs) gm ∧
    chainMat d (dist i.qs) gm = embed2 d (dist i.qs) 0 (dist i.qs - 1) (gateMat2 d g.ten)

/-- what the layer logic guarantees of one block -/
def BlkOK (d n : Nat) (gate1 gate2 : Instr → Gate K) : Blk → Prop
  | .upd s => StepOK n gate1 gate2 s
  | .lr c g ss => (c = 1 ∨ c = 2) ∧ LRGateOK n ((if c = 1 then gate1 else gate2) g) g ∧
      (c = 2 → (gateMat2 d (gate2 g).ten)ᵀ = gateMat2 d (gate2 g).ten) ∧ ∀ s ∈ ss, StepOK n gate1 gate2 s

omit [CommSemiring K] [StarRing K] in
theorem dist_pair (q0 q1 : Nat) : dist [q0, q1] = (q0 - q1) + (q1 - q0) + 1 := by
  simp [dist]

/-- the stacking step for a gate of the first circuit, as an event -/
theorem lrStack_top (d n : Nat) (gate1 gate2 : Instr → Gate K) (g : Instr) (gm pre ws post : List (Site K))
    (hg : GoodChain d n (pre ++ (ws ++ post))) (hok : LRGateOK n (gate1 g) g) (hgm : GateMpoOK d (gate1 g) g gm)
    (hpl : pre.length = lrLoc g) (hwl : ws.length = dist g.qs) :
    GoodChain d n (lrMul false gm (lrLoc g) (pre ++ (ws ++ post))) ∧
    chainMat d n (lrMul false gm (lrLoc g) (pre ++ (ws ++ post)))
      = applyEv (sem d n gate1) (fun i => star (sem d n gate2 i)) (chainMat d n (pre ++ (ws ++ post))) (Ev.lr 1 g) := by
  obtain ⟨⟨q0, q1, hqs, hne, hq0, hq1⟩, hnid⟩ := hok
  have hdist : dist g.qs = (q0 - q1) + (q1 - q0) + 1 := by rw [hqs]; exact dist_pair q0 q1
  have hloc : lrLoc g = min q0 q1 := by simp [lrLoc, hqs]
  have hfit' : pre.length + dist g.qs ≤ n := by rw [hpl, hloc, hdist]; omega
  rw [← hpl]
  refine ⟨goodChain_lrMul false d n _ gm pre ws post hgm.1 hg hwl, ?_⟩
  rw [lrMul_top d n _ gm pre ws post hgm.1 hg hwl hfit', hgm.2,
    embedL_seg_embed2 n pre.length (dist g.qs) 0 (dist g.qs - 1) hfit' (by omega) (by omega) (by omega)]
  have e1 : pre.length + 0 = min q0 q1 := by rw [hpl, hloc]; omega
  have e2 : pre.length + (dist g.qs - 1) = max q0 q1 := by rw [hpl, hloc, hdist]; omega
  rw [e1, e2]
  simp only [applyEv, if_true, sem, gateSem, hnid, Bool.false_eq_true, if_false, hqs]

/-- the stacking step for a gate of the second circuit whose stored two-site matrix is symmetric, as an event -/
theorem lrStack_bottom (d n : Nat) (gate1 gate2 : Instr → Gate K) (g : Instr) (gm pre ws post : List (Site K))
    (hg : GoodChain d n (pre ++ (ws ++ post))) (hok : LRGateOK n (gate2 g) g) (hgm : GateMpoOK d (gate2 g) g gm)
    (hsym : (gateMat2 d (gate2 g).ten)ᵀ = gateMat2 d (gate2 g).ten)
    (hpl : pre.length = lrLoc g) (hwl : ws.length = dist g.qs) :
    GoodChain d n (lrMul true (rotateMpo star gm) (lrLoc g) (pre ++ (ws ++ post))) ∧
    chainMat d n (lrMul true (rotateMpo star gm) (lrLoc g) (pre ++ (ws ++ post)))
      = applyEv (sem d n gate1) (fun i => star (sem d n gate2 i)) (chainMat d n (pre ++ (ws ++ post))) (Ev.lr 2 g) := by
  obtain ⟨⟨q0, q1, hqs, hne, hq0, hq1⟩, hnid⟩ := hok
  have hdist : dist g.qs = (q0 - q1) + (q1 - q0) + 1 := by rw [hqs]; exact dist_pair q0 q1
  have hloc : lrLoc g = min q0 q1 := by simp [lrLoc, hqs]
  have hfit' : pre.length + dist g.qs ≤ n := by rw [hpl, hloc, hdist]; omega
  rw [← hpl]
  refine ⟨goodChain_lrMul true d n _ _ pre ws post (goodChain_rotate star d _ gm hgm.1) hg hwl, ?_⟩
  rw [lrMul_bottom d n _ gm pre ws post hgm.1 hg hwl hfit', hgm.2, embed2_map_star',
    embedL_seg_embed2 n pre.length (dist g.qs) 0 (dist g.qs - 1) hfit' (by omega) (by omega) (by omega)]
  have hG : (gateMat2 d (gate2 g).ten).map star = (gateMat2 d (gate2 g).ten)ᴴ := by
    conv_rhs => rw [← hsym]
    rfl
  have e1 : pre.length + 0 = min q0 q1 := by rw [hpl, hloc]; omega
  have e2 : pre.length + (dist g.qs - 1) = max q0 q1 := by rw [hpl, hloc, hdist]; omega
  rw [hG, ← embed2_conjTranspose, e1, e2]
  simp only [applyEv, show ¬ ((2 : Nat) = 1) by decide, if_false, if_true, sem, gateSem, hnid, Bool.false_eq_true, hqs,
    star_eq_conjTranspose]

/-- **one `apply_long_range_layer`, nothing discarded**: the chain stays well formed and its operator is acted on by the
    events of the layer exactly as C04.10's event semantics says — the long-range gate as its operator on the register
    (from the left for a gate of the first circuit; its adjoint from the right for a *symmetric* gate of the second circuit),
    then the zone events of the pair updates -/
theorem lrLayer_represents (d n : Nat) (thr : Rat) (gate1 gate2 : Instr → Gate K) (ts ts' : List (Site K)) (c : Nat) (g : Instr)
    (gm : List (Site K)) (ss : List Step) (decs : List (Svd K)) (hg : GoodChain d n ts)
    (hb : BlkOK d n gate1 gate2 (.lr c g ss)) (hgm : GateMpoOK d ((if c = 1 then gate1 else gate2) g) g gm)
    (hx : ExactSteps d thr gate1 gate2
      (lrMul (decide (c = 2)) (lrGateTensors star (decide (c = 2)) gm) (lrLoc g) ts) ss decs)
    (h : lrLayer star d thr gate1 gate2 ts c g gm ss decs = some ts') :
    GoodChain d n ts' ∧
    chainMat d n ts' = runEvs (sem d n gate1) (fun i => star (sem d n gate2 i)) (chainMat d n ts) (Blk.evs (.lr c g ss)) := by
  obtain ⟨hc, hok, hsym, hss⟩ := hb
  unfold lrLayer at h
  split at h
  swap
  · simp at h
  rename_i hcond
  obtain ⟨pre, ws, post, rfl, hpl, hwl⟩ := split3 ts (lrLoc g) (dist g.qs) (by rw [← hcond.1]; exact hcond.2)
  have hM : GoodChain d n (lrMul (decide (c = 2)) (lrGateTensors star (decide (c = 2)) gm) (lrLoc g) (pre ++ (ws ++ post))) ∧
      chainMat d n (lrMul (decide (c = 2)) (lrGateTensors star (decide (c = 2)) gm) (lrLoc g) (pre ++ (ws ++ post)))
        = applyEv (sem d n gate1) (fun i => star (sem d n gate2 i)) (chainMat d n (pre ++ (ws ++ post))) (Ev.lr c g) := by
    rcases hc with rfl | rfl
    · exact lrStack_top d n gate1 gate2 g gm pre ws post hg hok hgm hpl hwl
    · exact lrStack_bottom d n gate1 gate2 g gm pre ws post hg hok hgm (hsym rfl) hpl hwl
  obtain ⟨hr1, hr2⟩ := runSteps_represents d n thr gate1 gate2 ss decs _ ts' hM.1 hss hx h
  refine ⟨hr1, ?_⟩
  rw [hr2, hM.2]
  rfl

/-- **no truncation**, along a run with long-range layers: every `decompose_theta` — of an `update_mpo` and of every pair
    update inside an `apply_long_range_layer` (where the block is the one of the STACKED tensors) — keeps a part that
    reproduces the block handed to it -/
def ExactBlocks (d : Nat) (thr : Rat) (gate1 gate2 : Instr → Gate K) :
    List (Site K) → List Blk → List (List (Site K)) → List (Svd K) → Prop
  | ts, Blk.upd s :: bs, gms, dec :: decs =>
    ExactSteps d thr gate1 gate2 ts [s] [dec] ∧
    (∀ ts', updateMpo star d thr gate1 gate2 ts s dec = some ts' → ExactBlocks d thr gate1 gate2 ts' bs gms decs)
  | ts, Blk.lr c g ss :: bs, gm :: gms, decs =>
    ExactSteps d thr gate1 gate2 (lrMul (decide (c = 2)) (lrGateTensors star (decide (c = 2)) gm) (lrLoc g) ts) ss
      (decs.take ss.length) ∧
    (∀ ts', lrLayer star d thr gate1 gate2 ts c g gm ss (decs.take ss.length) = some ts' →
      ExactBlocks d thr gate1 gate2 ts' bs gms (decs.drop ss.length))
  | _, _, _, _ => True

/-- the gate-MPO hypothesis for every long-range layer of a run (`gms` in the order the layers run) -/
def GateMposOK (d : Nat) (gate1 gate2 : Instr → Gate K) : List Blk → List (List (Site K)) → Prop
  | Blk.upd _ :: bs, gms => GateMposOK d gate1 gate2 bs gms
  | Blk.lr c g _ :: bs, gm :: gms => GateMpoOK d ((if c = 1 then gate1 else gate2) g) g gm ∧ GateMposOK d gate1 gate2 bs gms
  | _, _ => True

/-- **the whole run, long-range layers included, nothing discarded** (induction over the blocks) -/
theorem runStepsLR_represents (d n : Nat) (thr : Rat) (gate1 gate2 : Instr → Gate K) :
    ∀ (bs : List Blk) (gms : List (List (Site K))) (decs : List (Svd K)) (ts ts' : List (Site K)), GoodChain d n ts →
    (∀ b ∈ bs, BlkOK d n gate1 gate2 b) → GateMposOK d gate1 gate2 bs gms → ExactBlocks d thr gate1 gate2 ts bs gms decs →
    runStepsLR star d thr gate1 gate2 ts bs gms decs = some ts' →
    GoodChain d n ts' ∧
    chainMat d n ts' = runEvs (sem d n gate1) (fun i => star (sem d n gate2 i)) (chainMat d n ts) (bs.flatMap Blk.evs)
  | [], _, _, ts, ts', hg, _, _, _, h => by
    simp only [runStepsLR, Option.some.injEq] at h
    subst h
    exact ⟨hg, by simp [runEvs]⟩
  | Blk.upd s :: bs, gms, [], _, _, _, _, _, _, h => by simp [runStepsLR] at h
  | Blk.upd s :: bs, gms, dec :: decs, ts, ts', hg, hb, hm, hx, h => by
    simp only [runStepsLR] at h
    split at h
    · rename_i ts1 h1
      obtain ⟨hx1, hx2⟩ := hx
      have hs : StepOK n gate1 gate2 s := hb (Blk.upd s) (by simp)
      obtain ⟨hg1, e1⟩ := updateMpo_represents d n thr gate1 gate2 ts ts1 s dec hg hs hx1.1 h1
      obtain ⟨hg2, e2⟩ := runStepsLR_represents d n thr gate1 gate2 bs gms decs ts1 ts' hg1
        (fun b' hb' => hb b' (by simp [hb'])) hm (hx2 ts1 h1) h
      refine ⟨hg2, ?_⟩
      rw [e2, e1, List.flatMap_cons]
      simp [runEvs, List.foldl_append, Blk.evs]
    · simp at h
  | Blk.lr c g ss :: bs, [], _, _, _, _, _, _, _, h => by simp [runStepsLR] at h
  | Blk.lr c g ss :: bs, gm :: gms, decs, ts, ts', hg, hb, hm, hx, h => by
    simp only [runStepsLR] at h
    split at h
    · rename_i ts1 h1
      obtain ⟨hx1, hx2⟩ := hx
      obtain ⟨hm1, hm2⟩ := hm
      obtain ⟨hg1, e1⟩ := lrLayer_represents d n thr gate1 gate2 ts ts1 c g gm ss _ hg (hb _ (by simp)) hm1 hx1 h1
      obtain ⟨hg2, e2⟩ := runStepsLR_represents d n thr gate1 gate2 bs gms _ ts1 ts' hg1
        (fun b' hb' => hb b' (by simp [hb'])) hm2 (hx2 ts1 h1) h
      refine ⟨hg2, ?_⟩
      rw [e2, e1, List.flatMap_cons]
      simp [runEvs, List.foldl_append]
    · simp at h

/-- a circuit of one-qubit gates and two-qubit gates on distinct qubits **at any distance** inside an `n`-qubit register, with
    the gate objects `convert_dag_to_tensor_algorithm` builds (`gate.sites`, `gate.interaction`); a long-range gate object is
    not the identity placeholder -/
def LRCircuit (n : Nat) (c : Dag) (gateOf : Instr → Gate K) : Prop :=
  ∀ i ∈ c, (i.qs.length = 1 ∨ i.qs.length = 2) ∧ i.qs.Nodup ∧ (∀ q ∈ i.qs, q < n) ∧
    (gateOf i).sites = i.qs ∧ (gateOf i).interaction = i.qs.length ∧ (2 < dist i.qs → (gateOf i).isId = false)

/-- every long-range gate of the circuit has a symmetric stored matrix (`conj(G) = Gᴴ`): true of every two-qubit gate of
    the library (C04.E5 `library_two_qubit_gates_symmetric`) -/
def SymLR (d : Nat) (c : Dag) (gateOf : Instr → Gate K) : Prop :=
  ∀ i ∈ c, 2 < dist i.qs → (gateMat2 d (gateOf i).ten)ᵀ = gateMat2 d (gateOf i).ten

omit [CommSemiring K] [StarRing K] in
theorem LRCircuit.wf {n : Nat} {c : Dag} {gateOf : Instr → Gate K} (h : LRCircuit n c gateOf) : WF n c :=
  fun g hg => ⟨(h g hg).1, (h g hg).2.2.1⟩

omit [StarRing K] in
/-- for circuits with gates at any distance the event list of `iterate` is a sequence of blocks — `update_mpo` calls and
    long-range layers — each inside the register, each consuming only gates of its own pair of sites; the long-range gate of a
    layer is a two-qubit gate of the circuit the layer says it is from -/
theorem iterate_blocks_ok (d n : Nat) (gate1 gate2 : Instr → Gate K) (c1 c2 : Dag) (fuel : Nat) (evs : List Ev)
    (h1 : LRCircuit n c1 gate1) (h2 : LRCircuit n c2 gate2) (hs : SymLR d c2 gate2) (h : iterate n c1 c2 fuel = .done evs) :
    2 ≤ n ∧ ∃ bs : List Blk, stepsOfLR evs.length evs = some bs ∧ evs = bs.flatMap Blk.evs ∧
      ∀ b ∈ bs, BlkOK d n gate1 gate2 b := by
  unfold iterate at h
  split at h
  · simp at h
  · rename_i hn
    refine ⟨by omega, ?_⟩
    obtain ⟨bs, e, hm⟩ := loop_blocks _ _ _ _ h
    refine ⟨bs, ?_, e, ?_⟩
    · rw [e]
      exact stepsOfLR_flatMap _ bs hm _ (blocks_length_le bs)
    have hok := loop_ok _ _ _ _ h
    obtain ⟨t1, t2⟩ := loop_takes _ _ _ _ h
    have p1 := t1.perm
    have p2 := t2.perm
    simp only [List.append_nil] at p1 p2
    -- a zone step anywhere in the event list, at a pair inside the register
    have stepOK : ∀ s : Step, s.m + 1 < n → Ev.zone 1 s.m s.is1 ∈ evs → Ev.zone 2 s.m s.is2 ∈ evs → StepOK n gate1 gate2 s := by
      intro s hsm he1 he2
      refine ⟨hsm, ?_, ?_⟩
      · intro i hi
        have hc : i ∈ c1 := p1.subset (mem_consumed_of_zone 1 s.m s.is1 evs he1 i hi)
        obtain ⟨hl, hnd, _, hsi, hin, _⟩ := h1 i hc
        exact ⟨hsi, hin, hl, hnd, hok _ he1 i hi⟩
      · intro i hi
        have hc : i ∈ c2 := p2.subset (mem_consumed_of_zone 2 s.m s.is2 evs he2 i hi)
        obtain ⟨hl, hnd, _, hsi, hin, _⟩ := h2 i hc
        exact ⟨hsi, hin, hl, hnd, hok _ he2 i hi⟩
    intro b hb
    cases b with
    | upd s =>
      have hsh : s.m ∈ _ := hm _ hb
      exact stepOK s (mem_startIts_lt n _ s.m hsh)
        (by rw [e, List.mem_flatMap]; exact ⟨_, hb, by simp [Blk.evs, Step.evs]⟩)
        (by rw [e, List.mem_flatMap]; exact ⟨_, hb, by simp [Blk.evs, Step.evs]⟩)
    | lr c g ss =>
      obtain ⟨hc, hms, hlen, hdist⟩ : BlkShape _ (Blk.lr c g ss) := hm _ hb
      have hev : Ev.lr c g ∈ evs := by rw [e, List.mem_flatMap]; exact ⟨_, hb, by simp [Blk.evs]⟩
      -- the gate belongs to the circuit the layer names
      have hgate : ∀ (cc : Dag) (gateOf : Instr → Gate K), LRCircuit n cc gateOf → g ∈ cc → LRGateOK n (gateOf g) g := by
        intro cc gateOf hcc hg
        obtain ⟨hl, hnd, hq, _, _, hid⟩ := hcc g hg
        have h2' : g.qs.length = 2 := by omega
        obtain ⟨q0, q1, hqs⟩ := List.length_eq_two.mp h2'
        refine ⟨⟨q0, q1, hqs, ?_, hq q0 (by simp [hqs]), hq q1 (by simp [hqs])⟩, hid hdist⟩
        rw [hqs] at hnd
        simpa using hnd
      have hg1 : c = 1 → g ∈ c1 := fun hc1 => p1.subset (mem_consumed_of_lr 1 g evs (hc1 ▸ hev))
      have hg2 : c = 2 → g ∈ c2 := fun hc2 => p2.subset (mem_consumed_of_lr 2 g evs (hc2 ▸ hev))
      have hokg : LRGateOK n ((if c = 1 then gate1 else gate2) g) g := by
        rcases hc with rfl | rfl
        · simpa using hgate c1 gate1 h1 (hg1 rfl)
        · simpa using hgate c2 gate2 h2 (hg2 rfl)
      refine ⟨hc, hokg, fun hc2 => hs g (hg2 hc2) hdist, ?_⟩
      obtain ⟨⟨q0, q1, hqs, hne, hq0, hq1⟩, _⟩ := hokg
      have hd' : dist g.qs = (q0 - q1) + (q1 - q0) + 1 := by rw [hqs]; exact dist_pair q0 q1
      have hloc : lrLoc g = min q0 q1 := by simp [lrLoc, hqs]
      intro s hs'
      have hmem : s.m ∈ lrPairs (lrLoc g) (dist g.qs) := by rw [← hms]; exact List.mem_map.mpr ⟨s, hs', rfl⟩
      have hb' := mem_lrPairs _ _ _ (by omega) hmem
      have hin : ∀ c' gs', Ev.zone c' s.m gs' ∈ s.evs → Ev.zone c' s.m gs' ∈ evs := by
        intro c' gs' he
        rw [e, List.mem_flatMap]
        refine ⟨_, hb, ?_⟩
        simp only [Blk.evs, List.mem_cons, List.mem_flatMap]
        exact Or.inr ⟨s, hs', he⟩
      exact stepOK s (by rw [hloc, hd'] at hb'; omega) (hin 1 _ (by simp [Step.evs])) (hin 2 _ (by simp [Step.evs]))

/-- **the tensor run of `iterate`, long-range layers included, is the event semantics of C04.10** -/
theorem iterateMpoLR_runEvs (d n : Nat) (thr : Rat) (gate1 gate2 : Instr → Gate K) (c1 c2 : Dag)
    (gms : List (List (Site K))) (decs : List (Svd K)) (ts : List (Site K))
    (h1 : LRCircuit n c1 gate1) (h2 : LRCircuit n c2 gate2) (hs : SymLR d c2 gate2)
    (hm : ∀ evs bs, iterate n c1 c2 (c1.length + c2.length) = .done evs → stepsOfLR evs.length evs = some bs →
      GateMposOK d gate1 gate2 bs gms)
    (hx : ∀ evs bs, iterate n c1 c2 (c1.length + c2.length) = .done evs → stepsOfLR evs.length evs = some bs →
      ExactBlocks d thr gate1 gate2 (identityMpo n d) bs gms decs)
    (h : iterateMpoLR star d thr gate1 gate2 n c1 c2 gms decs = some ts) :
    ∃ evs, iterate n c1 c2 (c1.length + c2.length) = .done evs ∧ 2 ≤ n ∧ GoodChain d n ts ∧
      chainMat d n ts = runEvs (sem d n gate1) (fun i => star (sem d n gate2 i)) 1 evs := by
  unfold iterateMpoLR at h
  split at h
  · rename_i evs hit
    split at h
    · rename_i bs hst
      obtain ⟨hn, bs', hst', e, hok⟩ := iterate_blocks_ok d n gate1 gate2 c1 c2 _ evs h1 h2 hs hit
      have : bs' = bs := by rw [hst'] at hst; exact Option.some.inj hst
      subst this
      obtain ⟨hg, hmat⟩ := runStepsLR_represents d n thr gate1 gate2 bs' gms decs _ ts (goodChain_identity d n) hok
        (hm evs bs' hit hst') (hx evs bs' hit hst') h
      exact ⟨evs, hit, hn, hg, by rw [hmat, chainMat_identity, ← e]⟩
    · simp at h
  · simp at h

end run

/-- **what `equivalence_checker.run` returns** on circuits with long-range gates: the decision of `check_if_identity` on the
    conjugate of the trace of the operator of the final chain -/
theorem checkerRunLR_decision (thr : Rat) (gate1 gate2 : Instr → Gate CRat) (n : Nat) (c1 c2 : Dag)
    (gms : List (List (Site CRat))) (decs : List (Svd CRat)) (f : Rat) (b : Bool)
    (h : checkerRunLR thr gate1 gate2 n c1 c2 gms decs f = some b) :
    ∃ ts, iterateMpoLR star 2 thr gate1 gate2 n c1 c2 gms decs = some ts ∧
      (GoodChain 2 n ts → 0 < n → b = identityDecision (star (Matrix.trace (chainMat 2 n ts))) n f) := by
  unfold checkerRunLR at h
  split at h
  · rename_i ts hts
    refine ⟨ts, hts, ?_⟩
    intro hg hn
    split at h
    · rename_i tr htr
      have := identityTrace_eq ts (hg.wf hn) hg.dims
      have e : identityTrace CRat.conj ts = identityTrace star ts := rfl
      rw [e, this] at htr
      rw [trace_chainMat 2 n ts hg.len hg.dims, Option.some.inj htr]
      exact (Option.some.inj h).symm
    · simp at h
  · simp at h


/-! ## the gate MPO `extend_gate` builds: end tensors from an exact split, identity tensors in between -/

section gateChain
variable [CommSemiring K]

/-- `identity_tensor[:, :, i, i] = np.identity(d)` for `i < χ`, zero elsewhere -/
def idBond (d chi : Nat) : Site K := ⟨d, chi, chi, fun a b l r => if a = b ∧ l = r then 1 else 0⟩

theorem vals_idBonds (d chi : Nat) (B : Site K) (hB : B.dr = 1) (b e : Nat) : ∀ (k : Nat) (os is : List Nat),
    os.length = k → is.length = k → ∀ r, r < chi →
    vals (List.replicate k (idBond d chi) ++ [B]) (os ++ [b]) (is ++ [e]) r = (if os = is then 1 else 0) * B.e b e r 0
  | 0, [], [], _, _, r, _ => by
    simp [vals, sumTo_eq_sum, hB]
  | k + 1, o :: os, i :: is, h1, h2, r, hr => by
    simp only [List.replicate_succ, List.cons_append, vals_cons]
    have ih := vals_idBonds d chi B hB b e k os is (by simpa using h1) (by simpa using h2)
    rw [show (idBond d chi : Site K).dr = chi from rfl, Finset.sum_eq_single_of_mem r (Finset.mem_range.mpr hr)]
    · rw [ih r hr]
      by_cases hoi : o = i
      · subst hoi
        simp [idBond]
      · have : ¬ (o :: os = i :: is) := fun hc => hoi (List.cons.inj hc).1
        simp [idBond, hoi, this]
    · intro r' _ hne
      simp [idBond, Ne.symm hne]
  | 0, _ :: _, _, h, _, _, _ => by simp at h
  | 0, [], _ :: _, _, h, _, _ => by simp at h
  | _ + 1, [], _, h, _, _, _ => by simp at h
  | _ + 1, _ :: _, [], _, h, _, _ => by simp at h

/-- configuration of `k + 2` sites as first entry, middle part, last entry -/
theorem cfg_ends {d : Nat} (k : Nat) (σ : Fin (k + 2) → Fin d) :
    cfg σ = (σ 0 : Nat) :: (cfg (fun j : Fin k => σ ⟨j + 1, by omega⟩) ++ [(σ ⟨k + 1, by omega⟩ : Nat)]) := by
  apply List.ext_getElem
  · simp
  · intro j h1 h2
    rcases j with _ | j
    · simp [cfg]
    · simp only [List.getElem_cons_succ, List.getElem_append, cfg_length, cfg_getElem]
      by_cases hj : j < k
      · simp [hj]
      · have : j = k := by simp at h1; omega
        subst this
        simp

/-- **the gate MPO is the gate on its two end sites** (the statement of C18 `c18_mpo_identity_chain` in the chain vocabulary
    of this file): end tensors `A` (left bond 1) and `B` (right bond 1) that split the two-site tensor exactly,
    `Σ_{k<χ} A[a,c,0,k] · B[b,e,k,0] = G[a,b,c,e]` (`sumTo`, as in C18), with any number of identity tensors of bond dimension `χ` in between — in
    the order the tensors are stored, i.e. for either orientation of the gate (`extend_gate` reverses the list and swaps the
    bond legs when `sites[1] < sites[0]`; the identity tensor is unchanged by that) -/
theorem gate_chain_embed (d chi k : Nat) (A B : Site K) (G : T4 K) (hA : A.dl = 1 ∧ A.dr = chi ∧ A.d = d)
    (hB : B.dl = chi ∧ B.dr = 1 ∧ B.d = d)
    (hsplit : ∀ a, a < d → ∀ b, b < d → ∀ c, c < d → ∀ e, e < d →
      MpoConv.sumTo chi (fun x => A.e a c 0 x * B.e b e x 0) = G a b c e) :
    GoodChain d (k + 2) (A :: (List.replicate k (idBond d chi) ++ [B])) ∧
    chainMat d (k + 2) (A :: (List.replicate k (idBond d chi) ++ [B])) = embed2 d (k + 2) 0 (k + 2 - 1) (gateMat2 d G) := by
  have hchain : ∀ k : Nat, chainFrom chi (List.replicate k (idBond d chi) ++ [B] : List (Site K)) = true ∧
      lastDr chi (List.replicate k (idBond d chi) ++ [B] : List (Site K)) = 1 := by
    intro k
    induction k with
    | zero => simp [chainFrom, lastDr, hB.1, hB.2.1]
    | succ k ih =>
      simp only [List.replicate_succ, List.cons_append, chainFrom, lastDr, idBond, decide_true, Bool.true_and]
      exact ih
  refine ⟨⟨by simp, ?_, ?_, ?_⟩, ?_⟩
  · simp only [chainFrom, hA.1, decide_true, Bool.true_and, hA.2.1]
    exact (hchain k).1
  · simp only [lastDr, hA.2.1]
    exact (hchain k).2
  · intro t ht
    simp only [List.mem_cons, List.mem_append, List.mem_replicate, List.not_mem_nil, or_false] at ht
    rcases ht with rfl | ⟨_, rfl⟩ | rfl
    · exact hA.2.2
    · rfl
    · exact hB.2.2
  · ext σ σ'
    rw [embed2_apply d (k + 2) 0 (k + 2 - 1) (by omega) (by omega) (by omega)]
    simp only [chainMat]
    rw [cfg_ends k σ, cfg_ends k σ', vals_cons, hA.2.1]
    have hmid : ∀ r, r < chi → vals (List.replicate k (idBond d chi) ++ [B])
        (cfg (fun j : Fin k => σ ⟨j + 1, by omega⟩) ++ [(σ ⟨k + 1, by omega⟩ : Nat)])
        (cfg (fun j : Fin k => σ' ⟨j + 1, by omega⟩) ++ [(σ' ⟨k + 1, by omega⟩ : Nat)]) r
        = (if cfg (fun j : Fin k => σ ⟨j + 1, by omega⟩) = cfg (fun j : Fin k => σ' ⟨j + 1, by omega⟩) then 1 else 0)
          * B.e (σ ⟨k + 1, by omega⟩) (σ' ⟨k + 1, by omega⟩) r 0 :=
      fun r hr => vals_idBonds d chi B hB.2.1 _ _ k _ _ (by simp) (by simp) r hr
    rw [Finset.sum_congr rfl fun r hr => by rw [hmid r (Finset.mem_range.mp hr)]]
    have hiff : (cfg (fun j : Fin k => σ ⟨j + 1, by omega⟩) = cfg (fun j : Fin k => σ' ⟨j + 1, by omega⟩)) ↔
        ∀ j : Fin (k + 2), (j : Nat) ≠ 0 → (j : Nat) ≠ k + 2 - 1 → σ j = σ' j := by
      constructor
      · intro hc j hj0 hj1
        have := congrFun (cfg_injective hc) ⟨j - 1, by omega⟩
        simp only at this
        have e : (⟨(j : Nat) - 1 + 1, by omega⟩ : Fin (k + 2)) = j := Fin.ext (by simp; omega)
        rwa [e] at this
      · intro hc
        congr 1
        funext j
        exact hc ⟨j + 1, by omega⟩ (by simp) (by simp; omega)
    by_cases hc : cfg (fun j : Fin k => σ ⟨j + 1, by omega⟩) = cfg (fun j : Fin k => σ' ⟨j + 1, by omega⟩)
    · rw [if_pos (hiff.mp hc)]
      simp only [hc, if_true, one_mul]
      have := hsplit (σ 0) (σ 0).isLt (σ ⟨k + 1, by omega⟩) (σ _).isLt (σ' 0) (σ' 0).isLt (σ' ⟨k + 1, by omega⟩) (σ' _).isLt
      rw [sumTo_eq_sum] at this
      rw [this]
      simp only [gateMat2]
      rfl
    · rw [if_neg (fun h => hc (hiff.mpr h))]
      simp [hc]

end gateChain

/-! ## checkable sufficient conditions for the no-truncation hypotheses (used by the non-vacuity examples) -/

section checkable
variable [CommSemiring K] [StarRing K] [DecidableEq K]

/-- `ExactSteps` evaluated along the run: at every step the kept part of the given SVD data reproduces the block -/
def exactStepsBool (d : Nat) (thr : Rat) (gate1 gate2 : Instr → Gate K) : List (Site K) → List Step → List (Svd K) → Bool
  | ts, s :: ss, dec :: decs =>
    (match ts[s.m]?, ts[s.m + 1]? with
     | some A, some B =>
       match updateTheta star d s.m A B (s.is1.map gate1) (s.is2.map gate2) with
       | some θ' => decide (∀ i, i < d * d * A.dl → ∀ j, j < d * d * B.dr →
           thetaMatrix d A.dl B.dr θ' i j = truncProd (Rank.keepTheta dec.s thr) dec i j)
       | none => true
     | _, _ => true) &&
    (match updateMpo star d thr gate1 gate2 ts s dec with
     | some ts' => exactStepsBool d thr gate1 gate2 ts' ss decs
     | none => true)
  | _, _, _ => true

theorem exactSteps_of_bool (d : Nat) (thr : Rat) (gate1 gate2 : Instr → Gate K) :
    ∀ (ss : List Step) (decs : List (Svd K)) (ts : List (Site K)), exactStepsBool d thr gate1 gate2 ts ss decs = true →
    ExactSteps d thr gate1 gate2 ts ss decs
  | [], _, _, _ => by simp [ExactSteps]
  | _ :: _, [], _, _ => by simp [ExactSteps]
  | s :: ss, dec :: decs, ts, h => by
    simp only [exactStepsBool, Bool.and_eq_true] at h
    obtain ⟨h1, h2⟩ := h
    refine ⟨?_, ?_⟩
    · intro A B θ' hA hB hθ
      rw [hA, hB] at h1
      simp only [hθ, decide_eq_true_eq] at h1
      exact h1
    · intro ts' hts'
      rw [hts'] at h2
      exact exactSteps_of_bool d thr gate1 gate2 ss decs ts' h2

/-- `ExactBlocks` evaluated along the run -/
def exactBlocksBool (d : Nat) (thr : Rat) (gate1 gate2 : Instr → Gate K) :
    List (Site K) → List Blk → List (List (Site K)) → List (Svd K) → Bool
  | ts, Blk.upd s :: bs, gms, dec :: decs =>
    exactStepsBool d thr gate1 gate2 ts [s] [dec] &&
    (match updateMpo star d thr gate1 gate2 ts s dec with
     | some ts' => exactBlocksBool d thr gate1 gate2 ts' bs gms decs
     | none => true)
  | ts, Blk.lr c g ss :: bs, gm :: gms, decs =>
    exactStepsBool d thr gate1 gate2 (lrMul (decide (c = 2)) (lrGateTensors star (decide (c = 2)) gm) (lrLoc g) ts) ss
      (decs.take ss.length) &&
    (match lrLayer star d thr gate1 gate2 ts c g gm ss (decs.take ss.length) with
     | some ts' => exactBlocksBool d thr gate1 gate2 ts' bs gms (decs.drop ss.length)
     | none => true)
  | _, _, _, _ => true

theorem exactBlocks_of_bool (d : Nat) (thr : Rat) (gate1 gate2 : Instr → Gate K) :
    ∀ (bs : List Blk) (gms : List (List (Site K))) (decs : List (Svd K)) (ts : List (Site K)),
    exactBlocksBool d thr gate1 gate2 ts bs gms decs = true → ExactBlocks d thr gate1 gate2 ts bs gms decs
  | [], _, _, _, _ => by simp [ExactBlocks]
  | Blk.upd s :: bs, gms, [], _, _ => by simp [ExactBlocks]
  | Blk.upd s :: bs, gms, dec :: decs, ts, h => by
    simp only [exactBlocksBool, Bool.and_eq_true] at h
    obtain ⟨h1, h2⟩ := h
    refine ⟨exactSteps_of_bool d thr gate1 gate2 [s] [dec] ts h1, ?_⟩
    intro ts' hts'
    rw [hts'] at h2
    exact exactBlocks_of_bool d thr gate1 gate2 bs gms decs ts' h2
  | Blk.lr c g ss :: bs, [], _, _, _ => by simp [ExactBlocks]
  | Blk.lr c g ss :: bs, gm :: gms, decs, ts, h => by
    simp only [exactBlocksBool, Bool.and_eq_true] at h
    obtain ⟨h1, h2⟩ := h
    refine ⟨exactSteps_of_bool d thr gate1 gate2 ss _ _ h1, ?_⟩
    intro ts' hts'
    rw [hts'] at h2
    exact exactBlocks_of_bool d thr gate1 gate2 bs gms _ ts' h2

end checkable

/-! ## scalar multiples of a two-site operator (used by the non-vacuity example of `checker_equal_up_to_phase_lr`) -/

theorem embed2_smul [CommSemiring K] (d n p q : Nat) (hp : p < n) (hq : q < n) (hpq : p ≠ q) (c : K)
    (G : Matrix (Fin d × Fin d) (Fin d × Fin d) K) : embed2 d n p q (c • G) = c • embed2 d n p q G := by
  ext σ τ
  rw [Matrix.smul_apply, embed2_apply d n p q hp hq hpq, embed2_apply d n p q hp hq hpq, Matrix.smul_apply]
  split_ifs <;> simp

end Yaqs.CheckerLR
