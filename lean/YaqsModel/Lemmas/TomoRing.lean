import YaqsModel.Model.Tomo
import Mathlib.Algebra.Ring.Rat
import Mathlib.Algebra.Star.Basic
import Mathlib.Algebra.BigOperators.Fin
import Mathlib.Tactic.Ring
import Mathlib.Tactic.Linarith
import Mathlib.Algebra.Order.Ring.Rat

/-! ring / star-ring structure of the Gaussian rationals of `Basic/CRatT.lean`; `fsum` is `Finset.sum` -/
namespace Yaqs.CRatT

@[ext] theorem ext' {a b : CRatT} (h1 : a.re = b.re) (h2 : a.im = b.im) : a = b := by
  cases a; cases b; simp_all

@[simp] theorem zero_re : (0 : CRatT).re = 0 := rfl
@[simp] theorem zero_im : (0 : CRatT).im = 0 := rfl
@[simp] theorem one_re : (1 : CRatT).re = 1 := rfl
@[simp] theorem one_im : (1 : CRatT).im = 0 := rfl
@[simp] theorem add_re (a b : CRatT) : (a + b).re = a.re + b.re := rfl
@[simp] theorem add_im (a b : CRatT) : (a + b).im = a.im + b.im := rfl
@[simp] theorem neg_re (a : CRatT) : (-a).re = -a.re := rfl
@[simp] theorem neg_im (a : CRatT) : (-a).im = -a.im := rfl
@[simp] theorem sub_re (a b : CRatT) : (a - b).re = a.re - b.re := rfl
@[simp] theorem sub_im (a b : CRatT) : (a - b).im = a.im - b.im := rfl
@[simp] theorem mul_re (a b : CRatT) : (a * b).re = a.re * b.re - a.im * b.im := rfl
@[simp] theorem mul_im (a b : CRatT) : (a * b).im = a.re * b.im + a.im * b.re := rfl
@[simp] theorem conj_re (a : CRatT) : (conj a).re = a.re := rfl
@[simp] theorem conj_im (a : CRatT) : (conj a).im = -a.im := rfl
@[simp] theorem rsmul_re (q : Rat) (a : CRatT) : (rsmul q a).re = q * a.re := rfl
@[simp] theorem rsmul_im (q : Rat) (a : CRatT) : (rsmul q a).im = q * a.im := rfl
@[simp] theorem ofRat_re (q : Rat) : (ofRat q).re = q := rfl
@[simp] theorem ofRat_im (q : Rat) : (ofRat q).im = 0 := rfl

instance : CommRing CRatT where
  add_assoc a b c := by ext <;> simp <;> ring
  zero_add a := by ext <;> simp
  add_zero a := by ext <;> simp
  nsmul := nsmulRec
  zsmul := zsmulRec
  neg_add_cancel a := by ext <;> simp
  add_comm a b := by ext <;> simp <;> ring
  mul_assoc a b c := by ext <;> simp <;> ring
  one_mul a := by ext <;> simp
  mul_one a := by ext <;> simp
  left_distrib a b c := by ext <;> simp <;> ring
  right_distrib a b c := by ext <;> simp <;> ring
  zero_mul a := by ext <;> simp
  mul_zero a := by ext <;> simp
  mul_comm a b := by ext <;> simp <;> ring
  sub_eq_add_neg a b := by ext <;> simp <;> ring

instance : StarRing CRatT where
  star := conj
  star_involutive a := by ext <;> simp
  star_mul a b := by ext <;> simp <;> ring
  star_add a b := by ext <;> simp; ring

@[simp] theorem star_def (a : CRatT) : star a = conj a := rfl

theorem rsmul_eq_mul (q : Rat) (a : CRatT) : rsmul q a = ofRat q * a := by ext <;> simp

theorem normSq_eq_zero {a : CRatT} (h : normSq a = 0) : a = 0 := by
  unfold normSq at h
  have h1 : a.re * a.re = 0 := by nlinarith [mul_self_nonneg a.re, mul_self_nonneg a.im]
  have h2 : a.im * a.im = 0 := by nlinarith [mul_self_nonneg a.re, mul_self_nonneg a.im]
  ext
  · simpa using h1
  · simpa using h2

theorem normSq_nonneg (a : CRatT) : 0 ≤ normSq a := by
  unfold normSq; nlinarith [mul_self_nonneg a.re, mul_self_nonneg a.im]

end Yaqs.CRatT

namespace Yaqs

theorem fsum_eq_sum {α : Type} [AddCommMonoid α] (n : Nat) (f : Fin n → α) : fsum n f = ∑ i, f i := by
  induction n with
  | zero => simp [fsum]
  | succ n ih => rw [fsum, ih, Fin.sum_univ_succ]

end Yaqs
