import YaqsModel.Lemmas.Mps
import Mathlib.Algebra.Order.Ring.Rat
import Mathlib.Algebra.Star.Basic
import Mathlib.Algebra.BigOperators.Fin
import Mathlib.Tactic.Ring
import Mathlib.Data.List.Chain

/-!
# Bridge from the executable list model (`Model/Mps.lean`) to the `Matrix` statements of C10

The correspondence check runs the *list* model (`Tensor = List (List (List CRat))`, `amp`, `shiftRightQR`, `flip`,
`padAll`) against the real code; the theorems of `Props/C10.lean` are about `σ → Matrix ι ι K`.  This file connects the
two inside Lean:

* `CRat` (the Gaussian rationals of `Basic/CRatM.lean`) is a commutative ring;
* `toMat n m` reads a list matrix as a `Matrix (Fin n) (Fin n) CRat` — entries outside the list are `0`, i.e. every
  bond is zero-padded into the uniform index type `Fin n`; `toSite n t`, `toMatrixChain n ts` do the same for a site
  tensor (physical index `Nat`, out of range ↦ zero matrix) and a chain;
* `toMat_matMul` : the list product is the matrix product;
* `amp_eq_chain` : for every length and every well-shaped tensor list the amplitude of the list model is the `(0,0)`
  entry of `Alg.chain (toMatrixChain n ts) cfg`;
* `shiftRightQR_bridge`, `flip_bridge`, `pad_bridge` : each executable move maps to its `Matrix` counterpart.
-/

namespace Yaqs.Mps

/-! ### ring structure of the model's number type -/

namespace CRat

theorem ext {a b : CRat} (hr : a.re = b.re) (hi : a.im = b.im) : a = b := by
  cases a; cases b; simp_all

@[simp] theorem zero_re : (0 : CRat).re = 0 := rfl
@[simp] theorem zero_im : (0 : CRat).im = 0 := rfl
@[simp] theorem one_re : (1 : CRat).re = 1 := rfl
@[simp] theorem one_im : (1 : CRat).im = 0 := rfl
@[simp] theorem add_re (a b : CRat) : (a + b).re = a.re + b.re := rfl
@[simp] theorem add_im (a b : CRat) : (a + b).im = a.im + b.im := rfl
@[simp] theorem neg_re (a : CRat) : (-a).re = -a.re := rfl
@[simp] theorem neg_im (a : CRat) : (-a).im = -a.im := rfl
@[simp] theorem sub_re (a b : CRat) : (a - b).re = a.re - b.re := rfl
@[simp] theorem sub_im (a b : CRat) : (a - b).im = a.im - b.im := rfl
@[simp] theorem mul_re (a b : CRat) : (a * b).re = a.re * b.re - a.im * b.im := rfl
@[simp] theorem mul_im (a b : CRat) : (a * b).im = a.re * b.im + a.im * b.re := rfl
@[simp] theorem conj_re (a : CRat) : (conj a).re = a.re := rfl
@[simp] theorem conj_im (a : CRat) : (conj a).im = -a.im := rfl

instance : CommRing CRat where
  add := (· + ·)
  add_assoc a b c := by apply ext <;> simp <;> ring
  zero := 0
  zero_add a := by apply ext <;> simp
  add_zero a := by apply ext <;> simp
  nsmul := nsmulRec
  neg := Neg.neg
  sub := Sub.sub
  sub_eq_add_neg a b := by apply ext <;> simp <;> ring
  zsmul := zsmulRec
  neg_add_cancel a := by apply ext <;> simp
  add_comm a b := by apply ext <;> simp <;> ring
  mul := (· * ·)
  left_distrib a b c := by apply ext <;> simp <;> ring
  right_distrib a b c := by apply ext <;> simp <;> ring
  zero_mul a := by apply ext <;> simp
  mul_zero a := by apply ext <;> simp
  mul_assoc a b c := by apply ext <;> simp <;> ring
  one := 1
  one_mul a := by apply ext <;> simp
  mul_one a := by apply ext <;> simp
  mul_comm a b := by apply ext <;> simp <;> ring

instance : StarRing CRat where
  star := conj
  star_involutive a := by apply ext <;> simp
  star_mul a b := by apply ext <;> simp <;> ring
  star_add a b := by
    apply ext
    · simp
    · simp; ring

theorem star_def (a : CRat) : star a = conj a := rfl

end CRat

/-! ### list matrices as `Matrix (Fin n) (Fin n) CRat` -/

/-- read a list matrix as an `n × n` matrix; positions outside the list are `0` (zero padding of both bonds) -/
def toMat (n : Nat) (m : Mat) : Matrix (Fin n) (Fin n) CRat := Matrix.of fun i j => entry m i.val j.val

@[simp] theorem toMat_apply (n : Nat) (m : Mat) (i j : Fin n) : toMat n m i j = entry m i.val j.val := rfl

/-- every row has the length of the first one -/
def Rect (m : Mat) : Prop := ∀ row ∈ m, row.length = ncols m

theorem csum_eq_sum (l : List CRat) : csum l = l.sum := by
  induction l with
  | nil => rfl
  | cons a l ih => simp [csum, List.foldr_cons] at ih ⊢; rw [← ih]

/-- the list dot product is the padded finite sum (the shorter list decides, the padding adds zeros) -/
theorem dot_eq_sum (u v : List CRat) (n : Nat) (h : min u.length v.length ≤ n) :
    dot u v = ∑ k ∈ Finset.range n, u.getD k 0 * v.getD k 0 := by
  unfold dot
  rw [csum_eq_sum]
  induction u generalizing v n with
  | nil => simp
  | cons a u ih =>
    cases v with
    | nil => simp
    | cons b v =>
      cases n with
      | zero => simp at h
      | succ n =>
        rw [Finset.sum_range_succ']
        simp only [List.zipWith_cons_cons, List.sum_cons, List.getD_cons_succ, List.getD_cons_zero]
        rw [ih v n (by simpa using h), add_comm]

theorem entry_nil (i j : Nat) : entry [] i j = 0 := by simp [entry]

theorem entry_of_le_rows (m : Mat) (i j : Nat) (h : m.length ≤ i) : entry m i j = 0 := by
  simp [entry, List.getD_eq_getElem?_getD, List.getElem?_eq_none h]

theorem entry_of_lt (m : Mat) (i j : Nat) (h : i < m.length) : entry m i j = (m[i]).getD j 0 := by
  simp [entry, List.getD_eq_getElem?_getD, List.getElem?_eq_getElem h]

theorem entry_of_le_cols (m : Mat) (hr : ∀ row ∈ m, row.length ≤ ncols m) (i j : Nat) (h : ncols m ≤ j) :
    entry m i j = 0 := by
  by_cases hi : i < m.length
  · rw [entry_of_lt m i j hi]
    have := hr m[i] (List.getElem_mem hi)
    simp [List.getD_eq_getElem?_getD, List.getElem?_eq_none (by omega : (m[i]).length ≤ j)]
  · exact entry_of_le_rows m i j (by omega)

theorem col_getD (m : Mat) (j k : Nat) : (col m j).getD k 0 = entry m k j := by
  unfold col entry
  by_cases hk : k < m.length
  · simp [List.getD_eq_getElem?_getD, List.getElem?_eq_getElem hk]
  · simp [List.getD_eq_getElem?_getD, List.getElem?_eq_none (by omega : m.length ≤ k)]

@[simp] theorem col_length (m : Mat) (j : Nat) : (col m j).length = m.length := by simp [col]

theorem matMul_length (a b : Mat) : (matMul a b).length = a.length := by simp [matMul]

theorem matMul_row_length (a b : Mat) : ∀ row ∈ matMul a b, row.length = ncols b := by
  intro row h
  simp only [matMul, List.mem_map] at h
  obtain ⟨r, _, rfl⟩ := h
  simp

theorem ncols_matMul (a b : Mat) (ha : a ≠ []) : ncols (matMul a b) = ncols b := by
  cases a with
  | nil => exact absurd rfl ha
  | cons r a => simp [matMul, ncols]

theorem rect_matMul (a b : Mat) : Rect (matMul a b) := by
  intro row h
  cases a with
  | nil => simp [matMul] at h
  | cons r a => rw [ncols_matMul _ _ (by simp)]; exact matMul_row_length _ _ row h

theorem entry_matMul (a b : Mat) (i j : Nat) :
    entry (matMul a b) i j = if i < a.length ∧ j < ncols b then dot (a.getD i []) (col b j) else 0 := by
  by_cases hi : i < a.length
  · rw [entry_of_lt _ _ _ (by simpa [matMul_length] using hi)]
    by_cases hj : j < ncols b
    · simp [matMul, hi, hj, List.getD_eq_getElem?_getD]
    · simp [matMul, hi, hj, List.getD_eq_getElem?_getD]
  · rw [entry_of_le_rows _ _ _ (by simpa [matMul_length] using hi)]
    simp [hi]

/-- **the list product is the matrix product** (zero padding into `Fin n`): it is enough that the rows of the left
    factor fit into `n` and that the right factor is rectangular; the inner dimensions need not even agree (both sides
    then silently use the shorter one). -/
theorem toMat_matMul (n : Nat) (a b : Mat) (ha : ∀ row ∈ a, row.length ≤ n) (hb : ∀ row ∈ b, row.length ≤ ncols b) :
    toMat n (matMul a b) = toMat n a * toMat n b := by
  ext i j
  rw [toMat_apply, entry_matMul, Matrix.mul_apply]
  simp only [toMat_apply]
  rw [Fin.sum_univ_eq_sum_range (fun k : Nat => entry a i.val k * entry b k j.val) n]
  by_cases hi : i.val < a.length
  · by_cases hj : j.val < ncols b
    · rw [if_pos ⟨hi, hj⟩, dot_eq_sum _ _ n]
      · refine Finset.sum_congr rfl fun k _ => ?_
        rw [col_getD, entry_of_lt a _ _ hi]
        simp [List.getD_eq_getElem?_getD, List.getElem?_eq_getElem hi]
      · have := ha (a[i.val]) (List.getElem_mem hi)
        simp [List.getD_eq_getElem?_getD, List.getElem?_eq_getElem hi]
        omega
    · rw [if_neg (by tauto)]
      symm
      refine Finset.sum_eq_zero fun k _ => ?_
      rw [entry_of_le_cols b hb k _ (by omega), mul_zero]
  · rw [if_neg (by tauto)]
    symm
    refine Finset.sum_eq_zero fun k _ => ?_
    rw [entry_of_le_rows a _ _ (by omega), zero_mul]

/-! ### site tensors and chains -/

/-- a site tensor as `physical index ↦ n × n matrix`; a physical index outside the tensor gives the zero matrix -/
def toSite (n : Nat) (t : Tensor) : Alg.Site Nat (Fin n) CRat := fun s => toMat n (t.getD s [])

/-- **the bridge map**: the list model's tensors, every bond zero-padded into the uniform `Fin n`, as the
    Matrix-valued site tensors the theorems of `Props/C10.lean` are about -/
def toMatrixChain (n : Nat) (ts : List Tensor) : List (Alg.Site Nat (Fin n) CRat) := ts.map (toSite n)

@[simp] theorem toMatrixChain_length (n : Nat) (ts : List Tensor) : (toMatrixChain n ts).length = ts.length := by
  simp [toMatrixChain]

theorem toMat_nil (n : Nat) : toMat n [] = 0 := by
  ext i j; simp [entry_nil]

theorem toSite_of_lt (n : Nat) (t : Tensor) (s : Nat) (h : s < t.length) : toSite n t s = toMat n t[s] := by
  simp [toSite, List.getD_eq_getElem?_getD, List.getElem?_eq_getElem h]

theorem toSite_of_le (n : Nat) (t : Tensor) (s : Nat) (h : t.length ≤ s) : toSite n t s = 0 := by
  simp [toSite, List.getD_eq_getElem?_getD, List.getElem?_eq_none h, toMat_nil]

/-- a configuration is valid for a chain: same length, every physical index inside its tensor (decidable) -/
def cfgOK : List Tensor → List Nat → Bool
  | [], [] => true
  | t :: ts, s :: cfg => decide (s < t.length) && cfgOK ts cfg
  | _, _ => false

/-- right bond dimension of the last tensor (`0` for the empty chain) -/
def lastRight : List Tensor → Nat
  | [] => 0
  | [t] => rightDim t
  | _ :: t :: ts => lastRight (t :: ts)

/-- consecutive bonds agree -/
def bondsMatch : List Tensor → Bool
  | a :: b :: rest => rightDim a == leftDim b && bondsMatch (b :: rest)
  | _ => true

/-- **well-shapedness of a chain** for the bond bound `n` (an explicit decidable predicate): every tensor is a
    `(phys, left, right)` block with all dimensions `≥ 1` (`wellShaped`), bonds fit into `n`, consecutive bonds agree,
    and the two boundary bonds have dimension 1 — what `MPS.__init__` / `to_vec` of the code work with. -/
def wellShapedChain (n : Nat) (ts : List Tensor) : Bool :=
  ts.all (fun t => wellShaped t && decide (leftDim t ≤ n) && decide (rightDim t ≤ n)) &&
    bondsMatch ts && leftDim (ts.headD []) == 1 && lastRight ts == 1

theorem wellShaped_iff (t : Tensor) :
    wellShaped t = true ↔ 1 ≤ t.length ∧ 1 ≤ leftDim t ∧ 1 ≤ rightDim t ∧
      ∀ m ∈ t, m.length = leftDim t ∧ ∀ row ∈ m, row.length = rightDim t := by
  simp [wellShaped, List.all_eq_true, and_assoc]

theorem ncols_of_wellShaped {t : Tensor} (h : wellShaped t = true) {m : Mat} (hm : m ∈ t) : ncols m = rightDim t := by
  obtain ⟨_, hl, _, hall⟩ := (wellShaped_iff t).mp h
  obtain ⟨hml, hrows⟩ := hall m hm
  cases m with
  | nil => simp at hml; omega
  | cons r m => simpa [ncols] using hrows r (by simp)

theorem wellShapedChain_iff (n : Nat) (ts : List Tensor) :
    wellShapedChain n ts = true ↔
      (∀ t ∈ ts, wellShaped t = true ∧ leftDim t ≤ n ∧ rightDim t ≤ n) ∧ bondsMatch ts = true ∧
        leftDim (ts.headD []) = 1 ∧ lastRight ts = 1 := by
  simp [wellShapedChain, List.all_eq_true, and_assoc]

theorem cfgOK_length : ∀ (ts : List Tensor) (cfg : List Nat), cfgOK ts cfg = true → cfg.length = ts.length
  | [], [], _ => rfl
  | [], _ :: _, h => by simp [cfgOK] at h
  | _ :: _, [], h => by simp [cfgOK] at h
  | t :: ts, s :: cfg, h => by
    simp only [cfgOK, Bool.and_eq_true] at h
    simp [cfgOK_length ts cfg h.2]

/-- **the chain product of the list model is the matrix chain product**, with the shape of the result -/
theorem chainMat_bridge (n : Nat) : ∀ (ts : List Tensor) (cfg : List Nat),
    (∀ t ∈ ts, wellShaped t = true ∧ rightDim t ≤ n) → cfgOK ts cfg = true → ts ≠ [] →
    ∃ m, chainMat ts cfg = some m ∧ toMat n m = Alg.chain (toMatrixChain n ts) cfg ∧
      m.length = leftDim (ts.headD []) ∧ ∀ row ∈ m, row.length = lastRight ts := by
  intro ts
  induction ts with
  | nil => intro _ _ _ h; exact absurd rfl h
  | cons t ts ih =>
    intro cfg hws hcfg _
    match cfg, hcfg with
    | s :: cfg, hcfg =>
      simp only [cfgOK, Bool.and_eq_true, decide_eq_true_eq] at hcfg
      obtain ⟨hs, hcfg⟩ := hcfg
      have ht := (hws t (by simp)).1
      obtain ⟨_, _, _, hall⟩ := (wellShaped_iff t).mp ht
      obtain ⟨hlen, hrows⟩ := hall t[s] (List.getElem_mem hs)
      cases ts with
      | nil =>
        match cfg, hcfg with
        | [], _ =>
          refine ⟨t[s], by simp [chainMat, hs], ?_, by simpa using hlen, by simpa [lastRight] using hrows⟩
          simp [toMatrixChain, Alg.chain_cons, toSite_of_lt n t s hs]
      | cons t' ts' =>
        match cfg, hcfg with
        | s' :: cfg', hcfg' =>
          obtain ⟨rest, hrest, hmat, _, hrr⟩ := ih (s' :: cfg') (fun u hu => hws u (by simp [hu])) hcfg' (by simp)
          refine ⟨matMul t[s] rest, ?_, ?_, ?_, ?_⟩
          · simp [chainMat, hs, hrest]
          · rw [toMat_matMul n _ _ (fun row hrow => by rw [hrows row hrow]; exact (hws t (by simp)).2)
              (fun row hrow => ?_)]
            · simp only [toMatrixChain, List.map_cons, Alg.chain_cons] at hmat ⊢
              rw [hmat, toSite_of_lt n t s hs]
            · -- `rest` is rectangular: all rows have length `lastRight`
              cases rest with
              | nil => simp at hrow
              | cons r0 rest0 =>
                rw [hrr row hrow]
                simp [ncols, hrr r0 (by simp)]
          · simpa [matMul_length] using hlen
          · intro row hrow
            rw [matMul_row_length _ _ row hrow]
            -- `ncols rest = lastRight`
            have hrl : rest.length = leftDim t' := by simpa using ‹rest.length = leftDim ((t' :: ts').headD [])›
            have hl1 : 1 ≤ leftDim t' := ((wellShaped_iff t').mp (hws t' (by simp)).1).2.1
            cases rest with
            | nil => simp at hrl; omega
            | cons r0 rest0 => simp [ncols, lastRight, hrr r0 (by simp)]

/-- core form of `amp_eq_chain` (no bond matching, no bound on the left bonds needed) -/
theorem amp_eq_chain_core (n : Nat) (hn : 0 < n) (ts : List Tensor) (cfg : List Nat)
    (hall : ∀ t ∈ ts, wellShaped t = true ∧ rightDim t ≤ n) (hhead : leftDim (ts.headD []) = 1)
    (hlast : lastRight ts = 1) (hcfg : cfgOK ts cfg = true) :
    amp ts cfg = some (Alg.chain (toMatrixChain n ts) cfg ⟨0, hn⟩ ⟨0, hn⟩) := by
  have hne : ts ≠ [] := by
    intro h; subst h; simp [lastRight] at hlast
  obtain ⟨m, hm, hmat, hml, hrows⟩ := chainMat_bridge n ts cfg hall hcfg hne
  rw [← hmat]
  unfold amp
  rw [hm]
  match m, hml, hrows with
  | [row], _, hrows =>
    have := hrows row (by simp)
    rw [hlast] at this
    match row, this with
    | [x], _ => simp [entry]
  | [], hml, _ => rw [hhead] at hml; simp at hml
  | _ :: _ :: _, hml, _ => rw [hhead] at hml; simp at hml

/-- **`amp_eq_chain`** — for every chain length and every well-shaped tensor list, the amplitude computed by the
    executable list model is the `(0,0)` entry of the chain product of the padded matrices. -/
theorem amp_eq_chain (n : Nat) (hn : 0 < n) (ts : List Tensor) (cfg : List Nat)
    (hws : wellShapedChain n ts = true) (hcfg : cfgOK ts cfg = true) :
    amp ts cfg = some (Alg.chain (toMatrixChain n ts) cfg ⟨0, hn⟩ ⟨0, hn⟩) := by
  obtain ⟨hall, _, hhead, hlast⟩ := (wellShapedChain_iff n ts).mp hws
  exact amp_eq_chain_core n hn ts cfg (fun t ht => ⟨(hall t ht).1, (hall t ht).2.2⟩) hhead hlast hcfg

/-! ### shape bookkeeping shared by the moves -/

/-- a tensor all of whose slices are `l × r` blocks (`l, r ≥ 1`, at least one slice) is well-shaped with these dimensions -/
theorem wellShaped_of_shape (t : Tensor) (l r : Nat) (h1 : 1 ≤ t.length) (hl : 1 ≤ l) (hr : 1 ≤ r)
    (hall : ∀ m ∈ t, m.length = l ∧ ∀ row ∈ m, row.length = r) :
    wellShaped t = true ∧ leftDim t = l ∧ rightDim t = r := by
  match t, h1 with
  | m0 :: t', _ =>
    obtain ⟨hm0, hrows0⟩ := hall m0 (by simp)
    have hL : leftDim (m0 :: t') = l := by simpa [leftDim, nrows] using hm0
    have hR : rightDim (m0 :: t') = r := by
      match m0, hm0, hrows0 with
      | r0 :: m0', _, hrows0 => simpa [rightDim, ncols] using hrows0 r0 (by simp)
      | [], hm0, _ => simp at hm0; omega
    refine ⟨(wellShaped_iff _).mpr ⟨by simp, by omega, by omega, ?_⟩, hL, hR⟩
    rw [hL, hR]; exact hall

theorem lastRight_append (pre ts : List Tensor) (h : ts ≠ []) : lastRight (pre ++ ts) = lastRight ts := by
  induction pre with
  | nil => rfl
  | cons p pre ih =>
    cases hp : pre ++ ts with
    | nil => simp at hp; exact absurd hp.2 h
    | cons x rest => rw [List.cons_append, hp, lastRight, ← hp, ih]

theorem lastRight_cons_congr (y y' : Tensor) (post : List Tensor) (h : rightDim y = rightDim y') :
    lastRight (y :: post) = lastRight (y' :: post) := by
  cases post with
  | nil => simpa [lastRight] using h
  | cons z post => rfl

theorem cfgOK_congr : ∀ (ts ts' : List Tensor) (cfg : List Nat), ts.map List.length = ts'.map List.length →
    cfgOK ts cfg = cfgOK ts' cfg
  | [], [], _, _ => rfl
  | [], _ :: _, _, h => by simp at h
  | _ :: _, [], _, h => by simp at h
  | t :: ts, t' :: ts', [], _ => rfl
  | t :: ts, t' :: ts', s :: cfg, h => by
    simp only [List.map_cons, List.cons.injEq] at h
    simp only [cfgOK, h.1, cfgOK_congr ts ts' cfg h.2]

/-! ### the QR centre shift -/

theorem chunks_map {α β} (f : α → β) (n : Nat) (l : List α) : chunks n (l.map f) = (chunks n l).map (List.map f) := by
  simp [chunks, List.map_drop, List.map_take]

theorem drop_flatten_uniform {α} (n : Nat) : ∀ (i : Nat) (a : List (List α)), (∀ m ∈ a, m.length = n) →
    a.flatten.drop (i * n) = (a.drop i).flatten
  | 0, a, _ => by simp
  | i + 1, [], _ => by simp
  | i + 1, m :: a, h => by
    have hm : m.length = n := h m (by simp)
    have : (i + 1) * n = m.length + i * n := by rw [hm]; ring
    rw [List.flatten_cons, this, List.drop_length_add_append, List.drop_succ_cons]
    exact drop_flatten_uniform n i a (fun m' hm' => h m' (by simp [hm']))

theorem length_flatten_uniform {α} (n : Nat) : ∀ (a : List (List α)), (∀ m ∈ a, m.length = n) →
    a.flatten.length = a.length * n
  | [], _ => by simp
  | m :: a, h => by
    rw [List.flatten_cons, List.length_append, length_flatten_uniform n a (fun m' hm' => h m' (by simp [hm'])),
      h m (by simp), List.length_cons]
    ring

/-- `reshape(phys * left, right)` followed by `reshape(phys, left, ·)` is the identity -/
theorem chunks_flatten {α} (n : Nat) (hn : 0 < n) (a : List (List α)) (h : ∀ m ∈ a, m.length = n) :
    chunks n a.flatten = a := by
  have hlen : a.flatten.length / n = a.length := by
    rw [length_flatten_uniform n a h]; exact Nat.mul_div_cancel _ hn
  apply List.ext_getElem
  · simp only [chunks, List.length_map, List.length_range]; exact hlen
  · intro i h1 h2
    simp only [chunks, List.getElem_map, List.getElem_range]
    rw [drop_flatten_uniform n i a h, List.drop_eq_getElem_cons h2, List.flatten_cons]
    have := h a[i] (List.getElem_mem h2)
    rw [← this, List.take_left']
    rfl

theorem mem_chunks {α} (n : Nat) (l : List α) (c : List α) (hc : c ∈ chunks n l) : ∀ x ∈ c, x ∈ l := by
  simp only [chunks, List.mem_map, List.mem_range] at hc
  obtain ⟨i, _, rfl⟩ := hc
  intro x hx
  exact List.mem_of_mem_drop (List.mem_of_mem_take hx)

/-- `A = Q · R` on the flattened matrices means `A[s] = Q[s] · R` slice by slice (list level) -/
theorem shiftQR_slices (a : Tensor) (q r : Mat) (ha : wellShaped a = true) (hqr : matMul q r = flattenRows a) :
    a = (reshapeRows (leftDim a) q).map (fun qs => matMul qs r) := by
  obtain ⟨_, hl, _, hall⟩ := (wellShaped_iff a).mp ha
  have h1 : chunks (leftDim a) (flattenRows a) = a := chunks_flatten _ hl a (fun m hm => (hall m hm).1)
  rw [← hqr] at h1
  unfold matMul at h1
  rw [chunks_map] at h1
  conv_lhs => rw [← h1]
  rfl

/-- **`shiftRightQR_bridge`, first half** — with `A = Q·R` entrywise (`matMul q r = flattenRows a`, what `np.linalg.qr`
    returns up to rounding), the new left tensor of the executable shift is a `Q` with `A s = Q s * R` in the Matrix
    sense: exactly the hypothesis `hA` of `c10_shift_right_QR`. -/
theorem shiftRightQR_bridge_left (n : Nat) (a b : Tensor) (q r : Mat) (ha : wellShaped a = true)
    (hqr : matMul q r = flattenRows a) (hq : ∀ row ∈ q, row.length ≤ n) (hr : ∀ row ∈ r, row.length ≤ ncols r) (s : Nat) :
    toSite n a s = toSite n (shiftRightQR a b q r).1 s * toMat n r := by
  have hsl := shiftQR_slices a q r ha hqr
  have hlen : (reshapeRows (leftDim a) q).length = a.length := by
    have := congrArg List.length hsl
    simpa using this.symm
  show toSite n a s = toSite n (reshapeRows (leftDim a) q) s * toMat n r
  by_cases hs : s < a.length
  · have hs' : s < (reshapeRows (leftDim a) q).length := by omega
    rw [toSite_of_lt n _ s hs', toSite_of_lt n a s hs]
    have : a[s] = matMul (reshapeRows (leftDim a) q)[s] r := by
      have := List.getElem_of_eq hsl hs
      simpa using this
    rw [this]
    refine toMat_matMul n _ r (fun row hrow => hq row ?_) hr
    exact mem_chunks _ q _ (List.getElem_mem hs') row hrow
  · rw [toSite_of_le n a s (by omega), toSite_of_le n _ s (by omega), Matrix.zero_mul]

/-- **`shiftRightQR_bridge`, second half** — the new right tensor of the executable shift (`"ij, ajc->aic"`) is the
    Matrix-level `R * B s`. -/
theorem shiftRightQR_bridge_right (n : Nat) (a b : Tensor) (q r : Mat) (hb : wellShaped b = true)
    (hr : ∀ row ∈ r, row.length ≤ n) (s : Nat) :
    toSite n (shiftRightQR a b q r).2 s = toMat n r * toSite n b s := by
  show toSite n (contractLeft r b) s = toMat n r * toSite n b s
  by_cases hs : s < b.length
  · rw [toSite_of_lt n b s hs, toSite_of_lt n _ s (by simpa [contractLeft] using hs)]
    simp only [contractLeft, List.getElem_map]
    refine toMat_matMul n r _ hr (fun row hrow => ?_)
    have hm := List.getElem_mem hs
    rw [ncols_of_wellShaped hb hm]
    exact le_of_eq (((wellShaped_iff b).mp hb).2.2.2 _ hm |>.2 row hrow)
  · rw [toSite_of_le n b s (by omega), toSite_of_le n _ s (by simpa [contractLeft] using hs), Matrix.mul_zero]

/-- **`shiftRightQR_bridge`** — the list-level `shiftRightQR A B Q R` maps to the Matrix-level replacement
    `A, B ↦ Q, R * B` inside any chain. -/
theorem shiftRightQR_bridge (n : Nat) (pre post : List Tensor) (a b : Tensor) (q r : Mat) (hb : wellShaped b = true)
    (hr : ∀ row ∈ r, row.length ≤ n) :
    toMatrixChain n (pre ++ (shiftRightQR a b q r).1 :: (shiftRightQR a b q r).2 :: post) =
      toMatrixChain n pre ++ toSite n (shiftRightQR a b q r).1 :: (fun u => toMat n r * toSite n b u) ::
        toMatrixChain n post := by
  simp only [toMatrixChain, List.map_append, List.map_cons]
  congr 3
  funext s
  exact shiftRightQR_bridge_right n a b q r hb hr s

/-- shape of the QR factors handed to `shiftRightQR` (decidable): `r` is `k × rightDim a` with `1 ≤ k ≤ n`, and all
    rows of `q` have length `k` — what `np.linalg.qr(mode="reduced")` returns for the `(phys·left) × right` matrix -/
def qrShaped (n : Nat) (a : Tensor) (q r : Mat) : Bool :=
  decide (1 ≤ r.length) && decide (r.length ≤ n) && q.all (fun row => row.length == r.length) &&
    r.all (fun row => row.length == rightDim a)

theorem qrShaped_iff (n : Nat) (a : Tensor) (q r : Mat) :
    qrShaped n a q r = true ↔ 1 ≤ r.length ∧ r.length ≤ n ∧ (∀ row ∈ q, row.length = r.length) ∧
      ∀ row ∈ r, row.length = rightDim a := by
  simp [qrShaped, List.all_eq_true, and_assoc]

/-- the new left tensor of the executable QR shift is a `(phys, left, k)` block -/
theorem shiftRightQR_shape_left (a b : Tensor) (q r : Mat) (ha : wellShaped a = true) (hqr : matMul q r = flattenRows a)
    (hk : 1 ≤ r.length) (hq : ∀ row ∈ q, row.length = r.length) :
    wellShaped (shiftRightQR a b q r).1 = true ∧ leftDim (shiftRightQR a b q r).1 = leftDim a ∧
      rightDim (shiftRightQR a b q r).1 = r.length ∧ (shiftRightQR a b q r).1.length = a.length := by
  have hsl := shiftQR_slices a q r ha hqr
  obtain ⟨h1, hl, _, hall⟩ := (wellShaped_iff a).mp ha
  have hlen : (reshapeRows (leftDim a) q).length = a.length := by
    have := congrArg List.length hsl
    simpa using this.symm
  show wellShaped (reshapeRows (leftDim a) q) = true ∧ leftDim (reshapeRows (leftDim a) q) = leftDim a ∧
      rightDim (reshapeRows (leftDim a) q) = r.length ∧ (reshapeRows (leftDim a) q).length = a.length
  have := wellShaped_of_shape (reshapeRows (leftDim a) q) (leftDim a) r.length (by omega) hl hk (fun m hm => ?_)
  · exact ⟨this.1, this.2.1, this.2.2, hlen⟩
  · obtain ⟨s, hs, rfl⟩ := List.getElem_of_mem hm
    refine ⟨?_, fun row hrow => hq row (mem_chunks _ q _ (List.getElem_mem hs) row hrow)⟩
    have hs' : s < a.length := by omega
    have h2 : a[s] = matMul (reshapeRows (leftDim a) q)[s] r := by
      have := List.getElem_of_eq hsl hs'
      simpa using this
    have h3 := (hall a[s] (List.getElem_mem hs')).1
    rw [h2, matMul_length] at h3
    exact h3

/-- the new right tensor of the executable QR shift is a `(phys, k, right)` block -/
theorem shiftRightQR_shape_right (a b : Tensor) (q r : Mat) (hb : wellShaped b = true) (hk : 1 ≤ r.length) :
    wellShaped (shiftRightQR a b q r).2 = true ∧ leftDim (shiftRightQR a b q r).2 = r.length ∧
      rightDim (shiftRightQR a b q r).2 = rightDim b ∧ (shiftRightQR a b q r).2.length = b.length := by
  obtain ⟨h1, _, hr1, hall⟩ := (wellShaped_iff b).mp hb
  show wellShaped (contractLeft r b) = true ∧ leftDim (contractLeft r b) = r.length ∧
      rightDim (contractLeft r b) = rightDim b ∧ (contractLeft r b).length = b.length
  have := wellShaped_of_shape (contractLeft r b) r.length (rightDim b) (by simpa [contractLeft] using h1) hk hr1
    (fun m hm => ?_)
  · exact ⟨this.1, this.2.1, this.2.2, by simp [contractLeft]⟩
  · simp only [contractLeft, List.mem_map] at hm
    obtain ⟨m0, hm0, rfl⟩ := hm
    refine ⟨matMul_length _ _, fun row hrow => ?_⟩
    rw [matMul_row_length _ _ row hrow, ncols_of_wellShaped hb hm0]

theorem headD_append_cons (pre : List Tensor) (x : Tensor) (rest : List Tensor) :
    (pre ++ x :: rest).headD [] = if pre = [] then x else pre.headD [] := by
  cases pre <;> simp

/-- **amplitudes after the executable QR shift, read on the Matrix side**: for a well-shaped chain, well-shaped QR
    factors with `A = Q·R`, the amplitude of the *shifted list chain* is the `(0,0)` entry of the Matrix chain in which
    `A, B` are replaced by `Q, R * B`. -/
theorem amp_shiftRightQR_eq_chain (n : Nat) (hn : 0 < n) (pre post : List Tensor) (a b : Tensor) (q r : Mat)
    (hws : wellShapedChain n (pre ++ a :: b :: post) = true) (hqs : qrShaped n a q r = true)
    (hqr : matMul q r = flattenRows a) (cfg : List Nat) (hcfg : cfgOK (pre ++ a :: b :: post) cfg = true) :
    amp (pre ++ (shiftRightQR a b q r).1 :: (shiftRightQR a b q r).2 :: post) cfg =
      some (Alg.chain (toMatrixChain n pre ++ toSite n (shiftRightQR a b q r).1 ::
        (fun u => toMat n r * toSite n b u) :: toMatrixChain n post) cfg ⟨0, hn⟩ ⟨0, hn⟩) := by
  obtain ⟨hall, _, hhead, hlast⟩ := (wellShapedChain_iff n _).mp hws
  obtain ⟨hk1, hkn, hq, hr⟩ := (qrShaped_iff n a q r).mp hqs
  have ha := (hall a (by simp)).1
  have hb := (hall b (by simp)).1
  obtain ⟨hQ, hQl, hQr, hQn⟩ := shiftRightQR_shape_left a b q r ha hqr hk1 hq
  obtain ⟨hB, hBl, hBr, hBn⟩ := shiftRightQR_shape_right a b q r hb hk1
  rw [← shiftRightQR_bridge n pre post a b q r hb (fun row hrow => by rw [hr row hrow]; exact (hall a (by simp)).2.2)]
  refine amp_eq_chain_core n hn _ cfg ?_ ?_ ?_ ?_
  · intro t ht
    simp only [List.mem_append, List.mem_cons] at ht
    rcases ht with ht | rfl | rfl | ht
    · exact ⟨(hall t (by simp [ht])).1, (hall t (by simp [ht])).2.2⟩
    · exact ⟨hQ, by omega⟩
    · exact ⟨hB, by rw [hBr]; exact (hall b (by simp)).2.2⟩
    · exact ⟨(hall t (by simp [ht])).1, (hall t (by simp [ht])).2.2⟩
  · rw [headD_append_cons] at hhead ⊢
    by_cases hp : pre = []
    · simp only [hp, if_true] at hhead ⊢; rw [hQl]; exact hhead
    · simpa only [hp, if_false] using hhead
  · rw [lastRight_append _ _ (by simp)] at hlast ⊢
    show lastRight ((shiftRightQR a b q r).2 :: post) = 1
    rw [lastRight_cons_congr _ b post hBr]
    exact hlast
  · rw [← hcfg]
    apply cfgOK_congr
    simp [hQn, hBn]

/-! ### flip -/

theorem entry_transpose (m : Mat) (i j : Nat) : entry (transpose m) i j = if i < ncols m then entry m j i else 0 := by
  by_cases hi : i < ncols m
  · rw [entry_of_lt _ _ _ (by simpa [transpose] using hi), if_pos hi]
    simp only [transpose, List.getElem_map, List.getElem_range]
    exact col_getD m i j
  · rw [entry_of_le_rows _ _ _ (by simpa [transpose] using hi), if_neg hi]

/-- the list transpose is the matrix transpose (for a rectangular list matrix) -/
theorem toMat_transpose (n : Nat) (m : Mat) (h : ∀ row ∈ m, row.length ≤ ncols m) :
    toMat n (transpose m) = (toMat n m).transpose := by
  ext i j
  rw [toMat_apply, entry_transpose, Matrix.transpose_apply, toMat_apply]
  by_cases hi : i.val < ncols m
  · rw [if_pos hi]
  · rw [if_neg hi, entry_of_le_cols m h _ _ (by omega)]

theorem transpose_nil : transpose [] = [] := by simp [transpose, ncols]

/-- `np.transpose(tensor, (0, 2, 1))` on the list model is `flipSite` on the Matrix model -/
theorem toSite_flipTensor (n : Nat) (t : Tensor) (h : ∀ m ∈ t, ∀ row ∈ m, row.length ≤ ncols m) :
    toSite n (flipTensor t) = Alg.flipSite (toSite n t) := by
  funext s
  unfold Alg.flipSite
  by_cases hs : s < t.length
  · rw [toSite_of_lt n t s hs, toSite_of_lt n _ s (by simpa [flipTensor] using hs)]
    simp only [flipTensor, List.getElem_map]
    exact toMat_transpose n _ (h _ (List.getElem_mem hs))
  · rw [toSite_of_le n t s (by omega), toSite_of_le n _ s (by simpa [flipTensor] using hs), Matrix.transpose_zero]

/-- **`flip_bridge`** — the executable `flip` (`flip_network`) maps to the Matrix-level `Alg.flip` -/
theorem flip_bridge (n : Nat) (ts : List Tensor) (h : ∀ t ∈ ts, ∀ m ∈ t, ∀ row ∈ m, row.length ≤ ncols m) :
    toMatrixChain n (flip ts) = Alg.flip (toMatrixChain n ts) := by
  unfold flip Alg.flip toMatrixChain
  rw [List.map_reverse, List.map_map, List.map_map]
  congr 1
  apply List.map_congr_left
  intro t ht
  exact toSite_flipTensor n t (h t ht)

theorem rows_le_of_wellShaped {t : Tensor} (h : wellShaped t = true) : ∀ m ∈ t, ∀ row ∈ m, row.length ≤ ncols m := by
  intro m hm row hrow
  rw [ncols_of_wellShaped h hm]
  exact le_of_eq (((wellShaped_iff t).mp h).2.2.2 m hm |>.2 row hrow)

/-- flipping a `(phys, l, r)` block gives a `(phys, r, l)` block -/
theorem flipTensor_shape (t : Tensor) (h : wellShaped t = true) :
    wellShaped (flipTensor t) = true ∧ leftDim (flipTensor t) = rightDim t ∧ rightDim (flipTensor t) = leftDim t := by
  obtain ⟨h1, hl, hr, hall⟩ := (wellShaped_iff t).mp h
  refine wellShaped_of_shape (flipTensor t) (rightDim t) (leftDim t) (by simpa [flipTensor] using h1) hr hl
    (fun m hm => ?_)
  simp only [flipTensor, List.mem_map] at hm
  obtain ⟨m0, hm0, rfl⟩ := hm
  refine ⟨by simp [transpose, ncols_of_wellShaped h hm0], fun row hrow => ?_⟩
  simp only [transpose, List.mem_map, List.mem_range] at hrow
  obtain ⟨j, _, rfl⟩ := hrow
  rw [col_length]
  exact (hall m0 hm0).1

theorem lastRight_eq (ts : List Tensor) : lastRight ts = rightDim (ts.reverse.headD []) := by
  induction ts with
  | nil => rfl
  | cons t ts ih =>
    cases ts with
    | nil => rfl
    | cons t' ts' =>
      rw [lastRight, ih, List.reverse_cons (a := t)]
      cases hrev : (t' :: ts').reverse with
      | nil => simp at hrev
      | cons x rest => rfl

theorem cfgOK_iff_forall₂ : ∀ (ts : List Tensor) (cfg : List Nat),
    cfgOK ts cfg = true ↔ List.Forall₂ (fun t s => s < t.length) ts cfg
  | [], [] => by simp [cfgOK]
  | [], _ :: _ => by simp [cfgOK]
  | _ :: _, [] => by simp [cfgOK]
  | t :: ts, s :: cfg => by simp [cfgOK, cfgOK_iff_forall₂ ts cfg]

theorem cfgOK_flip (ts : List Tensor) (cfg : List Nat) (h : cfgOK ts cfg = true) : cfgOK (flip ts) cfg.reverse = true := by
  rw [cfgOK_iff_forall₂] at h ⊢
  unfold flip
  apply List.rel_reverse
  rw [List.forall₂_map_left_iff]
  simpa [flipTensor] using h

/-- **amplitudes of the flipped list chain, read on the Matrix side** -/
theorem amp_flip_eq_chain (n : Nat) (hn : 0 < n) (ts : List Tensor) (cfg : List Nat)
    (hws : wellShapedChain n ts = true) (hcfg : cfgOK ts cfg = true) :
    amp (flip ts) cfg.reverse = some (Alg.chain (Alg.flip (toMatrixChain n ts)) cfg.reverse ⟨0, hn⟩ ⟨0, hn⟩) := by
  obtain ⟨hall, _, hhead, hlast⟩ := (wellShapedChain_iff n ts).mp hws
  have hne : ts ≠ [] := by
    intro h; subst h; simp [lastRight] at hlast
  rw [← flip_bridge n ts (fun t ht => rows_le_of_wellShaped (hall t ht).1)]
  have hmapflip : ∀ l : List Tensor, (l.map flipTensor).headD [] = flipTensor (l.headD []) := by
    intro l; cases l <;> simp [flipTensor]
  refine amp_eq_chain_core n hn _ _ ?_ ?_ ?_ (cfgOK_flip ts cfg hcfg)
  · intro t' ht'
    simp only [flip, List.mem_reverse, List.mem_map] at ht'
    obtain ⟨t, ht, rfl⟩ := ht'
    obtain ⟨h1, _, h3⟩ := flipTensor_shape t (hall t ht).1
    exact ⟨h1, by rw [h3]; exact (hall t ht).2.1⟩
  · have hx : ts.reverse.headD [] ∈ ts := by
      cases hrev : ts.reverse with
      | nil => simp at hrev; exact absurd hrev hne
      | cons x rest =>
        have : x ∈ ts.reverse := by rw [hrev]; simp
        simpa using this
    unfold flip
    rw [← List.map_reverse, hmapflip, (flipTensor_shape _ (hall _ hx).1).2.1, ← lastRight_eq]
    exact hlast
  · have hx : ts.headD [] ∈ ts := by
      cases ts with
      | nil => exact absurd rfl hne
      | cons x rest => simp
    rw [lastRight_eq]
    unfold flip
    rw [List.reverse_reverse, hmapflip, (flipTensor_shape _ (hall _ hx).1).2.2]
    exact hhead

/-! ### pad -/

/-- one slice of `padTensor` -/
def padMat (m : Mat) (lt rt : Nat) : Mat :=
  (List.range lt).map (fun i => (List.range rt).map (fun j => if i < nrows m ∧ j < ncols m then entry m i j else 0))

theorem padTensor_eq (t : Tensor) (lt rt : Nat) : padTensor t lt rt = t.map (fun m => padMat m lt rt) := rfl

theorem entry_padMat (m : Mat) (lt rt i j : Nat) :
    entry (padMat m lt rt) i j = if i < lt ∧ j < rt then (if i < nrows m ∧ j < ncols m then entry m i j else 0) else 0 := by
  by_cases hi : i < lt
  · rw [entry_of_lt _ _ _ (by simpa [padMat] using hi)]
    by_cases hj : j < rt
    · simp [padMat, hi, hj, List.getD_eq_getElem?_getD]
    · simp [padMat, hi, hj, List.getD_eq_getElem?_getD]
  · rw [entry_of_le_rows _ _ _ (by simpa [padMat] using hi)]
    simp [hi]

/-- zero padding of a list matrix is invisible once the bonds are read in the uniform `Fin n` -/
theorem toMat_padMat (n : Nat) (m : Mat) (lt rt : Nat) (hl : m.length ≤ lt) (hr : ncols m ≤ rt)
    (hrect : ∀ row ∈ m, row.length ≤ ncols m) : toMat n (padMat m lt rt) = toMat n m := by
  ext i j
  rw [toMat_apply, toMat_apply, entry_padMat]
  by_cases h1 : i.val < nrows m ∧ j.val < ncols m
  · have : i.val < lt ∧ j.val < rt := ⟨by unfold nrows at h1; omega, by omega⟩
    rw [if_pos this, if_pos h1]
  · have h0 : entry m i.val j.val = 0 := by
      by_cases hi : i.val < nrows m
      · exact entry_of_le_cols m hrect _ _ (by have := h1; simp only [hi, true_and] at this; omega)
      · exact entry_of_le_rows m _ _ (by unfold nrows at hi; omega)
    rw [if_neg h1, h0]
    simp

/-- **`pad_bridge` (site level)** — the executable `padTensor` (`new = zeros; new[:, :chi_l, :chi_r] = tensor`) does
    not change the Matrix-valued site tensor: zero padding is already built into `toSite`. -/
theorem toSite_padTensor (n : Nat) (t : Tensor) (lt rt : Nat) (ht : wellShaped t = true) (hl : leftDim t ≤ lt)
    (hr : rightDim t ≤ rt) : toSite n (padTensor t lt rt) = toSite n t := by
  obtain ⟨_, _, _, hall⟩ := (wellShaped_iff t).mp ht
  funext s
  by_cases hs : s < t.length
  · rw [toSite_of_lt n t s hs, toSite_of_lt n _ s (by simpa [padTensor_eq] using hs)]
    simp only [padTensor_eq, List.getElem_map]
    have hm := List.getElem_mem hs
    exact toMat_padMat n _ lt rt (by rw [(hall _ hm).1]; exact hl) (by rw [ncols_of_wellShaped ht hm]; exact hr)
      (rows_le_of_wellShaped ht _ hm)
  · rw [toSite_of_le n t s (by omega), toSite_of_le n _ s (by simpa [padTensor_eq] using hs)]

/-- a padded `(phys, l, r)` block is a `(phys, lt, rt)` block -/
theorem padTensor_shape (t : Tensor) (lt rt : Nat) (h1 : 1 ≤ t.length) (hl : 1 ≤ lt) (hr : 1 ≤ rt) :
    wellShaped (padTensor t lt rt) = true ∧ leftDim (padTensor t lt rt) = lt ∧ rightDim (padTensor t lt rt) = rt := by
  refine wellShaped_of_shape _ lt rt (by simpa [padTensor_eq] using h1) hl hr (fun m hm => ?_)
  simp only [padTensor_eq, List.mem_map] at hm
  obtain ⟨m0, _, rfl⟩ := hm
  refine ⟨by simp [padMat], fun row hrow => ?_⟩
  simp only [padMat, List.mem_map, List.mem_range] at hrow
  obtain ⟨i, _, rfl⟩ := hrow
  simp

/-- what the enlargement loop of `pad_bond_dimension` returns when it does not raise -/
theorem padAll_go_spec (target len : Nat) : ∀ (l : List Tensor) (i : Nat) (out : List Tensor),
    padAll.go target len i l = some out →
    out.length = l.length ∧ ∀ k (hk : k < l.length) (hk' : k < out.length),
      out[k] = padTensor l[k] (padTargets len target (i + k)).1 (padTargets len target (i + k)).2 ∧
        leftDim l[k] ≤ (padTargets len target (i + k)).1 ∧ rightDim l[k] ≤ (padTargets len target (i + k)).2 := by
  intro l
  induction l with
  | nil =>
    intro i out h
    simp only [padAll.go, Option.some.injEq] at h
    subst h
    exact ⟨rfl, fun k hk => absurd hk (by simp)⟩
  | cons t rest ih =>
    intro i out h
    rw [padAll.go] at h
    simp only at h
    split at h
    · cases h
    · next hcond =>
      cases hgo : padAll.go target len (i + 1) rest with
      | none => rw [hgo] at h; cases h
      | some r =>
        rw [hgo] at h
        simp only [Option.map_some, Option.some.injEq] at h
        subst h
        obtain ⟨hlen, hspec⟩ := ih (i + 1) r hgo
        refine ⟨by simp [hlen], fun k hk hk' => ?_⟩
        match k with
        | 0 =>
          simp only [List.getElem_cons_zero, Nat.add_zero]
          exact ⟨trivial, by omega, by omega⟩
        | k + 1 =>
          simp only [List.getElem_cons_succ]
          have := hspec k (by simpa using hk) (by simpa using hk')
          rwa [show i + 1 + k = i + (k + 1) by omega] at this

/-- **`pad_bridge`** — the tensors produced by the executable enlargement loop of `pad_bond_dimension` are, as
    Matrix-valued site tensors over the uniform bond type, the tensors it started from. -/
theorem pad_bridge (n : Nat) (ts out : List Tensor) (target : Nat) (h : padAll ts target = some out)
    (hws : ∀ t ∈ ts, wellShaped t = true) : toMatrixChain n out = toMatrixChain n ts := by
  obtain ⟨hlen, hspec⟩ := padAll_go_spec target ts.length ts 0 out h
  unfold toMatrixChain
  apply List.ext_getElem
  · simp [hlen]
  · intro k h1 h2
    simp only [List.getElem_map]
    have hk : k < ts.length := by simpa using h2
    obtain ⟨e, hl, hr⟩ := hspec k hk (by simpa using h1)
    rw [e]
    exact toSite_padTensor n _ _ _ (hws _ (List.getElem_mem hk)) hl hr

theorem wellShapedChain_mono (n N : Nat) (hnN : n ≤ N) (ts : List Tensor) (h : wellShapedChain n ts = true) :
    wellShapedChain N ts = true := by
  rw [wellShapedChain_iff] at h ⊢
  exact ⟨fun t ht => ⟨(h.1 t ht).1, by have := (h.1 t ht).2.1; omega, by have := (h.1 t ht).2.2; omega⟩, h.2⟩

theorem padTargets_right_le (len target i : Nat) : (padTargets len target i).2 ≤ target + 1 := by
  unfold padTargets
  simp only
  split
  · omega
  · exact le_trans (Nat.min_le_left _ _) (Nat.le_succ _)

theorem reverse_headD_eq_getElem (l : List Tensor) (h : 0 < l.length) : l.reverse.headD [] = l[l.length - 1] := by
  rw [List.headD_eq_head?_getD, List.head?_reverse, List.getLast?_eq_getElem?, List.getElem?_eq_getElem (by omega)]
  rfl

/-- **amplitudes of the padded list chain, read on the Matrix side**: they are the entries of the chain of the
    *unpadded* tensors. -/
theorem amp_padAll_eq_chain (n : Nat) (ts out : List Tensor) (target : Nat) (cfg : List Nat)
    (h : padAll ts target = some out) (hws : wellShapedChain n ts = true) (hcfg : cfgOK ts cfg = true) :
    amp out cfg = some (Alg.chain (toMatrixChain (n + target + 1) ts) cfg
      ⟨0, Nat.succ_pos _⟩ ⟨0, Nat.succ_pos _⟩) := by
  obtain ⟨hall, _, hhead, hlast⟩ := (wellShapedChain_iff n ts).mp hws
  have hne : ts ≠ [] := by
    intro h; subst h; simp [lastRight] at hlast
  have hpos : 0 < ts.length := List.length_pos_iff.mpr hne
  obtain ⟨hlen, hspec⟩ := padAll_go_spec target ts.length ts 0 out h
  have hwsall : ∀ t ∈ ts, wellShaped t = true := fun t ht => (hall t ht).1
  rw [← pad_bridge (n + target + 1) ts out target h hwsall]
  -- shape of every padded tensor
  have hshape : ∀ k (hk : k < ts.length) (hk' : k < out.length),
      wellShaped out[k] = true ∧ leftDim out[k] = (padTargets ts.length target k).1 ∧
        rightDim out[k] = (padTargets ts.length target k).2 := by
    intro k hk hk'
    obtain ⟨e, hl, hr⟩ := hspec k hk hk'
    rw [Nat.zero_add] at e hl hr
    obtain ⟨h1, hl1, hr1, _⟩ := (wellShaped_iff _).mp (hwsall _ (List.getElem_mem hk))
    rw [e]
    exact padTensor_shape _ _ _ h1 (by omega) (by omega)
  refine amp_eq_chain_core _ _ out cfg ?_ ?_ ?_ ?_
  · intro t' ht'
    obtain ⟨k, hk', rfl⟩ := List.getElem_of_mem ht'
    obtain ⟨h1, _, h3⟩ := hshape k (by omega) hk'
    refine ⟨h1, ?_⟩
    rw [h3]
    have := padTargets_right_le ts.length target k
    omega
  · have h0 : 0 < out.length := by omega
    have : out.headD [] = out[0] := by
      cases out with
      | nil => simp at h0
      | cons x rest => rfl
    rw [this, (hshape 0 hpos h0).2.1]
    simp [padTargets]
  · rw [lastRight_eq, reverse_headD_eq_getElem out (by omega), (hshape _ (by omega) (by omega)).2.2]
    unfold padTargets
    simp only
    rw [if_pos (by omega)]
  · rw [← hcfg]
    apply cfgOK_congr
    apply List.ext_getElem
    · simp [hlen]
    · intro k h1 h2
      simp only [List.getElem_map]
      have hk : k < ts.length := by simpa using h2
      obtain ⟨e, _, _⟩ := hspec k hk (by simpa using h1)
      rw [e]
      simp [padTensor_eq]

/-! ### enlarging the uniform bond type is `padSite` (the Matrix-level padding of C10.6) -/

theorem entry_of_row_le (m : Mat) (c : Nat) (hr : ∀ row ∈ m, row.length ≤ c) (i j : Nat) (h : c ≤ j) :
    entry m i j = 0 := by
  by_cases hi : i < m.length
  · rw [entry_of_lt m i j hi]
    have := hr m[i] (List.getElem_mem hi)
    simp [List.getD_eq_getElem?_getD, List.getElem?_eq_none (by omega : (m[i]).length ≤ j)]
  · exact entry_of_le_rows m i j (by omega)

/-- reading a list matrix that fits into `n` in the larger index type `Fin (n + k) ≃ Fin n ⊕ Fin k` gives the block
    matrix `fromBlocks M 0 0 0` -/
theorem toMat_add (n k : Nat) (m : Mat) (hrows : m.length ≤ n) (hcols : ∀ row ∈ m, row.length ≤ n) :
    (toMat (n + k) m).submatrix finSumFinEquiv finSumFinEquiv = Matrix.fromBlocks (toMat n m) 0 0 0 := by
  ext i j
  rcases i with i | i <;> rcases j with j | j
  · simp [finSumFinEquiv]
  · simp only [Matrix.submatrix_apply, toMat_apply, Matrix.fromBlocks_apply₁₂, Matrix.zero_apply]
    exact entry_of_row_le m n hcols _ _ (by simp [finSumFinEquiv])
  · simp only [Matrix.submatrix_apply, toMat_apply, Matrix.fromBlocks_apply₂₁, Matrix.zero_apply]
    exact entry_of_le_rows m _ _ (by simp [finSumFinEquiv]; omega)
  · simp only [Matrix.submatrix_apply, toMat_apply, Matrix.fromBlocks_apply₂₂, Matrix.zero_apply]
    exact entry_of_le_rows m _ _ (by simp [finSumFinEquiv]; omega)

/-- **`pad_bridge` (Matrix counterpart)** — the executable `padTensor`, read in the enlarged uniform bond type
    `Fin (n + k) ≃ Fin n ⊕ Fin k`, is `Alg.padSite` (of C10.6) applied to the unpadded tensor read in `Fin n`. -/
theorem padTensor_bridge (n k : Nat) (t : Tensor) (lt rt : Nat) (ht : wellShaped t = true)
    (hl : leftDim t ≤ lt) (hr : rightDim t ≤ rt) (hln : leftDim t ≤ n) (hrn : rightDim t ≤ n) (s : Nat) :
    (toSite (n + k) (padTensor t lt rt) s).submatrix finSumFinEquiv finSumFinEquiv =
      Alg.padSite (κ := Fin k) (toSite n t) s := by
  rw [toSite_padTensor (n + k) t lt rt ht hl hr]
  unfold Alg.padSite
  obtain ⟨_, _, _, hall⟩ := (wellShaped_iff t).mp ht
  by_cases hs : s < t.length
  · rw [toSite_of_lt _ t s hs, toSite_of_lt _ t s hs]
    have hm := List.getElem_mem hs
    exact toMat_add n k _ (by rw [(hall _ hm).1]; exact hln)
      (fun row hrow => by rw [(hall _ hm).2 row hrow]; exact hrn)
  · rw [toSite_of_le _ t s (by omega), toSite_of_le _ t s (by omega)]
    ext i j
    rcases i with i | i <;> rcases j with j | j <;> simp

/-! ### the moves keep a chain well-shaped (so the executable corollaries compose) -/

theorem bondsMatch_iff : ∀ (l : List Tensor), bondsMatch l = true ↔ List.IsChain (fun a b => rightDim a = leftDim b) l
  | [] => by simp [bondsMatch]
  | [_] => by simp [bondsMatch]
  | a :: b :: rest => by
    rw [bondsMatch, Bool.and_eq_true, beq_iff_eq, List.isChain_cons_cons, bondsMatch_iff (b :: rest)]

theorem isChain_cons_congr (y y' : Tensor) (post : List Tensor) (h : rightDim y = rightDim y') :
    List.IsChain (fun a b => rightDim a = leftDim b) (y :: post) ↔
      List.IsChain (fun a b => rightDim a = leftDim b) (y' :: post) := by
  cases post with
  | nil => simp
  | cons c post => rw [List.isChain_cons_cons, List.isChain_cons_cons, h]

/-- **closure under the executable QR shift** -/
theorem shiftRightQR_wellShapedChain (n : Nat) (pre post : List Tensor) (a b : Tensor) (q r : Mat)
    (hws : wellShapedChain n (pre ++ a :: b :: post) = true) (hqs : qrShaped n a q r = true)
    (hqr : matMul q r = flattenRows a) :
    wellShapedChain n (pre ++ (shiftRightQR a b q r).1 :: (shiftRightQR a b q r).2 :: post) = true := by
  obtain ⟨hall, hbm, hhead, hlast⟩ := (wellShapedChain_iff n _).mp hws
  obtain ⟨hk1, hkn, hq, hr⟩ := (qrShaped_iff n a q r).mp hqs
  have ha := hall a (by simp)
  have hb := hall b (by simp)
  obtain ⟨hQ, hQl, hQr, hQn⟩ := shiftRightQR_shape_left a b q r ha.1 hqr hk1 hq
  obtain ⟨hB, hBl, hBr, hBn⟩ := shiftRightQR_shape_right a b q r hb.1 hk1
  refine (wellShapedChain_iff n _).mpr ⟨?_, ?_, ?_, ?_⟩
  · intro t ht
    simp only [List.mem_append, List.mem_cons] at ht
    rcases ht with ht | rfl | rfl | ht
    · exact hall t (by simp [ht])
    · exact ⟨hQ, by rw [hQl]; exact ha.2.1, by omega⟩
    · exact ⟨hB, by omega, by rw [hBr]; exact hb.2.2⟩
    · exact hall t (by simp [ht])
  · rw [bondsMatch_iff, List.isChain_append] at hbm ⊢
    obtain ⟨h1, h2, h3⟩ := hbm
    rw [List.isChain_cons_cons] at h2
    refine ⟨h1, ?_, ?_⟩
    · rw [List.isChain_cons_cons]
      exact ⟨by rw [hQr, hBl], (isChain_cons_congr _ b post hBr).mpr h2.2⟩
    · intro x hx y hy
      simp only [List.head?_cons, Option.mem_def, Option.some.injEq] at hy
      subst hy
      rw [hQl]
      exact h3 x hx a (by simp)
  · rw [headD_append_cons] at hhead ⊢
    by_cases hp : pre = []
    · simp only [hp, if_true] at hhead ⊢; rw [hQl]; exact hhead
    · simpa only [hp, if_false] using hhead
  · rw [lastRight_append _ _ (by simp)] at hlast ⊢
    show lastRight ((shiftRightQR a b q r).2 :: post) = 1
    rw [lastRight_cons_congr _ b post hBr]
    exact hlast

/-- **closure under the executable flip** -/
theorem flip_wellShapedChain (n : Nat) (ts : List Tensor) (hws : wellShapedChain n ts = true) :
    wellShapedChain n (flip ts) = true := by
  obtain ⟨hall, hbm, hhead, hlast⟩ := (wellShapedChain_iff n ts).mp hws
  have hne : ts ≠ [] := by
    intro h; subst h; simp [lastRight] at hlast
  have hmapflip : ∀ l : List Tensor, (l.map flipTensor).headD [] = flipTensor (l.headD []) := by
    intro l; cases l <;> simp [flipTensor]
  refine (wellShapedChain_iff n _).mpr ⟨?_, ?_, ?_, ?_⟩
  · intro t' ht'
    simp only [flip, List.mem_reverse, List.mem_map] at ht'
    obtain ⟨t, ht, rfl⟩ := ht'
    obtain ⟨h1, h2, h3⟩ := flipTensor_shape t (hall t ht).1
    exact ⟨h1, by rw [h2]; exact (hall t ht).2.2, by rw [h3]; exact (hall t ht).2.1⟩
  · rw [bondsMatch_iff] at hbm ⊢
    unfold flip
    rw [List.isChain_reverse, List.isChain_map, List.isChain_iff_getElem]
    rw [List.isChain_iff_getElem] at hbm
    intro i hi
    have h1 := flipTensor_shape _ (hall ts[i] (List.getElem_mem (by omega))).1
    have h2 := flipTensor_shape _ (hall ts[i + 1] (List.getElem_mem hi)).1
    rw [h2.2.2, h1.2.1]
    exact (hbm i hi).symm
  · have hx : ts.reverse.headD [] ∈ ts := by
      cases hrev : ts.reverse with
      | nil => simp at hrev; exact absurd hrev hne
      | cons x rest =>
        have : x ∈ ts.reverse := by rw [hrev]; simp
        simpa using this
    unfold flip
    rw [← List.map_reverse, hmapflip, (flipTensor_shape _ (hall _ hx).1).2.1, ← lastRight_eq]
    exact hlast
  · have hx : ts.headD [] ∈ ts := by
      cases ts with
      | nil => exact absurd rfl hne
      | cons x rest => simp
    rw [lastRight_eq]
    unfold flip
    rw [List.reverse_reverse, hmapflip, (flipTensor_shape _ (hall _ hx).1).2.2]
    exact hhead

/-- **closure under the executable padding loop** (the bonds become the targets) -/
theorem padAll_wellShapedChain (n : Nat) (ts out : List Tensor) (target : Nat) (h : padAll ts target = some out)
    (hws : wellShapedChain n ts = true) : wellShapedChain (n + target + 1) out = true := by
  obtain ⟨hall, _, hhead, hlast⟩ := (wellShapedChain_iff n ts).mp hws
  have hne : ts ≠ [] := by
    intro h; subst h; simp [lastRight] at hlast
  have hpos : 0 < ts.length := List.length_pos_iff.mpr hne
  obtain ⟨hlen, hspec⟩ := padAll_go_spec target ts.length ts 0 out h
  have hshape : ∀ k (hk : k < ts.length) (hk' : k < out.length),
      wellShaped out[k] = true ∧ leftDim out[k] = (padTargets ts.length target k).1 ∧
        rightDim out[k] = (padTargets ts.length target k).2 := by
    intro k hk hk'
    obtain ⟨e, hl, hr⟩ := hspec k hk hk'
    rw [Nat.zero_add] at e hl hr
    obtain ⟨h1, hl1, hr1, _⟩ := (wellShaped_iff _).mp (hall _ (List.getElem_mem hk)).1
    rw [e]
    exact padTensor_shape _ _ _ h1 (by omega) (by omega)
  have hleft_le : ∀ k, (padTargets ts.length target k).1 ≤ target + 1 := by
    intro k
    unfold padTargets
    simp only
    split
    · omega
    · exact le_trans (Nat.min_le_left _ _) (Nat.le_succ _)
  refine (wellShapedChain_iff _ _).mpr ⟨?_, ?_, ?_, ?_⟩
  · intro t' ht'
    obtain ⟨k, hk', rfl⟩ := List.getElem_of_mem ht'
    obtain ⟨h1, h2, h3⟩ := hshape k (by omega) hk'
    refine ⟨h1, ?_, ?_⟩
    · rw [h2]; have := hleft_le k; omega
    · rw [h3]; have := padTargets_right_le ts.length target k; omega
  · rw [bondsMatch_iff, List.isChain_iff_getElem]
    intro i hi
    rw [(hshape i (by omega) (by omega)).2.2, (hshape (i + 1) (by omega) hi).2.1]
    unfold padTargets
    simp only
    rw [if_neg (by omega), if_neg (by omega)]
    congr 3
    omega
  · have h0 : 0 < out.length := by omega
    have : out.headD [] = out[0] := by
      cases out with
      | nil => simp at h0
      | cons x rest => rfl
    rw [this, (hshape 0 hpos h0).2.1]
    simp [padTargets]
  · rw [lastRight_eq, reverse_headD_eq_getElem out (by omega), (hshape _ (by omega) (by omega)).2.2]
    unfold padTargets
    simp only
    rw [if_pos (by omega)]

/-! ### the dense vector `toVec` (`MPS.to_vec`) -/

/-- every index of the dense vector decodes to a valid configuration -/
theorem cfgOK_cfgOfIndex : ∀ (ts : List Tensor) (idx : Nat), (∀ t ∈ ts, 1 ≤ t.length) →
    cfgOK ts (cfgOfIndex (ts.map physDim) idx) = true
  | [], _, _ => rfl
  | t :: ts, idx, h => by
    simp only [List.map_cons, cfgOfIndex, cfgOK, Bool.and_eq_true, decide_eq_true_eq]
    exact ⟨Nat.mod_lt _ (h t (by simp)), cfgOK_cfgOfIndex ts _ (fun u hu => h u (by simp [hu]))⟩

/-- two chains with the same physical dimensions and the same amplitude on every valid configuration have the same
    dense vector -/
theorem toVec_congr (ts ts' : List Tensor) (hphys : ts'.map physDim = ts.map physDim) (h1 : ∀ t ∈ ts, 1 ≤ t.length)
    (hamp : ∀ cfg, cfgOK ts cfg = true → amp ts' cfg = amp ts cfg) : toVec ts' = toVec ts := by
  unfold toVec
  simp only [hphys]
  apply List.map_congr_left
  intro idx _
  exact hamp _ (cfgOK_cfgOfIndex ts idx h1)

end Yaqs.Mps
