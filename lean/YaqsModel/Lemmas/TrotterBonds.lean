import YaqsModel.Model.Trotter
import Mathlib.Data.List.Nodup
import Mathlib.Data.List.Perm.Basic
import Mathlib.Tactic.Ring
import Mathlib.Tactic.Linarith
import Mathlib.Algebra.Order.Ring.Rat
import Mathlib.Tactic.FieldSimp

/-! helper lemmas for C07: bond lists of the chain builders, snake order, grid edges -/
namespace Yaqs.Trotter

theorem mem_evenBonds (L a b : Nat) : (a, b) ∈ evenBonds L ↔ a % 2 = 0 ∧ b = a + 1 ∧ b < L := by
  simp only [evenBonds, List.mem_map, List.mem_range, Prod.mk.injEq]
  constructor
  · rintro ⟨s, hs, rfl, rfl⟩; omega
  · rintro ⟨h0, rfl, hb⟩; exact ⟨a / 2, by omega, by omega, by omega⟩

theorem mem_oddBonds (L a b : Nat) : (a, b) ∈ oddBonds L ↔ a % 2 = 1 ∧ b = a + 1 ∧ b < 2 * (L / 2) := by
  simp only [oddBonds, List.mem_map, List.mem_range'_1, Prod.mk.injEq]
  constructor
  · rintro ⟨s, hs, rfl, rfl⟩; omega
  · rintro ⟨h0, rfl, hb⟩; exact ⟨(a + 1) / 2, by omega, by omega, by omega⟩

theorem mem_lastBond (L a b : Nat) : (a, b) ∈ lastBond L ↔ L % 2 = 1 ∧ b = a + 1 ∧ b + 1 = L ∧ 1 ≤ a := by
  unfold lastBond
  split
  · simp only [List.mem_singleton, Prod.mk.injEq]; omega
  · simp only [List.not_mem_nil, false_iff]; omega

/-- open chain: the two-qubit rotations of one step sit exactly on the nearest-neighbour bonds -/
theorem mem_openBonds (L a b : Nat) :
    (a, b) ∈ evenBonds L ++ oddBonds L ++ lastBond L ↔ b = a + 1 ∧ b < L := by
  simp only [List.mem_append, mem_evenBonds, mem_oddBonds, mem_lastBond]
  omega

theorem nodup_evenBonds (L : Nat) : (evenBonds L).Nodup := by
  unfold evenBonds
  apply List.Nodup.map _ List.nodup_range
  intro x y h; simp only [Prod.mk.injEq] at h; omega

theorem nodup_oddBonds (L : Nat) : (oddBonds L).Nodup := by
  unfold oddBonds
  apply List.Nodup.map_on _ (List.nodup_range' (step := 1))
  intro x hx y hy h
  simp only [List.mem_range'_1] at hx hy
  simp only [Prod.mk.injEq] at h; omega

theorem nodup_lastBond (L : Nat) : (lastBond L).Nodup := by
  unfold lastBond; split <;> simp

theorem nodup_openBonds (L : Nat) : (evenBonds L ++ oddBonds L ++ lastBond L).Nodup := by
  rw [List.nodup_append, List.nodup_append]
  refine ⟨⟨nodup_evenBonds L, nodup_oddBonds L, ?_⟩, nodup_lastBond L, ?_⟩
  · rintro ⟨a, b⟩ h1 ⟨a', b'⟩ h2 heq
    rw [mem_evenBonds] at h1; rw [mem_oddBonds] at h2
    simp only [Prod.mk.injEq] at heq; omega
  · rintro ⟨a, b⟩ h1 ⟨a', b'⟩ h2 heq
    rw [List.mem_append, mem_evenBonds, mem_oddBonds] at h1; rw [mem_lastBond] at h2
    simp only [Prod.mk.injEq] at heq; omega

theorem isingBonds_open (L : Nat) : isingBonds L false = evenBonds L ++ oddBonds L ++ lastBond L := by
  simp [isingBonds, wrapBond]

theorem isingBonds_periodic (L : Nat) :
    isingBonds L true = isingBonds L false ++ (if 1 < L then [(0, L - 1)] else []) := by
  simp [isingBonds, wrapBond]

/-- nearest-neighbour bonds of an open chain in natural order -/
def chainBonds (L : Nat) : List (Nat × Nat) := (List.range (L - 1)).map fun i => (i, i + 1)

theorem mem_chainBonds (L a b : Nat) : (a, b) ∈ chainBonds L ↔ b = a + 1 ∧ b < L := by
  simp only [chainBonds, List.mem_map, List.mem_range, Prod.mk.injEq]
  constructor
  · rintro ⟨i, hi, rfl, rfl⟩; omega
  · rintro ⟨rfl, h⟩; exact ⟨a, by omega, rfl, rfl⟩

theorem nodup_chainBonds (L : Nat) : (chainBonds L).Nodup := by
  unfold chainBonds
  apply List.Nodup.map _ List.nodup_range
  intro x y h; simp only [Prod.mk.injEq] at h; omega

theorem openBonds_perm_chain (L : Nat) : (evenBonds L ++ oddBonds L ++ lastBond L).Perm (chainBonds L) := by
  rw [List.perm_ext_iff_of_nodup (nodup_openBonds L) (nodup_chainBonds L)]
  rintro ⟨a, b⟩
  rw [mem_openBonds, mem_chainBonds]

theorem hamPairs_open (L : Nat) : (hamPairs L false).map normPair = chainBonds L := by
  simp only [hamPairs, hamBonds, chainBonds, List.map_map, Bool.false_eq_true, if_false]
  apply List.map_congr_left
  intro i hi
  simp only [List.mem_range] at hi
  have : (i + 1) % L = i + 1 := Nat.mod_eq_of_lt (by omega)
  simp only [Function.comp, normPair, this, Prod.mk.injEq]
  omega

theorem hamPairs_periodic (L : Nat) (hL : 2 ≤ L) : (hamPairs L true).map normPair = chainBonds L ++ [(0, L - 1)] := by
  obtain ⟨n, rfl⟩ : ∃ n, L = n + 1 := ⟨L - 1, by omega⟩
  simp only [hamPairs, hamBonds, chainBonds, List.map_map, if_true, List.range_succ, List.map_append, List.map_cons,
    List.map_nil, Nat.add_sub_cancel]
  congr 1
  · apply List.map_congr_left
    intro i hi
    simp only [List.mem_range] at hi
    have : (i + 1) % (n + 1) = i + 1 := Nat.mod_eq_of_lt (by omega)
    simp only [Function.comp, normPair, this, Prod.mk.injEq]
    omega
  · simp [normPair]

/-! ### snake order -/

/-- column offset inside a row of the snake -/
def snakeOff (C r c : Nat) : Nat := if r % 2 = 0 then c else C - 1 - c

theorem snake_eq (C r c : Nat) : snake C (r, c) = r * C + snakeOff C r c := by
  unfold snake snakeOff; simp only; split <;> rfl

theorem snakeOff_lt (C r c : Nat) (hc : c < C) : snakeOff C r c < C := by
  unfold snakeOff; split <;> omega

theorem mul_add_lt_of_lt (C a b x y : Nat) (hab : a < b) (hx : x < C) : a * C + x < b * C + y := by
  have := Nat.mul_le_mul_right C (Nat.succ_le_of_lt hab)
  rw [Nat.succ_mul] at this
  omega

theorem snake_lt (R C r c : Nat) (hr : r < R) (hc : c < C) : snake C (r, c) < R * C := by
  rw [snake_eq]
  have := mul_add_lt_of_lt C r R (snakeOff C r c) 0 hr (snakeOff_lt C r c hc)
  omega

theorem snake_inj (C r c r' c' : Nat) (hc : c < C) (hc' : c' < C) (h : snake C (r, c) = snake C (r', c')) :
    r = r' ∧ c = c' := by
  rw [snake_eq, snake_eq] at h
  have hx := snakeOff_lt C r c hc
  have hx' := snakeOff_lt C r' c' hc'
  have hr : r = r' := by
    rcases Nat.lt_trichotomy r r' with hlt | heq | hgt
    · have := mul_add_lt_of_lt C r r' (snakeOff C r c) (snakeOff C r' c') hlt hx; omega
    · exact heq
    · have := mul_add_lt_of_lt C r' r (snakeOff C r' c') (snakeOff C r c) hgt hx'; omega
  subst hr
  refine ⟨rfl, ?_⟩
  have : snakeOff C r c = snakeOff C r c' := by omega
  unfold snakeOff at this
  split at this <;> omega

theorem snake_surj (R C k : Nat) (hk : k < R * C) : ∃ r c, r < R ∧ c < C ∧ snake C (r, c) = k := by
  have hC : 0 < C := by
    rcases Nat.eq_zero_or_pos C with h | h
    · subst h; simp at hk
    · exact h
  have hmod := Nat.mod_lt k hC
  have hdiv : k / C < R := Nat.div_lt_of_lt_mul (by rw [Nat.mul_comm]; exact hk)
  have hdm := Nat.div_add_mod k C
  rw [Nat.mul_comm] at hdm
  refine ⟨k / C, if (k / C) % 2 = 0 then k % C else C - 1 - k % C, hdiv, ?_, ?_⟩
  · split <;> omega
  · rw [snake_eq]; unfold snakeOff
    by_cases hp : (k / C) % 2 = 0
    · simp only [hp, if_true]; omega
    · simp only [hp, if_false]; omega

/-! ### grid edges -/

theorem nodup_flatMap_of_tag {ι β : Type} (l : List ι) (f : ι → List β) (tag : β → ι) (hl : l.Nodup)
    (hf : ∀ i ∈ l, (f i).Nodup) (ht : ∀ i ∈ l, ∀ x ∈ f i, tag x = i) : (l.flatMap f).Nodup := by
  induction l with
  | nil => simp
  | cons a as ih =>
    rw [List.flatMap_cons, List.nodup_append]
    rw [List.nodup_cons] at hl
    refine ⟨hf a (by simp), ih hl.2 (fun i hi => hf i (by simp [hi])) (fun i hi => ht i (by simp [hi])), ?_⟩
    intro x hx y hy hxy
    subst hxy
    rw [List.mem_flatMap] at hy
    obtain ⟨i, hi, hxi⟩ := hy
    have h1 := ht a (by simp) x hx
    have h2 := ht i (by simp [hi]) x hxi
    exact hl.1 (by rw [← h1, h2]; exact hi)

theorem mem_evensBelow (n k : Nat) : k ∈ evensBelow n ↔ k < n ∧ k % 2 = 0 := by
  simp [evensBelow]

theorem mem_oddsBelow (n k : Nat) : k ∈ oddsBelow n ↔ k < n ∧ k % 2 = 1 := by
  simp [oddsBelow]

theorem nodup_evensBelow (n : Nat) : (evensBelow n).Nodup := List.Nodup.filter _ List.nodup_range
theorem nodup_oddsBelow (n : Nat) : (oddsBelow n).Nodup := List.Nodup.filter _ List.nodup_range

/-- even then odd entries below `n`: every number below `n` exactly once -/
theorem nodup_evens_odds {β : Type} (n : Nat) (f : Nat → β) (hf : Function.Injective f) :
    ((evensBelow n).map f ++ (oddsBelow n).map f).Nodup := by
  rw [List.nodup_append]
  refine ⟨(nodup_evensBelow n).map hf, (nodup_oddsBelow n).map hf, ?_⟩
  intro x hx y hy hxy
  simp only [List.mem_map, mem_evensBelow, mem_oddsBelow] at hx hy
  obtain ⟨a, ⟨_, ha⟩, rfl⟩ := hx
  obtain ⟨b, ⟨_, hb⟩, hb'⟩ := hy
  have := hf (hb'.trans hxy.symm)
  omega

theorem mem_evens_odds {β : Type} (n : Nat) (f : Nat → β) (x : β) :
    x ∈ (evensBelow n).map f ++ (oddsBelow n).map f ↔ ∃ k, k < n ∧ f k = x := by
  simp only [List.mem_append, List.mem_map, mem_evensBelow, mem_oddsBelow]
  constructor
  · rintro (⟨k, ⟨h, _⟩, rfl⟩ | ⟨k, ⟨h, _⟩, rfl⟩) <;> exact ⟨k, h, rfl⟩
  · rintro ⟨k, h, rfl⟩
    rcases Nat.mod_two_eq_zero_or_one k with h0 | h1
    · exact Or.inl ⟨k, ⟨h, h0⟩, rfl⟩
    · exact Or.inr ⟨k, ⟨h, h1⟩, rfl⟩

/-- the lattice edges of an `R × C` grid -/
def IsGridEdge (R C : Nat) (e : Edge) : Prop :=
  (e.2.1 = e.1.1 ∧ e.2.2 = e.1.2 + 1 ∧ e.1.1 < R ∧ e.2.2 < C) ∨
  (e.2.1 = e.1.1 + 1 ∧ e.2.2 = e.1.2 ∧ e.2.1 < R ∧ e.1.2 < C)

theorem hEdge_inj (r : Nat) : Function.Injective (hEdge r) := by
  intro a b h; simp only [hEdge, Prod.mk.injEq] at h; omega

theorem vEdge_inj (c : Nat) : Function.Injective (fun r => vEdge r c) := by
  intro a b h; simp only [vEdge, Prod.mk.injEq] at h; omega

theorem mem_gridEdges (R C : Nat) (e : Edge) : e ∈ gridEdges R C ↔ IsGridEdge R C e := by
  obtain ⟨⟨r1, c1⟩, ⟨r2, c2⟩⟩ := e
  simp only [gridEdges, List.mem_append, List.mem_flatMap, List.mem_range, IsGridEdge]
  simp only [← List.mem_append, mem_evens_odds]
  simp only [hEdge, vEdge, Prod.mk.injEq]
  constructor
  · rintro (⟨r, hr, k, hk, ⟨rfl, rfl⟩, rfl, rfl⟩ | ⟨c, hc, k, hk, ⟨rfl, rfl⟩, rfl, rfl⟩)
    · left; omega
    · right; omega
  · rintro (⟨h1, h2, h3, h4⟩ | ⟨h1, h2, h3, h4⟩)
    · left; exact ⟨r1, h3, c1, by omega, ⟨rfl, rfl⟩, by omega, by omega⟩
    · right; exact ⟨c1, h4, r1, by omega, ⟨rfl, rfl⟩, by omega, by omega⟩

theorem nodup_gridEdges (R C : Nat) : (gridEdges R C).Nodup := by
  unfold gridEdges
  rw [List.nodup_append]
  refine ⟨?_, ?_, ?_⟩
  · apply nodup_flatMap_of_tag _ _ (fun e : Edge => e.1.1) List.nodup_range
    · intro r _; exact nodup_evens_odds _ _ (hEdge_inj r)
    · intro r _ x hx
      rw [mem_evens_odds] at hx
      obtain ⟨k, _, rfl⟩ := hx; rfl
  · apply nodup_flatMap_of_tag _ _ (fun e : Edge => e.1.2) List.nodup_range
    · intro c _; exact nodup_evens_odds _ _ (vEdge_inj c)
    · intro c _ x hx
      rw [mem_evens_odds] at hx
      obtain ⟨k, _, rfl⟩ := hx; rfl
  · intro x hx y hy hxy
    subst hxy
    simp only [List.mem_flatMap, mem_evens_odds] at hx hy
    obtain ⟨r, _, k, _, rfl⟩ := hx
    obtain ⟨c, _, k', _, h⟩ := hy
    simp only [hEdge, vEdge, Prod.mk.injEq] at h
    omega

/-- the Heisenberg 2-D loop order visits the same edges as the Ising 2-D loop order -/
theorem gridEdgesH_perm (R C : Nat) : (gridEdgesH R C).Perm (gridEdges R C) := by
  unfold gridEdgesH gridEdges
  rw [List.append_assoc]
  exact List.Perm.append (List.flatMap_append_perm _ _ _) (List.flatMap_append_perm _ _ _)

/-! ### dense operator lists of one- and two-site specs -/

theorem opList_one (L : Nat) (o : Op) (q : Nat) (hq : q < L) :
    opList L [(o, q)] = some ((List.range L).map fun i => if q = i then o else Op.I) := by
  have hn : ¬ L ≤ q := by omega
  simp only [opList, parseSpec, List.any_nil, Bool.false_eq_true, if_false, List.any_cons, Bool.or_false,
    decide_eq_true_eq, hn, Option.some.injEq]
  apply List.map_congr_left
  intro i _
  by_cases h : q = i <;> simp [List.find?, h]

theorem opList_two (L : Nat) (o o' : Op) (a b : Nat) (ha : a < L) (hb : b < L) (hab : a ≠ b) :
    opList L [(o, a), (o', b)] =
      some ((List.range L).map fun i => if a = i then o else if b = i then o' else Op.I) := by
  have hna : ¬ L ≤ a := by omega
  have hnb : ¬ L ≤ b := by omega
  have hba : ¬ b = a := fun h => hab h.symm
  simp only [opList, parseSpec, List.any_nil, Bool.false_eq_true, if_false, List.any_cons, Bool.or_false,
    decide_eq_true_eq, hna, hnb, hba, Option.some.injEq, Bool.or_self]
  apply List.map_congr_left
  intro i _
  by_cases h : a = i
  · simp [List.find?, h]
  · by_cases h' : b = i <;> simp [List.find?, h, h']

theorem opList_two_dup (L : Nat) (o o' : Op) (a : Nat) : opList L [(o, a), (o', a)] = none := by
  simp [opList, parseSpec]

/-- a two-site Pauli string does not depend on the order in which its factors are written -/
theorem opList_two_comm (L : Nat) (o o' : Op) (a b : Nat) (ha : a < L) (hb : b < L) :
    opList L [(o, a), (o', b)] = opList L [(o', b), (o, a)] ∨ a = b := by
  by_cases hab : a = b
  · exact Or.inr hab
  · left
    rw [opList_two L o o' a b ha hb hab, opList_two L o' o b a hb ha (fun h => hab h.symm)]
    congr 1
    apply List.map_congr_left
    intro i _
    by_cases h : a = i
    · have : ¬ b = i := fun h' => hab (h.trans h'.symm)
      simp [h, this]
    · simp [h]

/-! ### circuit bonds vs Hamiltonian bonds -/

theorem isingBonds_perm_hamPairs (L : Nat) (per : Bool) (h : L ≠ 1 ∨ per = false) :
    (isingBonds L per).Perm ((hamPairs L per).map normPair) := by
  cases per with
  | false => rw [isingBonds_open, hamPairs_open]; exact openBonds_perm_chain L
  | true =>
    have h1 : L ≠ 1 := by rcases h with h | h; exact h; simp at h
    rcases Nat.lt_or_ge L 2 with hlt | hge
    · have : L = 0 := by omega
      subst this
      simp [isingBonds, evenBonds, oddBonds, lastBond, wrapBond, hamPairs, hamBonds]
    · rw [isingBonds_periodic, isingBonds_open, hamPairs_periodic L hge]
      have : 1 < L := by omega
      simp only [this, if_true]
      exact List.Perm.append_right _ (openBonds_perm_chain L)

theorem hamPairs_lt (L : Nat) (per : Bool) (p : Nat × Nat) (hp : p ∈ hamPairs L per) : p.1 < L ∧ p.2 < L := by
  simp only [hamPairs, hamBonds, List.mem_map] at hp
  obtain ⟨i, hi, rfl⟩ := hp
  have hi' : i < L := by
    cases per <;> simp at hi <;> omega
  exact ⟨hi', Nat.mod_lt _ (by omega)⟩

/-- generator of a two-qubit rotation on the (ordered) pair `p` -/
def pairGen (L : Nat) (o : Op) (c : Rat) (p : Nat × Nat) : Option (List Op × Rat) :=
  (opList L [(o, p.1), (o, p.2)]).map fun l => (l, c)

theorem pairGen_normPair (L : Nat) (o : Op) (c : Rat) (p : Nat × Nat) (h1 : p.1 < L) (h2 : p.2 < L) :
    pairGen L o c (normPair p) = pairGen L o c p := by
  obtain ⟨a, b⟩ := p
  simp only at h1 h2
  unfold pairGen normPair
  simp only
  rcases Nat.lt_trichotomy a b with hlt | heq | hgt
  · rw [Nat.min_eq_left (by omega), Nat.max_eq_right (by omega)]
  · subst heq; simp
  · rw [Nat.min_eq_right (by omega), Nat.max_eq_left (by omega)]
    rcases opList_two_comm L o o b a h2 h1 with h | h
    · rw [h]
    · omega

/-- the two-qubit generators of the circuit bonds are a rearrangement of those of the Hamiltonian bonds -/
theorem pairGens_perm (L : Nat) (per : Bool) (o : Op) (c : Rat) (h : L ≠ 1 ∨ per = false) :
    ((isingBonds L per).filterMap (pairGen L o c)).Perm ((hamPairs L per).filterMap (pairGen L o c)) := by
  have e : (hamPairs L per).filterMap (pairGen L o c) = ((hamPairs L per).map normPair).filterMap (pairGen L o c) := by
    rw [List.filterMap_map]
    apply List.filterMap_congr
    intro p hp
    have := hamPairs_lt L per p hp
    exact (pairGen_normPair L o c p this.1 this.2).symm
  rw [e]
  exact (isingBonds_perm_hamPairs L per h).filterMap _

theorem gateGen_bar (L : Nat) : gateGen L bar = none := rfl

theorem stepGens_append (L : Nat) (a b : List Gate) : stepGens L (a ++ b) = stepGens L a ++ stepGens L b := by
  simp [stepGens]

theorem stepGens_flatMap_bar {β : Type} (L : Nat) (l : List β) (G : β → Gate) :
    stepGens L (l.flatMap fun p => [G p, bar]) = l.filterMap fun p => gateGen L (G p) := by
  induction l with
  | nil => simp [stepGens]
  | cons x xs ih =>
    simp only [List.flatMap_cons, stepGens_append, ih, List.filterMap_cons]
    simp only [stepGens, List.filterMap_cons, gateGen_bar, List.filterMap_nil]
    cases gateGen L (G x) <;> simp

theorem stepGens_map {β : Type} (L : Nat) (l : List β) (G : β → Gate) :
    stepGens L (l.map G) = l.filterMap fun p => gateGen L (G p) := by
  simp [stepGens, List.filterMap_map]

theorem gateGen_g1_rx (L q : Nat) (θ : Rat) :
    gateGen L (g1 .rx q θ) = (opList L [(Op.X, q)]).map fun l => (l, rotCoeff θ) := rfl
theorem gateGen_g1_rz (L q : Nat) (θ : Rat) :
    gateGen L (g1 .rz q θ) = (opList L [(Op.Z, q)]).map fun l => (l, rotCoeff θ) := rfl
theorem gateGen_g2_rxx (L : Nat) (p : Nat × Nat) (θ : Rat) :
    gateGen L (g2 .rxx p.1 p.2 θ) = pairGen L .X (rotCoeff θ) p := rfl
theorem gateGen_g2_ryy (L : Nat) (p : Nat × Nat) (θ : Rat) :
    gateGen L (g2 .ryy p.1 p.2 θ) = pairGen L .Y (rotCoeff θ) p := rfl
theorem gateGen_g2_rzz (L : Nat) (p : Nat × Nat) (θ : Rat) :
    gateGen L (g2 .rzz p.1 p.2 θ) = pairGen L .Z (rotCoeff θ) p := rfl

/-- `rx/ry/rz/rxx/ryy/rzz(-2·dt·c) = exp(-i·dt·(-c)·G)` -/
theorem rotCoeff_trotter (dt c : Rat) : rotCoeff (-2 * dt * c) = dt * -c := by
  unfold rotCoeff; ring

/-! ### single-qubit layer of the 2-D builders -/

theorem snake_div (C r c : Nat) (hc : c < C) : snake C (r, c) / C = r := by
  rw [snake_eq, Nat.add_comm, Nat.add_mul_div_right _ _ (by omega), Nat.div_eq_of_lt (snakeOff_lt C r c hc)]
  simp

theorem nodup_gridSites (R C : Nat) : (gridSites R C).Nodup := by
  unfold gridSites
  apply nodup_flatMap_of_tag _ _ (fun k => k / C) List.nodup_range
  · intro r _
    apply List.Nodup.map_on _ List.nodup_range
    intro c hc c' hc' h
    simp only [List.mem_range] at hc hc'
    exact (snake_inj C r c r c' hc hc' h).2
  · intro r _ x hx
    simp only [List.mem_map, List.mem_range] at hx
    obtain ⟨c, hc, rfl⟩ := hx
    exact snake_div C r c hc

theorem mem_gridSites (R C k : Nat) : k ∈ gridSites R C ↔ k < R * C := by
  simp only [gridSites, List.mem_flatMap, List.mem_map, List.mem_range]
  constructor
  · rintro ⟨r, hr, c, hc, rfl⟩; exact snake_lt R C r c hr hc
  · intro hk
    obtain ⟨r, c, hr, hc, h⟩ := snake_surj R C k hk
    exact ⟨r, hr, c, hc, h⟩

theorem gridSites_perm (R C : Nat) : (gridSites R C).Perm (List.range (R * C)) := by
  rw [List.perm_ext_iff_of_nodup (nodup_gridSites R C) List.nodup_range]
  intro k
  rw [mem_gridSites, List.mem_range]

theorem isGridEdge_bounds (R C : Nat) (e : Edge) (h : IsGridEdge R C e) : e.1.2 < C ∧ e.2.2 < C := by
  unfold IsGridEdge at h
  omega

theorem nodup_grid2dBonds (R C : Nat) : (grid2dBonds R C).Nodup := by
  unfold grid2dBonds
  apply List.Nodup.map_on _ (nodup_gridEdges R C)
  rintro ⟨⟨r1, c1⟩, ⟨r2, c2⟩⟩ he ⟨⟨r1', c1'⟩, ⟨r2', c2'⟩⟩ he' h
  rw [mem_gridEdges] at he he'
  have b := isGridEdge_bounds R C _ he
  have b' := isGridEdge_bounds R C _ he'
  simp only [edgeQubits, Prod.mk.injEq] at h b b'
  have h1 := snake_inj C r1 c1 r1' c1' b.1 b'.1 h.1
  have h2 := snake_inj C r2 c2 r2' c2' b.2 b'.2 h.2
  simp only [Prod.mk.injEq]
  exact ⟨h1, h2⟩

/-- the closed form of the CNOT ladder loop of `add_long_range_interaction` -/
theorem foldl_ladder {β γ : Type} (l : List β) (G : β → γ) (base : List γ) :
    l.foldl (fun c k => G k :: (c ++ [G k])) base = l.reverse.map G ++ base ++ l.map G := by
  induction l generalizing base with
  | nil => simp
  | cons x xs ih => simp [ih]

/-! ### reading gate lists -/

theorem gatePairs_append (nm : GName) (a b : List Gate) : gatePairs nm (a ++ b) = gatePairs nm a ++ gatePairs nm b := by
  simp [gatePairs]

theorem gateSites_append (nm : GName) (a b : List Gate) : gateSites nm (a ++ b) = gateSites nm a ++ gateSites nm b := by
  simp [gateSites]

theorem gatePairs_map_g2 (nm nm' : GName) (l : List (Nat × Nat)) (θ : Rat) :
    gatePairs nm (l.map fun p => g2 nm' p.1 p.2 θ) = if nm' = nm then l else [] := by
  induction l with
  | nil => simp [gatePairs]
  | cons x xs ih =>
    simp only [gatePairs, List.map_cons, List.filterMap_cons, g2] at ih ⊢
    by_cases h : nm' = nm
    · simp only [h, if_true] at ih ⊢; rw [ih]
    · simp only [h, if_false] at ih ⊢; rw [ih]

theorem gatePairs_flatMap_g2_bar (nm nm' : GName) (l : List (Nat × Nat)) (θ : Rat) (hb : nm ≠ .barrier) :
    gatePairs nm (l.flatMap fun p => [g2 nm' p.1 p.2 θ, bar]) = if nm' = nm then l else [] := by
  have hb' : ¬ GName.barrier = nm := fun h => hb h.symm
  induction l with
  | nil => simp [gatePairs]
  | cons x xs ih =>
    simp only [gatePairs, List.flatMap_cons, List.filterMap_append, List.filterMap_cons, List.filterMap_nil, g2, bar, hb',
      if_false] at ih ⊢
    by_cases h : nm' = nm
    · simp only [h, if_true] at ih ⊢; rw [ih]; rfl
    · simp only [h, if_false] at ih ⊢; rw [ih]; rfl

theorem gatePairs_map_g1 (nm nm' : GName) (l : List Nat) (θ : Rat) :
    gatePairs nm (l.map fun q => g1 nm' q θ) = [] := by
  induction l with
  | nil => simp [gatePairs]
  | cons x xs ih =>
    simp only [gatePairs, List.map_cons, List.filterMap_cons, g1] at ih ⊢
    by_cases h : nm' = nm
    · simp only [h, if_true] at ih ⊢; exact ih
    · simp only [h, if_false] at ih ⊢; exact ih

theorem gatePairs_flatMap_g1_bar (nm nm' : GName) (l : List Nat) (θ : Rat) :
    gatePairs nm (l.flatMap fun q => [g1 nm' q θ, bar]) = [] := by
  induction l with
  | nil => simp [gatePairs]
  | cons x xs ih =>
    simp only [gatePairs, List.flatMap_cons, List.filterMap_append, List.filterMap_cons, List.filterMap_nil, g1, bar] at ih ⊢
    rw [ih]
    by_cases h : nm' = nm <;> by_cases h' : GName.barrier = nm <;> simp [h, h']

/-! ### Heisenberg step -/

/-- generators of the single-qubit `rz` layer / of the one-body `Z` terms -/
def fieldGens (L : Nat) (c : Rat) : List (List Op × Rat) :=
  (List.range L).filterMap fun s => (opList L [(Op.Z, s)]).map fun l => (l, c)

theorem heisenberg_stepGens (L : Nat) (per : Bool) (Jx Jy Jz h dt : Rat) :
    stepGens L (heisenbergStep L per Jx Jy Jz h dt) =
      fieldGens L (dt * -h)
        ++ (isingBonds L per).filterMap (pairGen L .Z (dt * -Jz))
        ++ (isingBonds L per).filterMap (pairGen L .X (dt * -Jx))
        ++ (isingBonds L per).filterMap (pairGen L .Y (dt * -Jy)) := by
  unfold heisenbergStep fieldGens
  simp only [stepGens_append, stepGens_map, stepGens_flatMap_bar, gateGen_g1_rz, gateGen_g2_rzz, gateGen_g2_rxx,
    gateGen_g2_ryy, rotCoeff_trotter, isingBonds, List.filterMap_append, List.append_assoc]

theorem termGens_heis (L : Nat) (per : Bool) (Jx Jy Jz c dt : Rat) :
    termGens L dt (mpoTerms L per [(-Jx, Op.X, Op.X), (-Jy, Op.Y, Op.Y), (-Jz, Op.Z, Op.Z)] [(c, Op.Z)]) =
      (hamPairs L per).filterMap (pairGen L .X (dt * -Jx)) ++ (hamPairs L per).filterMap (pairGen L .Y (dt * -Jy))
      ++ (hamPairs L per).filterMap (pairGen L .Z (dt * -Jz)) ++ fieldGens L (dt * c) := by
  simp [termGens, mpoTerms, hamPairs, pairGen, fieldGens, List.filterMap_map, Function.comp_def]

theorem termGens_heis0 (L : Nat) (per : Bool) (Jx Jy Jz dt : Rat) :
    termGens L dt (mpoTerms L per [(-Jx, Op.X, Op.X), (-Jy, Op.Y, Op.Y), (-Jz, Op.Z, Op.Z)] []) =
      (hamPairs L per).filterMap (pairGen L .X (dt * -Jx)) ++ (hamPairs L per).filterMap (pairGen L .Y (dt * -Jy))
      ++ (hamPairs L per).filterMap (pairGen L .Z (dt * -Jz)) := by
  simp [termGens, mpoTerms, hamPairs, pairGen, List.filterMap_map, Function.comp_def]

theorem perm_blocks {β : Type} (F ZZ XX YY ZZ' XX' YY' : List β) (pz : ZZ.Perm ZZ') (px : XX.Perm XX') (py : YY.Perm YY') :
    (F ++ ZZ ++ XX ++ YY).Perm (XX' ++ YY' ++ ZZ' ++ F) := by
  rw [List.append_assoc, List.append_assoc]
  refine List.perm_append_comm.trans (List.Perm.append_right F ?_)
  refine List.perm_append_comm.trans ?_
  exact List.Perm.append (List.Perm.append px py) pz

theorem heis_full (L : Nat) (per : Bool) (Jx Jy Jz h dt : Rat) (hl : L ≠ 1 ∨ per = false) :
    (stepGens L (heisenbergStep L per Jx Jy Jz h dt)).Perm
      ((hamPairs L per).filterMap (pairGen L .X (dt * -Jx)) ++ (hamPairs L per).filterMap (pairGen L .Y (dt * -Jy))
      ++ (hamPairs L per).filterMap (pairGen L .Z (dt * -Jz)) ++ fieldGens L (dt * -h)) := by
  rw [heisenberg_stepGens]
  exact perm_blocks _ _ _ _ _ _ _ (pairGens_perm L per .Z _ hl) (pairGens_perm L per .X _ hl) (pairGens_perm L per .Y _ hl)

theorem fieldGens_zero_filter (L : Nat) : (fieldGens L 0).filter (fun t => t.2 ≠ 0) = [] := by
  rw [List.filter_eq_nil_iff]
  intro t ht
  simp only [fieldGens, List.mem_filterMap, Option.map_eq_some_iff] at ht
  obtain ⟨i, _, l, _, rfl⟩ := ht
  simp

end Yaqs.Trotter
