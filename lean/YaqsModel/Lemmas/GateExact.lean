import YaqsModel.Model.GateWindow
import YaqsModel.Lemmas.ConserveNorm

/-!
Index-model lemmas for `Model/GateWindow.lean` (used by `Props/C02.lean`): the effective Hamiltonian that `two_site_tdvp`
builds for a pair / a site of the *generator MPO* of a two-qubit gate (`construct_generator_mpo`: bond dimension 1, identity
tensors outside the gate's two sites) in mixed canonical form.

* identity block + identity MPO tensor on the **left**  ⇒  `H_eff = 1 ⊗ K`, `K[(o,B),(p,b)] = Σ_r W[o,p,0,r]·R[b,r,B]`
  (`opR`), the same `K` for the pair `(i, i+1)` and for the site `i+1` after the split;
* identity block + identity MPO tensor on the **right** ⇒  `H_eff = K' ⊗ 1`, `K'[(o,A),(p,a)] = Σ_l W[o,p,l,0]·L[a,l,A]`
  (`opL`), the same `K'` for the site `i` and for the pair `(i, i+1)`;
* identity blocks on both sides of the gate's own pair    ⇒  `H_eff = A ⊗ B` on the two physical legs.

All statements are about `projectSite` (the contraction order of `project_site`) applied to `mergeKet` / `mergeOp` (the
contraction order and reshape of `merge_mps_tensors` / `merge_mpo_tensors`), over an arbitrary commutative semiring.
-/
namespace Yaqs.Heff

open Finset

section gate
variable {K : Type*} [CommSemiring K]

/-! ### entries of the merged MPO tensor -/

omit [CommSemiring K] in
theorem pairDims_l (d0 d1 : SiteDims) : (pairDims d0 d1).l = d0.l := rfl

/-- `merge_mpo_tensors` at a flattened (out, in) pair when the contracted MPO bond has dimension 1 -/
theorem mergeOp_flat (o1 p1 : ℕ) (W0 W1 : ℕ → ℕ → ℕ → ℕ → K) (a b c e l r : ℕ) (hb : b < o1) (he : e < p1) :
    mergeOp o1 p1 1 W0 W1 (flat2 o1 a b) (flat2 p1 c e) l r = W0 a c l 0 * W1 b e 0 r := by
  unfold mergeOp
  rw [unflat2_flat2 _ _ _ hb, unflat2_flat2 _ _ _ he]
  simp [sumTo]

/-- `Σ_r W_pair[(o0,o1),(p0,p1),0,r]·R[b,r,B] = W0[o0,p0,0,0] · Σ_r W1[o1,p1,0,r]·R[b,r,B]` -/
theorem opR_pair (d0 d1 : SiteDims) (W0 W1 : ℕ → ℕ → ℕ → ℕ → K) (R : ℕ → ℕ → ℕ → K) (o0 o1 p0 p1 b B : ℕ)
    (ho1 : o1 < d1.o) (hp1 : p1 < d1.p) :
    opR (pairDims d0 d1) (mergeOp d1.o d1.p 1 W0 W1) R (flat2 d1.o o0 o1) (flat2 d1.p p0 p1) b B 0 =
      W0 o0 p0 0 0 * opR d1 W1 R o1 p1 b B 0 := by
  unfold opR
  show ∑ r ∈ range d1.r, _ = _
  rw [Finset.mul_sum]
  refine Finset.sum_congr rfl fun r _ => ?_
  rw [mergeOp_flat _ _ _ _ _ _ _ _ _ _ ho1 hp1]
  ring

/-- `Σ_l W_pair[(o0,o1),(p0,p1),l,0]·L[a,l,A] = (Σ_l W0[o0,p0,l,0]·L[a,l,A]) · W1[o1,p1,0,0]` -/
theorem opL_pair (d0 d1 : SiteDims) (W0 W1 : ℕ → ℕ → ℕ → ℕ → K) (L : ℕ → ℕ → ℕ → K) (o0 o1 p0 p1 a A' : ℕ)
    (ho1 : o1 < d1.o) (hp1 : p1 < d1.p) :
    opL (pairDims d0 d1) (mergeOp d1.o d1.p 1 W0 W1) L (flat2 d1.o o0 o1) (flat2 d1.p p0 p1) a A' 0 =
      opL d0 W0 L o0 p0 a A' 0 * W1 o1 p1 0 0 := by
  unfold opL
  show ∑ l ∈ range d0.l, _ = _
  rw [Finset.sum_mul]
  refine Finset.sum_congr rfl fun l _ => ?_
  rw [mergeOp_flat _ _ _ _ _ _ _ _ _ _ ho1 hp1]
  ring

/-! ### identity block on the left -/

/-- a site whose left MPO bond has dimension 1 and whose left block is the identity: `project_site` acts on the
    `(phys, right bond)` legs only, with kernel `opR`; the left bond index `A'` is a spectator -/
theorem site_heff_idleft (d : SiteDims) (hl : d.l = 1) (ha : d.a = d.aa) (L R : ℕ → ℕ → ℕ → K)
    (W : ℕ → ℕ → ℕ → ℕ → K) (hL : IsIdEnv d.a L) (X : ℕ → ℕ → ℕ → K) (o A' B : ℕ) (hA : A' < d.aa) :
    projectSite d L R W X o A' B = ∑ p ∈ range d.p, ∑ b ∈ range d.b, opR d W R o p b B 0 * X p A' b := by
  unfold projectSite opR
  simp only [sumTo_eq_sum, hl, Finset.range_one, Finset.sum_singleton]
  have hA' : A' < d.a := ha ▸ hA
  rw [Finset.sum_congr rfl (fun a ha' => by rw [hL a A' (Finset.mem_range.mp ha') hA'])]
  rw [sum_delta_right d.a
    (fun a => ∑ p ∈ range d.p, ∑ r ∈ range d.r, W o p 0 r * ∑ b ∈ range d.b, X p a b * R b r B) A' hA']
  refine Finset.sum_congr rfl fun p _ => ?_
  simp only [Finset.mul_sum, Finset.sum_mul]
  rw [Finset.sum_comm]
  exact Finset.sum_congr rfl fun b _ => Finset.sum_congr rfl fun r _ => by ring

/-- the dense matrix of the same problem (`build_dense_heff_site` before its reshape): `h6 = δ_{a A'} · opR` -/
theorem dense_heff_idleft (d : SiteDims) (hl : d.l = 1) (L R : ℕ → ℕ → ℕ → K) (W : ℕ → ℕ → ℕ → ℕ → K)
    (hL : IsIdEnv d.a L) (o A' B p a b : ℕ) (ha : a < d.a) (hA : A' < d.a) :
    h6 d L R W o A' B p a b = if a = A' then opR d W R o p b B 0 else 0 := by
  unfold h6 opR
  simp only [sumTo_eq_sum, hl, Finset.range_one, Finset.sum_singleton]
  rw [hL a A' ha hA]
  by_cases h : a = A' <;> simp [h]

/-- the pair `(i, i+1)` with the identity MPO tensor on site `i` and the identity block to its left -/
theorem pair_heff_idleft (d0 d1 : SiteDims) (hop : d0.o = d0.p) (hl : d0.l = 1) (ha : d0.a = d0.aa)
    (L R : ℕ → ℕ → ℕ → K) (W1 : ℕ → ℕ → ℕ → ℕ → K) (hL : IsIdEnv d0.a L) (θ : ℕ → ℕ → ℕ → K)
    (o0 o1 A' B : ℕ) (ho0 : o0 < d0.o) (ho1 : o1 < d1.o) (hA : A' < d0.aa) :
    projectSite (pairDims d0 d1) L R (mergeOp d1.o d1.p 1 idOp W1) θ (flat2 d1.o o0 o1) A' B =
      ∑ p ∈ range d1.p, ∑ b ∈ range d1.b, opR d1 W1 R o1 p b B 0 * θ (flat2 d1.p o0 p) A' b := by
  rw [site_heff_idleft (pairDims d0 d1) hl ha L R _ hL θ _ A' B hA]
  show ∑ pp ∈ range (d0.p * d1.p), ∑ b ∈ range d1.b, _ = _
  rw [sum_range_flat2]
  have hstep : ∀ p0 ∈ range d0.p,
      (∑ p1 ∈ range d1.p, ∑ b ∈ range d1.b,
        opR (pairDims d0 d1) (mergeOp d1.o d1.p 1 idOp W1) R (flat2 d1.o o0 o1) (flat2 d1.p p0 p1) b B 0 *
          θ (flat2 d1.p p0 p1) A' b) =
      (if o0 = p0 then 1 else 0) *
        ∑ p1 ∈ range d1.p, ∑ b ∈ range d1.b, opR d1 W1 R o1 p1 b B 0 * θ (flat2 d1.p p0 p1) A' b := by
    intro p0 _
    rw [Finset.mul_sum]
    refine Finset.sum_congr rfl fun p1 hp1 => ?_
    rw [Finset.mul_sum]
    refine Finset.sum_congr rfl fun b _ => ?_
    rw [opR_pair d0 d1 idOp W1 R o0 o1 p0 p1 b B ho1 (Finset.mem_range.mp hp1)]
    simp only [idOp]
    ring
  rw [Finset.sum_congr rfl hstep]
  exact sum_delta_left d0.p
    (fun p0 => ∑ p1 ∈ range d1.p, ∑ b ∈ range d1.b, opR d1 W1 R o1 p1 b B 0 * θ (flat2 d1.p p0 p1) A' b) o0
    (hop ▸ ho0)

/-! ### identity block on the right -/

/-- a site whose right MPO bond has dimension 1 and whose right block is the identity: `project_site` acts on the
    `(phys, left bond)` legs only, with kernel `opL`; the right bond index `B` is a spectator -/
theorem site_heff_idright (d : SiteDims) (hr : d.r = 1) (hb : d.b = d.bb) (L R : ℕ → ℕ → ℕ → K)
    (W : ℕ → ℕ → ℕ → ℕ → K) (hR : IsIdEnv d.b R) (X : ℕ → ℕ → ℕ → K) (o A' B : ℕ) (hB : B < d.bb) :
    projectSite d L R W X o A' B = ∑ p ∈ range d.p, ∑ a ∈ range d.a, opL d W L o p a A' 0 * X p a B := by
  unfold projectSite opL
  simp only [sumTo_eq_sum, hr, Finset.range_one, Finset.sum_singleton]
  have hB' : B < d.b := hb ▸ hB
  have e1 : ∀ p a, ∑ b ∈ range d.b, X p a b * R b 0 B = X p a B := by
    intro p a
    rw [Finset.sum_congr rfl (fun b hb' => by rw [hR b B (Finset.mem_range.mp hb') hB'])]
    exact sum_delta_right d.b (fun b => X p a b) B hB'
  simp only [e1, Finset.sum_mul]
  calc ∑ a ∈ range d.a, ∑ l ∈ range d.l, ∑ p ∈ range d.p, W o p l 0 * X p a B * L a l A'
      = ∑ a ∈ range d.a, ∑ p ∈ range d.p, ∑ l ∈ range d.l, W o p l 0 * X p a B * L a l A' :=
        Finset.sum_congr rfl fun a _ => Finset.sum_comm
    _ = ∑ p ∈ range d.p, ∑ a ∈ range d.a, ∑ l ∈ range d.l, W o p l 0 * X p a B * L a l A' := Finset.sum_comm
    _ = _ := Finset.sum_congr rfl fun p _ => Finset.sum_congr rfl fun a _ => Finset.sum_congr rfl fun l _ => by ring

/-- the dense matrix of the same problem: `h6 = δ_{b B} · opL` -/
theorem dense_heff_idright (d : SiteDims) (hr : d.r = 1) (L R : ℕ → ℕ → ℕ → K) (W : ℕ → ℕ → ℕ → ℕ → K)
    (hR : IsIdEnv d.b R) (o A' B p a b : ℕ) (hb : b < d.b) (hB : B < d.b) :
    h6 d L R W o A' B p a b = if b = B then opL d W L o p a A' 0 else 0 := by
  unfold h6 opL
  simp only [sumTo_eq_sum, hr, Finset.range_one, Finset.sum_singleton]
  rw [hR b B hb hB]
  by_cases h : b = B <;> simp [h]

/-- the pair `(i, i+1)` with the identity MPO tensor on site `i+1` and the identity block to its right -/
theorem pair_heff_idright (d0 d1 : SiteDims) (hop : d1.o = d1.p) (hr : d1.r = 1) (hb : d1.b = d1.bb)
    (L R : ℕ → ℕ → ℕ → K) (W0 : ℕ → ℕ → ℕ → ℕ → K) (hR : IsIdEnv d1.b R) (θ : ℕ → ℕ → ℕ → K)
    (o0 o1 A' B : ℕ) (ho1 : o1 < d1.o) (hB : B < d1.bb) :
    projectSite (pairDims d0 d1) L R (mergeOp d1.o d1.p 1 W0 idOp) θ (flat2 d1.o o0 o1) A' B =
      ∑ p ∈ range d0.p, ∑ a ∈ range d0.a, opL d0 W0 L o0 p a A' 0 * θ (flat2 d1.p p o1) a B := by
  rw [site_heff_idright (pairDims d0 d1) hr hb L R _ hR θ _ A' B hB]
  show ∑ pp ∈ range (d0.p * d1.p), ∑ a ∈ range d0.a, _ = _
  rw [sum_range_flat2]
  refine Finset.sum_congr rfl fun p0 _ => ?_
  have hstep : ∀ p1 ∈ range d1.p,
      (∑ a ∈ range d0.a,
        opL (pairDims d0 d1) (mergeOp d1.o d1.p 1 W0 idOp) L (flat2 d1.o o0 o1) (flat2 d1.p p0 p1) a A' 0 *
          θ (flat2 d1.p p0 p1) a B) =
      (if o1 = p1 then 1 else 0) * ∑ a ∈ range d0.a, opL d0 W0 L o0 p0 a A' 0 * θ (flat2 d1.p p0 p1) a B := by
    intro p1 hp1
    rw [Finset.mul_sum]
    refine Finset.sum_congr rfl fun a _ => ?_
    rw [opL_pair d0 d1 W0 idOp L o0 o1 p0 p1 a A' ho1 (Finset.mem_range.mp hp1)]
    simp only [idOp]
    ring
  rw [Finset.sum_congr rfl hstep]
  exact sum_delta_left d1.p
    (fun p1 => ∑ a ∈ range d0.a, opL d0 W0 L o0 p0 a A' 0 * θ (flat2 d1.p p0 p1) a B) o1 (hop ▸ ho1)

/-! ### the gate's own pair -/

/-- both blocks identities, the two generator factors on the two sites: `project_site` applies `A ⊗ B` to the two physical
    legs of the merged tensor; both bond indices are spectators -/
theorem pair_heff_gate (d0 d1 : SiteDims) (hl : d0.l = 1) (ha : d0.a = d0.aa) (hr : d1.r = 1) (hb : d1.b = d1.bb)
    (L R : ℕ → ℕ → ℕ → K) (GA GB : ℕ → ℕ → K) (hL : IsIdEnv d0.a L) (hR : IsIdEnv d1.b R)
    (θ : ℕ → ℕ → ℕ → K) (o0 o1 A' B : ℕ) (ho1 : o1 < d1.o) (hA : A' < d0.aa) (hB : B < d1.bb) :
    projectSite (pairDims d0 d1) L R (mergeOp d1.o d1.p 1 (genOp GA) (genOp GB)) θ (flat2 d1.o o0 o1) A' B =
      ∑ p0 ∈ range d0.p, ∑ p1 ∈ range d1.p, GA o0 p0 * GB o1 p1 * θ (flat2 d1.p p0 p1) A' B := by
  rw [site_heff_idleft (pairDims d0 d1) hl ha L R _ hL θ _ A' B hA]
  show ∑ pp ∈ range (d0.p * d1.p), ∑ b ∈ range d1.b, _ = _
  rw [sum_range_flat2]
  have hB' : B < d1.b := hb ▸ hB
  refine Finset.sum_congr rfl fun p0 _ => Finset.sum_congr rfl fun p1 hp1 => ?_
  have hk : ∀ b ∈ range d1.b,
      opR (pairDims d0 d1) (mergeOp d1.o d1.p 1 (genOp GA) (genOp GB)) R (flat2 d1.o o0 o1) (flat2 d1.p p0 p1) b B 0 *
          θ (flat2 d1.p p0 p1) A' b =
        (GA o0 p0 * GB o1 p1 * θ (flat2 d1.p p0 p1) A' b) * (if b = B then 1 else 0) := by
    intro b hb'
    rw [opR_pair d0 d1 _ _ R o0 o1 p0 p1 b B ho1 (Finset.mem_range.mp hp1)]
    unfold opR
    simp only [hr, Finset.range_one, Finset.sum_singleton, genOp]
    rw [hR b B (Finset.mem_range.mp hb') hB']
    ring
  rw [Finset.sum_congr rfl hk]
  exact sum_delta_right d1.b (fun b => GA o0 p0 * GB o1 p1 * θ (flat2 d1.p p0 p1) A' b) B hB'

/-! ### the blocks stay identities along the sweep -/

/-- `left_blocks[i+1] = update_left_environment(U, U, 1, left_blocks[i])` is the identity when `left_blocks[i]` is and the
    columns of the new left tensor `U` (the `U` factor of an untruncated split) are orthonormal -/
theorem left_block_stays_identity (cj : K → K) (s : Site K) (hs : IdSite s) (hiso : LeftIsoIdx cj s)
    (L : ℕ → ℕ → ℕ → K) (hL : IsIdEnv s.d.a L) : IsIdEnv s.d.b (updateLeft cj s.d L s.W s.ket s.ket) :=
  leftEnvChain_isId cj s.d.a [s] ⟨rfl, hs, hiso, trivial⟩ L hL

end gate

end Yaqs.Heff
