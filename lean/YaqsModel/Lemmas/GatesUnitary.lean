import YaqsModel.Lemmas.Gates

/-! unitarity of every gate of the table  (one lemma per gate; assembled into the property theorems in `Props/C18.lean`) -/
namespace Yaqs.Gates
open Matrix

variable {K : Type} [CommRing K]
set_option linter.unusedVariables false
set_option linter.unusedSectionVars false
variable [StarRing K]

theorem unitary_x  : IsUnitary (x : M2 K) := by gate_entries

theorem unitary_y (i : K) (hi : i * i = -1) (hsi : star i = -i) : IsUnitary (y i) := by gate_entries

theorem unitary_z  : IsUnitary (z : M2 K) := by gate_entries

theorem unitary_h (hh : K) (hhh : 2 * hh * hh = 1) (hsh : star hh = hh) : IsUnitary (h hh) := by gate_entries

theorem unitary_sx (i hf : K) (hi : i * i = -1) (hsi : star i = -i) (hhf : 2 * hf = 1) (hshf : star hf = hf) : IsUnitary (sx i hf) := by gate_entries

theorem unitary_one2  : IsUnitary (one2 : M2 K) := by gate_entries

theorem unitary_rx (i c s : K) (hi : i * i = -1) (hsi : star i = -i) (hc : star c = c) (hs : star s = s) (h1 : c * c + s * s = 1) : IsUnitary (rx i c s) := by gate_entries

theorem unitary_ry (c s : K) (hc : star c = c) (hs : star s = s) (h1 : c * c + s * s = 1) : IsUnitary (ry c s) := by gate_entries

theorem unitary_rz (i c s : K) (hi : i * i = -1) (hsi : star i = -i) (hc : star c = c) (hs : star s = s) (h1 : c * c + s * s = 1) : IsUnitary (rz i c s) := by gate_entries

theorem unitary_phase (i c s : K) (hi : i * i = -1) (hsi : star i = -i) (hc : star c = c) (hs : star s = s) (h1 : c * c + s * s = 1) : IsUnitary (phase i c s) := by gate_entries

theorem unitary_u (c s ephi elam : K) (hc : star c = c) (hs : star s = s) (h1 : c * c + s * s = 1) (hphi : ephi * star ephi = 1) (hlam : elam * star elam = 1) : IsUnitary (u c s ephi elam) := by gate_entries

theorem unitary_u2 (hh ephi elam : K) (hhh : 2 * hh * hh = 1) (hsh : star hh = hh) (hphi : ephi * star ephi = 1) (hlam : elam * star elam = 1) : IsUnitary (u2 hh ephi elam) := by gate_entries

theorem unitary_cx  : IsUnitary (cx : M4 K) := by gate_entries

theorem unitary_cz  : IsUnitary (cz : M4 K) := by gate_entries

theorem unitary_cp (i c s : K) (hi : i * i = -1) (hsi : star i = -i) (hc : star c = c) (hs : star s = s) (h1 : c * c + s * s = 1) : IsUnitary (cp i c s) := by gate_entries

theorem unitary_swap  : IsUnitary (swap : M4 K) := by gate_entries

theorem unitary_rxx (i c s : K) (hi : i * i = -1) (hsi : star i = -i) (hc : star c = c) (hs : star s = s) (h1 : c * c + s * s = 1) : IsUnitary (rxx i c s) := by gate_entries

theorem unitary_ryy (i c s : K) (hi : i * i = -1) (hsi : star i = -i) (hc : star c = c) (hs : star s = s) (h1 : c * c + s * s = 1) : IsUnitary (ryy i c s) := by gate_entries

theorem unitary_rzz (i c s : K) (hi : i * i = -1) (hsi : star i = -i) (hc : star c = c) (hs : star s = s) (h1 : c * c + s * s = 1) : IsUnitary (rzz i c s) := by gate_entries

theorem unitary_xx  : IsUnitary (xx : M4 K) := by gate_entries

theorem unitary_yy (i : K) (hi : i * i = -1) (hsi : star i = -i) : IsUnitary (yy i) := by gate_entries

theorem unitary_zz  : IsUnitary (zz : M4 K) := by gate_entries

end Yaqs.Gates
