import Mathlib.LinearAlgebra.Matrix.Kronecker
import Mathlib.Algebra.BigOperators.Fin
import Mathlib.Algebra.Star.BigOperators
import Mathlib.Data.Matrix.Mul
import Mathlib.Data.Fintype.Pi
import Mathlib.Tactic.Ring

/-!
# Embedding a local operator into the operator on all sites (C04, end-to-end extension)

A configuration of `n` sites with local dimension `d` is a function `Fin n → Fin d`; the operators the equivalence checker
talks about are matrices indexed by configurations.  "The gate acts on sites `S` and is the identity elsewhere" is expressed
through a *lens* `(get, put)` onto the part of the configuration the gate sees:

    embedL L G σ τ = if τ agrees with σ outside the focus (put σ (get τ) = τ) then G (get σ) (get τ) else 0

All algebra (`embedL_mul`, `embedL_one`, `embedL_conjTranspose`, commutation of independent lenses, a product lens for
"site p and site q") is proved once for abstract lenses and then instantiated for `Function.update` at one site / two sites.
-/
namespace Yaqs.Embed
open Matrix
open scoped Kronecker

universe u v w

/-- a very well behaved lens from configurations `C` onto the local part `X` -/
structure Lens (C : Type u) (X : Type v) where
  get : C → X
  put : C → X → C
  get_put : ∀ σ x, get (put σ x) = x
  put_get : ∀ σ, put σ (get σ) = σ
  put_put : ∀ σ x y, put (put σ x) y = put σ y

/-- two lenses that look at disjoint parts of the configuration -/
structure Indep {C : Type u} {X : Type v} {Y : Type w} (L1 : Lens C X) (L2 : Lens C Y) : Prop where
  get1_put2 : ∀ σ y, L1.get (L2.put σ y) = L1.get σ
  get2_put1 : ∀ σ x, L2.get (L1.put σ x) = L2.get σ
  put_comm : ∀ σ x y, L2.put (L1.put σ x) y = L1.put (L2.put σ y) x

theorem Indep.symm {C : Type u} {X : Type v} {Y : Type w} {L1 : Lens C X} {L2 : Lens C Y} (h : Indep L1 L2) :
    Indep L2 L1 :=
  ⟨h.get2_put1, h.get1_put2, fun σ y x => (h.put_comm σ x y).symm⟩

/-- the lens onto two independent parts at once -/
def Lens.prod {C : Type u} {X : Type v} {Y : Type w} (L1 : Lens C X) (L2 : Lens C Y) (h : Indep L1 L2) : Lens C (X × Y) where
  get σ := (L1.get σ, L2.get σ)
  put σ x := L2.put (L1.put σ x.1) x.2
  get_put σ x := by
    rw [h.get1_put2, L1.get_put, L2.get_put]
  put_get σ := by
    show L2.put (L1.put σ (L1.get σ)) (L2.get σ) = σ
    rw [L1.put_get, L2.put_get]
  put_put σ x y := by
    show L2.put (L1.put (L2.put (L1.put σ x.1) x.2) y.1) y.2 = L2.put (L1.put σ y.1) y.2
    rw [← h.put_comm (L1.put σ x.1) y.1 x.2, L2.put_put, L1.put_put]

theorem Indep.prod_left {C : Type u} {X : Type v} {Y : Type w} {Z : Type*} {L1 : Lens C X} {L2 : Lens C Y} {L3 : Lens C Z}
    (h12 : Indep L1 L2) (h13 : Indep L1 L3) (h23 : Indep L2 L3) : Indep (L1.prod L2 h12) L3 where
  get1_put2 σ z := by
    show (L1.get (L3.put σ z), L2.get (L3.put σ z)) = (L1.get σ, L2.get σ)
    rw [h13.get1_put2, h23.get1_put2]
  get2_put1 σ x := by
    show L3.get (L2.put (L1.put σ x.1) x.2) = L3.get σ
    rw [h23.get2_put1, h13.get2_put1]
  put_comm σ x z := by
    show L3.put (L2.put (L1.put σ x.1) x.2) z = L2.put (L1.put (L3.put σ z) x.1) x.2
    rw [h23.put_comm, h13.put_comm]

theorem Indep.prod_right {C : Type u} {X : Type v} {Y : Type w} {Z : Type*} {L1 : Lens C X} {L2 : Lens C Y} {L3 : Lens C Z}
    (h23 : Indep L2 L3) (h12 : Indep L1 L2) (h13 : Indep L1 L3) : Indep L1 (L2.prod L3 h23) :=
  (Indep.prod_left h23 h12.symm h13.symm).symm

section embed
variable {C : Type u} {X : Type v} {Y : Type w} {K : Type*}

/-- the operator on configurations that acts as `G` on the focus of the lens and as the identity elsewhere -/
def embedL [DecidableEq C] [Zero K] (L : Lens C X) (G : Matrix X X K) : Matrix C C K :=
  fun σ τ => if L.put σ (L.get τ) = τ then G (L.get σ) (L.get τ) else 0

/-- "τ agrees with σ outside the focus" is symmetric -/
theorem agree_symm (L : Lens C X) (σ τ : C) : L.put σ (L.get τ) = τ ↔ L.put τ (L.get σ) = σ := by
  constructor
  · intro h
    rw [← h, L.put_put, L.put_get]
  · intro h
    rw [← h, L.put_put, L.put_get]

variable [Fintype C] [DecidableEq C] [Fintype X] [CommSemiring K]

/-- **the reindexing lemma**: a sum over all configurations against a row of an embedded operator is a sum over the
    local values only -/
theorem sum_embedL_left (L : Lens C X) (G : Matrix X X K) (σ : C) (F : C → K) :
    ∑ τ, embedL L G σ τ * F τ = ∑ x, G (L.get σ) x * F (L.put σ x) := by
  classical
  have h1 : ∑ τ, embedL L G σ τ * F τ
      = ∑ τ ∈ Finset.univ.filter (fun τ => L.put σ (L.get τ) = τ), G (L.get σ) (L.get τ) * F τ := by
    rw [Finset.sum_filter]
    refine Finset.sum_congr rfl fun τ _ => ?_
    unfold embedL
    split_ifs <;> simp
  rw [h1]
  refine Finset.sum_bij' (fun τ _ => L.get τ) (fun x _ => L.put σ x) ?_ ?_ ?_ ?_ ?_
  · intro τ _; exact Finset.mem_univ _
  · intro x _
    simp only [Finset.mem_filter, Finset.mem_univ, true_and]
    rw [L.get_put]
  · intro τ hτ
    simp only [Finset.mem_filter, Finset.mem_univ, true_and] at hτ
    exact hτ
  · intro x _; exact L.get_put σ x
  · intro τ hτ
    simp only [Finset.mem_filter, Finset.mem_univ, true_and] at hτ
    rw [hτ]

/-- the same for a column -/
theorem sum_embedL_right (L : Lens C X) (G : Matrix X X K) (ρ : C) (F : C → K) :
    ∑ τ, F τ * embedL L G τ ρ = ∑ x, F (L.put ρ x) * G x (L.get ρ) := by
  classical
  have h1 : ∑ τ, F τ * embedL L G τ ρ
      = ∑ τ ∈ Finset.univ.filter (fun τ => L.put ρ (L.get τ) = τ), F τ * G (L.get τ) (L.get ρ) := by
    rw [Finset.sum_filter]
    refine Finset.sum_congr rfl fun τ _ => ?_
    unfold embedL
    by_cases h : L.put τ (L.get ρ) = ρ
    · rw [if_pos h, if_pos ((agree_symm L τ ρ).mp h)]
    · rw [if_neg h, if_neg (fun h' => h ((agree_symm L τ ρ).mpr h'))]
      simp
  rw [h1]
  refine Finset.sum_bij' (fun τ _ => L.get τ) (fun x _ => L.put ρ x) ?_ ?_ ?_ ?_ ?_
  · intro τ _; exact Finset.mem_univ _
  · intro x _
    simp only [Finset.mem_filter, Finset.mem_univ, true_and]
    rw [L.get_put]
  · intro τ hτ
    simp only [Finset.mem_filter, Finset.mem_univ, true_and] at hτ
    exact hτ
  · intro x _; exact L.get_put ρ x
  · intro τ hτ
    simp only [Finset.mem_filter, Finset.mem_univ, true_and] at hτ
    rw [hτ]

/-- **same sites**: the embedding is multiplicative -/
theorem embedL_mul (L : Lens C X) (G H : Matrix X X K) : embedL L G * embedL L H = embedL L (G * H) := by
  ext σ ρ
  rw [Matrix.mul_apply, sum_embedL_left]
  simp only [embedL, L.put_put, L.get_put]
  by_cases h : L.put σ (L.get ρ) = ρ
  · simp only [h, if_true, Matrix.mul_apply]
  · simp only [h, if_false, mul_zero, Finset.sum_const_zero]

omit [Fintype C] [Fintype X] in
/-- the embedding of the identity is the identity -/
theorem embedL_one [DecidableEq X] (L : Lens C X) : embedL L (1 : Matrix X X K) = 1 := by
  ext σ ρ
  simp only [embedL, Matrix.one_apply]
  by_cases h : σ = ρ
  · subst h
    simp [L.put_get]
  · rw [if_neg h]
    by_cases h1 : L.put σ (L.get ρ) = ρ
    · rw [if_pos h1, if_neg]
      intro h2
      apply h
      rw [← h1, ← h2, L.put_get]
    · rw [if_neg h1]

omit [Fintype C] [Fintype X] in
/-- the embedding commutes with the adjoint -/
theorem embedL_conjTranspose [StarRing K] (L : Lens C X) (G : Matrix X X K) : (embedL L G)ᴴ = embedL L Gᴴ := by
  ext σ ρ
  simp only [conjTranspose_apply, embedL]
  by_cases h : L.put ρ (L.get σ) = σ
  · rw [if_pos h, if_pos ((agree_symm L ρ σ).mp h)]
  · rw [if_neg h, if_neg (fun h' => h ((agree_symm L ρ σ).mpr h')), star_zero]

/-- the embedding of an ordered product is the ordered product of the embeddings -/
theorem embedL_list_prod [DecidableEq X] (L : Lens C X) (Gs : List (Matrix X X K)) :
    embedL L Gs.prod = (Gs.map (embedL L)).prod := by
  induction Gs with
  | nil => simp [embedL_one]
  | cons G Gs ih => rw [List.prod_cons, List.map_cons, List.prod_cons, ← embedL_mul, ih]

variable [Fintype Y]

omit [Fintype Y] in
/-- product of two embedded operators on independent parts, in closed form -/
theorem embedL_mul_indep (L1 : Lens C X) (L2 : Lens C Y) (h : Indep L1 L2) (G : Matrix X X K) (H : Matrix Y Y K) (σ ρ : C) :
    (embedL L1 G * embedL L2 H) σ ρ
      = if L2.put (L1.put σ (L1.get ρ)) (L2.get ρ) = ρ then G (L1.get σ) (L1.get ρ) * H (L2.get σ) (L2.get ρ) else 0 := by
  classical
  rw [Matrix.mul_apply, sum_embedL_left]
  simp only [embedL, h.get2_put1]
  rw [Finset.sum_eq_single (L1.get ρ)]
  · split_ifs <;> simp
  · intro x _ hx
    rw [if_neg, mul_zero]
    intro hc
    apply hx
    have := congrArg L1.get hc
    rw [h.get1_put2, L1.get_put] at this
    exact this
  · intro hn
    exact absurd (Finset.mem_univ _) hn

/-- **disjoint sites**: embedded operators on independent parts commute -/
theorem embedL_commute (L1 : Lens C X) (L2 : Lens C Y) (h : Indep L1 L2) (G : Matrix X X K) (H : Matrix Y Y K) :
    Commute (embedL L1 G) (embedL L2 H) := by
  show embedL L1 G * embedL L2 H = embedL L2 H * embedL L1 G
  ext σ ρ
  rw [embedL_mul_indep L1 L2 h, embedL_mul_indep L2 L1 h.symm, h.put_comm, mul_comm]

variable [DecidableEq X] [DecidableEq Y]

omit [Fintype C] [Fintype X] [Fintype Y] [DecidableEq X] in
/-- `G ⊗ 1` on a pair of independent parts is `G` on the first part -/
theorem embedL_prod_kron_one (L1 : Lens C X) (L2 : Lens C Y) (h : Indep L1 L2) (G : Matrix X X K) :
    embedL (L1.prod L2 h) (G ⊗ₖ (1 : Matrix Y Y K)) = embedL L1 G := by
  ext σ ρ
  have key : (L2.put (L1.put σ (L1.get ρ)) (L2.get ρ) = ρ ∧ L2.get σ = L2.get ρ) ↔ L1.put σ (L1.get ρ) = ρ := by
    constructor
    · rintro ⟨h3, h2⟩
      rw [← h2, ← h.get2_put1 σ (L1.get ρ), L2.put_get] at h3
      exact h3
    · intro h1
      have h2 : L2.get σ = L2.get ρ := by rw [← h1, h.get2_put1]
      exact ⟨by rw [h1, L2.put_get], h2⟩
  show (if L2.put (L1.put σ (L1.get ρ)) (L2.get ρ) = ρ then
      G (L1.get σ) (L1.get ρ) * (1 : Matrix Y Y K) (L2.get σ) (L2.get ρ) else 0)
    = if L1.put σ (L1.get ρ) = ρ then G (L1.get σ) (L1.get ρ) else 0
  by_cases h1 : L1.put σ (L1.get ρ) = ρ
  · obtain ⟨h3, h2⟩ := key.mpr h1
    rw [if_pos h1, if_pos h3, h2, Matrix.one_apply_eq, mul_one]
  · rw [if_neg h1]
    by_cases h3 : L2.put (L1.put σ (L1.get ρ)) (L2.get ρ) = ρ
    · have h2 : ¬ L2.get σ = L2.get ρ := fun h2 => h1 (key.mp ⟨h3, h2⟩)
      rw [if_pos h3, Matrix.one_apply_ne h2, mul_zero]
    · rw [if_neg h3]

omit [Fintype C] [Fintype X] [Fintype Y] [DecidableEq Y] in
/-- `1 ⊗ H` on a pair of independent parts is `H` on the second part -/
theorem embedL_prod_one_kron (L1 : Lens C X) (L2 : Lens C Y) (h : Indep L1 L2) (H : Matrix Y Y K) :
    embedL (L1.prod L2 h) ((1 : Matrix X X K) ⊗ₖ H) = embedL L2 H := by
  ext σ ρ
  have key : (L2.put (L1.put σ (L1.get ρ)) (L2.get ρ) = ρ ∧ L1.get σ = L1.get ρ) ↔ L2.put σ (L2.get ρ) = ρ := by
    constructor
    · rintro ⟨h3, h2⟩
      rw [← h2, L1.put_get] at h3
      exact h3
    · intro h1
      have h2 : L1.get σ = L1.get ρ := by rw [← h1, h.get1_put2]
      exact ⟨by rw [← h2, L1.put_get, h1], h2⟩
  show (if L2.put (L1.put σ (L1.get ρ)) (L2.get ρ) = ρ then
      (1 : Matrix X X K) (L1.get σ) (L1.get ρ) * H (L2.get σ) (L2.get ρ) else 0)
    = if L2.put σ (L2.get ρ) = ρ then H (L2.get σ) (L2.get ρ) else 0
  by_cases h1 : L2.put σ (L2.get ρ) = ρ
  · obtain ⟨h3, h2⟩ := key.mpr h1
    rw [if_pos h1, if_pos h3, h2, Matrix.one_apply_eq, one_mul]
  · rw [if_neg h1]
    by_cases h3 : L2.put (L1.put σ (L1.get ρ)) (L2.get ρ) = ρ
    · have h2 : ¬ L1.get σ = L1.get ρ := fun h2 => h1 (key.mp ⟨h3, h2⟩)
      rw [if_pos h3, Matrix.one_apply_ne h2, zero_mul]
    · rw [if_neg h3]

end embed

/-! ## sites of a register: `Function.update` lenses -/

section sites
variable {ι : Type u} {S : Type v} [DecidableEq ι]

/-- the lens onto site `p` -/
def siteLens (p : ι) : Lens (ι → S) S where
  get σ := σ p
  put σ x := Function.update σ p x
  get_put σ x := Function.update_self p x σ
  put_get σ := Function.update_eq_self p σ
  put_put σ x y := Function.update_idem x y σ

theorem siteLens_indep {p q : ι} (h : p ≠ q) : Indep (siteLens p : Lens (ι → S) S) (siteLens q) where
  get1_put2 σ y := by
    show Function.update σ q y p = σ p
    exact Function.update_of_ne h y σ
  get2_put1 σ x := by
    show Function.update σ p x q = σ q
    exact Function.update_of_ne h.symm x σ
  put_comm σ x y := by
    show Function.update (Function.update σ p x) q y = Function.update (Function.update σ q y) p x
    exact Function.update_comm h x y σ

/-- the lens onto the ordered pair of sites `(p, q)` -/
def pairLens (p q : ι) (h : p ≠ q) : Lens (ι → S) (S × S) := (siteLens p).prod (siteLens q) (siteLens_indep h)

theorem pairLens_get (p q : ι) (h : p ≠ q) (σ : ι → S) : (pairLens p q h).get σ = (σ p, σ q) := rfl

theorem pairLens_put (p q : ι) (h : p ≠ q) (σ : ι → S) (x : S × S) :
    (pairLens p q h).put σ x = Function.update (Function.update σ p x.1) q x.2 := rfl

theorem site_pair_indep {p q r : ι} (hpq : p ≠ q) (hrp : r ≠ p) (hrq : r ≠ q) :
    Indep (siteLens r : Lens (ι → S) S) (pairLens p q hpq) :=
  Indep.prod_right (siteLens_indep hpq) (siteLens_indep hrp) (siteLens_indep hrq)

theorem pair_pair_indep {p q r s : ι} (hpq : p ≠ q) (hrs : r ≠ s) (hpr : p ≠ r) (hps : p ≠ s) (hqr : q ≠ r) (hqs : q ≠ s) :
    Indep (pairLens p q hpq : Lens (ι → S) (S × S)) (pairLens r s hrs) :=
  Indep.prod_left (siteLens_indep hpq) (site_pair_indep hrs hpr hps) (site_pair_indep hrs hqr hqs)

end sites

end Yaqs.Embed
