import YaqsModel.Model.Trotter
import Mathlib.Algebra.Ring.Defs
import Mathlib.Algebra.BigOperators.Group.List.Basic
import Mathlib.Tactic.Ring

/-! helper lemmas for C07: the hand-written 4-state tables -/
namespace Yaqs.Trotter

theorem bhFull_eq : fullMat bhTable =
    [[.id, .up, .dn, .hloc], [.zero, .zero, .zero, .dnJ], [.zero, .zero, .zero, .upJ], [.zero, .zero, .zero, .id]] := by
  decide

theorem getLast?_cons_append_singleton {β : Type} (a : β) (l : List β) (c : β) :
    (a :: (l ++ [c])).getLast? = some c := by
  rw [← List.cons_append, List.getLast?_append]; simp

theorem replicate_set_last {β : Type} (n : Nat) (x y : β) : (List.replicate (n + 1) x).set n y = List.replicate n x ++ [y] := by
  induction n with
  | zero => rfl
  | succ n ih => rw [List.replicate_succ, List.set_cons_succ, ih]; rfl

/-- `bose_hubbard(length ≥ 2)`: row 0, `length - 2` full tables, column 3 -/
theorem bhTensors_succ_succ (n : Nat) :
    bhTensors (n + 2) =
      [[.id, .up, .dn, .hloc]] :: (List.replicate n (fullMat bhTable) ++ [[[.hloc], [.dnJ], [.upJ], [.id]]]) := by
  unfold bhTensors
  simp only [bhFull_eq]
  rw [List.replicate_succ, List.set_cons_zero, show n + 2 - 1 = n + 1 by omega, List.set_cons_succ, replicate_set_last]
  rfl

/-- all non-zero blocks equal to 1: the path sum counts the terms of the chain (used in examples / counterexample) -/
def onesB : Nat → Blk → Unit → Unit → Nat := fun _ s _ _ => if s = .zero then 0 else 1

section blk
variable {K : Type} [CommSemiring K] {α : Type}

/-- state values of the Bose–Hubbard automaton to the left of site `k` with `n + 1` sites to go:
    `[finished chain, waiting for a (-J·a came from a†), waiting for a†, nothing placed yet]` -/
theorem bh_vals (B : Nat → Blk → α → α → K) (σ σ' : Nat → α) (hz : ∀ i a b, B i .zero a b = 0) (n k : Nat) :
    blkVals B σ σ' (List.replicate n (fullMat bhTable) ++ [[[.hloc], [.dnJ], [.upJ], [.id]]]) k =
      [bhChain B σ σ' k (n + 1), bv B σ σ' k .dnJ * idProd B σ σ' (k + 1) n,
       bv B σ σ' k .upJ * idProd B σ σ' (k + 1) n, idProd B σ σ' k (n + 1)] := by
  induction n generalizing k with
  | zero =>
    simp only [List.replicate_zero, List.nil_append, blkVals, blkApply, dot, List.map_cons, List.map_nil, bhChain,
      idProd, bv]
    simp
  | succ n ih =>
    rw [List.replicate_succ, List.cons_append, blkVals, ih, bhFull_eq]
    simp only [blkApply, dot, List.map_cons, List.map_nil, hz, bhChain, idProd, bv, List.cons.injEq, and_true]
    refine ⟨by ring, by ring, by ring, by ring⟩

theorem sum_map_mul_left' {τ : Type} (l : List τ) (c : K) (f : τ → K) :
    (l.map fun t => c * f t).sum = c * (l.map f).sum := by
  induction l with
  | nil => simp
  | cons x xs ih => simp [ih, mul_add]

/-- the recursive chain (what the automaton computes) is the explicit sum over sites and bonds -/
theorem bhChain_eq_sum (B : Nat → Blk → α → α → K) (σ σ' : Nat → α) (n k : Nat) :
    bhChain B σ σ' k n = bhChainSum B σ σ' k n := by
  induction n generalizing k with
  | zero => simp [bhChain, bhChainSum]
  | succ n ih =>
    cases n with
    | zero => simp [bhChain, bhChainSum, idProd]
    | succ m =>
      rw [bhChain, ih (k + 1)]
      unfold bhChainSum
      have e1 : (List.range (m + 1 + 1)).map (fun i =>
            idProd B σ σ' k i * bv B σ σ' (k + i) .hloc * idProd B σ σ' (k + i + 1) (m + 1 + 1 - i - 1)) =
          (bv B σ σ' k .hloc * idProd B σ σ' (k + 1) (m + 1)) ::
            (List.range (m + 1)).map (fun i => bv B σ σ' k .id *
              (idProd B σ σ' (k + 1) i * bv B σ σ' (k + 1 + i) .hloc * idProd B σ σ' (k + 1 + i + 1) (m + 1 - i - 1))) := by
        rw [List.range_succ_eq_map, List.map_cons, List.map_map]
        congr 1
        · simp [idProd]
        · apply List.map_congr_left
          intro i _
          have a1 : k + (i + 1) = k + 1 + i := by omega
          have a2 : m + 1 + 1 - (i + 1) - 1 = m + 1 - i - 1 := by omega
          simp only [Function.comp, idProd, a1, a2]
          ring
      have e2 : (List.range (m + 1 + 1 - 1)).map (fun i =>
            idProd B σ σ' k i
              * (bv B σ σ' (k + i) .up * bv B σ σ' (k + i + 1) .dnJ + bv B σ σ' (k + i) .dn * bv B σ σ' (k + i + 1) .upJ)
              * idProd B σ σ' (k + i + 2) (m + 1 + 1 - i - 2)) =
          ((bv B σ σ' k .up * bv B σ σ' (k + 1) .dnJ + bv B σ σ' k .dn * bv B σ σ' (k + 1) .upJ) * idProd B σ σ' (k + 2) m) ::
            (List.range (m + 1 - 1)).map (fun i => bv B σ σ' k .id *
              (idProd B σ σ' (k + 1) i
                * (bv B σ σ' (k + 1 + i) .up * bv B σ σ' (k + 1 + i + 1) .dnJ
                    + bv B σ σ' (k + 1 + i) .dn * bv B σ σ' (k + 1 + i + 1) .upJ)
                * idProd B σ σ' (k + 1 + i + 2) (m + 1 - i - 2))) := by
        rw [show m + 1 + 1 - 1 = m + 1 by omega, show m + 1 - 1 = m by omega, List.range_succ_eq_map, List.map_cons,
          List.map_map]
        congr 1
        · simp [idProd]
        · apply List.map_congr_left
          intro i _
          have a1 : k + (i + 1) = k + 1 + i := by omega
          have a2 : m + 1 + 1 - (i + 1) - 2 = m + 1 - i - 2 := by omega
          simp only [Function.comp, idProd, a1, a2]
          ring
      rw [e1, e2, List.sum_cons, List.sum_cons, sum_map_mul_left', sum_map_mul_left']
      ring

end blk
end Yaqs.Trotter
