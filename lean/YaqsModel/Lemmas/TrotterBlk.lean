import YaqsModel.Model.Trotter
import Mathlib.Algebra.Ring.Defs
import Mathlib.Algebra.BigOperators.Group.List.Basic
import Mathlib.Tactic.Ring

/-! helper lemmas for C07: the hand-written 4-state tables -/
namespace Yaqs.Trotter

theorem bhFull_eq : fullMat bhTable =
    [[.id, .up, .dn, .hloc], [.zero, .zero, .zero, .dnJ], [.zero, .zero, .zero, .upJ], [.zero, .zero, .zero, .id]] := by
  decide

theorem getLast?_cons_append_singleton {β : Type} (a : β) (l : List β) (c : β) :
    (a :: (l ++ [c])).getLast? = some c := by
  rw [← List.cons_append, List.getLast?_append]; simp

theorem replicate_set_last {β : Type} (n : Nat) (x y : β) : (List.replicate (n + 1) x).set n y = List.replicate n x ++ [y] := by
  induction n with
  | zero => rfl
  | succ n ih => rw [List.replicate_succ, List.set_cons_succ, ih]; rfl

theorem replicate_getD_last {β : Type} (n : Nat) (x d : β) : (List.replicate (n + 1) x).getD n d = x := by
  simp [List.getD_eq_getElem?_getD]

/-- `bose_hubbard(length ≥ 2)`: row 0, `length - 2` full tables, column 3 -/
theorem bhTensors_succ_succ (n : Nat) :
    bhTensors (n + 2) =
      [[.id, .up, .dn, .hloc]] :: (List.replicate n (fullMat bhTable) ++ [[[.hloc], [.dnJ], [.upJ], [.id]]]) := by
  unfold bhTensors
  simp only [bhFull_eq]
  rw [List.replicate_succ, List.set_cons_zero, show n + 2 - 1 = n + 1 by omega, List.set_cons_succ, List.getD_cons_succ,
    replicate_getD_last, replicate_set_last]
  rfl

/-- `bose_hubbard(1, …)`: the single tensor is the 1×1 block `h_loc` -/
theorem bhTensors_one : bhTensors 1 = [[[.hloc]]] := by decide

theorem ctQubit_full : fullMat ctQubit =
    [[.id, .zero, .zero, .zero], [.gx, .zero, .zero, .zero], [.id, .zero, .zero, .zero], [.hq, .id, .gx, .id]] := by decide

theorem ctRes_full : fullMat ctRes =
    [[.id, .zero, .zero, .zero], [.zero, .zero, .hr, .zero], [.xr, .zero, .zero, .zero], [.zero, .xr, .zero, .id]] := by decide

theorem ctResLast_eq : ((fullMat ctRes).map fun row => [blkAdd (row.getD 0 .zero) (row.getD 2 .zero)]) =
    [[.id], [.hr], [.xr], [.zero]] := by decide

theorem ctSite_first (L : Nat) (hL : L ≠ 1) : ctSite L 0 = [[.hq, .id, .gx, .id]] := by
  simp [ctSite, hL]

theorem ctSite_last (L k : Nat) (hk : 1 ≤ k) (hL : k + 1 = L) :
    ctSite L k = if k % 2 = 0 then [[.id], [.gx], [.id], [.hq]] else [[.id], [.hr], [.xr], [.zero]] := by
  have h1 : L ≠ 1 := by omega
  have h2 : k ≠ 0 := by omega
  have h3 : k = L - 1 := by omega
  unfold ctSite
  by_cases hp : k % 2 = 0
  · simp only [hp, if_true, h1, h2, if_false, ← h3]
  · simp only [hp, if_false, ← h3, if_true, ctResLast_eq]

theorem ctSite_inner (L k : Nat) (hk : 1 ≤ k) (hL : k + 1 < L) :
    ctSite L k = if k % 2 = 0 then fullMat ctQubit else fullMat ctRes := by
  have h1 : L ≠ 1 := by omega
  have h2 : k ≠ 0 := by omega
  have h3 : k ≠ L - 1 := by omega
  unfold ctSite
  by_cases hp : k % 2 = 0
  · simp only [hp, if_true, h1, h2, h3, if_false]
  · simp only [hp, if_false, h3]

/-- all non-zero blocks equal to 1: the path sum counts the terms of the chain (used in examples / counterexample) -/
def onesB : Nat → Blk → Unit → Unit → Nat := fun _ s _ _ => if s = .zero then 0 else 1

section blk
variable {K : Type} [CommSemiring K] {α : Type}

/-- state values of the Bose–Hubbard automaton to the left of site `k` with `n + 1` sites to go:
    `[finished chain, waiting for a (-J·a came from a†), waiting for a†, nothing placed yet]` -/
theorem bh_vals (B : Nat → Blk → α → α → K) (σ σ' : Nat → α) (hz : ∀ i a b, B i .zero a b = 0) (n k : Nat) :
    blkVals B σ σ' (List.replicate n (fullMat bhTable) ++ [[[.hloc], [.dnJ], [.upJ], [.id]]]) k =
      [bhChain B σ σ' k (n + 1), bv B σ σ' k .dnJ * idProd B σ σ' (k + 1) n,
       bv B σ σ' k .upJ * idProd B σ σ' (k + 1) n, idProd B σ σ' k (n + 1)] := by
  induction n generalizing k with
  | zero =>
    simp only [List.replicate_zero, List.nil_append, blkVals, blkApply, dot, List.map_cons, List.map_nil, bhChain,
      idProd, bv]
    simp
  | succ n ih =>
    rw [List.replicate_succ, List.cons_append, blkVals, ih, bhFull_eq]
    simp only [blkApply, dot, List.map_cons, List.map_nil, hz, bhChain, idProd, bv, List.cons.injEq, and_true]
    refine ⟨by ring, by ring, by ring, by ring⟩

theorem sum_map_mul_left' {τ : Type} (l : List τ) (c : K) (f : τ → K) :
    (l.map fun t => c * f t).sum = c * (l.map f).sum := by
  induction l with
  | nil => simp
  | cons x xs ih => simp [ih, mul_add]

/-- the recursive chain (what the automaton computes) is the explicit sum over sites and bonds -/
theorem bhChain_eq_sum (B : Nat → Blk → α → α → K) (σ σ' : Nat → α) (n k : Nat) :
    bhChain B σ σ' k n = bhChainSum B σ σ' k n := by
  induction n generalizing k with
  | zero => simp [bhChain, bhChainSum]
  | succ n ih =>
    cases n with
    | zero => simp [bhChain, bhChainSum, idProd]
    | succ m =>
      rw [bhChain, ih (k + 1)]
      unfold bhChainSum
      have e1 : (List.range (m + 1 + 1)).map (fun i =>
            idProd B σ σ' k i * bv B σ σ' (k + i) .hloc * idProd B σ σ' (k + i + 1) (m + 1 + 1 - i - 1)) =
          (bv B σ σ' k .hloc * idProd B σ σ' (k + 1) (m + 1)) ::
            (List.range (m + 1)).map (fun i => bv B σ σ' k .id *
              (idProd B σ σ' (k + 1) i * bv B σ σ' (k + 1 + i) .hloc * idProd B σ σ' (k + 1 + i + 1) (m + 1 - i - 1))) := by
        rw [List.range_succ_eq_map, List.map_cons, List.map_map]
        congr 1
        · simp [idProd]
        · apply List.map_congr_left
          intro i _
          have a1 : k + (i + 1) = k + 1 + i := by omega
          have a2 : m + 1 + 1 - (i + 1) - 1 = m + 1 - i - 1 := by omega
          simp only [Function.comp, idProd, a1, a2]
          ring
      have e2 : (List.range (m + 1 + 1 - 1)).map (fun i =>
            idProd B σ σ' k i
              * (bv B σ σ' (k + i) .up * bv B σ σ' (k + i + 1) .dnJ + bv B σ σ' (k + i) .dn * bv B σ σ' (k + i + 1) .upJ)
              * idProd B σ σ' (k + i + 2) (m + 1 + 1 - i - 2)) =
          ((bv B σ σ' k .up * bv B σ σ' (k + 1) .dnJ + bv B σ σ' k .dn * bv B σ σ' (k + 1) .upJ) * idProd B σ σ' (k + 2) m) ::
            (List.range (m + 1 - 1)).map (fun i => bv B σ σ' k .id *
              (idProd B σ σ' (k + 1) i
                * (bv B σ σ' (k + 1 + i) .up * bv B σ σ' (k + 1 + i + 1) .dnJ
                    + bv B σ σ' (k + 1 + i) .dn * bv B σ σ' (k + 1 + i + 1) .upJ)
                * idProd B σ σ' (k + 1 + i + 2) (m + 1 - i - 2))) := by
        rw [show m + 1 + 1 - 1 = m + 1 by omega, show m + 1 - 1 = m by omega, List.range_succ_eq_map, List.map_cons,
          List.map_map]
        congr 1
        · simp [idProd]
        · apply List.map_congr_left
          intro i _
          have a1 : k + (i + 1) = k + 1 + i := by omega
          have a2 : m + 1 + 1 - (i + 1) - 2 = m + 1 - i - 2 := by omega
          simp only [Function.comp, idProd, a1, a2]
          ring
      rw [e1, e2, List.sum_cons, List.sum_cons, sum_map_mul_left', sum_map_mul_left']
      ring

/-- peeling the first site off the transmon chain -/
theorem ctChain_succ_succ (B : Nat → Blk → α → α → K) (σ σ' : Nat → α) (k n : Nat) :
    ctChain B σ σ' k (n + 2) =
      bv B σ σ' k (ctLocal k) * idProd B σ σ' (k + 1) (n + 1)
        + bv B σ σ' k (ctCoupl k) * bv B σ σ' (k + 1) (ctCoupl (k + 1)) * idProd B σ σ' (k + 2) n
        + bv B σ σ' k .id * ctChain B σ σ' (k + 1) (n + 1) := by
  simp only [ctChain, ctRest]
  ring

/-- state values of the transmon automaton to the left of site `k ≥ 1` with `m + 1` sites to go.
    Before a qubit: `[finished, left resonator holds x_r, finished, nothing placed yet]`;
    before a resonator: `[finished, h_r goes here, left qubit holds g·x_q, nothing placed and no h_r here]`. -/
theorem ct_vals (B : Nat → Blk → α → α → K) (σ σ' : Nat → α) (hz : ∀ i a b, B i .zero a b = 0) (L m k : Nat)
    (hk : 1 ≤ k) (hL : k + m + 1 = L) :
    blkVals B σ σ' ((List.range' k (m + 1)).map (ctSite L)) k =
      if k % 2 = 0 then
        [idProd B σ σ' k (m + 1), bv B σ σ' k .gx * idProd B σ σ' (k + 1) m, idProd B σ σ' k (m + 1),
         ctChain B σ σ' k (m + 1)]
      else
        [idProd B σ σ' k (m + 1), bv B σ σ' k .hr * idProd B σ σ' (k + 1) m,
         bv B σ σ' k .xr * idProd B σ σ' (k + 1) m, ctRest B σ σ' k (m + 1)] := by
  induction m generalizing k with
  | zero =>
    rw [show List.range' k (0 + 1) = [k] by rfl, List.map_cons, List.map_nil, ctSite_last L k hk (by omega)]
    by_cases hp : k % 2 = 0
    · simp only [hp, if_true, blkVals, blkApply, dot, List.map_cons, List.map_nil, ctChain, ctRest, idProd, bv, ctLocal]
      simp
    · simp only [hp, if_false, blkVals, blkApply, dot, List.map_cons, List.map_nil, ctRest, idProd, bv, hz]
      simp
  | succ m ih =>
    rw [List.range'_succ, List.map_cons, blkVals, ih (k + 1) (by omega) (by omega), ctSite_inner L k hk (by omega)]
    by_cases hp : k % 2 = 0
    · have hq : ¬ (k + 1) % 2 = 0 := by omega
      have hq2 : (k + 1 + 1) % 2 = 0 := by omega
      rw [if_pos hp, if_neg hq, if_pos hp, ctQubit_full, ctChain_succ_succ]
      simp only [blkApply, dot, List.map_cons, List.map_nil, hz, ctChain, idProd, bv, ctLocal, ctCoupl, hp, hq,
        if_true, if_false, List.cons.injEq, and_true]
      refine ⟨by ring, by ring, by ring, ?_⟩
      cases m with
      | zero => simp only [ctRest, idProd]; ring
      | succ j => simp only [ctRest, idProd, ctLocal, ctCoupl, hq, hq2, if_true, if_false, bv]; ring
    · have hq : (k + 1) % 2 = 0 := by omega
      rw [if_neg hp, if_pos hq, if_neg hp, ctRes_full]
      simp only [blkApply, dot, List.map_cons, List.map_nil, hz, ctChain, ctRest, idProd, bv, ctLocal, ctCoupl, hp, hq,
        if_true, if_false, List.cons.injEq, and_true]
      refine ⟨by ring, by ring, by ring, by ring⟩

/-- the recursive transmon chain is the explicit sum over sites and bonds -/
theorem ctChain_eq_sum (B : Nat → Blk → α → α → K) (σ σ' : Nat → α) (n k : Nat) :
    ctChain B σ σ' k n = ctChainSum B σ σ' k n := by
  induction n generalizing k with
  | zero => simp [ctChain, ctChainSum]
  | succ n ih =>
    cases n with
    | zero => simp [ctChain, ctRest, ctChainSum, idProd]
    | succ m =>
      rw [ctChain_succ_succ, ih (k + 1)]
      unfold ctChainSum
      have e1 : (List.range (m + 1 + 1)).map (fun i =>
            idProd B σ σ' k i * bv B σ σ' (k + i) (ctLocal (k + i)) * idProd B σ σ' (k + i + 1) (m + 1 + 1 - i - 1)) =
          (bv B σ σ' k (ctLocal k) * idProd B σ σ' (k + 1) (m + 1)) ::
            (List.range (m + 1)).map (fun i => bv B σ σ' k .id *
              (idProd B σ σ' (k + 1) i * bv B σ σ' (k + 1 + i) (ctLocal (k + 1 + i))
                * idProd B σ σ' (k + 1 + i + 1) (m + 1 - i - 1))) := by
        rw [List.range_succ_eq_map, List.map_cons, List.map_map]
        congr 1
        · simp [idProd]
        · apply List.map_congr_left
          intro i _
          have a1 : k + (i + 1) = k + 1 + i := by omega
          have a2 : m + 1 + 1 - (i + 1) - 1 = m + 1 - i - 1 := by omega
          simp only [Function.comp, idProd, a1, a2]
          ring
      have e2 : (List.range (m + 1 + 1 - 1)).map (fun i =>
            idProd B σ σ' k i
              * (bv B σ σ' (k + i) (ctCoupl (k + i)) * bv B σ σ' (k + i + 1) (ctCoupl (k + i + 1)))
              * idProd B σ σ' (k + i + 2) (m + 1 + 1 - i - 2)) =
          (bv B σ σ' k (ctCoupl k) * bv B σ σ' (k + 1) (ctCoupl (k + 1)) * idProd B σ σ' (k + 2) m) ::
            (List.range (m + 1 - 1)).map (fun i => bv B σ σ' k .id *
              (idProd B σ σ' (k + 1) i
                * (bv B σ σ' (k + 1 + i) (ctCoupl (k + 1 + i)) * bv B σ σ' (k + 1 + i + 1) (ctCoupl (k + 1 + i + 1)))
                * idProd B σ σ' (k + 1 + i + 2) (m + 1 - i - 2))) := by
        rw [show m + 1 + 1 - 1 = m + 1 by omega, show m + 1 - 1 = m by omega, List.range_succ_eq_map, List.map_cons,
          List.map_map]
        congr 1
        · simp [idProd]
        · apply List.map_congr_left
          intro i _
          have a1 : k + (i + 1) = k + 1 + i := by omega
          have a2 : m + 1 + 1 - (i + 1) - 2 = m + 1 - i - 2 := by omega
          simp only [Function.comp, idProd, a1, a2]
          ring
      rw [e1, e2, List.sum_cons, List.sum_cons, sum_map_mul_left', sum_map_mul_left']
      ring

end blk
end Yaqs.Trotter
