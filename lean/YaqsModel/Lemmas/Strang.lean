import YaqsModel.Lemmas.TrotterMatrix

/-!
# Lemmas.Strang — third-order local / second-order global accuracy of the palindromic (Strang) arrangement (xs07 extension of C07)

For a complete normed `ℂ`-algebra `𝔸` with `‖1‖ ≤ 1` and `X Y : 𝔸`, `s = ‖X‖ + ‖Y‖ + ‖X‖`:
* `norm_exp_sub_taylor2_le`   `‖exp X − 1 − X − X²/2‖ ≤ ‖X‖³/6 · e^{‖X‖}`                     (cubic Taylor remainder)
* `strang_identity`           the defect `e^X e^Y e^X − (1 + Z + Z²/2)`, `Z = X + Y + X`, written as a sum of seven products each
                              containing a remainder of total order three — all terms up to order two cancel (palindromic symmetry)
* `strang_core`               `‖e^X e^Y e^X − e^{X+Y+X}‖ ≤ s³/3 · e^s`
* `strang_local`              `‖e^{(τ/2)A} e^{τB} e^{(τ/2)A} − e^{τ(A+B)}‖ ≤ σ³/3 · e^σ`, `σ = ‖τ‖(‖A‖+‖B‖)`
* `strang_inexact_middle`     the same with a middle factor `M ≠ e^Y`: the defect grows by at most `‖M − e^Y‖` (outer factors contractive)
* `strang_pow`                `n` contractive steps: `‖Sⁿ − Eⁿ‖ ≤ n · local`
and for matrices in the spectral norm (`strang_global_matrix`) the `T³/n²` global bound for skew-Hermitian `A`, `B`.
-/
namespace Yaqs.Strang

open NormedSpace Yaqs.TrotterLimit

section real

/-- `e^u − 1 ≤ u e^u` for `u ≥ 0` -/
theorem exp_sub_one_le_mul {u : ℝ} (_hu : 0 ≤ u) : Real.exp u - 1 ≤ u * Real.exp u := by
  have h := Real.add_one_le_exp (-u)
  have hp := Real.exp_pos u
  have e : Real.exp u * Real.exp (-u) = 1 := by rw [← Real.exp_add]; simp
  nlinarith

/-- `e^u − 1 − u ≤ u²/2 e^u` for `u ≥ 0` -/
theorem exp_sub_one_sub_le_mul {u : ℝ} (hu : 0 ≤ u) : Real.exp u - 1 - u ≤ u ^ 2 / 2 * Real.exp u := by
  have := two_mul_exp_sub_le hu
  linarith

end real

section ring

/-- **the palindromic cancellation** as an identity in a noncommutative ring: with `EX`, `EY` arbitrary (they stand for `e^X`, `e^Y`)
    and `hX`, `hY` arbitrary (they stand for `X²/2`, `Y²/2`), the difference between `EX·EY·EX` and the second-order Taylor polynomial
    `1 + Z + Z²/2` of `Z = X + Y + X` (`Z²/2 = hX + hX + X·X + X·Y + Y·X + hY` when `X·X = hX + hX`) is a sum of seven products, each
    of which contains a Taylor remainder `EX − 1 − X − hX`, `EY·EX − 1`, `EY·EX − 1 − (Y + X)`, `EX − 1 − X`, `EX − 1`,
    `EY − 1 − Y − hY` in a combination of total order three: nothing of order `≤ 2` is left. -/
theorem strang_identity {R : Type*} [Ring R] (EX EY X Y hX hY : R) :
    EX * EY * EX - (1 + (X + Y + X) + (hX + hX + X * X + X * Y + Y * X + hY))
      = (EX - 1 - X - hX) * EY * EX + hX * (EY * EX - 1) + X * (EY * EX - 1 - (Y + X)) + (EX - 1 - X - hX)
        + Y * (EX - 1 - X) + hY * (EX - 1) + (EY - 1 - Y - hY) * EX := by
  noncomm_ring

end ring

section banach
variable {𝔸 : Type*} [NormedRing 𝔸] [NormedAlgebra ℂ 𝔸] [CompleteSpace 𝔸]

/-- `‖exp X − 1 − X − X²/2‖ ≤ ‖X‖³/6 · e^{‖X‖}`: the cubic Taylor remainder of the exponential series -/
theorem norm_exp_sub_taylor2_le (X : 𝔸) :
    ‖exp X - 1 - X - (2 : ℂ)⁻¹ • X ^ 2‖ ≤ ‖X‖ ^ 3 / 6 * Real.exp ‖X‖ := by
  have h := Yaqs.Krylov.norm_exp_sub_partial_le X 3 (by norm_num)
  have e1 : ∑ j ∈ Finset.range 3, ((Nat.factorial j : ℂ)⁻¹) • X ^ j = 1 + X + (2 : ℂ)⁻¹ • X ^ 2 := by
    simp [Finset.sum_range_succ, Nat.factorial]
  rw [e1] at h
  have h2 := Yaqs.Krylov.expTail_le 3 (norm_nonneg X)
  have f3 : ((Nat.factorial 3 : ℕ) : ℝ) = 6 := by norm_num [Nat.factorial]
  rw [f3] at h2
  have e : exp X - 1 - X - (2 : ℂ)⁻¹ • X ^ 2 = exp X - (1 + X + (2 : ℂ)⁻¹ • X ^ 2) := by abel
  rw [e]
  exact h.trans h2

/-- `‖exp X‖ ≤ e^{‖X‖}` when `‖1‖ ≤ 1` -/
theorem norm_exp_le_of_one (h1 : ‖(1 : 𝔸)‖ ≤ 1) (X : 𝔸) : ‖exp X‖ ≤ Real.exp ‖X‖ := by
  have h := norm_exp_sub_one_le X
  have e : exp X = (exp X - 1) + 1 := by abel
  rw [e]
  exact (norm_add_le _ _).trans (by linarith)

omit [CompleteSpace 𝔸] in
theorem norm_half_sq_le (X : 𝔸) : ‖(2 : ℂ)⁻¹ • X ^ 2‖ ≤ ‖X‖ ^ 2 / 2 := by
  calc ‖(2 : ℂ)⁻¹ • X ^ 2‖ ≤ ‖(2 : ℂ)⁻¹‖ * ‖X ^ 2‖ := norm_smul_le _ _
    _ ≤ 2⁻¹ * ‖X‖ ^ 2 := by
        apply mul_le_mul _ (norm_pow_le' X (by norm_num)) (norm_nonneg _) (by norm_num)
        simp
    _ = ‖X‖ ^ 2 / 2 := by ring

omit [CompleteSpace 𝔸] in
theorem half_sq_palindrome (X Y : 𝔸) :
    (2 : ℂ)⁻¹ • (X + Y + X) ^ 2
      = (2 : ℂ)⁻¹ • X ^ 2 + (2 : ℂ)⁻¹ • X ^ 2 + X * X + X * Y + Y * X + (2 : ℂ)⁻¹ • Y ^ 2 := by
  have e : (X + Y + X) ^ 2 = (2 : ℂ) • (X * X + X * X + X * Y + Y * X) + Y ^ 2 := by
    rw [two_smul]; noncomm_ring
  have e2 : (2 : ℂ)⁻¹ • X ^ 2 + (2 : ℂ)⁻¹ • X ^ 2 = X * X := by
    rw [← add_smul, pow_two]; norm_num
  rw [e, smul_add, smul_smul, e2]
  norm_num

omit [NormedAlgebra ℂ 𝔸] [CompleteSpace 𝔸] in
theorem nm3 (a b c : 𝔸) {p q r : ℝ} (ha : ‖a‖ ≤ p) (hb : ‖b‖ ≤ q) (hc : ‖c‖ ≤ r) : ‖a * b * c‖ ≤ p * q * r := by
  have hp : 0 ≤ p := (norm_nonneg _).trans ha
  have hq : 0 ≤ q := (norm_nonneg _).trans hb
  calc ‖a * b * c‖ ≤ ‖a * b‖ * ‖c‖ := norm_mul_le _ _
    _ ≤ (‖a‖ * ‖b‖) * ‖c‖ := mul_le_mul_of_nonneg_right (norm_mul_le _ _) (norm_nonneg _)
    _ ≤ p * q * r := mul_le_mul (mul_le_mul ha hb (norm_nonneg _) hp) hc (norm_nonneg _) (mul_nonneg hp hq)

omit [NormedAlgebra ℂ 𝔸] [CompleteSpace 𝔸] in
theorem nm2 (a b : 𝔸) {p q : ℝ} (ha : ‖a‖ ≤ p) (hb : ‖b‖ ≤ q) : ‖a * b‖ ≤ p * q :=
  (norm_mul_le _ _).trans (mul_le_mul ha hb (norm_nonneg _) ((norm_nonneg _).trans ha))

/-- **local error of the palindromic product** `‖e^X e^Y e^X − e^{X+Y+X}‖ ≤ s³/3 · e^s`, `s = ‖X‖ + ‖Y‖ + ‖X‖`. -/
theorem strang_core (h1 : ‖(1 : 𝔸)‖ ≤ 1) (X Y : 𝔸) :
    ‖exp X * exp Y * exp X - exp (X + Y + X)‖
      ≤ (‖X‖ + ‖Y‖ + ‖X‖) ^ 3 / 3 * Real.exp (‖X‖ + ‖Y‖ + ‖X‖) := by
  have hx := norm_nonneg X
  have hy := norm_nonneg Y
  -- remainders
  have bEX := norm_exp_le_of_one h1 X
  have bEY := norm_exp_le_of_one h1 Y
  have bR3X := norm_exp_sub_taylor2_le X
  have bR3Y := norm_exp_sub_taylor2_le Y
  have bR2X := (norm_exp_sub_one_sub_le X).trans (exp_sub_one_sub_le_mul hx)
  have bR1X := (norm_exp_sub_one_le X).trans (exp_sub_one_le_mul hx)
  have bhX := norm_half_sq_le X
  have bhY := norm_half_sq_le Y
  obtain ⟨v1, v2⟩ := prod_exp_bounds [Y, X]
  simp only [List.map_cons, List.map_nil, List.prod_cons, List.prod_nil, mul_one, List.sum_cons, List.sum_nil,
    add_zero] at v1 v2
  have huv : 0 ≤ ‖Y‖ + ‖X‖ := add_nonneg hy hx
  have bV1 := v1.trans (exp_sub_one_le_mul huv)
  have bV2 := v2.trans (exp_sub_one_sub_le_mul huv)
  have bR3Z := norm_exp_sub_taylor2_le (X + Y + X)
  have hZ : ‖X + Y + X‖ ≤ ‖X‖ + ‖Y‖ + ‖X‖ := (norm_add_le _ _).trans (add_le_add (norm_add_le _ _) le_rfl)
  -- exponentials
  have hE : Real.exp ‖X‖ * Real.exp ‖Y‖ * Real.exp ‖X‖ = Real.exp (‖X‖ + ‖Y‖ + ‖X‖) := by
    rw [Real.exp_add, Real.exp_add]
  have hEyx : Real.exp (‖Y‖ + ‖X‖) ≤ Real.exp (‖X‖ + ‖Y‖ + ‖X‖) := Real.exp_le_exp.mpr (by linarith)
  have hEyx' : Real.exp ‖Y‖ * Real.exp ‖X‖ ≤ Real.exp (‖X‖ + ‖Y‖ + ‖X‖) := by
    rw [← Real.exp_add]; exact hEyx
  have hEx : Real.exp ‖X‖ ≤ Real.exp (‖X‖ + ‖Y‖ + ‖X‖) := Real.exp_le_exp.mpr (by linarith)
  have hEz : Real.exp ‖X + Y + X‖ ≤ Real.exp (‖X‖ + ‖Y‖ + ‖X‖) := Real.exp_le_exp.mpr hZ
  generalize hEdef : Real.exp (‖X‖ + ‖Y‖ + ‖X‖) = E at *
  have hEpos : 0 ≤ E := by rw [← hEdef]; exact (Real.exp_pos _).le
  -- the seven terms
  have t1 : ‖(exp X - 1 - X - (2 : ℂ)⁻¹ • X ^ 2) * exp Y * exp X‖ ≤ ‖X‖ ^ 3 / 6 * E := by
    refine (nm3 _ _ _ bR3X bEY bEX).trans (le_of_eq ?_)
    rw [← hE]; ring
  have t2 : ‖((2 : ℂ)⁻¹ • X ^ 2) * (exp Y * exp X - 1)‖ ≤ ‖X‖ ^ 2 / 2 * ((‖Y‖ + ‖X‖) * E) := by
    refine (nm2 _ _ bhX bV1).trans ?_
    gcongr
  have t3 : ‖X * (exp Y * exp X - 1 - (Y + X))‖ ≤ ‖X‖ * ((‖Y‖ + ‖X‖) ^ 2 / 2 * E) := by
    refine (nm2 _ _ le_rfl bV2).trans ?_
    gcongr
  have t4 : ‖exp X - 1 - X - (2 : ℂ)⁻¹ • X ^ 2‖ ≤ ‖X‖ ^ 3 / 6 * E := by
    refine bR3X.trans ?_
    gcongr
  have t5 : ‖Y * (exp X - 1 - X)‖ ≤ ‖Y‖ * (‖X‖ ^ 2 / 2 * E) := by
    refine (nm2 _ _ le_rfl bR2X).trans ?_
    gcongr
  have t6 : ‖((2 : ℂ)⁻¹ • Y ^ 2) * (exp X - 1)‖ ≤ ‖Y‖ ^ 2 / 2 * (‖X‖ * E) := by
    refine (nm2 _ _ bhY bR1X).trans ?_
    gcongr
  have t7 : ‖(exp Y - 1 - Y - (2 : ℂ)⁻¹ • Y ^ 2) * exp X‖ ≤ ‖Y‖ ^ 3 / 6 * E := by
    refine (nm2 _ _ bR3Y bEX).trans ?_
    rw [mul_assoc]
    gcongr
  have t8 : ‖exp (X + Y + X) - 1 - (X + Y + X) - (2 : ℂ)⁻¹ • (X + Y + X) ^ 2‖ ≤ (‖X‖ + ‖Y‖ + ‖X‖) ^ 3 / 6 * E := by
    refine bR3Z.trans ?_
    gcongr
  have key := strang_identity (exp X) (exp Y) X Y ((2 : ℂ)⁻¹ • X ^ 2) ((2 : ℂ)⁻¹ • Y ^ 2)
  rw [← half_sq_palindrome] at key
  have split : exp X * exp Y * exp X - exp (X + Y + X)
      = (exp X * exp Y * exp X - (1 + (X + Y + X) + (2 : ℂ)⁻¹ • (X + Y + X) ^ 2))
        - (exp (X + Y + X) - 1 - (X + Y + X) - (2 : ℂ)⁻¹ • (X + Y + X) ^ 2) := by abel
  rw [split, key]
  refine (norm_sub_le _ _).trans ?_
  have s7 := norm_add_le_of_le (norm_add_le_of_le (norm_add_le_of_le (norm_add_le_of_le (norm_add_le_of_le
    (norm_add_le_of_le t1 t2) t3) t4) t5) t6) t7
  refine (add_le_add s7 t8).trans (le_of_eq ?_)
  ring

/-- **local error of one Strang step** `‖e^{(τ/2)A} e^{τB} e^{(τ/2)A} − e^{τ(A+B)}‖ ≤ σ³/3 · e^σ`, `σ = ‖τ‖(‖A‖ + ‖B‖)` -/
theorem strang_local (h1 : ‖(1 : 𝔸)‖ ≤ 1) (τ : ℂ) (A B : 𝔸) :
    ‖exp ((τ / 2) • A) * exp (τ • B) * exp ((τ / 2) • A) - exp (τ • (A + B))‖
      ≤ (‖τ‖ * (‖A‖ + ‖B‖)) ^ 3 / 3 * Real.exp (‖τ‖ * (‖A‖ + ‖B‖)) := by
  have h := strang_core h1 ((τ / 2) • A) (τ • B)
  have e : (τ / 2) • A + τ • B + (τ / 2) • A = τ • (A + B) := by
    rw [smul_add, add_right_comm, ← add_smul, add_halves]
  have n : ‖(τ / 2) • A‖ + ‖τ • B‖ + ‖(τ / 2) • A‖ = ‖τ‖ * (‖A‖ + ‖B‖) := by
    rw [norm_smul, norm_smul, norm_div, Complex.norm_ofNat]; ring
  rw [e, n] at h
  exact h

/-- the same with an arbitrary middle factor `M` in place of `e^Y`, when the outer factor is a contraction:
    `‖e^X M e^X − e^{X+Y+X}‖ ≤ ‖M − e^Y‖ + s³/3 · e^s` -/
theorem strang_inexact_middle (h1 : ‖(1 : 𝔸)‖ ≤ 1) (X Y M : 𝔸) (hW : ‖exp X‖ ≤ 1) :
    ‖exp X * M * exp X - exp (X + Y + X)‖
      ≤ ‖M - exp Y‖ + (‖X‖ + ‖Y‖ + ‖X‖) ^ 3 / 3 * Real.exp (‖X‖ + ‖Y‖ + ‖X‖) := by
  have e : exp X * M * exp X - exp (X + Y + X)
      = exp X * (M - exp Y) * exp X + (exp X * exp Y * exp X - exp (X + Y + X)) := by noncomm_ring
  rw [e]
  refine norm_add_le_of_le ?_ (strang_core h1 X Y)
  have := nm3 (exp X) (M - exp Y) (exp X) hW le_rfl hW
  simpa using this

/-- `n` Strang steps against `n` exact steps, both contractive: the local errors add -/
theorem strang_pow (h1 : ‖(1 : 𝔸)‖ ≤ 1) (τ : ℂ) (A B : 𝔸) (n : ℕ)
    (hS : ‖exp ((τ / 2) • A) * exp (τ • B) * exp ((τ / 2) • A)‖ ≤ 1) (hE : ‖exp (τ • (A + B))‖ ≤ 1) :
    ‖(exp ((τ / 2) • A) * exp (τ • B) * exp ((τ / 2) • A)) ^ n - exp (τ • (A + B)) ^ n‖
      ≤ n * ((‖τ‖ * (‖A‖ + ‖B‖)) ^ 3 / 3 * Real.exp (‖τ‖ * (‖A‖ + ‖B‖))) :=
  (norm_pow_sub_pow_le _ _ hS hE n).trans
    (mul_le_mul_of_nonneg_left (strang_local h1 τ A B) (Nat.cast_nonneg n))

/-- inside the radius `σ = ‖τ‖(‖A‖ + ‖B‖) ≤ 1` the constant is explicit: `≤ (‖A‖ + ‖B‖)³ ‖τ‖³` -/
theorem strang_local_radius (h1 : ‖(1 : 𝔸)‖ ≤ 1) (τ : ℂ) (A B : 𝔸) (hr : ‖τ‖ * (‖A‖ + ‖B‖) ≤ 1) :
    ‖exp ((τ / 2) • A) * exp (τ • B) * exp ((τ / 2) • A) - exp (τ • (A + B))‖ ≤ (‖A‖ + ‖B‖) ^ 3 * ‖τ‖ ^ 3 := by
  refine (strang_local h1 τ A B).trans ?_
  have hσ : 0 ≤ ‖τ‖ * (‖A‖ + ‖B‖) := by positivity
  have he : Real.exp (‖τ‖ * (‖A‖ + ‖B‖)) ≤ 3 :=
    (Real.exp_le_exp.mpr hr).trans (by have := Real.exp_one_lt_d9; linarith)
  calc (‖τ‖ * (‖A‖ + ‖B‖)) ^ 3 / 3 * Real.exp (‖τ‖ * (‖A‖ + ‖B‖))
      ≤ (‖τ‖ * (‖A‖ + ‖B‖)) ^ 3 / 3 * 3 := mul_le_mul_of_nonneg_left he (by positivity)
    _ = (‖A‖ + ‖B‖) ^ 3 * ‖τ‖ ^ 3 := by ring

/-- one Strang step with an arbitrary middle factor `M` in place of `e^{τB}` and a contractive outer factor:
    `‖e^{(τ/2)A} M e^{(τ/2)A} − e^{τ(A+B)}‖ ≤ ‖M − e^{τB}‖ + σ³/3 · e^σ`, `σ = ‖τ‖(‖A‖ + ‖B‖)` -/
theorem strang_inexact_middle_smul (h1 : ‖(1 : 𝔸)‖ ≤ 1) (τ : ℂ) (A B M : 𝔸) (hW : ‖exp ((τ / 2) • A)‖ ≤ 1) :
    ‖exp ((τ / 2) • A) * M * exp ((τ / 2) • A) - exp (τ • (A + B))‖
      ≤ ‖M - exp (τ • B)‖ + (‖τ‖ * (‖A‖ + ‖B‖)) ^ 3 / 3 * Real.exp (‖τ‖ * (‖A‖ + ‖B‖)) := by
  have h := strang_inexact_middle h1 ((τ / 2) • A) (τ • B) M hW
  have e : (τ / 2) • A + τ • B + (τ / 2) • A = τ • (A + B) := by
    rw [smul_add, add_right_comm, ← add_smul, add_halves]
  have n : ‖(τ / 2) • A‖ + ‖τ • B‖ + ‖(τ / 2) • A‖ = ‖τ‖ * (‖A‖ + ‖B‖) := by
    rw [norm_smul, norm_smul, norm_div, Complex.norm_ofNat]; ring
  rw [e, n] at h
  exact h

end banach

section l2
open Matrix
open scoped Matrix.Norms.L2Operator
variable {n : Type*} [Fintype n] [DecidableEq n]

/-- **global error of `N` Strang steps** of size `T/N` for skew-Hermitian `A`, `B` (all factors unitary), spectral norm:
    `‖(e^{(T/2N)A} e^{(T/N)B} e^{(T/2N)A})^N − e^{T(A+B)}‖ ≤ |T|³ (‖A‖+‖B‖)³ e^{|T|(‖A‖+‖B‖)} / (3 N²)` -/
theorem strang_global_matrix (A B : Matrix n n ℂ) (hA : Aᴴ = -A) (hB : Bᴴ = -B) (T : ℝ) (N : ℕ) (hN : 0 < N) :
    ‖(exp ((((T / N : ℝ) : ℂ) / 2) • A) * exp (((T / N : ℝ) : ℂ) • B) * exp ((((T / N : ℝ) : ℂ) / 2) • A)) ^ N
        - exp ((T : ℂ) • (A + B))‖
      ≤ |T| ^ 3 * (‖A‖ + ‖B‖) ^ 3 * Real.exp (|T| * (‖A‖ + ‖B‖)) / (3 * (N : ℝ) ^ 2) := by
  have hN' : (0 : ℝ) < N := Nat.cast_pos.mpr hN
  have hNc : (N : ℂ) ≠ 0 := Nat.cast_ne_zero.mpr hN.ne'
  set τ : ℂ := ((T / N : ℝ) : ℂ) with hτ
  have hτ2 : τ / 2 = ((T / N / 2 : ℝ) : ℂ) := by rw [hτ]; push_cast; ring
  have hAB : (A + B)ᴴ = -(A + B) := by rw [conjTranspose_add, hA, hB]; abel
  have hE : exp ((T : ℂ) • (A + B)) = exp (τ • (A + B)) ^ N := by
    rw [← Matrix.exp_nsmul, ← Nat.cast_smul_eq_nsmul ℂ, smul_smul]
    congr 2
    rw [hτ]
    push_cast
    field_simp
  have uA : ‖exp ((τ / 2) • A)‖ ≤ 1 := by
    rw [hτ2]; exact l2_norm_le_one_of_unitary (exp_skew_unitary (skew_real_smul hA _))
  have uB : ‖exp (τ • B)‖ ≤ 1 := l2_norm_le_one_of_unitary (exp_skew_unitary (skew_real_smul hB _))
  have hS : ‖exp ((τ / 2) • A) * exp (τ • B) * exp ((τ / 2) • A)‖ ≤ 1 := by
    simpa using nm3 _ _ _ uA uB uA
  have hE1 : ‖exp (τ • (A + B))‖ ≤ 1 := l2_norm_le_one_of_unitary (exp_skew_unitary (skew_real_smul hAB _))
  have h := strang_pow l2_norm_one_le τ A B N hS hE1
  rw [hE]
  refine h.trans ?_
  have hs : 0 ≤ ‖A‖ + ‖B‖ := by positivity
  generalize ‖A‖ + ‖B‖ = s at hs ⊢
  have hτn : ‖τ‖ = |T| / N := by
    rw [hτ, Complex.norm_real, Real.norm_eq_abs, abs_div, Nat.abs_cast]
  rw [hτn]
  have hle : |T| / N * s ≤ |T| * s := by
    apply mul_le_mul_of_nonneg_right _ hs
    exact div_le_self (abs_nonneg T) (by exact_mod_cast hN)
  have hexp := Real.exp_le_exp.mpr hle
  have e : (N : ℝ) * ((|T| / N * s) ^ 3 / 3 * Real.exp (|T| / N * s))
      = |T| ^ 3 * s ^ 3 * Real.exp (|T| / N * s) / (3 * (N : ℝ) ^ 2) := by
    field_simp
  rw [e]
  apply div_le_div_of_nonneg_right _ (by positivity)
  exact mul_le_mul_of_nonneg_left hexp (by positivity)

end l2

end Yaqs.Strang
