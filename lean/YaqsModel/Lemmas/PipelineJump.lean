import YaqsModel.Lemmas.Pipeline

/-! where the noise step of grid index `m` sits inside a column history (helper lemmas for C14) -/
namespace Yaqs.Pipeline
open Frac Op Reg Ev

/-- an entry of a history that is not the noise step of index `m` -/
def Plain (w : Nat → Op) (m : Nat) (x : Op) : Prop :=
  x = U ∨ x = D half ∨ x = D full ∨ ∃ k, k ≠ m ∧ x = w k

theorem phiHistW_congr (w w' : Nat → Op) : ∀ i, (∀ k, k ≤ i → w' k = w k) → phiHistW w' i = phiHistW w i := by
  intro i
  induction i with
  | zero => intro h; simp [phiHistW, h 0 (Nat.le_refl 0)]
  | succ i ih =>
    intro h
    simp only [phiHistW]
    rw [ih (fun k hk => h k (by omega)), h (i + 1) (Nat.le_refl _)]

theorem lieW_congr (w w' : Nat → Op) : ∀ i, (∀ k, k ≤ i → w' k = w k) → lieW w' i = lieW w i := by
  intro i
  induction i with
  | zero => intro _; simp [lieW]
  | succ i ih =>
    intro h
    simp only [lieW]
    rw [ih (fun k hk => h k (by omega)), h (i + 1) (Nat.le_refl _)]

theorem countU_phiHistW (w : Nat → Op) (hw : ∀ k, w k ≠ U) : ∀ i, (phiHistW w i).count U = i := by
  intro i
  induction i with
  | zero => simp [phiHistW, hw 0]
  | succ i ih => simp [phiHistW, List.count_append, ih, hw (i + 1)]

theorem countU_lieW (w : Nat → Op) (hw : ∀ k, w k ≠ U) : ∀ i, (lieW w i).count U = i := by
  intro i
  induction i with
  | zero => simp [lieW]
  | succ i ih => simp [lieW, List.count_append, ih, hw (i + 1)]

theorem phiHistW_mem (w : Nat → Op) : ∀ i x, x ∈ phiHistW w i →
    x = U ∨ x = D half ∨ x = D full ∨ ∃ k, k ≤ i ∧ x = w k := by
  intro i
  induction i with
  | zero =>
    intro x hx
    simp only [phiHistW, List.mem_cons, List.not_mem_nil, or_false] at hx
    rcases hx with rfl | rfl
    · exact Or.inr (Or.inl rfl)
    · exact Or.inr (Or.inr (Or.inr ⟨0, Nat.le_refl 0, rfl⟩))
  | succ i ih =>
    intro x hx
    simp only [phiHistW, List.mem_append, List.mem_cons, List.not_mem_nil, or_false] at hx
    rcases hx with hx | rfl | rfl | rfl
    · rcases ih x hx with h | h | h | ⟨k, hk, h⟩
      · exact Or.inl h
      · exact Or.inr (Or.inl h)
      · exact Or.inr (Or.inr (Or.inl h))
      · exact Or.inr (Or.inr (Or.inr ⟨k, by omega, h⟩))
    · exact Or.inl rfl
    · exact Or.inr (Or.inr (Or.inl rfl))
    · exact Or.inr (Or.inr (Or.inr ⟨i + 1, Nat.le_refl _, rfl⟩))

theorem lieW_mem (w : Nat → Op) : ∀ i x, x ∈ lieW w i →
    x = U ∨ x = D half ∨ x = D full ∨ ∃ k, k ≤ i ∧ x = w k := by
  intro i
  induction i with
  | zero => intro x hx; simp [lieW] at hx
  | succ i ih =>
    intro x hx
    simp only [lieW, List.mem_append, List.mem_cons, List.not_mem_nil, or_false] at hx
    rcases hx with hx | rfl | rfl | rfl
    · rcases ih x hx with h | h | h | ⟨k, hk, h⟩
      · exact Or.inl h
      · exact Or.inr (Or.inl h)
      · exact Or.inr (Or.inr (Or.inl h))
      · exact Or.inr (Or.inr (Or.inr ⟨k, by omega, h⟩))
    · exact Or.inl rfl
    · exact Or.inr (Or.inr (Or.inl rfl))
    · exact Or.inr (Or.inr (Or.inr ⟨i + 1, Nat.le_refl _, rfl⟩))

/-- the propagated state after `i` steps: the noise step of index `m ≤ i` occurs exactly once, after `m` `U`s;
    everything around it does not depend on what that noise step is -/
theorem phiHistW_split (w : Nat → Op) (hw : ∀ k, w k ≠ U) (m : Nat) : ∀ i, m ≤ i →
    ∃ pre post, pre.count U = m ∧ post.count U = i - m ∧ (∀ x ∈ pre ++ post, Plain w m x) ∧
      ∀ w' : Nat → Op, (∀ k, k ≠ m → w' k = w k) → phiHistW w' i = pre ++ w' m :: post := by
  intro i
  induction i with
  | zero =>
    intro hm
    have : m = 0 := by omega
    subst this
    refine ⟨[D half], [], by simp, by simp, ?_, ?_⟩
    · intro x hx
      simp only [List.append_nil, List.mem_cons, List.not_mem_nil, or_false] at hx
      subst hx; exact Or.inr (Or.inl rfl)
    · intro w' _; simp [phiHistW]
  | succ i ih =>
    intro hm
    by_cases hle : m ≤ i
    · obtain ⟨pre, post, h1, h2, h3, h4⟩ := ih hle
      refine ⟨pre, post ++ [U, D full, w (i + 1)], h1, ?_, ?_, ?_⟩
      · simp [List.count_append, h2, hw (i + 1)]; omega
      · intro x hx
        simp only [List.mem_append, List.mem_cons, List.not_mem_nil, or_false] at hx
        rcases hx with hx | hx | rfl | rfl | rfl
        · exact h3 x (List.mem_append.mpr (Or.inl hx))
        · exact h3 x (List.mem_append.mpr (Or.inr hx))
        · exact Or.inl rfl
        · exact Or.inr (Or.inr (Or.inl rfl))
        · exact Or.inr (Or.inr (Or.inr ⟨i + 1, by omega, rfl⟩))
      · intro w' hw'
        simp only [phiHistW]
        rw [h4 w' hw', hw' (i + 1) (by omega)]
        simp
    · have hmi : m = i + 1 := by omega
      subst hmi
      refine ⟨phiHistW w i ++ [U, D full], [], ?_, by simp, ?_, ?_⟩
      · simp [List.count_append, countU_phiHistW w hw i]
      · intro x hx
        simp only [List.append_nil, List.mem_append, List.mem_cons, List.not_mem_nil, or_false] at hx
        rcases hx with hx | rfl | rfl
        · rcases phiHistW_mem w i x hx with h | h | h | ⟨k, hk, h⟩
          · exact Or.inl h
          · exact Or.inr (Or.inl h)
          · exact Or.inr (Or.inr (Or.inl h))
          · exact Or.inr (Or.inr (Or.inr ⟨k, by omega, h⟩))
        · exact Or.inl rfl
        · exact Or.inr (Or.inr (Or.inl rfl))
      · intro w' hw'
        simp only [phiHistW]
        rw [phiHistW_congr w w' i (fun k hk => hw' k (by omega))]
        simp

/-- order 2, column `j ≥ 1`: the noise step of index `m ≤ j` occurs exactly once, after `m` and before `j - m` `U`s -/
theorem strangW_split (w : Nat → Op) (hw : ∀ k, w k ≠ U) (m j : Nat) (hj : 1 ≤ j) (hm : m ≤ j) :
    ∃ pre post, pre.count U = m ∧ post.count U = j - m ∧ (∀ x ∈ pre ++ post, Plain w m x) ∧
      ∀ w' : Nat → Op, (∀ k, k ≠ m → w' k = w k) → strangW w' j = pre ++ w' m :: post := by
  obtain ⟨i, rfl⟩ : ∃ i, j = i + 1 := ⟨j - 1, by omega⟩
  by_cases hle : m ≤ i
  · obtain ⟨pre, post, h1, h2, h3, h4⟩ := phiHistW_split w hw m i hle
    refine ⟨pre, post ++ [U, D half, w (i + 1)], h1, ?_, ?_, ?_⟩
    · simp [List.count_append, h2, hw (i + 1)]; omega
    · intro x hx
      simp only [List.mem_append, List.mem_cons, List.not_mem_nil, or_false] at hx
      rcases hx with hx | hx | rfl | rfl | rfl
      · exact h3 x (List.mem_append.mpr (Or.inl hx))
      · exact h3 x (List.mem_append.mpr (Or.inr hx))
      · exact Or.inl rfl
      · exact Or.inr (Or.inl rfl)
      · exact Or.inr (Or.inr (Or.inr ⟨i + 1, by omega, rfl⟩))
    · intro w' hw'
      simp only [strangW]
      rw [h4 w' hw', hw' (i + 1) (by omega)]
      simp
  · have hmi : m = i + 1 := by omega
    subst hmi
    refine ⟨phiHistW w i ++ [U, D half], [], ?_, by simp, ?_, ?_⟩
    · simp [List.count_append, countU_phiHistW w hw i]
    · intro x hx
      simp only [List.append_nil, List.mem_append, List.mem_cons, List.not_mem_nil, or_false] at hx
      rcases hx with hx | rfl | rfl
      · rcases phiHistW_mem w i x hx with h | h | h | ⟨k, hk, h⟩
        · exact Or.inl h
        · exact Or.inr (Or.inl h)
        · exact Or.inr (Or.inr (Or.inl h))
        · exact Or.inr (Or.inr (Or.inr ⟨k, by omega, h⟩))
      · exact Or.inl rfl
      · exact Or.inr (Or.inl rfl)
    · intro w' hw'
      simp only [strangW]
      rw [phiHistW_congr w w' i (fun k hk => hw' k (by omega))]
      simp

/-- order 1, column `j`: the noise step of index `1 ≤ m ≤ j` occurs exactly once, after `m` and before `j - m` `U`s -/
theorem lieW_split (w : Nat → Op) (hw : ∀ k, w k ≠ U) (m : Nat) (hm1 : 1 ≤ m) : ∀ j, m ≤ j →
    ∃ pre post, pre.count U = m ∧ post.count U = j - m ∧ (∀ x ∈ pre ++ post, Plain w m x) ∧
      ∀ w' : Nat → Op, (∀ k, k ≠ m → w' k = w k) → lieW w' j = pre ++ w' m :: post := by
  intro j
  induction j with
  | zero => intro h; omega
  | succ i ih =>
    intro hm
    by_cases hle : m ≤ i
    · obtain ⟨pre, post, h1, h2, h3, h4⟩ := ih hle
      refine ⟨pre, post ++ [U, D full, w (i + 1)], h1, ?_, ?_, ?_⟩
      · simp [List.count_append, h2, hw (i + 1)]; omega
      · intro x hx
        simp only [List.mem_append, List.mem_cons, List.not_mem_nil, or_false] at hx
        rcases hx with hx | hx | rfl | rfl | rfl
        · exact h3 x (List.mem_append.mpr (Or.inl hx))
        · exact h3 x (List.mem_append.mpr (Or.inr hx))
        · exact Or.inl rfl
        · exact Or.inr (Or.inr (Or.inl rfl))
        · exact Or.inr (Or.inr (Or.inr ⟨i + 1, by omega, rfl⟩))
      · intro w' hw'
        simp only [lieW]
        rw [h4 w' hw', hw' (i + 1) (by omega)]
        simp
    · have hmi : m = i + 1 := by omega
      subst hmi
      refine ⟨lieW w i ++ [U, D full], [], ?_, by simp, ?_, ?_⟩
      · simp [List.count_append, countU_lieW w hw i]
      · intro x hx
        simp only [List.append_nil, List.mem_append, List.mem_cons, List.not_mem_nil, or_false] at hx
        rcases hx with hx | rfl | rfl
        · rcases lieW_mem w i x hx with h | h | h | ⟨k, hk, h⟩
          · exact Or.inl h
          · exact Or.inr (Or.inl h)
          · exact Or.inr (Or.inr (Or.inl h))
          · exact Or.inr (Or.inr (Or.inr ⟨k, by omega, h⟩))
        · exact Or.inl rfl
        · exact Or.inr (Or.inr (Or.inl rfl))
      · intro w' hw'
        simp only [lieW]
        rw [lieW_congr w w' i (fun k hk => hw' k (by omega))]
        simp

theorem noiseOp_ne_U (J : List Nat) (k : Nat) : noiseOp J k ≠ U := by
  unfold noiseOp; split <;> simp

/-- removing `m` from the jump list changes the noise step at index `m` only -/
theorem noiseOp_filter (J : List Nat) (m k : Nat) (hk : k ≠ m) :
    noiseOp (J.filter (· ≠ m)) k = noiseOp J k := by
  unfold noiseOp
  have : k ∈ J.filter (· ≠ m) ↔ k ∈ J := by simp [List.mem_filter, hk]
  by_cases h : k ∈ J
  · rw [if_pos h, if_pos (this.mpr h)]
  · rw [if_neg h, if_neg (fun hh => h (this.mp hh))]

theorem noiseOp_filter_self (J : List Nat) (m : Nat) : noiseOp (J.filter (· ≠ m)) m = Lot := by
  unfold noiseOp; simp [List.mem_filter]

theorem plain_ne_SJ (J : List Nat) (m : Nat) (x : Op) (h : Plain (noiseOp J) m x) : x ≠ SJ m := by
  rcases h with rfl | rfl | rfl | ⟨k, hk, rfl⟩
  · simp
  · simp
  · simp
  · unfold noiseOp; split
    · intro h; injection h with h; exact hk h
    · simp

/-- columns before index `m` do not see the noise step of index `m` -/
theorem strangW_congr (w w' : Nat → Op) (j : Nat) (h : ∀ k, k ≤ j → w' k = w k) : strangW w' j = strangW w j := by
  cases j with
  | zero => rfl
  | succ i =>
    simp only [strangW]
    rw [phiHistW_congr w w' i (fun k hk => h k (by omega)), h (i + 1) (Nat.le_refl _)]

end Yaqs.Pipeline
