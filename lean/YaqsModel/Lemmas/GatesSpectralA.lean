import YaqsModel.Lemmas.Gates

/-! spectral form of the generator pairs: complementary orthogonal idempotents and eigen-decomposition  (one lemma per gate; assembled into the property theorems in `Props/C18.lean`) -/
namespace Yaqs.Gates
open Matrix

variable {K : Type} [CommRing K]
set_option linter.unusedVariables false
set_option linter.unusedSectionVars false
theorem proj_cx_sum (hf : K) (hhf : 2 * hf = 1) : toM (GG.cx.proj hf).1 + toM (GG.cx.proj hf).2 = 1 := by gate_entries

theorem proj_cx_pp (hf : K) (hhf : 2 * hf = 1) : toM (GG.cx.proj hf).1 * toM (GG.cx.proj hf).1 = toM (GG.cx.proj hf).1 := by gate_entries

theorem proj_cx_qq (hf : K) (hhf : 2 * hf = 1) : toM (GG.cx.proj hf).2 * toM (GG.cx.proj hf).2 = toM (GG.cx.proj hf).2 := by gate_entries

theorem proj_cx_pq (hf : K) (hhf : 2 * hf = 1) : toM (GG.cx.proj hf).1 * toM (GG.cx.proj hf).2 = 0 := by gate_entries

theorem proj_cx_qp (hf : K) (hhf : 2 * hf = 1) : toM (GG.cx.proj hf).2 * toM (GG.cx.proj hf).1 = 0 := by gate_entries

theorem eig_cx (i hf lam : K) (hi : i * i = -1) (hhf : 2 * hf = 1) : (GG.cx.eig lam).1 • toM (GG.cx.proj hf).1 + (GG.cx.eig lam).2 • toM (GG.cx.proj hf).2 = toM (genKron (GG.cx.generator i lam)) := by gate_entries

theorem proj_cz_sum (hf : K) (hhf : 2 * hf = 1) : toM (GG.cz.proj hf).1 + toM (GG.cz.proj hf).2 = 1 := by gate_entries

theorem proj_cz_pp (hf : K) (hhf : 2 * hf = 1) : toM (GG.cz.proj hf).1 * toM (GG.cz.proj hf).1 = toM (GG.cz.proj hf).1 := by gate_entries

theorem proj_cz_qq (hf : K) (hhf : 2 * hf = 1) : toM (GG.cz.proj hf).2 * toM (GG.cz.proj hf).2 = toM (GG.cz.proj hf).2 := by gate_entries

theorem proj_cz_pq (hf : K) (hhf : 2 * hf = 1) : toM (GG.cz.proj hf).1 * toM (GG.cz.proj hf).2 = 0 := by gate_entries

theorem proj_cz_qp (hf : K) (hhf : 2 * hf = 1) : toM (GG.cz.proj hf).2 * toM (GG.cz.proj hf).1 = 0 := by gate_entries

theorem eig_cz (i hf lam : K) (hi : i * i = -1) (hhf : 2 * hf = 1) : (GG.cz.eig lam).1 • toM (GG.cz.proj hf).1 + (GG.cz.eig lam).2 • toM (GG.cz.proj hf).2 = toM (genKron (GG.cz.generator i lam)) := by gate_entries

theorem proj_cp_sum (hf : K) (hhf : 2 * hf = 1) : toM (GG.cp.proj hf).1 + toM (GG.cp.proj hf).2 = 1 := by gate_entries

theorem proj_cp_pp (hf : K) (hhf : 2 * hf = 1) : toM (GG.cp.proj hf).1 * toM (GG.cp.proj hf).1 = toM (GG.cp.proj hf).1 := by gate_entries

theorem proj_cp_qq (hf : K) (hhf : 2 * hf = 1) : toM (GG.cp.proj hf).2 * toM (GG.cp.proj hf).2 = toM (GG.cp.proj hf).2 := by gate_entries

theorem proj_cp_pq (hf : K) (hhf : 2 * hf = 1) : toM (GG.cp.proj hf).1 * toM (GG.cp.proj hf).2 = 0 := by gate_entries

theorem proj_cp_qp (hf : K) (hhf : 2 * hf = 1) : toM (GG.cp.proj hf).2 * toM (GG.cp.proj hf).1 = 0 := by gate_entries

theorem eig_cp (i hf lam : K) (hi : i * i = -1) (hhf : 2 * hf = 1) : (GG.cp.eig lam).1 • toM (GG.cp.proj hf).1 + (GG.cp.eig lam).2 • toM (GG.cp.proj hf).2 = toM (genKron (GG.cp.generator i lam)) := by gate_entries

end Yaqs.Gates
