import YaqsModel.Model.GateWindow
import Mathlib.Tactic.Ring

/-! helper lemmas for the plan part of `Model/GateWindow.lean`: the time coefficients of the digital two-site sweep for every
    window length, and the window shapes `apply_window` can produce for a gate on neighbouring sites. -/
namespace Yaqs.GateWindow

open Yaqs.Sweep Yaqs.Layers

theorem stepTimes_append (xs ys : List Step) : stepTimes (xs ++ ys) = stepTimes xs ++ stepTimes ys := by
  induction xs with
  | nil => rfl
  | cons x xs ih =>
    cases x with
    | prim o => cases o <;> simp [stepTimes, ih]
    | _ => simp [stepTimes, ih]

theorem stepTimes_tsLRFull (h : Rat) : ∀ n i, stepTimes (tsLRFull h n i) = (List.replicate n [h, -h]).flatten := by
  intro n
  induction n with
  | zero => intro i; rfl
  | succ n ih =>
    intro i
    simp [tsLRFull, stepTimes, ih (i + 1), List.replicate_succ]

/-- for every window length `n ≥ 2` the digital two-site sweep uses the times `+1, -1, +1, -1, …, +1`: every backward site
    step carries the negative of the time of the forward pair step before it, and the last pair runs with `dt = 1` -/
theorem stepTimes_twoSiteFull (n : Nat) (hn : 2 ≤ n) (steps : List Step) (hs : twoSiteFull n true = some steps) :
    stepTimes steps = (List.replicate (n - 2) [(1 : Rat), -1]).flatten ++ [1] := by
  unfold twoSiteFull at hs
  rw [if_neg (by omega), if_pos rfl] at hs
  simp only [Option.some.injEq] at hs
  subst hs
  rw [stepTimes_append, stepTimes_tsLRFull]
  rfl

/-- the window of a gate on the neighbouring chain sites `first, first+1`: two sites, plus one on the left unless the gate
    starts at the chain's first site, plus one on the right unless it ends at the chain's last site; the gate's lower site is
    window site 0 or 1 accordingly.  So only the shapes `(2,0)`, `(3,0)`, `(3,1)`, `(4,1)` occur. -/
theorem windowShape_adjacent (L first : Nat) (h : first + 1 < L) :
    windowShape L first (first + 1) =
      (2 + (if first = 0 then 0 else 1) + (if first + 2 = L then 0 else 1), if first = 0 then 0 else 1) := by
  unfold windowShape window
  simp only
  split_ifs <;> (simp only [Prod.mk.injEq]; omega)

end Yaqs.GateWindow
