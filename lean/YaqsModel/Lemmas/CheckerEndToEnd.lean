import YaqsModel.Model.CheckerChain
import YaqsModel.Lemmas.CheckerEmbed
import YaqsModel.Lemmas.MpoUpdate
import YaqsModel.Lemmas.Verdict
import YaqsModel.Lemmas.CRat

/-!
# C04 end to end: the MPO after `iterate` is `U₁ · 1 · U₂ᴴ`, so the checker's verdict is the verdict on `|tr(U₁ U₂ᴴ)|/2ⁿ`

helper lemmas for Part D of `Props/C04.lean` (nearest-neighbour circuits, no SVD truncation):

* `cfg`, `chainMat` — the operator a tensor list stands for, as a matrix over configurations `Fin n → Fin d`
* `embed1`, `embed2` — a one-site / two-site operator acting on given sites of the register, identity elsewhere
  (`Lemmas/CheckerEmbed.lean` instantiated), with `embed2_mul`, `embed_commute_*`
* `chain_update_is_embed` — C04.18 `update_mpo_chain` restated as a matrix identity
* `gateSem` — the operator of a gate object on the whole register, independent of the zone it is applied in
* `runSteps_represents` — induction over the `update_mpo` calls
* `nn_steps` — for nearest-neighbour circuits the event list of `iterate` is a sequence of `update_mpo` calls
* `iterateMpo_represents`, `checkerRun_correct`
-/
namespace Yaqs.CheckerE2E
open Matrix Finset
open Yaqs.MpoConv (Site vals vals_cons lastDr chainFrom wellFormed sumTo_eq_sum identityMpo identitySite lastDr_append
  chainFrom_append)
open Yaqs.MpoUpdate
open Yaqs.Verdict
open Yaqs.Embed
open Yaqs.CheckerChain

variable {K : Type}

/-! ## configurations and the matrix of a chain -/

/-- a configuration `σ : Fin n → Fin d` as the list of physical indices the path sums `vals` read -/
def cfg {n d : Nat} (σ : Fin n → Fin d) : List Nat := List.ofFn fun k => (σ k : Nat)

@[simp] theorem cfg_length {n d : Nat} (σ : Fin n → Fin d) : (cfg σ).length = n := by simp [cfg]

theorem cfg_getElem {n d : Nat} (σ : Fin n → Fin d) (k : Nat) (h : k < (cfg σ).length) :
    (cfg σ)[k] = (σ ⟨k, by simpa using h⟩ : Nat) := by
  simp [cfg]

theorem cfg_injective {n d : Nat} : Function.Injective (cfg : (Fin n → Fin d) → List Nat) := by
  intro σ τ h
  have := List.ofFn_injective h
  funext k
  exact Fin.ext (congrFun this k)

theorem cfg_update {n d : Nat} (σ : Fin n → Fin d) (p : Fin n) (a : Fin d) :
    cfg (Function.update σ p a) = (cfg σ).set p a := by
  apply List.ext_getElem
  · simp [cfg]
  · intro k h1 h2
    simp only [cfg, List.getElem_ofFn, List.getElem_set]
    by_cases hk : (p : Nat) = k
    · subst hk
      simp
    · rw [if_neg hk, Function.update_of_ne]
      intro e
      exact hk (by rw [← e])

theorem set_set_pair (l : List Nat) (m a b : Nat) (h : m + 1 < l.length) :
    (l.set m a).set (m + 1) b = l.take m ++ a :: b :: l.drop (m + 2) := by
  apply List.ext_getElem
  · simp; omega
  · intro k h1 h2
    grind

/-- the configuration list after the two sites `m`, `m+1` are overwritten -/
theorem cfg_put_pair {n d : Nat} (σ : Fin n → Fin d) (m : Nat) (h1 : m + 1 < n) (x : Fin d × Fin d) :
    cfg (Function.update (Function.update σ (⟨m, by omega⟩ : Fin n) x.1) (⟨m + 1, h1⟩ : Fin n) x.2)
      = (cfg σ).take m ++ (x.1 : Nat) :: (x.2 : Nat) :: (cfg σ).drop (m + 2) := by
  rw [cfg_update, cfg_update]
  exact set_set_pair (cfg σ) m x.1 x.2 (by simpa using h1)

/-- the operator a tensor list stands for, as a matrix over configurations: the bond path sum from left bond index 0
    (`MpoConv.toMatrixEntry`; by C07 `to_matrix_entry` the entry of `to_matrix()` at the Kronecker indices of `σ`, `σ'`) -/
def chainMat [Zero K] [One K] [Add K] [Mul K] (d n : Nat) (ts : List (Site K)) :
    Matrix (Fin n → Fin d) (Fin n → Fin d) K :=
  fun σ σ' => vals ts (cfg σ) (cfg σ') 0

/-! ## operators on given sites of the register -/

/-- the `dⁿ × dⁿ` operator that acts as `A` on site `p` and as the identity elsewhere (`1` if `p` is not a site) -/
def embed1 [Zero K] [One K] (d n p : Nat) (A : Matrix (Fin d) (Fin d) K) : Matrix (Fin n → Fin d) (Fin n → Fin d) K :=
  if h : p < n then embedL (siteLens (⟨p, h⟩ : Fin n)) A else 1

/-- the `dⁿ × dⁿ` operator that acts as `G` (rows / columns `(σ_p, σ_q)`) on the two distinct sites `p`, `q` and as the
    identity elsewhere (`1` if they are not two distinct sites) -/
def embed2 [Zero K] [One K] (d n p q : Nat) (G : Matrix (Fin d × Fin d) (Fin d × Fin d) K) :
    Matrix (Fin n → Fin d) (Fin n → Fin d) K :=
  if h : p < n ∧ q < n ∧ p ≠ q then
    embedL (pairLens (⟨p, h.1⟩ : Fin n) ⟨q, h.2.1⟩ (Fin.ne_of_val_ne h.2.2)) G
  else 1

section embedAlgebra
variable [CommSemiring K]

theorem embed1_mul (d n p : Nat) (A B : Matrix (Fin d) (Fin d) K) :
    embed1 d n p A * embed1 d n p B = embed1 d n p (A * B) := by
  unfold embed1
  split
  · exact embedL_mul _ A B
  · simp

theorem embed2_mul (d n p q : Nat) (G H : Matrix (Fin d × Fin d) (Fin d × Fin d) K) :
    embed2 d n p q G * embed2 d n p q H = embed2 d n p q (G * H) := by
  unfold embed2
  split
  · exact embedL_mul _ G H
  · simp

theorem embed2_one (d n p q : Nat) : embed2 d n p q (1 : Matrix (Fin d × Fin d) (Fin d × Fin d) K) = 1 := by
  unfold embed2
  split
  · exact embedL_one _
  · rfl

theorem embed2_conjTranspose [StarRing K] (d n p q : Nat) (G : Matrix (Fin d × Fin d) (Fin d × Fin d) K) :
    (embed2 d n p q G)ᴴ = embed2 d n p q Gᴴ := by
  unfold embed2
  split
  · exact embedL_conjTranspose _ G
  · simp

theorem embed1_conjTranspose [StarRing K] (d n p : Nat) (A : Matrix (Fin d) (Fin d) K) :
    (embed1 d n p A)ᴴ = embed1 d n p Aᴴ := by
  unfold embed1
  split
  · exact embedL_conjTranspose _ A
  · simp

theorem embed2_list_prod (d n p q : Nat) (Gs : List (Matrix (Fin d × Fin d) (Fin d × Fin d) K)) :
    embed2 d n p q Gs.prod = (Gs.map (embed2 d n p q)).prod := by
  induction Gs with
  | nil => simp [embed2_one]
  | cons G Gs ih => rw [List.prod_cons, List.map_cons, List.prod_cons, ← embed2_mul, ih]

/-- one-site operators on different sites commute -/
theorem embed_commute_11 (d n p q : Nat) (h : p ≠ q) (A B : Matrix (Fin d) (Fin d) K) :
    Commute (embed1 d n p A) (embed1 d n q B) := by
  unfold embed1
  split
  · split
    · exact embedL_commute _ _ (siteLens_indep (Fin.ne_of_val_ne h)) A B
    · exact Commute.one_right _
  · exact Commute.one_left _

/-- a one-site operator commutes with a two-site operator on two other sites -/
theorem embed_commute_12 (d n r p q : Nat) (hp : r ≠ p) (hq : r ≠ q) (A : Matrix (Fin d) (Fin d) K)
    (G : Matrix (Fin d × Fin d) (Fin d × Fin d) K) : Commute (embed1 d n r A) (embed2 d n p q G) := by
  unfold embed1 embed2
  split
  · split
    · exact embedL_commute _ _ (site_pair_indep _ (Fin.ne_of_val_ne hp) (Fin.ne_of_val_ne hq)) A G
    · exact Commute.one_right _
  · exact Commute.one_left _

/-- two-site operators on disjoint pairs of sites commute -/
theorem embed_commute_22 (d n p q r s : Nat) (hpr : p ≠ r) (hps : p ≠ s) (hqr : q ≠ r) (hqs : q ≠ s)
    (G H : Matrix (Fin d × Fin d) (Fin d × Fin d) K) : Commute (embed2 d n p q G) (embed2 d n r s H) := by
  unfold embed2
  split
  · split
    · exact embedL_commute _ _ (pair_pair_indep _ _ (Fin.ne_of_val_ne hpr) (Fin.ne_of_val_ne hps) (Fin.ne_of_val_ne hqr)
        (Fin.ne_of_val_ne hqs)) G H
    · exact Commute.one_right _
  · exact Commute.one_left _

open scoped Kronecker in
/-- `A ⊗ 1` on the pair `(p, q)` is `A` on site `p` -/
theorem embed2_kron_one (d n p q : Nat) (hp : p < n) (hq : q < n) (hpq : p ≠ q) (A : Matrix (Fin d) (Fin d) K) :
    embed2 d n p q (A ⊗ₖ (1 : Matrix (Fin d) (Fin d) K)) = embed1 d n p A := by
  unfold embed1 embed2
  rw [dif_pos ⟨hp, hq, hpq⟩, dif_pos hp]
  exact embedL_prod_kron_one _ _ _ A

open scoped Kronecker in
/-- `1 ⊗ A` on the pair `(p, q)` is `A` on site `q` -/
theorem embed2_one_kron (d n p q : Nat) (hp : p < n) (hq : q < n) (hpq : p ≠ q) (A : Matrix (Fin d) (Fin d) K) :
    embed2 d n p q ((1 : Matrix (Fin d) (Fin d) K) ⊗ₖ A) = embed1 d n q A := by
  unfold embed1 embed2
  rw [dif_pos ⟨hp, hq, hpq⟩, dif_pos hq]
  exact embedL_prod_one_kron _ _ _ A

end embedAlgebra

/-! ## C04.18 as a matrix identity -/

section chainUpdate
variable [CommSemiring K] [StarRing K]

/-- **`update_mpo` inside the chain, nothing discarded, as matrices**: `to_matrix` of the updated chain is
    `embed(U₁ on the pair) · to_matrix(chain) · embed(U₂ᴴ on the pair)`, with `U₁` the ordered product of the zone of
    circuit 1 and `U₂ᴴ` the product of the adjoints of the zone of circuit 2 -/
theorem chainUpdate_embed (d : Nat) (pre post : List (Site K)) (A B : Site K) (gs1 gs2 : List (Gate K)) (θ' : T6 K)
    (dec : Svd K) (thr : Rat) (hθ : updateTheta star d pre.length A B gs1 gs2 = some θ')
    (hspec : ∀ i, i < d * d * A.dl → ∀ j, j < d * d * B.dr →
      thetaMatrix d A.dl B.dr θ' i j = truncProd (Rank.keepTheta dec.s thr) dec i j)
    (hpre : lastDr 1 pre = A.dl) (n : Nat) (hn : n = pre.length + 2 + post.length) :
    chainMat d n (pre ++ (decomposeTheta d A.dl B.dr dec thr).1 :: (decomposeTheta d A.dl B.dr dec thr).2 :: post)
      = embed2 d n pre.length (pre.length + 1) ((gs1.map fun g => gateOp d g pre.length).reverse).prod
        * chainMat d n (pre ++ A :: B :: post)
        * embed2 d n pre.length (pre.length + 1) (gs2.map fun g => (gateOp d g pre.length)ᴴ).prod := by
  have hm : pre.length + 1 < n := by omega
  have hcond : pre.length < n ∧ pre.length + 1 < n ∧ pre.length ≠ pre.length + 1 := ⟨by omega, hm, by omega⟩
  ext σ σ'
  unfold embed2
  rw [dif_pos hcond, dif_pos hcond]
  rw [Matrix.mul_apply, sum_embedL_right]
  simp only [Matrix.mul_apply, sum_embedL_left, pairLens_get, pairLens_put]
  -- left-hand side through C04.18
  have eσ : cfg σ = (cfg σ).take pre.length ++ ((σ ⟨pre.length, by omega⟩ : Fin d) : Nat)
      :: ((σ ⟨pre.length + 1, hm⟩ : Fin d) : Nat) :: (cfg σ).drop (pre.length + 2) := by
    have := cfg_put_pair σ pre.length hm (σ ⟨pre.length, by omega⟩, σ ⟨pre.length + 1, hm⟩)
    simpa using this
  have eσ' : cfg σ' = (cfg σ').take pre.length ++ ((σ' ⟨pre.length, by omega⟩ : Fin d) : Nat)
      :: ((σ' ⟨pre.length + 1, hm⟩ : Fin d) : Nat) :: (cfg σ').drop (pre.length + 2) := by
    have := cfg_put_pair σ' pre.length hm (σ' ⟨pre.length, by omega⟩, σ' ⟨pre.length + 1, hm⟩)
    simpa using this
  have hsp : ((cfg σ).take pre.length).length = pre.length := by simp; omega
  have hsp' : ((cfg σ').take pre.length).length = pre.length := by simp; omega
  show vals _ (cfg σ) (cfg σ') 0 = _
  rw [eσ, eσ']
  rw [updateMpo_chain d pre.length A B gs1 gs2 θ' dec thr hθ
    (fun i hi j hj => by rw [hspec i hi j hj, truncProd, sumTo_eq_sum]) pre post _ _ _ _ hsp hsp' _ _ _ _ 1 hpre 0
    (by omega)]
  rw [Finset.sum_comm]
  refine Finset.sum_congr rfl fun y _ => ?_
  rw [Finset.sum_mul]
  refine Finset.sum_congr rfl fun x _ => ?_
  simp only [chainMat, cfg_put_pair _ pre.length hm]
  ring

end chainUpdate

/-! ## the operator of a gate object on the whole register -/

section gateSem
variable [CommSemiring K]

/-- the `dⁿ × dⁿ` operator of a gate object placed on the qubits `qs` (identity elsewhere): the identity for `name == "I"`,
    `gate.matrix` on site `q` for `qs = [q]`, `gate.tensor` read as `⟨σ_lo σ_hi| G |σ'_lo σ'_hi⟩` on the sites
    `lo = min q0 q1 < hi = max q0 q1` for `qs = [q0, q1]` (the gate library stores the tensor in site order, C18), and `1`
    for anything else.  It does not depend on the temporal zone the gate is applied in. -/
def gateSem (d n : Nat) (g : Gate K) (qs : List Nat) : Matrix (Fin n → Fin d) (Fin n → Fin d) K :=
  if g.isId then 1
  else match qs with
    | [q] => embed1 d n q (gateMat1 d g.mat)
    | [q0, q1] => embed2 d n (min q0 q1) (max q0 q1) (gateMat2 d g.ten)
    | _ => 1

/-- the interpretation of the instructions of a circuit: `embed_gate` of the gate object built for each -/
def sem (d n : Nat) (gateOf : Instr → Gate K) (i : Instr) : Matrix (Fin n → Fin d) (Fin n → Fin d) K :=
  gateSem d n (gateOf i) i.qs

/-- gates on disjoint qubits commute — for every pair of instructions, whatever the gate objects are -/
theorem gateSem_commute (d n : Nat) (g h : Gate K) (qs rs : List Nat) (hd : disj qs rs = true) :
    Commute (gateSem d n g qs) (gateSem d n h rs) := by
  unfold gateSem
  by_cases hg : g.isId = true
  · rw [if_pos hg]; exact Commute.one_left _
  by_cases hh : h.isId = true
  · rw [if_pos hh]; exact Commute.one_right _
  rw [if_neg hg, if_neg hh]
  match qs, rs, hd with
  | [], _, _ => exact Commute.one_left _
  | _ :: _ :: _ :: _, _, _ => exact Commute.one_left _
  | [_], [], _ => exact Commute.one_right _
  | [_], _ :: _ :: _ :: _, _ => exact Commute.one_right _
  | [_, _], [], _ => exact Commute.one_right _
  | [_, _], _ :: _ :: _ :: _, _ => exact Commute.one_right _
  | [q], [r], hd =>
    have hqr : q ≠ r := by
      simp [disj] at hd
      exact hd
    exact embed_commute_11 d n q r hqr _ _
  | [q], [r0, r1], hd =>
    have h' : q ≠ r0 ∧ q ≠ r1 := by
      simp [disj] at hd
      exact hd
    exact embed_commute_12 d n q _ _ (by omega) (by omega) _ _
  | [q0, q1], [r], hd =>
    have h' : q0 ≠ r ∧ q1 ≠ r := by
      simp [disj] at hd
      exact hd
    exact (embed_commute_12 d n r _ _ (by omega) (by omega) _ _).symm
  | [q0, q1], [r0, r1], hd =>
    have h' : (q0 ≠ r0 ∧ q0 ≠ r1) ∧ q1 ≠ r0 ∧ q1 ≠ r1 := by
      simp [disj] at hd
      exact hd
    exact embed_commute_22 d n _ _ _ _ (by omega) (by omega) (by omega) (by omega) _ _

theorem sem_commute (d n : Nat) (gateOf : Instr → Gate K) (a b : Instr) (h : disj a.qs b.qs = true) :
    Commute (sem d n gateOf a) (sem d n gateOf b) :=
  gateSem_commute d n _ _ _ _ h

/-- what `convert_dag_to_tensor_algorithm` guarantees of the gate object of an instruction, and what the layer logic
    guarantees of an instruction a zone at `(m, m+1)` consumes -/
structure InZone (m : Nat) (g : Gate K) (qs : List Nat) : Prop where
  sites : g.sites = qs
  inter : g.interaction = qs.length
  len : qs.length = 1 ∨ qs.length = 2
  nodup : qs.Nodup
  inside : ∀ q ∈ qs, q = m ∨ q = m + 1

open scoped Kronecker in
/-- **the link**: the two-site operator `apply_gate` uses for a gate in the zone at `(m, m+1)`, placed on that pair, is the
    gate's operator on the register -/
theorem embed2_gateOp (d n m : Nat) (hm : m + 1 < n) (g : Gate K) (qs : List Nat) (h : InZone m g qs) :
    embed2 d n m (m + 1) (gateOp d g m) = gateSem d n g qs := by
  unfold gateSem gateOp gateOpC
  by_cases hg : g.isId = true
  · rw [if_pos hg, if_pos hg, embed2_one]
  rw [if_neg hg, if_neg hg]
  obtain ⟨hs, hi, hl, hnd, hin⟩ := h
  rcases hl with h1 | h2
  · obtain ⟨q, rfl⟩ := List.length_eq_one_iff.mp h1
    have hi1 : g.interaction = 1 := by simpa using hi
    have hhd : g.sites.headD 0 = q := by rw [hs]; rfl
    rw [if_pos hi1]
    rcases hin q (by simp) with rfl | rfl
    · rw [if_pos hhd]
      exact embed2_kron_one d n q (q + 1) (by omega) hm (by omega) _
    · rw [if_neg (by omega)]
      exact embed2_one_kron d n m (m + 1) (by omega) hm (by omega) _
  · obtain ⟨q0, q1, rfl⟩ := List.length_eq_two.mp h2
    have hi2 : g.interaction = 2 := by simpa using hi
    rw [if_neg (by omega)]
    have hne : q0 ≠ q1 := by
      simp at hnd
      exact hnd
    have h0 := hin q0 (by simp)
    have h1 := hin q1 (by simp)
    have emin : min q0 q1 = m := by omega
    have emax : max q0 q1 = m + 1 := by omega
    simp only [emin, emax, id]

/-- the zone of circuit 1 at `(m, m+1)`: the ordered product of the local operators, placed on the pair, is the ordered
    product of the gates' operators on the register -/
theorem embed2_zone_top (d n m : Nat) (hm : m + 1 < n) (gateOf : Instr → Gate K) (is : List Instr)
    (h : ∀ i ∈ is, InZone m (gateOf i) i.qs) :
    embed2 d n m (m + 1) (((is.map gateOf).map fun g => gateOp d g m).reverse).prod = U (sem d n gateOf) is := by
  unfold U
  rw [embed2_list_prod, List.map_reverse, List.map_map, List.map_map]
  congr 2
  apply List.map_congr_left
  intro i hi
  exact embed2_gateOp d n m hm _ _ (h i hi)

/-- the zone of circuit 2 at `(m, m+1)`: the product of the adjoint local operators, placed on the pair, is the product of
    the adjoints of the gates' operators on the register, in the order the gates are applied -/
theorem embed2_zone_bottom [StarRing K] (d n m : Nat) (hm : m + 1 < n) (gateOf : Instr → Gate K) (is : List Instr)
    (h : ∀ i ∈ is, InZone m (gateOf i) i.qs) :
    embed2 d n m (m + 1) ((is.map gateOf).map fun g => (gateOp d g m)ᴴ).prod
      = (is.map fun i => star (sem d n gateOf i)).prod := by
  rw [embed2_list_prod, List.map_map, List.map_map]
  congr 1
  apply List.map_congr_left
  intro i hi
  simp only [Function.comp, star_eq_conjTranspose]
  rw [← embed2_conjTranspose, embed2_gateOp d n m hm _ _ (h i hi)]
  rfl

end gateSem

/-! ## the sequence of `update_mpo` calls -/

section run
variable [CommSemiring K] [StarRing K]

/-- what the layer logic (C04.8c `iterate_zone_sites`, `startIts`) and `convert_dag_to_tensor_algorithm` guarantee for one
    `update_mpo`: the pair is inside the register and every consumed gate is a one- or two-qubit gate inside the pair -/
def StepOK (n : Nat) (gate1 gate2 : Instr → Gate K) (s : Step) : Prop :=
  s.m + 1 < n ∧ (∀ i ∈ s.is1, InZone s.m (gate1 i) i.qs) ∧ (∀ i ∈ s.is2, InZone s.m (gate2 i) i.qs)

/-- **no truncation**, along the whole run: at every `update_mpo` the kept part `u[:, :keep] · diag(s[:keep]) · vh[:keep]` of
    what the SVD returned reproduces the flattened block that was handed to it (true when all singular values are kept and
    `U diag(s) Vh = M`, or when the discarded ones are zero) -/
def ExactSteps (d : Nat) (thr : Rat) (gate1 gate2 : Instr → Gate K) : List (Site K) → List Step → List (Svd K) → Prop
  | ts, s :: ss, dec :: decs =>
    (∀ A B θ', ts[s.m]? = some A → ts[s.m + 1]? = some B →
      updateTheta star d s.m A B (s.is1.map gate1) (s.is2.map gate2) = some θ' →
      ∀ i, i < d * d * A.dl → ∀ j, j < d * d * B.dr →
        thetaMatrix d A.dl B.dr θ' i j = truncProd (Rank.keepTheta dec.s thr) dec i j) ∧
    (∀ ts', updateMpo star d thr gate1 gate2 ts s dec = some ts' → ExactSteps d thr gate1 gate2 ts' ss decs)
  | _, _, _ => True

/-- a tensor list `to_matrix` / `check_if_identity` accept: `n` tensors of physical dimension `d`, matching bonds, outer
    bonds 1 -/
structure GoodChain (d n : Nat) (ts : List (Site K)) : Prop where
  len : ts.length = n
  chain : chainFrom 1 ts = true
  last : lastDr 1 ts = 1
  dims : ∀ t ∈ ts, t.d = d

omit [StarRing K] in
theorem goodChain_identity (d n : Nat) : GoodChain d n (identityMpo n d : List (Site K)) := by
  refine ⟨by simp [identityMpo], ?_, ?_, ?_⟩
  · induction n with
    | zero => simp [identityMpo, chainFrom]
    | succ n ih =>
      simp only [identityMpo, List.replicate_succ, chainFrom, identitySite, decide_true, Bool.true_and] at ih ⊢
      exact ih
  · induction n with
    | zero => simp [identityMpo, lastDr]
    | succ n ih =>
      simp only [identityMpo, List.replicate_succ, lastDr, identitySite] at ih ⊢
      exact ih
  · intro t ht
    simp only [identityMpo, List.mem_replicate] at ht
    rw [ht.2]; rfl

omit [CommSemiring K] [StarRing K] in
theorem GoodChain.wf {d n : Nat} {ts : List (Site K)} (h : GoodChain d n ts) (hn : 0 < n) :
    wellFormed ts = true := by
  obtain ⟨hl, hc, hla, _⟩ := h
  cases ts with
  | nil => simp at hl; omega
  | cons t ts =>
    simp only [chainFrom, Bool.and_eq_true, decide_eq_true_eq] at hc
    simp only [lastDr] at hla
    simp only [wellFormed, Bool.and_eq_true, decide_eq_true_eq]
    exact ⟨⟨hc.1, hc.2⟩, hla⟩

omit [StarRing K] in
/-- where `update_mpo` reads and writes: the two tensors of the pair, nothing else -/
theorem updateMpo_split (cj : K → K) (d : Nat) (thr : Rat) (gate1 gate2 : Instr → Gate K) (ts ts' : List (Site K)) (s : Step)
    (dec : Svd K) (h : updateMpo cj d thr gate1 gate2 ts s dec = some ts') :
    ∃ pre A B post θ', ts = pre ++ A :: B :: post ∧ pre.length = s.m ∧ ts[s.m]? = some A ∧ ts[s.m + 1]? = some B ∧
      updateTheta cj d s.m A B (s.is1.map gate1) (s.is2.map gate2) = some θ' ∧
      ts' = pre ++ (decomposeTheta d A.dl B.dr dec thr).1 :: (decomposeTheta d A.dl B.dr dec thr).2 :: post := by
  unfold updateMpo at h
  split at h
  · rename_i A B hA hB
    split at h
    · rename_i θ' hθ
      have hk : s.m + 1 < ts.length := by
        rcases Nat.lt_or_ge (s.m + 1) ts.length with h' | h'
        · exact h'
        · rw [List.getElem?_eq_none h'] at hB; exact absurd hB (by simp)
      obtain ⟨pre, a, b, post, rfl, hlen⟩ := MpoConv.split_at ts s.m hk
      have ea : a = A := by
        rw [← hlen] at hA
        simpa using hA
      have eb : b = B := by
        rw [← hlen, List.getElem?_append_right (by omega)] at hB
        simpa using hB
      subst ea eb
      refine ⟨pre, a, b, post, θ', rfl, hlen, hA, hB, hθ, ?_⟩
      simp only [Option.some.injEq] at h
      rw [← h, ← hlen]
      simp
    · simp at h
  · simp at h

/-- **one `update_mpo`, nothing discarded**: the chain stays well formed and its operator is acted on by the two zone events
    exactly as C04.10's event semantics says — circuit-1 gates from the left, adjoints of circuit-2 gates from the right,
    each as its operator on the whole register -/
theorem updateMpo_represents (d n : Nat) (thr : Rat) (gate1 gate2 : Instr → Gate K) (ts ts' : List (Site K)) (s : Step)
    (dec : Svd K) (hg : GoodChain d n ts) (hs : StepOK n gate1 gate2 s)
    (hx : ∀ A B θ', ts[s.m]? = some A → ts[s.m + 1]? = some B →
      updateTheta star d s.m A B (s.is1.map gate1) (s.is2.map gate2) = some θ' →
      ∀ i, i < d * d * A.dl → ∀ j, j < d * d * B.dr →
        thetaMatrix d A.dl B.dr θ' i j = truncProd (Rank.keepTheta dec.s thr) dec i j)
    (h : updateMpo star d thr gate1 gate2 ts s dec = some ts') :
    GoodChain d n ts' ∧
    chainMat d n ts' = runEvs (sem d n gate1) (fun i => star (sem d n gate2 i)) (chainMat d n ts) s.evs := by
  obtain ⟨pre, A, B, post, θ', rfl, hlen, hA, hB, hθ, rfl⟩ := updateMpo_split star d thr gate1 gate2 ts ts' s dec h
  obtain ⟨hl, hc, hla, hd⟩ := hg
  obtain ⟨hm, h1, h2⟩ := hs
  have hc' := hc
  rw [chainFrom_append] at hc'
  simp only [chainFrom, Bool.and_eq_true, decide_eq_true_eq] at hc'
  have hpre : lastDr 1 pre = A.dl := hc'.2.1.symm
  constructor
  · refine ⟨by simpa using hl, ?_, ?_, ?_⟩
    · rw [chainFrom_append]
      simp only [chainFrom, decomposeTheta, dtLeft, dtRight, Bool.and_eq_true, decide_eq_true_eq]
      exact ⟨hc'.1, decide_eq_true hc'.2.1, trivial, hc'.2.2.2⟩
    · rw [lastDr_append] at hla ⊢
      simpa [lastDr, decomposeTheta, dtLeft, dtRight] using hla
    · intro t ht
      simp only [List.mem_append, List.mem_cons] at ht
      rcases ht with ht | rfl | rfl | ht
      · exact hd t (by simp [ht])
      · rfl
      · rfl
      · exact hd t (by simp [ht])
  · have hn : n = pre.length + 2 + post.length := by
      rw [← hl]; simp; omega
    rw [← hlen] at hθ hm h1 h2
    rw [chainUpdate_embed d pre post A B _ _ θ' dec thr hθ (hx A B θ' hA hB (hlen ▸ hθ)) hpre n hn]
    rw [embed2_zone_top d n pre.length hm gate1 s.is1 h1, embed2_zone_bottom d n pre.length hm gate2 s.is2 h2]
    simp [Step.evs, runEvs, applyEv]

/-- **the whole run, nothing discarded** (induction over the `update_mpo` calls): the operator of the final chain is the
    event semantics `runEvs` of C04.10 applied to the operator of the initial chain, with every gate interpreted as its
    operator on the register -/
theorem runSteps_represents (d n : Nat) (thr : Rat) (gate1 gate2 : Instr → Gate K) :
    ∀ (steps : List Step) (decs : List (Svd K)) (ts ts' : List (Site K)), GoodChain d n ts →
    (∀ s ∈ steps, StepOK n gate1 gate2 s) → ExactSteps d thr gate1 gate2 ts steps decs →
    runSteps star d thr gate1 gate2 ts steps decs = some ts' →
    GoodChain d n ts' ∧
    chainMat d n ts' = runEvs (sem d n gate1) (fun i => star (sem d n gate2 i)) (chainMat d n ts)
      (steps.flatMap Step.evs)
  | [], _, ts, ts', hg, _, _, h => by
    simp only [runSteps, Option.some.injEq] at h
    subst h
    exact ⟨hg, by simp [runEvs]⟩
  | _ :: _, [], _, _, _, _, _, h => by simp [runSteps] at h
  | s :: ss, dec :: decs, ts, ts', hg, hs, hx, h => by
    simp only [runSteps] at h
    split at h
    · rename_i ts1 h1
      obtain ⟨hx1, hx2⟩ := hx
      obtain ⟨hg1, e1⟩ := updateMpo_represents d n thr gate1 gate2 ts ts1 s dec hg (hs s (by simp)) hx1 h1
      obtain ⟨hg2, e2⟩ := runSteps_represents d n thr gate1 gate2 ss decs ts1 ts' hg1
        (fun s' hs' => hs s' (by simp [hs'])) (hx2 ts1 h1) h
      refine ⟨hg2, ?_⟩
      rw [e2, e1, List.flatMap_cons]
      simp [runEvs, List.foldl_append]
    · simp at h

end run

/-! ## nearest-neighbour circuits: the event list of `iterate` is a sequence of `update_mpo` calls -/

/-- every gate has `check_longest_gate` distance at most 2 (one-qubit gates and two-qubit gates on neighbouring qubits) -/
def NN (d : Dag) : Prop := ∀ g ∈ d, dist g.qs ≤ 2

theorem foldr_max_le (l : List Nat) (b c : Nat) (hb : b ≤ c) (h : ∀ x ∈ l, x ≤ c) : l.foldr max b ≤ c := by
  induction l with
  | nil => simpa using hb
  | cons x xs ih =>
    simp only [List.foldr_cons]
    exact Nat.max_le.mpr ⟨h x (by simp), ih (fun y hy => h y (by simp [hy]))⟩

theorem longest_le_two (d : Dag) (h : NN d) : longest d ≤ 2 := by
  unfold longest
  apply foldr_max_le _ _ _ (by omega)
  intro x hx
  simp only [List.mem_map, List.mem_filter] at hx
  obtain ⟨y, ⟨hy, _⟩, rfl⟩ := hx
  have := (mem_frontGates (d := d) (i := y.1) (g := y.2) hy).1
  exact h _ (List.mem_of_getElem? this)

theorem NN_sub {d d' : Dag} (h : NN d) (hs : ∀ x ∈ d', x ∈ d) : NN d' := fun g hg => h g (hs g hg)

theorem zonePass_steps (ms : List Nat) (s : State) :
    ∃ steps : List Step, (zonePass ms s).1 = steps.flatMap Step.evs ∧ steps.map Step.m = ms := by
  induction ms generalizing s with
  | nil => exact ⟨[], rfl, rfl⟩
  | cons m ms ih =>
    obtain ⟨steps, h1, h2⟩ := ih (zoneStep s m).2
    refine ⟨⟨m, (zone [m, m + 1] s.1).1, (zone [m, m + 1] s.2).1⟩ :: steps, ?_, by simp [h2]⟩
    simp only [zonePass, List.flatMap_cons, h1]
    rfl

theorem loop_steps (its : List Nat) : ∀ (k : Nat) (s : State) (evs : List Ev), NN s.1 → NN s.2 →
    loop its k s = .done evs → ∃ steps : List Step, evs = steps.flatMap Step.evs ∧ ∀ st ∈ steps, st.m ∈ its := by
  intro k
  induction k with
  | zero =>
    intro s evs _ _ h
    simp only [loop] at h
    split at h
    · simp only [Res.done.injEq] at h
      exact ⟨[], by simp [← h], by simp⟩
    · simp at h
  | succ k ih =>
    intro s evs n1 n2 h
    simp only [loop] at h
    split at h
    · simp only [Res.done.injEq] at h
      exact ⟨[], by simp [← h], by simp⟩
    · rw [if_pos ⟨longest_le_two _ n1, longest_le_two _ n2⟩] at h
      obtain ⟨evs', hr, rfl⟩ := prepend_done h
      obtain ⟨st1, e1, m1⟩ := zonePass_steps its s
      obtain ⟨st2, e2, m2⟩ := ih _ _ (NN_sub n1 (zonePass_fst_sub its s)) (NN_sub n2 (zonePass_snd_sub its s)) hr
      refine ⟨st1 ++ st2, by rw [e1, e2, List.flatMap_append], ?_⟩
      intro st hst
      rcases List.mem_append.mp hst with h' | h'
      · rw [← m1]
        exact List.mem_map.mpr ⟨st, h', rfl⟩
      · exact m2 st h'

theorem stepsOf_flatMap (steps : List Step) : stepsOf (steps.flatMap Step.evs) = some steps := by
  induction steps with
  | nil => rfl
  | cons s ss ih =>
    simp only [List.flatMap_cons, Step.evs, List.cons_append, List.nil_append, stepsOf, ih]
    simp

theorem mem_startIts_lt (n : Nat) (odd : Bool) (m : Nat) (h : m ∈ startIts n odd) : m + 1 < n := by
  unfold startIts at h
  simp only at h
  split at h <;> simp only [List.mem_append, List.mem_filter, List.mem_range] at h <;> omega

theorem mem_consumed_of_zone (c m : Nat) (gs : List Instr) (evs : List Ev) (h : Ev.zone c m gs ∈ evs) (i : Instr)
    (hi : i ∈ gs) : i ∈ consumed c evs := by
  unfold consumed
  rw [List.mem_flatMap]
  exact ⟨_, h, by simp [Ev.consumed, hi]⟩

/-! ## the start: the identity MPO, and the trace -/

section identity
variable [CommSemiring K]

theorem vals_identity (L d : Nat) : ∀ (σ σ' : List Nat), σ.length = L → σ'.length = L → ∀ l,
    vals (identityMpo L d : List (Site K)) σ σ' l = if σ = σ' then 1 else 0 := by
  induction L with
  | zero =>
    intro σ σ' h h' l
    have e1 : σ = [] := List.length_eq_zero_iff.mp h
    have e2 : σ' = [] := List.length_eq_zero_iff.mp h'
    subst e1 e2
    simp [identityMpo, vals]
  | succ L ih =>
    intro σ σ' h h' l
    cases σ with
    | nil => simp at h
    | cons a σ =>
      cases σ' with
      | nil => simp at h'
      | cons b σ' =>
        have := ih σ σ' (by simpa using h) (by simpa using h') 0
        simp only [identityMpo] at this
        simp only [identityMpo, List.replicate_succ, vals_cons]
        rw [show (identitySite d : Site K).dr = 1 from rfl, Finset.sum_range_one, this]
        by_cases hab : a = b
        · subst hab; simp [identitySite]
        · have : ¬ (a :: σ = b :: σ') := fun hc => hab (List.cons.inj hc).1
          simp [identitySite, hab, this]

/-- `mpo.identity(n)` stands for the identity operator -/
theorem chainMat_identity (d n : Nat) : chainMat d n (identityMpo n d : List (Site K)) = 1 := by
  ext σ σ'
  simp only [chainMat, vals_identity n d (cfg σ) (cfg σ') (by simp) (by simp) 0, Matrix.one_apply]
  by_cases h : σ = σ'
  · subst h; simp
  · rw [if_neg h, if_neg (fun hc => h (cfg_injective hc))]

theorem cfg_cons {n d : Nat} (a : Fin d) (σ : Fin n → Fin d) :
    cfg (Fin.cons a σ : Fin (n + 1) → Fin d) = (a : Nat) :: cfg σ := by
  simp [cfg, List.ofFn_succ]

/-- the trace of the operator of a chain is the bond path sum of the partial traces (`MpoUpdate.pathTrace`) -/
theorem sum_diag_chain (d : Nat) : ∀ (n : Nat) (ts : List (Site K)) (l : Nat), ts.length = n → (∀ t ∈ ts, t.d = d) →
    ∑ σ : Fin n → Fin d, vals ts (cfg σ) (cfg σ) l = pathTrace ts l := by
  intro n
  induction n with
  | zero =>
    intro ts l hl _
    have : ts = [] := List.length_eq_zero_iff.mp hl
    subst this
    simp [vals, pathTrace]
  | succ n ih =>
    intro ts l hl hd
    cases ts with
    | nil => simp at hl
    | cons t ts =>
      have hl' : ts.length = n := by simpa using hl
      have hd' : ∀ t' ∈ ts, t'.d = d := fun t' h' => hd t' (by simp [h'])
      have htd : t.d = d := hd t (by simp)
      rw [← Fintype.sum_equiv (Fin.consEquiv fun _ => Fin d) (fun p => vals (t :: ts) (cfg (Fin.cons p.1 p.2 : Fin (n + 1) → Fin d))
        (cfg (Fin.cons p.1 p.2 : Fin (n + 1) → Fin d)) l) _ (fun p => rfl)]
      rw [Fintype.sum_prod_type]
      simp only [cfg_cons, vals_cons, pathTrace]
      calc ∑ a : Fin d, ∑ σ : Fin n → Fin d, ∑ r ∈ range t.dr, t.e a a l r * vals ts (cfg σ) (cfg σ) r
          = ∑ a : Fin d, ∑ r ∈ range t.dr, t.e a a l r * pathTrace ts r := by
            refine Finset.sum_congr rfl fun a _ => ?_
            rw [Finset.sum_comm]
            refine Finset.sum_congr rfl fun r _ => ?_
            rw [← Finset.mul_sum, ih ts r hl' hd']
        _ = ∑ r ∈ range t.dr, (∑ a ∈ range t.d, t.e a a l r) * pathTrace ts r := by
            rw [Finset.sum_comm]
            refine Finset.sum_congr rfl fun r _ => ?_
            rw [Finset.sum_mul, htd, ← Fin.sum_univ_eq_sum_range (fun a => t.e a a l r * pathTrace ts r) d]

theorem trace_chainMat (d n : Nat) (ts : List (Site K)) (hl : ts.length = n) (hd : ∀ t ∈ ts, t.d = d) :
    Matrix.trace (chainMat d n ts) = pathTrace ts 0 := by
  simp only [Matrix.trace, Matrix.diag, chainMat]
  exact sum_diag_chain d n ts 0 hl hd

end identity

/-! ## assembling the run of `iterate` -/

section final
variable [CommSemiring K] [StarRing K]

/-- a circuit of one-qubit gates and two-qubit gates on neighbouring (distinct) qubits, with the gate objects
    `convert_dag_to_tensor_algorithm` builds for its instructions (`gate.sites` = the qubit indices, `gate.interaction` =
    their number) -/
def NNCircuit (c : Dag) (gateOf : Instr → Gate K) : Prop :=
  ∀ i ∈ c, (i.qs.length = 1 ∨ i.qs.length = 2) ∧ i.qs.Nodup ∧ dist i.qs ≤ 2 ∧
    (gateOf i).sites = i.qs ∧ (gateOf i).interaction = i.qs.length

omit [CommSemiring K] [StarRing K] in
theorem NNCircuit.nn {c : Dag} {gateOf : Instr → Gate K} (h : NNCircuit c gateOf) : NN c := fun g hg => (h g hg).2.2.1

omit [CommSemiring K] [StarRing K] in
/-- for nearest-neighbour circuits the event list of `iterate` is a sequence of `update_mpo` calls, each inside the register
    and consuming only gates of its own pair of sites -/
theorem iterate_steps_ok (n : Nat) (gate1 gate2 : Instr → Gate K) (c1 c2 : Dag) (fuel : Nat) (evs : List Ev)
    (h1 : NNCircuit c1 gate1) (h2 : NNCircuit c2 gate2) (h : iterate n c1 c2 fuel = .done evs) :
    2 ≤ n ∧ ∃ steps : List Step, stepsOf evs = some steps ∧ evs = steps.flatMap Step.evs ∧
      ∀ s ∈ steps, StepOK n gate1 gate2 s := by
  unfold iterate at h
  split at h
  · simp at h
  · rename_i hn
    refine ⟨by omega, ?_⟩
    obtain ⟨steps, e, hm⟩ := loop_steps _ _ _ _ h1.nn h2.nn h
    refine ⟨steps, by rw [e]; exact stepsOf_flatMap steps, e, ?_⟩
    have hok := loop_ok _ _ _ _ h
    obtain ⟨t1, t2⟩ := loop_takes _ _ _ _ h
    have p1 := t1.perm
    have p2 := t2.perm
    simp only [List.append_nil] at p1 p2
    intro s hs
    have he1 : Ev.zone 1 s.m s.is1 ∈ evs := by
      rw [e, List.mem_flatMap]; exact ⟨s, hs, by simp [Step.evs]⟩
    have he2 : Ev.zone 2 s.m s.is2 ∈ evs := by
      rw [e, List.mem_flatMap]; exact ⟨s, hs, by simp [Step.evs]⟩
    refine ⟨mem_startIts_lt n _ s.m (hm s hs), ?_, ?_⟩
    · intro i hi
      have hc : i ∈ c1 := p1.subset (mem_consumed_of_zone 1 s.m s.is1 evs he1 i hi)
      obtain ⟨hl, hnd, _, hsi, hin⟩ := h1 i hc
      exact ⟨hsi, hin, hl, hnd, hok _ he1 i hi⟩
    · intro i hi
      have hc : i ∈ c2 := p2.subset (mem_consumed_of_zone 2 s.m s.is2 evs he2 i hi)
      obtain ⟨hl, hnd, _, hsi, hin⟩ := h2 i hc
      exact ⟨hsi, hin, hl, hnd, hok _ he2 i hi⟩

/-- **the tensor run of `iterate` is the event semantics of C04.10**: for nearest-neighbour circuits with every split
    untruncated, the operator of the final chain is `runEvs` of the event list applied to the identity, every gate
    interpreted as its operator on the whole register -/
theorem iterateMpo_runEvs (d n : Nat) (thr : Rat) (gate1 gate2 : Instr → Gate K) (c1 c2 : Dag) (decs : List (Svd K))
    (ts : List (Site K)) (h1 : NNCircuit c1 gate1) (h2 : NNCircuit c2 gate2)
    (hx : ∀ evs steps, iterate n c1 c2 (c1.length + c2.length) = .done evs → stepsOf evs = some steps →
      ExactSteps d thr gate1 gate2 (identityMpo n d) steps decs)
    (h : iterateMpo star d thr gate1 gate2 n c1 c2 decs = some ts) :
    ∃ evs, iterate n c1 c2 (c1.length + c2.length) = .done evs ∧ 2 ≤ n ∧ GoodChain d n ts ∧
      chainMat d n ts = runEvs (sem d n gate1) (fun i => star (sem d n gate2 i)) 1 evs := by
  unfold iterateMpo at h
  split at h
  · rename_i evs hit
    split at h
    · rename_i steps hst
      obtain ⟨hn, steps', hst', e, hok⟩ := iterate_steps_ok n gate1 gate2 c1 c2 _ evs h1 h2 hit
      have : steps' = steps := by rw [hst'] at hst; exact Option.some.inj hst
      subst this
      obtain ⟨hg, hm⟩ := runSteps_represents d n thr gate1 gate2 steps' decs _ ts (goodChain_identity d n) hok
        (hx evs steps' hit hst') h
      exact ⟨evs, hit, hn, hg, by rw [hm, chainMat_identity, ← e]⟩
    · simp at h
  · simp at h

end final

/-- **what `equivalence_checker.run` returns**: the decision of `check_if_identity` on the conjugate of the trace of the
    operator of the final chain -/
theorem checkerRun_decision (thr : Rat) (gate1 gate2 : Instr → Gate CRat) (n : Nat) (c1 c2 : Dag) (decs : List (Svd CRat))
    (f : Rat) (b : Bool) (h : checkerRun thr gate1 gate2 n c1 c2 decs f = some b) :
    ∃ ts, iterateMpo star 2 thr gate1 gate2 n c1 c2 decs = some ts ∧
      (GoodChain 2 n ts → 0 < n → b = identityDecision (star (Matrix.trace (chainMat 2 n ts))) n f) := by
  unfold checkerRun at h
  split at h
  · rename_i ts hts
    refine ⟨ts, hts, ?_⟩
    intro hg hn
    split at h
    · rename_i tr htr
      have := identityTrace_eq ts (hg.wf hn) hg.dims
      have e : identityTrace CRat.conj ts = identityTrace star ts := rfl
      rw [e, this] at htr
      rw [trace_chainMat 2 n ts hg.len hg.dims, Option.some.inj htr]
      exact (Option.some.inj h).symm
    · simp at h
  · simp at h

/-! ## `chainMat` is the matrix `to_matrix()` returns -/

section toMatrix
variable [CommSemiring K]

theorem cfg_valid {n d : Nat} (σ : Fin n → Fin d) : Index.Valid (List.replicate n d) (cfg σ) := by
  rw [Index.valid_replicate_iff]
  refine ⟨by simp, ?_⟩
  intro x hx
  simp only [cfg, List.mem_ofFn] at hx
  obtain ⟨k, rfl⟩ := hx
  exact (σ k).isLt

omit [CommSemiring K] in
theorem physDims_good {d n : Nat} {ts : List (Site K)} (h : GoodChain d n ts) : MpoConv.physDims ts = List.replicate n d := by
  simp only [MpoConv.physDims]
  apply List.eq_replicate_iff.mpr
  refine ⟨by simp [h.len], ?_⟩
  intro x hx
  simp only [List.mem_map] at hx
  obtain ⟨y, hy, rfl⟩ := hx
  exact h.dims y hy

/-- the entries of `chainMat` are the entries of the matrix the code's `to_matrix()` loop returns, at the Kronecker indices of
    the two configurations (site 0 most significant) -/
theorem chainMat_toMatrixCode (d n : Nat) (hn : 0 < n) (ts : List (Site K)) (h : GoodChain d n ts) :
    ∃ M, MpoConv.toMatrixCode ts = some M ∧ M.rows = d ^ n ∧ M.cols = d ^ n ∧
      ∀ σ σ' : Fin n → Fin d, chainMat d n ts σ σ'
        = M.e (Index.kronIdx (List.replicate n d) (cfg σ)) (Index.kronIdx (List.replicate n d) (cfg σ')) := by
  have hw := h.wf hn
  have hp := physDims_good h
  have hne : ts ≠ [] := by rintro rfl; simp [wellFormed] at hw
  obtain ⟨t, rest, rfl⟩ := List.exists_cons_of_ne_nil hne
  refine ⟨⟨(MpoConv.denseAcc t rest).rows, (MpoConv.denseAcc t rest).cols,
      fun i j => (MpoConv.denseAcc t rest).e i j 0 0⟩, by simp only [MpoConv.toMatrixCode, hw, if_true], ?_, ?_, ?_⟩
  · have h1 := (MpoConv.foldl_denseStep_shape rest (MpoConv.accOfSite t)).1
    have e : (MpoConv.accOfSite t).rows * Index.dimProd (MpoConv.physDims rest) = Index.dimProd (MpoConv.physDims (t :: rest)) := rfl
    show (MpoConv.denseAcc t rest).rows = d ^ n
    rw [MpoConv.denseAcc, h1, e, hp, Index.dimProd_replicate]
  · have h1 := (MpoConv.foldl_denseStep_shape rest (MpoConv.accOfSite t)).2.1
    have e : (MpoConv.accOfSite t).cols * Index.dimProd (MpoConv.physDims rest) = Index.dimProd (MpoConv.physDims (t :: rest)) := rfl
    show (MpoConv.denseAcc t rest).cols = d ^ n
    rw [MpoConv.denseAcc, h1, e, hp, Index.dimProd_replicate]
  · intro σ σ'
    obtain ⟨M', hM', _, _, he⟩ := MpoConv.toMatrixCode_entry (t :: rest) (cfg σ) (cfg σ') hw (hp ▸ cfg_valid σ)
      (hp ▸ cfg_valid σ')
    simp only [MpoConv.toMatrixCode, hw, if_true, Option.some.injEq] at hM'
    rw [hp] at he
    rw [chainMat, ← MpoConv.toMatrixEntry, ← he, ← hM']

end toMatrix

/-! ## entries of the embedded operators (what "identity elsewhere" means) -/

section entries
variable [CommSemiring K]

theorem embed1_apply (d n p : Nat) (hp : p < n) (A : Matrix (Fin d) (Fin d) K) (σ τ : Fin n → Fin d) :
    embed1 d n p A σ τ = if (∀ k : Fin n, (k : Nat) ≠ p → σ k = τ k) then A (σ ⟨p, hp⟩) (τ ⟨p, hp⟩) else 0 := by
  unfold embed1
  rw [dif_pos hp]
  show (if Function.update σ ⟨p, hp⟩ (τ ⟨p, hp⟩) = τ then A (σ ⟨p, hp⟩) (τ ⟨p, hp⟩) else 0) = _
  have key : Function.update σ ⟨p, hp⟩ (τ ⟨p, hp⟩) = τ ↔ ∀ k : Fin n, (k : Nat) ≠ p → σ k = τ k := by
    constructor
    · intro h k hk
      have := congrFun h k
      rwa [Function.update_of_ne (fun e => hk (congrArg Fin.val e))] at this
    · intro h
      funext k
      by_cases hk : k = ⟨p, hp⟩
      · subst hk; simp
      · rw [Function.update_of_ne hk]
        exact h k (fun e => hk (Fin.ext e))
  by_cases hc : Function.update σ ⟨p, hp⟩ (τ ⟨p, hp⟩) = τ
  · rw [if_pos hc, if_pos (key.mp hc)]
  · rw [if_neg hc, if_neg (fun h => hc (key.mpr h))]

theorem embed2_apply (d n p q : Nat) (hp : p < n) (hq : q < n) (hpq : p ≠ q) (G : Matrix (Fin d × Fin d) (Fin d × Fin d) K)
    (σ τ : Fin n → Fin d) :
    embed2 d n p q G σ τ = if (∀ k : Fin n, (k : Nat) ≠ p → (k : Nat) ≠ q → σ k = τ k) then
      G (σ ⟨p, hp⟩, σ ⟨q, hq⟩) (τ ⟨p, hp⟩, τ ⟨q, hq⟩) else 0 := by
  unfold embed2
  rw [dif_pos ⟨hp, hq, hpq⟩]
  show (if Function.update (Function.update σ ⟨p, hp⟩ (τ ⟨p, hp⟩)) ⟨q, hq⟩ (τ ⟨q, hq⟩) = τ then
      G (σ ⟨p, hp⟩, σ ⟨q, hq⟩) (τ ⟨p, hp⟩, τ ⟨q, hq⟩) else 0) = _
  have key : Function.update (Function.update σ ⟨p, hp⟩ (τ ⟨p, hp⟩)) ⟨q, hq⟩ (τ ⟨q, hq⟩) = τ ↔
      ∀ k : Fin n, (k : Nat) ≠ p → (k : Nat) ≠ q → σ k = τ k := by
    constructor
    · intro h k hk1 hk2
      have := congrFun h k
      rwa [Function.update_of_ne (fun e => hk2 (congrArg Fin.val e)),
        Function.update_of_ne (fun e => hk1 (congrArg Fin.val e))] at this
    · intro h
      funext k
      by_cases hk2 : k = ⟨q, hq⟩
      · subst hk2; simp
      · rw [Function.update_of_ne hk2]
        by_cases hk1 : k = ⟨p, hp⟩
        · subst hk1; simp
        · rw [Function.update_of_ne hk1]
          exact h k (fun e => hk1 (Fin.ext e)) (fun e => hk2 (Fin.ext e))
  by_cases hc : Function.update (Function.update σ ⟨p, hp⟩ (τ ⟨p, hp⟩)) ⟨q, hq⟩ (τ ⟨q, hq⟩) = τ
  · rw [if_pos hc, if_pos (key.mp hc)]
  · rw [if_neg hc, if_neg (fun h => hc (key.mpr h))]

end entries

/-! ## Gaussian-rational facts used by the corollaries of `checker_correct` -/

theorem CRat.normSq_star (z : CRat) : CRat.normSq (star z) = CRat.normSq z := by
  simp [CRat.normSq]

theorem CRat.normSq_mul (z w : CRat) : CRat.normSq (z * w) = CRat.normSq z * CRat.normSq w := by
  simp only [CRat.normSq, CRat.mul_re, CRat.mul_im]
  ring

theorem CRat.natCast_re_im (k : Nat) : ((k : CRat)).re = (k : Rat) ∧ ((k : CRat)).im = 0 := by
  induction k with
  | zero => simp
  | succ k ih =>
    rw [Nat.cast_succ]
    simp [ih.1, ih.2]

theorem CRat.normSq_natCast (k : Nat) : CRat.normSq (k : CRat) = (k : Rat) * (k : Rat) := by
  simp [CRat.normSq, (CRat.natCast_re_im k).1, (CRat.natCast_re_im k).2]

theorem identityDecision_star (z : CRat) (n : Nat) (f : Rat) : identityDecision (star z) n f = identityDecision z n f := by
  unfold identityDecision
  rw [CRat.normSq_star]

theorem trace_one_cfg (n : Nat) : Matrix.trace (1 : Matrix (Fin n → Fin 2) (Fin n → Fin 2) CRat) = ((2 ^ n : Nat) : CRat) := by
  rw [Matrix.trace_one]
  simp

/-! ## scalar multiples (used by the non-vacuity example of `checker_equal_up_to_phase`) -/

theorem embed1_smul [CommSemiring K] (d n p : Nat) (hp : p < n) (c : K) (A : Matrix (Fin d) (Fin d) K) :
    embed1 d n p (c • A) = c • embed1 d n p A := by
  ext σ τ
  rw [Matrix.smul_apply, embed1_apply d n p hp, embed1_apply d n p hp, Matrix.smul_apply]
  split_ifs <;> simp

theorem embed1_one [CommSemiring K] (d n p : Nat) : embed1 d n p (1 : Matrix (Fin d) (Fin d) K) = 1 := by
  unfold embed1
  split
  · exact embedL_one _
  · rfl

/-! ## the run does not fail -/

section succeeds
variable [CommSemiring K]

theorem zoneApply_isSome (cj : K → K) (d n : Nat) (conj : Bool) : ∀ (gs : List (Gate K)) (θ : T6 K),
    (∀ g ∈ gs, gateOk g n (n + 1) = true) → ∃ θ', zoneApply cj d n conj gs θ = some θ'
  | [], θ, _ => ⟨θ, rfl⟩
  | g :: gs, θ, h => by
    have hg : gateOk g n (n + 1) = true := h g (by simp)
    simp only [zoneApply, applyGate, hg, if_true]
    exact zoneApply_isSome cj d n conj gs _ (fun g' hg' => h g' (by simp [hg']))

omit [CommSemiring K] in
theorem InZone.gateOk {m : Nat} {g : Gate K} {qs : List Nat} (h : InZone m g qs) : gateOk g m (m + 1) = true :=
  gateOk_of_sites g m (m + 1) (by rw [h.sites, h.inter]) (by rw [h.inter]; exact h.len)
    (fun q hq => h.inside q (by rw [← h.sites]; exact hq))

theorem updateMpo_isSome (cj : K → K) (d n : Nat) (thr : Rat) (gate1 gate2 : Instr → Gate K) (ts : List (Site K)) (s : Step)
    (dec : Svd K) (hl : ts.length = n) (hs : StepOK n gate1 gate2 s) :
    ∃ ts', updateMpo cj d thr gate1 gate2 ts s dec = some ts' ∧ ts'.length = n := by
  obtain ⟨hm, h1, h2⟩ := hs
  have hA : ts[s.m]? = some (ts[s.m]'(by omega)) := List.getElem?_eq_getElem (by omega)
  have hB : ts[s.m + 1]? = some (ts[s.m + 1]'(by omega)) := List.getElem?_eq_getElem (by omega)
  obtain ⟨θ1, e1⟩ := zoneApply_isSome cj d s.m false (s.is1.map gate1) (thetaOf (ts[s.m]'(by omega)) (ts[s.m + 1]'(by omega)))
    (by
      intro g hg
      obtain ⟨i, hi, rfl⟩ := List.mem_map.mp hg
      exact (h1 i hi).gateOk)
  obtain ⟨θ2, e2⟩ := zoneApply_isSome cj d s.m true (s.is2.map gate2) θ1
    (by
      intro g hg
      obtain ⟨i, hi, rfl⟩ := List.mem_map.mp hg
      exact (h2 i hi).gateOk)
  have e : updateMpo cj d thr gate1 gate2 ts s dec
      = some ((ts.set s.m (decomposeTheta d (ts[s.m]'(by omega)).dl (ts[s.m + 1]'(by omega)).dr dec thr).1).set (s.m + 1)
          (decomposeTheta d (ts[s.m]'(by omega)).dl (ts[s.m + 1]'(by omega)).dr dec thr).2) := by
    unfold updateMpo
    rw [hA, hB]
    simp only [updateTheta, e1, e2]
  exact ⟨_, e, by simp [hl]⟩

theorem runSteps_isSome (cj : K → K) (d n : Nat) (thr : Rat) (gate1 gate2 : Instr → Gate K) :
    ∀ (steps : List Step) (decs : List (Svd K)) (ts : List (Site K)), ts.length = n →
    (∀ s ∈ steps, StepOK n gate1 gate2 s) → steps.length ≤ decs.length →
    ∃ ts', runSteps cj d thr gate1 gate2 ts steps decs = some ts' ∧ ts'.length = n
  | [], _, ts, hl, _, _ => ⟨ts, rfl, hl⟩
  | _ :: _, [], _, _, _, h => by simp at h
  | s :: ss, dec :: decs, ts, hl, hs, hlen => by
    obtain ⟨ts1, e1, hl1⟩ := updateMpo_isSome cj d n thr gate1 gate2 ts s dec hl (hs s (by simp))
    obtain ⟨ts', e', hl'⟩ := runSteps_isSome cj d n thr gate1 gate2 ss decs ts1 hl1 (fun s' hs' => hs s' (by simp [hs']))
      (by simpa using hlen)
    exact ⟨ts', by simp only [runSteps, e1, e'], hl'⟩

omit [CommSemiring K] in
theorem flatMap_evs_length (steps : List Step) : (steps.flatMap Step.evs).length = 2 * steps.length := by
  induction steps with
  | nil => rfl
  | cons s ss ih => simp [List.flatMap_cons, Step.evs, ih]; omega

end succeeds

end Yaqs.CheckerE2E
