import YaqsModel.Lemmas.TomoRing
import Mathlib.LinearAlgebra.Matrix.NonsingularInverse
import Mathlib.LinearAlgebra.Matrix.Trace
import Mathlib.LinearAlgebra.Matrix.ConjTranspose
import Mathlib.LinearAlgebra.Multilinear.Basic

/-! helper lemmas for `Props/C17.lean`: dual frames over a commutative star ring, the contraction of
`predict_final_state` as a sum over index tuples -/

open Matrix

namespace Yaqs.Tomo

section Frame
variable {K ι n : Type*} [CommRing K] [StarRing K] [Fintype ι] [DecidableEq ι] [Fintype n] [DecidableEq n]

omit [DecidableEq n] in
/-- Hilbert–Schmidt pairing `Tr(Dᴴ J)` as a sum over entries -/
theorem trace_conjTranspose_mul (D J : Matrix n n K) :
    trace (Dᴴ * J) = ∑ x : n × n, star (D x.1 x.2) * J x.1 x.2 := by
  rw [Fintype.sum_prod_type, Finset.sum_comm]
  simp [trace, Matrix.mul_apply, conjTranspose_apply]

/-- frame matrix: columns are the vectorised basis matrices (`np.column_stack([m.reshape(-1) …])`) -/
def frameMat (B : ι → Matrix n n K) : Matrix (n × n) ι K := fun x a => B a x.1 x.2
/-- rows are the conjugated vectorised duals (`dual_frame_dag`) -/
def dualMat (D : ι → Matrix n n K) : Matrix ι (n × n) K := fun a x => star (D a x.1 x.2)

omit [Fintype ι] [DecidableEq n] in
theorem dualMat_mul_frameMat (B D : ι → Matrix n n K)
    (hbi : ∀ a b, trace ((D a)ᴴ * B b) = if a = b then 1 else 0) : dualMat D * frameMat B = 1 := by
  ext a b
  rw [Matrix.mul_apply, Matrix.one_apply, ← hbi a b, trace_conjTranspose_mul]
  rfl

theorem frameMat_mul_dualMat (B D : ι → Matrix n n K) (hcard : Fintype.card ι = Fintype.card (n × n))
    (hbi : ∀ a b, trace ((D a)ᴴ * B b) = if a = b then 1 else 0) : frameMat B * dualMat D = 1 :=
  (Matrix.mul_eq_one_comm_of_card_eq _ _ _ hcard).mp (dualMat_mul_frameMat B D hbi)

/-- left inverse = right inverse: a biorthogonal pair of the right cardinality reconstructs every matrix -/
theorem frame_expansion (B D : ι → Matrix n n K) (hcard : Fintype.card ι = Fintype.card (n × n))
    (hbi : ∀ a b, trace ((D a)ᴴ * B b) = if a = b then 1 else 0) (J : Matrix n n K) :
    J = ∑ a, trace ((D a)ᴴ * J) • B a := by
  have hFG := frameMat_mul_dualMat B D hcard hbi
  ext i j
  have h := congrFun (congrFun hFG (i, j))
  simp only [Matrix.mul_apply, frameMat, dualMat, Matrix.one_apply] at h
  rw [Matrix.sum_apply]
  simp only [Matrix.smul_apply, smul_eq_mul, trace_conjTranspose_mul]
  calc J i j = ∑ y : n × n, (if (i, j) = y then 1 else 0) * J y.1 y.2 := by simp
    _ = ∑ y : n × n, (∑ a, B a i j * star (D a y.1 y.2)) * J y.1 y.2 := by
        refine Finset.sum_congr rfl fun y _ => ?_
        rw [h y]
    _ = ∑ a, (∑ x : n × n, star (D a x.1 x.2) * J x.1 x.2) * B a i j := by
        simp only [Finset.sum_mul]
        rw [Finset.sum_comm]
        refine Finset.sum_congr rfl fun a _ => Finset.sum_congr rfl fun y _ => ?_
        ring

/-- the coefficients are unique: a biorthogonal family is linearly independent -/
theorem frame_coeff_unique (B D : ι → Matrix n n K)
    (hbi : ∀ a b, trace ((D a)ᴴ * B b) = if a = b then 1 else 0) (c : ι → K) (a : ι) :
    trace ((D a)ᴴ * ∑ b, c b • B b) = c a := by
  rw [Finset.mul_sum, trace_sum]
  simp [hbi]

/-- the defining equations determine the dual frame: two duals of the same (square) frame coincide -/
theorem dual_unique (B D D' : ι → Matrix n n K) (hcard : Fintype.card ι = Fintype.card (n × n))
    (hbi : ∀ a b, trace ((D a)ᴴ * B b) = if a = b then 1 else 0)
    (hbi' : ∀ a b, trace ((D' a)ᴴ * B b) = if a = b then 1 else 0) : D' = D := by
  have h1 := frameMat_mul_dualMat B D hcard hbi
  have h2 := dualMat_mul_frameMat B D' hbi'
  have h : dualMat D' = dualMat D := by
    calc dualMat D' = dualMat D' * (frameMat B * dualMat D) := by rw [h1, Matrix.mul_one]
      _ = (dualMat D' * frameMat B) * dualMat D := by rw [Matrix.mul_assoc]
      _ = dualMat D := by rw [h2, Matrix.one_mul]
  funext a
  ext i j
  have := congrFun (congrFun h a) (i, j)
  simp only [dualMat] at this
  exact star_injective this

end Frame

/-! ## the contraction loop of `predict_final_state` -/
open Yaqs CRatT

theorem entry_contractLast : ∀ (k : Nat) (t : TensK (k + 1)) (c : Fin 16 → CRatT) (r : Fin k → Fin 16),
    entry k (contractLast k t c) r = ∑ a, entry (k + 1) t (Fin.snoc r a) * c a
  | 0, t, c, r => by
    simp only [contractLast, entry, fsum_eq_sum]
    refine Finset.sum_congr rfl fun a _ => ?_
    have : (Fin.snoc r a : Fin 1 → Fin 16) 0 = a := by
      have := Fin.snoc_last (α := fun _ => Fin 16) a r
      simpa using this
    rw [this]
  | k + 1, t, c, r => by
    have hL : entry (k + 1) (contractLast (k + 1) t c) r
        = entry k (contractLast k (t (r 0)) c) (fun i => r i.succ) := rfl
    have hR : ∀ a, entry (k + 2) t (Fin.snoc r a)
        = entry (k + 1) (t ((Fin.snoc r a : Fin (k + 2) → Fin 16) 0))
            (fun i => (Fin.snoc r a : Fin (k + 2) → Fin 16) i.succ) := fun _ => rfl
    rw [hL, entry_contractLast k (t (r 0)) c (fun i => r i.succ)]
    refine Finset.sum_congr rfl fun a _ => ?_
    have h0 : (Fin.snoc r a : Fin (k + 2) → Fin 16) 0 = r 0 := by
      exact Fin.snoc_castSucc (α := fun _ => Fin 16) a r 0
    have hs : (fun i : Fin (k + 1) => (Fin.snoc r a : Fin (k + 2) → Fin 16) i.succ)
        = Fin.snoc (fun i => r i.succ) a := by
      funext i
      refine Fin.lastCases ?_ (fun j => ?_) i
      · rw [Fin.succ_last, Fin.snoc_last, Fin.snoc_last]
      · rw [Fin.succ_castSucc, Fin.snoc_castSucc, Fin.snoc_castSucc]
    rw [hR a, h0, hs]

/-- the loop computes the full multilinear contraction: slot `i` of the table meets coefficient vector `i` -/
theorem predict_eq_sum : ∀ (k : Nat) (t : TensK k) (cs : Fin k → Fin 16 → CRatT),
    predict k t cs = ∑ r : Fin k → Fin 16, (∏ i, cs i (r i)) * entry k t r
  | 0, t, cs => by simp [predict, entry]
  | k + 1, t, cs => by
    rw [predict, predict_eq_sum k]
    simp only [entry_contractLast]
    rw [← (Fin.snocEquiv (fun _ : Fin (k + 1) => Fin 16)).sum_comp, Fintype.sum_prod_type, Finset.sum_comm]
    refine Finset.sum_congr rfl fun r _ => ?_
    rw [Finset.mul_sum]
    refine Finset.sum_congr rfl fun a _ => ?_
    simp only [Fin.snocEquiv, Equiv.coe_fn_mk, Fin.prod_univ_castSucc, Fin.snoc_castSucc, Fin.snoc_last]
    ring

theorem entry_ofFlat (arr : Array CRatT) : ∀ (k : Nat) (off : Nat) (r : Fin k → Fin 16),
    entry k (ofFlat arr k off) r = arr.getD (flatIdx k off r) 0
  | 0, _, _ => rfl
  | k + 1, off, r => by
    show entry k (ofFlat arr k (off * 16 + (r 0).val)) (fun i => r i.succ) = _
    rw [entry_ofFlat arr k]
    rfl

/-- build a table from a function of the index tuple -/
def tabulate : (k : Nat) → ((Fin k → Fin 16) → CRatT) → TensK k
  | 0, f => f Fin.elim0
  | k + 1, f => fun a => tabulate k (fun r => f (Fin.cons a r))

theorem entry_tabulate : ∀ (k : Nat) (f : (Fin k → Fin 16) → CRatT) (r : Fin k → Fin 16),
    entry k (tabulate k f) r = f r
  | 0, f, r => by
    simp only [entry, tabulate]; congr 1; funext i; exact i.elim0
  | k + 1, f, r => by
    simp only [entry, tabulate]
    rw [entry_tabulate k]
    congr 1
    exact Fin.cons_self_tail r

/-! ## model-level facts -/

/-- a model matrix (a function `Fin n → Fin n → ℚ(i)`) seen as a Mathlib matrix -/
def toMat {n : Nat} (A : Fin n → Fin n → CRatT) : Matrix (Fin n) (Fin n) CRatT := A

theorem hsInner_eq_trace {n : Nat} (D J : Matrix (Fin n) (Fin n) CRatT) : hsInner D J = trace (Dᴴ * J) := by
  rw [trace_conjTranspose_mul, Fintype.sum_prod_type]
  simp [hsInner, fsum_eq_sum]

theorem choiOf_apply (emap : M2 → M2) (r c : Fin 4) :
    choiOf emap r c = emap (unitM (lo r) (lo c)) (hi r) (hi c) := by
  unfold choiOf kron2
  simp only [fsum_eq_sum, Fin.sum_univ_two]
  generalize lo r = i
  generalize lo c = j
  fin_cases i <;> fin_cases j <;> simp [unitM]

theorem basisMap_unit (E P : M2) (i j a b : Fin 2) : basisMap E P (unitM i j) a b = E j i * P a b := by
  unfold basisMap
  simp only [fsum_eq_sum, Fin.sum_univ_two]
  fin_cases i <;> fin_cases j <;> simp [unitM]

theorem mapOfChoi_unit (J : M4) (i j a b : Fin 2) :
    mapOfChoi J (unitM i j) a b = J ⟨2 * a.val + i.val, by omega⟩ ⟨2 * b.val + j.val, by omega⟩ := by
  unfold mapOfChoi
  simp only [fsum_eq_sum, Fin.sum_univ_two]
  fin_cases i <;> fin_cases j <;> simp [unitM]

section Multilinear
variable {V : Type*} [AddCommGroup V] [Module CRatT V]

/-- dual-frame contraction of a table of a multilinear map = the map on the expanded arguments -/
theorem predict_table {k : Nat} (T : MultilinearMap CRatT (fun _ : Fin k => V) CRatT) (B : Fin 16 → V)
    (tens : TensK k) (htab : ∀ r : Fin k → Fin 16, entry k tens r = T (fun t => B (r t)))
    (c : Fin k → Fin 16 → CRatT) :
    predict k tens c = T (fun t => ∑ a, c t a • B a) := by
  rw [predict_eq_sum, T.map_sum]
  refine Finset.sum_congr rfl fun r _ => ?_
  rw [T.map_smul_univ, htab, smul_eq_mul]

end Multilinear

end Yaqs.Tomo
