import Mathlib.Analysis.Normed.Algebra.Exponential
import Mathlib.Analysis.SpecialFunctions.Exponential
import Mathlib.Analysis.SpecificLimits.Normed
import Mathlib.Analysis.Complex.ExponentialBounds
import Mathlib.Data.Nat.Choose.Basic

/-! The tail `Σ_{j ≥ m} x^j / j!` of the exponential series and the remainder of the Taylor partial sums of
    `NormedSpace.exp` in a complete normed `ℂ`-algebra (xp19 extension; helper lemmas for `Props/C19.lean`). -/
namespace Yaqs.Krylov

open scoped Nat

/-- `tail_m(x) = Σ_{j ≥ m} x^j / j!` -/
noncomputable def expTail (m : ℕ) (x : ℝ) : ℝ := ∑' j : ℕ, x ^ (j + m) / ((j + m)! : ℝ)

theorem expTail_summable (m : ℕ) (x : ℝ) : Summable fun j : ℕ => x ^ (j + m) / ((j + m)! : ℝ) :=
  (summable_nat_add_iff m).mpr (Real.summable_pow_div_factorial x)

/-- `tail_m(x) = e^x − Σ_{j<m} x^j / j!` -/
theorem expTail_eq (m : ℕ) (x : ℝ) :
    expTail m x = Real.exp x - ∑ j ∈ Finset.range m, x ^ j / (j ! : ℝ) := by
  have h := (Real.summable_pow_div_factorial x).sum_add_tsum_nat_add m
  have he : Real.exp x = ∑' n : ℕ, x ^ n / (n ! : ℝ) := by
    rw [Real.exp_eq_exp_ℝ, NormedSpace.exp_eq_tsum_div]
  rw [he, ← h]
  unfold expTail
  ring

theorem expTail_nonneg (m : ℕ) {x : ℝ} (hx : 0 ≤ x) : 0 ≤ expTail m x :=
  tsum_nonneg fun _ => by positivity

theorem expTail_mono (m : ℕ) {x y : ℝ} (hx : 0 ≤ x) (hxy : x ≤ y) : expTail m x ≤ expTail m y := by
  refine (expTail_summable m x).tsum_le_tsum (fun j => ?_) (expTail_summable m y)
  exact div_le_div_of_nonneg_right (pow_le_pow_left₀ hx hxy _) (by positivity)

/-- `tail_m(x) ≤ x^m / m! · e^x` for `x ≥ 0` (because `(j + m)! ≥ j! · m!`) -/
theorem expTail_le (m : ℕ) {x : ℝ} (hx : 0 ≤ x) : expTail m x ≤ x ^ m / (m ! : ℝ) * Real.exp x := by
  have hs : Summable fun j : ℕ => x ^ m / (m ! : ℝ) * (x ^ j / (j ! : ℝ)) :=
    (Real.summable_pow_div_factorial x).mul_left _
  have he : Real.exp x = ∑' n : ℕ, x ^ n / (n ! : ℝ) := by
    rw [Real.exp_eq_exp_ℝ, NormedSpace.exp_eq_tsum_div]
  rw [he, ← tsum_mul_left]
  refine (expTail_summable m x).tsum_le_tsum (fun j => ?_) hs
  have hfac : ((j ! : ℝ) * (m ! : ℝ)) ≤ ((j + m)! : ℝ) := by
    exact_mod_cast Nat.le_of_dvd (Nat.factorial_pos _) (Nat.factorial_mul_factorial_dvd_factorial_add j m)
  have hpos : (0 : ℝ) < (j ! : ℝ) * (m ! : ℝ) := by positivity
  calc x ^ (j + m) / ((j + m)! : ℝ) ≤ x ^ (j + m) / ((j ! : ℝ) * (m ! : ℝ)) :=
        div_le_div_of_nonneg_left (by positivity) hpos hfac
    _ = x ^ m / (m ! : ℝ) * (x ^ j / (j ! : ℝ)) := by
        rw [pow_add]
        field_simp

/-- the numeric instance behind the default call: `|τ|·‖A‖ ≤ 2`, `numiter = 25`: `tail_25(2) ≤ 2·10⁻¹⁷` -/
theorem expTail_25_2 {x : ℝ} (hx : 0 ≤ x) (hx2 : x ≤ 2) : expTail 25 x ≤ 2 / 10 ^ 17 := by
  refine (expTail_mono 25 hx hx2).trans ((expTail_le 25 (by norm_num : (0 : ℝ) ≤ 2)).trans ?_)
  have he : Real.exp 2 ≤ 8 := by
    have h1 : Real.exp 1 < 2.7182818286 := Real.exp_one_lt_d9
    have h2 : Real.exp 2 = Real.exp 1 * Real.exp 1 := by rw [← Real.exp_add]; norm_num
    rw [h2]
    have h0 : 0 < Real.exp 1 := Real.exp_pos 1
    nlinarith
  have hf : ((25 ! : ℕ) : ℝ) = 15511210043330985984000000 := by
    norm_num [Nat.factorial]
  rw [hf]
  calc (2 : ℝ) ^ 25 / 15511210043330985984000000 * Real.exp 2
      ≤ (2 : ℝ) ^ 25 / 15511210043330985984000000 * 8 := by
        apply mul_le_mul_of_nonneg_left he (by positivity)
    _ ≤ 2 / 10 ^ 17 := by norm_num

section
variable {𝔸 : Type*} [NormedRing 𝔸] [NormedAlgebra ℂ 𝔸] [CompleteSpace 𝔸]

/-- remainder of the Taylor partial sum of the exponential: `‖exp X − Σ_{j<m} X^j / j!‖ ≤ tail_m(‖X‖)`
    (`m ≥ 1`: no assumption `‖1‖ = 1` on the algebra) -/
theorem norm_exp_sub_partial_le (X : 𝔸) (m : ℕ) (hm : 0 < m) :
    ‖NormedSpace.exp X - ∑ j ∈ Finset.range m, ((j ! : ℂ)⁻¹) • X ^ j‖ ≤ expTail m ‖X‖ := by
  have hs : HasSum (fun n : ℕ => ((n ! : ℂ)⁻¹) • X ^ n) (NormedSpace.exp X) :=
    NormedSpace.exp_series_hasSum_exp' (𝕂 := ℂ) X
  have hsplit := hs.summable.sum_add_tsum_nat_add m
  rw [hs.tsum_eq] at hsplit
  have hrem : NormedSpace.exp X - ∑ j ∈ Finset.range m, ((j ! : ℂ)⁻¹) • X ^ j =
      ∑' j : ℕ, (((j + m)! : ℂ)⁻¹) • X ^ (j + m) := by
    rw [← hsplit]; abel
  rw [hrem]
  have hn : Summable fun j : ℕ => ‖(((j + m)! : ℂ)⁻¹) • X ^ (j + m)‖ :=
    (summable_nat_add_iff m).mpr (NormedSpace.norm_expSeries_summable' (𝕂 := ℂ) X)
  refine (norm_tsum_le_tsum_norm hn).trans ?_
  refine hn.tsum_le_tsum (fun j => ?_) (expTail_summable m ‖X‖)
  calc ‖(((j + m)! : ℂ)⁻¹) • X ^ (j + m)‖ ≤ ‖(((j + m)! : ℂ)⁻¹)‖ * ‖X ^ (j + m)‖ := norm_smul_le _ _
    _ ≤ ((j + m)! : ℝ)⁻¹ * ‖X‖ ^ (j + m) := by
        apply mul_le_mul _ (norm_pow_le' X (by omega)) (norm_nonneg _) (by positivity)
        rw [norm_inv, Complex.norm_natCast]
    _ = ‖X‖ ^ (j + m) / ((j + m)! : ℝ) := by rw [div_eq_inv_mul]

end

end Yaqs.Krylov
