import YaqsModel.Props.C01

/-!
# C03 — noisy circuit trajectories average to ideal gates plus local Lindblad noise  (placement + lottery part)

Property text: "the observables averaged over all random choices of a trajectory equal those of the density
matrix obtained by applying each gate exactly and, after every two-qubit gate, the Lindblad channel (unit
duration) of the processes located on that gate's qubits, up to an error that shrinks quadratically when all
strengths are scaled down.  Processes on other qubits, and one-qubit gates, add no noise."

Proved here, for every global process list (any order, any sites, any strengths) and every gate sequence:

* `c03_localNoise_mem`, `c03_localNoise_sublist`, `c03_localNoise_perm`, `c03_local_sum` — the local noise model of a
  gate on `(a,b)` consists of exactly the processes sited on `[a]`, `[b]` or `[a,b]`, in the order of the global list;
* `c03_one_qubit_no_noise`, `c03_two_qubit_noise`, `c03_noise_only_after_2q` — noise operations occur only directly
  after two-qubit gates, once per gate, with unit time step and exactly the local processes;
* `c03_local_probVector_aligned`, `c03_local_lottery_mass`, `c03_local_lottery_perm`, `c03_local_expectation` — the
  C01 lemmas instantiated at `dt = 1` on the local list;
* the capstone `c03_partial`.

```
c03_full (NOT proved — shares C01's analytic limit):
  for every nearest-neighbour circuit g_1 … g_m, noise list procs, observable O:
    | E_tree[⟨O⟩] − tr(O · (𝓝_m ∘ 𝓤_m ∘ … ∘ 𝓝_1 ∘ 𝓤_1)(ρ₀)) | ≤ C · m · γ_max²
  with 𝓤_i the exact gate and 𝓝_i = exp(𝓛_{local(g_i)}) for two-qubit gates (identity for one-qubit gates).
  Missing: `exp` of the dissipator and of the Lindbladian are transcendental in γ; the one-step identity
  `c03_local_expectation` agrees with `exp(𝓛)` to first order in γ, the remainder is the cited estimate.  The harness
  measures the quadratic scaling on the real code on every run.
```
-/
namespace Yaqs.Lottery
open Yaqs Yaqs.Dist

/-- the filter predicate of `create_local_noise_model` as a proposition -/
def IsLocal (a b : Nat) (p : Proc) : Prop := p.sites = [a, b] ∨ p.sites = [a] ∨ p.sites = [b]

instance (a b : Nat) (p : Proc) : Decidable (IsLocal a b p) := by unfold IsLocal; infer_instance

/-! ### the filter -/

/-- **C03 (local noise model)** A process belongs to the local noise model of a gate on `(a,b)` iff it is in the
    global list and sits on `[a,b]`, `[a]` or `[b]` — nothing on other qubits, nothing on a neighbour's pair. -/
theorem c03_localNoise_mem (procs : List Proc) (a b : Nat) (p : Proc) :
    p ∈ localNoise procs a b ↔ p ∈ procs ∧ IsLocal a b p := by
  unfold localNoise IsLocal
  simp only [List.mem_filter, Bool.or_eq_true, beq_iff_eq, or_assoc]

example : exX 2 (1/10) ∉ localNoise [exX 0 (1/10), exX 2 (1/10), exXX 1 (3/10), exXX 0 (7/10)] 0 1 := by decide +kernel
example : localNoise [exX 0 (1/10), exX 2 (1/10), exXX 1 (3/10), exXX 0 (7/10), exLow 1 (1/5)] 0 1 =
    [exX 0 (1/10), exXX 0 (7/10), exLow 1 (1/5)] := by decide +kernel

/-- **C03** The local list is a sublist of the global list: relative order (and multiplicity) is kept, so every
    C01 statement about "the process list in the order given" applies to it. -/
theorem c03_localNoise_sublist (procs : List Proc) (a b : Nat) : (localNoise procs a b).Sublist procs := by
  unfold localNoise
  exact List.filter_sublist

/-- **C03** Reordering the global list reorders the local list and changes nothing else. -/
theorem c03_localNoise_perm (procs procs' : List Proc) (h : procs.Perm procs') (a b : Nat) :
    (localNoise procs a b).Perm (localNoise procs' a b) := by
  unfold localNoise
  exact h.filter _

/-- **C03 ("processes on other qubits add no noise")** Any sum over the local list is the sum over the global list
    with every non-local process contributing zero. -/
theorem c03_local_sum (procs : List Proc) (a b : Nat) (f : Proc → Rat) :
    ((localNoise procs a b).map f).sum = (procs.map (fun p => if IsLocal a b p then f p else 0)).sum := by
  induction procs with
  | nil => rfl
  | cons p ps ih =>
    unfold localNoise at *
    by_cases hp : IsLocal a b p
    · have hb : (p.sites == [a, b] || p.sites == [a] || p.sites == [b]) = true := by
        unfold IsLocal at hp
        simpa [or_assoc] using hp
      rw [List.filter_cons, if_pos hb]
      simp only [List.map_cons, List.sum_cons, ih, if_pos hp]
    · have hb : ¬ (p.sites == [a, b] || p.sites == [a] || p.sites == [b]) = true := by
        unfold IsLocal at hp
        simpa [or_assoc] using hp
      rw [List.filter_cons, if_neg hb, ih]
      simp only [List.map_cons, List.sum_cons, if_neg hp]
      grind

/-! ### placement of the noise operations -/

/-- **C03 ("one-qubit gates add no noise")** -/
theorem c03_one_qubit_no_noise (nm : Option (List Proc)) (q : Nat) : afterGate nm (Gate.one q) = [] := rfl

/-- **C03** After a two-qubit gate on qubits `q0, q1` (either orientation) of a noisy run: one dissipation sweep and
    one jump lottery, both with `dt = 1`, both with the local noise model of `(min, max)`. -/
theorem c03_two_qubit_noise (procs : List Proc) (hn : isNoisy (some procs) = true) (q0 q1 : Nat) :
    afterGate (some procs) (Gate.two q0 q1) =
      [DOp.diss 1 (localNoise procs (min q0 q1) (max q0 q1)), DOp.lot 1 (localNoise procs (min q0 q1) (max q0 q1))] := by
  simp [afterGate, hn]

/-- without noise (no model, or all strengths zero) a two-qubit gate is followed by a normalisation only -/
theorem c03_two_qubit_noise_free (nm : Option (List Proc)) (hn : isNoisy nm = false) (q0 q1 : Nat) :
    afterGate nm (Gate.two q0 q1) = [DOp.normalize] := by
  simp [afterGate, hn]

/-- the lottery calls in an operation list, with their arguments -/
def lotCalls : List DOp → List (Rat × List Proc)
  | [] => []
  | .lot dt ps :: r => (dt, ps) :: lotCalls r
  | _ :: r => lotCalls r

/-- the gates in an operation list -/
def gateCalls : List DOp → List Gate
  | [] => []
  | .gate g :: r => g :: gateCalls r
  | _ :: r => gateCalls r

private theorem lotCalls_append (x y : List DOp) : lotCalls (x ++ y) = lotCalls x ++ lotCalls y := by
  induction x with
  | nil => rfl
  | cons o x ih => cases o <;> simp [lotCalls, ih]

private theorem gateCalls_append (x y : List DOp) : gateCalls (x ++ y) = gateCalls x ++ gateCalls y := by
  induction x with
  | nil => rfl
  | cons o x ih => cases o <;> simp [gateCalls, ih]

/-- the lottery call a gate causes in a noisy run: none for a one-qubit gate, `(dt = 1, local processes)` for a
    two-qubit gate -/
def lotOfGate (procs : List Proc) : Gate → Option (Rat × List Proc)
  | .one _ => none
  | .two q0 q1 => some (1, localNoise procs (min q0 q1) (max q0 q1))

/-- **C03 (`noise_only_after_2q`)** For every sequence of applied gates: the operation list is the gates in order,
    each immediately followed by its own `afterGate` block and nothing else; hence the gates are all applied in
    order, and — in a noisy run — the lottery calls are in bijection with the two-qubit gates, in order, each with
    unit time step and the local processes of its gate. -/
theorem c03_noise_only_after_2q (nm : Option (List Proc)) (gs : List Gate) :
    digitalOps nm gs = gs.flatMap (fun g => DOp.gate g :: afterGate nm g) ∧
    gateCalls (digitalOps nm gs) = gs ∧
    (∀ procs, nm = some procs → isNoisy nm = true →
      lotCalls (digitalOps nm gs) = gs.filterMap (lotOfGate procs)) := by
  refine ⟨?_, ?_, ?_⟩
  · induction gs with
    | nil => rfl
    | cons g gs ih => simp only [digitalOps, List.flatMap_cons, ih, List.cons_append]
  · induction gs with
    | nil => rfl
    | cons g gs ih =>
      simp only [digitalOps, gateCalls, gateCalls_append, ih]
      cases g with
      | one q => simp [afterGate, gateCalls]
      | two q0 q1 => by_cases hn : isNoisy nm = true <;> simp [afterGate, hn, gateCalls]
  · intro procs hnm hn
    subst hnm
    induction gs with
    | nil => rfl
    | cons g gs ih =>
      simp only [digitalOps, lotCalls, lotCalls_append, ih]
      cases g with
      | one q =>
        have : lotOfGate procs (Gate.one q) = none := rfl
        simp [afterGate, lotCalls, this]
      | two q0 q1 =>
        have : lotOfGate procs (Gate.two q0 q1) = some (1, localNoise procs (min q0 q1) (max q0 q1)) := rfl
        simp [afterGate, hn, lotCalls, this]

example : digitalOps (some [exX 0 (1/10), exX 2 (1/10), exXX 0 (7/10)]) [Gate.one 1, Gate.two 1 0, Gate.one 0] =
    [DOp.gate (Gate.one 1), DOp.gate (Gate.two 1 0),
     DOp.diss 1 [exX 0 (1/10), exXX 0 (7/10)], DOp.lot 1 [exX 0 (1/10), exXX 0 (7/10)],
     DOp.gate (Gate.one 0)] := by decide +kernel

/-! ### C01 at `dt = 1` on the local list -/

/-- **C03 / C01.1 at dt = 1** The probability vector of the per-gate lottery is aligned with the local list: entry
    `k` is the weight of the `k`-th *local* process over the local total. -/
theorem c03_local_probVector_aligned (L : Nat) (procs : List Proc) (a b : Nat) (nrm : Proc → Rat) (n : Rat) :
    probVector L (localNoise procs a b) 1 nrm n =
      if totalW L (localNoise procs a b) 1 nrm n = 0 then none
      else some ((localNoise procs a b).map
        (fun p => slotOf L 1 nrm n p / totalW L (localNoise procs a b) 1 nrm n)) :=
  c01_probVector_aligned L (localNoise procs a b) 1 nrm n

example : probVector 3 (localNoise [exX 1 (2/10), exX 2 (5/10), exXX 0 (7/10), exX 0 (1/10)] 0 1) 1 (fun _ => 1) 1 =
    some [2/10, 7/10, 1/10] := by decide +kernel

/-- **C03 / C01.2 at dt = 1** -/
theorem c03_local_lottery_mass (L : Nat) (procs : List Proc) (a b : Nat) (nrm : Proc → Rat) (n : Rat)
    (d : Dist Branch) (hd : stepLottery L (localNoise procs a b) 1 nrm n = some d) : mass d = 1 :=
  c01_lottery_mass L (localNoise procs a b) 1 nrm n d hd

/-- **C03 / C01.4 at dt = 1** The per-gate outcome distribution over processes does not depend on the order of the
    global list. -/
theorem c03_local_lottery_perm (L : Nat) (procs procs' : List Proc) (hperm : procs.Perm procs') (a b : Nat)
    (nrm : Proc → Rat) (n : Rat) (o : List (Rat × Proc))
    (ho : outcomes L (localNoise procs a b) 1 nrm n = some o) :
    ∃ o', outcomes L (localNoise procs' a b) 1 nrm n = some o' ∧ o.Perm o' :=
  c01_lottery_perm L _ _ (c03_localNoise_perm procs procs' hperm a b) 1 nrm n o ho

/-- a local process of a gate on `a < b` inside an `L`-site register is reached by the sweep -/
private theorem local_visited (L : Nat) (a b : Nat) (hab : a < b) (hb : b < L) (p : Proc) (hl : IsLocal a b p)
    (hadj : p.sites = [a, b] → p.pauli = true ∨ b = a + 1) : visited L p = true := by
  unfold IsLocal at hl
  rcases hl with h | h | h
  · have := hadj h
    simp only [visited, h, Bool.and_eq_true, decide_eq_true_eq, Bool.or_eq_true, beq_iff_eq]
    exact ⟨by omega, this⟩
  · simp only [visited, h, decide_eq_true_eq]; omega
  · simp only [visited, h, decide_eq_true_eq]; exact hb

/-- **C03 / C01.3 at dt = 1** Exact one-gate identity: after a two-qubit gate on `a < b < L` the branch average of
    any observable is `a₀ + ((1-n)/W)·Σ γ_p a_p`, both sums over the *global* list restricted to the processes on
    `[a]`, `[b]`, `[a,b]` — every other process contributes zero to the weights and to the average. -/
theorem c03_local_expectation (L : Nat) (procs : List Proc) (a b : Nat) (hab : a < b) (hb : b < L)
    (nrm : Proc → Rat) (n : Rat) (a0 : Rat) (av : Proc → Rat) (v0 : Rat) (v : Nat → Rat)
    (hn0 : 0 ≤ n) (hn1 : n ≤ 1)
    (hadj : ∀ p ∈ procs, p.sites = [a, b] → p.pauli = true ∨ b = a + 1)
    (hP : ∀ p ∈ procs, p.pauli = true → p.sites.length = 2 → nrm p = n)
    (hv0 : n ≠ 0 → v0 = a0 / n) (ha0 : n = 0 → a0 = 0)
    (hv : ∀ k (h : k < (localNoise procs a b).length), nrm (localNoise procs a b)[k] ≠ 0 →
      v k = av (localNoise procs a b)[k] / nrm (localNoise procs a b)[k])
    (ha : ∀ p ∈ procs, nrm p = 0 → av p = 0)
    (d : Dist Branch) (hd : stepLottery L (localNoise procs a b) 1 nrm n = some d) :
    expect d (branchVal v0 v) =
      a0 + (1 - n) / (procs.map (fun p => if IsLocal a b p then p.gamma * nrm p else 0)).sum *
        (procs.map (fun p => if IsLocal a b p then p.gamma * av p else 0)).sum := by
  have hmem : ∀ p ∈ localNoise procs a b, p ∈ procs ∧ IsLocal a b p :=
    fun p hp => (c03_localNoise_mem procs a b p).mp hp
  have h := c01_lottery_expectation_wellsited L (localNoise procs a b) 1 nrm n a0 av v0 v hn0 hn1
    (fun p hp => local_visited L a b hab hb p (hmem p hp).2 (hadj p (hmem p hp).1))
    (fun p hp => hP p (hmem p hp).1) hv0 ha0 hv (fun p hp => ha p (hmem p hp).1) d hd
  rw [h, c03_local_sum, c03_local_sum]
  have e1 : (procs.map (fun p => if IsLocal a b p then 1 * p.gamma * nrm p else 0)) =
      (procs.map (fun p => if IsLocal a b p then p.gamma * nrm p else 0)) := by
    apply List.map_congr_left; intro p _; split <;> grind
  have e2 : (procs.map (fun p => if IsLocal a b p then 1 * p.gamma * av p else 0)) =
      (procs.map (fun p => if IsLocal a b p then p.gamma * av p else 0)) := by
    apply List.map_congr_left; intro p _; split <;> grind
  rw [e1, e2]

/-- non-vacuity of `c03_local_expectation`: 3 sites, gate on (0,1), global list with a process on qubit 2 and
    unequal strengths in non-sweep order; squared norm 1/2 everywhere -/
example : (stepLottery 3 (localNoise [exX 1 (2/10), exX 2 (5/10), exXX 0 (7/10), exX 0 (1/10)] 0 1) 1
      (fun _ => 1/2) (1/2)).map (fun d => expect d (branchVal 1 (fun k => (k : Rat)))) =
    some (1/2 + (1 - 1/2) / ((2/10 + 7/10 + 1/10) * (1/2)) * ((2/10) * 0 + (7/10) * (1/2) + (1/10) * 1)) := by
  decide +kernel

/-! ### capstone -/

/-- **c03_partial** — placement and lottery in one statement.  For every gate sequence and every global process list
    (any order) of a noisy run, the operations are the gates in order with, after each two-qubit gate and nowhere
    else, `diss 1 local; lot 1 local`; and for each such lottery on a gate `(a,b)`, `a < b < L`, with a usable jump
    branch, the step is a probability distribution whose branch average is the first-order Kraus form of exactly the
    processes on `[a]`, `[b]`, `[a,b]` with unit duration.  (The comparison with `exp(𝓛_local)` to second order in the
    strengths is `c03_full`, cited.) -/
theorem c03_partial (L : Nat) (procs : List Proc) (hnoisy : isNoisy (some procs) = true) (gs : List Gate) :
    digitalOps (some procs) gs = gs.flatMap (fun g => DOp.gate g :: afterGate (some procs) g) ∧
    (∀ q, afterGate (some procs) (Gate.one q) = []) ∧
    (∀ q0 q1, afterGate (some procs) (Gate.two q0 q1) =
      [DOp.diss 1 (localNoise procs (min q0 q1) (max q0 q1)), DOp.lot 1 (localNoise procs (min q0 q1) (max q0 q1))]) ∧
    (∀ (a b : Nat) (nrm : Proc → Rat) (n a0 : Rat) (av : Proc → Rat) (v0 : Rat) (v : Nat → Rat) (d : Dist Branch),
      a < b → b < L → 0 ≤ n → n ≤ 1 →
      (∀ p ∈ procs, p.sites = [a, b] → p.pauli = true ∨ b = a + 1) →
      (∀ p ∈ procs, p.pauli = true → p.sites.length = 2 → nrm p = n) →
      (n ≠ 0 → v0 = a0 / n) → (n = 0 → a0 = 0) →
      (∀ k (h : k < (localNoise procs a b).length), nrm (localNoise procs a b)[k] ≠ 0 →
        v k = av (localNoise procs a b)[k] / nrm (localNoise procs a b)[k]) →
      (∀ p ∈ procs, nrm p = 0 → av p = 0) →
      stepLottery L (localNoise procs a b) 1 nrm n = some d →
      mass d = 1 ∧
      expect d (branchVal v0 v) =
        a0 + (1 - n) / (procs.map (fun p => if IsLocal a b p then p.gamma * nrm p else 0)).sum *
          (procs.map (fun p => if IsLocal a b p then p.gamma * av p else 0)).sum) := by
  refine ⟨(c03_noise_only_after_2q (some procs) gs).1, fun q => rfl,
    fun q0 q1 => c03_two_qubit_noise procs hnoisy q0 q1, ?_⟩
  intro a b nrm n a0 av v0 v d hab hb hn0 hn1 hadj hP hv0 ha0 hv ha hd
  exact ⟨c03_local_lottery_mass L procs a b nrm n d hd,
    c03_local_expectation L procs a b hab hb nrm n a0 av v0 v hn0 hn1 hadj hP hv0 ha0 hv ha d hd⟩

end Yaqs.Lottery
